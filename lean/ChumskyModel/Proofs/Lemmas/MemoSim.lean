/-
  Proofs/Lemmas/MemoSim.lean — C11: `memoized()` is transparent — the local (one-node) theorem, the table invariant,
  and the witnesses that every side condition is needed.   (The OFF side alone: MemoOff.lean.)

  The two runs:   ON  = `env` with `memoOn = true`   (the table `St.memo : (pos, id) ↦ some e | none` is consulted)
                  OFF = `env.withMemo false`        (`memoized id a` is `a`)

  What differs between them, even when the table is never hit:
    * ON shelters the pending error: the body runs from `alt = none` and the old pending error is merged back
      afterwards (`readdAlt`), OFF runs the body from the old pending error.  Hence the relation between the states
      carries an offset `o` ("what the ON run has set aside"): `alt_OFF ≈ o ⊕ alt_ON` (`MRel`), where `⊕` (`oplus`) is
      the priority rule of `add_alt_err`, associative and a congruence up to `OptLoc.equiv` (`oplus_assoc`, `oplus_congr`).
    * after a *hit* the ON run returns the state it was called with (plus the stored error), the OFF run returns the
      state at the point of failure.  So for failing runs only the frame is related (`FRel`: the secondary errors
      present at the start are still a prefix, the context is restored, the pending errors are related) — exactly
      what every caller needs, because every caller rewinds a failed sub-run to a checkpoint (cf. `FailRel` of I1).

  The table invariant `TableInv`: every stored `(p, id) ↦ some e` is the *contribution* of the body at `p`:
      from ANY state at position `p` (any pending error, secondary errors, inspector, context, mode) the OFF run of
      the body fails, keeps the frame, and leaves `alt ≈ alt_before ⊕ e`                       (`Contribution`).
  It is indexed by the runner each node's body is run with (`Rof id`): in a call-free grammar a node sits at a fixed
  depth, so its body always runs at the same fuel.  (With `call`, a hit saves fuel: ON can finish where OFF is out of
  fuel *at the same fuel* — a global statement for recursive grammars has to be "if OFF finishes at fuel n, …".)
  `TableOK` adds what a run promises about in-progress entries (`InProgSub`: none of its own is left behind), so that
  the no-re-entry precondition can be threaded through a global induction.

  Side conditions, all of them necessary (witnesses at the end of the file, `decide`d on the model):
    (i)   one body per memo id, not occurring inside itself  (`hB1`, `hid`;  `cex_sameId`: ON rejects what OFF accepts)
    (ii)  no re-entry while in progress           (`hNoProg`, `hNoProgA`; `cex_leftRec`: ON terminates, OFF runs out of fuel)
    (iii) the body's failure and contribution are determined by the position alone — not by the context, the
          inspector, the mode or the incoming pending error
                                                    (`PosDetermined`; `cex_ctx`:  ON rejects what OFF accepts)
    (iv)  the body is simulated in lock-step *with equal secondary errors* — false when a recovery strategy sits
          under `memoized`, because recovery emits the pending error, which is sheltered in one run only
                                                    (`hBody`;  `cex_recovery`: different secondary error)

  `step_memoized_transparent` proves, from the induction hypothesis for the body (`hBody`, in the offset form that a
  global induction over the fuel would supply) that one `memoized` node preserves the simulation in all three cases:
      miss/success (entry removed), miss/failure (entry stored — `TableInv` re-established from (iii)), and
      hit (`hit_replays`: `add_alt_err` with the stored error ≈ re-running the body).
  `memoized_top` is the reading at offset `none` (what a caller sees).
  `posDetermined_oneOf` / `tokenPrim_contribution`: (iii) holds for the one-token primitives (hypotheses satisfiable).

  NOT proved here: the global theorem `run n ON ≈ run n OFF` for a syntactic fragment.  It needs this file's relation
  pushed through all other constructors (the size of `DescSim.step_sim`, with `FRel`'s weak failure frame as in I1)
  plus (iii) for `run` (determinism in the position = I1 + independence of the PEG reading from `ctx`/`insp`, and the
  log of failure events being a function of the position).
-/
import ChumskyModel.Proofs.Lemmas.Summ
set_option linter.unusedSimpArgs false
set_option linter.unusedVariables false
namespace Chumsky

/-! ### `⊕`: merging a taken error back (the `alt` component of `readdAlt` / `addAltErr`) -/

def oplus (ek : ErrKind) (x y : Option Loc) : Option Loc :=
  match y with
  | none => x
  | some n =>
    match ek with
    | .empty => some n
    | ek => St.mergeAlt ek x n.pos n.err

@[simp] theorem oplus_none_right (ek : ErrKind) (x : Option Loc) : oplus ek x none = x := rfl

theorem oplus_some_empty (x : Option Loc) (n : Loc) : oplus .empty x (some n) = some n := rfl

theorem oplus_some_of_ne {ek : ErrKind} (h : ek ≠ .empty) (x : Option Loc) (n : Loc) :
    oplus ek x (some n) = St.mergeAlt ek x n.pos n.err := by
  cases ek <;> first | rfl | exact absurd rfl h

@[simp] theorem oplus_none_left (ek : ErrKind) (y : Option Loc) : oplus ek none y = y := by
  cases y with
  | none => rfl
  | some n => cases ek <;> rfl

theorem readdAlt_alt_oplus (env : Env) (st : St) (new : Option Loc) :
    (St.readdAlt env st new).alt = oplus env.ek st.alt new := by
  obtain ⟨toks, kind, tspans, eoi, ek, defs, memoOn⟩ := env
  cases new with
  | none => rfl
  | some n => cases ek <;> rfl

theorem addAltErr_alt_oplus (env : Env) (st : St) (p : Nat) (e : Err) :
    (St.addAltErr env st p e).alt = oplus env.ek st.alt (some ⟨p, e⟩) := by
  obtain ⟨toks, kind, tspans, eoi, ek, defs, memoOn⟩ := env
  cases ek <;> rfl

theorem oplus_isSome_right (ek : ErrKind) (x : Option Loc) {y : Option Loc} (h : y.isSome = true) :
    (oplus ek x y).isSome = true := by
  cases y with
  | none => cases h
  | some n =>
    by_cases he : ek = .empty
    · subst he; rfl
    · rw [oplus_some_of_ne he]; exact mergeAlt_isSome _ _ _ _

theorem oplus_congr {ek : ErrKind} {x x' y y' : Option Loc} (hx : OptLoc.equiv x x') (hy : OptLoc.equiv y y') :
    OptLoc.equiv (oplus ek x y) (oplus ek x' y') := by
  cases y with
  | none =>
    cases y' with
    | none => exact hx
    | some _ => exact hy.elim
  | some n =>
    cases y' with
    | none => exact hy.elim
    | some n' =>
      by_cases he : ek = .empty
      · subst he; exact hy
      · rw [oplus_some_of_ne he, oplus_some_of_ne he]; exact mergeAlt_congr_loc hx hy

/-- the priority rule is associative up to `equiv`: setting `y` aside and merging it back later changes nothing -/
theorem oplus_assoc (ek : ErrKind) (x y z : Option Loc) :
    OptLoc.equiv (oplus ek x (oplus ek y z)) (oplus ek (oplus ek x y) z) := by
  cases z with
  | none => exact OptLoc.equiv_refl _
  | some c =>
    by_cases he : ek = .empty
    · subst he; exact OptLoc.equiv_refl _
    · cases y with
      | none => simp only [oplus_none_left, oplus_none_right]; exact OptLoc.equiv_refl _
      | some m =>
        obtain ⟨n, hn⟩ := Option.isSome_iff_exists.mp (mergeAlt_isSome ek (some m) c.pos c.err)
        rw [oplus_some_of_ne he (some m), hn, oplus_some_of_ne he, oplus_some_of_ne he, oplus_some_of_ne he]
        exact mergeAlt_assoc x hn

/-! ### the memo table -/

theorem memoFind_filter_ne (key key' : Nat × Nat) (h : key' ≠ key) (memo : List ((Nat × Nat) × Option Loc)) :
    memoFind (memo.filter (fun kv => kv.1 != key)) key' = memoFind memo key' := by
  induction memo with
  | nil => rfl
  | cons kv rest ih =>
    obtain ⟨k, v⟩ := kv
    by_cases hk : k = key
    · have h1 : (k != key) = false := by simpa using hk
      have h2 : (k == key') = false := by simpa using fun h' : k = key' => h (h' ▸ hk)
      simp only [List.filter, h1, memoFind, h2, ih]
      rfl
    · have h1 : (k != key) = true := by simpa using hk
      simp only [List.filter, h1, memoFind, ih]

theorem memoFind_filter_self (key : Nat × Nat) (memo : List ((Nat × Nat) × Option Loc)) :
    memoFind (memo.filter (fun kv => kv.1 != key)) key = none := by
  induction memo with
  | nil => rfl
  | cons kv rest ih =>
    obtain ⟨k, v⟩ := kv
    by_cases hk : k = key
    · have h1 : (k != key) = false := by simpa using hk
      simp only [List.filter, h1, ih]
    · have h1 : (k != key) = true := by simpa using hk
      have h2 : (k == key) = false := by simpa using hk
      simp only [List.filter, h1, memoFind, h2, ih]
      rfl

theorem memoFind_insert_self (memo : List ((Nat × Nat) × Option Loc)) (key : Nat × Nat) (v : Option Loc) :
    memoFind (memoInsert memo key v) key = some v := by
  simp [memoInsert, memoFind]

theorem memoFind_insert_ne (memo : List ((Nat × Nat) × Option Loc)) (key key' : Nat × Nat) (v : Option Loc)
    (h : key' ≠ key) : memoFind (memoInsert memo key v) key' = memoFind memo key' := by
  have : (key == key') = false := by simpa using fun h' => h h'.symm
  simp only [memoInsert, memoFind, this]
  exact memoFind_filter_ne key key' h memo

theorem memoFind_remove_self (memo : List ((Nat × Nat) × Option Loc)) (key : Nat × Nat) :
    memoFind (memoRemove memo key) key = none := memoFind_filter_self key memo

theorem memoFind_remove_ne (memo : List ((Nat × Nat) × Option Loc)) (key key' : Nat × Nat) (h : key' ≠ key) :
    memoFind (memoRemove memo key) key' = memoFind memo key' := memoFind_filter_ne key key' h memo

/-! ### the relations -/

/-- the same environment with memoization switched on/off -/
def Env.withMemo (env : Env) (b : Bool) : Env := { env with memoOn := b }

@[simp] theorem Env.withMemo_ek (env : Env) (b : Bool) : (env.withMemo b).ek = env.ek := rfl
@[simp] theorem Env.withMemo_memoOn (env : Env) (b : Bool) : (env.withMemo b).memoOn = b := rfl

/-- ON state `s` vs OFF state `t`, lock-step: everything but the pending error (and the table and the ghost log) is
    equal; the OFF run still carries what the ON run has set aside (`o`) -/
structure MRel (ek : ErrKind) (o : Option Loc) (s t : St) : Prop where
  pos : s.pos = t.pos
  errs : s.errs = t.errs
  insp : s.insp = t.insp
  ctx : s.ctx = t.ctx
  alt : OptLoc.equiv t.alt (oplus ek o s.alt)

/-- after a failure only the frame is related: `base` = the secondary errors at the start of the run, `c` = the
    caller's context (callers rewind `pos`, `insp` and the secondary errors beyond `base`) -/
structure FRel (ek : ErrKind) (o : Option Loc) (base : List Loc) (c : Val) (s t : St) : Prop where
  errsL : base <+: s.errs
  errsR : base <+: t.errs
  ctxL : s.ctx = c
  ctxR : t.ctx = c
  some : s.alt.isSome = true
  alt : OptLoc.equiv t.alt (oplus ek o s.alt)

/-- outcome of the ON run vs outcome of the OFF run; `TI` = the table invariant (of the ON state) -/
def MOutRel (ek : ErrKind) (TI : List ((Nat × Nat) × Option Loc) → Prop) (o : Option Loc) (base : List Loc) (c : Val) :
    Out → Out → Prop
  | .ok v s, .ok v' t => v = v' ∧ MRel ek o s t ∧ TI s.memo
  | .fail s, .fail t => FRel ek o base c s t ∧ TI s.memo
  | .panic w, .panic w' => w = w'
  | .oof, .oof => True
  | _, _ => False

/-- "`e` is what `a` contributes at position `p`": from every state at `p` the (OFF) run of `a` fails, keeps the
    frame and merges `e` into the pending error -/
def Contribution (R' : Runner) (env' : Env) (a : G) (p : Nat) (e : Loc) : Prop :=
  ∀ (m : Mode) (t : St), t.pos = p →
    ∃ t1, R' env' m a t = .fail t1 ∧ t.errs <+: t1.errs ∧ t1.ctx = t.ctx ∧
      OptLoc.equiv t1.alt (oplus env'.ek t.alt (some e))

theorem Contribution.congr {R' : Runner} {env' : Env} {a : G} {p : Nat} {e e' : Loc}
    (h : Contribution R' env' a p e) (he : e.equiv e') : Contribution R' env' a p e' := by
  intro m t ht
  obtain ⟨t1, h1, h2, h3, h4⟩ := h m t ht
  exact ⟨t1, h1, h2, h3, OptLoc.equiv_trans h4 (oplus_congr (OptLoc.equiv_refl _) he)⟩

/-- (iii): if the body fails once at a position, it has a contribution there (it fails from every state at that
    position, in every mode, with the same error merged in) -/
def PosDetermined (R' : Runner) (env' : Env) (a : G) : Prop :=
  ∀ (m : Mode) (t t1 : St), R' env' m a t = .fail t1 → ∃ e, Contribution R' env' a t.pos e

/-- the table invariant: every stored failure is the contribution of (every) body with that id.
    `B id a` = "`memoized id a` is a node of the grammar"; `Rof id` = the (OFF) runner the body of node `id` is run with
    (in a call-free grammar a node sits at a fixed depth, so its body always runs at the same fuel) -/
def TableInv (B : Nat → G → Prop) (Rof : Nat → Runner) (env' : Env) (memo : List ((Nat × Nat) × Option Loc)) : Prop :=
  ∀ (p id : Nat) (e : Loc), memoFind memo (p, id) = some (some e) → ∀ a, B id a → Contribution (Rof id) env' a p e

theorem TableInv.nil (B : Nat → G → Prop) (Rof : Nat → Runner) (env' : Env) : TableInv B Rof env' [] := by
  intro p id e h; cases h

theorem TableInv.remove {B Rof env' memo} (h : TableInv B Rof env' memo) (key : Nat × Nat) :
    TableInv B Rof env' (memoRemove memo key) := by
  intro p id e hf a ha
  by_cases hk : (p, id) = key
  · rw [hk, memoFind_remove_self] at hf; cases hf
  · rw [memoFind_remove_ne _ _ _ hk] at hf; exact h p id e hf a ha

theorem TableInv.insert_none {B Rof env' memo} (h : TableInv B Rof env' memo) (key : Nat × Nat) :
    TableInv B Rof env' (memoInsert memo key none) := by
  intro p id e hf a ha
  by_cases hk : (p, id) = key
  · rw [hk, memoFind_insert_self] at hf; cases hf
  · rw [memoFind_insert_ne _ _ _ _ hk] at hf; exact h p id e hf a ha

theorem TableInv.insert_some {B Rof env' memo} (h : TableInv B Rof env' memo) (p id : Nat) (e : Loc)
    (he : ∀ a, B id a → Contribution (Rof id) env' a p e) :
    TableInv B Rof env' (memoInsert memo (p, id) (some e)) := by
  intro p' id' e' hf a ha
  by_cases hk : (p', id') = (p, id)
  · rw [hk, memoFind_insert_self] at hf
    cases hf
    cases hk
    exact he a ha
  · rw [memoFind_insert_ne _ _ _ _ hk] at hf; exact h p' id' e' hf a ha

/-- no new in-progress entry: what is in progress in `memo` was already in progress in `memo0` -/
def InProgSub (memo0 memo : List ((Nat × Nat) × Option Loc)) : Prop :=
  ∀ key, memoFind memo key = some none → memoFind memo0 key = some none

/-- what a run guarantees about the table it leaves: the invariant, and no in-progress entry of its own -/
def TableOK (B : Nat → G → Prop) (Rof : Nat → Runner) (env' : Env) (memo0 memo : List ((Nat × Nat) × Option Loc)) :
    Prop :=
  TableInv B Rof env' memo ∧ InProgSub memo0 memo

theorem addAltErr_memo (env : Env) (st : St) (p : Nat) (e : Err) : (St.addAltErr env st p e).memo = st.memo := by
  obtain ⟨toks, kind, tspans, eoi, ek, defs, memoOn⟩ := env
  cases ek <;> rfl

/-! ### the key lemma: a hit replays the contribution -/

/-- ON: `add_alt_err` with the stored error.  OFF: re-running the body.  Same failure frame, related pending errors. -/
theorem hit_replays {R' : Runner} {env : Env} {a : G} {o : Option Loc} {st t : St} {e : Loc} (m : Mode)
    (hrel : MRel env.ek o st t) (hc : Contribution R' (env.withMemo false) a st.pos e) :
    ∃ t1, R' (env.withMemo false) m a t = .fail t1 ∧
      FRel env.ek o st.errs st.ctx (St.addAltErr env st e.pos e.err) t1 := by
  obtain ⟨t1, h1, h2, h3, h4⟩ := hc m t hrel.pos.symm
  refine ⟨t1, h1, ?_⟩
  have halt : (St.addAltErr env st e.pos e.err).alt = oplus env.ek st.alt (some e) := addAltErr_alt_oplus ..
  have hrest : (St.addAltErr env st e.pos e.err).errs = st.errs ∧ (St.addAltErr env st e.pos e.err).ctx = st.ctx := by
    obtain ⟨toks, kind, tspans, eoi, ek, defs, memoOn⟩ := env
    cases ek <;> exact ⟨rfl, rfl⟩
  refine ⟨hrest.1 ▸ List.prefix_refl _, hrel.errs ▸ h2, hrest.2, h3.trans hrel.ctx.symm, ?_, ?_⟩
  · rw [halt]; exact oplus_isSome_right _ _ rfl
  · rw [halt]
    -- t1.alt ≈ t.alt ⊕ e ≈ (o ⊕ st.alt) ⊕ e ≈ o ⊕ (st.alt ⊕ e)
    refine OptLoc.equiv_trans h4 ?_
    refine OptLoc.equiv_trans (oplus_congr hrel.alt (OptLoc.equiv_refl _)) ?_
    exact OptLoc.equiv_symm (oplus_assoc _ _ _ _)

/-! ### one `memoized` node -/

theorem step_memoized_off (R' : Runner) (N' : NextRunner) (K' : MkRunner) (L : Nat) (env : Env) (m : Mode) (id : Nat)
    (a : G) (t : St) : step R' N' K' L (env.withMemo false) m (.memoized id a) t = R' (env.withMemo false) m a t := by
  simp only [step, Env.withMemo_memoOn, Bool.not_false, if_true]

theorem step_memoized_on (R : Runner) (N : NextRunner) (K : MkRunner) (L : Nat) (env : Env) (hon : env.memoOn = true)
    (m : Mode) (id : Nat) (a : G) (st : St) :
    step R N K L env m (.memoized id a) st =
      match memoFind st.memo (st.pos, id) with
      | some (some e) => .fail (St.addAltErr env st e.pos e.err)
      | some none => .fail (st.addAlt env [] none (env.mkSpan st.pos st.pos))
      | none =>
        match R env m a { st with memo := memoInsert st.memo (st.pos, id) none, alt := none } with
        | .panic w => .panic w
        | .oof => .oof
        | .ok v st1 =>
          .ok v { St.readdAlt env { st1 with alt := st.alt } st1.alt with
                  memo := memoRemove (St.readdAlt env { st1 with alt := st.alt } st1.alt).memo (st.pos, id) }
        | .fail st1 =>
          .fail { St.readdAlt env { st1 with alt := st.alt } st1.alt with
                  memo := memoInsert (St.readdAlt env { st1 with alt := st.alt } st1.alt).memo (st.pos, id) st1.alt } := by
  simp only [step, hon, Bool.not_true, Bool.false_eq_true, if_false]
  rfl

theorem readdAlt_frame (env : Env) (st : St) (new : Option Loc) :
    (St.readdAlt env st new).pos = st.pos ∧ (St.readdAlt env st new).errs = st.errs ∧
    (St.readdAlt env st new).insp = st.insp ∧ (St.readdAlt env st new).ctx = st.ctx ∧
    (St.readdAlt env st new).memo = st.memo := by
  obtain ⟨toks, kind, tspans, eoi, ek, defs, memoOn⟩ := env
  cases new with
  | none => exact ⟨rfl, rfl, rfl, rfl, rfl⟩
  | some n => cases ek <;> exact ⟨rfl, rfl, rfl, rfl, rfl⟩

/-- **C11, one node.**  If the body is simulated (`hBody`: the induction hypothesis, for every offset and every pair
    of related states with a valid table), then so is `memoized id a`: ON (table consulted, pending error sheltered)
    against OFF (`a` itself), in the miss/success, miss/failure and hit cases, and the table invariant is
    re-established. -/
theorem step_memoized_transparent {R R' : Runner} {N N' : NextRunner} {K K' : MkRunner} (L : Nat)
    {env : Env} (hon : env.memoOn = true) {B : Nat → G → Prop} {Rof : Nat → Runner} {id : Nat} {a : G}
    (hRof : Rof id = R')                                                   -- this node's body runs with `R'`
    (hB : B id a) (hB1 : ∀ a', B id a' → a' = a)                          -- (i) one body per id
    (ids : Nat → Prop) (hid : ¬ ids id)                                    -- (i) `ids` = the memo ids inside `a`
    (hPD : PosDetermined R' (env.withMemo false) a)                        -- (iii)
    (m : Mode)
    (hBody : ∀ (o : Option Loc) (s t : St), MRel env.ek o s t → TableInv B Rof (env.withMemo false) s.memo →
        (∀ p i, ids i → memoFind s.memo (p, i) ≠ some none) →
        MOutRel env.ek (TableOK B Rof (env.withMemo false) s.memo) o s.errs s.ctx
          (R env m a s) (R' (env.withMemo false) m a t))                   -- (iv) the induction hypothesis
    {o : Option Loc} {st t : St} (hrel : MRel env.ek o st t)
    (hTI : TableInv B Rof (env.withMemo false) st.memo)
    (hNoProg : ∀ p, memoFind st.memo (p, id) ≠ some none)                 -- (ii) no re-entry: this node …
    (hNoProgA : ∀ p i, ids i → memoFind st.memo (p, i) ≠ some none) :     -- … and the nodes inside
    MOutRel env.ek (TableOK B Rof (env.withMemo false) st.memo) o st.errs st.ctx
      (step R N K L env m (.memoized id a) st)
      (step R' N' K' L (env.withMemo false) m (.memoized id a) t) := by
  -- the body's precondition in the table with this node in progress
  have hNP0 : ∀ p i, ids i → memoFind (memoInsert st.memo (st.pos, id) none) (p, i) ≠ some none := by
    intro p i hi
    have hne : (p, i) ≠ (st.pos, id) := fun h => hid ((Prod.mk.inj h).2 ▸ hi)
    rw [memoFind_insert_ne _ _ _ _ hne]; exact hNoProgA p i hi
  -- in-progress entries of the table with this node in progress, minus this node, are those of `st.memo`
  have hIP0 : ∀ key, key ≠ (st.pos, id) → memoFind (memoInsert st.memo (st.pos, id) none) key = some none →
      memoFind st.memo key = some none := by
    intro key hk h; rwa [memoFind_insert_ne _ _ _ _ hk] at h
  rw [step_memoized_off, step_memoized_on R N K L env hon]
  cases hf : memoFind st.memo (st.pos, id) with
  | some v =>
    cases v with
    | none => exact absurd hf (hNoProg _)
    | some e =>
      -- hit
      obtain ⟨t1, h1, h2⟩ := hit_replays (R' := R') m hrel (hRof ▸ hTI _ _ _ hf a hB)
      simp only [h1]
      exact ⟨h2, (addAltErr_memo env st e.pos e.err).symm ▸ hTI, (addAltErr_memo env st e.pos e.err).symm ▸ fun _ h => h⟩
  | none =>
    -- miss: the body runs with the pending error set aside
    have hrel0 : MRel env.ek (oplus env.ek o st.alt)
        { st with memo := memoInsert st.memo (st.pos, id) none, alt := none } t :=
      ⟨hrel.pos, hrel.errs, hrel.insp, hrel.ctx, hrel.alt⟩
    have h0 := hBody _ _ t hrel0 (hTI.insert_none (st.pos, id)) hNP0
    simp only at h0 ⊢
    cases hr : R env m a { st with memo := memoInsert st.memo (st.pos, id) none, alt := none } with
    | panic w => rw [hr] at h0; cases hr' : R' (env.withMemo false) m a t <;> simp_all [MOutRel]
    | oof => rw [hr] at h0; cases hr' : R' (env.withMemo false) m a t <;> simp_all [MOutRel]
    | ok v s1 =>
      rw [hr] at h0
      cases hr' : R' (env.withMemo false) m a t with
      | ok v' t1 =>
        rw [hr'] at h0
        obtain ⟨hv, hm, hti, hip⟩ := h0
        obtain ⟨f1, f2, f3, f4, f5⟩ := readdAlt_frame env { s1 with alt := st.alt } s1.alt
        refine ⟨hv, ⟨f1.trans hm.pos, f2.trans hm.errs, f3.trans hm.insp, f4.trans hm.ctx, ?_⟩, ?_⟩
        · -- t1.alt ≈ (o ⊕ old) ⊕ new ≈ o ⊕ (old ⊕ new)
          show OptLoc.equiv t1.alt (oplus env.ek o (St.readdAlt env { s1 with alt := st.alt } s1.alt).alt)
          rw [readdAlt_alt_oplus]
          exact OptLoc.equiv_trans hm.alt (OptLoc.equiv_symm (oplus_assoc _ _ _ _))
        · show TableOK B Rof (env.withMemo false) st.memo
            (memoRemove (St.readdAlt env { s1 with alt := st.alt } s1.alt).memo (st.pos, id))
          rw [f5]
          refine ⟨hti.remove _, ?_⟩
          intro key hkey
          by_cases hk : key = (st.pos, id)
          · rw [hk, memoFind_remove_self] at hkey; cases hkey
          · rw [memoFind_remove_ne _ _ _ hk] at hkey; exact hIP0 key hk (hip key hkey)
      | _ => rw [hr'] at h0; exact h0.elim
    | fail s1 =>
      rw [hr] at h0
      cases hr' : R' (env.withMemo false) m a t with
      | fail t1 =>
        rw [hr'] at h0
        obtain ⟨hfr, hti, hip⟩ := h0
        obtain ⟨f1, f2, f3, f4, f5⟩ := readdAlt_frame env { s1 with alt := st.alt } s1.alt
        obtain ⟨e, he⟩ := Option.isSome_iff_exists.mp hfr.some
        have e1 : st.errs <+: (St.readdAlt env { s1 with alt := st.alt } s1.alt).errs := by
          rw [f2]; exact hfr.errsL
        refine ⟨⟨e1, hfr.errsR, f4.trans hfr.ctxL, hfr.ctxR, ?_, ?_⟩, ?_⟩
        · show (St.readdAlt env { s1 with alt := st.alt } s1.alt).alt.isSome = true
          rw [readdAlt_alt_oplus]; exact oplus_isSome_right _ _ hfr.some
        · show OptLoc.equiv t1.alt (oplus env.ek o (St.readdAlt env { s1 with alt := st.alt } s1.alt).alt)
          rw [readdAlt_alt_oplus]
          exact OptLoc.equiv_trans hfr.alt (OptLoc.equiv_symm (oplus_assoc _ _ _ _))
        · -- the stored entry is the contribution of the body: run the body (OFF) from an empty pending error
          show TableOK B Rof (env.withMemo false) st.memo
            (memoInsert (St.readdAlt env { s1 with alt := st.alt } s1.alt).memo (st.pos, id) s1.alt)
          rw [f5, he]
          refine ⟨hti.insert_some _ _ _ ?_, ?_⟩
          rotate_left
          · intro key hkey
            by_cases hk : key = (st.pos, id)
            · rw [hk, memoFind_insert_self] at hkey; cases hkey
            · rw [memoFind_insert_ne _ _ _ _ hk] at hkey; exact hIP0 key hk (hip key hkey)
          intro a' ha'
          rw [hB1 a' ha', hRof]
          have hrelN : MRel env.ek none
              { st with memo := memoInsert st.memo (st.pos, id) none, alt := none } { t with alt := none } :=
            ⟨hrel.pos, hrel.errs, hrel.insp, hrel.ctx, trivial⟩
          have hN := hBody _ _ _ hrelN (hTI.insert_none (st.pos, id)) hNP0
          simp only at hN
          rw [hr] at hN
          cases hrn : R' (env.withMemo false) m a { t with alt := none } with
          | fail tn =>
            rw [hrn] at hN
            obtain ⟨c, hc⟩ := hPD m _ _ hrn
            obtain ⟨tn', hn1, _, _, hn4⟩ := hc m { t with alt := none } rfl
            rw [hrn] at hn1; cases hn1
            -- `some e = s1.alt ≈ tn.alt ≈ some c`
            have h1 : OptLoc.equiv tn.alt (some e) := by
              have := hN.1.alt; rwa [oplus_none_left, he] at this
            have h2 : OptLoc.equiv tn.alt (some c) := by
              rwa [Env.withMemo_ek, oplus_none_left] at hn4
            have hce : c.equiv e := OptLoc.equiv_trans (OptLoc.equiv_symm h2) h1
            have hpos : ({ t with alt := none } : St).pos = st.pos := hrel.pos.symm
            exact (hpos ▸ hc).congr hce
          | _ => rw [hrn] at hN; exact hN.elim
      | _ => rw [hr'] at h0; exact h0.elim

/-! ### what a caller sees (offset `none`) -/

theorem MRel.refl_none (ek : ErrKind) (s : St) : MRel ek none s s :=
  ⟨rfl, rfl, rfl, rfl, by rw [oplus_none_left]; exact OptLoc.equiv_refl _⟩

/-- at offset `none` the pending errors themselves are equivalent -/
theorem MRel.alt_none {ek : ErrKind} {s t : St} (h : MRel ek none s t) : OptLoc.equiv s.alt t.alt := by
  have := h.alt; rw [oplus_none_left] at this; exact OptLoc.equiv_symm this

theorem FRel.alt_none {ek : ErrKind} {base : List Loc} {c : Val} {s t : St} (h : FRel ek none base c s t) :
    OptLoc.equiv s.alt t.alt := by
  have := h.alt; rw [oplus_none_left] at this; exact OptLoc.equiv_symm this

/-- `step_memoized_transparent` from two states that agree up to the table: same outcome; on success the same value,
    cursor, secondary errors, inspector and context, and equivalent pending errors; on failure equivalent pending
    errors, and both states still extend the secondary errors / carry the context they were called with -/
theorem memoized_top {R R' : Runner} {N N' : NextRunner} {K K' : MkRunner} (L : Nat)
    {env : Env} (hon : env.memoOn = true) {B : Nat → G → Prop} {Rof : Nat → Runner} {id : Nat} {a : G}
    (hRof : Rof id = R') (hB : B id a) (hB1 : ∀ a', B id a' → a' = a) (ids : Nat → Prop) (hid : ¬ ids id)
    (hPD : PosDetermined R' (env.withMemo false) a) (m : Mode)
    (hBody : ∀ (o : Option Loc) (s t : St), MRel env.ek o s t → TableInv B Rof (env.withMemo false) s.memo →
        (∀ p i, ids i → memoFind s.memo (p, i) ≠ some none) →
        MOutRel env.ek (TableOK B Rof (env.withMemo false) s.memo) o s.errs s.ctx
          (R env m a s) (R' (env.withMemo false) m a t))
    (st : St) (memo' : List ((Nat × Nat) × Option Loc)) (hTI : TableInv B Rof (env.withMemo false) st.memo)
    (hNoProg : ∀ p, memoFind st.memo (p, id) ≠ some none)
    (hNoProgA : ∀ p i, ids i → memoFind st.memo (p, i) ≠ some none) :
    match step R N K L env m (.memoized id a) st,
          step R' N' K' L (env.withMemo false) m (.memoized id a) { st with memo := memo' } with
    | .ok v s, .ok v' t => v = v' ∧ s.pos = t.pos ∧ s.errs = t.errs ∧ s.insp = t.insp ∧ s.ctx = t.ctx ∧
        OptLoc.equiv s.alt t.alt
    | .fail s, .fail t => OptLoc.equiv s.alt t.alt ∧ s.alt.isSome = true ∧ st.errs <+: s.errs ∧ st.errs <+: t.errs ∧
        s.ctx = st.ctx ∧ t.ctx = st.ctx
    | .panic w, .panic w' => w = w'
    | .oof, .oof => True
    | _, _ => False := by
  have hrel : MRel env.ek none st { st with memo := memo' } :=
    ⟨rfl, rfl, rfl, rfl, by rw [oplus_none_left]; exact OptLoc.equiv_refl _⟩
  have h := step_memoized_transparent (N := N) (N' := N') (K := K) (K' := K') L hon hRof hB hB1 ids hid hPD m hBody hrel hTI hNoProg
    hNoProgA
  cases h1 : step R N K L env m (.memoized id a) st <;>
    cases h2 : step R' N' K' L (env.withMemo false) m (.memoized id a) { st with memo := memo' } <;>
    rw [h1, h2] at h <;> simp only [MOutRel] at h ⊢
  · exact ⟨h.1, h.2.1.pos, h.2.1.errs, h.2.1.insp, h.2.1.ctx, h.2.1.alt_none⟩
  · exact ⟨h.1.alt_none, h.1.some, h.1.errsL, h.1.errsR, h.1.ctxL, h.1.ctxR⟩
  · exact h

/-! ### (iii) holds for the one-token primitives (the hypotheses are satisfiable; the table invariant is about this) -/

theorem addAlt_contrib (env : Env) (st : St) (exp : List Pat) (found : Option Nat) (span : Nat × Nat) :
    (st.addAlt env exp found span).errs = st.errs ∧ (st.addAlt env exp found span).ctx = st.ctx ∧
    OptLoc.equiv (st.addAlt env exp found span).alt
      (oplus env.ek st.alt (some ⟨st.pos, env.ek.expectedFound exp found span⟩)) := by
  refine ⟨by unfold St.addAlt; split <;> rfl, by unfold St.addAlt; split <;> rfl, ?_⟩
  by_cases he : env.ek = .empty
  · obtain ⟨toks, kind, tspans, eoi, ek, defs, memoOn⟩ := env
    cases he
    exact OptLoc.equiv_refl _
  · rw [oplus_some_of_ne he]
    exact addAlt_alt_equiv env st exp found span he

theorem tokenPrim_contribution (env : Env) (accept : Nat → Option Val) (exp : List Pat) (p : Nat)
    (h : (env.toks[p]?).bind accept = none) :
    ∃ e : Loc, ∀ (m : Mode) (t : St), t.pos = p →
      ∃ t1, tokenPrim env m t accept exp = .fail t1 ∧ t.errs <+: t1.errs ∧ t1.ctx = t.ctx ∧
        OptLoc.equiv t1.alt (oplus env.ek t.alt (some e)) := by
  cases htok : env.toks[p]? with
  | none =>
    refine ⟨⟨p, env.ek.expectedFound exp none (env.mkSpan p p)⟩, ?_⟩
    intro m t ht
    subst ht
    have hn : t.next env = (none, t) := by simp [St.next, htok]
    obtain ⟨c1, c2, c3⟩ := addAlt_contrib env (t.rewind t.save) exp none (env.mkSpan t.pos t.pos)
    refine ⟨(t.rewind t.save).addAlt env exp none (env.mkSpan t.pos t.pos), ?_, ?_, c2, c3⟩
    · simp [tokenPrim, hn, St.save]
    · rw [c1]; simp [St.rewind, St.save]
  | some x =>
    rw [htok] at h
    have hx : accept x = none := h
    refine ⟨⟨p, env.ek.expectedFound exp (some x) (env.mkSpan p (p + 1))⟩, ?_⟩
    intro m t ht
    subst ht
    have hn : t.next env = (some x, { t with pos := t.pos + 1, insp := t.insp ++ [x] }) := by simp [St.next, htok]
    obtain ⟨c1, c2, c3⟩ := addAlt_contrib env (({ t with pos := t.pos + 1, insp := t.insp ++ [x] } : St).rewind t.save)
      exp (some x) (env.mkSpan t.pos (t.pos + 1))
    refine ⟨(({ t with pos := t.pos + 1, insp := t.insp ++ [x] } : St).rewind t.save).addAlt env exp (some x)
      (env.mkSpan t.pos (t.pos + 1)), ?_, ?_, c2, c3⟩
    · simp [tokenPrim, hn, St.save, hx]
    · rw [c1]; simp [St.rewind, St.save]

/-- (iii) for `one_of`: the table invariant can be established for it, whatever the runners -/
theorem posDetermined_oneOf (R : Runner) (N : NextRunner) (K : MkRunner) (L : Nat) (env : Env) (ts : List Nat) :
    PosDetermined (step R N K L) env (.oneOf ts) := by
  intro m t t1 hfail
  have hstep : ∀ m t, step R N K L env m (.oneOf ts) t =
      tokenPrim env m t (fun x => if ts.contains x then some (.tok x) else none) (ts.map .tok) := fun _ _ => rfl
  have hb : (env.toks[t.pos]?).bind (fun x => if ts.contains x then some (Val.tok x) else none) = none := by
    rw [hstep] at hfail
    cases htok : env.toks[t.pos]? with
    | none => rfl
    | some x =>
      by_cases hc : x ∈ ts
      · simp [tokenPrim, St.next, htok, hc] at hfail
      · simp [hc]
  obtain ⟨e, he⟩ := tokenPrim_contribution env _ (ts.map .tok) t.pos hb
  exact ⟨e, fun m' t' ht' => by rw [hstep]; exact he m' t' ht'⟩

/-! ### every side condition is needed (evaluated on the model) -/

/-- `some true` = an output was produced, `some false` = none, `none` = panic / out of fuel -/
def TopOut.accepted : TopOut → Option Bool
  | .result r _ => some r.output.isSome
  | _ => none

def TopOut.errSpans : TopOut → List (Nat × Nat)
  | .result r _ => r.errs.map (·.span)
  | _ => []

/-- (iii) a context-sensitive body: `just(..).configure(|cfg, ctx| cfg.seq(ctx))` memoized once, used under two
    contexts at the same position.  The failure recorded under the first context is replayed under the second:
    ON rejects the input `[2]`, OFF accepts it. -/
theorem cex_ctx :
    let defs : List G := [.memoized 1 (.configureJust .seqFromCtx [])]
    let g : G := .choice .tuple [.withCtx (.toks [1]) (.call 0), .withCtx (.toks [2]) (.call 0)]
    (parseTop 20 { toks := [2], defs := defs, memoOn := true } .emit g).accepted = some false ∧
    (parseTop 20 { toks := [2], defs := defs, memoOn := false } .emit g).accepted = some true := by
  decide +kernel

/-- (i) two different bodies under one id (cf. D9/D10: the key of the library is the address of a field) -/
theorem cex_sameId :
    let g : G := .or_ (.memoized 1 (.just [1])) (.memoized 1 (.just [2]))
    (parseTop 20 { toks := [2], memoOn := true } .emit g).accepted = some false ∧
    (parseTop 20 { toks := [2], memoOn := false } .emit g).accepted = some true := by
  decide +kernel

/-- (ii) left recursion `e := memoized(e 1 | 2)`: ON cuts the re-entry and parses `[2]`, OFF never terminates
    (out of fuel at every fuel; shown for 30) -/
theorem cex_leftRec :
    let defs : List G := [.memoized 1 (.or_ (.then_ (.call 0) (.just [1])) (.just [2]))]
    (parseTop 30 { toks := [2], defs := defs, memoOn := true } .emit (.call 0)).accepted = some true ∧
    parseTop 30 { toks := [2], defs := defs, memoOn := false } .emit (.call 0) = .oof := by
  decide +kernel

/-- (iv) a recovery strategy under `memoized`: recovery emits the pending error, which ON has sheltered.  Both runs
    accept `[1, 2]` with one secondary error, but not the same one. -/
theorem cex_recovery :
    let g : G := .or_ (.then_ .any (.just [5])) (.memoized 1 (.recoverVia (.just [7]) (.then_ .any .any)))
    (parseTop 30 { toks := [1, 2], memoOn := true } .emit g).errSpans = [(0, 1)] ∧
    (parseTop 30 { toks := [1, 2], memoOn := false } .emit g).errSpans = [(1, 2)] := by
  decide +kernel

/-- with `call`, a hit saves fuel: the same node is reached at two depths, the second time ON replays the stored
    failure while OFF has to re-run the body one level deeper.  At fuel 7 ON has finished, OFF has not (at fuel 8
    both have, with the same result).  So across `call` the comparison cannot be "at the same fuel". -/
theorem cex_fuel :
    let defs : List G := [.memoized 1 (.just [1])]
    let g : G := .or_ (.call 0) (.boxed (.boxed (.boxed (.call 0))))
    (parseTop 7 { toks := [2], defs := defs, memoOn := true } .emit g).accepted = some false ∧
    parseTop 7 { toks := [2], defs := defs, memoOn := false } .emit g = .oof ∧
    (parseTop 8 { toks := [2], defs := defs, memoOn := false } .emit g).accepted = some false := by
  decide +kernel

#print axioms oplus_assoc
#print axioms hit_replays
#print axioms step_memoized_transparent
#print axioms memoized_top
#print axioms posDetermined_oneOf
#print axioms cex_ctx
#print axioms cex_sameId
#print axioms cex_leftRec
#print axioms cex_recovery
#print axioms cex_fuel
end Chumsky
