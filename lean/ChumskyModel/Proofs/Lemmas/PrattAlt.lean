/-
  C06 for Pratt parsers: `pratt_go` preserves the pending-error invariant (pending error ≈ fold of the priority rule over
  all failure events logged) — its rewinds after operators whose operand is missing never touch the pending error — so
  when `atom.pratt(ops)` fails the reported primary error is the summary of ALL failure events: furthest position, merged
  expectations. Plain tables over `c06` atom / operator grammars, and recursive expression grammars (`XEnv`).
-/
import ChumskyModel.Model.Pratt
import ChumskyModel.Proofs.Lemmas.AltInv
set_option linter.unusedSimpArgs false
set_option linter.unusedVariables false
namespace Chumsky

def PrattOp.g : PrattOp → G
  | .infix _ _ op => op
  | .prefix _ op => op
  | .postfix _ op => op

def opsC06 : List PrattOp → Bool
  | [] => true
  | o :: os => o.g.c06 && opsC06 os

def SumAR (ek : ErrKind) (st0 : St) : Sum St Out → Prop
  | .inl st' => AltRel ek st0 st'
  | .inr o => o.AR ek st0

variable {R : Mode → G → St → Out} {rec : Nat → St → Out} {ek : ErrKind}

/-- hypothesis on the atom / operator parsers -/
def PAR (R : Mode → G → St → Out) (ek : ErrKind) : Prop := ∀ m g st, g.c06 = true → (R m g st).AR ek st
def RecAR (rec : Nat → St → Out) (ek : ErrKind) : Prop := ∀ p st, (rec p st).AR ek st

theorem rewind_altRel {a b : St} (h : AltRel ek a b) (c : Chk) : AltRel ek a (b.rewind c) := h.right rfl rfl

theorem prattPrefix_AR (hR : PAR R ek) (hrec : RecAR rec ek) (env : Env) (m : Mode) (c : Chk) :
    ∀ (ops : List PrattOp) (st0 st : St), opsC06 ops = true → AltRel ek st0 st →
      SumAR ek st0 (prattPrefix R rec env m c ops st)
  | [], st0, st, _, h0 => h0
  | .prefix bp op :: rest, st0, st, hops, h0 => by
    simp only [opsC06, PrattOp.g, Bool.and_eq_true] at hops
    simp only [prattPrefix]
    have h := hR m op st hops.1
    generalize R m op st = o at h ⊢
    cases o with
    | ok opv st1 =>
      dsimp only
      have h2 := hrec (2 * bp) st1
      generalize rec (2 * bp) st1 = o2 at h2 ⊢
      cases o2 with
      | ok rhs st2 => exact (h0.trans h).trans h2
      | fail st2 =>
        exact prattPrefix_AR hR hrec env m c rest st0 _ hops.2 (rewind_altRel ((h0.trans h).trans h2.toRel) c)
      | panic w => trivial
      | oof => trivial
    | fail st1 => exact prattPrefix_AR hR hrec env m c rest st0 _ hops.2 (rewind_altRel (h0.trans h.toRel) c)
    | panic w => trivial
    | oof => trivial
  | .infix _ _ _ :: rest, st0, st, hops, h0 => by
    simp only [opsC06, Bool.and_eq_true] at hops
    simp only [prattPrefix]; exact prattPrefix_AR hR hrec env m c rest st0 st hops.2 h0
  | .postfix _ _ :: rest, st0, st, hops, h0 => by
    simp only [opsC06, Bool.and_eq_true] at hops
    simp only [prattPrefix]; exact prattPrefix_AR hR hrec env m c rest st0 st hops.2 h0

theorem prattPostfix_AR (hR : PAR R ek) (env : Env) (m : Mode) (c c' : Chk) (minP : Nat) (lhs : Val) :
    ∀ (ops : List PrattOp) (st0 st : St), opsC06 ops = true → AltRel ek st0 st →
      SumAR ek st0 (prattPostfix R env m c c' minP lhs ops st)
  | [], st0, st, _, h0 => h0
  | .postfix bp op :: rest, st0, st, hops, h0 => by
    simp only [opsC06, PrattOp.g, Bool.and_eq_true] at hops
    simp only [prattPostfix]
    split
    · have h := hR m op st hops.1
      generalize R m op st = o at h ⊢
      cases o with
      | ok opv st1 => exact h0.trans h
      | fail st1 => exact prattPostfix_AR hR env m c c' minP lhs rest st0 _ hops.2 (rewind_altRel (h0.trans h.toRel) c')
      | panic w => trivial
      | oof => trivial
    · exact prattPostfix_AR hR env m c c' minP lhs rest st0 st hops.2 h0
  | .infix _ _ _ :: rest, st0, st, hops, h0 => by
    simp only [opsC06, Bool.and_eq_true] at hops
    simp only [prattPostfix]; exact prattPostfix_AR hR env m c c' minP lhs rest st0 st hops.2 h0
  | .prefix _ _ :: rest, st0, st, hops, h0 => by
    simp only [opsC06, Bool.and_eq_true] at hops
    simp only [prattPostfix]; exact prattPostfix_AR hR env m c c' minP lhs rest st0 st hops.2 h0

theorem prattInfix_AR (hR : PAR R ek) (hrec : RecAR rec ek) (env : Env) (m : Mode) (c c' : Chk) (minP : Nat)
    (lhs : Val) :
    ∀ (ops : List PrattOp) (st0 st : St), opsC06 ops = true → AltRel ek st0 st →
      SumAR ek st0 (prattInfix R rec env m c c' minP lhs ops st)
  | [], st0, st, _, h0 => h0
  | .infix la bp op :: rest, st0, st, hops, h0 => by
    simp only [opsC06, PrattOp.g, Bool.and_eq_true] at hops
    simp only [prattInfix]
    split
    · have h := hR m op st hops.1
      generalize R m op st = o at h ⊢
      cases o with
      | ok opv st1 =>
        dsimp only
        have h2 := hrec (rightPower la bp) st1
        generalize rec (rightPower la bp) st1 = o2 at h2 ⊢
        cases o2 with
        | ok rhs st2 => exact (h0.trans h).trans h2
        | fail st2 =>
          exact prattInfix_AR hR hrec env m c c' minP lhs rest st0 _ hops.2
            (rewind_altRel ((h0.trans h).trans h2.toRel) c')
        | panic w => trivial
        | oof => trivial
      | fail st1 =>
        exact prattInfix_AR hR hrec env m c c' minP lhs rest st0 _ hops.2 (rewind_altRel (h0.trans h.toRel) c')
      | panic w => trivial
      | oof => trivial
    · exact prattInfix_AR hR hrec env m c c' minP lhs rest st0 st hops.2 h0
  | .postfix _ _ :: rest, st0, st, hops, h0 => by
    simp only [opsC06, Bool.and_eq_true] at hops
    simp only [prattInfix]; exact prattInfix_AR hR hrec env m c c' minP lhs rest st0 st hops.2 h0
  | .prefix _ _ :: rest, st0, st, hops, h0 => by
    simp only [opsC06, Bool.and_eq_true] at hops
    simp only [prattInfix]; exact prattInfix_AR hR hrec env m c c' minP lhs rest st0 st hops.2 h0

theorem prattLoop_AR (hR : PAR R ek) (hrec : RecAR rec ek) (env : Env) (m : Mode) (ops : List PrattOp)
    (hops : opsC06 ops = true) (c : Chk) (minP : Nat) :
    ∀ (k : Nat) (st0 st : St) (lhs : Val), AltRel ek st0 st → (prattLoop R rec env m ops c minP k st lhs).AR ek st0
  | 0, _, _, _, _ => trivial
  | k + 1, st0, st, lhs, h0 => by
    simp only [prattLoop]
    have hp := prattPostfix_AR hR env m c st.save minP lhs ops st0 st hops h0
    generalize prattPostfix R env m c st.save minP lhs ops st = r at hp ⊢
    cases r with
    | inr o =>
      cases o with
      | ok v st1 => exact prattLoop_AR hR hrec env m ops hops c minP k st0 st1 v hp
      | fail st1 => exact hp
      | panic w => trivial
      | oof => trivial
    | inl st1 =>
      dsimp only
      have hi := prattInfix_AR hR hrec env m c st.save minP lhs ops st0 st1 hops hp
      generalize prattInfix R rec env m c st.save minP lhs ops st1 = r2 at hi ⊢
      cases r2 with
      | inr o =>
        cases o with
        | ok v st2 => exact prattLoop_AR hR hrec env m ops hops c minP k st0 st2 v hi
        | fail st2 => exact hi
        | panic w => trivial
        | oof => trivial
      | inl st2 => exact rewind_altRel hi _

/-- **the pending-error invariant through `pratt_go`** (success: ≈ merged with the events logged; failure: at least one
    event was logged) -/
theorem prattGo_AR (hR : PAR R ek) (env : Env) (m : Mode) (atom : G) (hatom : atom.c06 = true) (ops : List PrattOp)
    (hops : opsC06 ops = true) : ∀ (k minP : Nat) (st : St), (prattGo R env m atom ops k minP st).AR ek st := by
  intro k
  induction k with
  | zero => intro _ _; trivial
  | succ k ih =>
    intro minP st
    have hrec : RecAR (prattGo R env m atom ops k) ek := fun p st => ih p st
    simp only [prattGo]
    have hp := prattPrefix_AR hR hrec env m st.save ops st st hops (AltRel.refl ek st)
    generalize prattPrefix R (prattGo R env m atom ops k) env m st.save ops st = r at hp ⊢
    cases r with
    | inr o =>
      cases o with
      | ok v st1 => exact prattLoop_AR hR hrec env m ops hops st.save minP k st st1 v hp
      | fail st1 => exact hp
      | panic w => trivial
      | oof => trivial
    | inl st0 =>
      dsimp only
      have ha := hR m atom st0 hatom
      generalize R m atom st0 = o at ha ⊢
      cases o with
      | ok v st1 => exact prattLoop_AR hR hrec env m ops hops st.save minP k st st1 v (AltRel.trans hp ha)
      | fail st1 => exact AltRel.transF hp ha
      | panic w => trivial
      | oof => trivial

theorem runPratt_AR (fuel : Nat) (env : Env) (hek : env.ek ≠ .empty) (hdefs : ∀ d ∈ env.defs, d.c06 = true)
    (m : Mode) (atom : G) (hatom : atom.c06 = true) (ops : List PrattOp) (hops : opsC06 ops = true) (st : St) :
    (runPratt fuel env m atom ops st).AR env.ek st :=
  prattGo_AR (fun m g st hg => run_AR fuel env hek hdefs m g hg st) env m atom hatom ops hops fuel 0 st

/-- the shape of a failed top-level Pratt parse -/
theorem parseTopPratt_fail {fuel : Nat} {env : Env} {m : Mode} {atom : G} {ops : List PrattOp} {r : ParseResult}
    {f : St} (h : parseTopPratt fuel env m atom ops = .result r f) (ho : r.output = none) :
    ((runPratt fuel env m atom ops St.init).andThen fun v st1 =>
        (run fuel env .check .end_ st1).andThen fun _ st2 => .ok v st2) = .fail f ∧
      r.errs = f.errs.map (·.err) ++ [match f.alt with
        | some a => a.err
        | none => env.ek.expectedFound [] none (env.mkSpan f.pos f.pos)] := by
  simp only [parseTopPratt] at h
  generalize ((runPratt fuel env m atom ops St.init).andThen fun v st1 =>
        (run fuel env .check .end_ st1).andThen fun _ st2 => .ok v st2) = o at h ⊢
  cases o with
  | ok v st =>
    simp only [TopOut.result.injEq] at h
    obtain ⟨h1, h2⟩ := h
    subst h1
    simp at ho
  | fail st =>
    simp only [TopOut.result.injEq] at h
    obtain ⟨h1, h2⟩ := h
    subst h1 h2
    exact ⟨rfl, rfl⟩
  | panic w => cases h
  | oof => cases h

/-- **C06 for `atom.pratt(ops)`**: when the parse fails, the last reported error is the pending error of the final
    state and it is (≈) the summary of ALL failure events of the parse — those of operators that matched but whose operand
    was missing, of operators that did not match, of the atom — so it lies at the furthest failure position -/
theorem parseTopPratt_primary_error (fuel : Nat) (env : Env) (hek : env.ek ≠ .empty)
    (hdefs : ∀ d ∈ env.defs, d.c06 = true) (m : Mode) (atom : G) (hatom : atom.c06 = true) (ops : List PrattOp)
    (hops : opsC06 ops = true) (r : ParseResult) (f : St)
    (h : parseTopPratt fuel env m atom ops = .result r f) (ho : r.output = none) :
    ∃ l l', f.alt = some l ∧ summ env.ek f.log = some l' ∧ l.equiv l' ∧ r.errs = f.errs.map (·.err) ++ [l.err] ∧
      (∀ ev ∈ f.log, ev.pos ≤ l.pos) := by
  obtain ⟨hrun, herrs⟩ := parseTopPratt_fail h ho
  have hAR : (((runPratt fuel env m atom ops St.init).andThen fun v st1 =>
        (run fuel env .check .end_ st1).andThen fun _ st2 => .ok v st2)).AR env.ek St.init := by
    refine Out.AR.andThen (runPratt_AR fuel env hek hdefs m atom hatom ops hops St.init) ?_
    intro v st1
    refine Out.AR.andThen (run_AR fuel env hek hdefs .check .end_ rfl st1) ?_
    intro _ st2
    exact AltRel.refl _ _
  rw [hrun] at hAR
  obtain ⟨l, l', hl, hs, he⟩ := AltRelF.init hAR
  refine ⟨l, l', hl, hs, he, by rw [herrs, hl], ?_⟩
  intro ev hev
  rw [he.1]
  exact (foldAlt_pos_ge hs).1 ev hev

/-! ### recursive expression grammars -/

theorem runX_AR_all (x : XEnv) (env : Env) (hek : env.ek ≠ .empty) (hdefs : ∀ d ∈ env.defs, d.c06 = true)
    (hatom : x.atom.c06 = true) (hops : opsC06 x.ops = true) (n : Nat) :
    ARR env (runX x n) ∧ ARN env (nextX x n) ∧ ARK env (mkIterX x n) := by
  induction n with
  | zero => exact ⟨fun _ _ _ _ => trivial, fun _ _ _ _ _ => trivial, fun _ _ _ _ => trivial⟩
  | succ n ih =>
    obtain ⟨hR, hN, hK⟩ := ih
    refine ⟨?_, ?_, ?_⟩
    · intro m g st hg
      simp only [runX]
      by_cases hh : x.isHole g = true
      · simp only [hh, if_true]
        exact prattGo_AR (fun m g st hg => hR m g st hg) env m x.atom hatom x.ops hops n 0 st
      · simp only [hh]
        exact step_AR hek hdefs hR hN hK n m g st hg
    · simp only [nextX]; exact stepNext_AR hR hN hK
    · simp only [mkIterX]; exact stepMk_AR hek hR hK

/-- **C06 for recursive expression grammars**: the last error of a failed parse is the summary of ALL failure events,
    hence at the furthest failure position, however deep in parentheses the failures happened -/
theorem parseTopX_primary_error (x : XEnv) (n : Nat) (env : Env) (hek : env.ek ≠ .empty)
    (hdefs : ∀ d ∈ env.defs, d.c06 = true) (hatom : x.atom.c06 = true) (hops : opsC06 x.ops = true) (m : Mode)
    (r : ParseResult) (f : St) (h : parseTopX x n env m = .result r f) (ho : r.output = none) :
    ∃ l l', f.alt = some l ∧ summ env.ek f.log = some l' ∧ l.equiv l' ∧ r.errs = f.errs.map (·.err) ++ [l.err] ∧
      (∀ ev ∈ f.log, ev.pos ≤ l.pos) := by
  have hAR := (runX_AR_all x env hek hdefs hatom hops n).1 m (.thenIgnore (.call x.hole) .end_) St.init
    (by simp [G.c06])
  simp only [parseTopX] at h
  generalize runX x n env m (.thenIgnore (.call x.hole) .end_) St.init = o at h hAR
  cases o with
  | ok v st =>
    simp only [TopOut.result.injEq] at h
    obtain ⟨h1, h2⟩ := h
    subst h1
    simp at ho
  | fail st =>
    simp only [TopOut.result.injEq] at h
    obtain ⟨h1, h2⟩ := h
    subst h1 h2
    obtain ⟨l, l', hl, hs, he⟩ := AltRelF.init hAR
    refine ⟨l, l', hl, hs, he, by simp [hl], ?_⟩
    intro ev hev
    rw [he.1]
    exact (foldAlt_pos_ge hs).1 ev hev
  | panic w => cases h
  | oof => cases h

end Chumsky
