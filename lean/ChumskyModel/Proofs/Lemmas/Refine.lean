/-
  The refinement relation between the machine and the PEG reading (induction I1), and the generic
  lemmas used by every constructor case.
-/
import ChumskyModel.Proofs.Lemmas.StateOps
namespace Chumsky

/-- a reported error matches an emission of the spec -/
def EmRel (l : Loc) : Emis → Prop
  | .user u => l = u
  | .recovered p => l.pos = p

def EmsRel : List Loc → List Emis → Prop
  | [], [] => True
  | l :: ls, e :: es => EmRel l e ∧ EmsRel ls es
  | _, _ => False

@[simp] theorem EmsRel.nil : EmsRel [] [] := trivial

theorem EmsRel.append {a b : List Loc} {x y : List Emis} (h1 : EmsRel a x) (h2 : EmsRel b y) :
    EmsRel (a ++ b) (x ++ y) := by
  induction a generalizing x with
  | nil => cases x with
    | nil => simpa using h2
    | cons _ _ => simp [EmsRel] at h1
  | cons l ls ih => cases x with
    | nil => simp [EmsRel] at h1
    | cons e es => exact ⟨h1.1, ih h1.2⟩

theorem EmsRel.length {a : List Loc} {x : List Emis} (h : EmsRel a x) : a.length = x.length := by
  induction a generalizing x with
  | nil => cases x <;> simp_all [EmsRel]
  | cons l ls ih => cases x with
    | nil => simp [EmsRel] at h
    | cons e es => simp [ih h.2]

theorem EmsRel.nil_right {a : List Loc} (h : EmsRel a []) : a = [] := by
  cases a <;> simp_all [EmsRel]

/-- the abstract position of a machine state -/
def St.ss (st : St) : SS := ⟨st.pos, st.insp⟩

@[simp] theorem ss_pos (st : St) : st.ss.pos = st.pos := rfl
@[simp] theorem ss_insp (st : St) : st.ss.insp = st.insp := rfl

/-- relation between a successful machine result and a successful spec result;
    `base` = the secondary errors at the point emissions are measured from, `ctx` = the caller's context -/
structure OkRel (m : Mode) (base : List Loc) (ctx : Val) (v : Val) (st' : St) (v' : Val) (s' : SS)
    (em : List Emis) : Prop where
  val : v = m.bind v'
  ss : st'.ss = s'
  errs : ∃ new, st'.errs = base ++ new ∧ EmsRel new em
  ctx : st'.ctx = ctx

/-- what a failing machine result must satisfy (nothing is said about `pos`/`insp`: callers rewind) -/
structure FailRel (base : List Loc) (ctx : Val) (st' : St) : Prop where
  errs : base <+: st'.errs
  ctx : st'.ctx = ctx
  alt : st'.alt.isSome = true

def Refines (m : Mode) (base : List Loc) (ctx : Val) : Out → SOut → Prop
  | .ok v st', .ok v' s' em => OkRel m base ctx v st' v' s' em
  | .fail st', .fail => FailRel base ctx st'
  | .panic w, .panic w' => w = w'
  | .oof, .oof => True
  | _, _ => False

/-- hypotheses on the runners (the induction hypothesis of I1) -/
def RunnerRefines (R : Runner) (P : SRunner) : Prop :=
  ∀ env m g st, env.memoOn = false → Refines m st.errs st.ctx (R env m g st) (P env g st.ss st.ctx)

@[simp] theorem bind_check (v : Val) : Mode.check.bind v = .unit := rfl
@[simp] theorem bind_emit (v : Val) : Mode.emit.bind v = v := rfl
@[simp] theorem bind_bind (m : Mode) (v : Val) : m.bind (m.bind v) = m.bind v := by cases m <;> rfl
theorem bind_unit (m : Mode) : m.bind .unit = .unit := by cases m <;> rfl

theorem prefix_append_of_prefix {base new l : List Loc} (h : (base ++ new) <+: l) : base <+: l :=
  List.IsPrefix.trans (List.prefix_append base new) h

/-- weaken the base of a refinement: results measured from `base ++ new1` re-measured from `base` -/
theorem FailRel.rebase {base new1 : List Loc} {ctx : Val} {st' : St} (h : FailRel (base ++ new1) ctx st') :
    FailRel base ctx st' :=
  ⟨prefix_append_of_prefix h.errs, h.ctx, h.alt⟩

/-- the generic sequencing lemma: first a sub-run (IH, measured from `base ++ new1` where `new1` are the
    emissions `e1` made so far), then continuations -/
theorem Refines.andThen {m m' : Mode} {base new1 : List Loc} {ctx : Val}
    {o : Out} {so : SOut} {k : Val → St → Out} {sk : Val → SS → List Emis → SOut}
    (h : Refines m' (base ++ new1) ctx o so)
    (hk : ∀ v st1 v' s1 e2, OkRel m' (base ++ new1) ctx v st1 v' s1 e2 →
        Refines m base ctx (k v st1) (sk v' s1 e2)) :
    Refines m base ctx (o.andThen k) (so.andThen sk) := by
  cases o <;> cases so <;> simp_all [Refines, Out.andThen, SOut.andThen]
  exact h.rebase

theorem Refines.andThen0 {m m' : Mode} {base : List Loc} {ctx : Val}
    {o : Out} {so : SOut} {k : Val → St → Out} {sk : Val → SS → List Emis → SOut}
    (h : Refines m' base ctx o so)
    (hk : ∀ v st1 v' s1 e2, OkRel m' base ctx v st1 v' s1 e2 →
        Refines m base ctx (k v st1) (sk v' s1 e2)) :
    Refines m base ctx (o.andThen k) (so.andThen sk) := by
  have := @Refines.andThen m m' base [] ctx o so k sk (by simpa using h) (by simpa using hk)
  exact this

/-- IH instance for a sub-run started in `st1` which is `OkRel`-related to the spec position `s1` -/
theorem RunnerRefines.at {R : Runner} {P : SRunner} (hR : RunnerRefines R P) {env : Env} (hm : env.memoOn = false)
    {m' m : Mode} {base ctx v st1 v' s1 e1} (g : G) (h : OkRel m' base ctx v st1 v' s1 e1) :
    ∃ new1, st1.errs = base ++ new1 ∧ EmsRel new1 e1 ∧
      Refines m (base ++ new1) ctx (R env m g st1) (P env g s1 ctx) := by
  obtain ⟨new1, he, hr⟩ := h.errs
  refine ⟨new1, he, hr, ?_⟩
  have := hR env m g st1 hm
  rw [he, h.ctx, h.ss] at this
  exact this

/-- relation between the iterator protocol results -/
structure DoneRel (base : List Loc) (ctx : Val) (st' : St) (ist' : ItSt) (s' : SS) (ist'' : ItSt)
    (em : List Emis) : Prop where
  ss : st'.ss = s'
  errs : ∃ new, st'.errs = base ++ new ∧ EmsRel new em
  ctx : st'.ctx = ctx
  ist : ist' = ist''

def RefinesIt (m : Mode) (base : List Loc) (ctx : Val) : ItOut → SItOut → Prop
  | .some v st' i', .some v' s' i'' em => OkRel m base ctx v st' v' s' em ∧ i' = i''
  | .done st' i', .done s' i'' em => DoneRel base ctx st' i' s' i'' em
  | .fail st', .fail => FailRel base ctx st'
  | .panic w, .panic w' => w = w'
  | .oof, .oof => True
  | _, _ => False

def RefinesMk (base : List Loc) (ctx : Val) : MkOut → SMkOut → Prop
  | .ok i' st', .ok i'' s' em => DoneRel base ctx st' i' s' i'' em
  | .fail st', .fail => FailRel base ctx st'
  | .panic w, .panic w' => w = w'
  | .oof, .oof => True
  | _, _ => False

def NextRefines (N : NextRunner) (SN : SNextRunner) : Prop :=
  ∀ env m it st ist, env.memoOn = false →
    RefinesIt m st.errs st.ctx (N env m it st ist) (SN env it st.ss st.ctx ist)

def MkRefines (K : MkRunner) (SK : SMkRunner) : Prop :=
  ∀ env m it st, env.memoOn = false → RefinesMk st.errs st.ctx (K env m it st) (SK env it st.ss st.ctx)

/-- combine: emissions so far (`new1 ~ e1`) and a result measured from `base ++ new1` -/
theorem OkRel.seq {m' m : Mode} {base new1 : List Loc} {e1 e2 : List Emis} {ctx v st2 v' s2}
    (hr1 : EmsRel new1 e1) (h2 : OkRel m' (base ++ new1) ctx v st2 v' s2 e2) {w w' : Val}
    (hv : w = m.bind w') : OkRel m base ctx w st2 w' s2 (e1 ++ e2) := by
  obtain ⟨new2, he2, hr2⟩ := h2.errs
  exact ⟨hv, h2.ss, ⟨new1 ++ new2, by simp [he2], hr1.append hr2⟩, h2.ctx⟩

theorem OkRel.mono {m' m : Mode} {base ctx v st2 v' s2 e2}
    (h2 : OkRel m' base ctx v st2 v' s2 e2) {w w' : Val}
    (hv : w = m.bind w') : OkRel m base ctx w st2 w' s2 e2 :=
  ⟨hv, h2.ss, h2.errs, h2.ctx⟩

end Chumsky
