/-
  Proofs/Lemmas/Summ.lean — the algebra of the pending ("alt") error, independent of any grammar.

  * `foldAlt` / `summ`: the pending error after a sequence of failure events
  * A. positions: the result sits exactly at the furthest event
  * B. `equiv` ("same description") is an equivalence and a congruence for `merge`, `mergeAlt`, `foldAlt`;
       the `add_alt` fast paths agree with the generic rule up to `equiv`
  * C. re-adding a summary = replaying the events (`mergeAlt_summ`)
  * D. characterisation of the summary for `Rich`
-/
import ChumskyModel.Model.Machine
namespace Chumsky

/-- the pending error after a sequence of failure events, starting from `alt` -/
def foldAlt (ek : ErrKind) (alt : Option Loc) (evs : List Loc) : Option Loc :=
  evs.foldl (fun a ev => St.mergeAlt ek a ev.pos ev.err) alt
/-- summary of a list of failure events -/
def summ (ek : ErrKind) (evs : List Loc) : Option Loc := foldAlt ek none evs

/-- "same description": same span, same kind of reason, same custom message / same *set* of expected patterns
    (order and duplicates of `expected`, `found` and the context list are ignored) -/
def Reason.equiv : Reason → Reason → Prop
  | .custom m, .custom m' => m = m'
  | .ef e _, .ef e' _ => ∀ p, p ∈ e ↔ p ∈ e'
  | _, _ => False
def Err.equiv (a b : Err) : Prop := a.span = b.span ∧ a.reason.equiv b.reason
def Loc.equiv (a b : Loc) : Prop := a.pos = b.pos ∧ a.err.equiv b.err
def OptLoc.equiv : Option Loc → Option Loc → Prop
  | none, none => True
  | some a, some b => a.equiv b
  | _, _ => False

/-! ## A. positions -/

@[simp] theorem foldAlt_nil (ek : ErrKind) (alt : Option Loc) : foldAlt ek alt [] = alt := rfl
@[simp] theorem foldAlt_cons (ek : ErrKind) (alt : Option Loc) (x : Loc) (xs : List Loc) :
    foldAlt ek alt (x :: xs) = foldAlt ek (St.mergeAlt ek alt x.pos x.err) xs := rfl

theorem mergeAlt_none (ek : ErrKind) (at_ : Nat) (e : Err) :
    St.mergeAlt ek none at_ e = some ⟨at_, e⟩ := rfl

theorem mergeAlt_some_eq (ek : ErrKind) (a : Loc) (at_ : Nat) (e : Err) (h : a.pos = at_) :
    St.mergeAlt ek (some a) at_ e = some ⟨a.pos, ek.merge a.err e⟩ := by
  simp [St.mergeAlt, h]

theorem mergeAlt_some_gt (ek : ErrKind) (a : Loc) (at_ : Nat) (e : Err) (h : at_ < a.pos) :
    St.mergeAlt ek (some a) at_ e = some a := by
  have : ¬ a.pos = at_ := by omega
  simp [St.mergeAlt, this, h]

theorem mergeAlt_some_lt (ek : ErrKind) (a : Loc) (at_ : Nat) (e : Err) (h : a.pos < at_) :
    St.mergeAlt ek (some a) at_ e = some ⟨at_, e⟩ := by
  have h1 : ¬ a.pos = at_ := by omega
  have h2 : ¬ at_ < a.pos := by omega
  simp [St.mergeAlt, h1, h2]

theorem mergeAlt_mk_eq (ek : ErrKind) (p : Nat) (e0 : Err) (at_ : Nat) (e : Err) (h : p = at_) :
    St.mergeAlt ek (some ⟨p, e0⟩) at_ e = some ⟨p, ek.merge e0 e⟩ := mergeAlt_some_eq _ ⟨p, e0⟩ _ _ h
theorem mergeAlt_mk_gt (ek : ErrKind) (p : Nat) (e0 : Err) (at_ : Nat) (e : Err) (h : at_ < p) :
    St.mergeAlt ek (some ⟨p, e0⟩) at_ e = some ⟨p, e0⟩ := mergeAlt_some_gt _ ⟨p, e0⟩ _ _ h
theorem mergeAlt_mk_lt (ek : ErrKind) (p : Nat) (e0 : Err) (at_ : Nat) (e : Err) (h : p < at_) :
    St.mergeAlt ek (some ⟨p, e0⟩) at_ e = some ⟨at_, e⟩ := mergeAlt_some_lt _ ⟨p, e0⟩ _ _ h

theorem mergeAlt_isSome (ek : ErrKind) (alt : Option Loc) (at_ : Nat) (e : Err) :
    (St.mergeAlt ek alt at_ e).isSome := by
  cases alt with
  | none => rfl
  | some a =>
    rcases Nat.lt_trichotomy a.pos at_ with h | h | h
    · rw [mergeAlt_some_lt _ _ _ _ h]; rfl
    · rw [mergeAlt_some_eq _ _ _ _ h]; rfl
    · rw [mergeAlt_some_gt _ _ _ _ h]; rfl

theorem mergeAlt_pos {ek : ErrKind} {alt : Option Loc} {at_ : Nat} {e : Err} {l : Loc}
    (h : St.mergeAlt ek alt at_ e = some l) : l.pos = max (alt.elim at_ (·.pos)) at_ := by
  cases alt with
  | none => simp [mergeAlt_none] at h; subst h; simp
  | some a =>
    simp only [Option.elim]
    rcases Nat.lt_trichotomy a.pos at_ with h' | h' | h'
    · rw [mergeAlt_some_lt _ _ _ _ h'] at h; cases h; simp; omega
    · rw [mergeAlt_some_eq _ _ _ _ h'] at h; cases h; simp; omega
    · rw [mergeAlt_some_gt _ _ _ _ h'] at h; cases h; omega

/-- the clean formulation: the result is always `some`, and sits at the max -/
theorem mergeAlt_eq_some (ek : ErrKind) (alt : Option Loc) (at_ : Nat) (e : Err) :
    ∃ l, St.mergeAlt ek alt at_ e = some l ∧ l.pos = max (alt.elim at_ (·.pos)) at_ := by
  have h := mergeAlt_isSome ek alt at_ e
  rcases Option.isSome_iff_exists.mp h with ⟨l, hl⟩
  exact ⟨l, hl, mergeAlt_pos hl⟩

theorem foldAlt_append (ek : ErrKind) (alt : Option Loc) (xs ys : List Loc) :
    foldAlt ek alt (xs ++ ys) = foldAlt ek (foldAlt ek alt xs) ys := by
  simp [foldAlt, List.foldl_append]

theorem foldAlt_isSome {ek : ErrKind} {alt : Option Loc} {evs : List Loc}
    (h : evs ≠ [] ∨ alt.isSome) : (foldAlt ek alt evs).isSome := by
  induction evs generalizing alt with
  | nil => simpa using h
  | cons x xs ih =>
    rw [foldAlt_cons]
    exact ih (Or.inr (mergeAlt_isSome ..))

theorem foldAlt_pos_ge {ek : ErrKind} {alt : Option Loc} {evs : List Loc} {l : Loc}
    (h : foldAlt ek alt evs = some l) :
    (∀ ev ∈ evs, ev.pos ≤ l.pos) ∧ (∀ a, alt = some a → a.pos ≤ l.pos) := by
  induction evs generalizing alt with
  | nil =>
    simp at h; subst h; simp
  | cons x xs ih =>
    rw [foldAlt_cons] at h
    obtain ⟨m, hm, hp⟩ := mergeAlt_eq_some ek alt x.pos x.err
    rw [hm] at h
    have ⟨h1, h2⟩ := ih h
    have hml := h2 m rfl
    refine ⟨?_, ?_⟩
    · intro ev hev
      rcases List.mem_cons.mp hev with rfl | hev
      · omega
      · exact h1 ev hev
    · intro a ha
      subst ha
      simp only [Option.elim] at hp
      omega

theorem foldAlt_pos_mem {ek : ErrKind} {alt : Option Loc} {evs : List Loc} {l : Loc}
    (h : foldAlt ek alt evs = some l) :
    (∃ ev ∈ evs, ev.pos = l.pos) ∨ (∃ a, alt = some a ∧ a.pos = l.pos) := by
  induction evs generalizing alt with
  | nil =>
    simp at h; subst h; simp
  | cons x xs ih =>
    rw [foldAlt_cons] at h
    obtain ⟨m, hm, hp⟩ := mergeAlt_eq_some ek alt x.pos x.err
    rw [hm] at h
    rcases ih h with ⟨ev, hev, he⟩ | ⟨a, ha, he⟩
    · exact Or.inl ⟨ev, List.mem_cons_of_mem _ hev, he⟩
    · cases ha
      cases alt with
      | none =>
        simp only [Option.elim] at hp
        exact Or.inl ⟨x, List.mem_cons_self, by omega⟩
      | some b =>
        simp only [Option.elim] at hp
        by_cases hb : b.pos ≤ x.pos
        · exact Or.inl ⟨x, List.mem_cons_self, by omega⟩
        · exact Or.inr ⟨b, rfl, by omega⟩

/-! ## B. `equiv` is an equivalence and a congruence -/

theorem mem_pushNew {x : Pat} {acc l : List Pat} : x ∈ pushNew acc l ↔ x ∈ acc ∨ x ∈ l := by
  induction l generalizing acc with
  | nil => simp [pushNew]
  | cons p ps ih =>
    unfold pushNew
    split
    · next hc =>
      have hp : p ∈ acc := by simpa using hc
      rw [ih]
      constructor
      · rintro (h | h)
        · exact Or.inl h
        · exact Or.inr (List.mem_cons_of_mem _ h)
      · rintro (h | h)
        · exact Or.inl h
        · rcases List.mem_cons.mp h with rfl | h
          · exact Or.inl hp
          · exact Or.inr h
    · rw [ih]
      simp [or_assoc]

/-- merging two `expected/found` reasons: the union of the expected sets, the first `found` that is present -/
theorem flatMerge_ef_ef (ea eb : List Pat) (fa fb : Option Nat) :
    ∃ e', (Reason.ef ea fa).flatMerge (.ef eb fb) = .ef e' (fa.or fb) ∧ ∀ x, x ∈ e' ↔ x ∈ ea ∨ x ∈ eb := by
  simp only [Reason.flatMerge]
  split
  · exact ⟨_, rfl, fun x => by rw [mem_pushNew]; exact Or.comm⟩
  · exact ⟨_, rfl, fun x => mem_pushNew⟩

@[simp] theorem flatMerge_custom_left (m : Nat) (r : Reason) :
    (Reason.custom m).flatMerge r = .custom m := by
  cases r <;> rfl

@[simp] theorem flatMerge_ef_custom (e : List Pat) (f : Option Nat) (m : Nat) :
    (Reason.ef e f).flatMerge (.custom m) = .custom m := rfl

theorem Reason.equiv_refl (a : Reason) : a.equiv a := by
  cases a <;> simp [Reason.equiv]

theorem Reason.equiv_symm {a b : Reason} (h : a.equiv b) : b.equiv a := by
  cases a <;> cases b <;> simp_all [Reason.equiv]

theorem Reason.equiv_trans {a b c : Reason} (h : a.equiv b) (h' : b.equiv c) : a.equiv c := by
  cases a <;> cases b <;> cases c <;> simp_all [Reason.equiv]

theorem Err.equiv_refl (a : Err) : a.equiv a := ⟨rfl, Reason.equiv_refl _⟩
theorem Err.equiv_symm {a b : Err} (h : a.equiv b) : b.equiv a := ⟨h.1.symm, Reason.equiv_symm h.2⟩
theorem Err.equiv_trans {a b c : Err} (h : a.equiv b) (h' : b.equiv c) : a.equiv c :=
  ⟨h.1.trans h'.1, Reason.equiv_trans h.2 h'.2⟩

theorem Loc.equiv_refl (a : Loc) : a.equiv a := ⟨rfl, Err.equiv_refl _⟩
theorem Loc.equiv_symm {a b : Loc} (h : a.equiv b) : b.equiv a := ⟨h.1.symm, Err.equiv_symm h.2⟩
theorem Loc.equiv_trans {a b c : Loc} (h : a.equiv b) (h' : b.equiv c) : a.equiv c :=
  ⟨h.1.trans h'.1, Err.equiv_trans h.2 h'.2⟩

theorem OptLoc.equiv_refl (a : Option Loc) : OptLoc.equiv a a := by
  cases a with
  | none => trivial
  | some a => exact Loc.equiv_refl a

theorem OptLoc.equiv_symm {a b : Option Loc} (h : OptLoc.equiv a b) : OptLoc.equiv b a := by
  cases a <;> cases b <;> simp_all [OptLoc.equiv]
  exact Loc.equiv_symm h

theorem OptLoc.equiv_trans {a b c : Option Loc} (h : OptLoc.equiv a b) (h' : OptLoc.equiv b c) :
    OptLoc.equiv a c := by
  cases a <;> cases b <;> cases c <;> simp_all [OptLoc.equiv]
  exact Loc.equiv_trans h h'

theorem OptLoc.equiv_of_eq {a b : Option Loc} (h : a = b) : OptLoc.equiv a b := h ▸ OptLoc.equiv_refl a

@[simp] theorem OptLoc.equiv_some {a b : Loc} : OptLoc.equiv (some a) (some b) ↔ a.equiv b := Iff.rfl

theorem flatMerge_congr {a a' b b' : Reason} (ha : a.equiv a') (hb : b.equiv b') :
    (a.flatMerge b).equiv (a'.flatMerge b') := by
  cases a with
  | custom m =>
    cases a' with
    | custom m' => simpa [Reason.equiv] using ha
    | ef _ _ => simp [Reason.equiv] at ha
  | ef ea fa =>
    cases a' with
    | custom m' => simp [Reason.equiv] at ha
    | ef ea' fa' =>
      cases b with
      | custom m =>
        cases b' with
        | custom m' => simpa [Reason.equiv] using hb
        | ef _ _ => simp [Reason.equiv] at hb
      | ef eb fb =>
        cases b' with
        | custom m' => simp [Reason.equiv] at hb
        | ef eb' fb' =>
          obtain ⟨e1, h1, m1⟩ := flatMerge_ef_ef ea eb fa fb
          obtain ⟨e2, h2, m2⟩ := flatMerge_ef_ef ea' eb' fa' fb'
          rw [h1, h2]
          intro p
          rw [m1, m2]
          simp only [Reason.equiv] at ha hb
          rw [ha p, hb p]

theorem flatMerge_assoc (a b c : Reason) :
    ((a.flatMerge b).flatMerge c).equiv (a.flatMerge (b.flatMerge c)) := by
  cases a with
  | custom m => simp [Reason.equiv]
  | ef ea fa =>
    cases b with
    | custom m => simp [Reason.equiv]
    | ef eb fb =>
      cases c with
      | custom m =>
        obtain ⟨e1, h1, _⟩ := flatMerge_ef_ef ea eb fa fb
        rw [h1]; simp [Reason.equiv]
      | ef ec fc =>
        obtain ⟨e1, h1, m1⟩ := flatMerge_ef_ef ea eb fa fb
        obtain ⟨e2, h2, m2⟩ := flatMerge_ef_ef eb ec fb fc
        rw [h1, h2]
        obtain ⟨e3, h3, m3⟩ := flatMerge_ef_ef e1 ec (fa.or fb) fc
        obtain ⟨e4, h4, m4⟩ := flatMerge_ef_ef ea e2 fa (fb.or fc)
        rw [h3, h4]
        intro p
        rw [m3, m4, m1, m2, or_assoc]

@[simp] theorem merge_rich (a b : Err) :
    ErrKind.rich.merge a b = ⟨a.span, a.reason.flatMerge b.reason, a.ctx⟩ := rfl
theorem merge_not_rich {ek : ErrKind} (h : ek ≠ .rich) (a b : Err) : ek.merge a b = a := by
  cases ek <;> first | rfl | exact absurd rfl h

theorem merge_congr {ek : ErrKind} {a a' b b' : Err} (ha : a.equiv a') (hb : b.equiv b') :
    (ek.merge a b).equiv (ek.merge a' b') := by
  cases ek with
  | rich => exact ⟨ha.1, flatMerge_congr ha.2 hb.2⟩
  | simple => exact ha
  | cheap => exact ha
  | empty => exact ha

theorem merge_assoc (ek : ErrKind) (a b c : Err) :
    (ek.merge (ek.merge a b) c).equiv (ek.merge a (ek.merge b c)) := by
  cases ek with
  | rich => exact ⟨rfl, flatMerge_assoc _ _ _⟩
  | simple => exact Err.equiv_refl _
  | cheap => exact Err.equiv_refl _
  | empty => exact Err.equiv_refl _

theorem mergeEF_equiv (ek : ErrKind) (a : Err) (exp : List Pat) (found : Option Nat) (span : Nat × Nat) :
    (ek.mergeEF a exp found span).equiv (ek.merge a (ek.expectedFound exp found span)) := by
  cases ek with
  | rich =>
    obtain ⟨sp, r, ctx⟩ := a
    cases r with
    | custom m => exact ⟨rfl, by simp [ErrKind.mergeEF, ErrKind.expectedFound, Reason.equiv]⟩
    | ef e f =>
      refine ⟨rfl, ?_⟩
      obtain ⟨e1, h1, m1⟩ := flatMerge_ef_ef e exp f found
      simp only [ErrKind.mergeEF, ErrKind.expectedFound, merge_rich, h1]
      intro p
      rw [m1, mem_pushNew]
  | simple => exact Err.equiv_refl _
  | cheap => exact Err.equiv_refl _
  | empty => exact Err.equiv_refl _

theorem replaceEF_eq (ek : ErrKind) (a : Err) (exp : List Pat) (found : Option Nat) (span : Nat × Nat) :
    ek.replaceEF a exp found span = ek.expectedFound exp found span := rfl

theorem mergeAlt_congr {ek : ErrKind} {alt alt' : Option Loc} {e e' : Err} (at_ : Nat)
    (ha : OptLoc.equiv alt alt') (he : e.equiv e') :
    OptLoc.equiv (St.mergeAlt ek alt at_ e) (St.mergeAlt ek alt' at_ e') := by
  cases alt with
  | none =>
    cases alt' with
    | none => exact ⟨rfl, he⟩
    | some _ => exact ha.elim
  | some a =>
    cases alt' with
    | none => exact ha.elim
    | some a' =>
      have hp : a.pos = a'.pos := ha.1
      rcases Nat.lt_trichotomy a.pos at_ with h | h | h
      · rw [mergeAlt_some_lt _ _ _ _ h, mergeAlt_some_lt _ _ _ _ (hp ▸ h)]
        exact ⟨rfl, he⟩
      · rw [mergeAlt_some_eq _ _ _ _ h, mergeAlt_some_eq _ _ _ _ (hp ▸ h)]
        exact ⟨hp, merge_congr ha.2 he⟩
      · rw [mergeAlt_some_gt _ _ _ _ h, mergeAlt_some_gt _ _ _ _ (hp ▸ h)]
        exact ha

theorem foldAlt_congr {ek : ErrKind} {alt alt' : Option Loc} (evs : List Loc)
    (ha : OptLoc.equiv alt alt') : OptLoc.equiv (foldAlt ek alt evs) (foldAlt ek alt' evs) := by
  induction evs generalizing alt alt' with
  | nil => exact ha
  | cons x xs ih =>
    rw [foldAlt_cons, foldAlt_cons]
    exact ih (mergeAlt_congr _ ha (Err.equiv_refl _))

theorem addAlt_alt_equiv (env : Env) (st : St) (exp : List Pat) (found : Option Nat) (span : Nat × Nat)
    (hek : env.ek ≠ .empty) :
    OptLoc.equiv (St.addAlt env st exp found span).alt
      (St.mergeAlt env.ek st.alt st.pos (env.ek.expectedFound exp found span)) := by
  have key : ∀ ek : ErrKind,
      OptLoc.equiv
        (match st.alt with
          | none => some ⟨st.pos, ek.expectedFound exp found span⟩
          | some a =>
            if a.pos == st.pos then some ⟨a.pos, ek.mergeEF a.err exp found span⟩
            else if a.pos > st.pos then some a
            else some ⟨st.pos, ek.replaceEF a.err exp found span⟩)
        (St.mergeAlt ek st.alt st.pos (ek.expectedFound exp found span)) := by
    intro ek
    cases st.alt with
    | none => exact OptLoc.equiv_refl _
    | some a =>
      rcases Nat.lt_trichotomy a.pos st.pos with h | h | h
      · rw [mergeAlt_some_lt _ _ _ _ h]
        have h1 : ¬ a.pos = st.pos := by omega
        have h2 : ¬ st.pos < a.pos := by omega
        simp [h1, h2, replaceEF_eq, Loc.equiv_refl]
      · rw [mergeAlt_some_eq _ _ _ _ h]
        simp only [h, beq_self_eq_true, if_true]
        exact ⟨rfl, mergeEF_equiv ..⟩
      · rw [mergeAlt_some_gt _ _ _ _ h]
        have h1 : ¬ a.pos = st.pos := by omega
        simp [h1, h, Loc.equiv_refl]
  obtain ⟨toks, kind, tspans, eoi, ek, defs, memoOn⟩ := env
  cases ek with
  | empty => exact absurd rfl hek
  | rich => exact key .rich
  | simple => exact key .simple
  | cheap => exact key .cheap

/-! ## C. re-adding a summary = replaying the events -/

/-- "associativity" of the priority rule: adding `m` and then `x` to `old` is adding their combination `n` -/
theorem mergeAlt_assoc {ek : ErrKind} (old : Option Loc) {m x n : Loc}
    (hn : St.mergeAlt ek (some m) x.pos x.err = some n) :
    OptLoc.equiv (St.mergeAlt ek old n.pos n.err)
      (St.mergeAlt ek (St.mergeAlt ek old m.pos m.err) x.pos x.err) := by
  cases old with
  | none =>
    rw [mergeAlt_none, mergeAlt_none]
    show OptLoc.equiv (some n) (St.mergeAlt ek (some m) x.pos x.err)
    rw [hn]; exact OptLoc.equiv_refl _
  | some o =>
    rcases Nat.lt_trichotomy m.pos x.pos with h1 | h1 | h1
    · rw [mergeAlt_some_lt _ _ _ _ h1] at hn; cases hn
      rcases Nat.lt_trichotomy o.pos m.pos with h2 | h2 | h2
      · rw [mergeAlt_some_lt _ _ _ _ h2, mergeAlt_some_lt _ _ _ _ h1,
          mergeAlt_some_lt _ _ _ _ (Nat.lt_trans h2 h1)]
        exact OptLoc.equiv_refl _
      · rw [mergeAlt_some_eq _ _ _ _ h2, mergeAlt_some_lt _ _ _ _ (h2 ▸ h1),
          mergeAlt_mk_lt _ _ _ _ _ (show o.pos < x.pos from h2 ▸ h1)]
        exact OptLoc.equiv_refl _
      · rw [mergeAlt_some_gt _ _ _ _ h2]
        exact OptLoc.equiv_refl _
    · rw [mergeAlt_some_eq _ _ _ _ h1] at hn; cases hn
      rcases Nat.lt_trichotomy o.pos m.pos with h2 | h2 | h2
      · rw [mergeAlt_some_lt _ _ _ _ h2, mergeAlt_some_lt _ _ _ _ h2,
          mergeAlt_some_eq _ _ _ _ h1]
        exact OptLoc.equiv_refl _
      · rw [mergeAlt_some_eq _ _ _ _ h2, mergeAlt_some_eq _ _ _ _ h2,
          mergeAlt_mk_eq _ _ _ _ _ (show o.pos = x.pos from h2 ▸ h1)]
        exact ⟨rfl, Err.equiv_symm (merge_assoc ..)⟩
      · rw [mergeAlt_some_gt _ _ _ _ h2, mergeAlt_some_gt _ _ _ _ h2,
          mergeAlt_some_gt _ _ _ _ (show x.pos < o.pos from h1 ▸ h2)]
        exact OptLoc.equiv_refl _
    · rw [mergeAlt_some_gt _ _ _ _ h1] at hn; cases hn
      rcases Nat.lt_trichotomy o.pos m.pos with h2 | h2 | h2
      · rw [mergeAlt_some_lt _ _ _ _ h2, mergeAlt_some_gt _ _ _ _ h1]
        exact OptLoc.equiv_refl _
      · rw [mergeAlt_some_eq _ _ _ _ h2, mergeAlt_mk_gt _ _ _ _ _ (show x.pos < o.pos from h2 ▸ h1)]
        exact OptLoc.equiv_refl _
      · rw [mergeAlt_some_gt _ _ _ _ h2, mergeAlt_some_gt _ _ _ _ (Nat.lt_trans h1 h2)]
        exact OptLoc.equiv_refl _

/-- congruence in the *new* error, when it is given as a location -/
theorem mergeAlt_congr_loc {ek : ErrKind} {alt alt' : Option Loc} {n n' : Loc}
    (ha : OptLoc.equiv alt alt') (hn : n.equiv n') :
    OptLoc.equiv (St.mergeAlt ek alt n.pos n.err) (St.mergeAlt ek alt' n'.pos n'.err) := by
  rw [hn.1]; exact mergeAlt_congr _ ha hn.2

theorem foldAlt_some_eq_summ (ek : ErrKind) (a : Loc) (evs : List Loc) :
    foldAlt ek (some a) evs = summ ek (a :: evs) := rfl

/-- re-adding the summary of `evs` at its own position is the same as replaying `evs` -/
theorem mergeAlt_summ {ek : ErrKind} {evs : List Loc} {n : Loc} (old : Option Loc)
    (h : summ ek evs = some n) :
    OptLoc.equiv (St.mergeAlt ek old n.pos n.err) (foldAlt ek old evs) := by
  induction evs generalizing old n with
  | nil => cases h
  | cons x xs ih =>
    cases xs with
    | nil =>
      have : n = x := by
        have : some x = some n := h
        cases this; rfl
      subst this; exact OptLoc.equiv_refl _
    | cons y ys =>
      -- the summary of the tail
      have hs : (summ ek (y :: ys)).isSome := foldAlt_isSome (Or.inl (List.cons_ne_nil _ _))
      obtain ⟨m, hm⟩ := Option.isSome_iff_exists.mp hs
      -- `n ≃ x ⊕ m`
      have h1 : OptLoc.equiv (St.mergeAlt ek (some x) m.pos m.err) (some n) := by
        have := ih (some x) hm
        rwa [foldAlt_some_eq_summ, h] at this
      obtain ⟨n', hn'⟩ := Option.isSome_iff_exists.mp (mergeAlt_isSome ek (some x) m.pos m.err)
      rw [hn'] at h1
      -- `old ⊕ n ≃ old ⊕ n' ≃ (old ⊕ x) ⊕ m ≃ replay`
      refine OptLoc.equiv_trans (mergeAlt_congr_loc (OptLoc.equiv_refl old) (Loc.equiv_symm h1)) ?_
      refine OptLoc.equiv_trans (mergeAlt_assoc old hn') ?_
      rw [foldAlt_cons]
      exact ih _ hm

/-- the same statement for the whole-state operation `readdAlt` -/
theorem readdAlt_summ_alt {env : Env} {st : St} {evs : List Loc} {n : Loc} (hek : env.ek ≠ .empty)
    (h : summ env.ek evs = some n) :
    OptLoc.equiv (St.readdAlt env st (some n)).alt (foldAlt env.ek st.alt evs) := by
  have : (St.readdAlt env st (some n)).alt = St.mergeAlt env.ek st.alt n.pos n.err := by
    obtain ⟨toks, kind, tspans, eoi, ek, defs, memoOn⟩ := env
    cases ek with
    | empty => exact absurd rfl hek
    | rich => rfl
    | simple => rfl
    | cheap => rfl
  rw [this]; exact mergeAlt_summ _ h

/-! ## D. characterisation of the summary -/

/-- merge the later events `t` (in order) into `e` -/
def mergeAll (ek : ErrKind) (e : Err) (t : List Loc) : Err :=
  t.foldl (fun a ev => ek.merge a ev.err) e

@[simp] theorem mergeAll_nil (ek : ErrKind) (e : Err) : mergeAll ek e [] = e := rfl
@[simp] theorem mergeAll_cons (ek : ErrKind) (e : Err) (y : Loc) (t : List Loc) :
    mergeAll ek e (y :: t) = mergeAll ek (ek.merge e y.err) t := rfl
theorem mergeAll_snoc (ek : ErrKind) (e : Err) (t : List Loc) (y : Loc) :
    mergeAll ek e (t ++ [y]) = ek.merge (mergeAll ek e t) y.err := by
  simp [mergeAll, List.foldl_append]

/-- invariant of the fold: the pending error is the in-order merge of the events seen so far that lie at
    its position, and nothing seen so far lies further -/
theorem foldAlt_inv {ek : ErrKind} (evs : List Loc) (pre : List Loc) (a l : Loc)
    (hge : ∀ ev ∈ pre, ev.pos ≤ a.pos)
    (hinv : ∃ h t, pre.filter (·.pos = a.pos) = h :: t ∧ a.err = mergeAll ek h.err t)
    (hl : foldAlt ek (some a) evs = some l) :
    ∃ h t, (pre ++ evs).filter (·.pos = l.pos) = h :: t ∧ l.err = mergeAll ek h.err t := by
  induction evs generalizing pre a with
  | nil =>
    have : a = l := by simpa using hl
    subst this; simpa using hinv
  | cons x xs ih =>
    rw [foldAlt_cons] at hl
    have happ : pre ++ x :: xs = (pre ++ [x]) ++ xs := by simp
    rw [happ]
    obtain ⟨h, t, hf, he⟩ := hinv
    rcases Nat.lt_trichotomy a.pos x.pos with hlt | heq | hgt
    · rw [mergeAlt_some_lt _ _ _ _ hlt] at hl
      refine ih (pre ++ [x]) ⟨x.pos, x.err⟩ ?_ ?_ hl
      · intro ev hev
        rcases List.mem_append.mp hev with hev | hev
        · have := hge ev hev; show ev.pos ≤ x.pos; omega
        · have : ev = x := by simpa using hev
          subst this; exact Nat.le_refl _
      · refine ⟨x, [], ?_, rfl⟩
        have hnil : pre.filter (·.pos = x.pos) = [] := by
          rw [List.filter_eq_nil_iff]
          intro ev hev
          have := hge ev hev
          simp; omega
        show List.filter (·.pos = x.pos) (pre ++ [x]) = [x]
        rw [List.filter_append, hnil]
        simp
    · rw [mergeAlt_some_eq _ _ _ _ heq] at hl
      refine ih (pre ++ [x]) ⟨a.pos, ek.merge a.err x.err⟩ ?_ ?_ hl
      · intro ev hev
        rcases List.mem_append.mp hev with hev | hev
        · exact hge ev hev
        · have : ev = x := by simpa using hev
          subst this; show ev.pos ≤ a.pos; omega
      · refine ⟨h, t ++ [x], ?_, ?_⟩
        · show List.filter (·.pos = a.pos) (pre ++ [x]) = h :: (t ++ [x])
          rw [List.filter_append, hf]
          simp [heq]
        · show ek.merge a.err x.err = mergeAll ek h.err (t ++ [x])
          rw [mergeAll_snoc, he]
    · rw [mergeAlt_some_gt _ _ _ _ hgt] at hl
      refine ih (pre ++ [x]) a ?_ ?_ hl
      · intro ev hev
        rcases List.mem_append.mp hev with hev | hev
        · exact hge ev hev
        · have : ev = x := by simpa using hev
          subst this; omega
      · refine ⟨h, t, ?_, he⟩
        rw [List.filter_append, hf]
        have : ¬ x.pos = a.pos := by omega
        simp [this]

/-- for every error kind: the summary is the in-order merge of the events at the furthest position -/
theorem summ_eq_mergeAll {ek : ErrKind} {evs : List Loc} {l : Loc} (h : summ ek evs = some l) :
    ∃ hd tl, evs.filter (·.pos = l.pos) = hd :: tl ∧ l.err = mergeAll ek hd.err tl := by
  cases evs with
  | nil => cases h
  | cons x xs =>
    have := foldAlt_inv (ek := ek) xs [x] x l (by simp) ⟨x, [], by simp, rfl⟩ h
    simpa using this

theorem summ_filter_ne_nil {ek : ErrKind} {evs : List Loc} {l : Loc} (h : summ ek evs = some l) :
    evs.filter (·.pos = l.pos) ≠ [] := by
  obtain ⟨hd, tl, hf, _⟩ := summ_eq_mergeAll h
  rw [hf]; exact List.cons_ne_nil _ _

/-- for the kinds whose `merge` keeps `self`, the summary is simply the first event at the furthest position -/
theorem summ_not_rich {ek : ErrKind} (hek : ek ≠ .rich) {evs : List Loc} {l : Loc}
    (h : summ ek evs = some l) :
    ∃ hne : evs.filter (·.pos = l.pos) ≠ [], l.err = ((evs.filter (·.pos = l.pos)).head hne).err := by
  obtain ⟨hd, tl, hf, he⟩ := summ_eq_mergeAll h
  refine ⟨summ_filter_ne_nil h, ?_⟩
  have : ∀ (t : List Loc) (e : Err), mergeAll ek e t = e := by
    intro t
    induction t with
    | nil => intro e; rfl
    | cons y t ih => intro e; rw [mergeAll_cons, merge_not_rich hek, ih]
  simp only [hf, List.head_cons]
  rw [he, this]

/-! ### `Rich` -/

def Reason.isCustom : Reason → Bool
  | .custom _ => true
  | .ef _ _ => false

@[simp] theorem Reason.isCustom_custom (m : Nat) : (Reason.custom m).isCustom = true := rfl
@[simp] theorem Reason.isCustom_ef (e : List Pat) (f : Option Nat) : (Reason.ef e f).isCustom = false := rfl

theorem Reason.isCustom_iff {r : Reason} : r.isCustom = true ↔ ∃ m, r = .custom m := by
  cases r <;> simp

theorem Reason.isCustom_false_iff {r : Reason} : r.isCustom = false ↔ ∀ m, r ≠ .custom m := by
  cases r <;> simp

theorem mergeAll_rich_span (e : Err) (t : List Loc) : (mergeAll .rich e t).span = e.span := by
  induction t generalizing e with
  | nil => rfl
  | cons y t ih => rw [mergeAll_cons, ih]; rfl

theorem mergeAll_rich_ctx (e : Err) (t : List Loc) : (mergeAll .rich e t).ctx = e.ctx := by
  induction t generalizing e with
  | nil => rfl
  | cons y t ih => rw [mergeAll_cons, ih]; rfl

/-- a custom reason absorbs everything merged into it -/
theorem mergeAll_rich_custom {e : Err} {m : Nat} (t : List Loc) (h : e.reason = .custom m) :
    (mergeAll .rich e t).reason = .custom m := by
  induction t generalizing e with
  | nil => exact h
  | cons y t ih =>
    rw [mergeAll_cons]
    apply ih
    simp [h]

/-- no custom reason around: the expected sets are united; `found` is the first one present (the start's if it has one) -/
theorem mergeAll_rich_ef {e : Err} {ex : List Pat} {f : Option Nat} (t : List Loc)
    (h : e.reason = .ef ex f) (hn : ∀ ev ∈ t, ev.err.reason.isCustom = false) :
    ∃ ex' f', (mergeAll .rich e t).reason = .ef ex' f' ∧
      (∀ x, x ∈ ex' ↔ x ∈ ex ∨ ∃ ev ∈ t, ∃ e2 f2, ev.err.reason = .ef e2 f2 ∧ x ∈ e2) ∧
      (f.isSome = true → f' = f) ∧ (f' = f ∨ ∃ ev ∈ t, ∃ e2, ev.err.reason = .ef e2 f') := by
  induction t generalizing e ex f with
  | nil => exact ⟨ex, f, h, by simp, fun _ => rfl, Or.inl rfl⟩
  | cons y t ih =>
    rw [mergeAll_cons]
    have hy := hn y List.mem_cons_self
    cases hyr : y.err.reason with
    | custom m => simp [hyr] at hy
    | ef ey fy =>
      obtain ⟨e1, h1, m1⟩ := flatMerge_ef_ef ex ey f fy
      have hr : (ErrKind.rich.merge e y.err).reason = .ef e1 (f.or fy) := by
        simp [h, hyr, h1]
      obtain ⟨ex', f', hx', mx', hf1, hf2⟩ := ih hr (fun ev hev => hn ev (List.mem_cons_of_mem _ hev))
      refine ⟨ex', f', hx', ?_, ?_, ?_⟩
      · intro x
        rw [mx', m1]
        constructor
        · rintro ((hx | hx) | ⟨ev, hev, e2, f2, hr2, hx⟩)
          · exact Or.inl hx
          · exact Or.inr ⟨y, List.mem_cons_self, ey, fy, hyr, hx⟩
          · exact Or.inr ⟨ev, List.mem_cons_of_mem _ hev, e2, f2, hr2, hx⟩
        · rintro (hx | ⟨ev, hev, e2, f2, hr2, hx⟩)
          · exact Or.inl (Or.inl hx)
          · rcases List.mem_cons.mp hev with rfl | hev
            · rw [hyr] at hr2; cases hr2
              exact Or.inl (Or.inr hx)
            · exact Or.inr ⟨ev, hev, e2, f2, hr2, hx⟩
      · intro hs
        cases f with
        | none => simp at hs
        | some v => exact hf1 (by simp)
      · rcases hf2 with hf2 | ⟨ev, hev, e2, hr2⟩
        · cases f with
          | some v => left; simpa using hf2
          | none =>
            simp only [Option.none_or] at hf2
            right; exact ⟨y, List.mem_cons_self, ey, by rw [hyr, hf2]⟩
        · right; exact ⟨ev, List.mem_cons_of_mem _ hev, e2, hr2⟩

/-- the first custom reason among the merged events wins over an `expected/found` start -/
theorem mergeAll_rich_ef_custom {e : Err} {ex : List Pat} {f : Option Nat} (t : List Loc) {ev : Loc} {m : Nat}
    (h : e.reason = .ef ex f)
    (hf : t.find? (fun ev => ev.err.reason.isCustom) = some ev) (hm : ev.err.reason = .custom m) :
    (mergeAll .rich e t).reason = .custom m := by
  induction t generalizing e ex f with
  | nil => simp at hf
  | cons y t ih =>
    rw [mergeAll_cons]
    cases hyr : y.err.reason with
    | custom m' =>
      have : y = ev := by simpa [List.find?_cons, hyr] using hf
      subst this
      rw [hyr] at hm; cases hm
      apply mergeAll_rich_custom
      simp [h, hyr]
    | ef ey fy =>
      have hf' : t.find? (fun ev => ev.err.reason.isCustom) = some ev := by
        simpa [List.find?_cons, hyr] using hf
      obtain ⟨e1, h1, _⟩ := flatMerge_ef_ef ex ey f fy
      have hr : (ErrKind.rich.merge e y.err).reason = .ef e1 (f.or fy) := by
        simp [h, hyr, h1]
      exact ih hr hf'

/-- the first custom reason in `hd :: tl` is the reason of the merge -/
theorem mergeAll_rich_first_custom (hd : Loc) (tl : List Loc) {ev : Loc} {m : Nat}
    (hf : (hd :: tl).find? (fun ev => ev.err.reason.isCustom) = some ev) (hm : ev.err.reason = .custom m) :
    (mergeAll .rich hd.err tl).reason = .custom m := by
  cases hr : hd.err.reason with
  | custom m' =>
    have : hd = ev := by simpa [List.find?_cons, hr] using hf
    subst this
    rw [hr] at hm; cases hm
    exact mergeAll_rich_custom _ hr
  | ef ex f =>
    have hf' : tl.find? (fun ev => ev.err.reason.isCustom) = some ev := by
      simpa [List.find?_cons, hr] using hf
    exact mergeAll_rich_ef_custom _ hr hf' hm

/-- D1: the span is that of the first event at the furthest position -/
theorem summ_span {evs : List Loc} {l : Loc} (h : summ .rich evs = some l) :
    ∃ hne : evs.filter (·.pos = l.pos) ≠ [],
      l.err.span = ((evs.filter (·.pos = l.pos)).head hne).err.span := by
  obtain ⟨hd, tl, hf, he⟩ := summ_eq_mergeAll h
  refine ⟨summ_filter_ne_nil h, ?_⟩
  simp only [hf, List.head_cons]
  rw [he, mergeAll_rich_span]

/-- the context list is that of the first event at the furthest position, too -/
theorem summ_ctx {evs : List Loc} {l : Loc} (h : summ .rich evs = some l) :
    ∃ hne : evs.filter (·.pos = l.pos) ≠ [],
      l.err.ctx = ((evs.filter (·.pos = l.pos)).head hne).err.ctx := by
  obtain ⟨hd, tl, hf, he⟩ := summ_eq_mergeAll h
  refine ⟨summ_filter_ne_nil h, ?_⟩
  simp only [hf, List.head_cons]
  rw [he, mergeAll_rich_ctx]

/-- D2 (core form): the FIRST custom event at the furthest position decides the reason -/
theorem summ_custom_of_find {evs : List Loc} {l ev : Loc} {m : Nat} (h : summ .rich evs = some l)
    (hf : (evs.filter (·.pos = l.pos)).find? (fun ev => ev.err.reason.isCustom) = some ev)
    (hm : ev.err.reason = .custom m) : l.err.reason = .custom m := by
  obtain ⟨hd, tl, hfl, he⟩ := summ_eq_mergeAll h
  rw [hfl] at hf
  rw [he]
  exact mergeAll_rich_first_custom hd tl hf hm

/-- D2: if some event at the furthest position is custom, the reason is the message of the first such event -/
theorem summ_custom {evs : List Loc} {l : Loc} (h : summ .rich evs = some l)
    (hc : ∃ ev ∈ evs, ev.pos = l.pos ∧ ∃ m, ev.err.reason = .custom m) :
    ∃ ev m, (evs.filter (·.pos = l.pos)).find? (fun ev => ev.err.reason.isCustom) = some ev ∧
      ev.err.reason = .custom m ∧ l.err.reason = .custom m := by
  obtain ⟨ev0, hev0, hp0, m0, hm0⟩ := hc
  have hsome : ((evs.filter (·.pos = l.pos)).find? (fun ev => ev.err.reason.isCustom)).isSome := by
    rw [List.find?_isSome]
    exact ⟨ev0, by simp [hev0, hp0], by simp [hm0]⟩
  obtain ⟨ev, hev⟩ := Option.isSome_iff_exists.mp hsome
  have hcust : ev.err.reason.isCustom = true := by
    have := List.find?_some hev
    simpa using this
  obtain ⟨m, hm⟩ := Reason.isCustom_iff.mp hcust
  exact ⟨ev, m, hev, hm, summ_custom_of_find h hev hm⟩

/-- D2, list-splitting form: `ev` is at the furthest position, is custom, and nothing before it at that
    position is custom -/
theorem summ_custom_split {xs ys : List Loc} {l ev : Loc} {m : Nat}
    (h : summ .rich (xs ++ ev :: ys) = some l) (hp : ev.pos = l.pos) (hm : ev.err.reason = .custom m)
    (hfirst : ∀ x ∈ xs, x.pos = l.pos → ∀ m', x.err.reason ≠ .custom m') :
    l.err.reason = .custom m := by
  apply summ_custom_of_find h _ hm
  rw [List.filter_append, List.find?_append]
  have h1 : (xs.filter (·.pos = l.pos)).find? (fun ev => ev.err.reason.isCustom) = none := by
    rw [List.find?_eq_none]
    intro x hx
    have hx' := List.mem_filter.mp hx
    have := hfirst x hx'.1 (by simpa using hx'.2)
    simpa using Reason.isCustom_false_iff.mpr this
  rw [h1]
  simp [hp, hm]

/-- D3: if no event at the furthest position is custom, the expected set is exactly the union over the
    events at the furthest position -/
theorem summ_expected {evs : List Loc} {l : Loc} (h : summ .rich evs = some l)
    (hn : ∀ ev ∈ evs, ev.pos = l.pos → ∀ m, ev.err.reason ≠ .custom m) :
    ∃ exp f, l.err.reason = .ef exp f ∧
      ∀ x, x ∈ exp ↔ ∃ ev ∈ evs, ev.pos = l.pos ∧ ∃ ex fo, ev.err.reason = .ef ex fo ∧ x ∈ ex := by
  obtain ⟨hd, tl, hfl, he⟩ := summ_eq_mergeAll h
  have hmem : ∀ ev, ev ∈ hd :: tl ↔ ev ∈ evs ∧ ev.pos = l.pos := by
    intro ev; rw [← hfl]; simp
  have hhd := (hmem hd).mp List.mem_cons_self
  cases hr : hd.err.reason with
  | custom m => exact absurd hr (hn hd hhd.1 hhd.2 m)
  | ef ex f =>
    have hn' : ∀ ev ∈ tl, ev.err.reason.isCustom = false := by
      intro ev hev
      have := (hmem ev).mp (List.mem_cons_of_mem _ hev)
      exact Reason.isCustom_false_iff.mpr (hn ev this.1 this.2)
    obtain ⟨ex', f', hx', mx', _, _⟩ := mergeAll_rich_ef tl hr hn'
    refine ⟨ex', f', by rw [he]; exact hx', ?_⟩
    intro x
    rw [mx']
    constructor
    · rintro (hx | ⟨ev, hev, e2, f2, hr2, hx⟩)
      · exact ⟨hd, hhd.1, hhd.2, ex, f, hr, hx⟩
      · have := (hmem ev).mp (List.mem_cons_of_mem _ hev)
        exact ⟨ev, this.1, this.2, e2, f2, hr2, hx⟩
    · rintro ⟨ev, hev, hp, e2, f2, hr2, hx⟩
      rcases List.mem_cons.mp ((hmem ev).mpr ⟨hev, hp⟩) with rfl | hev'
      · rw [hr] at hr2; cases hr2
        exact Or.inl hx
      · exact Or.inr ⟨ev, hev', e2, f2, hr2, hx⟩

/-- D3 addendum: the `found` of the result is the `found` of an event at the furthest position — the first event's if it
    has one, otherwise the first one present among the later events there -/
theorem summ_found {evs : List Loc} {l : Loc} (h : summ .rich evs = some l)
    (hn : ∀ ev ∈ evs, ev.pos = l.pos → ∀ m, ev.err.reason ≠ .custom m) :
    ∃ hne : evs.filter (·.pos = l.pos) ≠ [], ∃ exp ex f f', l.err.reason = .ef exp f' ∧
      ((evs.filter (·.pos = l.pos)).head hne).err.reason = .ef ex f ∧ (f.isSome = true → f' = f) ∧
      ∃ ev ∈ evs, ev.pos = l.pos ∧ ∃ e2, ev.err.reason = .ef e2 f' := by
  obtain ⟨hd, tl, hfl, he⟩ := summ_eq_mergeAll h
  refine ⟨summ_filter_ne_nil h, ?_⟩
  have hmem : ∀ ev, ev ∈ hd :: tl ↔ ev ∈ evs ∧ ev.pos = l.pos := by
    intro ev; rw [← hfl]; simp
  have hhd := (hmem hd).mp List.mem_cons_self
  cases hr : hd.err.reason with
  | custom m => exact absurd hr (hn hd hhd.1 hhd.2 m)
  | ef ex f =>
    have hn' : ∀ ev ∈ tl, ev.err.reason.isCustom = false := by
      intro ev hev
      have := (hmem ev).mp (List.mem_cons_of_mem _ hev)
      exact Reason.isCustom_false_iff.mpr (hn ev this.1 this.2)
    obtain ⟨ex', f', hx', _, hf1, hf2⟩ := mergeAll_rich_ef tl hr hn'
    refine ⟨ex', ex, f, f', by rw [he]; exact hx', ?_, hf1, ?_⟩
    · simp only [hfl, List.head_cons]
      exact hr
    · rcases hf2 with hf2 | ⟨ev, hev, e2, hr2⟩
      · exact ⟨hd, hhd.1, hhd.2, ex, by rw [hr, hf2]⟩
      · have := (hmem ev).mp (List.mem_cons_of_mem _ hev)
        exact ⟨ev, this.1, this.2, e2, hr2⟩

#print axioms mergeAlt_summ
#print axioms summ_expected
#print axioms summ_custom
#print axioms summ_span
#print axioms foldAlt_pos_ge
#print axioms foldAlt_pos_mem
#print axioms addAlt_alt_equiv

end Chumsky
