/-
  C09 / C12 — recursive expression grammars `recursive(|e| atom.pratt(ops))` (`Model/Pratt.lean`, `XEnv`): inside the atom
  and the operator parsers `.call hole` is the expression itself (parenthesised sub-expressions, call arguments …).
  The machine `runX` (the ordinary `step` everywhere, `pratt_go` at the hole) refines the reading `pegX` (the ordinary
  `pegStep` everywhere, the textbook binding-power recursion at the hole): one induction on the fuel that re-uses the
  master refinement's step lemmas and the parametric Pratt refinement.
-/
import ChumskyModel.Proofs.Lemmas.PrattRefine
set_option linter.unusedSimpArgs false
set_option linter.unusedVariables false
namespace Chumsky

theorem runX_refines_all (x : XEnv) (n : Nat) :
    RunnerRefines (runX x n) (pegX x n) ∧ NextRefines (nextX x n) (pegNextX x n) ∧
      MkRefines (mkIterX x n) (pegMkX x n) := by
  induction n with
  | zero =>
    refine ⟨?_, ?_, ?_⟩
    · intro env m g st _; simp [runX, pegX, Refines]
    · intro env m it st ist _; simp [nextX, pegNextX, RefinesIt]
    · intro env m it st _; simp [mkIterX, pegMkX, RefinesMk]
  | succ n ih =>
    obtain ⟨hR, hN, hK⟩ := ih
    refine ⟨?_, ?_, ?_⟩
    · intro env m g st hm
      simp only [runX, pegX]
      by_cases hh : x.isHole g = true
      · simp only [hh, if_true]
        have hP : PRefines (fun m g st => runX x n env m g st) (fun g s => pegX x n env g s st.ctx) st.ctx := by
          intro m' g' st' hc
          have := hR env m' g' st' hm
          rw [hc] at this
          exact this
        exact prattGo_refines hP env m x.atom x.ops n 0 st rfl
      · simp only [hh]
        exact step_refines hR hN hK n env m g st hm
    · simp only [nextX, pegNextX]; exact stepNext_refines hR hN hK
    · simp only [mkIterX, pegMkX]; exact stepMk_refines hR hK

/-- machine ⊑ reading for recursive expression grammars, every grammar position, mode, state and fuel -/
theorem runX_refines (x : XEnv) (n : Nat) (env : Env) (m : Mode) (g : G) (st : St) (hm : env.memoOn = false) :
    Refines m st.errs st.ctx (runX x n env m g st) (pegX x n env g st.ss st.ctx) :=
  (runX_refines_all x n).1 env m g st hm

theorem parseTopX_refines (x : XEnv) (n : Nat) (env : Env) (m : Mode) (hm : env.memoOn = false) :
    TopRefines m (parseTopX x n env m) (pegTopX x n env) := by
  unfold parseTopX pegTopX
  have h := runX_refines x n env m (.thenIgnore (.call x.hole) .end_) St.init hm
  have e1 : St.init.ss = ⟨0, []⟩ := rfl
  have e2 : St.init.ctx = .unit := rfl
  have e3 : St.init.errs = [] := rfl
  rw [e1, e2, e3] at h
  revert h
  cases runX x n env m (.thenIgnore (.call x.hole) .end_) St.init <;>
    cases pegX x n env (.thenIgnore (.call x.hole) .end_) ⟨0, []⟩ .unit <;> simp [Refines, TopRefines]
  · intro h
    obtain ⟨new, he, hr⟩ := h.errs
    simp at he
    exact ⟨h.val, h.ss, by rw [he]; exact hr⟩

/-- at the hole the reading *is* the textbook algorithm over the reading of the atom / operator parsers -/
theorem pegX_hole (x : XEnv) (n : Nat) (env : Env) (s : SS) (ctx : Val) :
    pegX x (n + 1) env (.call x.hole) s ctx = sPratt (fun g s => pegX x n env g s ctx) env x.atom x.ops n 0 s := by
  simp [pegX, XEnv.isHole]

/-- so every (sub-)expression — however deeply parenthesised — is a power-respecting tree … -/
theorem pegX_shape (x : XEnv) {n : Nat} {env : Env} {s : SS} {ctx v : Val} {s' : SS} {em : List Emis}
    (h : pegX x (n + 1) env (.call x.hole) s ctx = .ok v s' em) :
    ∃ t, tPratt (fun g s => pegX x n env g s ctx) env x.atom x.ops n 0 s = .ok t s' em ∧ t.val = v ∧
      Shape x.ops 0 t := by
  rw [pegX_hole] at h
  exact sPratt_shape h

end Chumsky
