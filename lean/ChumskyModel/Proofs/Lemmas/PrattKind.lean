/-
  C10 for Pratt parsers: `pratt_go` commutes with the re-basing of spans — running `atom.pratt(ops)` on another input
  representation of the same tokens gives the index-based result with every span (those handed to the fold callbacks, those
  in the errors) mapped through the representation's span function. Plain tables and recursive expression grammars.
-/
import ChumskyModel.Model.Pratt
import ChumskyModel.Proofs.Lemmas.KindSim
set_option linter.unusedSimpArgs false
set_option linter.unusedVariables false
namespace Chumsky

def PrattOp.mapConst (M : SpMap) : PrattOp → PrattOp
  | .infix la bp op => .infix la bp (op.mapConst M)
  | .prefix bp op => .prefix bp (op.mapConst M)
  | .postfix bp op => .postfix bp (op.mapConst M)

def sumMapSp (M : SpMap) : Sum St Out → Sum St Out
  | .inl st => .inl (st.mapSp M)
  | .inr o => .inr (o.mapSp M)

@[simp] theorem sumMapSp_inl (M : SpMap) (st : St) : sumMapSp M (.inl st) = .inl (st.mapSp M) := rfl
@[simp] theorem sumMapSp_inr (M : SpMap) (o : Out) : sumMapSp M (.inr o) = .inr (o.mapSp M) := rfl

variable {M : SpMap} {env env' : Env} {R : Runner} {rec rec' : Nat → St → Out}

def RecKind (M : SpMap) (rec rec' : Nat → St → Out) : Prop := ∀ p st, rec' p (st.mapSp M) = (rec p st).mapSp M

theorem foldPrefix_mapSp (h : KindRel M env env') (opv rhs : Val) (i j : Nat) :
    foldPrefix (opv.mapSp M) (rhs.mapSp M) (env'.mkSpan i j) = (foldPrefix opv rhs (env.mkSpan i j)).mapSp M := by
  simp only [foldPrefix, h.span, Val.mapSp_tag, Val.mapSp_pair, Val.mapSp_span]
theorem foldPostfix_mapSp (h : KindRel M env env') (lhs opv : Val) (i j : Nat) :
    foldPostfix (lhs.mapSp M) (opv.mapSp M) (env'.mkSpan i j) = (foldPostfix lhs opv (env.mkSpan i j)).mapSp M := by
  simp only [foldPostfix, h.span, Val.mapSp_tag, Val.mapSp_pair, Val.mapSp_span]
theorem foldInfix_mapSp (h : KindRel M env env') (lhs opv rhs : Val) (i j : Nat) :
    foldInfix (lhs.mapSp M) (opv.mapSp M) (rhs.mapSp M) (env'.mkSpan i j) =
      (foldInfix lhs opv rhs (env.mkSpan i j)).mapSp M := by
  simp only [foldInfix, h.span, Val.mapSp_tag, Val.mapSp_pair, Val.mapSp_span]

theorem prattPrefix_kind (h : KindRel M env env') (hR : KindSimR M env env' R) (hrec : RecKind M rec rec') (m : Mode)
    (c : Chk) : ∀ (ops : List PrattOp) (st : St),
      prattPrefix (fun m g st => R env' m g st) rec' env' m c (ops.map (PrattOp.mapConst M)) (st.mapSp M) =
        sumMapSp M (prattPrefix (fun m g st => R env m g st) rec env m c ops st)
  | [], st => rfl
  | .prefix bp op :: rest, st => by
    simp only [List.map_cons, PrattOp.mapConst, prattPrefix, hR m op st]
    cases R env m op st with
    | ok opv st1 =>
      simp only [Out.mapSp_ok, hrec (2 * bp) st1]
      cases rec (2 * bp) st1 with
      | ok rhs st2 =>
        cases m <;> simp only [Out.mapSp_ok, sumMapSp_inr, St.mapSp_pos, foldPrefix_mapSp h, Val.mapSp_unit]
      | fail st2 =>
        simp only [Out.mapSp_fail, St.rewind_mapSp]
        exact prattPrefix_kind h hR hrec m c rest _
      | panic w => rfl
      | oof => rfl
    | fail st1 =>
      simp only [Out.mapSp_fail, St.rewind_mapSp]
      exact prattPrefix_kind h hR hrec m c rest _
    | panic w => rfl
    | oof => rfl
  | .infix _ _ _ :: rest, st => by
    simp only [List.map_cons, PrattOp.mapConst, prattPrefix]; exact prattPrefix_kind h hR hrec m c rest st
  | .postfix _ _ :: rest, st => by
    simp only [List.map_cons, PrattOp.mapConst, prattPrefix]; exact prattPrefix_kind h hR hrec m c rest st

theorem prattPostfix_kind (h : KindRel M env env') (hR : KindSimR M env env' R) (m : Mode) (c c' : Chk) (minP : Nat)
    (lhs : Val) : ∀ (ops : List PrattOp) (st : St),
      prattPostfix (fun m g st => R env' m g st) env' m c c' minP (lhs.mapSp M) (ops.map (PrattOp.mapConst M))
          (st.mapSp M) =
        sumMapSp M (prattPostfix (fun m g st => R env m g st) env m c c' minP lhs ops st)
  | [], st => rfl
  | .postfix bp op :: rest, st => by
    simp only [List.map_cons, PrattOp.mapConst, prattPostfix, hR m op st]
    split
    · cases R env m op st with
      | ok opv st1 =>
        cases m <;> simp only [Out.mapSp_ok, sumMapSp_inr, St.mapSp_pos, foldPostfix_mapSp h, Val.mapSp_unit]
      | fail st1 =>
        simp only [Out.mapSp_fail, St.rewind_mapSp]
        exact prattPostfix_kind h hR m c c' minP lhs rest _
      | panic w => rfl
      | oof => rfl
    · exact prattPostfix_kind h hR m c c' minP lhs rest st
  | .infix _ _ _ :: rest, st => by
    simp only [List.map_cons, PrattOp.mapConst, prattPostfix]; exact prattPostfix_kind h hR m c c' minP lhs rest st
  | .prefix _ _ :: rest, st => by
    simp only [List.map_cons, PrattOp.mapConst, prattPostfix]; exact prattPostfix_kind h hR m c c' minP lhs rest st

theorem prattInfix_kind (h : KindRel M env env') (hR : KindSimR M env env' R) (hrec : RecKind M rec rec') (m : Mode)
    (c c' : Chk) (minP : Nat) (lhs : Val) : ∀ (ops : List PrattOp) (st : St),
      prattInfix (fun m g st => R env' m g st) rec' env' m c c' minP (lhs.mapSp M) (ops.map (PrattOp.mapConst M))
          (st.mapSp M) =
        sumMapSp M (prattInfix (fun m g st => R env m g st) rec env m c c' minP lhs ops st)
  | [], st => rfl
  | .infix la bp op :: rest, st => by
    simp only [List.map_cons, PrattOp.mapConst, prattInfix, hR m op st]
    split
    · cases R env m op st with
      | ok opv st1 =>
        simp only [Out.mapSp_ok, hrec (rightPower la bp) st1]
        cases rec (rightPower la bp) st1 with
        | ok rhs st2 =>
          cases m <;> simp only [Out.mapSp_ok, sumMapSp_inr, St.mapSp_pos, foldInfix_mapSp h, Val.mapSp_unit]
        | fail st2 =>
          simp only [Out.mapSp_fail, St.rewind_mapSp]
          exact prattInfix_kind h hR hrec m c c' minP lhs rest _
        | panic w => rfl
        | oof => rfl
      | fail st1 =>
        simp only [Out.mapSp_fail, St.rewind_mapSp]
        exact prattInfix_kind h hR hrec m c c' minP lhs rest _
      | panic w => rfl
      | oof => rfl
    · exact prattInfix_kind h hR hrec m c c' minP lhs rest st
  | .postfix _ _ :: rest, st => by
    simp only [List.map_cons, PrattOp.mapConst, prattInfix]; exact prattInfix_kind h hR hrec m c c' minP lhs rest st
  | .prefix _ _ :: rest, st => by
    simp only [List.map_cons, PrattOp.mapConst, prattInfix]; exact prattInfix_kind h hR hrec m c c' minP lhs rest st

theorem prattLoop_kind (h : KindRel M env env') (hR : KindSimR M env env' R) (hrec : RecKind M rec rec') (m : Mode)
    (ops : List PrattOp) (c : Chk) (minP : Nat) : ∀ (k : Nat) (st : St) (lhs : Val),
      prattLoop (fun m g st => R env' m g st) rec' env' m (ops.map (PrattOp.mapConst M)) c minP k (st.mapSp M)
          (lhs.mapSp M) =
        (prattLoop (fun m g st => R env m g st) rec env m ops c minP k st lhs).mapSp M
  | 0, _, _ => rfl
  | k + 1, st, lhs => by
    simp only [prattLoop, St.save_mapSp]
    rw [prattPostfix_kind h hR m c st.save minP lhs ops st]
    cases prattPostfix (fun m g st => R env m g st) env m c st.save minP lhs ops st with
    | inr o =>
      cases o with
      | ok v st1 => simp only [sumMapSp_inr, Out.mapSp_ok]; exact prattLoop_kind h hR hrec m ops c minP k st1 v
      | fail st1 => rfl
      | panic w => rfl
      | oof => rfl
    | inl st1 =>
      simp only [sumMapSp_inl]
      rw [prattInfix_kind h hR hrec m c st.save minP lhs ops st1]
      cases prattInfix (fun m g st => R env m g st) rec env m c st.save minP lhs ops st1 with
      | inr o =>
        cases o with
        | ok v st2 => simp only [sumMapSp_inr, Out.mapSp_ok]; exact prattLoop_kind h hR hrec m ops c minP k st2 v
        | fail st2 => rfl
        | panic w => rfl
        | oof => rfl
      | inl st2 => simp only [sumMapSp_inl, Out.mapSp_ok, St.rewind_mapSp]

/-- **C10 for `pratt_go`** -/
theorem prattGo_kind (h : KindRel M env env') (hR : KindSimR M env env' R) (m : Mode) (atom : G) (ops : List PrattOp) :
    ∀ (k minP : Nat) (st : St),
      prattGo (fun m g st => R env' m g st) env' m (atom.mapConst M) (ops.map (PrattOp.mapConst M)) k minP
          (st.mapSp M) =
        (prattGo (fun m g st => R env m g st) env m atom ops k minP st).mapSp M := by
  intro k
  induction k with
  | zero => intro _ _; rfl
  | succ k ih =>
    intro minP st
    have hrec : RecKind M (prattGo (fun m g st => R env m g st) env m atom ops k)
        (prattGo (fun m g st => R env' m g st) env' m (atom.mapConst M) (ops.map (PrattOp.mapConst M)) k) :=
      fun p st => ih p st
    simp only [prattGo, St.save_mapSp]
    rw [prattPrefix_kind h hR hrec m st.save ops st]
    cases prattPrefix (fun m g st => R env m g st) (prattGo (fun m g st => R env m g st) env m atom ops k) env m
        st.save ops st with
    | inr o =>
      cases o with
      | ok v st1 => simp only [sumMapSp_inr, Out.mapSp_ok]; exact prattLoop_kind h hR hrec m ops st.save minP k st1 v
      | fail st1 => rfl
      | panic w => rfl
      | oof => rfl
    | inl st0 =>
      simp only [sumMapSp_inl, hR m atom st0]
      cases R env m atom st0 with
      | ok v st1 => simp only [Out.mapSp_ok]; exact prattLoop_kind h hR hrec m ops st.save minP k st1 v
      | fail st1 => rfl
      | panic w => rfl
      | oof => rfl

/-- `atom.pratt(ops)` under any representation related by `M`: the index-based result with spans re-based -/
theorem runPratt_kind (h : KindRel M env env') (fuel : Nat) (m : Mode) (atom : G) (ops : List PrattOp) (st : St) :
    runPratt fuel env' m (atom.mapConst M) (ops.map (PrattOp.mapConst M)) (st.mapSp M) =
      (runPratt fuel env m atom ops st).mapSp M :=
  prattGo_kind h (run_kind_all h fuel).1 m atom ops fuel 0 st

theorem opsMapConst_of_constOk (M : SpMap) : ∀ ops : List PrattOp,
    (∀ o ∈ ops, (match o with | .infix _ _ g => g | .prefix _ g => g | .postfix _ g => g).constOk = true) →
      ops.map (PrattOp.mapConst M) = ops
  | [], _ => rfl
  | o :: os, h => by
    have ho := h o (List.mem_cons_self ..)
    have hos := opsMapConst_of_constOk M os (fun x hx => h x (List.mem_cons_of_mem _ hx))
    cases o <;> simp only [List.map_cons, PrattOp.mapConst, hos] <;> simp only at ho <;>
      rw [G.mapConst_of_constOk M _ ho]

/-- **C10 for `atom.pratt(ops)`, from the index-based representation to any other** (constants of the atom / operator
    grammars carry no span): the machine under `env'` from a re-based state is the index-based run re-based -/
theorem runPratt_kindSim (env : Env) (hs : env.kind = .slice) (k : InKind) (ts : List (Nat × Nat)) (e : Nat × Nat)
    (hd : constOkL env.defs = true) (fuel : Nat) (m : Mode) (atom : G) (hatom : atom.constOk = true)
    (ops : List PrattOp)
    (hops : ∀ o ∈ ops, (match o with | .infix _ _ g => g | .prefix _ g => g | .postfix _ g => g).constOk = true)
    (st : St) :
    let env' : Env := { env with kind := k, tspans := ts, eoi := e }
    runPratt fuel env' m atom ops (st.mapSp env'.rebase) = (runPratt fuel env m atom ops st).mapSp env'.rebase := by
  intro env'
  have := runPratt_kind (kindRel_of_slice env hs k ts e hd) fuel m atom ops st
  rwa [G.mapConst_of_constOk _ atom hatom, opsMapConst_of_constOk _ ops hops] at this

/-! ### recursive expression grammars -/

def XEnv.mapConst (M : SpMap) (x : XEnv) : XEnv :=
  { hole := x.hole, atom := x.atom.mapConst M, ops := x.ops.map (PrattOp.mapConst M) }

theorem XEnv.isHole_mapConst (M : SpMap) (x : XEnv) (g : G) : (x.mapConst M).isHole (g.mapConst M) = x.isHole g := by
  cases g <;> simp [XEnv.isHole, XEnv.mapConst, G.mapConst]

end Chumsky

namespace Chumsky

/-- **C10 for recursive expression grammars** (atom and operator grammars whose literal constants carry no span): every
    runner of the extension machine commutes with the re-basing of spans -/
theorem runX_kind_all {M : SpMap} {env env' : Env} (x : XEnv) (h : KindRel M env env') (hatom : x.atom.constOk = true)
    (hops : ∀ o ∈ x.ops, (match o with | .infix _ _ g => g | .prefix _ g => g | .postfix _ g => g).constOk = true) :
    ∀ n : Nat, KindSimR M env env' (runX x n) ∧ KindSimN M env env' (nextX x n) ∧ KindSimK M env env' (mkIterX x n)
  | 0 => ⟨fun _ _ _ => rfl, fun _ _ _ _ => rfl, fun _ _ _ => rfl⟩
  | n + 1 => by
    obtain ⟨hR, hN, hK⟩ := runX_kind_all x h hatom hops n
    refine ⟨?_, ?_, ?_⟩
    · intro m g st
      simp only [runX]
      have hh : x.isHole (g.mapConst M) = x.isHole g := by
        cases g <;> simp [XEnv.isHole, G.mapConst]
      rw [hh]
      by_cases hg : x.isHole g = true
      · simp only [hg, if_true]
        have := prattGo_kind h hR m x.atom x.ops n 0 st
        rwa [G.mapConst_of_constOk _ x.atom hatom, opsMapConst_of_constOk _ x.ops hops] at this
      · simp only [hg]
        exact step_kind h hR hN hK n m g st
    · simp only [nextX]; exact stepNext_kind hR hN hK
    · simp only [mkIterX]; exact stepMk_kind h hR hK

end Chumsky
