/-
  Proofs/Lemmas/MemoOff.lean — C11, the OFF side: with `memoOn = false` a `memoized` node *is* the identity wrapper.

  `G.stripMemo` replaces every `memoized id a` by `boxed a` (same unit of fuel).  Running a grammar with
  memoization off is, as a plain equality of outcomes and states at every fuel, running the stripped grammar (and
  the stripped definition table) — with memoization off or on, since no `memoized` node is left (`G.stripMemo_memoFree`).
      `run_stripMemo`, `next_stripMemo`, `mkIter_stripMemo`, `parseTop_stripMemo`
  Use: every theorem stated for grammars without `memoized` nodes (e.g. the class `c06` of AltInv) applies to the OFF
  run of any grammar; and C11 (ON ≈ OFF, see MemoSim.lean) can equivalently be read as ON ≈ "no memoization at all".
  Same proof scheme as Unroll.lean (one-step lemmas for runners related by equality on the transformed syntax).
-/
import ChumskyModel.Model.Machine
set_option linter.unusedSimpArgs false
set_option linter.unusedVariables false
namespace Chumsky

mutual
/-- replace every `memoized id a` by the identity wrapper `boxed a` (which costs the same unit of fuel) -/
def G.stripMemo : G → G
  | .end_ => .end_
  | .empty => .empty
  | .any => .any
  | .just x0 => .just x0
  | .oneOf x0 => .oneOf x0
  | .noneOf x0 => .noneOf x0
  | .select x0 => .select x0
  | .custom x0 => .custom x0
  | .todo => .todo
  | .then_ x0 x1 => .then_ (G.stripMemo x0) (G.stripMemo x1)
  | .ignoreThen x0 x1 => .ignoreThen (G.stripMemo x0) (G.stripMemo x1)
  | .thenIgnore x0 x1 => .thenIgnore (G.stripMemo x0) (G.stripMemo x1)
  | .delimitedBy x0 x1 x2 => .delimitedBy (G.stripMemo x0) (G.stripMemo x1) (G.stripMemo x2)
  | .paddedBy x0 x1 => .paddedBy (G.stripMemo x0) (G.stripMemo x1)
  | .group x0 => .group (stripMemoL x0)
  | .groupArr x0 => .groupArr (stripMemoL x0)
  | .or_ x0 x1 => .or_ (G.stripMemo x0) (G.stripMemo x1)
  | .choice x0 x1 => .choice x0 (stripMemoL x1)
  | .orNot x0 => .orNot (G.stripMemo x0)
  | .not_ x0 => .not_ (G.stripMemo x0)
  | .andIs x0 x1 => .andIs (G.stripMemo x0) (G.stripMemo x1)
  | .rewind x0 => .rewind (G.stripMemo x0)
  | .map x0 x1 => .map x0 (G.stripMemo x1)
  | .to x0 x1 => .to x0 (G.stripMemo x1)
  | .ignored x0 => .ignored (G.stripMemo x0)
  | .filter x0 x1 => .filter x0 (G.stripMemo x1)
  | .tryMap x0 x1 => .tryMap x0 (G.stripMemo x1)
  | .tryMapWith x0 x1 => .tryMapWith x0 (G.stripMemo x1)
  | .toSpan x0 => .toSpan (G.stripMemo x0)
  | .toSlice x0 => .toSlice (G.stripMemo x0)
  | .mapWithSpan x0 => .mapWithSpan (G.stripMemo x0)
  | .mapWithState x0 => .mapWithState (G.stripMemo x0)
  | .mapWithCtx x0 => .mapWithCtx (G.stripMemo x0)
  | .validate x0 x1 => .validate x0 (G.stripMemo x1)
  | .collect x0 x1 => .collect x0 (It.stripMemo x1)
  | .collectExactly x0 x1 => .collectExactly x0 (It.stripMemo x1)
  | .foldl x0 x1 x2 => .foldl x0 (G.stripMemo x1) (It.stripMemo x2)
  | .foldr x0 x1 x2 => .foldr x0 (It.stripMemo x1) (G.stripMemo x2)
  | .foldlWith x0 x1 => .foldlWith (G.stripMemo x0) (It.stripMemo x1)
  | .foldrWith x0 x1 => .foldrWith (It.stripMemo x0) (G.stripMemo x1)
  | .iterP x0 => .iterP (It.stripMemo x0)
  | .recoverVia x0 x1 => .recoverVia (G.stripMemo x0) (G.stripMemo x1)
  | .recoverSkipUntil x0 x1 x2 x3 => .recoverSkipUntil (G.stripMemo x0) (G.stripMemo x1) (G.stripMemo x2) x3
  | .recoverSkipRetry x0 x1 x2 => .recoverSkipRetry (G.stripMemo x0) (G.stripMemo x1) (G.stripMemo x2)
  | .labelled x0 x1 x2 => .labelled x0 x1 (G.stripMemo x2)
  | .mapErr x0 x1 => .mapErr x0 (G.stripMemo x1)
  | .withCtx x0 x1 => .withCtx x0 (G.stripMemo x1)
  | .ignoreWithCtx x0 x1 => .ignoreWithCtx (G.stripMemo x0) (G.stripMemo x1)
  | .thenWithCtx x0 x1 => .thenWithCtx (G.stripMemo x0) (G.stripMemo x1)
  | .mapCtx x0 x1 => .mapCtx x0 (G.stripMemo x1)
  | .configureJust x0 x1 => .configureJust x0 x1
  | .withState x0 => .withState (G.stripMemo x0)
  | .memoized _ a => .boxed (G.stripMemo a)
  | .call x0 => .call x0
  | .boxed x0 => .boxed (G.stripMemo x0)
def It.stripMemo : It → It
  | .repeated x0 x1 x2 => .repeated (G.stripMemo x0) x1 x2
  | .separatedBy x0 x1 x2 x3 x4 x5 => .separatedBy (G.stripMemo x0) (G.stripMemo x1) x2 x3 x4 x5
  | .enumerate x0 => .enumerate (It.stripMemo x0)
  | .orNotIt x0 => .orNotIt (G.stripMemo x0)
  | .intoIter x0 => .intoIter (G.stripMemo x0)
  | .thenIt x0 x1 => .thenIt (It.stripMemo x0) (It.stripMemo x1)
  | .mapIt x0 x1 => .mapIt x0 (It.stripMemo x1)
  | .configureRep x0 x1 => .configureRep x0 (It.stripMemo x1)
  | .tryConfigureRep x0 x1 => .tryConfigureRep x0 (It.stripMemo x1)
def stripMemoL : List G → List G
  | [] => []
  | g :: gs => G.stripMemo g :: stripMemoL gs
end

theorem getElem?_stripMemoL : ∀ (gs : List G) (k : Nat), (stripMemoL gs)[k]? = (gs[k]?).map G.stripMemo
  | [], k => by simp [stripMemoL]
  | g :: gs, 0 => by simp [stripMemoL]
  | g :: gs, k + 1 => by simp [stripMemoL, getElem?_stripMemoL gs k]

/-- the environment of the second run: memoization `b` (irrelevant), stripped definition table -/
def Env.stripMemo (env : Env) (b : Bool) : Env := { env with memoOn := b, defs := stripMemoL env.defs }

section envLemmas
variable (env : Env) (b : Bool)
@[simp] theorem Env.stripMemo_ek : (env.stripMemo b).ek = env.ek := rfl
@[simp] theorem Env.stripMemo_memoOn : (env.stripMemo b).memoOn = b := rfl
@[simp] theorem Env.stripMemo_defs : (env.stripMemo b).defs = stripMemoL env.defs := rfl
@[simp] theorem Env.stripMemo_mkSpan : (env.stripMemo b).mkSpan = env.mkSpan := rfl
@[simp] theorem Env.stripMemo_off : (env.stripMemo b).off = env.off := rfl
@[simp] theorem St.next_stripMemo : St.next (env.stripMemo b) = St.next env := rfl
@[simp] theorem St.peek_stripMemo : St.peek (env.stripMemo b) = St.peek env := rfl
@[simp] theorem St.addAlt_stripMemo : St.addAlt (env.stripMemo b) = St.addAlt env := rfl
@[simp] theorem St.addAltErr_stripMemo : St.addAltErr (env.stripMemo b) = St.addAltErr env := rfl
@[simp] theorem St.readdAlt_stripMemo : St.readdAlt (env.stripMemo b) = St.readdAlt env := rfl
@[simp] theorem tokenPrim_stripMemo : tokenPrim (env.stripMemo b) = tokenPrim env := rfl
@[simp] theorem runCustom_stripMemo : runCustom (env.stripMemo b) = runCustom env := rfl
@[simp] theorem ctxSecondary_stripMemo : ctxSecondary (env.stripMemo b) = ctxSecondary env := rfl
@[simp] theorem justRun_stripMemo : ∀ (ts : List Nat) (st : St), justRun (env.stripMemo b) ts st = justRun env ts st
  | [], st => rfl
  | e :: es, st => by
    simp only [justRun, St.next_stripMemo, Env.stripMemo_mkSpan, St.addAlt_stripMemo, justRun_stripMemo es]
end envLemmas

/-! ### the simulation hypotheses: the second runner on the transformed grammar does what the first does -/

def MSimR (env : Env) (b : Bool) (R R' : Runner) : Prop :=
  ∀ m g st, R env m g st = R' (env.stripMemo b) m (G.stripMemo g) st
def MSimN (env : Env) (b : Bool) (N N' : NextRunner) : Prop :=
  ∀ m it st ist, N env m it st ist = N' (env.stripMemo b) m (It.stripMemo it) st ist
def MSimK (env : Env) (b : Bool) (K K' : MkRunner) : Prop :=
  ∀ m it st, K env m it st = K' (env.stripMemo b) m (It.stripMemo it) st

@[simp] theorem It.nonconsOk_stripMemo : ∀ it : It, (It.stripMemo it).nonconsOk = it.nonconsOk
  | .repeated .. => rfl
  | .separatedBy .. => rfl
  | .enumerate it => by simp only [It.stripMemo, It.nonconsOk, It.nonconsOk_stripMemo it]
  | .orNotIt _ => rfl
  | .intoIter _ => rfl
  | .thenIt a b => by simp only [It.stripMemo, It.nonconsOk, It.nonconsOk_stripMemo a, It.nonconsOk_stripMemo b]
  | .mapIt _ it => by simp only [It.stripMemo, It.nonconsOk, It.nonconsOk_stripMemo it]
  | .configureRep _ it => by simp only [It.stripMemo, It.nonconsOk, It.nonconsOk_stripMemo it]
  | .tryConfigureRep _ it => by simp only [It.stripMemo, It.nonconsOk, It.nonconsOk_stripMemo it]

section loops
variable {env : Env} {b : Bool} {R R' : Runner} {N N' : NextRunner} {K K' : MkRunner}

theorem choiceTuple_strip (hR : MSimR env b R R') (m : Mode) (c : Chk) : ∀ (gs : List G) (st : St),
    choiceTuple R env m c gs st = choiceTuple R' (env.stripMemo b) m c (stripMemoL gs) st
  | [], st => rfl
  | g :: gs, st => by
    simp only [choiceTuple, stripMemoL, hR m g st, choiceTuple_strip hR m c gs]

theorem choiceSlice_strip (hR : MSimR env b R R') (m : Mode) (c : Chk) : ∀ (gs : List G) (st : St),
    choiceSlice R env m c gs st = choiceSlice R' (env.stripMemo b) m c (stripMemoL gs) st
  | [], st => rfl
  | g :: gs, st => by
    simp only [choiceSlice, stripMemoL, hR m g, choiceSlice_strip hR m c gs]

theorem groupLoop_strip (hR : MSimR env b R R') (m : Mode) : ∀ (gs : List G) (st : St) (acc : List Val),
    groupLoop R env m gs st acc = groupLoop R' (env.stripMemo b) m (stripMemoL gs) st acc
  | [], st, acc => rfl
  | g :: gs, st, acc => by
    simp only [groupLoop, stripMemoL, hR m g, groupLoop_strip hR m gs]

theorem collectLoop_strip (hN : MSimN env b N N') (m : Mode) (it : It) (k : CollKind) :
    ∀ (fuel : Nat) (st : St) (ist : ItSt) (acc : List Val) (i : Nat),
    collectLoop N env m it k fuel st ist acc i = collectLoop N' (env.stripMemo b) m (It.stripMemo it) k fuel st ist acc i
  | 0, _, _, _, _ => rfl
  | fuel + 1, st, ist, acc, i => by
    simp only [collectLoop, hN m it, It.nonconsOk_stripMemo, collectLoop_strip hN m it k fuel]

theorem collectExactlyLoop_strip (hN : MSimN env b N N') (m : Mode) (it : It) :
    ∀ (n : Nat) (st : St) (ist : ItSt) (acc : List Val),
    collectExactlyLoop N env m it n st ist acc = collectExactlyLoop N' (env.stripMemo b) m (It.stripMemo it) n st ist acc
  | 0, _, _, _ => rfl
  | n + 1, st, ist, acc => by
    simp only [collectExactlyLoop, hN m it, collectExactlyLoop_strip hN m it n, St.addAlt_stripMemo,
      St.peek_stripMemo, Env.stripMemo_mkSpan]

theorem foldlLoop_strip (hN : MSimN env b N N') (m : Mode) (it : It) (fn : Val → Val → St → Val) :
    ∀ (fuel : Nat) (st : St) (ist : ItSt) (acc : Val),
    foldlLoop N env m it fn fuel st ist acc = foldlLoop N' (env.stripMemo b) m (It.stripMemo it) fn fuel st ist acc
  | 0, _, _, _ => rfl
  | fuel + 1, st, ist, acc => by
    simp only [foldlLoop, hN m it, It.nonconsOk_stripMemo, foldlLoop_strip hN m it fn fuel]

theorem foldrCollect_strip (hN : MSimN env b N N') (m : Mode) (it : It) :
    ∀ (fuel : Nat) (st : St) (ist : ItSt) (acc : List (Val × Nat)),
    foldrCollect N env m it fuel st ist acc = foldrCollect N' (env.stripMemo b) m (It.stripMemo it) fuel st ist acc
  | 0, _, _, _ => rfl
  | fuel + 1, st, ist, acc => by
    simp only [foldrCollect, hN m it, It.nonconsOk_stripMemo, foldrCollect_strip hN m it fuel]

theorem repeatFast_strip (hR : MSimR env b R R') (a : G) : ∀ (fuel : Nat) (st : St),
    repeatFast R env a fuel st = repeatFast R' (env.stripMemo b) (G.stripMemo a) fuel st
  | 0, _ => rfl
  | fuel + 1, st => by
    simp only [repeatFast, hR .check a, repeatFast_strip hR a fuel]

theorem iterLoop_strip (hN : MSimN env b N N') (it : It) (ap : Bool) : ∀ (fuel : Nat) (st : St) (ist : ItSt),
    iterLoop N env it ap fuel st ist = iterLoop N' (env.stripMemo b) (It.stripMemo it) ap fuel st ist
  | 0, _, _ => rfl
  | fuel + 1, st, ist => by
    simp only [iterLoop, hN .check it, iterLoop_strip hN it ap fuel]

theorem skipUntilLoop_strip (hR : MSimR env b R R') (m : Mode) (skip until_ : G) (fb : Val) (alt : Loc) :
    ∀ (fuel : Nat) (st : St),
    skipUntilLoop R env m skip until_ fb alt fuel st
      = skipUntilLoop R' (env.stripMemo b) m (G.stripMemo skip) (G.stripMemo until_) fb alt fuel st
  | 0, _ => rfl
  | fuel + 1, st => by
    simp only [skipUntilLoop, hR .check until_, hR .check skip, skipUntilLoop_strip hR m skip until_ fb alt fuel]

theorem skipRetryLoop_strip (hR : MSimR env b R R') (m : Mode) (a skip until_ : G) (alt : Loc) :
    ∀ (fuel : Nat) (st : St),
    skipRetryLoop R env m a skip until_ alt fuel st
      = skipRetryLoop R' (env.stripMemo b) m (G.stripMemo a) (G.stripMemo skip) (G.stripMemo until_) alt fuel st
  | 0, _ => rfl
  | fuel + 1, st => by
    simp only [skipRetryLoop, hR .check until_, hR .check skip, hR m a, skipRetryLoop_strip hR m a skip until_ alt fuel]

theorem repeatedNext_strip (hR : MSimR env b R R') (m : Mode) (a : G) (lo : Nat) (hi : Option Nat) (st : St) (n : Nat)
    (wrap : ItSt → ItSt) :
    repeatedNext R env m a lo hi st n wrap = repeatedNext R' (env.stripMemo b) m (G.stripMemo a) lo hi st n wrap := by
  simp only [repeatedNext, hR m a]

theorem separatedNext_strip (hR : MSimR env b R R') (m : Mode) (a sep : G) (lo : Nat) (hi : Option Nat)
    (lead trail : Bool) (st : St) (n : Nat) :
    separatedNext R env m a sep lo hi lead trail st n
      = separatedNext R' (env.stripMemo b) m (G.stripMemo a) (G.stripMemo sep) lo hi lead trail st n := by
  simp only [separatedNext, hR m a, hR .check sep]

end loops

section steps
variable {env : Env} {b : Bool} {R R' : Runner} {N N' : NextRunner} {K K' : MkRunner}

/-- one step: OFF on the grammar = (ON or OFF) on the grammar without `memoized` nodes -/
theorem step_strip (hoff : env.memoOn = false) (hR : MSimR env b R R') (hN : MSimN env b N N') (hK : MSimK env b K K')
    (L : Nat) (m : Mode) (g : G) (st : St) :
    step R N K L env m g st = step R' N' K' L (env.stripMemo b) m (G.stripMemo g) st := by
  cases g
  case call k =>
    simp only [G.stripMemo, step, Env.stripMemo_defs, getElem?_stripMemoL]
    cases env.defs[k]? with
    | none => rfl
    | some d => exact hR m d st
  case memoized id a =>
    simp only [G.stripMemo, step, hoff, Bool.not_false, if_true]
    exact hR m a st
  case or_ a c => exact choiceTuple_strip hR m _ [a, c] st
  case choice fl gs =>
    cases fl with
    | tuple =>
      match gs with
      | [] => rfl
      | [g] => simp only [G.stripMemo, step, stripMemoL, hR _ _]
      | g :: g' :: gs => exact choiceTuple_strip hR m _ (g :: g' :: gs) st
    | slice =>
      match gs with
      | [] => rfl
      | g :: gs => exact choiceSlice_strip hR m _ (g :: gs) st
  case iterP it =>
    cases it with
    | repeated a lo hi =>
      have h1 := hK .check (.repeated a lo hi) st
      have h2 := iterLoop_strip hN (.repeated a lo hi) true L
      simp only [It.stripMemo] at h1 h2
      cases lo with
      | zero =>
        cases hi with
        | none => exact repeatFast_strip hR a L st
        | some h => simp only [G.stripMemo, It.stripMemo, step, h1, h2]
      | succ lo => simp only [G.stripMemo, It.stripMemo, step, h1, h2]
    | separatedBy a sep lo hi lead trail =>
      have h1 := hK .check (.separatedBy a sep lo hi lead trail) st
      have h2 := iterLoop_strip hN (.separatedBy a sep lo hi lead trail) true L
      simp only [It.stripMemo] at h1 h2
      simp only [G.stripMemo, It.stripMemo, step, h1, h2]
    | configureRep c inner =>
      have h1 := hK .check (.configureRep c inner) st
      have h2 := iterLoop_strip hN (.configureRep c inner) false L
      simp only [It.stripMemo] at h1 h2
      simp only [G.stripMemo, It.stripMemo, step, h1, h2]
    | tryConfigureRep c inner =>
      have h1 := hK .check (.tryConfigureRep c inner) st
      have h2 := iterLoop_strip hN (.tryConfigureRep c inner) false L
      simp only [It.stripMemo] at h1 h2
      simp only [G.stripMemo, It.stripMemo, step, h1, h2]
    | intoIter a => simp only [G.stripMemo, It.stripMemo, step, hR _ _]
    | _ => rfl
  all_goals
    simp only [G.stripMemo, step, hR _ _, hN _ _, hK _ _, Env.stripMemo_ek, Env.stripMemo_mkSpan,
      Env.stripMemo_off, St.next_stripMemo, St.peek_stripMemo, St.addAlt_stripMemo, St.addAltErr_stripMemo,
      St.readdAlt_stripMemo, tokenPrim_stripMemo, runCustom_stripMemo, ctxSecondary_stripMemo, justRun_stripMemo,
      ← groupLoop_strip hR, ← choiceTuple_strip hR, ← choiceSlice_strip hR, ← collectLoop_strip hN,
      ← collectExactlyLoop_strip hN, ← foldlLoop_strip hN, ← foldrCollect_strip hN, ← skipUntilLoop_strip hR,
      ← skipRetryLoop_strip hR]

theorem stepMk_strip (hR : MSimR env b R R') (hK : MSimK env b K K') :
    MSimK env b (stepMk R K) (stepMk R' K') := by
  intro m it st
  cases it <;>
    simp only [It.stripMemo, stepMk, hR _ _, hK _ _, Env.stripMemo_ek, Env.stripMemo_mkSpan, St.addAltErr_stripMemo]

theorem stepNext_strip (hR : MSimR env b R R') (hN : MSimN env b N N') (hK : MSimK env b K K') :
    MSimN env b (stepNext R N K) (stepNext R' N' K') := by
  intro m it st ist
  cases it with
  | repeated a lo hi =>
    cases ist with
    | cnt n => exact repeatedNext_strip hR m a lo hi st n id
    | _ => rfl
  | separatedBy a sep lo hi lead trail =>
    cases ist with
    | cnt n => exact separatedNext_strip hR m a sep lo hi lead trail st n
    | _ => rfl
  | enumerate inner =>
    cases ist with
    | enum k si => simp only [It.stripMemo, stepNext, hN _ _]
    | _ => rfl
  | orNotIt a =>
    cases ist with
    | fin b => simp only [It.stripMemo, stepNext, hR _ _]
    | _ => rfl
  | intoIter a =>
    cases ist with
    | into vs => cases vs <;> rfl
    | _ => rfl
  | thenIt x y =>
    cases ist with
    | thn sa sb? => cases sb? <;> simp only [It.stripMemo, stepNext, hN _ _, hK _ _]
    | _ => rfl
  | mapIt fn inner => simp only [It.stripMemo, stepNext, hN _ _]
  | configureRep c inner =>
    cases inner with
    | repeated a lo hi =>
      cases ist with
      | cfg si clo chi =>
        cases si with
        | cnt n => simp only [It.stripMemo, stepNext]; exact repeatedNext_strip hR m a _ _ st n _
        | _ => rfl
      | _ => rfl
    | _ => cases ist <;> rfl
  | tryConfigureRep c inner =>
    cases inner with
    | repeated a lo hi =>
      cases ist with
      | cfg si clo chi =>
        cases si with
        | cnt n => simp only [It.stripMemo, stepNext]; exact repeatedNext_strip hR m a _ _ st n _
        | _ => rfl
      | _ => rfl
    | _ => cases ist <;> rfl
end steps

/-! ### every fuel -/

theorem run_stripMemo_all (env : Env) (hoff : env.memoOn = false) (b : Bool) : ∀ n : Nat,
    MSimR env b (run n) (run n) ∧ MSimN env b (next n) (next n) ∧ MSimK env b (mkIter n) (mkIter n)
  | 0 => ⟨fun _ _ _ => rfl, fun _ _ _ _ => rfl, fun _ _ _ => rfl⟩
  | n + 1 => by
    obtain ⟨hR, hN, hK⟩ := run_stripMemo_all env hoff b n
    exact ⟨fun m g st => step_strip hoff hR hN hK n m g st, stepNext_strip hR hN hK, stepMk_strip hR hK⟩

/-- with memoization off, `memoized` is the identity wrapper: the run equals the run of the stripped grammar over the
    stripped table, whatever `memoOn` is there -/
theorem run_stripMemo (n : Nat) (env : Env) (hoff : env.memoOn = false) (b : Bool) (m : Mode) (g : G) (st : St) :
    run n env m g st = run n { env with memoOn := b, defs := stripMemoL env.defs } m g.stripMemo st :=
  (run_stripMemo_all env hoff b n).1 m g st

theorem next_stripMemo (n : Nat) (env : Env) (hoff : env.memoOn = false) (b : Bool) (m : Mode) (it : It) (st : St)
    (ist : ItSt) :
    next n env m it st ist = next n { env with memoOn := b, defs := stripMemoL env.defs } m it.stripMemo st ist :=
  (run_stripMemo_all env hoff b n).2.1 m it st ist

theorem mkIter_stripMemo (n : Nat) (env : Env) (hoff : env.memoOn = false) (b : Bool) (m : Mode) (it : It) (st : St) :
    mkIter n env m it st = mkIter n { env with memoOn := b, defs := stripMemoL env.defs } m it.stripMemo st :=
  (run_stripMemo_all env hoff b n).2.2 m it st

theorem parseTop_stripMemo (n : Nat) (env : Env) (hoff : env.memoOn = false) (b : Bool) (m : Mode) (g : G) :
    parseTop n env m g = parseTop n { env with memoOn := b, defs := stripMemoL env.defs } m g.stripMemo := by
  have h := run_stripMemo n env hoff b m (.thenIgnore g .end_) St.init
  simp only [G.stripMemo] at h
  simp only [parseTop, h]
  rfl

/-! ### the stripped grammar has no `memoized` node -/

mutual
/-- no `memoized` node -/
def G.memoFree : G → Bool
  | .end_ => true
  | .empty => true
  | .any => true
  | .just x0 => true
  | .oneOf x0 => true
  | .noneOf x0 => true
  | .select x0 => true
  | .custom x0 => true
  | .todo => true
  | .then_ x0 x1 => G.memoFree x0 && G.memoFree x1
  | .ignoreThen x0 x1 => G.memoFree x0 && G.memoFree x1
  | .thenIgnore x0 x1 => G.memoFree x0 && G.memoFree x1
  | .delimitedBy x0 x1 x2 => G.memoFree x0 && G.memoFree x1 && G.memoFree x2
  | .paddedBy x0 x1 => G.memoFree x0 && G.memoFree x1
  | .group x0 => memoFreeL x0
  | .groupArr x0 => memoFreeL x0
  | .or_ x0 x1 => G.memoFree x0 && G.memoFree x1
  | .choice x0 x1 => memoFreeL x1
  | .orNot x0 => G.memoFree x0
  | .not_ x0 => G.memoFree x0
  | .andIs x0 x1 => G.memoFree x0 && G.memoFree x1
  | .rewind x0 => G.memoFree x0
  | .map x0 x1 => G.memoFree x1
  | .to x0 x1 => G.memoFree x1
  | .ignored x0 => G.memoFree x0
  | .filter x0 x1 => G.memoFree x1
  | .tryMap x0 x1 => G.memoFree x1
  | .tryMapWith x0 x1 => G.memoFree x1
  | .toSpan x0 => G.memoFree x0
  | .toSlice x0 => G.memoFree x0
  | .mapWithSpan x0 => G.memoFree x0
  | .mapWithState x0 => G.memoFree x0
  | .mapWithCtx x0 => G.memoFree x0
  | .validate x0 x1 => G.memoFree x1
  | .collect x0 x1 => It.memoFree x1
  | .collectExactly x0 x1 => It.memoFree x1
  | .foldl x0 x1 x2 => G.memoFree x1 && It.memoFree x2
  | .foldr x0 x1 x2 => It.memoFree x1 && G.memoFree x2
  | .foldlWith x0 x1 => G.memoFree x0 && It.memoFree x1
  | .foldrWith x0 x1 => It.memoFree x0 && G.memoFree x1
  | .iterP x0 => It.memoFree x0
  | .recoverVia x0 x1 => G.memoFree x0 && G.memoFree x1
  | .recoverSkipUntil x0 x1 x2 x3 => G.memoFree x0 && G.memoFree x1 && G.memoFree x2
  | .recoverSkipRetry x0 x1 x2 => G.memoFree x0 && G.memoFree x1 && G.memoFree x2
  | .labelled x0 x1 x2 => G.memoFree x2
  | .mapErr x0 x1 => G.memoFree x1
  | .withCtx x0 x1 => G.memoFree x1
  | .ignoreWithCtx x0 x1 => G.memoFree x0 && G.memoFree x1
  | .thenWithCtx x0 x1 => G.memoFree x0 && G.memoFree x1
  | .mapCtx x0 x1 => G.memoFree x1
  | .configureJust x0 x1 => true
  | .withState x0 => G.memoFree x0
  | .memoized _ _ => false
  | .call x0 => true
  | .boxed x0 => G.memoFree x0
def It.memoFree : It → Bool
  | .repeated x0 x1 x2 => G.memoFree x0
  | .separatedBy x0 x1 x2 x3 x4 x5 => G.memoFree x0 && G.memoFree x1
  | .enumerate x0 => It.memoFree x0
  | .orNotIt x0 => G.memoFree x0
  | .intoIter x0 => G.memoFree x0
  | .thenIt x0 x1 => It.memoFree x0 && It.memoFree x1
  | .mapIt x0 x1 => It.memoFree x1
  | .configureRep x0 x1 => It.memoFree x1
  | .tryConfigureRep x0 x1 => It.memoFree x1
def memoFreeL : List G → Bool
  | [] => true
  | g :: gs => G.memoFree g && memoFreeL gs
end

mutual
theorem G.stripMemo_memoFree : ∀ g : G, g.stripMemo.memoFree = true
  | .end_ => by simp_all [G.memoFree, It.memoFree, memoFreeL, G.stripMemo, It.stripMemo, stripMemoL]
  | .empty => by simp_all [G.memoFree, It.memoFree, memoFreeL, G.stripMemo, It.stripMemo, stripMemoL]
  | .any => by simp_all [G.memoFree, It.memoFree, memoFreeL, G.stripMemo, It.stripMemo, stripMemoL]
  | .just x0 => by simp_all [G.memoFree, It.memoFree, memoFreeL, G.stripMemo, It.stripMemo, stripMemoL]
  | .oneOf x0 => by simp_all [G.memoFree, It.memoFree, memoFreeL, G.stripMemo, It.stripMemo, stripMemoL]
  | .noneOf x0 => by simp_all [G.memoFree, It.memoFree, memoFreeL, G.stripMemo, It.stripMemo, stripMemoL]
  | .select x0 => by simp_all [G.memoFree, It.memoFree, memoFreeL, G.stripMemo, It.stripMemo, stripMemoL]
  | .custom x0 => by simp_all [G.memoFree, It.memoFree, memoFreeL, G.stripMemo, It.stripMemo, stripMemoL]
  | .todo => by simp_all [G.memoFree, It.memoFree, memoFreeL, G.stripMemo, It.stripMemo, stripMemoL]
  | .then_ x0 x1 => by have r0 := G.stripMemo_memoFree x0; have r1 := G.stripMemo_memoFree x1; simp_all [G.memoFree, It.memoFree, memoFreeL, G.stripMemo, It.stripMemo, stripMemoL]
  | .ignoreThen x0 x1 => by have r0 := G.stripMemo_memoFree x0; have r1 := G.stripMemo_memoFree x1; simp_all [G.memoFree, It.memoFree, memoFreeL, G.stripMemo, It.stripMemo, stripMemoL]
  | .thenIgnore x0 x1 => by have r0 := G.stripMemo_memoFree x0; have r1 := G.stripMemo_memoFree x1; simp_all [G.memoFree, It.memoFree, memoFreeL, G.stripMemo, It.stripMemo, stripMemoL]
  | .delimitedBy x0 x1 x2 => by have r0 := G.stripMemo_memoFree x0; have r1 := G.stripMemo_memoFree x1; have r2 := G.stripMemo_memoFree x2; simp_all [G.memoFree, It.memoFree, memoFreeL, G.stripMemo, It.stripMemo, stripMemoL]
  | .paddedBy x0 x1 => by have r0 := G.stripMemo_memoFree x0; have r1 := G.stripMemo_memoFree x1; simp_all [G.memoFree, It.memoFree, memoFreeL, G.stripMemo, It.stripMemo, stripMemoL]
  | .group x0 => by have r0 := stripMemoL_memoFree x0; simp_all [G.memoFree, It.memoFree, memoFreeL, G.stripMemo, It.stripMemo, stripMemoL]
  | .groupArr x0 => by have r0 := stripMemoL_memoFree x0; simp_all [G.memoFree, It.memoFree, memoFreeL, G.stripMemo, It.stripMemo, stripMemoL]
  | .or_ x0 x1 => by have r0 := G.stripMemo_memoFree x0; have r1 := G.stripMemo_memoFree x1; simp_all [G.memoFree, It.memoFree, memoFreeL, G.stripMemo, It.stripMemo, stripMemoL]
  | .choice x0 x1 => by have r0 := stripMemoL_memoFree x1; simp_all [G.memoFree, It.memoFree, memoFreeL, G.stripMemo, It.stripMemo, stripMemoL]
  | .orNot x0 => by have r0 := G.stripMemo_memoFree x0; simp_all [G.memoFree, It.memoFree, memoFreeL, G.stripMemo, It.stripMemo, stripMemoL]
  | .not_ x0 => by have r0 := G.stripMemo_memoFree x0; simp_all [G.memoFree, It.memoFree, memoFreeL, G.stripMemo, It.stripMemo, stripMemoL]
  | .andIs x0 x1 => by have r0 := G.stripMemo_memoFree x0; have r1 := G.stripMemo_memoFree x1; simp_all [G.memoFree, It.memoFree, memoFreeL, G.stripMemo, It.stripMemo, stripMemoL]
  | .rewind x0 => by have r0 := G.stripMemo_memoFree x0; simp_all [G.memoFree, It.memoFree, memoFreeL, G.stripMemo, It.stripMemo, stripMemoL]
  | .map x0 x1 => by have r0 := G.stripMemo_memoFree x1; simp_all [G.memoFree, It.memoFree, memoFreeL, G.stripMemo, It.stripMemo, stripMemoL]
  | .to x0 x1 => by have r0 := G.stripMemo_memoFree x1; simp_all [G.memoFree, It.memoFree, memoFreeL, G.stripMemo, It.stripMemo, stripMemoL]
  | .ignored x0 => by have r0 := G.stripMemo_memoFree x0; simp_all [G.memoFree, It.memoFree, memoFreeL, G.stripMemo, It.stripMemo, stripMemoL]
  | .filter x0 x1 => by have r0 := G.stripMemo_memoFree x1; simp_all [G.memoFree, It.memoFree, memoFreeL, G.stripMemo, It.stripMemo, stripMemoL]
  | .tryMap x0 x1 => by have r0 := G.stripMemo_memoFree x1; simp_all [G.memoFree, It.memoFree, memoFreeL, G.stripMemo, It.stripMemo, stripMemoL]
  | .tryMapWith x0 x1 => by have r0 := G.stripMemo_memoFree x1; simp_all [G.memoFree, It.memoFree, memoFreeL, G.stripMemo, It.stripMemo, stripMemoL]
  | .toSpan x0 => by have r0 := G.stripMemo_memoFree x0; simp_all [G.memoFree, It.memoFree, memoFreeL, G.stripMemo, It.stripMemo, stripMemoL]
  | .toSlice x0 => by have r0 := G.stripMemo_memoFree x0; simp_all [G.memoFree, It.memoFree, memoFreeL, G.stripMemo, It.stripMemo, stripMemoL]
  | .mapWithSpan x0 => by have r0 := G.stripMemo_memoFree x0; simp_all [G.memoFree, It.memoFree, memoFreeL, G.stripMemo, It.stripMemo, stripMemoL]
  | .mapWithState x0 => by have r0 := G.stripMemo_memoFree x0; simp_all [G.memoFree, It.memoFree, memoFreeL, G.stripMemo, It.stripMemo, stripMemoL]
  | .mapWithCtx x0 => by have r0 := G.stripMemo_memoFree x0; simp_all [G.memoFree, It.memoFree, memoFreeL, G.stripMemo, It.stripMemo, stripMemoL]
  | .validate x0 x1 => by have r0 := G.stripMemo_memoFree x1; simp_all [G.memoFree, It.memoFree, memoFreeL, G.stripMemo, It.stripMemo, stripMemoL]
  | .collect x0 x1 => by have r0 := It.stripMemo_memoFree x1; simp_all [G.memoFree, It.memoFree, memoFreeL, G.stripMemo, It.stripMemo, stripMemoL]
  | .collectExactly x0 x1 => by have r0 := It.stripMemo_memoFree x1; simp_all [G.memoFree, It.memoFree, memoFreeL, G.stripMemo, It.stripMemo, stripMemoL]
  | .foldl x0 x1 x2 => by have r0 := G.stripMemo_memoFree x1; have r1 := It.stripMemo_memoFree x2; simp_all [G.memoFree, It.memoFree, memoFreeL, G.stripMemo, It.stripMemo, stripMemoL]
  | .foldr x0 x1 x2 => by have r0 := It.stripMemo_memoFree x1; have r1 := G.stripMemo_memoFree x2; simp_all [G.memoFree, It.memoFree, memoFreeL, G.stripMemo, It.stripMemo, stripMemoL]
  | .foldlWith x0 x1 => by have r0 := G.stripMemo_memoFree x0; have r1 := It.stripMemo_memoFree x1; simp_all [G.memoFree, It.memoFree, memoFreeL, G.stripMemo, It.stripMemo, stripMemoL]
  | .foldrWith x0 x1 => by have r0 := It.stripMemo_memoFree x0; have r1 := G.stripMemo_memoFree x1; simp_all [G.memoFree, It.memoFree, memoFreeL, G.stripMemo, It.stripMemo, stripMemoL]
  | .iterP x0 => by have r0 := It.stripMemo_memoFree x0; simp_all [G.memoFree, It.memoFree, memoFreeL, G.stripMemo, It.stripMemo, stripMemoL]
  | .recoverVia x0 x1 => by have r0 := G.stripMemo_memoFree x0; have r1 := G.stripMemo_memoFree x1; simp_all [G.memoFree, It.memoFree, memoFreeL, G.stripMemo, It.stripMemo, stripMemoL]
  | .recoverSkipUntil x0 x1 x2 x3 => by have r0 := G.stripMemo_memoFree x0; have r1 := G.stripMemo_memoFree x1; have r2 := G.stripMemo_memoFree x2; simp_all [G.memoFree, It.memoFree, memoFreeL, G.stripMemo, It.stripMemo, stripMemoL]
  | .recoverSkipRetry x0 x1 x2 => by have r0 := G.stripMemo_memoFree x0; have r1 := G.stripMemo_memoFree x1; have r2 := G.stripMemo_memoFree x2; simp_all [G.memoFree, It.memoFree, memoFreeL, G.stripMemo, It.stripMemo, stripMemoL]
  | .labelled x0 x1 x2 => by have r0 := G.stripMemo_memoFree x2; simp_all [G.memoFree, It.memoFree, memoFreeL, G.stripMemo, It.stripMemo, stripMemoL]
  | .mapErr x0 x1 => by have r0 := G.stripMemo_memoFree x1; simp_all [G.memoFree, It.memoFree, memoFreeL, G.stripMemo, It.stripMemo, stripMemoL]
  | .withCtx x0 x1 => by have r0 := G.stripMemo_memoFree x1; simp_all [G.memoFree, It.memoFree, memoFreeL, G.stripMemo, It.stripMemo, stripMemoL]
  | .ignoreWithCtx x0 x1 => by have r0 := G.stripMemo_memoFree x0; have r1 := G.stripMemo_memoFree x1; simp_all [G.memoFree, It.memoFree, memoFreeL, G.stripMemo, It.stripMemo, stripMemoL]
  | .thenWithCtx x0 x1 => by have r0 := G.stripMemo_memoFree x0; have r1 := G.stripMemo_memoFree x1; simp_all [G.memoFree, It.memoFree, memoFreeL, G.stripMemo, It.stripMemo, stripMemoL]
  | .mapCtx x0 x1 => by have r0 := G.stripMemo_memoFree x1; simp_all [G.memoFree, It.memoFree, memoFreeL, G.stripMemo, It.stripMemo, stripMemoL]
  | .configureJust x0 x1 => by simp_all [G.memoFree, It.memoFree, memoFreeL, G.stripMemo, It.stripMemo, stripMemoL]
  | .withState x0 => by have r0 := G.stripMemo_memoFree x0; simp_all [G.memoFree, It.memoFree, memoFreeL, G.stripMemo, It.stripMemo, stripMemoL]
  | .memoized _ a => by have r0 := G.stripMemo_memoFree a; simp_all [G.memoFree, It.memoFree, memoFreeL, G.stripMemo, It.stripMemo, stripMemoL]
  | .call x0 => by simp_all [G.memoFree, It.memoFree, memoFreeL, G.stripMemo, It.stripMemo, stripMemoL]
  | .boxed x0 => by have r0 := G.stripMemo_memoFree x0; simp_all [G.memoFree, It.memoFree, memoFreeL, G.stripMemo, It.stripMemo, stripMemoL]
theorem It.stripMemo_memoFree : ∀ it : It, it.stripMemo.memoFree = true
  | .repeated x0 x1 x2 => by have r0 := G.stripMemo_memoFree x0; simp_all [G.memoFree, It.memoFree, memoFreeL, G.stripMemo, It.stripMemo, stripMemoL]
  | .separatedBy x0 x1 x2 x3 x4 x5 => by have r0 := G.stripMemo_memoFree x0; have r1 := G.stripMemo_memoFree x1; simp_all [G.memoFree, It.memoFree, memoFreeL, G.stripMemo, It.stripMemo, stripMemoL]
  | .enumerate x0 => by have r0 := It.stripMemo_memoFree x0; simp_all [G.memoFree, It.memoFree, memoFreeL, G.stripMemo, It.stripMemo, stripMemoL]
  | .orNotIt x0 => by have r0 := G.stripMemo_memoFree x0; simp_all [G.memoFree, It.memoFree, memoFreeL, G.stripMemo, It.stripMemo, stripMemoL]
  | .intoIter x0 => by have r0 := G.stripMemo_memoFree x0; simp_all [G.memoFree, It.memoFree, memoFreeL, G.stripMemo, It.stripMemo, stripMemoL]
  | .thenIt x0 x1 => by have r0 := It.stripMemo_memoFree x0; have r1 := It.stripMemo_memoFree x1; simp_all [G.memoFree, It.memoFree, memoFreeL, G.stripMemo, It.stripMemo, stripMemoL]
  | .mapIt x0 x1 => by have r0 := It.stripMemo_memoFree x1; simp_all [G.memoFree, It.memoFree, memoFreeL, G.stripMemo, It.stripMemo, stripMemoL]
  | .configureRep x0 x1 => by have r0 := It.stripMemo_memoFree x1; simp_all [G.memoFree, It.memoFree, memoFreeL, G.stripMemo, It.stripMemo, stripMemoL]
  | .tryConfigureRep x0 x1 => by have r0 := It.stripMemo_memoFree x1; simp_all [G.memoFree, It.memoFree, memoFreeL, G.stripMemo, It.stripMemo, stripMemoL]
theorem stripMemoL_memoFree : ∀ gs : List G, memoFreeL (stripMemoL gs) = true
  | [] => rfl
  | g :: gs => by have r0 := G.stripMemo_memoFree g; have r1 := stripMemoL_memoFree gs; simp_all [G.memoFree, It.memoFree, memoFreeL, G.stripMemo, It.stripMemo, stripMemoL]
end

#print axioms run_stripMemo
#print axioms next_stripMemo
#print axioms mkIter_stripMemo
#print axioms parseTop_stripMemo
#print axioms G.stripMemo_memoFree
end Chumsky
