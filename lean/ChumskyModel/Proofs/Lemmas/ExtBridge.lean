/-
  The one-extension machines are instances of the unified one: `runX` (a single Pratt table) and `runH` (a single nested
  parser) are `runE` with a one-element extension list — so every theorem about `EEnv` specialises to them.
-/
import ChumskyModel.Model.Ext
set_option linter.unusedSimpArgs false
set_option linter.unusedVariables false
namespace Chumsky

def XEnv.toE (x : XEnv) : EEnv := { base := x.hole, exts := [.pratt x.atom x.ops] }
def HEnv.toE (h : HEnv) : EEnv := { base := h.hole, exts := [.nested h.a h.b], groups := h.groups, gap := h.gap }

theorem XEnv.find_toE (x : XEnv) (g : G) :
    x.toE.find g = if x.isHole g then some (.pratt x.atom x.ops) else none := by
  cases g <;> simp [EEnv.find, XEnv.toE, XEnv.isHole]
  rename_i k
  by_cases h1 : x.hole ≤ k
  · by_cases h2 : k = x.hole
    · subst h2; simp
    · have : k - x.hole ≠ 0 := by omega
      have h3 : ¬ (k == x.hole) = true := by simpa using h2
      simp [h1, h3]
      cases hk : k - x.hole with
      | zero => exact absurd hk this
      | succ j => simp; exact h2
  · have h2 : k ≠ x.hole := by omega
    have h3 : ¬ (k == x.hole) = true := by simpa using h2
    simp [h1, h3]
    exact h2

theorem runX_eq_runE (x : XEnv) (n : Nat) :
    runX x n = runE x.toE n ∧ nextX x n = nextE x.toE n ∧ mkIterX x n = mkIterE x.toE n := by
  induction n with
  | zero => exact ⟨rfl, rfl, rfl⟩
  | succ n ih =>
    obtain ⟨hR, hN, hK⟩ := ih
    refine ⟨?_, ?_, ?_⟩
    · funext env m g st
      simp only [runX, runE, XEnv.find_toE]
      by_cases hh : x.isHole g = true
      · simp only [hh, if_true, hR]
      · simp only [hh, hR, hN, hK]
        rfl
    · simp only [nextX, nextE, hR, hN, hK]
    · simp only [mkIterX, mkIterE, hR, hK]

theorem HEnv.find_toE (h : HEnv) (g : G) :
    h.toE.find g = if h.isHole g then some (.nested h.a h.b) else none := by
  cases g <;> simp [EEnv.find, HEnv.toE, HEnv.isHole]
  rename_i k
  by_cases h1 : h.hole ≤ k
  · by_cases h2 : k = h.hole
    · subst h2; simp
    · have : k - h.hole ≠ 0 := by omega
      have h3 : ¬ (k == h.hole) = true := by simpa using h2
      simp [h1, h3]
      cases hk : k - h.hole with
      | zero => exact absurd hk this
      | succ j => simp; exact h2
  · have h2 : k ≠ h.hole := by omega
    have h3 : ¬ (k == h.hole) = true := by simpa using h2
    simp [h1, h3]
    exact h2

/-- `nestedStepM` only reads `a`, `b`, the group table and the gap of its `HEnv` -/
theorem nestedStepM_congr (R : Runner) (h h' : HEnv) (ha : h'.a = h.a) (hb : h'.b = h.b) (hg : h'.groups = h.groups)
    (hp : h'.gap = h.gap) (env : Env) (m : Mode) (st : St) : nestedStepM R h' env m st = nestedStepM R h env m st := by
  simp only [nestedStepM, HEnv.kidsOf, HEnv.innerEnv, HEnv.ne, ha, hb, hg, hp]

theorem runH_eq_runE (h : HEnv) (n : Nat) :
    runH h n = runE h.toE n ∧ nextH h n = nextE h.toE n ∧ mkIterH h n = mkIterE h.toE n := by
  induction n with
  | zero => exact ⟨rfl, rfl, rfl⟩
  | succ n ih =>
    obtain ⟨hR, hN, hK⟩ := ih
    refine ⟨?_, ?_, ?_⟩
    · funext env m g st
      simp only [runH, runE, HEnv.find_toE]
      by_cases hh : h.isHole g = true
      · simp only [hh, if_true, hR]
        exact (nestedStepM_congr _ h (h.toE.henv h.a h.b) rfl rfl rfl rfl env m st).symm
      · simp only [hh, hR, hN, hK]
        rfl
    · simp only [nextH, nextE, hR, hN, hK]
    · simp only [mkIterH, mkIterE, hR, hK]

end Chumsky
