/-
  The error-handling constructors of `step` (recovery strategies, `labelled`, `map_err`) refine their
  PEG reading.
-/
import ChumskyModel.Proofs.Lemmas.StepRefine
set_option linter.unusedSimpArgs false
set_option linter.unusedVariables false
namespace Chumsky

variable {R : Runner} {P : SRunner}

/-- IH instance for a sub-run started in a state of a loop: `st.errs = base ++ new`, context `ctx` -/
theorem RunnerRefines.loopAt (hR : RunnerRefines R P) {env : Env} (hm : env.memoOn = false) (m : Mode) (g : G)
    {st : St} {base new : List Loc} {ctx : Val} (he : st.errs = base ++ new) (hc : st.ctx = ctx) :
    Refines m (base ++ new) ctx (R env m g st) (P env g st.ss ctx) := by
  have := hR env m g st hm
  rw [he, hc] at this
  exact this

/-- the same for a state that is `st` up to rewound failed attempts -/
theorem RunnerRefines.loopSame (hR : RunnerRefines R P) {env : Env} (hm : env.memoOn = false) (m : Mode) (g : G)
    {st' st : St} {base new : List Loc} {ctx : Val} (hs : SameAs st' st) (he : st.errs = base ++ new)
    (hc : st.ctx = ctx) :
    Refines m (base ++ new) ctx (R env m g st') (P env g st.ss ctx) := by
  have := hR.same hm m g hs
  rw [he, hc] at this
  exact this

theorem rewind_errs_of_prefix {st st' : St} (hp : st.errs <+: st'.errs) :
    (st'.rewind st.save).errs = st.errs := by
  simp [take_of_prefix hp]

/-- a successful run followed by the emission of the recovered error -/
theorem OkRel.recovered {m' m : Mode} {base new1 : List Loc} {e1 e2 : List Emis} {ctx v st2 v' s2}
    (hr1 : EmsRel new1 e1) (h2 : OkRel m' (base ++ new1) ctx v st2 v' s2 e2) {w w' : Val} (e : Err)
    (hv : w = m.bind w') :
    OkRel m base ctx w (st2.emit st2.pos e) w' s2 (e1 ++ e2 ++ [.recovered s2.pos]) := by
  obtain ⟨new2, he2, hr2⟩ := h2.errs
  refine ⟨hv, h2.ss, ⟨new1 ++ new2 ++ [⟨st2.pos, e⟩], by simp [he2], (hr1.append hr2).append ?_⟩, h2.ctx⟩
  exact ⟨by simp [EmRel, ← h2.ss], trivial⟩

theorem skipUntilLoop_refines (hR : RunnerRefines R P) (env : Env) (hm : env.memoOn = false) (m : Mode)
    (skip until_ : G) (fb : Val) (alt : Loc) (base : List Loc) (ctx : Val) :
    ∀ (fuel : Nat) (st : St) (new : List Loc) (em : List Emis),
      st.errs = base ++ new → EmsRel new em → st.ctx = ctx →
      Refines m base ctx (skipUntilLoop R env m skip until_ fb alt fuel st)
        (sSkipUntil P env ctx skip until_ fb fuel st.ss em) := by
  intro fuel
  induction fuel with
  | zero => intro st new em he hr hc; simp [skipUntilLoop, sSkipUntil, Refines]
  | succ fuel ih =>
    intro st new em he hr hc
    simp only [skipUntilLoop, sSkipUntil]
    have h := hR.loopAt hm .check until_ he hc
    revert h
    cases R env .check until_ st <;> cases P env until_ st.ss ctx <;> simp [Refines]
    case ok.ok v st1 v' s1 e1 =>
      intro h1
      have := OkRel.recovered (m := m) hr h1 alt.err (w := m.bind fb) (w' := fb) rfl
      simpa [List.append_assoc] using this
    case fail.fail st1 =>
      intro hf
      have hf' : FailRel st.errs st.ctx st1 := by rw [he, hc]; exact hf
      have h2 := hR.loopSame hm .check skip (SameAs.of_rewind hf') he hc
      revert h2
      cases R env .check skip (st1.rewind st.save) <;> cases P env skip st.ss ctx <;> simp [Refines]
      case ok.ok v st3 v' s3 e3 =>
        intro h3
        obtain ⟨new3, he3, hr3⟩ := h3.errs
        have := ih st3 (new ++ new3) (em ++ e3) (by simp [he3]) (hr.append hr3) h3.ctx
        rw [h3.ss] at this
        exact this
      case fail.fail st3 =>
        intro hf3
        exact ⟨prefix_append_of_prefix hf3.errs, hf3.ctx, rfl⟩

theorem skipRetryLoop_refines (hR : RunnerRefines R P) (env : Env) (hm : env.memoOn = false) (m : Mode)
    (a skip until_ : G) (alt : Loc) (base : List Loc) (ctx : Val) :
    ∀ (fuel : Nat) (st : St) (new : List Loc) (em : List Emis),
      st.errs = base ++ new → EmsRel new em → st.ctx = ctx →
      Refines m base ctx (skipRetryLoop R env m a skip until_ alt fuel st)
        (sSkipRetry P env ctx a skip until_ fuel st.ss em) := by
  intro fuel
  induction fuel with
  | zero => intro st new em he hr hc; simp [skipRetryLoop, sSkipRetry, Refines]
  | succ fuel ih =>
    intro st new em he hr hc
    simp only [skipRetryLoop, sSkipRetry]
    have h := hR.loopAt hm .check until_ he hc
    revert h
    cases R env .check until_ st <;> cases P env until_ st.ss ctx <;> simp [Refines]
    case ok.ok v st1 v' s1 e1 =>
      intro h1
      obtain ⟨new1, he1, _⟩ := h1.errs
      refine ⟨?_, by simp [h1.ctx], rfl⟩
      have hp : st.errs <+: st1.errs := by rw [he1, he]; exact List.prefix_append _ _
      have : ({ st1 with alt := some alt }.rewind st.save).errs = st.errs :=
        rewind_errs_of_prefix (st' := { st1 with alt := some alt }) hp
      rw [this, he]; exact List.prefix_append _ _
    case fail.fail st1 =>
      intro hf
      have hf' : FailRel st.errs st.ctx st1 := by rw [he, hc]; exact hf
      have h2 := hR.loopSame hm .check skip (SameAs.of_rewind hf') he hc
      revert h2
      cases R env .check skip (st1.rewind st.save) <;> cases P env skip st.ss ctx <;> simp [Refines]
      case fail.fail st3 =>
        intro hf3
        exact ⟨prefix_append_of_prefix hf3.errs, hf3.ctx, rfl⟩
      case ok.ok v st3 v' s3 e3 =>
        intro h3
        obtain ⟨new3, he3, hr3⟩ := h3.errs
        have he3' : st3.errs = base ++ (new ++ new3) := by simp [he3]
        have hr3' : EmsRel (new ++ new3) (em ++ e3) := hr.append hr3
        -- the state the loop continues from after a rejected retry
        have hrec : ∀ st4 : St, st3.errs <+: st4.errs → st4.ctx = ctx →
            Refines m base ctx
              (skipRetryLoop R env m a skip until_ alt fuel ({ st4 with alt := none }.rewind st3.save))
              (sSkipRetry P env ctx a skip until_ fuel s3 (em ++ e3)) := by
          intro st4 hp4 hc4
          have := ih ({ st4 with alt := none }.rewind st3.save) (new ++ new3) (em ++ e3)
            (by rw [rewind_errs_of_prefix (st' := { st4 with alt := none }) hp4, he3'])
            hr3' (by simp [St.rewind, hc4])
          have hss : ({ st4 with alt := none }.rewind st3.save).ss = s3 := by
            rw [← h3.ss]; rfl
          rw [hss] at this
          exact this
        have h4 := hR.loopAt hm m a he3' h3.ctx
        rw [h3.ss] at h4
        revert h4
        cases R env m a st3 <;> cases hP : P env a s3 ctx <;> simp [Refines]
        case ok.ok v4 st4 v4' s4 e4 =>
          intro h4
          obtain ⟨new4, he4, hr4⟩ := h4.errs
          have he4' : st4.errs = st3.errs ++ new4 := by rw [he4, he3']
          cases e4 with
          | nil =>
            have hn : new4 = [] := EmsRel.nil_right hr4
            subst hn
            have hle : st4.errs.length ≤ st3.errs.length := by simp [he4']
            simp only [save_errCount, hle, if_true, okRel_iff]
            have := OkRel.recovered (m := m) hr3' h4 alt.err h4.val
            simpa [List.append_assoc] using this
          | cons e es =>
            have hlen := hr4.length
            have hle : ¬ st4.errs.length ≤ st3.errs.length := by
              simp [he4', hlen]
            simp only [save_errCount, hle, if_false]
            exact hrec st4 (by rw [he4']; exact List.prefix_append _ _) h4.ctx
        case fail.fail st4 =>
          intro hf4
          have hp4 : st3.errs <+: st4.errs := by rw [he3']; exact hf4.errs
          exact hrec st4 hp4 hf4.ctx

section
variable {N : NextRunner} {K : MkRunner} {SN : SNextRunner} {SK : SMkRunner}

theorem step_refines_err (hR : RunnerRefines R P) (env : Env) (hm : env.memoOn = false) (m : Mode) (st : St) (L : Nat) :
    ∀ g, (match g with
      | .recoverVia .. | .recoverSkipUntil .. | .recoverSkipRetry .. | .labelled .. | .mapErr .. => True
      | _ => False) →
    Refines m st.errs st.ctx (step R N K L env m g st) (pegStep P SN SK L env g st.ss st.ctx) := by
  intro g hg
  cases g <;> simp only at hg
  case recoverVia a r =>
    simp only [step, pegStep]
    have h := hR env m a st hm
    revert h
    cases R env m a st <;> cases P env a st.ss st.ctx <;> intro h <;> try (exact False.elim h)
    case ok.ok v st1 v' s1 e1 => exact h
    case panic.panic => exact h
    case oof.oof => exact h
    case fail.fail st1 =>
      have hf : FailRel st.errs st.ctx st1 := h
      have hs : SameAs (st1.rewind st.save) st := SameAs.of_rewind hf
      obtain ⟨alt, halt⟩ := Option.isSome_iff_exists.mp hf.alt
      simp only [rewind_alt, halt]
      have hs' : SameAs { st1.rewind st.save with alt := none } st := ⟨hs.pos, hs.insp, hs.errs, hs.ctx⟩
      have h2 := hR.same hm m r hs'
      revert h2
      generalize R env m r _ = o
      generalize P env r st.ss st.ctx = so
      cases o <;> cases so <;> intro h2 <;> try (exact False.elim h2)
      case ok.ok v st3 v' s3 e3 =>
        have h3 : OkRel m st.errs st.ctx v st3 v' s3 e3 := h2
        have := OkRel.recovered (m := m) (base := st.errs) (new1 := []) (e1 := []) trivial
          (by simpa using h3) alt.err h3.val
        simpa using this
      case fail.fail st3 =>
        have hf3 : FailRel st.errs st.ctx st3 := h2
        refine ⟨?_, by simp [hf3.ctx], rfl⟩
        rw [rewind_errs_of_prefix (st' := { st3 with alt := some alt }) hf3.errs]
        exact List.prefix_refl _
      case panic.panic => exact h2
      case oof.oof => exact h2
  case recoverSkipUntil a skip until_ fb =>
    simp only [step, pegStep]
    have h := hR env m a st hm
    revert h
    cases R env m a st <;> cases P env a st.ss st.ctx <;> intro h <;> try (exact False.elim h)
    case ok.ok v st1 v' s1 e1 => exact h
    case panic.panic => exact h
    case oof.oof => exact h
    case fail.fail st1 =>
      have hf : FailRel st.errs st.ctx st1 := h
      have hs : SameAs (st1.rewind st.save) st := SameAs.of_rewind hf
      obtain ⟨alt, halt⟩ := Option.isSome_iff_exists.mp hf.alt
      simp only [rewind_alt, halt]
      have h2 := skipUntilLoop_refines hR env hm m skip until_ fb alt st.errs st.ctx L
        { st1.rewind st.save with alt := none } [] [] (by rw [List.append_nil]; exact hs.errs) trivial hs.ctx
      have hss : ({ st1.rewind st.save with alt := none } : St).ss = st.ss := rfl
      rw [hss] at h2
      revert h2
      generalize skipUntilLoop R env m skip until_ fb alt L _ = o
      generalize sSkipUntil P env st.ctx skip until_ fb L st.ss [] = so
      cases o <;> cases so <;> intro h2 <;> try (exact False.elim h2)
      case ok.ok v st3 v' s3 e3 => exact h2
      case fail.fail st3 =>
        have hf3 : FailRel st.errs st.ctx st3 := h2
        exact ⟨by simp [take_of_prefix hf3.errs], by simp [hf3.ctx], by simp [hf3.alt]⟩
      case panic.panic => exact h2
      case oof.oof => exact h2
  case recoverSkipRetry a skip until_ =>
    simp only [step, pegStep]
    have h := hR env m a st hm
    revert h
    cases R env m a st <;> cases P env a st.ss st.ctx <;> intro h <;> try (exact False.elim h)
    case ok.ok v st1 v' s1 e1 => exact h
    case panic.panic => exact h
    case oof.oof => exact h
    case fail.fail st1 =>
      have hf : FailRel st.errs st.ctx st1 := h
      have hs : SameAs (st1.rewind st.save) st := SameAs.of_rewind hf
      obtain ⟨alt, halt⟩ := Option.isSome_iff_exists.mp hf.alt
      simp only [rewind_alt, halt]
      have h2 := skipRetryLoop_refines hR env hm m a skip until_ alt st.errs st.ctx L
        { st1.rewind st.save with alt := none } [] [] (by rw [List.append_nil]; exact hs.errs) trivial hs.ctx
      have hss : ({ st1.rewind st.save with alt := none } : St).ss = st.ss := rfl
      rw [hss] at h2
      revert h2
      generalize skipRetryLoop R env m a skip until_ alt L _ = o
      generalize sSkipRetry P env st.ctx a skip until_ L st.ss [] = so
      cases o <;> cases so <;> intro h2 <;> try (exact False.elim h2)
      case ok.ok v st3 v' s3 e3 => exact h2
      case fail.fail st3 =>
        have hf3 : FailRel st.errs st.ctx st3 := h2
        exact ⟨by simp [take_of_prefix hf3.errs], by simp [hf3.ctx], by simp [hf3.alt]⟩
      case panic.panic => exact h2
      case oof.oof => exact h2
  case labelled l asCtx a =>
    simp only [step, pegStep]
    have h := hR.withAlt hm m a st none
    revert h
    generalize R env m a _ = o
    generalize P env a st.ss st.ctx = so
    cases o <;> cases so <;> intro h <;> try (exact False.elim h)
    case ok.ok v st1 v' s1 e1 =>
      have h1 : OkRel m st.errs st.ctx v st1 v' s1 e1 := h
      obtain ⟨new1, he1, hr1⟩ := h1.errs
      have hss : ∀ X : St, X.pos = st1.pos → X.insp = st1.insp → X.ss = s1 := by
        intro X hp hi; rw [← h1.ss]; simp [St.ss, hp, hi]
      cases asCtx <;> rcases hn : st1.alt with _ | n <;>
        simp only [hn, okRel_iff, Bool.false_eq_true, if_false, if_true, save_pos, save_errCount, ss_pos]
      · exact ⟨h1.val, hss _ rfl rfl, ⟨new1, he1, hr1⟩, h1.ctx⟩
      · exact ⟨h1.val, hss _ (by simp) (by simp), ⟨new1, by simp [he1], hr1⟩, by simp [h1.ctx]⟩
      · refine ⟨h1.val, hss _ rfl rfl, ⟨_, ?_, emsRel_inCtx l st.pos hr1⟩, h1.ctx⟩
        simp only [he1, ctxSecondary_append]
      · refine ⟨h1.val, hss _ (by simp) (by simp), ⟨_, ?_, emsRel_inCtx l st.pos hr1⟩, by simp [h1.ctx]⟩
        simp only [readdAlt_errs, he1, ctxSecondary_append]
    case fail.fail st1 =>
      have hf : FailRel st.errs st.ctx st1 := h
      obtain ⟨n, hn⟩ := Option.isSome_iff_exists.mp hf.alt
      obtain ⟨new1, he1⟩ := hf.errs
      cases asCtx <;>
        simp only [hn, failRel_iff, Bool.false_eq_true, if_false, if_true, save_pos, save_errCount]
      · exact ⟨by simp [hf.errs], by simp [hf.ctx], by simp [readdAlt_alt_isSome]⟩
      · refine ⟨?_, by simp [hf.ctx], by simp [readdAlt_alt_isSome]⟩
        simp only [readdAlt_errs, ← he1, ctxSecondary_append]
        exact List.prefix_append _ _
    case panic.panic => exact h
    case oof.oof => exact h
  case mapErr k a =>
    simp only [step, pegStep]
    have h := hR.withAlt hm m a st none
    revert h
    generalize R env m a _ = o
    generalize P env a st.ss st.ctx = so
    cases o <;> cases so <;> intro h <;> try (exact False.elim h)
    case ok.ok v st1 v' s1 e1 =>
      have h1 : OkRel m st.errs st.ctx v st1 v' s1 e1 := h
      exact ⟨h1.val, by simp [St.ss, ← h1.ss], by simpa using h1.errs, by simp [h1.ctx]⟩
    case fail.fail st1 =>
      have hf : FailRel st.errs st.ctx st1 := h
      obtain ⟨n, hn⟩ := Option.isSome_iff_exists.mp hf.alt
      simp only [hn, failRel_iff]
      exact ⟨by simp [hf.errs], by simp [hf.ctx], by simp [readdAlt_alt_isSome]⟩
    case panic.panic => exact h
    case oof.oof => exact h
end

#print axioms step_refines_err
end Chumsky
