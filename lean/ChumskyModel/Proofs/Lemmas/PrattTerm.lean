/-
  C20 / C12 for Pratt parsers: `atom.pratt(ops)` returns a result. If the atom and every operator parser consume input when
  they succeed and themselves return (no `oof`, no panic), the binding-power recursion needs at most `|remaining input| + 2`
  levels of its own fuel: every recursion into an operand happens after an operator consumed a token, every iteration of
  the operator loop consumes a token. (Operators that can succeed without consuming make the real `pratt_go` loop forever;
  they are outside the property's "non-pathological" class, like nullable repetition items.)
-/
import ChumskyModel.Proofs.Lemmas.PrattInv
import ChumskyModel.Proofs.Lemmas.Total
set_option linter.unusedSimpArgs false
set_option linter.unusedVariables false
namespace Chumsky

def SOut.NotStuck (o : SOut) : Prop := o ≠ .oof ∧ ∀ w, o ≠ .panic w

@[simp] theorem SOut.notStuck_ok {v s em} : (SOut.ok v s em).NotStuck := ⟨by simp, by simp⟩
@[simp] theorem SOut.notStuck_fail : SOut.fail.NotStuck := ⟨by simp, by simp⟩
theorem SOut.not_notStuck_oof : ¬ SOut.oof.NotStuck := fun h => h.1 rfl
theorem SOut.not_notStuck_panic {w} : ¬ (SOut.panic w).NotStuck := fun h => h.2 w rfl

section
variable {P : G → SS → SOut} {rec : Nat → SS → SOut} {env : Env} {N : Nat} {ok : G → Prop}

/-- hypotheses on the atom / operator parsers -/
structure TermHyp (P : G → SS → SOut) (ok : G → Prop) (N : Nat) : Prop where
  ns : ∀ g s, ok g → (P g s).NotStuck
  prog : ∀ g s v s' em, ok g → s.pos ≤ N → P g s = .ok v s' em → s.pos < s'.pos ∧ s'.pos ≤ N

/-- what is known about a result that started at `s`: it is a result, and a success ended at or after `lo`, inside the input -/
def Res (N lo : Nat) (o : SOut) : Prop := o.NotStuck ∧ ∀ v s' em, o = .ok v s' em → lo ≤ s'.pos ∧ s'.pos ≤ N
def OptRes (N lo : Nat) : Option SOut → Prop
  | none => True
  | some o => Res N lo o

/-- recursive calls started strictly after `s0` behave -/
def RecRes (rec : Nat → SS → SOut) (N : Nat) (s0 : Nat) : Prop :=
  ∀ p s1, s0 < s1.pos → s1.pos ≤ N → Res N s1.pos (rec p s1)

theorem res_ok {N lo : Nat} {v s em} (h1 : lo ≤ s.pos) (h2 : s.pos ≤ N) : Res N lo (.ok v s em) :=
  ⟨SOut.notStuck_ok, by intro v' s' em' h; cases h; exact ⟨h1, h2⟩⟩
theorem res_fail {N lo : Nat} : Res N lo .fail := ⟨SOut.notStuck_fail, by intro v s em h; cases h⟩
theorem Res.mono {N lo lo' : Nat} {o : SOut} (h : Res N lo o) (hl : lo' ≤ lo) : Res N lo' o :=
  ⟨h.1, fun v s' em he => ⟨Nat.le_trans hl (h.2 v s' em he).1, (h.2 v s' em he).2⟩⟩

theorem sPrattPrefix_term (hP : TermHyp P ok N) (start : SS) (hs : start.pos ≤ N) (hrec : RecRes rec N start.pos) :
    ∀ ops, OpsOK ok ops → OptRes N (start.pos + 1) (sPrattPrefix P rec env start ops)
  | [], _ => trivial
  | .prefix bp op :: rest, hops => by
    simp only [sPrattPrefix]
    have h1 := hP.ns op start hops.head
    have h2 := hP.prog op start
    generalize P op start = o at h1 h2 ⊢
    cases o with
    | ok opv s1 e1 =>
      dsimp only
      obtain ⟨hlt, hb⟩ := h2 opv s1 e1 hops.head hs rfl
      have h3 := hrec (2 * bp) s1 hlt hb
      generalize rec (2 * bp) s1 = r at h3 ⊢
      cases r with
      | ok rhs s2 e2 =>
        obtain ⟨h4, h5⟩ := h3.2 rhs s2 e2 rfl
        exact res_ok (by omega) h5
      | fail => exact sPrattPrefix_term hP start hs hrec rest hops.tail
      | panic w => exact absurd h3.1 SOut.not_notStuck_panic
      | oof => exact absurd h3.1 SOut.not_notStuck_oof
    | fail => exact sPrattPrefix_term hP start hs hrec rest hops.tail
    | panic w => exact absurd h1 SOut.not_notStuck_panic
    | oof => exact absurd h1 SOut.not_notStuck_oof
  | .infix _ _ _ :: rest, hops => by simp only [sPrattPrefix]; exact sPrattPrefix_term hP start hs hrec rest hops.tail
  | .postfix _ _ :: rest, hops => by simp only [sPrattPrefix]; exact sPrattPrefix_term hP start hs hrec rest hops.tail

theorem sPrattPostfix_term (hP : TermHyp P ok N) (start : SS) (minP : Nat) (lhs : Val) (s : SS) (hs : s.pos ≤ N) :
    ∀ ops, OpsOK ok ops → OptRes N (s.pos + 1) (sPrattPostfix P env start minP lhs s ops)
  | [], _ => trivial
  | .postfix bp op :: rest, hops => by
    simp only [sPrattPostfix]
    split
    · have h1 := hP.ns op s hops.head
      have h2 := hP.prog op s
      generalize P op s = o at h1 h2 ⊢
      cases o with
      | ok opv s1 e1 =>
        obtain ⟨hlt, hb⟩ := h2 opv s1 e1 hops.head hs rfl
        exact res_ok (by omega) hb
      | fail => exact sPrattPostfix_term hP start minP lhs s hs rest hops.tail
      | panic w => exact absurd h1 SOut.not_notStuck_panic
      | oof => exact absurd h1 SOut.not_notStuck_oof
    · exact sPrattPostfix_term hP start minP lhs s hs rest hops.tail
  | .infix _ _ _ :: rest, hops => by
    simp only [sPrattPostfix]; exact sPrattPostfix_term hP start minP lhs s hs rest hops.tail
  | .prefix _ _ :: rest, hops => by
    simp only [sPrattPostfix]; exact sPrattPostfix_term hP start minP lhs s hs rest hops.tail

theorem sPrattInfix_term (hP : TermHyp P ok N) (start : SS) (minP : Nat) (lhs : Val) (s : SS) (hs : s.pos ≤ N)
    (s0 : Nat) (h0 : s0 ≤ s.pos) (hrec : RecRes rec N s0) :
    ∀ ops, OpsOK ok ops → OptRes N (s.pos + 1) (sPrattInfix P rec env start minP lhs s ops)
  | [], _ => trivial
  | .infix la bp op :: rest, hops => by
    simp only [sPrattInfix]
    split
    · have h1 := hP.ns op s hops.head
      have h2 := hP.prog op s
      generalize P op s = o at h1 h2 ⊢
      cases o with
      | ok opv s1 e1 =>
        dsimp only
        obtain ⟨hlt, hb⟩ := h2 opv s1 e1 hops.head hs rfl
        have h3 := hrec (rightPower la bp) s1 (by omega) hb
        generalize rec (rightPower la bp) s1 = r at h3 ⊢
        cases r with
        | ok rhs s2 e2 =>
          obtain ⟨h4, h5⟩ := h3.2 rhs s2 e2 rfl
          exact res_ok (by omega) h5
        | fail => exact sPrattInfix_term hP start minP lhs s hs s0 h0 hrec rest hops.tail
        | panic w => exact absurd h3.1 SOut.not_notStuck_panic
        | oof => exact absurd h3.1 SOut.not_notStuck_oof
      | fail => exact sPrattInfix_term hP start minP lhs s hs s0 h0 hrec rest hops.tail
      | panic w => exact absurd h1 SOut.not_notStuck_panic
      | oof => exact absurd h1 SOut.not_notStuck_oof
    · exact sPrattInfix_term hP start minP lhs s hs s0 h0 hrec rest hops.tail
  | .postfix _ _ :: rest, hops => by
    simp only [sPrattInfix]; exact sPrattInfix_term hP start minP lhs s hs s0 h0 hrec rest hops.tail
  | .prefix _ _ :: rest, hops => by
    simp only [sPrattInfix]; exact sPrattInfix_term hP start minP lhs s hs s0 h0 hrec rest hops.tail

/-- the operator loop: `k` iterations are enough when `k > N - s.pos` -/
theorem sPrattLoop_term (hP : TermHyp P ok N) (ops : List PrattOp) (hops : OpsOK ok ops) (start : SS) (minP : Nat)
    (s0 : Nat) (hrec : RecRes rec N s0) :
    ∀ (k : Nat) (s : SS) (lhs : Val) (em : List Emis), s0 ≤ s.pos → s.pos ≤ N → N - s.pos + 1 ≤ k →
      Res N s.pos (sPrattLoop P rec env ops start minP k s lhs em)
  | 0, s, _, _, _, _, hk => by omega
  | k + 1, s, lhs, em, h0, hs, hk => by
    simp only [sPrattLoop]
    have hp := sPrattPostfix_term (env := env) hP start minP lhs s hs ops hops
    generalize sPrattPostfix P env start minP lhs s ops = r at hp ⊢
    cases r with
    | some o =>
      cases o with
      | ok v s1 e1 =>
        obtain ⟨h1, h2⟩ := hp.2 v s1 e1 rfl
        exact (sPrattLoop_term hP ops hops start minP s0 hrec k s1 v _ (by omega) h2 (by omega)).mono (by omega)
      | fail => exact res_fail
      | panic w => exact absurd hp.1 SOut.not_notStuck_panic
      | oof => exact absurd hp.1 SOut.not_notStuck_oof
    | none =>
      dsimp only
      have hi := sPrattInfix_term (env := env) hP start minP lhs s hs s0 h0 hrec ops hops
      generalize sPrattInfix P rec env start minP lhs s ops = r2 at hi ⊢
      cases r2 with
      | some o =>
        cases o with
        | ok v s2 e2 =>
          obtain ⟨h1, h2⟩ := hi.2 v s2 e2 rfl
          exact (sPrattLoop_term hP ops hops start minP s0 hrec k s2 v _ (by omega) h2 (by omega)).mono (by omega)
        | fail => exact res_fail
        | panic w => exact absurd hi.1 SOut.not_notStuck_panic
        | oof => exact absurd hi.1 SOut.not_notStuck_oof
      | none => exact res_ok (Nat.le_refl _) hs

/-- **termination of the binding-power recursion**: with fuel `k ≥ N - s.pos + 2` the result is a result (not out of fuel,
    not a panic), and a success has consumed at least one token and stayed inside the input -/
theorem sPratt_term (hP : TermHyp P ok N) (atom : G) (hatom : ok atom) (ops : List PrattOp) (hops : OpsOK ok ops) :
    ∀ (k minP : Nat) (s : SS), s.pos ≤ N → N - s.pos + 2 ≤ k → Res N (s.pos + 1) (sPratt P env atom ops k minP s) := by
  intro k
  induction k with
  | zero => intro _ s _ hk; omega
  | succ k ih =>
    intro minP s hs hk
    have hrec : RecRes (sPratt P env atom ops k) N s.pos := by
      intro p s1 hlt hb
      exact (ih p s1 hb (by omega)).mono (by omega)
    simp only [sPratt]
    have hp := sPrattPrefix_term (env := env) hP s hs hrec ops hops
    generalize sPrattPrefix P (sPratt P env atom ops k) env s ops = r at hp ⊢
    cases r with
    | some o =>
      cases o with
      | ok v s1 e1 =>
        obtain ⟨h1, h2⟩ := hp.2 v s1 e1 rfl
        exact (sPrattLoop_term hP ops hops s minP s.pos hrec k s1 v e1 (by omega) h2 (by omega)).mono (by omega)
      | fail => exact res_fail
      | panic w => exact absurd hp.1 SOut.not_notStuck_panic
      | oof => exact absurd hp.1 SOut.not_notStuck_oof
    | none =>
      dsimp only
      have ha := hP.ns atom s hatom
      have hb := hP.prog atom s
      generalize P atom s = o at ha hb ⊢
      cases o with
      | ok v s1 e1 =>
        obtain ⟨h1, h2⟩ := hb v s1 e1 hatom hs rfl
        exact (sPrattLoop_term hP ops hops s minP s.pos hrec k s1 v e1 (by omega) h2 (by omega)).mono (by omega)
      | fail => exact res_fail
      | panic w => exact absurd ha SOut.not_notStuck_panic
      | oof => exact absurd ha SOut.not_notStuck_oof
end

/-- table parsers that are call-free, well-formed and terminating (`wfTerm`) and consume input when they succeed -/
def G.prattOk (g : G) : Bool := g.wfTerm && g.consumes noCalls

/-- the reading of the model satisfies the hypotheses for such parsers once the fuel covers their depth -/
theorem peg_termHyp (n d : Nat) (env : Env) (ctx : Val) (hn : d + env.toks.length + 1 ≤ n) :
    TermHyp (fun g s => peg n env g s ctx) (fun g => g.prattOk = true ∧ g.depth ≤ d) env.toks.length where
  ns := by
    intro g s hg
    simp only [G.prattOk, Bool.and_eq_true] at hg
    exact peg_terminates n env g s ctx hg.1.1 (by omega)
  prog := by
    intro g s v s' em hg hs h
    simp only [G.prattOk, Bool.and_eq_true] at hg
    exact ⟨peg_consumes n env (cdefs_noCalls env) g s ctx hg.1.2 h, (peg_adv n env g s ctx h).bound hs⟩

/-- **C20 for `atom.pratt(ops)`** (reading): with fuel covering the depth of the table's parsers and the input length,
    the Pratt parser returns from every position inside the input -/
theorem pegPratt_terminates (n d : Nat) (env : Env) (atom : G) (ops : List PrattOp) (hatom : atom.prattOk = true ∧ atom.depth ≤ d)
    (hops : ∀ o ∈ ops, o.parser.prattOk = true ∧ o.parser.depth ≤ d) (hn : d + env.toks.length + 2 ≤ n) (s : SS)
    (ctx : Val) (hs : s.pos ≤ env.toks.length) :
    pegPratt n env atom ops s ctx ≠ .oof ∧ ∀ w, pegPratt n env atom ops s ctx ≠ .panic w := by
  have := sPratt_term (env := env) (peg_termHyp n d env ctx (by omega)) atom hatom ops hops n 0 s hs (by omega)
  exact this.1

/-- machine level -/
theorem runPratt_terminates (n d : Nat) (env : Env) (m : Mode) (hm : env.memoOn = false) (atom : G) (ops : List PrattOp)
    (hatom : atom.prattOk = true ∧ atom.depth ≤ d) (hops : ∀ o ∈ ops, o.parser.prattOk = true ∧ o.parser.depth ≤ d)
    (hn : d + env.toks.length + 2 ≤ n) (st : St) (hs : st.pos ≤ env.toks.length) :
    runPratt n env m atom ops st ≠ .oof ∧ ∀ w, runPratt n env m atom ops st ≠ .panic w := by
  have ht := pegPratt_terminates n d env atom ops hatom hops hn st.ss st.ctx hs
  have hr := runPratt_refines n env m atom ops st hm
  constructor
  · intro h
    rw [h] at hr
    cases hp : pegPratt n env atom ops st.ss st.ctx <;> rw [hp] at hr <;> simp only [Refines] at hr
    exact ht.1 hp
  · intro w h
    rw [h] at hr
    cases hp : pegPratt n env atom ops st.ss st.ctx <;> rw [hp] at hr <;> simp only [Refines] at hr
    subst hr
    exact ht.2 _ hp

end Chumsky
