/-
  C16 — `a.nested_in(b)` at any position of any grammar (`Model/Nested.lean`, `HEnv` / `runH` / `pegH`): the machine (ordinary
  `step`, `NestedIn::go` at the hole) refines the reading (ordinary `pegStep`, "the children are matched completely, in
  isolation, the outer input advances by `b`" at the hole). One lemma about `nestedStepM` over an arbitrary runner, one
  induction on the fuel re-using the master refinement's step lemmas.
-/
import ChumskyModel.Proofs.Lemmas.NestedRefine
import ChumskyModel.Proofs.Lemmas.Top
set_option linter.unusedSimpArgs false
set_option linter.unusedVariables false
namespace Chumsky

variable {R : Runner} {P : SRunner}

theorem HEnv.innerEnv_memoOn (h : HEnv) (env : Env) (kids : List Nat) : (h.innerEnv env kids).memoOn = env.memoOn := rfl

/-- `NestedIn::go` over a runner that refines `P` refines the nested reading over `P` -/
theorem nestedStep_refines (hR : RunnerRefines R P) (h : HEnv) (env : Env) (m : Mode) (st : St)
    (hm : env.memoOn = false) :
    Refines m st.errs st.ctx (nestedStepM R h env m st) (nestedStepS P h env st.ss st.ctx) := by
  simp only [nestedStepM, nestedStepS]
  have hb := hR env .emit h.b st hm
  cases hrb : R env .emit h.b st with
  | fail st1 => cases hpb : P env h.b st.ss st.ctx <;> simp [hrb, hpb, Refines, SOut.andThen] at hb ⊢; exact hb
  | panic w => cases hpb : P env h.b st.ss st.ctx <;> simp [hrb, hpb, Refines, SOut.andThen] at hb ⊢; exact hb
  | oof => cases hpb : P env h.b st.ss st.ctx <;> simp [hrb, hpb, Refines, SOut.andThen] at hb ⊢
  | ok vb st1 =>
    cases hpb : P env h.b st.ss st.ctx <;> simp [hrb, hpb, Refines, SOut.andThen] at hb ⊢
    rename_i vb' s1 e1
    have hvb : vb = vb' := by simpa using hb.val
    subst hvb
    cases hk : h.kidsOf vb with
    | none => simp [Refines]
    | some kids =>
      simp only
      have hmi : (h.innerEnv env kids).memoOn = false := hm
      obtain ⟨new1, he1, hr1⟩ := hb.errs
      have hss : st1.ss = s1 := hb.ss
      have hinsp : st1.insp = s1.insp := by rw [← hss]; rfl
      have hpos : st1.pos = s1.pos := by rw [← hss]; rfl
      have hin := hR (h.innerEnv env kids) m h.a
        { pos := 0, errs := [], alt := none, insp := st1.insp, ctx := st1.ctx, memo := [], log := [] } hmi
      simp only [St.ss] at hin
      rw [hinsp, hb.ctx] at hin
      have hthen : Refines m [] st.ctx
          (innerThenEndM (R (h.innerEnv env kids) m h.a
              { pos := 0, errs := [], alt := none, insp := s1.insp, ctx := st.ctx, memo := [], log := [] })
            (fun si1 => R (h.innerEnv env kids) .check .end_ si1))
          (innerThenEndS (P (h.innerEnv env kids) h.a ⟨0, s1.insp⟩ st.ctx)
            (fun si1 => P (h.innerEnv env kids) .end_ si1 st.ctx)) := by
        unfold innerThenEndM innerThenEndS
        refine Refines.andThen0 hin ?_
        intro va si1 va' si1' e2 h2
        obtain ⟨new2, he2, hr2⟩ := h2.errs
        have hend := hR (h.innerEnv env kids) .check .end_ si1 hmi
        rw [he2, h2.ctx, h2.ss] at hend
        refine Refines.andThen hend ?_
        intro _ si2 _ si2' e3 h3
        simp only [okRel_iff]
        exact OkRel.seq hr2 h3 h2.val
      rw [hinsp, hb.ctx]
      revert hthen
      generalize (innerThenEndM (R (h.innerEnv env kids) m h.a
              { pos := 0, errs := [], alt := none, insp := s1.insp, ctx := st.ctx, memo := [], log := [] })
            (fun si1 => R (h.innerEnv env kids) .check .end_ si1)) = ro
      generalize (innerThenEndS (P (h.innerEnv env kids) h.a ⟨0, s1.insp⟩ st.ctx)
            (fun si1 => P (h.innerEnv env kids) .end_ si1 st.ctx)) = so
      intro hthen
      cases ro <;> cases so <;> simp [Refines] at hthen ⊢
      · rename_i va si va' si' e2
        obtain ⟨new2, he2, hr2⟩ := hthen.errs
        refine ⟨hthen.val, ?_, ?_, by simp [hb.ctx]⟩
        · simp [St.ss, hpos, ← hthen.ss]
        · refine ⟨new1 ++ rehome st1.pos new2, ?_, ?_⟩
          · simp [he1, he2, List.append_assoc]
          · rw [← hpos]; exact hr1.append (emsRel_rehome st1.pos hr2)
      · rename_i si
        exact ⟨by simp [he1, List.append_assoc], by simp [hb.ctx], nestedMerge_alt_isSome _ _ _ hthen.alt⟩
      · exact hthen

theorem runH_refines_all (h : HEnv) (n : Nat) :
    RunnerRefines (runH h n) (pegH h n) ∧ NextRefines (nextH h n) (pegNextH h n) ∧
      MkRefines (mkIterH h n) (pegMkH h n) := by
  induction n with
  | zero =>
    refine ⟨?_, ?_, ?_⟩
    · intro env m g st _; simp [runH, pegH, Refines]
    · intro env m it st ist _; simp [nextH, pegNextH, RefinesIt]
    · intro env m it st _; simp [mkIterH, pegMkH, RefinesMk]
  | succ n ih =>
    obtain ⟨hR, hN, hK⟩ := ih
    refine ⟨?_, ?_, ?_⟩
    · intro env m g st hm
      simp only [runH, pegH]
      by_cases hh : h.isHole g = true
      · simp only [hh, if_true]
        exact nestedStep_refines hR h env m st hm
      · simp only [hh]
        exact step_refines hR hN hK n env m g st hm
    · simp only [nextH, pegNextH]; exact stepNext_refines hR hN hK
    · simp only [mkIterH, pegMkH]; exact stepMk_refines hR hK

/-- **C16, general form**: machine ⊑ reading with `a.nested_in(b)` at any position of any grammar -/
theorem runH_refines (h : HEnv) (n : Nat) (env : Env) (m : Mode) (g : G) (st : St) (hm : env.memoOn = false) :
    Refines m st.errs st.ctx (runH h n env m g st) (pegH h n env g st.ss st.ctx) :=
  (runH_refines_all h n).1 env m g st hm

theorem parseTopH_refines (h : HEnv) (n : Nat) (env : Env) (m : Mode) (g : G) (hm : env.memoOn = false) :
    TopRefines m (parseTopH h n env m g) (pegTopH h n env g) := by
  unfold parseTopH pegTopH
  have hh := runH_refines h n env m (.thenIgnore g .end_) St.init hm
  have e1 : St.init.ss = ⟨0, []⟩ := rfl
  have e2 : St.init.ctx = .unit := rfl
  have e3 : St.init.errs = [] := rfl
  rw [e1, e2, e3] at hh
  revert hh
  cases runH h n env m (.thenIgnore g .end_) St.init <;>
    cases pegH h n env (.thenIgnore g .end_) ⟨0, []⟩ .unit <;> simp [Refines, TopRefines]
  · intro hh
    obtain ⟨new, he, hr⟩ := hh.errs
    simp at he
    exact ⟨hh.val, hh.ss, by rw [he]; exact hr⟩

/-- at the hole the reading is: `b` yields a group and consumes it, `a` followed by end-of-input matches the children, the
    result is `a`'s, the outer position is just after `b` -/
theorem pegH_hole (h : HEnv) (n : Nat) (env : Env) (s : SS) (ctx : Val) :
    pegH h (n + 1) env (.call h.hole) s ctx = nestedStepS (pegH h n) h env s ctx := by
  simp [pegH, HEnv.isHole]

end Chumsky
