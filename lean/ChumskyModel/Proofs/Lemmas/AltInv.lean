/-
  Proofs/Lemmas/AltInv.lean — the pending-error invariant behind C06.

  For every grammar of the class `c06` (no `not`, no recovery, no `labelled`, no `map_err`, no `memoized`) and
  every error kind except `EmptyErr`:

    the pending primary error after a run  ≈  the pending error before the run, merged (in order, with the
    priority rule of `add_alt`) with the failure events logged during the run            (`AltRel`)

  and a failing run logs at least one event (`AltRelF`).  At the top level (`alt = none`, `log = []`) the
  reported primary error therefore is (≈) `summ ek log`, and the characterisation of `summ` from `Summ.lean`
  gives C06: furthest position, union of the expected sets, custom error preserved, span of the first event.

  Layout: relation algebra; the four event/bookkeeping operations; one lemma per loop helper; `step`, `stepNext`,
  `stepMk` by open recursion; induction on the fuel; top level and corollaries.
-/
import ChumskyModel.Proofs.Lemmas.Summ
set_option linter.unusedSimpArgs false
set_option linter.unusedVariables false
namespace Chumsky

/-! ### the syntactic class -/

mutual
/-- `false` exactly when one of `.not_`, `.recoverVia`, `.recoverSkipUntil`, `.recoverSkipRetry`, `.labelled`,
    `.mapErr`, `.memoized` occurs anywhere inside (definitions are checked separately) -/
def G.c06 : G → Bool
  | .end_ => true
  | .empty => true
  | .any => true
  | .just _ => true
  | .oneOf _ => true
  | .noneOf _ => true
  | .select _ => true
  | .custom _ => true
  | .todo => true
  | .then_ a b => a.c06 && b.c06
  | .ignoreThen a b => a.c06 && b.c06
  | .thenIgnore a b => a.c06 && b.c06
  | .delimitedBy a l r => a.c06 && (l.c06 && r.c06)
  | .paddedBy a p => a.c06 && p.c06
  | .group gs => c06L gs
  | .groupArr gs => c06L gs
  | .or_ a b => a.c06 && b.c06
  | .choice _ gs => c06L gs
  | .orNot a => a.c06
  | .not_ _ => false
  | .andIs a b => a.c06 && b.c06
  | .rewind a => a.c06
  | .map _ a => a.c06
  | .to _ a => a.c06
  | .ignored a => a.c06
  | .filter _ a => a.c06
  | .tryMap _ a => a.c06
  | .tryMapWith _ a => a.c06
  | .toSpan a => a.c06
  | .toSlice a => a.c06
  | .mapWithSpan a => a.c06
  | .mapWithState a => a.c06
  | .mapWithCtx a => a.c06
  | .validate _ a => a.c06
  | .collect _ it => it.c06
  | .collectExactly _ it => it.c06
  | .foldl _ a it => a.c06 && it.c06
  | .foldr _ it b => it.c06 && b.c06
  | .foldlWith a it => a.c06 && it.c06
  | .foldrWith it b => it.c06 && b.c06
  | .iterP it => it.c06
  | .recoverVia _ _ => false
  | .recoverSkipUntil _ _ _ _ => false
  | .recoverSkipRetry _ _ _ => false
  | .labelled _ _ _ => false
  | .mapErr _ _ => false
  | .withCtx _ a => a.c06
  | .ignoreWithCtx a b => a.c06 && b.c06
  | .thenWithCtx a b => a.c06 && b.c06
  | .mapCtx _ a => a.c06
  | .configureJust _ _ => true
  | .withState a => a.c06
  | .memoized _ _ => false
  | .call _ => true
  | .boxed a => a.c06
def It.c06 : It → Bool
  | .repeated a _ _ => a.c06
  | .separatedBy a sep _ _ _ _ => a.c06 && sep.c06
  | .enumerate it => it.c06
  | .orNotIt a => a.c06
  | .intoIter a => a.c06
  | .thenIt a b => a.c06 && b.c06
  | .mapIt _ it => it.c06
  | .configureRep _ it => it.c06
  | .tryConfigureRep _ it => it.c06
def c06L : List G → Bool
  | [] => true
  | g :: gs => g.c06 && c06L gs
end

/-! ### the relative invariant -/

/-- the pending error after the run ≈ the pending error before, merged with the summary of the failure events
    logged during the run -/
structure AltRel (ek : ErrKind) (st st' : St) : Prop where
  log : ∃ evs, st'.log = st.log ++ evs ∧ OptLoc.equiv st'.alt (foldAlt ek st.alt evs)

/-- the same, and at least one event was logged (what a *failing* run guarantees) -/
structure AltRelF (ek : ErrKind) (st st' : St) : Prop where
  log : ∃ evs, evs ≠ [] ∧ st'.log = st.log ++ evs ∧ OptLoc.equiv st'.alt (foldAlt ek st.alt evs)

theorem AltRel.refl (ek : ErrKind) (st : St) : AltRel ek st st :=
  ⟨[], by simp, OptLoc.equiv_refl _⟩

theorem AltRelF.toRel {ek : ErrKind} {st st' : St} (h : AltRelF ek st st') : AltRel ek st st' := by
  obtain ⟨evs, _, hl, he⟩ := h.log
  exact ⟨evs, hl, he⟩

theorem AltRel.trans {ek : ErrKind} {a b c : St} (h1 : AltRel ek a b) (h2 : AltRel ek b c) : AltRel ek a c := by
  obtain ⟨e1, l1, q1⟩ := h1.log
  obtain ⟨e2, l2, q2⟩ := h2.log
  refine ⟨e1 ++ e2, by rw [l2, l1, List.append_assoc], ?_⟩
  rw [foldAlt_append]
  exact OptLoc.equiv_trans q2 (foldAlt_congr _ q1)

theorem AltRel.transF {ek : ErrKind} {a b c : St} (h1 : AltRel ek a b) (h2 : AltRelF ek b c) : AltRelF ek a c := by
  obtain ⟨e1, l1, q1⟩ := h1.log
  obtain ⟨e2, hne, l2, q2⟩ := h2.log
  refine ⟨e1 ++ e2, by simp [hne], by rw [l2, l1, List.append_assoc], ?_⟩
  rw [foldAlt_append]
  exact OptLoc.equiv_trans q2 (foldAlt_congr _ q1)

theorem AltRelF.trans {ek : ErrKind} {a b c : St} (h1 : AltRelF ek a b) (h2 : AltRel ek b c) : AltRelF ek a c := by
  obtain ⟨e1, hne, l1, q1⟩ := h1.log
  obtain ⟨e2, l2, q2⟩ := h2.log
  refine ⟨e1 ++ e2, by simp [hne], by rw [l2, l1, List.append_assoc], ?_⟩
  rw [foldAlt_append]
  exact OptLoc.equiv_trans q2 (foldAlt_congr _ q1)

/-- only `alt` and `log` of the two states matter -/
theorem AltRel.congr {ek : ErrKind} {a b a' b' : St} (h : AltRel ek a b)
    (ha : a'.alt = a.alt) (hal : a'.log = a.log) (hb : b'.alt = b.alt) (hbl : b'.log = b.log) :
    AltRel ek a' b' := by
  obtain ⟨e, l, q⟩ := h.log
  exact ⟨e, by rw [hbl, hal, l], by rw [hb, ha]; exact q⟩

theorem AltRelF.congr {ek : ErrKind} {a b a' b' : St} (h : AltRelF ek a b)
    (ha : a'.alt = a.alt) (hal : a'.log = a.log) (hb : b'.alt = b.alt) (hbl : b'.log = b.log) :
    AltRelF ek a' b' := by
  obtain ⟨e, hne, l, q⟩ := h.log
  exact ⟨e, hne, by rw [hbl, hal, l], by rw [hb, ha]; exact q⟩

theorem AltRel.right {ek : ErrKind} {a b b' : St} (h : AltRel ek a b)
    (hb : b'.alt = b.alt) (hbl : b'.log = b.log) : AltRel ek a b' := h.congr rfl rfl hb hbl
theorem AltRelF.right {ek : ErrKind} {a b b' : St} (h : AltRelF ek a b)
    (hb : b'.alt = b.alt) (hbl : b'.log = b.log) : AltRelF ek a b' := h.congr rfl rfl hb hbl
theorem AltRel.of_eq {ek : ErrKind} {a b : St} (hb : b.alt = a.alt) (hbl : b.log = a.log) : AltRel ek a b :=
  (AltRel.refl ek a).right hb hbl

/-! ### bookkeeping operations: neither `alt` nor `log` -/

@[simp] theorem St.rewind_alt (st : St) (c : Chk) : (st.rewind c).alt = st.alt := rfl
@[simp] theorem St.rewind_log (st : St) (c : Chk) : (st.rewind c).log = st.log := rfl
@[simp] theorem St.rewindInput_alt (st : St) (c : Chk) : (st.rewindInput c).alt = st.alt := rfl
@[simp] theorem St.rewindInput_log (st : St) (c : Chk) : (st.rewindInput c).log = st.log := rfl
@[simp] theorem St.emit_alt (st : St) (p : Nat) (e : Err) : (st.emit p e).alt = st.alt := rfl
@[simp] theorem St.emit_log (st : St) (p : Nat) (e : Err) : (st.emit p e).log = st.log := rfl
@[simp] theorem St.next_alt (env : Env) (st : St) : (st.next env).2.alt = st.alt := by
  unfold St.next; split <;> rfl
@[simp] theorem St.next_log (env : Env) (st : St) : (st.next env).2.log = st.log := by
  unfold St.next; split <;> rfl

/-! ### the event operations -/

theorem St.addAlt_log (env : Env) (st : St) (exp : List Pat) (found : Option Nat) (span : Nat × Nat) :
    (st.addAlt env exp found span).log = st.log ++ [⟨st.pos, env.ek.expectedFound exp found span⟩] := by
  unfold St.addAlt
  split <;> rfl

theorem St.addAltErr_log (env : Env) (st : St) (at_ : Nat) (e : Err) :
    (st.addAltErr env at_ e).log = st.log ++ [⟨at_, e⟩] := by
  unfold St.addAltErr
  split <;> rfl

theorem St.addAltErr_alt {env : Env} (hek : env.ek ≠ .empty) (st : St) (at_ : Nat) (e : Err) :
    (st.addAltErr env at_ e).alt = St.mergeAlt env.ek st.alt at_ e := by
  unfold St.addAltErr
  split
  · next h => exact absurd h hek
  · rfl

theorem St.readdAlt_log (env : Env) (st : St) (new : Option Loc) : (St.readdAlt env st new).log = st.log := by
  cases new with
  | none => rfl
  | some n =>
    simp only [St.readdAlt]
    split <;> rfl

theorem St.readdAlt_alt {env : Env} (hek : env.ek ≠ .empty) (st : St) (n : Loc) :
    (St.readdAlt env st (some n)).alt = St.mergeAlt env.ek st.alt n.pos n.err := by
  show (match env.ek with
    | .empty => { st with alt := some n }
    | ek => { st with alt := St.mergeAlt ek st.alt n.pos n.err }).alt = _
  split
  · next h => exact absurd h hek
  · rfl

/-- `add_alt` logs exactly the event it merges -/
theorem addAlt_F {env : Env} (hek : env.ek ≠ .empty) (st : St) (exp : List Pat) (found : Option Nat)
    (span : Nat × Nat) : AltRelF env.ek st (st.addAlt env exp found span) :=
  ⟨[⟨st.pos, env.ek.expectedFound exp found span⟩], by simp, St.addAlt_log .., addAlt_alt_equiv env st exp found span hek⟩

/-- the same, seen from a state with the same `alt` and `log` (before `next` / `rewind`) -/
theorem addAlt_F' {env : Env} (hek : env.ek ≠ .empty) {st0 st : St} (exp : List Pat) (found : Option Nat)
    (span : Nat × Nat) (ha : st.alt = st0.alt) (hl : st.log = st0.log) :
    AltRelF env.ek st0 (st.addAlt env exp found span) :=
  (addAlt_F hek st exp found span).congr ha.symm hl.symm rfl rfl

theorem addAltErr_F {env : Env} (hek : env.ek ≠ .empty) (st : St) (at_ : Nat) (e : Err) :
    AltRelF env.ek st (st.addAltErr env at_ e) :=
  ⟨[⟨at_, e⟩], by simp, St.addAltErr_log .., by rw [St.addAltErr_alt hek]; exact OptLoc.equiv_refl _⟩

theorem addAltErr_F' {env : Env} (hek : env.ek ≠ .empty) {st0 st : St} (at_ : Nat) (e : Err)
    (ha : st.alt = st0.alt) (hl : st.log = st0.log) : AltRelF env.ek st0 (st.addAltErr env at_ e) :=
  (addAltErr_F hek st at_ e).congr ha.symm hl.symm rfl rfl

theorem summ_eq_none {ek : ErrKind} {evs : List Loc} (h : summ ek evs = none) : evs = [] := by
  cases evs with
  | nil => rfl
  | cons x xs =>
    have := foldAlt_isSome (ek := ek) (alt := none) (evs := x :: xs) (Or.inl (List.cons_ne_nil _ _))
    rw [show foldAlt ek none (x :: xs) = summ ek (x :: xs) from rfl, h] at this
    cases this

/-- putting back a taken pending error that is (≈) the summary of `evs` = replaying `evs` -/
theorem readdAlt_fold {env : Env} (hek : env.ek ≠ .empty) (st : St) {new : Option Loc} {evs : List Loc}
    (h : OptLoc.equiv new (summ env.ek evs)) :
    OptLoc.equiv (St.readdAlt env st new).alt (foldAlt env.ek st.alt evs) := by
  cases new with
  | none =>
    cases hs : summ env.ek evs with
    | some n' => rw [hs] at h; exact h.elim
    | none =>
      rw [summ_eq_none hs]
      exact OptLoc.equiv_refl _
  | some n =>
    cases hs : summ env.ek evs with
    | none => rw [hs] at h; exact h.elim
    | some n' =>
      rw [hs] at h
      rw [St.readdAlt_alt hek]
      exact OptLoc.equiv_trans (mergeAlt_congr_loc (OptLoc.equiv_refl _) h) (mergeAlt_summ _ hs)

/-- the `try_map` / sheltering pattern: run from `alt := none`, then put the old error back and re-add the new one -/
theorem shelter_rel {env : Env} (hek : env.ek ≠ .empty) {st st1 : St}
    (h : AltRel env.ek { st with alt := none } st1) :
    AltRel env.ek st (St.readdAlt env { st1 with alt := st.alt } st1.alt) := by
  obtain ⟨evs, hl, he⟩ := h.log
  exact ⟨evs, by rw [St.readdAlt_log]; exact hl, readdAlt_fold hek _ he⟩

theorem shelter_relF {env : Env} (hek : env.ek ≠ .empty) {st st1 : St}
    (h : AltRelF env.ek { st with alt := none } st1) :
    AltRelF env.ek st (St.readdAlt env { st1 with alt := st.alt } st1.alt) := by
  obtain ⟨evs, hne, hl, he⟩ := h.log
  exact ⟨evs, hne, by rw [St.readdAlt_log]; exact hl, readdAlt_fold hek _ he⟩

/-! ### result predicates -/

def Out.AR (ek : ErrKind) (st : St) : Out → Prop
  | .ok _ st' => AltRel ek st st'
  | .fail st' => AltRelF ek st st'
  | _ => True

def ItOut.AR (ek : ErrKind) (st : St) : ItOut → Prop
  | .some _ st' _ => AltRel ek st st'
  | .done st' _ => AltRel ek st st'
  | .fail st' => AltRelF ek st st'
  | _ => True

def MkOut.AR (ek : ErrKind) (st : St) : MkOut → Prop
  | .ok _ st' => AltRel ek st st'
  | .fail st' => AltRelF ek st st'
  | _ => True

@[simp] theorem Out.AR_ok {ek st v st'} : (Out.ok v st').AR ek st ↔ AltRel ek st st' := Iff.rfl
@[simp] theorem Out.AR_fail {ek st st'} : (Out.fail st').AR ek st ↔ AltRelF ek st st' := Iff.rfl
@[simp] theorem Out.AR_panic {ek st w} : (Out.panic w).AR ek st ↔ True := Iff.rfl
@[simp] theorem Out.AR_oof {ek st} : Out.oof.AR ek st ↔ True := Iff.rfl
@[simp] theorem ItOut.AR_some {ek st v st' i} : (ItOut.some v st' i).AR ek st ↔ AltRel ek st st' := Iff.rfl
@[simp] theorem ItOut.AR_done {ek st st' i} : (ItOut.done st' i).AR ek st ↔ AltRel ek st st' := Iff.rfl
@[simp] theorem ItOut.AR_fail {ek st st'} : (ItOut.fail st').AR ek st ↔ AltRelF ek st st' := Iff.rfl
@[simp] theorem ItOut.AR_panic {ek st w} : (ItOut.panic w).AR ek st ↔ True := Iff.rfl
@[simp] theorem ItOut.AR_oof {ek st} : ItOut.oof.AR ek st ↔ True := Iff.rfl
@[simp] theorem MkOut.AR_ok {ek st i st'} : (MkOut.ok i st').AR ek st ↔ AltRel ek st st' := Iff.rfl
@[simp] theorem MkOut.AR_fail {ek st st'} : (MkOut.fail st').AR ek st ↔ AltRelF ek st st' := Iff.rfl
@[simp] theorem MkOut.AR_panic {ek st w} : (MkOut.panic w).AR ek st ↔ True := Iff.rfl
@[simp] theorem MkOut.AR_oof {ek st} : MkOut.oof.AR ek st ↔ True := Iff.rfl

/-- prefix a result with what happened before it -/
theorem Out.AR.trans {ek : ErrKind} {st0 st : St} {o : Out} (h0 : AltRel ek st0 st) (h : o.AR ek st) :
    o.AR ek st0 := by
  cases o with
  | ok v st' => exact h0.trans h
  | fail st' => exact h0.transF h
  | _ => trivial

theorem ItOut.AR.trans {ek : ErrKind} {st0 st : St} {o : ItOut} (h0 : AltRel ek st0 st) (h : o.AR ek st) :
    o.AR ek st0 := by
  cases o with
  | some v st' i => exact h0.trans h
  | done st' i => exact h0.trans h
  | fail st' => exact h0.transF h
  | _ => trivial

theorem MkOut.AR.trans {ek : ErrKind} {st0 st : St} {o : MkOut} (h0 : AltRel ek st0 st) (h : o.AR ek st) :
    o.AR ek st0 := by
  cases o with
  | ok i st' => exact h0.trans h
  | fail st' => exact h0.transF h
  | _ => trivial

theorem Out.AR.andThen {ek : ErrKind} {st : St} {o : Out} {k : Val → St → Out} (h : o.AR ek st)
    (hk : ∀ v st1, (k v st1).AR ek st1) : (o.andThen k).AR ek st := by
  cases o with
  | ok v st' => exact Out.AR.trans h (hk v st')
  | fail st' => exact h
  | _ => trivial

theorem Out.AR.restoreCtx {ek : ErrKind} {st : St} {o : Out} (h : o.AR ek st) (c : Val) :
    (o.restoreCtx c).AR ek st := by
  cases o with
  | ok v st' => exact AltRel.right h rfl rfl
  | fail st' => exact AltRelF.right h rfl rfl
  | _ => trivial

theorem Out.AR.restoreInsp {ek : ErrKind} {st : St} {o : Out} (h : o.AR ek st) (i : List Nat) :
    (o.restoreInsp i).AR ek st := by
  cases o with
  | ok v st' => exact AltRel.right h rfl rfl
  | fail st' => exact AltRelF.right h rfl rfl
  | _ => trivial

/-- change the start state to one with the same `alt` and `log` -/
theorem Out.AR.left {ek : ErrKind} {st st0 : St} {o : Out} (h : o.AR ek st)
    (ha : st0.alt = st.alt) (hl : st0.log = st.log) : o.AR ek st0 :=
  Out.AR.trans (AltRel.of_eq ha.symm hl.symm) h

theorem ItOut.AR.left {ek : ErrKind} {st st0 : St} {o : ItOut} (h : o.AR ek st)
    (ha : st0.alt = st.alt) (hl : st0.log = st.log) : o.AR ek st0 :=
  ItOut.AR.trans (AltRel.of_eq ha.symm hl.symm) h

/-! ### the induction hypotheses of the open recursion -/

def ARR (env : Env) (R : Runner) : Prop := ∀ m g st, g.c06 = true → (R env m g st).AR env.ek st
def ARN (env : Env) (N : NextRunner) : Prop := ∀ m it st ist, it.c06 = true → (N env m it st ist).AR env.ek st
def ARK (env : Env) (K : MkRunner) : Prop := ∀ m it st, it.c06 = true → (K env m it st).AR env.ek st

/-! ### primitives -/

theorem tokenPrim_AR {env : Env} (hek : env.ek ≠ .empty) (m : Mode) (st : St) (accept : Nat → Option Val)
    (exp : List Pat) : (tokenPrim env m st accept exp).AR env.ek st := by
  simp only [tokenPrim]
  cases (St.next env st).fst.bind accept with
  | some v => exact AltRel.of_eq (by simp) (by simp)
  | none => exact addAlt_F' hek _ _ _ (by simp) (by simp)

def JrAR (ek : ErrKind) (st : St) : St ⊕ St → Prop
  | .inr st' => AltRel ek st st'
  | .inl st' => AltRelF ek st st'

theorem justRun_AR {env : Env} (hek : env.ek ≠ .empty) : ∀ (ts : List Nat) (st : St),
    JrAR env.ek st (justRun env ts st) := by
  intro ts
  induction ts with
  | nil => intro st; exact AltRel.refl _ _
  | cons e es ih =>
    intro st
    simp only [justRun]
    split
    · have := ih (St.next env st).2
      generalize justRun env es (St.next env st).2 = o at this ⊢
      have h0 : AltRel env.ek st (St.next env st).2 := AltRel.of_eq (by simp) (by simp)
      cases o with
      | inr st' => exact h0.trans this
      | inl st' => exact h0.transF this
    · exact addAlt_F' hek _ _ _ (by simp) (by simp)

theorem runCustom_AR {env : Env} (hek : env.ek ≠ .empty) (m : Mode) (f : CustomFn) (st : St) :
    (runCustom env m f st).AR env.ek st := by
  cases f with
  | next msg =>
    simp only [runCustom]
    cases (St.next env st).fst with
    | some t => exact AltRel.of_eq (by simp) (by simp)
    | none => exact addAltErr_F' hek _ _ (by simp) (by simp)
  | take2Fail msg =>
    simp only [runCustom]
    exact addAltErr_F' hek _ _ (by simp) (by simp)
  | nothing => exact AltRel.refl _ _
  | failNow msg => exact addAltErr_F hek _ _ _

/-! ### choice and group -/

theorem choiceTuple_AR {env : Env} {R : Runner} (hR : ARR env R) (m : Mode) (c : Chk) :
    ∀ (gs : List G) (st0 st : St), c06L gs = true → AltRel env.ek st0 st →
      (gs ≠ [] ∨ AltRelF env.ek st0 st) → (choiceTuple R env m c gs st).AR env.ek st0 := by
  intro gs
  induction gs with
  | nil =>
    intro st0 st _ h0 hne
    rcases hne with hne | hF
    · exact absurd rfl hne
    · exact hF
  | cons g gs ih =>
    intro st0 st hgs h0 _
    simp only [c06L, Bool.and_eq_true] at hgs
    simp only [choiceTuple]
    have h := hR m g st hgs.1
    generalize R env m g st = o at h ⊢
    cases o with
    | ok v st' => exact h0.trans h
    | fail st' =>
      have hF : AltRelF env.ek st0 (st'.rewind c) := (h0.transF h).right rfl rfl
      exact ih st0 _ hgs.2 hF.toRel (Or.inr hF)
    | _ => trivial

theorem choiceSlice_AR {env : Env} {R : Runner} (hR : ARR env R) (m : Mode) (c : Chk) :
    ∀ (gs : List G) (st0 st : St), c06L gs = true → AltRel env.ek st0 st →
      (gs ≠ [] ∨ AltRelF env.ek st0 st) → (choiceSlice R env m c gs st).AR env.ek st0 := by
  intro gs
  induction gs with
  | nil =>
    intro st0 st _ h0 hne
    rcases hne with hne | hF
    · exact absurd rfl hne
    · exact hF
  | cons g gs ih =>
    intro st0 st hgs h0 _
    simp only [c06L, Bool.and_eq_true] at hgs
    simp only [choiceSlice]
    have h := hR m g (st.rewind c) hgs.1
    have h0' : AltRel env.ek st0 (st.rewind c) := h0.right rfl rfl
    generalize R env m g (st.rewind c) = o at h ⊢
    cases o with
    | ok v st' => exact h0'.trans h
    | fail st' =>
      have hF : AltRelF env.ek st0 st' := h0'.transF h
      exact ih st0 _ hgs.2 hF.toRel (Or.inr hF)
    | _ => trivial

theorem groupLoop_AR {env : Env} {R : Runner} (hR : ARR env R) (m : Mode) :
    ∀ (gs : List G) (st : St) (acc : List Val), c06L gs = true → (groupLoop R env m gs st acc).AR env.ek st := by
  intro gs
  induction gs with
  | nil => intro st acc _; exact AltRel.refl _ _
  | cons g gs ih =>
    intro st acc hgs
    simp only [c06L, Bool.and_eq_true] at hgs
    simp only [groupLoop]
    have h := hR m g st hgs.1
    generalize R env m g st = o at h ⊢
    cases o with
    | ok v st' => exact Out.AR.trans h (ih st' _ hgs.2)
    | fail st' => exact h
    | _ => trivial

/-! ### iteration consumers -/

theorem collectLoop_AR {env : Env} {N : NextRunner} (hN : ARN env N) (m : Mode) (it : It) (hit : it.c06 = true)
    (k : CollKind) : ∀ (fuel : Nat) (st : St) (ist : ItSt) (acc : List Val) (i : Nat),
    (collectLoop N env m it k fuel st ist acc i).AR env.ek st := by
  intro fuel
  induction fuel with
  | zero => intro st ist acc i; trivial
  | succ fuel ih =>
    intro st ist acc i
    simp only [collectLoop]
    have h := hN m it st ist hit
    generalize N env m it st ist = o at h ⊢
    cases o with
    | some v st' ist' =>
      simp only []
      split
      · trivial
      · exact Out.AR.trans h (ih _ _ _ _)
    | done st' _ => exact h
    | fail st' => exact h
    | _ => trivial

theorem collectExactlyLoop_AR {env : Env} (hek : env.ek ≠ .empty) {N : NextRunner} (hN : ARN env N) (m : Mode)
    (it : It) (hit : it.c06 = true) : ∀ (n : Nat) (st : St) (ist : ItSt) (acc : List Val),
    (collectExactlyLoop N env m it n st ist acc).AR env.ek st := by
  intro n
  induction n with
  | zero => intro st ist acc; exact AltRel.refl _ _
  | succ n ih =>
    intro st ist acc
    simp only [collectExactlyLoop]
    have h := hN m it st ist hit
    generalize N env m it st ist = o at h ⊢
    cases o with
    | some v st' ist' => exact Out.AR.trans h (ih _ _ _)
    | done st' _ => exact AltRel.transF h (addAlt_F hek _ _ _ _)
    | fail st' => exact h
    | _ => trivial

theorem foldlLoop_AR {env : Env} {N : NextRunner} (hN : ARN env N) (m : Mode) (it : It) (hit : it.c06 = true)
    (f : Val → Val → St → Val) : ∀ (fuel : Nat) (st : St) (ist : ItSt) (acc : Val),
    (foldlLoop N env m it f fuel st ist acc).AR env.ek st := by
  intro fuel
  induction fuel with
  | zero => intro st ist acc; trivial
  | succ fuel ih =>
    intro st ist acc
    simp only [foldlLoop]
    have h := hN m it st ist hit
    generalize N env m it st ist = o at h ⊢
    cases o with
    | some v st' ist' =>
      simp only []
      split
      · trivial
      · exact Out.AR.trans h (ih _ _ _)
    | done st' _ => exact h
    | fail st' => exact h
    | _ => trivial

/-- result predicate of the collecting phase of `foldr` -/
def FcAR (ek : ErrKind) (st : St) : (Option (List (Val × Nat) × St)) ⊕ Out → Prop
  | .inl (some (_, st2)) => AltRel ek st st2
  | .inl none => True
  | .inr o => o.AR ek st

theorem FcAR.trans {ek : ErrKind} {st0 st : St} {r} (h0 : AltRel ek st0 st) (h : FcAR ek st r) : FcAR ek st0 r := by
  cases r with
  | inl x =>
    cases x with
    | none => trivial
    | some p => exact AltRel.trans h0 h
  | inr o => exact Out.AR.trans h0 h

theorem foldrCollect_AR {env : Env} {N : NextRunner} (hN : ARN env N) (m : Mode) (it : It) (hit : it.c06 = true) :
    ∀ (fuel : Nat) (st : St) (ist : ItSt) (acc : List (Val × Nat)),
    FcAR env.ek st (foldrCollect N env m it fuel st ist acc) := by
  intro fuel
  induction fuel with
  | zero => intro st ist acc; trivial
  | succ fuel ih =>
    intro st ist acc
    simp only [foldrCollect]
    have h := hN m it st ist hit
    generalize N env m it st ist = o at h ⊢
    cases o with
    | some v st' ist' =>
      simp only []
      split
      · trivial
      · exact FcAR.trans h (ih _ _ _)
    | done st' _ => exact h
    | fail st' => exact h
    | _ => trivial

theorem repeatFast_AR {env : Env} {R : Runner} (hR : ARR env R) (a : G) (ha : a.c06 = true) :
    ∀ (fuel : Nat) (st : St), (repeatFast R env a fuel st).AR env.ek st := by
  intro fuel
  induction fuel with
  | zero => intro st; trivial
  | succ fuel ih =>
    intro st
    simp only [repeatFast]
    have h := hR .check a st ha
    generalize R env .check a st = o at h ⊢
    cases o with
    | ok v st' =>
      simp only []
      split
      · trivial
      · exact Out.AR.trans h (ih _)
    | fail st' => exact AltRel.right (AltRelF.toRel h) rfl rfl
    | _ => trivial

theorem iterLoop_AR {env : Env} {N : NextRunner} (hN : ARN env N) (it : It) (hit : it.c06 = true) (ap : Bool) :
    ∀ (fuel : Nat) (st : St) (ist : ItSt), (iterLoop N env it ap fuel st ist).AR env.ek st := by
  intro fuel
  induction fuel with
  | zero => intro st ist; trivial
  | succ fuel ih =>
    intro st ist
    simp only [iterLoop]
    have h := hN .check it st ist hit
    generalize N env .check it st ist = o at h ⊢
    cases o with
    | some v st' ist' =>
      simp only []
      split
      · trivial
      · exact Out.AR.trans h (ih _ _)
    | done st' _ => exact h
    | fail st' => exact h
    | _ => trivial

/-! ### `step` -/

theorem step_AR {env : Env} (hek : env.ek ≠ .empty) (hdefs : ∀ d ∈ env.defs, d.c06 = true) {R : Runner}
    {N : NextRunner} {K : MkRunner} (hR : ARR env R) (hN : ARN env N) (hK : ARK env K) (L : Nat) :
    ARR env (step R N K L) := by
  intro m g st hg
  cases g with
  | end_ =>
    simp only [step]
    cases (St.next env st).fst with
    | none => exact AltRel.of_eq (by simp) (by simp)
    | some t => exact addAlt_F' hek _ _ _ (by simp) (by simp)
  | empty => exact AltRel.refl _ _
  | any => exact tokenPrim_AR hek _ _ _ _
  | just ts =>
    simp only [step]
    have h := justRun_AR hek ts st
    generalize justRun env ts st = o at h ⊢
    cases o with
    | inr st' => exact h
    | inl st' => exact h
  | oneOf ts => exact tokenPrim_AR hek _ _ _ _
  | noneOf ts => exact tokenPrim_AR hek _ _ _ _
  | select ts => exact tokenPrim_AR hek _ _ _ _
  | custom f => exact runCustom_AR hek _ _ _
  | todo => trivial
  | then_ a b =>
    simp only [G.c06, Bool.and_eq_true] at hg
    simp only [step]
    exact (hR m a st hg.1).andThen fun va st1 => (hR m b st1 hg.2).andThen fun vb st2 => AltRel.refl _ _
  | ignoreThen a b =>
    simp only [G.c06, Bool.and_eq_true] at hg
    simp only [step]
    exact (hR .check a st hg.1).andThen fun va st1 => (hR m b st1 hg.2).andThen fun vb st2 => AltRel.refl _ _
  | thenIgnore a b =>
    simp only [G.c06, Bool.and_eq_true] at hg
    simp only [step]
    exact (hR m a st hg.1).andThen fun va st1 => (hR .check b st1 hg.2).andThen fun vb st2 => AltRel.refl _ _
  | delimitedBy a l r =>
    simp only [G.c06, Bool.and_eq_true] at hg
    simp only [step]
    exact (hR .check l st hg.2.1).andThen fun _ st1 => (hR m a st1 hg.1).andThen fun va st2 =>
      (hR .check r st2 hg.2.2).andThen fun _ st3 => AltRel.refl _ _
  | paddedBy a p =>
    simp only [G.c06, Bool.and_eq_true] at hg
    simp only [step]
    exact (hR .check p st hg.2).andThen fun _ st1 => (hR m a st1 hg.1).andThen fun va st2 =>
      (hR .check p st2 hg.2).andThen fun _ st3 => AltRel.refl _ _
  | group gs =>
    simp only [G.c06] at hg
    exact groupLoop_AR hR m gs st [] hg
  | groupArr gs =>
    simp only [G.c06] at hg
    exact groupLoop_AR hR m gs st [] hg
  | or_ a b =>
    simp only [G.c06, Bool.and_eq_true] at hg
    exact choiceTuple_AR hR m _ [a, b] st st (by simp [c06L, hg]) (AltRel.refl _ _) (Or.inl (by simp))
  | choice fl gs =>
    simp only [G.c06] at hg
    cases fl with
    | tuple =>
      cases gs with
      | nil => trivial
      | cons g gs =>
        cases gs with
        | nil =>
          simp only [c06L, Bool.and_eq_true] at hg
          exact hR m g st hg.1
        | cons g2 gs => exact choiceTuple_AR hR m _ _ st st hg (AltRel.refl _ _) (Or.inl (by simp))
    | slice =>
      cases gs with
      | nil => exact addAlt_F hek _ _ _ _
      | cons g gs => exact choiceSlice_AR hR m _ _ st st hg (AltRel.refl _ _) (Or.inl (by simp))
  | orNot a =>
    simp only [G.c06] at hg
    simp only [step]
    have h := hR m a st hg
    generalize R env m a st = o at h ⊢
    cases o with
    | ok v st' => exact h
    | fail st' => exact AltRel.right (AltRelF.toRel h) rfl rfl
    | _ => trivial
  | not_ a => simp [G.c06] at hg
  | andIs a b =>
    simp only [G.c06, Bool.and_eq_true] at hg
    simp only [step]
    have h := hR m a st hg.1
    generalize R env m a st = o at h ⊢
    cases o with
    | fail st1 => exact AltRelF.right h rfl rfl
    | ok v st1 =>
      simp only []
      have h' : AltRel env.ek st (st1.rewindInput st.save) := AltRel.right h rfl rfl
      have h2 := hR .check b (st1.rewindInput st.save) hg.2
      generalize R env .check b (st1.rewindInput st.save) = o2 at h2 ⊢
      cases o2 with
      | ok _ st2 => exact AltRel.right (h'.trans h2) rfl rfl
      | fail st2 => exact h'.transF h2
      | _ => trivial
    | _ => trivial
  | rewind a =>
    simp only [G.c06] at hg
    simp only [step]
    have h := hR m a st hg
    generalize R env m a st = o at h ⊢
    cases o with
    | ok v st1 => exact AltRel.right h rfl rfl
    | fail st1 => exact h
    | _ => trivial
  | map f a =>
    simp only [G.c06] at hg
    simp only [step]
    exact (hR m a st hg).andThen fun v st1 => AltRel.refl _ _
  | to v a =>
    simp only [G.c06] at hg
    simp only [step]
    exact (hR .check a st hg).andThen fun v st1 => AltRel.refl _ _
  | ignored a =>
    simp only [G.c06] at hg
    simp only [step]
    exact (hR .check a st hg).andThen fun v st1 => AltRel.refl _ _
  | filter p a =>
    simp only [G.c06] at hg
    simp only [step]
    refine (hR .emit a st hg).andThen fun v st1 => ?_
    split
    · exact AltRel.refl _ _
    · exact addAlt_F' hek _ _ _ rfl rfl
  | tryMap f a =>
    simp only [G.c06] at hg
    simp only [step]
    have h := hR .emit a { st with alt := none } hg
    generalize R env .emit a { st with alt := none } = o at h ⊢
    cases o with
    | fail st1 => exact shelter_relF hek h
    | ok v st1 =>
      simp only []
      split
      · exact addAltErr_F' hek _ _ rfl rfl
      · exact shelter_rel hek h
    | _ => trivial
  | tryMapWith f a =>
    simp only [G.c06] at hg
    simp only [step]
    refine (hR .emit a st hg).andThen fun v st1 => ?_
    split
    · exact addAltErr_F hek _ _ _
    · exact AltRel.refl _ _
  | toSpan a =>
    simp only [G.c06] at hg
    simp only [step]
    exact (hR m a st hg).andThen fun v st1 => AltRel.refl _ _
  | toSlice a =>
    simp only [G.c06] at hg
    simp only [step]
    exact (hR .check a st hg).andThen fun v st1 => AltRel.refl _ _
  | mapWithSpan a =>
    simp only [G.c06] at hg
    simp only [step]
    exact (hR m a st hg).andThen fun v st1 => AltRel.refl _ _
  | mapWithState a =>
    simp only [G.c06] at hg
    simp only [step]
    exact (hR m a st hg).andThen fun v st1 => AltRel.refl _ _
  | mapWithCtx a =>
    simp only [G.c06] at hg
    simp only [step]
    exact (hR m a st hg).andThen fun v st1 => AltRel.refl _ _
  | validate f a =>
    simp only [G.c06] at hg
    simp only [step]
    refine (hR .emit a st hg).andThen fun v st1 => ?_
    exact AltRel.of_eq (by split <;> rfl) (by split <;> rfl)
  | collect k it =>
    simp only [G.c06] at hg
    simp only [step]
    have h := hK m it st hg
    generalize K env m it st = o at h ⊢
    cases o with
    | ok ist st1 => exact Out.AR.trans h (collectLoop_AR hN m it hg k L st1 ist [] 0)
    | fail st1 => exact h
    | _ => trivial
  | collectExactly n it =>
    simp only [G.c06] at hg
    simp only [step]
    have h := hK m it st hg
    generalize K env m it st = o at h ⊢
    cases o with
    | ok ist st1 => exact Out.AR.trans h (collectExactlyLoop_AR hek hN m it hg n st1 ist [])
    | fail st1 => exact h
    | _ => trivial
  | foldl f a it =>
    simp only [G.c06, Bool.and_eq_true] at hg
    simp only [step]
    refine (hR m a st hg.1).andThen fun va st1 => ?_
    have h := hK m it st1 hg.2
    generalize K env m it st1 = o at h ⊢
    cases o with
    | ok ist st2 => exact Out.AR.trans h (foldlLoop_AR hN m it hg.2 _ L st2 ist va)
    | fail st2 => exact h
    | _ => trivial
  | foldlWith a it =>
    simp only [G.c06, Bool.and_eq_true] at hg
    simp only [step]
    refine (hR m a st hg.1).andThen fun va st1 => ?_
    have h := hK m it st1 hg.2
    generalize K env m it st1 = o at h ⊢
    cases o with
    | ok ist st2 => exact Out.AR.trans h (foldlLoop_AR hN m it hg.2 _ L st2 ist va)
    | fail st2 => exact h
    | _ => trivial
  | foldr f it b =>
    simp only [G.c06, Bool.and_eq_true] at hg
    simp only [step]
    have h := hK m it st hg.1
    generalize K env m it st = o at h ⊢
    cases o with
    | ok ist st1 =>
      simp only []
      have h2 := foldrCollect_AR hN m it hg.1 L st1 ist []
      generalize foldrCollect N env m it L st1 ist [] = r at h2 ⊢
      cases r with
      | inr o => exact Out.AR.trans h h2
      | inl x =>
        cases x with
        | none => trivial
        | some p =>
          obtain ⟨items, st2⟩ := p
          exact Out.AR.trans (AltRel.trans h h2) ((hR m b st2 hg.2).andThen fun vb st3 => AltRel.refl _ _)
    | fail st1 => exact h
    | _ => trivial
  | foldrWith it b =>
    simp only [G.c06, Bool.and_eq_true] at hg
    simp only [step]
    have h := hK m it st hg.1
    generalize K env m it st = o at h ⊢
    cases o with
    | ok ist st1 =>
      simp only []
      have h2 := foldrCollect_AR hN m it hg.1 L st1 ist []
      generalize foldrCollect N env m it L st1 ist [] = r at h2 ⊢
      cases r with
      | inr o => exact Out.AR.trans h h2
      | inl x =>
        cases x with
        | none => trivial
        | some p =>
          obtain ⟨items, st2⟩ := p
          exact Out.AR.trans (AltRel.trans h h2) ((hR m b st2 hg.2).andThen fun vb st3 => AltRel.refl _ _)
    | fail st1 => exact h
    | _ => trivial
  | iterP it =>
    simp only [G.c06] at hg
    simp only [step]
    have loop : ∀ ap, (match K env .check it st with
        | .ok ist st1 => iterLoop N env it ap L st1 ist
        | .fail st1 => .fail st1
        | .panic w => .panic w
        | .oof => .oof).AR env.ek st := by
      intro ap
      have h := hK .check it st hg
      generalize K env .check it st = o at h ⊢
      cases o with
      | ok ist st1 => exact Out.AR.trans h (iterLoop_AR hN it hg ap L st1 ist)
      | fail st1 => exact h
      | _ => trivial
    cases it with
    | repeated a lo hi =>
      cases lo with
      | zero =>
        cases hi with
        | none =>
          simp only [It.c06] at hg
          exact repeatFast_AR hR a hg L st
        | some h => exact loop true
      | succ lo => exact loop true
    | separatedBy a sep lo hi lead trail => exact loop true
    | configureRep c inner => exact loop false
    | tryConfigureRep c inner => exact loop false
    | intoIter a =>
      simp only [It.c06] at hg
      exact (hR .check a st hg).andThen fun v st1 => AltRel.refl _ _
    | _ => trivial
  | recoverVia a r => simp [G.c06] at hg
  | recoverSkipUntil a skip until_ fb => simp [G.c06] at hg
  | recoverSkipRetry a skip until_ => simp [G.c06] at hg
  | labelled l asCtx a => simp [G.c06] at hg
  | mapErr k a => simp [G.c06] at hg
  | withCtx cv a =>
    simp only [G.c06] at hg
    simp only [step]
    exact Out.AR.left ((hR m a { st with ctx := cv } hg).restoreCtx _) rfl rfl
  | ignoreWithCtx a b =>
    simp only [G.c06, Bool.and_eq_true] at hg
    simp only [step]
    exact (hR .emit a st hg.1).andThen fun va st1 =>
      Out.AR.left ((hR m b { st1 with ctx := va } hg.2).restoreCtx _) rfl rfl
  | thenWithCtx a b =>
    simp only [G.c06, Bool.and_eq_true] at hg
    simp only [step]
    refine (hR .emit a st hg.1).andThen fun va st1 => ?_
    refine Out.AR.andThen (Out.AR.left ((hR m b { st1 with ctx := va } hg.2).restoreCtx _) rfl rfl) fun vb st2 => ?_
    exact AltRel.refl _ _
  | mapCtx f a =>
    simp only [G.c06] at hg
    simp only [step]
    exact Out.AR.left ((hR m a { st with ctx := f.eval st.ctx } hg).restoreCtx _) rfl rfl
  | configureJust c ts =>
    simp only [step]
    have key : ∀ seq, (match justRun env seq st with
        | .inr st' => Out.ok (m.bind (.toks seq)) st'
        | .inl st' => .fail st').AR env.ek st := by
      intro seq
      have h := justRun_AR hek seq st
      generalize justRun env seq st = o at h ⊢
      cases o with
      | inr st' => exact h
      | inl st' => exact h
    exact key _
  | withState a =>
    simp only [G.c06] at hg
    simp only [step]
    exact Out.AR.left ((hR m a { st with insp := [] } hg).restoreInsp _) rfl rfl
  | memoized id a => simp [G.c06] at hg
  | call k =>
    simp only [step]
    cases hd : env.defs[k]? with
    | none => trivial
    | some d => exact hR m d st (hdefs d (List.mem_of_getElem? hd))
  | boxed a =>
    simp only [G.c06] at hg
    exact hR m a st hg

/-! ### `stepNext`, `stepMk` -/

theorem repeatedNext_AR {env : Env} {R : Runner} (hR : ARR env R) (m : Mode) (a : G) (ha : a.c06 = true)
    (lo : Nat) (hi : Option Nat) (st : St) (n : Nat) (wrap : ItSt → ItSt) :
    (repeatedNext R env m a lo hi st n wrap).AR env.ek st := by
  simp only [repeatedNext]
  split
  · exact AltRel.refl _ _
  · have h := hR m a st ha
    generalize R env m a st = o at h ⊢
    cases o with
    | ok v st1 => exact h
    | fail st1 =>
      simp only []
      split
      · exact AltRel.right (AltRelF.toRel h) rfl rfl
      · exact AltRelF.right h rfl rfl
    | _ => trivial

/-- the `item` part of `SeparatedBy::next`, started after `h0` -/
theorem sepItem_AR {env : Env} {R : Runner} (hR : ARR env R) (m : Mode) (a : G) (ha : a.c06 = true)
    (lo n : Nat) (trail : Bool) (bs bi : Chk) {st st0 : St} (h0 : AltRel env.ek st st0) :
    (match R env m a st0 with
      | .ok v st1 => ItOut.some v st1 (.cnt (n + 1))
      | .fail st1 =>
        if n < lo then .fail (st1.rewind bs)
        else if trail then .done (st1.rewind bi) (.cnt n)
        else .done (st1.rewind bs) (.cnt n)
      | .panic w => .panic w
      | .oof => .oof).AR env.ek st := by
  have h := hR m a st0 ha
  generalize R env m a st0 = o at h ⊢
  cases o with
  | ok v st1 => exact h0.trans h
  | fail st1 =>
    have hF := h0.transF h
    simp only []
    split
    · exact AltRelF.right hF rfl rfl
    · split
      · exact AltRel.right hF.toRel rfl rfl
      · exact AltRel.right hF.toRel rfl rfl
  | _ => trivial

theorem separatedNext_AR {env : Env} {R : Runner} (hR : ARR env R) (m : Mode) (a sep : G) (ha : a.c06 = true)
    (hs : sep.c06 = true) (lo : Nat) (hi : Option Nat) (lead trail : Bool) (st : St) (n : Nat) :
    (separatedNext R env m a sep lo hi lead trail st n).AR env.ek st := by
  simp only [separatedNext]
  split
  · exact AltRel.refl _ _
  · split
    · have h := hR .check sep st hs
      generalize R env .check sep st = o at h ⊢
      cases o with
      | ok v st1 => exact sepItem_AR hR m a ha lo n trail _ _ h
      | fail st1 => exact sepItem_AR hR m a ha lo n trail _ _ (AltRel.right (AltRelF.toRel h) rfl rfl)
      | _ => trivial
    · split
      · have h := hR .check sep st hs
        generalize R env .check sep st = o at h ⊢
        cases o with
        | ok v st1 => exact sepItem_AR hR m a ha lo n trail _ _ h
        | fail st1 =>
          simp only []
          split
          · exact AltRelF.right h rfl rfl
          · exact AltRel.right (AltRelF.toRel h) rfl rfl
        | _ => trivial
      · exact sepItem_AR hR m a ha lo n trail _ _ (AltRel.refl _ _)

theorem stepNext_AR {env : Env} {R : Runner} {N : NextRunner} {K : MkRunner} (hR : ARR env R) (hN : ARN env N)
    (hK : ARK env K) : ARN env (stepNext R N K) := by
  intro m it st ist hit
  cases it with
  | repeated a lo hi =>
    simp only [It.c06] at hit
    cases ist with
    | cnt n => exact repeatedNext_AR hR m a hit lo hi st n id
    | _ => trivial
  | separatedBy a sep lo hi lead trail =>
    simp only [It.c06, Bool.and_eq_true] at hit
    cases ist with
    | cnt n => exact separatedNext_AR hR m a sep hit.1 hit.2 lo hi lead trail st n
    | _ => trivial
  | enumerate inner =>
    simp only [It.c06] at hit
    cases ist with
    | enum k s =>
      simp only [stepNext]
      have h := hN m inner st s hit
      generalize N env m inner st s = o at h ⊢
      cases o with
      | some v st1 s1 => exact h
      | done st1 s1 => exact h
      | fail st1 => exact h
      | _ => trivial
    | _ => trivial
  | orNotIt a =>
    simp only [It.c06] at hit
    cases ist with
    | fin b =>
      simp only [stepNext]
      split
      · exact AltRel.refl _ _
      · have h := hR m a st hit
        generalize R env m a st = o at h ⊢
        cases o with
        | ok v st1 => exact h
        | fail st1 => exact AltRel.right (AltRelF.toRel h) rfl rfl
        | _ => trivial
    | _ => trivial
  | intoIter a =>
    cases ist with
    | into vs =>
      cases vs with
      | nil => exact AltRel.refl _ _
      | cons v rest => exact AltRel.refl _ _
    | _ => trivial
  | thenIt a b =>
    simp only [It.c06, Bool.and_eq_true] at hit
    cases ist with
    | thn sa sb? =>
      cases sb? with
      | some sb =>
        simp only [stepNext]
        have h := hN m b st sb hit.2
        generalize N env m b st sb = o at h ⊢
        cases o with
        | some v st1 s1 => exact h
        | done st1 s1 => exact h
        | fail st1 => exact h
        | _ => trivial
      | none =>
        simp only [stepNext]
        have h := hN m a st sa hit.1
        generalize N env m a st sa = o at h ⊢
        cases o with
        | some v st1 s1 => exact h
        | fail st1 => exact h
        | done st1 sa1 =>
          simp only []
          have h2 := hK m b st1 hit.2
          generalize K env m b st1 = o2 at h2 ⊢
          cases o2 with
          | fail st2 => exact AltRel.transF h h2
          | ok sb st2 =>
            simp only []
            have h12 : AltRel env.ek st st2 := AltRel.trans h h2
            have h3 := hN m b st2 sb hit.2
            generalize N env m b st2 sb = o3 at h3 ⊢
            cases o3 with
            | some v st3 sb1 => exact h12.trans h3
            | done st3 sb1 => exact h12.trans h3
            | fail st3 => exact h12.transF h3
            | _ => trivial
          | _ => trivial
        | _ => trivial
    | _ => trivial
  | mapIt f inner =>
    simp only [It.c06] at hit
    simp only [stepNext]
    have h := hN m inner st ist hit
    generalize N env m inner st ist = o at h ⊢
    cases o with
    | some v st1 s1 => exact h
    | done st1 s1 => exact h
    | fail st1 => exact h
    | _ => trivial
  | configureRep c inner =>
    cases inner with
    | repeated a lo hi =>
      simp only [It.c06] at hit
      cases ist with
      | cfg s clo chi =>
        cases s with
        | cnt n =>
          simp only [stepNext]
          exact repeatedNext_AR hR m a hit _ _ st n _
        | _ => trivial
      | _ => trivial
    | _ => cases ist <;> trivial
  | tryConfigureRep c inner =>
    cases inner with
    | repeated a lo hi =>
      simp only [It.c06] at hit
      cases ist with
      | cfg s clo chi =>
        cases s with
        | cnt n =>
          simp only [stepNext]
          exact repeatedNext_AR hR m a hit _ _ st n _
        | _ => trivial
      | _ => trivial
    | _ => cases ist <;> trivial

theorem stepMk_AR {env : Env} (hek : env.ek ≠ .empty) {R : Runner} {K : MkRunner} (hR : ARR env R)
    (hK : ARK env K) : ARK env (stepMk R K) := by
  intro m it st hit
  cases it with
  | repeated a lo hi => exact AltRel.refl _ _
  | separatedBy a sep lo hi lead trail => exact AltRel.refl _ _
  | enumerate inner =>
    simp only [It.c06] at hit
    simp only [stepMk]
    have h := hK m inner st hit
    generalize K env m inner st = o at h ⊢
    cases o with
    | ok s st1 => exact h
    | fail st1 => exact h
    | _ => trivial
  | orNotIt a => exact AltRel.refl _ _
  | intoIter a =>
    simp only [It.c06] at hit
    simp only [stepMk]
    have h := hR .emit a st hit
    generalize R env .emit a st = o at h ⊢
    cases o with
    | ok v st1 => exact h
    | fail st1 => exact h
    | _ => trivial
  | thenIt a b =>
    simp only [It.c06, Bool.and_eq_true] at hit
    simp only [stepMk]
    have h := hK m a st hit.1
    generalize K env m a st = o at h ⊢
    cases o with
    | ok s st1 => exact h
    | fail st1 => exact h
    | _ => trivial
  | mapIt f inner =>
    simp only [It.c06] at hit
    exact hK m inner st hit
  | configureRep c inner =>
    simp only [It.c06] at hit
    simp only [stepMk]
    have h := hK m inner st hit
    generalize K env m inner st = o at h ⊢
    cases o with
    | ok s st1 => exact h
    | fail st1 => exact h
    | _ => trivial
  | tryConfigureRep c inner =>
    simp only [It.c06] at hit
    simp only [stepMk]
    cases st.ctx.asNat? with
    | none => exact addAltErr_F hek _ _ _
    | some n =>
      simp only []
      have h := hK m inner st hit
      generalize K env m inner st = o at h ⊢
      cases o with
      | ok s st1 => exact h
      | fail st1 => exact h
      | _ => trivial

/-! ### closing the recursion -/

theorem run_AR_all (env : Env) (hek : env.ek ≠ .empty) (hdefs : ∀ d ∈ env.defs, d.c06 = true) (n : Nat) :
    ARR env (run n) ∧ ARN env (next n) ∧ ARK env (mkIter n) := by
  induction n with
  | zero => exact ⟨fun _ _ _ _ => trivial, fun _ _ _ _ _ => trivial, fun _ _ _ _ => trivial⟩
  | succ n ih =>
    exact ⟨step_AR hek hdefs ih.1 ih.2.1 ih.2.2 n, stepNext_AR ih.1 ih.2.1 ih.2.2, stepMk_AR hek ih.1 ih.2.2⟩

/-- the invariant, with the strict form on failure -/
theorem run_AR (n : Nat) (env : Env) (hek : env.ek ≠ .empty) (hdefs : ∀ d ∈ env.defs, d.c06 = true)
    (m : Mode) (g : G) (hg : g.c06 = true) (st : St) : (run n env m g st).AR env.ek st :=
  (run_AR_all env hek hdefs n).1 m g st hg

/-- **the pending-error invariant**: after a run of a `c06` grammar, successful or not, the pending error is
    (≈) the pending error before the run merged with the failure events logged during the run -/
theorem run_altRel (n : Nat) (env : Env) (hek : env.ek ≠ .empty) (hdefs : ∀ d ∈ env.defs, d.c06 = true)
    (m : Mode) (g : G) (hg : g.c06 = true) (st : St) :
    match run n env m g st with
    | .ok _ st' => AltRel env.ek st st'
    | .fail st' => AltRel env.ek st st'
    | _ => True := by
  have h := run_AR n env hek hdefs m g hg st
  generalize run n env m g st = o at h ⊢
  cases o with
  | ok v st' => exact h
  | fail st' => exact AltRelF.toRel h
  | _ => trivial

/-- a failing run logs at least one failure event -/
theorem run_fail_altRelF (n : Nat) (env : Env) (hek : env.ek ≠ .empty) (hdefs : ∀ d ∈ env.defs, d.c06 = true)
    (m : Mode) (g : G) (hg : g.c06 = true) (st st' : St) (h : run n env m g st = .fail st') :
    AltRelF env.ek st st' := by
  have := run_AR n env hek hdefs m g hg st
  rw [h] at this
  exact this

theorem next_altRel (n : Nat) (env : Env) (hek : env.ek ≠ .empty) (hdefs : ∀ d ∈ env.defs, d.c06 = true)
    (m : Mode) (it : It) (hit : it.c06 = true) (st : St) (ist : ItSt) :
    match next n env m it st ist with
    | .some _ st' _ => AltRel env.ek st st'
    | .done st' _ => AltRel env.ek st st'
    | .fail st' => AltRel env.ek st st'
    | _ => True := by
  have h := (run_AR_all env hek hdefs n).2.1 m it st ist hit
  generalize next n env m it st ist = o at h ⊢
  cases o with
  | some v st' i => exact h
  | done st' i => exact h
  | fail st' => exact AltRelF.toRel h
  | _ => trivial

theorem mkIter_altRel (n : Nat) (env : Env) (hek : env.ek ≠ .empty) (hdefs : ∀ d ∈ env.defs, d.c06 = true)
    (m : Mode) (it : It) (hit : it.c06 = true) (st : St) :
    match mkIter n env m it st with
    | .ok _ st' => AltRel env.ek st st'
    | .fail st' => AltRel env.ek st st'
    | _ => True := by
  have h := (run_AR_all env hek hdefs n).2.2 m it st hit
  generalize mkIter n env m it st = o at h ⊢
  cases o with
  | ok i st' => exact h
  | fail st' => exact AltRelF.toRel h
  | _ => trivial

/-! ### top level -/

/-- a failing run from a state without pending error ends with a pending error: the summary of its log suffix -/
theorem AltRelF.init {ek : ErrKind} {f : St} (h : AltRelF ek St.init f) :
    ∃ l l', f.alt = some l ∧ summ ek f.log = some l' ∧ l.equiv l' := by
  obtain ⟨evs, hne, hl, he⟩ := h.log
  have hlog : f.log = evs := by rw [hl]; rfl
  have hs : (summ ek evs).isSome := foldAlt_isSome (Or.inl hne)
  obtain ⟨l', hl'⟩ := Option.isSome_iff_exists.mp hs
  have he' : OptLoc.equiv f.alt (some l') := by
    have : foldAlt ek St.init.alt evs = summ ek evs := rfl
    rw [this, hl'] at he
    exact he
  cases hf : f.alt with
  | none => rw [hf] at he'; exact he'.elim
  | some l =>
    rw [hf] at he'
    exact ⟨l, l', rfl, by rw [hlog]; exact hl', he'⟩

/-- the shape of a failed top-level parse -/
theorem parseTop_fail_run {n : Nat} {env : Env} {m : Mode} {g : G} {r : ParseResult} {f : St}
    (h : parseTop n env m g = .result r f) (ho : r.output = none) :
    run n env m (.thenIgnore g .end_) St.init = .fail f ∧
      r.errs = f.errs.map (·.err) ++ [match f.alt with
        | some a => a.err
        | none => env.ek.expectedFound [] none (env.mkSpan f.pos f.pos)] := by
  simp only [parseTop] at h
  generalize run n env m (.thenIgnore g .end_) St.init = o at h ⊢
  cases o with
  | ok v st =>
    simp only [TopOut.result.injEq] at h
    obtain ⟨h1, h2⟩ := h
    subst h1
    simp at ho
  | fail st =>
    simp only [TopOut.result.injEq] at h
    obtain ⟨h1, h2⟩ := h
    subst h1 h2
    exact ⟨rfl, rfl⟩
  | panic w => cases h
  | oof => cases h

/-- **C06, core**: when the parse fails, the last reported error is the pending error `l` of the final state,
    and `l` is (≈) the summary of ALL failure events of the parse -/
theorem parseTop_primary_error (n : Nat) (env : Env) (hek : env.ek ≠ .empty)
    (hdefs : ∀ d ∈ env.defs, d.c06 = true) (m : Mode) (g : G) (hg : g.c06 = true) (r : ParseResult) (f : St)
    (h : parseTop n env m g = .result r f) (ho : r.output = none) :
    ∃ l l', f.alt = some l ∧ summ env.ek f.log = some l' ∧ l.equiv l' ∧
      r.errs = f.errs.map (·.err) ++ [l.err] := by
  obtain ⟨hrun, herrs⟩ := parseTop_fail_run h ho
  have hg' : (G.thenIgnore g .end_).c06 = true := by simp [G.c06, hg]
  have hF := run_fail_altRelF n env hek hdefs m _ hg' _ _ hrun
  obtain ⟨l, l', hl, hs, he⟩ := hF.init
  refine ⟨l, l', hl, hs, he, ?_⟩
  rw [herrs, hl]

/-- **C06, position**: the reported error lies exactly at the furthest position at which anything failed -/
theorem c06_furthest (n : Nat) (env : Env) (hek : env.ek ≠ .empty)
    (hdefs : ∀ d ∈ env.defs, d.c06 = true) (m : Mode) (g : G) (hg : g.c06 = true) (r : ParseResult) (f : St)
    (h : parseTop n env m g = .result r f) (ho : r.output = none) :
    ∃ l, f.alt = some l ∧ r.errs = f.errs.map (·.err) ++ [l.err] ∧
      (∀ ev ∈ f.log, ev.pos ≤ l.pos) ∧ (∃ ev ∈ f.log, ev.pos = l.pos) := by
  obtain ⟨l, l', hl, hs, he, hr⟩ := parseTop_primary_error n env hek hdefs m g hg r f h ho
  refine ⟨l, hl, hr, ?_, ?_⟩
  · intro ev hev
    rw [he.1]
    exact (foldAlt_pos_ge hs).1 ev hev
  · rcases foldAlt_pos_mem hs with ⟨ev, hev, hp⟩ | ⟨a, ha, _⟩
    · exact ⟨ev, hev, by rw [he.1]; exact hp⟩
    · cases ha

/-- `Rich`, no custom error at the furthest position: the expected set is the union of the expected sets of all
    failures at that position -/
theorem c06_expected_union (n : Nat) (env : Env) (hek : env.ek = .rich)
    (hdefs : ∀ d ∈ env.defs, d.c06 = true) (m : Mode) (g : G) (hg : g.c06 = true) (r : ParseResult) (f : St)
    (h : parseTop n env m g = .result r f) (ho : r.output = none) :
    ∃ l, f.alt = some l ∧ r.errs = f.errs.map (·.err) ++ [l.err] ∧
      ((∀ ev ∈ f.log, ev.pos = l.pos → ∀ msg, ev.err.reason ≠ .custom msg) →
        ∃ exp fo, l.err.reason = .ef exp fo ∧
          ∀ x, x ∈ exp ↔ ∃ ev ∈ f.log, ev.pos = l.pos ∧ ∃ ex fo', ev.err.reason = .ef ex fo' ∧ x ∈ ex) := by
  have hek' : env.ek ≠ .empty := by rw [hek]; decide
  obtain ⟨l, l', hl, hs, he, hr⟩ := parseTop_primary_error n env hek' hdefs m g hg r f h ho
  refine ⟨l, hl, hr, ?_⟩
  intro hn
  rw [hek] at hs
  rw [he.1] at hn ⊢
  obtain ⟨exp', fo', hr', hmem⟩ := summ_expected hs hn
  have hq : l.err.reason.equiv l'.err.reason := he.2.2
  rw [hr'] at hq
  cases hlr : l.err.reason with
  | custom msg => rw [hlr] at hq; exact hq.elim
  | ef exp fo =>
    rw [hlr] at hq
    refine ⟨exp, fo, rfl, ?_⟩
    intro x
    rw [← hmem x]
    exact hq x

/-- `Rich`, some custom (user-supplied) error at the furthest position: the first one is what is reported -/
theorem c06_custom_preserved (n : Nat) (env : Env) (hek : env.ek = .rich)
    (hdefs : ∀ d ∈ env.defs, d.c06 = true) (m : Mode) (g : G) (hg : g.c06 = true) (r : ParseResult) (f : St)
    (h : parseTop n env m g = .result r f) (ho : r.output = none) :
    ∃ l, f.alt = some l ∧ r.errs = f.errs.map (·.err) ++ [l.err] ∧
      ((∃ ev ∈ f.log, ev.pos = l.pos ∧ ∃ msg, ev.err.reason = .custom msg) →
        ∃ ev msg, (f.log.filter (·.pos = l.pos)).find? (fun ev => ev.err.reason.isCustom) = some ev ∧
          ev.err.reason = .custom msg ∧ l.err.reason = .custom msg) := by
  have hek' : env.ek ≠ .empty := by rw [hek]; decide
  obtain ⟨l, l', hl, hs, he, hr⟩ := parseTop_primary_error n env hek' hdefs m g hg r f h ho
  refine ⟨l, hl, hr, ?_⟩
  intro hc
  rw [hek] at hs
  rw [he.1] at hc ⊢
  obtain ⟨ev, msg, hfind, hev, hr'⟩ := summ_custom hs hc
  refine ⟨ev, msg, hfind, hev, ?_⟩
  have hq : l.err.reason.equiv l'.err.reason := he.2.2
  rw [hr'] at hq
  cases hlr : l.err.reason with
  | custom msg' => rw [hlr] at hq; rw [show msg' = msg from hq]
  | ef exp fo => rw [hlr] at hq; exact hq.elim

/-- `Rich`: the span of the reported error is the span of the first failure at the furthest position -/
theorem c06_span_first (n : Nat) (env : Env) (hek : env.ek = .rich)
    (hdefs : ∀ d ∈ env.defs, d.c06 = true) (m : Mode) (g : G) (hg : g.c06 = true) (r : ParseResult) (f : St)
    (h : parseTop n env m g = .result r f) (ho : r.output = none) :
    ∃ l, f.alt = some l ∧ r.errs = f.errs.map (·.err) ++ [l.err] ∧
      ∃ hne : f.log.filter (·.pos = l.pos) ≠ [],
        l.err.span = ((f.log.filter (·.pos = l.pos)).head hne).err.span := by
  have hek' : env.ek ≠ .empty := by rw [hek]; decide
  obtain ⟨l, l', hl, hs, he, hr⟩ := parseTop_primary_error n env hek' hdefs m g hg r f h ho
  refine ⟨l, hl, hr, ?_⟩
  rw [hek] at hs
  obtain ⟨hne, hsp⟩ := summ_span hs
  rw [he.1, he.2.1]
  exact ⟨hne, hsp⟩

#print axioms run_altRel
#print axioms next_altRel
#print axioms mkIter_altRel
#print axioms run_fail_altRelF
#print axioms parseTop_primary_error
#print axioms c06_furthest
#print axioms c06_expected_union
#print axioms c06_custom_preserved
#print axioms c06_span_first

end Chumsky
