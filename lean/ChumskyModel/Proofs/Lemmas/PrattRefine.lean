/-
  C09 — `atom.pratt(ops)`: the machine (`prattGo`, checkpoints / rewinds / declaration order) refines the
  textbook binding-power recursion (`sPratt`), plus the "textbook" facts about the reading itself
  (powers, shape, maximality, token order).
-/
import ChumskyModel.Model.Pratt
import ChumskyModel.Proofs.Lemmas.Master
import ChumskyModel.Proofs.Lemmas.Top
set_option linter.unusedSimpArgs false
set_option linter.unusedVariables false
namespace Chumsky

/-! ## 1. Refinement: machine ⊑ reading -/

section Refinement

/-- result of one pass over the operator table: `inl st'` ("no operator applied", `st'` = the checkpointed state up to
    rewinds) against `none`; `inr o` against `some so` -/
def TableRel (m : Mode) (base : List Loc) (ctx : Val) (st0 : St) : Sum St Out → Option SOut → Prop
  | .inl st', none => SameAs st' st0
  | .inr o, some so => Refines m base ctx o so
  | _, _ => False

@[simp] theorem tableRel_inl_none {m base ctx st0 st'} :
    TableRel m base ctx st0 (.inl st') none ↔ SameAs st' st0 := Iff.rfl
@[simp] theorem tableRel_inr_some {m base ctx st0 o so} :
    TableRel m base ctx st0 (.inr o) (some so) ↔ Refines m base ctx o so := Iff.rfl
@[simp] theorem tableRel_inl_some {m base ctx st0 st' so} :
    TableRel m base ctx st0 (.inl st') (some so) ↔ False := Iff.rfl
@[simp] theorem tableRel_inr_none {m base ctx st0 o} :
    TableRel m base ctx st0 (.inr o) none ↔ False := Iff.rfl

variable {R : Mode → G → St → Out} {P : G → SS → SOut} {ctx : Val}
variable {rec : Nat → St → Out} {srec : Nat → SS → SOut}

/-- the hypothesis on the atom / operator parsers (instantiated by `run_refines`) -/
def PRefines (R : Mode → G → St → Out) (P : G → SS → SOut) (ctx : Val) : Prop :=
  ∀ m g st, st.ctx = ctx → Refines m st.errs ctx (R m g st) (P g st.ss)

/-- the hypothesis on the recursive calls (the induction hypothesis on the pratt fuel) -/
def RecRefines (m : Mode) (rec : Nat → St → Out) (srec : Nat → SS → SOut) (ctx : Val) : Prop :=
  ∀ p st, st.ctx = ctx → Refines m st.errs ctx (rec p st) (srec p st.ss)

theorem PRefines.same (hRP : PRefines R P ctx) (m : Mode) (g : G) {st st0 : St} (h : SameAs st st0)
    (hc : st0.ctx = ctx) : Refines m st0.errs ctx (R m g st) (P g st0.ss) := by
  have := hRP m g st (h.ctx.trans hc)
  rw [h.errs, h.ss] at this
  exact this

/-- a sub-run started where an `OkRel`-related run ended -/
theorem RecRefines.at (hrec : RecRefines m rec srec ctx) {m' : Mode} {base v st1 v' s1 e1} (p : Nat)
    (h : OkRel m' base ctx v st1 v' s1 e1) :
    ∃ new1, st1.errs = base ++ new1 ∧ EmsRel new1 e1 ∧
      Refines m (base ++ new1) ctx (rec p st1) (srec p s1) := by
  obtain ⟨new1, he, hr⟩ := h.errs
  refine ⟨new1, he, hr, ?_⟩
  have := hrec p st1 h.ctx
  rw [he, h.ss] at this
  exact this

theorem sameAs_of_rewind' {st' st0 : St} {base : List Loc} {ctx : Val} (hb : st0.errs = base) (hc : st0.ctx = ctx)
    (h : FailRel base ctx st') : SameAs (st'.rewind st0.save) st0 := by
  subst hb; subst hc; exact SameAs.of_rewind h

/-- prefix operators, declaration order; the checkpoint `pre_expr` was taken at `st0` -/
theorem prattPrefix_refines (hRP : PRefines R P ctx) (env : Env) (m : Mode) (hrec : RecRefines m rec srec ctx)
    (st0 : St) (hc0 : st0.ctx = ctx) :
    ∀ (ops : List PrattOp) (st : St), SameAs st st0 →
      TableRel m st0.errs ctx st0 (prattPrefix R rec env m st0.save ops st)
        (sPrattPrefix P srec env st0.ss ops) := by
  intro ops
  induction ops with
  | nil => intro st hs; simpa [prattPrefix, sPrattPrefix] using hs
  | cons o rest ih =>
    intro st hs
    cases o with
    | «infix» la bp op => simpa only [prattPrefix, sPrattPrefix] using ih st hs
    | «postfix» bp op => simpa only [prattPrefix, sPrattPrefix] using ih st hs
    | «prefix» bp op =>
      simp only [prattPrefix, sPrattPrefix]
      have h := hRP.same m op hs hc0
      revert h
      cases R m op st <;> cases P op st0.ss <;> simp [Refines]
      case ok.ok opv st1 opv' s1 e1 =>
        intro h1
        obtain ⟨new1, he1, hr1, h2⟩ := hrec.at (2 * bp) h1
        revert h2
        cases rec (2 * bp) st1 <;> cases srec (2 * bp) s1 <;> simp [Refines]
        case ok.ok rhs st2 rhs' s2 e2 =>
          intro h2
          refine OkRel.seq hr1 h2 ?_
          cases m
          · have e1 : opv = opv' := by simpa using h1.val
            have e2 : rhs = rhs' := by simpa using h2.val
            simp [e1, e2, ← h2.ss]
          · rfl
        case fail.fail st2 =>
          intro hf
          exact ih _ (sameAs_of_rewind' rfl hc0 hf.rebase)
      case fail.fail st1 =>
        intro hf
        exact ih _ (sameAs_of_rewind' rfl hc0 hf)

/-- postfix operators; `pre_op` was taken at `stL` (the state at the top of the loop iteration) -/
theorem prattPostfix_refines (hRP : PRefines R P ctx) (env : Env) (m : Mode)
    (preExpr : Chk) (start : SS) (hpe : preExpr.pos = start.pos) (minP : Nat)
    (stL : St) (hcL : stL.ctx = ctx) (lhs lhs' : Val) (hl : lhs = m.bind lhs') :
    ∀ (ops : List PrattOp) (st : St), SameAs st stL →
      TableRel m stL.errs ctx stL (prattPostfix R env m preExpr stL.save minP lhs ops st)
        (sPrattPostfix P env start minP lhs' stL.ss ops) := by
  intro ops
  induction ops with
  | nil => intro st hs; simpa [prattPostfix, sPrattPostfix] using hs
  | cons o rest ih =>
    intro st hs
    cases o with
    | «infix» la bp op => simpa only [prattPostfix, sPrattPostfix] using ih st hs
    | «prefix» bp op => simpa only [prattPostfix, sPrattPostfix] using ih st hs
    | «postfix» bp op =>
      simp only [prattPostfix, sPrattPostfix]
      by_cases hp : 2 * bp + 1 ≥ minP
      · simp only [hp, if_true]
        have h := hRP.same m op hs hcL
        revert h
        cases R m op st <;> cases P op stL.ss <;> simp [Refines]
        case pos.ok.ok opv st1 opv' s1 e1 =>
          intro h1
          refine OkRel.mono h1 ?_
          cases m
          · have e1 : opv = opv' := by simpa using h1.val
            have e2 : lhs = lhs' := by simpa using hl
            simp [e1, e2, ← h1.ss, hpe]
          · rfl
        case pos.fail.fail st1 =>
          intro hf
          exact ih _ (sameAs_of_rewind' rfl hcL hf)
      · simp only [hp, if_false]
        exact ih st hs

/-- infix operators -/
theorem prattInfix_refines (hRP : PRefines R P ctx) (env : Env) (m : Mode) (hrec : RecRefines m rec srec ctx)
    (preExpr : Chk) (start : SS) (hpe : preExpr.pos = start.pos) (minP : Nat)
    (stL : St) (hcL : stL.ctx = ctx) (lhs lhs' : Val) (hl : lhs = m.bind lhs') :
    ∀ (ops : List PrattOp) (st : St), SameAs st stL →
      TableRel m stL.errs ctx stL (prattInfix R rec env m preExpr stL.save minP lhs ops st)
        (sPrattInfix P srec env start minP lhs' stL.ss ops) := by
  intro ops
  induction ops with
  | nil => intro st hs; simpa [prattInfix, sPrattInfix] using hs
  | cons o rest ih =>
    intro st hs
    cases o with
    | «postfix» bp op => simpa only [prattInfix, sPrattInfix] using ih st hs
    | «prefix» bp op => simpa only [prattInfix, sPrattInfix] using ih st hs
    | «infix» la bp op =>
      simp only [prattInfix, sPrattInfix]
      by_cases hp : leftPower la bp ≥ minP
      · simp only [hp, if_true]
        have h := hRP.same m op hs hcL
        revert h
        cases R m op st <;> cases P op stL.ss <;> simp [Refines]
        case pos.ok.ok opv st1 opv' s1 e1 =>
          intro h1
          obtain ⟨new1, he1, hr1, h2⟩ := hrec.at (rightPower la bp) h1
          revert h2
          cases rec (rightPower la bp) st1 <;> cases srec (rightPower la bp) s1 <;> simp [Refines]
          case ok.ok rhs st2 rhs' s2 e2 =>
            intro h2
            refine OkRel.seq hr1 h2 ?_
            cases m
            · have e1 : opv = opv' := by simpa using h1.val
              have e2 : rhs = rhs' := by simpa using h2.val
              have e3 : lhs = lhs' := by simpa using hl
              simp [e1, e2, e3, ← h2.ss, hpe]
            · rfl
          case fail.fail st2 =>
            intro hf
            exact ih _ (sameAs_of_rewind' rfl hcL hf.rebase)
        case pos.fail.fail st1 =>
          intro hf
          exact ih _ (sameAs_of_rewind' rfl hcL hf)
      · simp only [hp, if_false]
        exact ih st hs

/-- the operator loop: emissions accumulate (`new ~ em`), the left operand is related modulo the mode -/
theorem prattLoop_refines (hRP : PRefines R P ctx) (env : Env) (m : Mode) (hrec : RecRefines m rec srec ctx)
    (ops : List PrattOp) (preExpr : Chk) (start : SS) (hpe : preExpr.pos = start.pos) (minP : Nat)
    (base : List Loc) :
    ∀ (k : Nat) (st : St) (lhs lhs' : Val) (new : List Loc) (em : List Emis),
      st.errs = base ++ new → EmsRel new em → st.ctx = ctx → lhs = m.bind lhs' →
      Refines m base ctx (prattLoop R rec env m ops preExpr minP k st lhs)
        (sPrattLoop P srec env ops start minP k st.ss lhs' em) := by
  intro k
  induction k with
  | zero => intro st lhs lhs' new em _ _ _ _; simp [prattLoop, sPrattLoop, Refines]
  | succ k ih =>
    intro st lhs lhs' new em he hr hc hl
    simp only [prattLoop, sPrattLoop]
    have hpost := prattPostfix_refines hRP env m preExpr start hpe minP st hc lhs lhs' hl ops st (SameAs.refl st)
    revert hpost
    cases prattPostfix R env m preExpr st.save minP lhs ops st <;>
      cases sPrattPostfix P env start minP lhs' st.ss ops <;> simp
    case inr.some o so =>
      rw [he]
      cases o <;> cases so <;> simp [Refines]
      case ok.ok v st1 v' s1 e1 =>
        intro h1
        obtain ⟨new1, he1, hr1⟩ := h1.errs
        have := ih st1 v v' (new ++ new1) (em ++ e1) (by simp [he1]) (hr.append hr1) h1.ctx h1.val
        rw [h1.ss] at this
        exact this
      case fail.fail st1 => exact fun h => h.rebase
    case inl.none st1 =>
      intro hs1
      have hinf := prattInfix_refines hRP env m hrec preExpr start hpe minP st hc lhs lhs' hl ops st1 hs1
      revert hinf
      cases prattInfix R rec env m preExpr st.save minP lhs ops st1 <;>
        cases sPrattInfix P srec env start minP lhs' st.ss ops <;> simp
      case inr.some o so =>
        rw [he]
        cases o <;> cases so <;> simp [Refines]
        case ok.ok v st2 v' s2 e2 =>
          intro h2
          obtain ⟨new2, he2, hr2⟩ := h2.errs
          have := ih st2 v v' (new ++ new2) (em ++ e2) (by simp [he2]) (hr.append hr2) h2.ctx h2.val
          rw [h2.ss] at this
          exact this
        case fail.fail st2 => exact fun h => h.rebase
      case inl.none st2 =>
        intro hs2
        refine ⟨hl, rfl, ⟨new, ?_, hr⟩, by simp [hs2.ctx, hc]⟩
        rw [rewind_errs, save_errCount, hs2.errs, List.take_length]; exact he

/-- **C09 (refinement).** `pratt_go` refines the binding-power recursion, for every table, every input, every
    `min_power` and every recursion fuel. -/
theorem prattGo_refines (hRP : PRefines R P ctx) (env : Env) (m : Mode) (atom : G) (ops : List PrattOp) :
    ∀ (k minP : Nat) (st : St), st.ctx = ctx →
      Refines m st.errs ctx (prattGo R env m atom ops k minP st) (sPratt P env atom ops k minP st.ss) := by
  intro k
  induction k with
  | zero => intro minP st _; simp [prattGo, sPratt, Refines]
  | succ k ih =>
    intro minP st hc
    have hrec : RecRefines m (prattGo R env m atom ops k) (sPratt P env atom ops k) ctx := fun p st h => ih p st h
    simp only [prattGo, sPratt]
    have hpre := prattPrefix_refines hRP env m hrec st hc ops st (SameAs.refl st)
    revert hpre
    cases prattPrefix R (prattGo R env m atom ops k) env m st.save ops st <;>
      cases sPrattPrefix P (sPratt P env atom ops k) env st.ss ops <;> simp
    case inr.some o so =>
      cases o <;> cases so <;> simp [Refines]
      case ok.ok v st1 v' s1 e1 =>
        intro h1
        obtain ⟨new1, he1, hr1⟩ := h1.errs
        have := prattLoop_refines hRP env m hrec ops st.save st.ss rfl minP st.errs k st1 v v' new1 e1 he1 hr1
          h1.ctx h1.val
        rw [h1.ss] at this
        exact this
    case inl.none st0 =>
      intro hs0
      have h := hRP.same m atom hs0 hc
      revert h
      cases R m atom st0 <;> cases P atom st.ss <;> simp [Refines]
      case ok.ok v st1 v' s1 e1 =>
        intro h1
        obtain ⟨new1, he1, hr1⟩ := h1.errs
        have := prattLoop_refines hRP env m hrec ops st.save st.ss rfl minP st.errs k st1 v v' new1 e1 he1 hr1
          h1.ctx h1.val
        rw [h1.ss] at this
        exact this

/-- the runners of the model satisfy the hypothesis (master refinement I1) -/
theorem run_pRefines (fuel : Nat) (env : Env) (hm : env.memoOn = false) (ctx : Val) :
    PRefines (fun m g st => run fuel env m g st) (fun g s => peg fuel env g s ctx) ctx := by
  intro m' g st' hc
  have := run_refines fuel env m' g st' hm
  rw [hc] at this
  exact this

/-- **C09 (refinement), instantiated**: `R := run fuel env`, `P := peg fuel env · · ctx`; every table, every input,
    every `min_power`, every pratt-recursion fuel `k` -/
theorem prattGo_run_refines (fuel : Nat) (env : Env) (hm : env.memoOn = false) (m : Mode) (atom : G)
    (ops : List PrattOp) (k minP : Nat) (st : St) :
    Refines m st.errs st.ctx (prattGo (fun m g st => run fuel env m g st) env m atom ops k minP st)
      (sPratt (fun g s => peg fuel env g s st.ctx) env atom ops k minP st.ss) :=
  prattGo_refines (run_pRefines fuel env hm st.ctx) env m atom ops k minP st rfl

/-- `atom.pratt(ops)` as a parser ⊑ its reading -/
theorem runPratt_refines (fuel : Nat) (env : Env) (m : Mode) (atom : G) (ops : List PrattOp) (st : St)
    (hm : env.memoOn = false) :
    Refines m st.errs st.ctx (runPratt fuel env m atom ops st) (pegPratt fuel env atom ops st.ss st.ctx) :=
  prattGo_run_refines fuel env hm m atom ops fuel 0 st

/-- `parse` / `check` of `atom.pratt(ops)` ⊑ the reading followed by end of input -/
theorem parseTopPratt_refines (fuel : Nat) (env : Env) (m : Mode) (atom : G) (ops : List PrattOp)
    (hm : env.memoOn = false) :
    TopRefines m (parseTopPratt fuel env m atom ops) (pegTopPratt fuel env atom ops) := by
  unfold parseTopPratt pegTopPratt
  have h : Refines m [] .unit
      ((runPratt fuel env m atom ops St.init).andThen fun v st1 =>
        (run fuel env .check .end_ st1).andThen fun _ st2 => .ok v st2)
      ((pegPratt fuel env atom ops ⟨0, []⟩ .unit).andThen fun v s1 e1 =>
        (peg fuel env .end_ s1 .unit).andThen fun _ s2 e2 => .ok v s2 (e1 ++ e2)) := by
    refine Refines.andThen0 (runPratt_refines fuel env m atom ops St.init hm) ?_
    intro v st1 v' s1 e1 h1
    obtain ⟨new1, he1, hr1, hb⟩ := (run_refines_all fuel).1.at hm (m := .check) .end_ h1
    refine Refines.andThen hb ?_
    intro v2 st2 v2' s2 e2 h2
    exact OkRel.seq hr1 h2 h1.val
  revert h
  generalize ((runPratt fuel env m atom ops St.init).andThen fun v st1 =>
        (run fuel env .check .end_ st1).andThen fun _ st2 => .ok v st2) = o
  generalize ((pegPratt fuel env atom ops ⟨0, []⟩ .unit).andThen fun v s1 e1 =>
        (peg fuel env .end_ s1 .unit).andThen fun _ s2 e2 => .ok v s2 (e1 ++ e2)) = so
  cases o <;> cases so <;> simp [Refines, TopRefines]
  intro h
  obtain ⟨new, he, hr⟩ := h.errs
  simp at he
  exact ⟨h.val, h.ss, by rw [he]; exact hr⟩

end Refinement

/-! ## 2. Binding powers -/

theorem powers_eq (x : Nat) :
    leftPower true x = 2 * x ∧ rightPower true x = 2 * x + 1 ∧
    leftPower false x = 2 * x + 1 ∧ rightPower false x = 2 * x := by
  simp [leftPower, rightPower]

/-- left-associative: the right operand is parsed with a `min_power` the operator itself does not reach, so an
    equal-power operator is left to the enclosing loop: `a ∘ b ∘ c = (a ∘ b) ∘ c` -/
theorem leftAssoc_power_lt (bp : Nat) : leftPower true bp < rightPower true bp := by
  simp [leftPower, rightPower]

/-- right-associative: the right operand's loop accepts the operator again: `a ∘ b ∘ c = a ∘ (b ∘ c)` -/
theorem rightAssoc_power_lt (bp : Nat) : rightPower false bp < leftPower false bp := by
  simp [leftPower, rightPower]

/-- the admission test `leftPower ≥ min_power` of an operator inside the right operand of an equal-power operator -/
theorem equal_power_admits (la la' : Bool) (bp : Nat) :
    (leftPower la' bp ≥ rightPower la bp) ↔ (la' = false ∨ la = false) := by
  cases la <;> cases la' <;> simp [leftPower, rightPower] <;> omega

theorem leftAssoc_stops (bp : Nat) : ¬ (leftPower true bp ≥ rightPower true bp) := by
  simp [leftPower, rightPower]

theorem rightAssoc_continues (bp : Nat) : leftPower false bp ≥ rightPower false bp := by
  simp [leftPower, rightPower]

/-- a strictly smaller binding power is smaller in every respect, whatever the associativities -/
theorem power_lt_of_bp_lt {bp1 bp2 : Nat} (h : bp1 < bp2) (la1 la2 : Bool) :
    leftPower la1 bp1 < leftPower la2 bp2 ∧ leftPower la1 bp1 < rightPower la2 bp2 ∧
    rightPower la1 bp1 < leftPower la2 bp2 ∧ rightPower la1 bp1 < rightPower la2 bp2 := by
  cases la1 <;> cases la2 <;> simp [leftPower, rightPower] <;> omega

/-- so: a looser operator never enters the right operand of a tighter one, a tighter one always does -/
theorem looser_stops {bp1 bp2 : Nat} (h : bp1 < bp2) (la1 la2 : Bool) :
    ¬ (leftPower la1 bp1 ≥ rightPower la2 bp2) := by
  have := (power_lt_of_bp_lt h la1 la2).2.1; omega

theorem tighter_continues {bp1 bp2 : Nat} (h : bp1 < bp2) (la1 la2 : Bool) :
    leftPower la2 bp2 ≥ rightPower la1 bp1 := by
  have := (power_lt_of_bp_lt h la1 la2).2.2.1; omega

/-- the same for postfix (`2*bp+1`) and prefix (`2*bp` as the operand's `min_power`) operators -/
theorem postfix_power (bp : Nat) : 2 * bp + 1 = rightPower true bp := by simp [rightPower]
theorem prefix_power (bp : Nat) : 2 * bp = leftPower true bp := by simp [leftPower]

/-! ## 3. Shape of the reading -/

section Shape

variable {P : G → SS → SOut} {rec : Nat → SS → SOut} {env : Env}

/-! ### maximality: the loop stops only when no admissible operator applies -/

/-- no postfix operator applied ⇒ every admissible postfix operator of the table fails here -/
theorem sPrattPostfix_none {start : SS} {minP : Nat} {lhs : Val} {s : SS} {ops : List PrattOp}
    (h : sPrattPostfix P env start minP lhs s ops = none) :
    ∀ bp op, PrattOp.postfix bp op ∈ ops → 2 * bp + 1 ≥ minP → P op s = .fail := by
  induction ops with
  | nil => intro bp op hm; cases hm
  | cons o rest ih =>
    intro bp' op' hm hp'
    rcases List.mem_cons.1 hm with heq | hm'
    · subst heq
      simp only [sPrattPostfix, hp', if_true] at h
      revert h
      cases P op' s <;> simp
    · cases o with
      | «infix» la bp op => exact ih (by simpa only [sPrattPostfix] using h) bp' op' hm' hp'
      | «prefix» bp op => exact ih (by simpa only [sPrattPostfix] using h) bp' op' hm' hp'
      | «postfix» bp op =>
        simp only [sPrattPostfix] at h
        by_cases hp : 2 * bp + 1 ≥ minP
        · simp only [hp, if_true] at h
          revert h
          cases P op s <;> simp
          exact fun h => ih h bp' op' hm' hp'
        · simp only [hp, if_false] at h
          exact ih h bp' op' hm' hp'

/-- … and conversely -/
theorem sPrattPostfix_none_of {start : SS} {minP : Nat} {lhs : Val} {s : SS} {ops : List PrattOp}
    (h : ∀ bp op, PrattOp.postfix bp op ∈ ops → 2 * bp + 1 ≥ minP → P op s = .fail) :
    sPrattPostfix P env start minP lhs s ops = none := by
  induction ops with
  | nil => rfl
  | cons o rest ih =>
    have ih' := ih (fun bp op hm => h bp op (List.mem_cons_of_mem _ hm))
    cases o with
    | «infix» la bp op => simpa only [sPrattPostfix] using ih'
    | «prefix» bp op => simpa only [sPrattPostfix] using ih'
    | «postfix» bp op =>
      simp only [sPrattPostfix]
      by_cases hp : 2 * bp + 1 ≥ minP
      · simp only [hp, if_true, h bp op (List.mem_cons_self ..) hp]
        exact ih'
      · simp only [hp, if_false]
        exact ih'

/-- no infix operator applied ⇒ every admissible infix operator of the table either fails here, or matches but its
    right operand cannot be parsed ("an operator whose right operand is missing is left unconsumed") -/
theorem sPrattInfix_none {start : SS} {minP : Nat} {lhs : Val} {s : SS} {ops : List PrattOp}
    (h : sPrattInfix P rec env start minP lhs s ops = none) :
    ∀ la bp op, PrattOp.infix la bp op ∈ ops → leftPower la bp ≥ minP →
      P op s = .fail ∨ ∃ opv s1 e1, P op s = .ok opv s1 e1 ∧ rec (rightPower la bp) s1 = .fail := by
  induction ops with
  | nil => intro la bp op hm; cases hm
  | cons o rest ih =>
    intro la' bp' op' hm hp'
    rcases List.mem_cons.1 hm with heq | hm'
    · subst heq
      simp only [sPrattInfix, hp', if_true] at h
      revert h
      cases hP : P op' s <;> simp
      case ok opv s1 e1 =>
        cases hr : rec (rightPower la' bp') s1 <;> simp
        exact fun _ => ⟨_, _, ⟨rfl, rfl⟩, hr⟩
    · cases o with
      | «postfix» bp op => exact ih (by simpa only [sPrattInfix] using h) la' bp' op' hm' hp'
      | «prefix» bp op => exact ih (by simpa only [sPrattInfix] using h) la' bp' op' hm' hp'
      | «infix» la bp op =>
        simp only [sPrattInfix] at h
        by_cases hp : leftPower la bp ≥ minP
        · simp only [hp, if_true] at h
          have key : sPrattInfix P rec env start minP lhs s rest = none := by
            revert h
            cases P op s <;> simp
            case ok opv s1 e1 => cases rec (rightPower la bp) s1 <;> simp
          exact ih key la' bp' op' hm' hp'
        · simp only [hp, if_false] at h
          exact ih h la' bp' op' hm' hp'

theorem sPrattInfix_none_of {start : SS} {minP : Nat} {lhs : Val} {s : SS} {ops : List PrattOp}
    (h : ∀ la bp op, PrattOp.infix la bp op ∈ ops → leftPower la bp ≥ minP →
      P op s = .fail ∨ ∃ opv s1 e1, P op s = .ok opv s1 e1 ∧ rec (rightPower la bp) s1 = .fail) :
    sPrattInfix P rec env start minP lhs s ops = none := by
  induction ops with
  | nil => rfl
  | cons o rest ih =>
    have ih' := ih (fun la bp op hm => h la bp op (List.mem_cons_of_mem _ hm))
    cases o with
    | «postfix» bp op => simpa only [sPrattInfix] using ih'
    | «prefix» bp op => simpa only [sPrattInfix] using ih'
    | «infix» la bp op =>
      simp only [sPrattInfix]
      by_cases hp : leftPower la bp ≥ minP
      · simp only [hp, if_true]
        rcases h la bp op (List.mem_cons_self ..) hp with hf | ⟨opv, s1, e1, h1, h2⟩
        · simp only [hf]; exact ih'
        · simp only [h1, h2]; exact ih'
      · simp only [hp, if_false]
        exact ih'

/-- the loop only returns where neither table pass applies an operator (values and `start` do not matter for that) -/
theorem sPrattLoop_stops {ops : List PrattOp} {start : SS} {minP : Nat} :
    ∀ {k : Nat} {s : SS} {lhs : Val} {em : List Emis} {v : Val} {s' : SS} {em' : List Emis},
      sPrattLoop P rec env ops start minP k s lhs em = .ok v s' em' →
      sPrattPostfix P env start minP v s' ops = none ∧ sPrattInfix P rec env start minP v s' ops = none := by
  intro k
  induction k with
  | zero => intro s lhs em v s' em' h; simp [sPrattLoop] at h
  | succ k ih =>
    intro s lhs em v s' em' h
    simp only [sPrattLoop] at h
    cases hpo : sPrattPostfix P env start minP lhs s ops with
    | some o =>
      rw [hpo] at h
      cases o with
      | ok v1 s1 e1 => exact ih h
      | fail => simp at h
      | panic w => simp at h
      | oof => simp at h
    | none =>
      rw [hpo] at h
      simp only at h
      cases hin : sPrattInfix P rec env start minP lhs s ops with
      | some o =>
        rw [hin] at h
        cases o with
        | ok v1 s1 e1 => exact ih h
        | fail => simp at h
        | panic w => simp at h
        | oof => simp at h
      | none =>
        rw [hin] at h
        simp only [SOut.ok.injEq] at h
        obtain ⟨rfl, rfl, rfl⟩ := h
        exact ⟨hpo, hin⟩

/-- **C09 (maximality).** Where the loop of `sPratt … minP` stops, no admissible postfix operator matches and no
    admissible infix operator matches *with a parsable right operand*. -/
theorem sPrattLoop_maximal {ops : List PrattOp} {start : SS} {minP k : Nat} {s : SS} {lhs : Val} {em : List Emis}
    {v : Val} {s' : SS} {em' : List Emis}
    (h : sPrattLoop P rec env ops start minP k s lhs em = .ok v s' em') :
    (∀ bp op, PrattOp.postfix bp op ∈ ops → 2 * bp + 1 ≥ minP → P op s' = .fail) ∧
    (∀ la bp op, PrattOp.infix la bp op ∈ ops → leftPower la bp ≥ minP →
      P op s' = .fail ∨ ∃ opv s1 e1, P op s' = .ok opv s1 e1 ∧ rec (rightPower la bp) s1 = .fail) :=
  ⟨sPrattPostfix_none (sPrattLoop_stops h).1, sPrattInfix_none (sPrattLoop_stops h).2⟩

theorem sPratt_maximal {atom : G} {ops : List PrattOp} {k minP : Nat} {s : SS} {v : Val} {s' : SS} {em : List Emis}
    (h : sPratt P env atom ops (k + 1) minP s = .ok v s' em) :
    (∀ bp op, PrattOp.postfix bp op ∈ ops → 2 * bp + 1 ≥ minP → P op s' = .fail) ∧
    (∀ la bp op, PrattOp.infix la bp op ∈ ops → leftPower la bp ≥ minP →
      P op s' = .fail ∨
      ∃ opv s1 e1, P op s' = .ok opv s1 e1 ∧ sPratt P env atom ops k (rightPower la bp) s1 = .fail) := by
  simp only [sPratt] at h
  cases hpre : sPrattPrefix P (sPratt P env atom ops k) env s ops with
  | some o =>
    rw [hpre] at h
    cases o with
    | ok v1 s1 e1 => exact sPrattLoop_maximal h
    | fail => simp at h
    | panic w => simp at h
    | oof => simp at h
  | none =>
    rw [hpre] at h
    simp only at h
    cases hat : P atom s with
    | ok v1 s1 e1 => rw [hat] at h; exact sPrattLoop_maximal h
    | fail => rw [hat] at h; simp at h
    | panic w => rw [hat] at h; simp at h
    | oof => rw [hat] at h; simp at h

/-- maximality of the parser itself (`min_power = 0`: every operator is admissible) -/
theorem pegPratt_maximal {fuel : Nat} {env : Env} {atom : G} {ops : List PrattOp} {s : SS} {ctx v : Val} {s' : SS}
    {em : List Emis} (h : pegPratt fuel env atom ops s ctx = .ok v s' em) :
    (∀ bp op, PrattOp.postfix bp op ∈ ops → peg fuel env op s' ctx = .fail) ∧
    (∀ la bp op, PrattOp.infix la bp op ∈ ops →
      peg fuel env op s' ctx = .fail ∨
      ∃ opv s1 e1, peg fuel env op s' ctx = .ok opv s1 e1 ∧
        sPratt (fun g s => peg fuel env g s ctx) env atom ops (fuel - 1) (rightPower la bp) s1 = .fail) := by
  unfold pegPratt at h
  cases fuel with
  | zero => simp [sPratt] at h
  | succ k =>
    have := sPratt_maximal h
    exact ⟨fun bp op hm => this.1 bp op hm (Nat.zero_le _), fun la bp op hm => this.2 la bp op hm (Nat.zero_le _)⟩

/-! ### the tree with its powers: an instrumented copy of the reading

  `Val` forgets which operator of the table built a node (and an atom may itself return a value that looks like a
  fold), so the "operand's operators bind at least as tightly" property is stated on a *trace tree* `PTree` that
  records, for every node, the operator's binding power / associativity. `tPratt` is `sPratt` building a `PTree`;
  `sPratt_eq_erase` shows that erasing the annotations gives back exactly `sPratt` (same control flow, same
  positions, same emissions, value = `PTree.val`). -/

inductive PTree where
  | atom (v : Val)
  | pre (bp : Nat) (op : Val) (rhs : PTree) (sp : Nat × Nat)
  | inf (la : Bool) (bp : Nat) (lhs : PTree) (op : Val) (rhs : PTree) (sp : Nat × Nat)
  | post (bp : Nat) (lhs : PTree) (op : Val) (sp : Nat × Nat)

/-- the value the fold callbacks build -/
def PTree.val : PTree → Val
  | .atom v => v
  | .pre _ op rhs sp => foldPrefix op rhs.val sp
  | .inf _ _ lhs op rhs sp => foldInfix lhs.val op rhs.val sp
  | .post _ lhs op sp => foldPostfix lhs.val op sp

inductive TOut where
  | ok (t : PTree) (s : SS) (em : List Emis)
  | fail
  | panic (why : Nat)
  | oof

def TOut.erase : TOut → SOut
  | .ok t s em => .ok t.val s em
  | .fail => .fail
  | .panic w => .panic w
  | .oof => .oof

@[simp] theorem TOut.erase_ok (t s em) : (TOut.ok t s em).erase = .ok t.val s em := rfl
@[simp] theorem TOut.erase_fail : TOut.fail.erase = .fail := rfl
@[simp] theorem TOut.erase_panic (w) : (TOut.panic w).erase = .panic w := rfl
@[simp] theorem TOut.erase_oof : TOut.oof.erase = .oof := rfl

def tPrattPrefix (P : G → SS → SOut) (rec : Nat → SS → TOut) (env : Env) (start : SS) : List PrattOp → Option TOut
  | [] => none
  | .prefix bp op :: rest =>
    match P op start with
    | .ok opv s1 e1 =>
      (match rec (2 * bp) s1 with
       | .ok rhs s2 e2 => some (.ok (.pre bp opv rhs (env.mkSpan start.pos s2.pos)) s2 (e1 ++ e2))
       | .fail => tPrattPrefix P rec env start rest
       | .panic w => some (.panic w)
       | .oof => some .oof)
    | .fail => tPrattPrefix P rec env start rest
    | .panic w => some (.panic w)
    | .oof => some .oof
  | _ :: rest => tPrattPrefix P rec env start rest

def tPrattPostfix (P : G → SS → SOut) (env : Env) (start : SS) (minP : Nat) (lhs : PTree) (s : SS) :
    List PrattOp → Option TOut
  | [] => none
  | .postfix bp op :: rest =>
    if 2 * bp + 1 ≥ minP then
      match P op s with
      | .ok opv s1 e1 => some (.ok (.post bp lhs opv (env.mkSpan start.pos s1.pos)) s1 e1)
      | .fail => tPrattPostfix P env start minP lhs s rest
      | .panic w => some (.panic w)
      | .oof => some .oof
    else tPrattPostfix P env start minP lhs s rest
  | _ :: rest => tPrattPostfix P env start minP lhs s rest

def tPrattInfix (P : G → SS → SOut) (rec : Nat → SS → TOut) (env : Env) (start : SS) (minP : Nat) (lhs : PTree)
    (s : SS) : List PrattOp → Option TOut
  | [] => none
  | .infix la bp op :: rest =>
    if leftPower la bp ≥ minP then
      match P op s with
      | .ok opv s1 e1 =>
        (match rec (rightPower la bp) s1 with
         | .ok rhs s2 e2 => some (.ok (.inf la bp lhs opv rhs (env.mkSpan start.pos s2.pos)) s2 (e1 ++ e2))
         | .fail => tPrattInfix P rec env start minP lhs s rest
         | .panic w => some (.panic w)
         | .oof => some .oof)
      | .fail => tPrattInfix P rec env start minP lhs s rest
      | .panic w => some (.panic w)
      | .oof => some .oof
    else tPrattInfix P rec env start minP lhs s rest
  | _ :: rest => tPrattInfix P rec env start minP lhs s rest

def tPrattLoop (P : G → SS → SOut) (rec : Nat → SS → TOut) (env : Env) (ops : List PrattOp) (start : SS) (minP : Nat) :
    Nat → SS → PTree → List Emis → TOut
  | 0, _, _, _ => .oof
  | k + 1, s, lhs, em =>
    match tPrattPostfix P env start minP lhs s ops with
    | some (.ok v s1 e1) => tPrattLoop P rec env ops start minP k s1 v (em ++ e1)
    | some o => o
    | none =>
      match tPrattInfix P rec env start minP lhs s ops with
      | some (.ok v s2 e2) => tPrattLoop P rec env ops start minP k s2 v (em ++ e2)
      | some o => o
      | none => .ok lhs s em

def tPratt (P : G → SS → SOut) (env : Env) (atom : G) (ops : List PrattOp) : Nat → Nat → SS → TOut
  | 0, _, _ => .oof
  | fuel + 1, minP, s =>
    let rec_ := tPratt P env atom ops fuel
    match tPrattPrefix P rec_ env s ops with
    | some (.ok v s1 e1) => tPrattLoop P rec_ env ops s minP fuel s1 v e1
    | some o => o
    | none =>
      match P atom s with
      | .ok v s1 e1 => tPrattLoop P rec_ env ops s minP fuel s1 (.atom v) e1
      | .fail => .fail
      | .panic w => .panic w
      | .oof => .oof

section Erase
variable {trec : Nat → SS → TOut}

theorem sPrattPrefix_erase (start : SS) (ops : List PrattOp) :
    sPrattPrefix P (fun p s => (trec p s).erase) env start ops =
      (tPrattPrefix P trec env start ops).map TOut.erase := by
  induction ops with
  | nil => rfl
  | cons o rest ih =>
    cases o with
    | «infix» la bp op => simpa only [sPrattPrefix, tPrattPrefix] using ih
    | «postfix» bp op => simpa only [sPrattPrefix, tPrattPrefix] using ih
    | «prefix» bp op =>
      simp only [sPrattPrefix, tPrattPrefix]
      cases P op start <;> simp [ih]
      case ok opv s1 e1 =>
        cases trec (2 * bp) s1 <;> simp [ih, PTree.val]

theorem sPrattPostfix_erase (start : SS) (minP : Nat) (lhs : PTree) (s : SS) (ops : List PrattOp) :
    sPrattPostfix P env start minP lhs.val s ops = (tPrattPostfix P env start minP lhs s ops).map TOut.erase := by
  induction ops with
  | nil => rfl
  | cons o rest ih =>
    cases o with
    | «infix» la bp op => simpa only [sPrattPostfix, tPrattPostfix] using ih
    | «prefix» bp op => simpa only [sPrattPostfix, tPrattPostfix] using ih
    | «postfix» bp op =>
      simp only [sPrattPostfix, tPrattPostfix]
      by_cases hp : 2 * bp + 1 ≥ minP
      · simp only [hp, if_true]
        cases P op s <;> simp [ih, PTree.val]
      · simp only [hp, if_false]; exact ih

theorem sPrattInfix_erase (start : SS) (minP : Nat) (lhs : PTree) (s : SS) (ops : List PrattOp) :
    sPrattInfix P (fun p s => (trec p s).erase) env start minP lhs.val s ops =
      (tPrattInfix P trec env start minP lhs s ops).map TOut.erase := by
  induction ops with
  | nil => rfl
  | cons o rest ih =>
    cases o with
    | «postfix» bp op => simpa only [sPrattInfix, tPrattInfix] using ih
    | «prefix» bp op => simpa only [sPrattInfix, tPrattInfix] using ih
    | «infix» la bp op =>
      simp only [sPrattInfix, tPrattInfix]
      by_cases hp : leftPower la bp ≥ minP
      · simp only [hp, if_true]
        cases P op s <;> simp [ih]
        case ok opv s1 e1 =>
          cases trec (rightPower la bp) s1 <;> simp [ih, PTree.val]
      · simp only [hp, if_false]; exact ih

theorem sPrattLoop_erase (ops : List PrattOp) (start : SS) (minP : Nat) :
    ∀ (k : Nat) (s : SS) (lhs : PTree) (em : List Emis),
      sPrattLoop P (fun p s => (trec p s).erase) env ops start minP k s lhs.val em =
        (tPrattLoop P trec env ops start minP k s lhs em).erase := by
  intro k
  induction k with
  | zero => intro s lhs em; rfl
  | succ k ih =>
    intro s lhs em
    simp only [sPrattLoop, tPrattLoop, sPrattPostfix_erase, sPrattInfix_erase]
    cases tPrattPostfix P env start minP lhs s ops with
    | some o => cases o <;> simp [ih]
    | none =>
      simp only [Option.map_none]
      cases tPrattInfix P trec env start minP lhs s ops with
      | some o => cases o <;> simp [ih]
      | none => simp

end Erase

/-- erasing the annotations of the instrumented reading gives the reading -/
theorem sPratt_eq_erase (atom : G) (ops : List PrattOp) :
    ∀ (k minP : Nat) (s : SS), sPratt P env atom ops k minP s = (tPratt P env atom ops k minP s).erase := by
  intro k
  induction k with
  | zero => intro minP s; rfl
  | succ k ih =>
    intro minP s
    have e : sPratt P env atom ops k = fun p s => (tPratt P env atom ops k p s).erase := by
      funext p s; exact ih p s
    simp only [sPratt, tPratt, e, sPrattPrefix_erase]
    cases tPrattPrefix P (tPratt P env atom ops k) env s ops with
    | some o => cases o <;> simp [← sPrattLoop_erase]
    | none =>
      simp only [Option.map_none]
      cases P atom s <;> simp [← sPrattLoop_erase, PTree.val]

/-- **the textbook shape.** `Shape ops minP t`: every operator applied by the loop at the top level of `t` (the left
    spine through `post`/`inf` nodes) is an operator of the table whose left power is `≥ minP`; the right operand of
    an infix node respects the node's right power, the operand of a prefix node respects `2*bp`. -/
inductive Shape (ops : List PrattOp) : Nat → PTree → Prop
  | atom {minP v} : Shape ops minP (.atom v)
  | pre {minP bp op opv rhs sp} : PrattOp.prefix bp op ∈ ops → Shape ops (2 * bp) rhs →
      Shape ops minP (.pre bp opv rhs sp)
  | post {minP bp op opv lhs sp} : PrattOp.postfix bp op ∈ ops → 2 * bp + 1 ≥ minP → Shape ops minP lhs →
      Shape ops minP (.post bp lhs opv sp)
  | inf {minP la bp op opv lhs rhs sp} : PrattOp.infix la bp op ∈ ops → leftPower la bp ≥ minP →
      Shape ops minP lhs → Shape ops (rightPower la bp) rhs →
      Shape ops minP (.inf la bp lhs opv rhs sp)

/-- a tree acceptable as an operand at some power is acceptable at every lower power -/
theorem Shape.mono {ops : List PrattOp} {p q : Nat} {t : PTree} (h : Shape ops p t) (hq : q ≤ p) : Shape ops q t := by
  induction h generalizing q with
  | atom => exact .atom
  | pre hm _ ih => exact .pre hm (ih (Nat.le_refl _))
  | post hm hp _ ih => exact .post hm (Nat.le_trans hq hp) (ih hq)
  | inf hm hp _ _ ih1 ih2 => exact .inf hm (Nat.le_trans hq hp) (ih1 hq) (ih2 (Nat.le_refl _))

/-- the powers along the left spine (the operators the loop applied, innermost first is last) -/
def PTree.spine : PTree → List Nat
  | .atom _ => []
  | .pre .. => []
  | .post bp lhs _ _ => (2 * bp + 1) :: lhs.spine
  | .inf la bp lhs _ _ _ => leftPower la bp :: lhs.spine

theorem Shape.spine_ge {ops : List PrattOp} {p : Nat} {t : PTree} (h : Shape ops p t) : ∀ q ∈ t.spine, q ≥ p := by
  induction h with
  | atom => simp [PTree.spine]
  | pre => simp [PTree.spine]
  | post hm hp _ ih => intro q hq; simp [PTree.spine] at hq; rcases hq with rfl | hq; exact hp; exact ih q hq
  | inf hm hp _ _ ih1 _ => intro q hq; simp [PTree.spine] at hq; rcases hq with rfl | hq; exact hp; exact ih1 q hq

/-- equal powers, left-associative: never nested to the right (`a ∘ (b ∘ c)` is not a result) -/
theorem Shape.leftAssoc_not_right_nested {ops : List PrattOp} {p bp : Nat} {lhs l2 r2 : PTree} {op o2 : Val}
    {sp sp2 : Nat × Nat} (h : Shape ops p (.inf true bp lhs op (.inf true bp l2 o2 r2 sp2) sp)) : False := by
  cases h with
  | inf _ _ _ hr => cases hr with
    | inf _ hp2 _ _ => exact leftAssoc_stops bp hp2

/-- a looser infix operator is never at the top level of the right operand of a tighter one -/
theorem Shape.no_looser_in_rhs {ops : List PrattOp} {p bp1 bp2 : Nat} {la1 la2 : Bool} {lhs l2 r2 : PTree}
    {op o2 : Val} {sp sp2 : Nat × Nat} (hlt : bp1 < bp2)
    (h : Shape ops p (.inf la2 bp2 lhs op (.inf la1 bp1 l2 o2 r2 sp2) sp)) : False := by
  cases h with
  | inf _ _ _ hr => cases hr with
    | inf _ hp2 _ _ => exact looser_stops hlt la1 la2 hp2

/-- … nor a looser postfix operator -/
theorem Shape.no_looser_postfix_in_rhs {ops : List PrattOp} {p bp1 bp2 : Nat} {la2 : Bool} {lhs l2 : PTree}
    {op o2 : Val} {sp sp2 : Nat × Nat} (hlt : bp1 < bp2)
    (h : Shape ops p (.inf la2 bp2 lhs op (.post bp1 l2 o2 sp2) sp)) : False := by
  cases h with
  | inf _ _ _ hr => cases hr with
    | post _ hp2 _ => cases la2 <;> simp [rightPower] at hp2 <;> omega

section ShapeProof
variable {trec : Nat → SS → TOut} {ops : List PrattOp}

def RecShape (ops : List PrattOp) (trec : Nat → SS → TOut) : Prop :=
  ∀ p s t s' em, trec p s = .ok t s' em → Shape ops p t

theorem tPrattPrefix_shape (hrec : RecShape ops trec) (start : SS) (minP : Nat) :
    ∀ (l : List PrattOp), (∀ o ∈ l, o ∈ ops) → ∀ {t s' em}, tPrattPrefix P trec env start l = some (.ok t s' em) →
      Shape ops minP t := by
  intro l
  induction l with
  | nil => intro _ t s' em h; simp [tPrattPrefix] at h
  | cons o rest ih =>
    intro hl t s' em h
    have ih' := @ih (fun o ho => hl o (List.mem_cons_of_mem _ ho))
    cases o with
    | «infix» la bp op => exact ih' (by simpa only [tPrattPrefix] using h)
    | «postfix» bp op => exact ih' (by simpa only [tPrattPrefix] using h)
    | «prefix» bp op =>
      simp only [tPrattPrefix] at h
      cases hP : P op start with
      | ok opv s1 e1 =>
        rw [hP] at h; simp only at h
        cases hr : trec (2 * bp) s1 with
        | ok rhs s2 e2 =>
          rw [hr] at h
          simp only [Option.some.injEq, TOut.ok.injEq] at h
          obtain ⟨rfl, rfl, rfl⟩ := h
          exact .pre (hl _ (List.mem_cons_self ..)) (hrec _ _ _ _ _ hr)
        | fail => rw [hr] at h; exact ih' h
        | panic w => rw [hr] at h; simp at h
        | oof => rw [hr] at h; simp at h
      | fail => rw [hP] at h; exact ih' h
      | panic w => rw [hP] at h; simp at h
      | oof => rw [hP] at h; simp at h

theorem tPrattPostfix_shape (start : SS) (minP : Nat) (lhs : PTree) (hlhs : Shape ops minP lhs) (s : SS) :
    ∀ (l : List PrattOp), (∀ o ∈ l, o ∈ ops) → ∀ {t s' em},
      tPrattPostfix P env start minP lhs s l = some (.ok t s' em) → Shape ops minP t := by
  intro l
  induction l with
  | nil => intro _ t s' em h; simp [tPrattPostfix] at h
  | cons o rest ih =>
    intro hl t s' em h
    have ih' := @ih (fun o ho => hl o (List.mem_cons_of_mem _ ho))
    cases o with
    | «infix» la bp op => exact ih' (by simpa only [tPrattPostfix] using h)
    | «prefix» bp op => exact ih' (by simpa only [tPrattPostfix] using h)
    | «postfix» bp op =>
      simp only [tPrattPostfix] at h
      by_cases hp : 2 * bp + 1 ≥ minP
      · simp only [hp, if_true] at h
        cases hP : P op s with
        | ok opv s1 e1 =>
          rw [hP] at h
          simp only [Option.some.injEq, TOut.ok.injEq] at h
          obtain ⟨rfl, rfl, rfl⟩ := h
          exact .post (hl _ (List.mem_cons_self ..)) hp hlhs
        | fail => rw [hP] at h; exact ih' h
        | panic w => rw [hP] at h; simp at h
        | oof => rw [hP] at h; simp at h
      · simp only [hp, if_false] at h
        exact ih' h

theorem tPrattInfix_shape (hrec : RecShape ops trec) (start : SS) (minP : Nat) (lhs : PTree)
    (hlhs : Shape ops minP lhs) (s : SS) :
    ∀ (l : List PrattOp), (∀ o ∈ l, o ∈ ops) → ∀ {t s' em},
      tPrattInfix P trec env start minP lhs s l = some (.ok t s' em) → Shape ops minP t := by
  intro l
  induction l with
  | nil => intro _ t s' em h; simp [tPrattInfix] at h
  | cons o rest ih =>
    intro hl t s' em h
    have ih' := @ih (fun o ho => hl o (List.mem_cons_of_mem _ ho))
    cases o with
    | «postfix» bp op => exact ih' (by simpa only [tPrattInfix] using h)
    | «prefix» bp op => exact ih' (by simpa only [tPrattInfix] using h)
    | «infix» la bp op =>
      simp only [tPrattInfix] at h
      by_cases hp : leftPower la bp ≥ minP
      · simp only [hp, if_true] at h
        cases hP : P op s with
        | ok opv s1 e1 =>
          rw [hP] at h; simp only at h
          cases hr : trec (rightPower la bp) s1 with
          | ok rhs s2 e2 =>
            rw [hr] at h
            simp only [Option.some.injEq, TOut.ok.injEq] at h
            obtain ⟨rfl, rfl, rfl⟩ := h
            exact .inf (hl _ (List.mem_cons_self ..)) hp hlhs (hrec _ _ _ _ _ hr)
          | fail => rw [hr] at h; exact ih' h
          | panic w => rw [hr] at h; simp at h
          | oof => rw [hr] at h; simp at h
        | fail => rw [hP] at h; exact ih' h
        | panic w => rw [hP] at h; simp at h
        | oof => rw [hP] at h; simp at h
      · simp only [hp, if_false] at h
        exact ih' h

theorem tPrattLoop_shape (hrec : RecShape ops trec) (start : SS) (minP : Nat) :
    ∀ (k : Nat) (s : SS) (lhs : PTree) (em : List Emis), Shape ops minP lhs → ∀ {t s' em'},
      tPrattLoop P trec env ops start minP k s lhs em = .ok t s' em' → Shape ops minP t := by
  intro k
  induction k with
  | zero => intro s lhs em _ t s' em' h; simp [tPrattLoop] at h
  | succ k ih =>
    intro s lhs em hlhs t s' em' h
    simp only [tPrattLoop] at h
    cases hpo : tPrattPostfix P env start minP lhs s ops with
    | some o =>
      rw [hpo] at h
      cases o with
      | ok v1 s1 e1 => exact ih _ _ _ (tPrattPostfix_shape start minP lhs hlhs s ops (fun _ h => h) hpo) h
      | fail => simp at h
      | panic w => simp at h
      | oof => simp at h
    | none =>
      rw [hpo] at h
      simp only at h
      cases hin : tPrattInfix P trec env start minP lhs s ops with
      | some o =>
        rw [hin] at h
        cases o with
        | ok v1 s1 e1 => exact ih _ _ _ (tPrattInfix_shape hrec start minP lhs hlhs s ops (fun _ h => h) hin) h
        | fail => simp at h
        | panic w => simp at h
        | oof => simp at h
      | none =>
        rw [hin] at h
        simp only [TOut.ok.injEq] at h
        obtain ⟨rfl, rfl, rfl⟩ := h
        exact hlhs

end ShapeProof

/-- the tree built by the (instrumented) reading at `min_power = minP` has the textbook shape -/
theorem tPratt_shape (atom : G) (ops : List PrattOp) :
    ∀ (k minP : Nat) (s : SS) {t : PTree} {s' : SS} {em : List Emis},
      tPratt P env atom ops k minP s = .ok t s' em → Shape ops minP t := by
  intro k
  induction k with
  | zero => intro minP s t s' em h; simp [tPratt] at h
  | succ k ih =>
    intro minP s t s' em h
    have hrec : RecShape ops (tPratt P env atom ops k) := fun p s t s' em h => ih p s h
    simp only [tPratt] at h
    cases hpre : tPrattPrefix P (tPratt P env atom ops k) env s ops with
    | some o =>
      rw [hpre] at h
      cases o with
      | ok v1 s1 e1 =>
        exact tPrattLoop_shape hrec s minP k s1 v1 e1 (tPrattPrefix_shape hrec s minP ops (fun _ h => h) hpre) h
      | fail => simp at h
      | panic w => simp at h
      | oof => simp at h
    | none =>
      rw [hpre] at h
      simp only at h
      cases hat : P atom s with
      | ok v1 s1 e1 => rw [hat] at h; exact tPrattLoop_shape hrec s minP k s1 (.atom v1) e1 .atom h
      | fail => rw [hat] at h; simp at h
      | panic w => rw [hat] at h; simp at h
      | oof => rw [hat] at h; simp at h

/-- **C09 (shape).** Every successful result of the reading is the value of a trace tree of the textbook shape:
    each operand only has top-level operators that bind at least as tightly as its parent allows. -/
theorem sPratt_shape {atom : G} {ops : List PrattOp} {k minP : Nat} {s : SS} {v : Val} {s' : SS} {em : List Emis}
    (h : sPratt P env atom ops k minP s = .ok v s' em) :
    ∃ t, tPratt P env atom ops k minP s = .ok t s' em ∧ t.val = v ∧ Shape ops minP t := by
  rw [sPratt_eq_erase] at h
  cases ht : tPratt P env atom ops k minP s with
  | ok t s1 e1 =>
    rw [ht] at h
    simp only [TOut.erase_ok, SOut.ok.injEq] at h
    obtain ⟨rfl, rfl, rfl⟩ := h
    exact ⟨t, rfl, rfl, tPratt_shape atom ops k minP s ht⟩
  | fail => rw [ht] at h; simp at h
  | panic w => rw [ht] at h; simp at h
  | oof => rw [ht] at h; simp at h

end Shape

/-! ## 4. Token order: flattening the tree gives the consumed tokens, in order -/

section Flatten

/-- in-order flattening of a fold-built tree (leaves: `tok t` / `toks ts`) -/
def flatten : Val → List Nat
  | .tok t => [t]
  | .toks ts => ts
  | .tag 20 (.pair (.pair (.pair l op) r) _) => flatten l ++ flatten op ++ flatten r
  | .tag 21 (.pair (.pair op r) _) => flatten op ++ flatten r
  | .tag 22 (.pair (.pair l op) _) => flatten l ++ flatten op
  | _ => []

@[simp] theorem flatten_tok (t : Nat) : flatten (.tok t) = [t] := by simp [flatten]
@[simp] theorem flatten_toks (ts : List Nat) : flatten (.toks ts) = ts := by simp [flatten]
@[simp] theorem flatten_foldInfix (l op r : Val) (sp : Nat × Nat) :
    flatten (foldInfix l op r sp) = flatten l ++ flatten op ++ flatten r := by simp [foldInfix, flatten]
@[simp] theorem flatten_foldPrefix (op r : Val) (sp : Nat × Nat) :
    flatten (foldPrefix op r sp) = flatten op ++ flatten r := by simp [foldPrefix, flatten]
@[simp] theorem flatten_foldPostfix (l op : Val) (sp : Nat × Nat) :
    flatten (foldPostfix l op sp) = flatten l ++ flatten op := by simp [foldPostfix, flatten]

/-- `v` flattens to exactly the tokens between `s` and `s'` -/
def Consumed (env : Env) (v : Val) (s s' : SS) : Prop :=
  s.pos ≤ s'.pos ∧ flatten v = (env.toks.drop s.pos).take (s'.pos - s.pos)

theorem span_append (toks : List Nat) {a b c : Nat} (h1 : a ≤ b) (h2 : b ≤ c) :
    (toks.drop a).take (b - a) ++ (toks.drop b).take (c - b) = (toks.drop a).take (c - a) := by
  have hk : c - a = (b - a) + (c - b) := by omega
  have hd : List.drop (b - a) (List.drop a toks) = List.drop b toks := by
    rw [List.drop_drop]; congr 1; omega
  rw [hk, List.take_add, hd]

theorem Consumed.append {env : Env} {a b c : Val} {s0 s1 s2 : SS} (h1 : Consumed env a s0 s1)
    (h2 : Consumed env b s1 s2) (hc : flatten c = flatten a ++ flatten b) : Consumed env c s0 s2 :=
  ⟨Nat.le_trans h1.1 h2.1, by rw [hc, h1.2, h2.2, span_append _ h1.1 h2.1]⟩

theorem Consumed.append3 {env : Env} {a b c d : Val} {s0 s1 s2 s3 : SS} (h1 : Consumed env a s0 s1)
    (h2 : Consumed env b s1 s2) (h3 : Consumed env c s2 s3) (hd : flatten d = flatten a ++ flatten b ++ flatten c) :
    Consumed env d s0 s3 :=
  ⟨Nat.le_trans h1.1 (Nat.le_trans h2.1 h3.1), by
    rw [hd, h1.2, h2.2, h3.2, span_append _ h1.1 h2.1, span_append _ (Nat.le_trans h1.1 h2.1) h3.1]⟩

/-- a parser whose successful results flatten to what it consumed -/
def TokFaithful (env : Env) (P : G → SS → SOut) (g : G) : Prop :=
  ∀ s v s' em, P g s = .ok v s' em → Consumed env v s s'

def PrattOp.parser : PrattOp → G
  | .infix _ _ op => op
  | .prefix _ op => op
  | .postfix _ op => op

variable {P : G → SS → SOut} {rec : Nat → SS → SOut} {env : Env}

def RecFaithful (env : Env) (rec : Nat → SS → SOut) : Prop :=
  ∀ p s v s' em, rec p s = .ok v s' em → Consumed env v s s'

theorem sPrattPrefix_consumed (hrec : RecFaithful env rec) (start : SS) :
    ∀ (l : List PrattOp), (∀ o ∈ l, TokFaithful env P o.parser) → ∀ {v s' em},
      sPrattPrefix P rec env start l = some (.ok v s' em) → Consumed env v start s' := by
  intro l
  induction l with
  | nil => intro _ v s' em h; simp [sPrattPrefix] at h
  | cons o rest ih =>
    intro hl v s' em h
    have ih' := @ih (fun o ho => hl o (List.mem_cons_of_mem _ ho))
    cases o with
    | «infix» la bp op => exact ih' (by simpa only [sPrattPrefix] using h)
    | «postfix» bp op => exact ih' (by simpa only [sPrattPrefix] using h)
    | «prefix» bp op =>
      simp only [sPrattPrefix] at h
      cases hP : P op start with
      | ok opv s1 e1 =>
        rw [hP] at h; simp only at h
        cases hr : rec (2 * bp) s1 with
        | ok rhs s2 e2 =>
          rw [hr] at h
          simp only [Option.some.injEq, SOut.ok.injEq] at h
          obtain ⟨rfl, rfl, rfl⟩ := h
          exact (hl _ (List.mem_cons_self ..) _ _ _ _ hP).append (hrec _ _ _ _ _ hr) (by simp)
        | fail => rw [hr] at h; exact ih' h
        | panic w => rw [hr] at h; simp at h
        | oof => rw [hr] at h; simp at h
      | fail => rw [hP] at h; exact ih' h
      | panic w => rw [hP] at h; simp at h
      | oof => rw [hP] at h; simp at h

theorem sPrattPostfix_consumed (start : SS) (minP : Nat) (lhs : Val) (s : SS) (hlhs : Consumed env lhs start s) :
    ∀ (l : List PrattOp), (∀ o ∈ l, TokFaithful env P o.parser) → ∀ {v s' em},
      sPrattPostfix P env start minP lhs s l = some (.ok v s' em) → Consumed env v start s' := by
  intro l
  induction l with
  | nil => intro _ v s' em h; simp [sPrattPostfix] at h
  | cons o rest ih =>
    intro hl v s' em h
    have ih' := @ih (fun o ho => hl o (List.mem_cons_of_mem _ ho))
    cases o with
    | «infix» la bp op => exact ih' (by simpa only [sPrattPostfix] using h)
    | «prefix» bp op => exact ih' (by simpa only [sPrattPostfix] using h)
    | «postfix» bp op =>
      simp only [sPrattPostfix] at h
      by_cases hp : 2 * bp + 1 ≥ minP
      · simp only [hp, if_true] at h
        cases hP : P op s with
        | ok opv s1 e1 =>
          rw [hP] at h
          simp only [Option.some.injEq, SOut.ok.injEq] at h
          obtain ⟨rfl, rfl, rfl⟩ := h
          exact hlhs.append (hl _ (List.mem_cons_self ..) _ _ _ _ hP) (by simp)
        | fail => rw [hP] at h; exact ih' h
        | panic w => rw [hP] at h; simp at h
        | oof => rw [hP] at h; simp at h
      · simp only [hp, if_false] at h
        exact ih' h

theorem sPrattInfix_consumed (hrec : RecFaithful env rec) (start : SS) (minP : Nat) (lhs : Val) (s : SS)
    (hlhs : Consumed env lhs start s) :
    ∀ (l : List PrattOp), (∀ o ∈ l, TokFaithful env P o.parser) → ∀ {v s' em},
      sPrattInfix P rec env start minP lhs s l = some (.ok v s' em) → Consumed env v start s' := by
  intro l
  induction l with
  | nil => intro _ v s' em h; simp [sPrattInfix] at h
  | cons o rest ih =>
    intro hl v s' em h
    have ih' := @ih (fun o ho => hl o (List.mem_cons_of_mem _ ho))
    cases o with
    | «postfix» bp op => exact ih' (by simpa only [sPrattInfix] using h)
    | «prefix» bp op => exact ih' (by simpa only [sPrattInfix] using h)
    | «infix» la bp op =>
      simp only [sPrattInfix] at h
      by_cases hp : leftPower la bp ≥ minP
      · simp only [hp, if_true] at h
        cases hP : P op s with
        | ok opv s1 e1 =>
          rw [hP] at h; simp only at h
          cases hr : rec (rightPower la bp) s1 with
          | ok rhs s2 e2 =>
            rw [hr] at h
            simp only [Option.some.injEq, SOut.ok.injEq] at h
            obtain ⟨rfl, rfl, rfl⟩ := h
            exact hlhs.append3 (hl _ (List.mem_cons_self ..) _ _ _ _ hP) (hrec _ _ _ _ _ hr) (by simp)
          | fail => rw [hr] at h; exact ih' h
          | panic w => rw [hr] at h; simp at h
          | oof => rw [hr] at h; simp at h
        | fail => rw [hP] at h; exact ih' h
        | panic w => rw [hP] at h; simp at h
        | oof => rw [hP] at h; simp at h
      · simp only [hp, if_false] at h
        exact ih' h


theorem sPrattLoop_consumed (hrec : RecFaithful env rec) (ops : List PrattOp)
    (hops : ∀ o ∈ ops, TokFaithful env P o.parser) (start : SS) (minP : Nat) :
    ∀ (k : Nat) (s : SS) (lhs : Val) (em : List Emis), Consumed env lhs start s → ∀ {v s' em'},
      sPrattLoop P rec env ops start minP k s lhs em = .ok v s' em' → Consumed env v start s' := by
  intro k
  induction k with
  | zero => intro s lhs em _ v s' em' h; simp [sPrattLoop] at h
  | succ k ih =>
    intro s lhs em hlhs v s' em' h
    simp only [sPrattLoop] at h
    cases hpo : sPrattPostfix P env start minP lhs s ops with
    | some o =>
      rw [hpo] at h
      cases o with
      | ok v1 s1 e1 => exact ih _ _ _ (sPrattPostfix_consumed start minP lhs s hlhs ops hops hpo) h
      | fail => simp at h
      | panic w => simp at h
      | oof => simp at h
    | none =>
      rw [hpo] at h
      simp only at h
      cases hin : sPrattInfix P rec env start minP lhs s ops with
      | some o =>
        rw [hin] at h
        cases o with
        | ok v1 s1 e1 => exact ih _ _ _ (sPrattInfix_consumed hrec start minP lhs s hlhs ops hops hin) h
        | fail => simp at h
        | panic w => simp at h
        | oof => simp at h
      | none =>
        rw [hin] at h
        simp only [SOut.ok.injEq] at h
        obtain ⟨rfl, rfl, rfl⟩ := h
        exact hlhs

/-- **C09 (token order), general form.** If the atom parser and every operator parser return values that flatten to
    the tokens they consumed, so does the pratt reading: the flattening of the tree is exactly the consumed tokens,
    in order. -/
theorem sPratt_consumed (atom : G) (ops : List PrattOp) (hatom : TokFaithful env P atom)
    (hops : ∀ o ∈ ops, TokFaithful env P o.parser) :
    ∀ (k minP : Nat) (s : SS) {v : Val} {s' : SS} {em : List Emis},
      sPratt P env atom ops k minP s = .ok v s' em → Consumed env v s s' := by
  intro k
  induction k with
  | zero => intro minP s v s' em h; simp [sPratt] at h
  | succ k ih =>
    intro minP s v s' em h
    have hrec : RecFaithful env (sPratt P env atom ops k) := fun p s v s' em h => ih p s h
    simp only [sPratt] at h
    cases hpre : sPrattPrefix P (sPratt P env atom ops k) env s ops with
    | some o =>
      rw [hpre] at h
      cases o with
      | ok v1 s1 e1 =>
        exact sPrattLoop_consumed hrec ops hops s minP k s1 v1 e1 (sPrattPrefix_consumed hrec s ops hops hpre) h
      | fail => simp at h
      | panic w => simp at h
      | oof => simp at h
    | none =>
      rw [hpre] at h
      simp only at h
      cases hat : P atom s with
      | ok v1 s1 e1 =>
        rw [hat] at h
        exact sPrattLoop_consumed hrec ops hops s minP k s1 v1 e1 (hatom _ _ _ _ hat) h
      | fail => rw [hat] at h; simp at h
      | panic w => rw [hat] at h; simp at h
      | oof => rw [hat] at h; simp at h

/-! ### token-level tables: `any` / `one_of` atoms, `just` operators -/

theorem drop_of_getElem? {l : List Nat} {p t : Nat} (h : l[p]? = some t) : l.drop p = t :: l.drop (p + 1) := by
  obtain ⟨hlt, rfl⟩ := List.getElem?_eq_some_iff.1 h
  exact List.drop_eq_getElem_cons hlt

theorem sTokenPrim_consumed {env : Env} {s : SS} {accept : Nat → Option Val}
    (hacc : ∀ t v, accept t = some v → v = .tok t) {v s' em} (h : sTokenPrim env s accept = .ok v s' em) :
    Consumed env v s s' := by
  unfold sTokenPrim at h
  cases ht : env.toks[s.pos]? with
  | none => rw [ht] at h; simp at h
  | some t =>
    rw [ht] at h; simp only at h
    cases ha : accept t with
    | none => rw [ha] at h; simp at h
    | some w =>
      rw [ha] at h
      simp only [SOut.ok.injEq] at h
      obtain ⟨rfl, rfl, rfl⟩ := h
      have := hacc t w ha
      subst this
      refine ⟨by simp [SS.adv], ?_⟩
      simp [SS.adv, drop_of_getElem? ht]

theorem sJust_consumed {env : Env} : ∀ (ts : List Nat) (s s' : SS), sJust env ts s = some s' →
    s.pos ≤ s'.pos ∧ ts = (env.toks.drop s.pos).take (s'.pos - s.pos) := by
  intro ts
  induction ts with
  | nil => intro s s' h; simp [sJust] at h; subst h; simp
  | cons e es ih =>
    intro s s' h
    unfold sJust at h
    cases ht : env.toks[s.pos]? with
    | none => rw [ht] at h; simp at h
    | some t =>
      rw [ht] at h; simp only at h
      by_cases hte : t = e
      · subst hte
        simp only [BEq.rfl, if_true] at h
        obtain ⟨hle, hes⟩ := ih _ _ h
        simp only [SS.adv] at hle hes
        refine ⟨by omega, ?_⟩
        have hk : s'.pos - s.pos = (s'.pos - (s.pos + 1)) + 1 := by omega
        rw [drop_of_getElem? ht, hk, List.take_succ_cons, ← hes]
      · have : (t == e) = false := by simp [hte]
        simp [this] at h

theorem just_faithful (n : Nat) (env : Env) (ctx : Val) (ts : List Nat) :
    TokFaithful env (fun g s => peg n env g s ctx) (.just ts) := by
  intro s v s' em h
  cases n with
  | zero => simp [peg] at h
  | succ n =>
    simp only [peg, pegStep] at h
    cases hj : sJust env ts s with
    | none => rw [hj] at h; simp at h
    | some s1 =>
      rw [hj] at h
      simp only [SOut.ok.injEq] at h
      obtain ⟨rfl, rfl, rfl⟩ := h
      obtain ⟨hle, hts⟩ := sJust_consumed ts s s1 hj
      exact ⟨hle, by simpa using hts⟩

theorem any_faithful (n : Nat) (env : Env) (ctx : Val) : TokFaithful env (fun g s => peg n env g s ctx) .any := by
  intro s v s' em h
  cases n with
  | zero => simp [peg] at h
  | succ n =>
    simp only [peg, pegStep] at h
    exact sTokenPrim_consumed (by intro t v h; simpa using h.symm) h

theorem oneOf_faithful (n : Nat) (env : Env) (ctx : Val) (ts : List Nat) :
    TokFaithful env (fun g s => peg n env g s ctx) (.oneOf ts) := by
  intro s v s' em h
  cases n with
  | zero => simp [peg] at h
  | succ n =>
    simp only [peg, pegStep] at h
    refine sTokenPrim_consumed ?_ h
    intro t v h
    by_cases hc : ts.contains t = true
    · simp only [hc, if_true, Option.some.injEq] at h; exact h.symm
    · simp only [hc] at h; simp at h

theorem noneOf_faithful (n : Nat) (env : Env) (ctx : Val) (ts : List Nat) :
    TokFaithful env (fun g s => peg n env g s ctx) (.noneOf ts) := by
  intro s v s' em h
  cases n with
  | zero => simp [peg] at h
  | succ n =>
    simp only [peg, pegStep] at h
    refine sTokenPrim_consumed ?_ h
    intro t v h
    by_cases hc : ts.contains t = true
    · simp only [hc, if_true] at h; simp at h
    · simp only [hc, Bool.false_eq_true, if_false, Option.some.injEq] at h; exact h.symm

/-- a token-level table: the atom is `any` / `one_of(..)` / `none_of(..)`, every operator parser is `just(..)` -/
def TokenAtom : G → Prop
  | .any | .oneOf _ | .noneOf _ => True
  | _ => False

def TokenOp (o : PrattOp) : Prop := ∃ ts, o.parser = .just ts

/-- **C09 (token order).** For a token-level table the flattening of the tree built by `atom.pratt(ops)` is exactly
    the consumed tokens, in order. -/
theorem pegPratt_flatten {fuel : Nat} {env : Env} {atom : G} {ops : List PrattOp} (hatom : TokenAtom atom)
    (hops : ∀ o ∈ ops, TokenOp o) {s : SS} {ctx v : Val} {s' : SS} {em : List Emis}
    (h : pegPratt fuel env atom ops s ctx = .ok v s' em) :
    s.pos ≤ s'.pos ∧ flatten v = (env.toks.drop s.pos).take (s'.pos - s.pos) := by
  unfold pegPratt at h
  refine sPratt_consumed atom ops ?_ ?_ fuel 0 s h
  · cases atom <;> simp only [TokenAtom] at hatom
    · exact any_faithful fuel env ctx
    · exact oneOf_faithful fuel env ctx _
    · exact noneOf_faithful fuel env ctx _
  · intro o ho
    obtain ⟨ts, hts⟩ := hops o ho
    rw [hts]
    exact just_faithful fuel env ctx ts

/-- … and, through the refinement, of the tree built by the machine in `emit` mode -/
theorem runPratt_flatten {fuel : Nat} {env : Env} (hm : env.memoOn = false) {atom : G} {ops : List PrattOp}
    (hatom : TokenAtom atom) (hops : ∀ o ∈ ops, TokenOp o) {st : St} {v : Val} {st' : St}
    (h : runPratt fuel env .emit atom ops st = .ok v st') :
    st.pos ≤ st'.pos ∧ flatten v = (env.toks.drop st.pos).take (st'.pos - st.pos) := by
  have hr := runPratt_refines fuel env .emit atom ops st hm
  rw [h] at hr
  cases hp : pegPratt fuel env atom ops st.ss st.ctx with
  | ok v' s' em =>
    rw [hp] at hr
    have hr' : OkRel .emit st.errs st.ctx v st' v' s' em := hr
    have hv : v = v' := by simpa using hr'.val
    have := pegPratt_flatten hatom hops hp
    rw [← hr'.ss, ← hv] at this
    simpa using this
  | fail => rw [hp] at hr; exact hr.elim
  | panic w => rw [hp] at hr; exact hr.elim
  | oof => rw [hp] at hr; exact hr.elim

end Flatten

#print axioms prattGo_refines
#print axioms prattGo_run_refines
#print axioms runPratt_refines
#print axioms parseTopPratt_refines
#print axioms power_lt_of_bp_lt
#print axioms equal_power_admits
#print axioms sPrattLoop_maximal
#print axioms sPratt_maximal
#print axioms pegPratt_maximal
#print axioms sPratt_eq_erase
#print axioms sPratt_shape
#print axioms sPratt_consumed
#print axioms pegPratt_flatten
#print axioms runPratt_flatten

end Chumsky
