/-
  Proofs/Lemmas/MemoFull.lean — C11, the GLOBAL theorem: `memoized()` is transparent, by induction on the fuel and cases on
  every constructor of a syntactic class (closes the gap left open in MemoSim.lean / C11.lean).

  THE CLASS  `G.memoSafe ve : G → Bool`  (`ve = true`: additionally no `validate`), `memoized id a` allowed at ANY node:
      primitives      end_ empty any just oneOf noneOf select custom todo
      sequencing      then_ ignoreThen thenIgnore delimitedBy paddedBy group groupArr
      choice / look   or_ choice(tuple|slice) orNot not_ andIs rewind
      values          map to ignored filter tryMap tryMapWith toSpan toSlice mapWithSpan validate(ve = false)
      iteration       collect collectExactly foldl foldr foldlWith foldrWith iterP
                      over  repeated separatedBy enumerate orNotIt intoIter thenIt mapIt
      decorations     labelled (also as_context) mapErr
      wrappers        boxed withState memoized
  EXCLUDED, and why:
      call                                   — recursion: a hit saves fuel, so ON and OFF cannot be compared at the same
                                               fuel (`cex_fuel`); left recursion is therefore outside the class, too
      mapWithState mapWithCtx configureJust  — read the inspector / the context: a memoized body must be determined by the
      configureRep tryConfigureRep             position (`cex_ctx`)
      withCtx ignoreWithCtx thenWithCtx mapCtx — context providers (harmless, not done)
      recoverVia recoverSkipUntil recoverSkipRetry — recovery emits the sheltered pending error (`cex_recovery`: false)
  HYPOTHESES: `g.memoSafe ve`, `g.memoIds.Nodup` (pairwise distinct memo ids: then every node sits at one depth, its body
  always runs at the same fuel, and no node lies inside itself, so no in-progress marker of its own is ever hit), and for
  the start state: the table invariant `TableInv` (trivial for the empty table) and no in-progress marker for an id of `g`.

  MAIN RESULTS (namespace `Chumsky`)
      run_memo_transparent          run N env(ON) m g s  vs  run N (env.withMemo false) m g t, from `MRel env.ek o s t`
                                    (any sheltered offset `o`): `MOutRel` — same outcome kind, same value, `MRel` again on
                                    success (pos, errs, insp, ctx equal; alt_OFF ≈ o ⊕ alt_ON), `FRel` on failure, table
                                    invariant (`TableOK`) re-established
      run_memo_transparent_empty    the same from one state with an empty table, in plain terms
      run_memo_errs_stable          `ve = true`: every result state (failed ones too) has the secondary errors of the start
      parseTop_memo_transparent     `TopMemoRel`: same acceptance, same output; same error list when there is an output;
                                    without output both lists end with the primary error, equal up to `Err.equiv`
      parseTop_memo_transparent_full `ve = true`: `TopMemoRelFull`: … and the whole error lists are `Err.equiv` pointwise
      parseTop_memo_vs_plain(_full) the same against the grammar with all `memoized` nodes removed (`G.stripMemo`)
      MF.posDetermined_run          (iii) of MemoSim for `run`: OFF, a failure of a `memoSafe` grammar and the error it
                                    contributes are determined by the position alone (`PosDetermined (run n) env a`)
  Why only the primary error on a failed parse in the presence of `validate`: after a *hit* the ON run has not re-emitted
  the secondary errors the body emitted before failing (`FRel` relates only the frames, as in the library); every caller
  that continues rewinds them away, but a failure that reaches the top keeps them.  (`ve = true`: there are none.)

  HOW.  One two-run simulation (`MF.step_sim`, `MF.stepNext_sim`, `MF.stepMk_sim`, `MF.all_sim`) in the relations
      `WRel o s t`   pos equal,  alt_t ≈ o ⊕ alt_s,  and IF `F`: errs, insp, ctx equal            (`MRel` when `F`)
      `WOk`          `WRel` + inside the caller's frame `(base, c)`: IF `F`: base <+: errs, ctx = c; table predicate
      `WFail`        alt_s is some, alt_t ≈ o ⊕ alt_s, and IF `F`: base <+: both errs, both ctx = c   (`FRel` when `F`)
  instantiated twice:
      OFF vs OFF with `F := False` — from states that agree on the position only; this yields `posDetermined_run`
          (run once from `alt = none`, then the simulation with offset `t'.alt` against any other state `t'`; the mode
          by ModeSim, the frame of the failing state by I1 `run_refines`);
      ON vs OFF with `F := True` — the `memoized` case is `step_memoized_transparent` of MemoSim (miss/ok, miss/fail,
          hit), fed with the induction hypothesis for the body and with `posDetermined_run` for (iii).
  Every constructor preserves the relation *for an arbitrary offset* because both runs merge the same new error into
  their pending error (`alt_merge`: `⊕` is associative and a congruence up to `OptLoc.equiv`), and every combinator that
  continues after a failed sub-run rewinds to a checkpoint of a state whose frame the failure was measured in
  (`WFail.rewind`).  The table invariant is threaded as `Cx.Pre` / `Cx.Post` (`TableInv`, no in-progress entry of a node
  below, `InProgSub`).  The nodes of the top grammar with the depth of their bodies (`G.memoNodes`) give `B`/`Rof` of
  MemoSim: `memoB`, `memoRof N` (body of a node at depth `k` runs with `run (N - k)`).
-/
import ChumskyModel.Proofs.Lemmas.MemoSim
import ChumskyModel.Proofs.Lemmas.MemoOff
import ChumskyModel.Proofs.Lemmas.Master
import ChumskyModel.Proofs.Lemmas.ModeSim
set_option linter.unusedSimpArgs false
set_option linter.unusedVariables false
namespace Chumsky

/-! ### the class, and the memo nodes of a grammar with the depth their bodies run at -/

/-- a memo node: (id, body, depth of the body) — a grammar at depth `d` is run by `run (N - d)` -/
abbrev MNode := Nat × G × Nat
abbrev Memo := List ((Nat × Nat) × Option Loc)

mutual
def G.memoSafe (ve : Bool) : G → Bool
  | .end_ => true
  | .empty => true
  | .any => true
  | .just _ => true
  | .oneOf _ => true
  | .noneOf _ => true
  | .select _ => true
  | .custom _ => true
  | .todo => true
  | .then_ a b => G.memoSafe ve a && G.memoSafe ve b
  | .ignoreThen a b => G.memoSafe ve a && G.memoSafe ve b
  | .thenIgnore a b => G.memoSafe ve a && G.memoSafe ve b
  | .delimitedBy a l r => G.memoSafe ve a && G.memoSafe ve l && G.memoSafe ve r
  | .paddedBy a p => G.memoSafe ve a && G.memoSafe ve p
  | .group gs => memoSafeL ve gs
  | .groupArr gs => memoSafeL ve gs
  | .or_ a b => G.memoSafe ve a && G.memoSafe ve b
  | .choice _ gs => memoSafeL ve gs
  | .orNot a => G.memoSafe ve a
  | .not_ a => G.memoSafe ve a
  | .andIs a b => G.memoSafe ve a && G.memoSafe ve b
  | .rewind a => G.memoSafe ve a
  | .map _ a => G.memoSafe ve a
  | .to _ a => G.memoSafe ve a
  | .ignored a => G.memoSafe ve a
  | .filter _ a => G.memoSafe ve a
  | .tryMap _ a => G.memoSafe ve a
  | .tryMapWith _ a => G.memoSafe ve a
  | .toSpan a => G.memoSafe ve a
  | .toSlice a => G.memoSafe ve a
  | .mapWithSpan a => G.memoSafe ve a
  | .mapWithState _ => false
  | .mapWithCtx _ => false
  | .validate _ a => !ve && G.memoSafe ve a
  | .collect _ it => It.memoSafe ve it
  | .collectExactly _ it => It.memoSafe ve it
  | .foldl _ a it => G.memoSafe ve a && It.memoSafe ve it
  | .foldr _ it b => It.memoSafe ve it && G.memoSafe ve b
  | .foldlWith a it => G.memoSafe ve a && It.memoSafe ve it
  | .foldrWith it b => It.memoSafe ve it && G.memoSafe ve b
  | .iterP it => It.memoSafe ve it
  | .recoverVia _ _ => false
  | .recoverSkipUntil _ _ _ _ => false
  | .recoverSkipRetry _ _ _ => false
  | .labelled _ _ a => G.memoSafe ve a
  | .mapErr _ a => G.memoSafe ve a
  | .withCtx _ _ => false
  | .ignoreWithCtx _ _ => false
  | .thenWithCtx _ _ => false
  | .mapCtx _ _ => false
  | .configureJust _ _ => false
  | .withState a => G.memoSafe ve a
  | .memoized _ a => G.memoSafe ve a
  | .call _ => false
  | .boxed a => G.memoSafe ve a
def It.memoSafe (ve : Bool) : It → Bool
  | .repeated a _ _ => G.memoSafe ve a
  | .separatedBy a sep _ _ _ _ => G.memoSafe ve a && G.memoSafe ve sep
  | .enumerate it => It.memoSafe ve it
  | .orNotIt a => G.memoSafe ve a
  | .intoIter a => G.memoSafe ve a
  | .thenIt a b => It.memoSafe ve a && It.memoSafe ve b
  | .mapIt _ it => It.memoSafe ve it
  | .configureRep _ _ => false
  | .tryConfigureRep _ _ => false
def memoSafeL (ve : Bool) : List G → Bool
  | [] => true
  | g :: gs => G.memoSafe ve g && memoSafeL ve gs
end


/-! ### the `validate`-free class is a sub-class -/

mutual
theorem G.memoSafe_weaken' : ∀ g : G, g.memoSafe true = true → g.memoSafe false = true
  | .end_ => by simp [G.memoSafe, It.memoSafe, memoSafeL]
  | .empty => by simp [G.memoSafe, It.memoSafe, memoSafeL]
  | .any => by simp [G.memoSafe, It.memoSafe, memoSafeL]
  | .just _ => by simp [G.memoSafe, It.memoSafe, memoSafeL]
  | .oneOf _ => by simp [G.memoSafe, It.memoSafe, memoSafeL]
  | .noneOf _ => by simp [G.memoSafe, It.memoSafe, memoSafeL]
  | .select _ => by simp [G.memoSafe, It.memoSafe, memoSafeL]
  | .custom _ => by simp [G.memoSafe, It.memoSafe, memoSafeL]
  | .todo => by simp [G.memoSafe, It.memoSafe, memoSafeL]
  | .then_ a b => by intro h; simp only [G.memoSafe, It.memoSafe, memoSafeL, Bool.and_eq_true] at h ⊢; exact ⟨G.memoSafe_weaken' a h.1, G.memoSafe_weaken' b h.2⟩
  | .ignoreThen a b => by intro h; simp only [G.memoSafe, It.memoSafe, memoSafeL, Bool.and_eq_true] at h ⊢; exact ⟨G.memoSafe_weaken' a h.1, G.memoSafe_weaken' b h.2⟩
  | .thenIgnore a b => by intro h; simp only [G.memoSafe, It.memoSafe, memoSafeL, Bool.and_eq_true] at h ⊢; exact ⟨G.memoSafe_weaken' a h.1, G.memoSafe_weaken' b h.2⟩
  | .delimitedBy a l r => by intro h; simp only [G.memoSafe, It.memoSafe, memoSafeL, Bool.and_eq_true] at h ⊢; exact ⟨⟨G.memoSafe_weaken' a h.1.1, G.memoSafe_weaken' l h.1.2⟩, G.memoSafe_weaken' r h.2⟩
  | .paddedBy a p => by intro h; simp only [G.memoSafe, It.memoSafe, memoSafeL, Bool.and_eq_true] at h ⊢; exact ⟨G.memoSafe_weaken' a h.1, G.memoSafe_weaken' p h.2⟩
  | .group gs => by intro h; simp only [G.memoSafe, It.memoSafe, memoSafeL, Bool.and_eq_true] at h ⊢; exact memoSafeL_weaken' gs h
  | .groupArr gs => by intro h; simp only [G.memoSafe, It.memoSafe, memoSafeL, Bool.and_eq_true] at h ⊢; exact memoSafeL_weaken' gs h
  | .or_ a b => by intro h; simp only [G.memoSafe, It.memoSafe, memoSafeL, Bool.and_eq_true] at h ⊢; exact ⟨G.memoSafe_weaken' a h.1, G.memoSafe_weaken' b h.2⟩
  | .choice _ gs => by intro h; simp only [G.memoSafe, It.memoSafe, memoSafeL, Bool.and_eq_true] at h ⊢; exact memoSafeL_weaken' gs h
  | .orNot a => by intro h; simp only [G.memoSafe, It.memoSafe, memoSafeL, Bool.and_eq_true] at h ⊢; exact G.memoSafe_weaken' a h
  | .not_ a => by intro h; simp only [G.memoSafe, It.memoSafe, memoSafeL, Bool.and_eq_true] at h ⊢; exact G.memoSafe_weaken' a h
  | .andIs a b => by intro h; simp only [G.memoSafe, It.memoSafe, memoSafeL, Bool.and_eq_true] at h ⊢; exact ⟨G.memoSafe_weaken' a h.1, G.memoSafe_weaken' b h.2⟩
  | .rewind a => by intro h; simp only [G.memoSafe, It.memoSafe, memoSafeL, Bool.and_eq_true] at h ⊢; exact G.memoSafe_weaken' a h
  | .map _ a => by intro h; simp only [G.memoSafe, It.memoSafe, memoSafeL, Bool.and_eq_true] at h ⊢; exact G.memoSafe_weaken' a h
  | .to _ a => by intro h; simp only [G.memoSafe, It.memoSafe, memoSafeL, Bool.and_eq_true] at h ⊢; exact G.memoSafe_weaken' a h
  | .ignored a => by intro h; simp only [G.memoSafe, It.memoSafe, memoSafeL, Bool.and_eq_true] at h ⊢; exact G.memoSafe_weaken' a h
  | .filter _ a => by intro h; simp only [G.memoSafe, It.memoSafe, memoSafeL, Bool.and_eq_true] at h ⊢; exact G.memoSafe_weaken' a h
  | .tryMap _ a => by intro h; simp only [G.memoSafe, It.memoSafe, memoSafeL, Bool.and_eq_true] at h ⊢; exact G.memoSafe_weaken' a h
  | .tryMapWith _ a => by intro h; simp only [G.memoSafe, It.memoSafe, memoSafeL, Bool.and_eq_true] at h ⊢; exact G.memoSafe_weaken' a h
  | .toSpan a => by intro h; simp only [G.memoSafe, It.memoSafe, memoSafeL, Bool.and_eq_true] at h ⊢; exact G.memoSafe_weaken' a h
  | .toSlice a => by intro h; simp only [G.memoSafe, It.memoSafe, memoSafeL, Bool.and_eq_true] at h ⊢; exact G.memoSafe_weaken' a h
  | .mapWithSpan a => by intro h; simp only [G.memoSafe, It.memoSafe, memoSafeL, Bool.and_eq_true] at h ⊢; exact G.memoSafe_weaken' a h
  | .mapWithState _ => by simp [G.memoSafe, It.memoSafe, memoSafeL]
  | .mapWithCtx _ => by simp [G.memoSafe, It.memoSafe, memoSafeL]
  | .validate _ a => by simp [G.memoSafe, It.memoSafe, memoSafeL]
  | .collect _ it => by intro h; simp only [G.memoSafe, It.memoSafe, memoSafeL, Bool.and_eq_true] at h ⊢; exact It.memoSafe_weaken' it h
  | .collectExactly _ it => by intro h; simp only [G.memoSafe, It.memoSafe, memoSafeL, Bool.and_eq_true] at h ⊢; exact It.memoSafe_weaken' it h
  | .foldl _ a it => by intro h; simp only [G.memoSafe, It.memoSafe, memoSafeL, Bool.and_eq_true] at h ⊢; exact ⟨G.memoSafe_weaken' a h.1, It.memoSafe_weaken' it h.2⟩
  | .foldr _ it b => by intro h; simp only [G.memoSafe, It.memoSafe, memoSafeL, Bool.and_eq_true] at h ⊢; exact ⟨It.memoSafe_weaken' it h.1, G.memoSafe_weaken' b h.2⟩
  | .foldlWith a it => by intro h; simp only [G.memoSafe, It.memoSafe, memoSafeL, Bool.and_eq_true] at h ⊢; exact ⟨G.memoSafe_weaken' a h.1, It.memoSafe_weaken' it h.2⟩
  | .foldrWith it b => by intro h; simp only [G.memoSafe, It.memoSafe, memoSafeL, Bool.and_eq_true] at h ⊢; exact ⟨It.memoSafe_weaken' it h.1, G.memoSafe_weaken' b h.2⟩
  | .iterP it => by intro h; simp only [G.memoSafe, It.memoSafe, memoSafeL, Bool.and_eq_true] at h ⊢; exact It.memoSafe_weaken' it h
  | .recoverVia _ _ => by simp [G.memoSafe, It.memoSafe, memoSafeL]
  | .recoverSkipUntil _ _ _ _ => by simp [G.memoSafe, It.memoSafe, memoSafeL]
  | .recoverSkipRetry _ _ _ => by simp [G.memoSafe, It.memoSafe, memoSafeL]
  | .labelled _ _ a => by intro h; simp only [G.memoSafe, It.memoSafe, memoSafeL, Bool.and_eq_true] at h ⊢; exact G.memoSafe_weaken' a h
  | .mapErr _ a => by intro h; simp only [G.memoSafe, It.memoSafe, memoSafeL, Bool.and_eq_true] at h ⊢; exact G.memoSafe_weaken' a h
  | .withCtx _ _ => by simp [G.memoSafe, It.memoSafe, memoSafeL]
  | .ignoreWithCtx _ _ => by simp [G.memoSafe, It.memoSafe, memoSafeL]
  | .thenWithCtx _ _ => by simp [G.memoSafe, It.memoSafe, memoSafeL]
  | .mapCtx _ _ => by simp [G.memoSafe, It.memoSafe, memoSafeL]
  | .configureJust _ _ => by simp [G.memoSafe, It.memoSafe, memoSafeL]
  | .withState a => by intro h; simp only [G.memoSafe, It.memoSafe, memoSafeL, Bool.and_eq_true] at h ⊢; exact G.memoSafe_weaken' a h
  | .memoized _ a => by intro h; simp only [G.memoSafe, It.memoSafe, memoSafeL, Bool.and_eq_true] at h ⊢; exact G.memoSafe_weaken' a h
  | .call _ => by simp [G.memoSafe, It.memoSafe, memoSafeL]
  | .boxed a => by intro h; simp only [G.memoSafe, It.memoSafe, memoSafeL, Bool.and_eq_true] at h ⊢; exact G.memoSafe_weaken' a h
theorem It.memoSafe_weaken' : ∀ it : It, it.memoSafe true = true → it.memoSafe false = true
  | .repeated a _ _ => by intro h; simp only [G.memoSafe, It.memoSafe, memoSafeL, Bool.and_eq_true] at h ⊢; exact G.memoSafe_weaken' a h
  | .separatedBy a sep _ _ _ _ => by intro h; simp only [G.memoSafe, It.memoSafe, memoSafeL, Bool.and_eq_true] at h ⊢; exact ⟨G.memoSafe_weaken' a h.1, G.memoSafe_weaken' sep h.2⟩
  | .enumerate it => by intro h; simp only [G.memoSafe, It.memoSafe, memoSafeL, Bool.and_eq_true] at h ⊢; exact It.memoSafe_weaken' it h
  | .orNotIt a => by intro h; simp only [G.memoSafe, It.memoSafe, memoSafeL, Bool.and_eq_true] at h ⊢; exact G.memoSafe_weaken' a h
  | .intoIter a => by intro h; simp only [G.memoSafe, It.memoSafe, memoSafeL, Bool.and_eq_true] at h ⊢; exact G.memoSafe_weaken' a h
  | .thenIt a b => by intro h; simp only [G.memoSafe, It.memoSafe, memoSafeL, Bool.and_eq_true] at h ⊢; exact ⟨It.memoSafe_weaken' a h.1, It.memoSafe_weaken' b h.2⟩
  | .mapIt _ it => by intro h; simp only [G.memoSafe, It.memoSafe, memoSafeL, Bool.and_eq_true] at h ⊢; exact It.memoSafe_weaken' it h
  | .configureRep _ _ => by simp [G.memoSafe, It.memoSafe, memoSafeL]
  | .tryConfigureRep _ _ => by simp [G.memoSafe, It.memoSafe, memoSafeL]
theorem memoSafeL_weaken' : ∀ gs : List G, memoSafeL true gs = true → memoSafeL false gs = true
  | [] => by simp [G.memoSafe, It.memoSafe, memoSafeL]
  | g :: gs => by intro h; simp only [G.memoSafe, It.memoSafe, memoSafeL, Bool.and_eq_true] at h ⊢; exact ⟨G.memoSafe_weaken' g h.1, memoSafeL_weaken' gs h.2⟩
end

mutual
def G.memoNodes : Nat → G → List MNode
  | _, .end_ => []
  | _, .empty => []
  | _, .any => []
  | _, .just _ => []
  | _, .oneOf _ => []
  | _, .noneOf _ => []
  | _, .select _ => []
  | _, .custom _ => []
  | _, .todo => []
  | d, .then_ a b => G.memoNodes (d + 1) a ++ G.memoNodes (d + 1) b
  | d, .ignoreThen a b => G.memoNodes (d + 1) a ++ G.memoNodes (d + 1) b
  | d, .thenIgnore a b => G.memoNodes (d + 1) a ++ G.memoNodes (d + 1) b
  | d, .delimitedBy a l r => G.memoNodes (d + 1) a ++ (G.memoNodes (d + 1) l ++ G.memoNodes (d + 1) r)
  | d, .paddedBy a p => G.memoNodes (d + 1) a ++ G.memoNodes (d + 1) p
  | d, .group gs => memoNodesL (d + 1) gs
  | d, .groupArr gs => memoNodesL (d + 1) gs
  | d, .or_ a b => G.memoNodes (d + 1) a ++ G.memoNodes (d + 1) b
  | d, .choice _ gs => memoNodesL (d + 1) gs
  | d, .orNot a => G.memoNodes (d + 1) a
  | d, .not_ a => G.memoNodes (d + 1) a
  | d, .andIs a b => G.memoNodes (d + 1) a ++ G.memoNodes (d + 1) b
  | d, .rewind a => G.memoNodes (d + 1) a
  | d, .map _ a => G.memoNodes (d + 1) a
  | d, .to _ a => G.memoNodes (d + 1) a
  | d, .ignored a => G.memoNodes (d + 1) a
  | d, .filter _ a => G.memoNodes (d + 1) a
  | d, .tryMap _ a => G.memoNodes (d + 1) a
  | d, .tryMapWith _ a => G.memoNodes (d + 1) a
  | d, .toSpan a => G.memoNodes (d + 1) a
  | d, .toSlice a => G.memoNodes (d + 1) a
  | d, .mapWithSpan a => G.memoNodes (d + 1) a
  | _, .mapWithState _ => []
  | _, .mapWithCtx _ => []
  | d, .validate _ a => G.memoNodes (d + 1) a
  | d, .collect _ it => It.memoNodes (d + 1) it
  | d, .collectExactly _ it => It.memoNodes (d + 1) it
  | d, .foldl _ a it => G.memoNodes (d + 1) a ++ It.memoNodes (d + 1) it
  | d, .foldr _ it b => It.memoNodes (d + 1) it ++ G.memoNodes (d + 1) b
  | d, .foldlWith a it => G.memoNodes (d + 1) a ++ It.memoNodes (d + 1) it
  | d, .foldrWith it b => It.memoNodes (d + 1) it ++ G.memoNodes (d + 1) b
  | d, .iterP (.repeated a 0 none) => G.memoNodes (d + 1) a
  | d, .iterP (.repeated a 0 (some _)) => G.memoNodes (d + 2) a
  | d, .iterP (.repeated a (_ + 1) _) => G.memoNodes (d + 2) a
  | d, .iterP (.separatedBy a sep _ _ _ _) => G.memoNodes (d + 2) a ++ G.memoNodes (d + 2) sep
  | d, .iterP (.intoIter a) => G.memoNodes (d + 1) a
  | _, .iterP (.enumerate _) => []
  | _, .iterP (.orNotIt _) => []
  | _, .iterP (.thenIt _ _) => []
  | _, .iterP (.mapIt _ _) => []
  | _, .iterP (.configureRep _ _) => []
  | _, .iterP (.tryConfigureRep _ _) => []
  | _, .recoverVia _ _ => []
  | _, .recoverSkipUntil _ _ _ _ => []
  | _, .recoverSkipRetry _ _ _ => []
  | d, .labelled _ _ a => G.memoNodes (d + 1) a
  | d, .mapErr _ a => G.memoNodes (d + 1) a
  | _, .withCtx _ _ => []
  | _, .ignoreWithCtx _ _ => []
  | _, .thenWithCtx _ _ => []
  | _, .mapCtx _ _ => []
  | _, .configureJust _ _ => []
  | d, .withState a => G.memoNodes (d + 1) a
  | d, .memoized id a => (id, a, d + 1) :: G.memoNodes (d + 1) a
  | _, .call _ => []
  | d, .boxed a => G.memoNodes (d + 1) a
def It.memoNodes : Nat → It → List MNode
  | d, .repeated a _ _ => G.memoNodes (d + 1) a
  | d, .separatedBy a sep _ _ _ _ => G.memoNodes (d + 1) a ++ G.memoNodes (d + 1) sep
  | d, .enumerate it => It.memoNodes (d + 1) it
  | d, .orNotIt a => G.memoNodes (d + 1) a
  | d, .intoIter a => G.memoNodes (d + 1) a
  | d, .thenIt a b => It.memoNodes (d + 1) a ++ It.memoNodes (d + 1) b
  | d, .mapIt _ it => It.memoNodes (d + 1) it
  | _, .configureRep _ _ => []
  | _, .tryConfigureRep _ _ => []
def memoNodesL : Nat → List G → List MNode
  | _, [] => []
  | d, g :: gs => G.memoNodes d g ++ memoNodesL d gs
end


/-! ### the ids of the memo nodes do not depend on the depth -/

mutual
theorem G.memoIds_shift : ∀ (g : G) (d d' : Nat), (G.memoNodes d g).map (·.1) = (G.memoNodes d' g).map (·.1)
  | .end_, d, d' => by simp only [G.memoNodes, It.memoNodes, memoNodesL, List.map_append, List.map_cons, List.map_nil]
  | .empty, d, d' => by simp only [G.memoNodes, It.memoNodes, memoNodesL, List.map_append, List.map_cons, List.map_nil]
  | .any, d, d' => by simp only [G.memoNodes, It.memoNodes, memoNodesL, List.map_append, List.map_cons, List.map_nil]
  | .just _, d, d' => by simp only [G.memoNodes, It.memoNodes, memoNodesL, List.map_append, List.map_cons, List.map_nil]
  | .oneOf _, d, d' => by simp only [G.memoNodes, It.memoNodes, memoNodesL, List.map_append, List.map_cons, List.map_nil]
  | .noneOf _, d, d' => by simp only [G.memoNodes, It.memoNodes, memoNodesL, List.map_append, List.map_cons, List.map_nil]
  | .select _, d, d' => by simp only [G.memoNodes, It.memoNodes, memoNodesL, List.map_append, List.map_cons, List.map_nil]
  | .custom _, d, d' => by simp only [G.memoNodes, It.memoNodes, memoNodesL, List.map_append, List.map_cons, List.map_nil]
  | .todo, d, d' => by simp only [G.memoNodes, It.memoNodes, memoNodesL, List.map_append, List.map_cons, List.map_nil]
  | .then_ a b, d, d' => by simp only [G.memoNodes, It.memoNodes, memoNodesL, List.map_append, List.map_cons, List.map_nil, G.memoIds_shift a (d + 1) (d' + 1), G.memoIds_shift b (d + 1) (d' + 1)]
  | .ignoreThen a b, d, d' => by simp only [G.memoNodes, It.memoNodes, memoNodesL, List.map_append, List.map_cons, List.map_nil, G.memoIds_shift a (d + 1) (d' + 1), G.memoIds_shift b (d + 1) (d' + 1)]
  | .thenIgnore a b, d, d' => by simp only [G.memoNodes, It.memoNodes, memoNodesL, List.map_append, List.map_cons, List.map_nil, G.memoIds_shift a (d + 1) (d' + 1), G.memoIds_shift b (d + 1) (d' + 1)]
  | .delimitedBy a l r, d, d' => by simp only [G.memoNodes, It.memoNodes, memoNodesL, List.map_append, List.map_cons, List.map_nil, G.memoIds_shift a (d + 1) (d' + 1), G.memoIds_shift l (d + 1) (d' + 1), G.memoIds_shift r (d + 1) (d' + 1)]
  | .paddedBy a p, d, d' => by simp only [G.memoNodes, It.memoNodes, memoNodesL, List.map_append, List.map_cons, List.map_nil, G.memoIds_shift a (d + 1) (d' + 1), G.memoIds_shift p (d + 1) (d' + 1)]
  | .group gs, d, d' => by simp only [G.memoNodes, It.memoNodes, memoNodesL, List.map_append, List.map_cons, List.map_nil, memoIdsL_shift gs (d + 1) (d' + 1)]
  | .groupArr gs, d, d' => by simp only [G.memoNodes, It.memoNodes, memoNodesL, List.map_append, List.map_cons, List.map_nil, memoIdsL_shift gs (d + 1) (d' + 1)]
  | .or_ a b, d, d' => by simp only [G.memoNodes, It.memoNodes, memoNodesL, List.map_append, List.map_cons, List.map_nil, G.memoIds_shift a (d + 1) (d' + 1), G.memoIds_shift b (d + 1) (d' + 1)]
  | .choice _ gs, d, d' => by simp only [G.memoNodes, It.memoNodes, memoNodesL, List.map_append, List.map_cons, List.map_nil, memoIdsL_shift gs (d + 1) (d' + 1)]
  | .orNot a, d, d' => by simp only [G.memoNodes, It.memoNodes, memoNodesL, List.map_append, List.map_cons, List.map_nil, G.memoIds_shift a (d + 1) (d' + 1)]
  | .not_ a, d, d' => by simp only [G.memoNodes, It.memoNodes, memoNodesL, List.map_append, List.map_cons, List.map_nil, G.memoIds_shift a (d + 1) (d' + 1)]
  | .andIs a b, d, d' => by simp only [G.memoNodes, It.memoNodes, memoNodesL, List.map_append, List.map_cons, List.map_nil, G.memoIds_shift a (d + 1) (d' + 1), G.memoIds_shift b (d + 1) (d' + 1)]
  | .rewind a, d, d' => by simp only [G.memoNodes, It.memoNodes, memoNodesL, List.map_append, List.map_cons, List.map_nil, G.memoIds_shift a (d + 1) (d' + 1)]
  | .map _ a, d, d' => by simp only [G.memoNodes, It.memoNodes, memoNodesL, List.map_append, List.map_cons, List.map_nil, G.memoIds_shift a (d + 1) (d' + 1)]
  | .to _ a, d, d' => by simp only [G.memoNodes, It.memoNodes, memoNodesL, List.map_append, List.map_cons, List.map_nil, G.memoIds_shift a (d + 1) (d' + 1)]
  | .ignored a, d, d' => by simp only [G.memoNodes, It.memoNodes, memoNodesL, List.map_append, List.map_cons, List.map_nil, G.memoIds_shift a (d + 1) (d' + 1)]
  | .filter _ a, d, d' => by simp only [G.memoNodes, It.memoNodes, memoNodesL, List.map_append, List.map_cons, List.map_nil, G.memoIds_shift a (d + 1) (d' + 1)]
  | .tryMap _ a, d, d' => by simp only [G.memoNodes, It.memoNodes, memoNodesL, List.map_append, List.map_cons, List.map_nil, G.memoIds_shift a (d + 1) (d' + 1)]
  | .tryMapWith _ a, d, d' => by simp only [G.memoNodes, It.memoNodes, memoNodesL, List.map_append, List.map_cons, List.map_nil, G.memoIds_shift a (d + 1) (d' + 1)]
  | .toSpan a, d, d' => by simp only [G.memoNodes, It.memoNodes, memoNodesL, List.map_append, List.map_cons, List.map_nil, G.memoIds_shift a (d + 1) (d' + 1)]
  | .toSlice a, d, d' => by simp only [G.memoNodes, It.memoNodes, memoNodesL, List.map_append, List.map_cons, List.map_nil, G.memoIds_shift a (d + 1) (d' + 1)]
  | .mapWithSpan a, d, d' => by simp only [G.memoNodes, It.memoNodes, memoNodesL, List.map_append, List.map_cons, List.map_nil, G.memoIds_shift a (d + 1) (d' + 1)]
  | .mapWithState _, d, d' => by simp only [G.memoNodes, It.memoNodes, memoNodesL, List.map_append, List.map_cons, List.map_nil]
  | .mapWithCtx _, d, d' => by simp only [G.memoNodes, It.memoNodes, memoNodesL, List.map_append, List.map_cons, List.map_nil]
  | .validate _ a, d, d' => by simp only [G.memoNodes, It.memoNodes, memoNodesL, List.map_append, List.map_cons, List.map_nil, G.memoIds_shift a (d + 1) (d' + 1)]
  | .collect _ it, d, d' => by simp only [G.memoNodes, It.memoNodes, memoNodesL, List.map_append, List.map_cons, List.map_nil, It.memoIds_shift it (d + 1) (d' + 1)]
  | .collectExactly _ it, d, d' => by simp only [G.memoNodes, It.memoNodes, memoNodesL, List.map_append, List.map_cons, List.map_nil, It.memoIds_shift it (d + 1) (d' + 1)]
  | .foldl _ a it, d, d' => by simp only [G.memoNodes, It.memoNodes, memoNodesL, List.map_append, List.map_cons, List.map_nil, G.memoIds_shift a (d + 1) (d' + 1), It.memoIds_shift it (d + 1) (d' + 1)]
  | .foldr _ it b, d, d' => by simp only [G.memoNodes, It.memoNodes, memoNodesL, List.map_append, List.map_cons, List.map_nil, It.memoIds_shift it (d + 1) (d' + 1), G.memoIds_shift b (d + 1) (d' + 1)]
  | .foldlWith a it, d, d' => by simp only [G.memoNodes, It.memoNodes, memoNodesL, List.map_append, List.map_cons, List.map_nil, G.memoIds_shift a (d + 1) (d' + 1), It.memoIds_shift it (d + 1) (d' + 1)]
  | .foldrWith it b, d, d' => by simp only [G.memoNodes, It.memoNodes, memoNodesL, List.map_append, List.map_cons, List.map_nil, It.memoIds_shift it (d + 1) (d' + 1), G.memoIds_shift b (d + 1) (d' + 1)]
  | .iterP (.repeated a 0 none), d, d' => by simp only [G.memoNodes, It.memoNodes, memoNodesL, List.map_append, List.map_cons, List.map_nil, G.memoIds_shift a (d + 1) (d' + 1)]
  | .iterP (.repeated a 0 (some _)), d, d' => by simp only [G.memoNodes, It.memoNodes, memoNodesL, List.map_append, List.map_cons, List.map_nil, G.memoIds_shift a (d + 2) (d' + 2)]
  | .iterP (.repeated a (_ + 1) _), d, d' => by simp only [G.memoNodes, It.memoNodes, memoNodesL, List.map_append, List.map_cons, List.map_nil, G.memoIds_shift a (d + 2) (d' + 2)]
  | .iterP (.separatedBy a sep _ _ _ _), d, d' => by simp only [G.memoNodes, It.memoNodes, memoNodesL, List.map_append, List.map_cons, List.map_nil, G.memoIds_shift a (d + 2) (d' + 2), G.memoIds_shift sep (d + 2) (d' + 2)]
  | .iterP (.intoIter a), d, d' => by simp only [G.memoNodes, It.memoNodes, memoNodesL, List.map_append, List.map_cons, List.map_nil, G.memoIds_shift a (d + 1) (d' + 1)]
  | .iterP (.enumerate _), d, d' => by simp only [G.memoNodes, It.memoNodes, memoNodesL, List.map_append, List.map_cons, List.map_nil]
  | .iterP (.orNotIt _), d, d' => by simp only [G.memoNodes, It.memoNodes, memoNodesL, List.map_append, List.map_cons, List.map_nil]
  | .iterP (.thenIt _ _), d, d' => by simp only [G.memoNodes, It.memoNodes, memoNodesL, List.map_append, List.map_cons, List.map_nil]
  | .iterP (.mapIt _ _), d, d' => by simp only [G.memoNodes, It.memoNodes, memoNodesL, List.map_append, List.map_cons, List.map_nil]
  | .iterP (.configureRep _ _), d, d' => by simp only [G.memoNodes, It.memoNodes, memoNodesL, List.map_append, List.map_cons, List.map_nil]
  | .iterP (.tryConfigureRep _ _), d, d' => by simp only [G.memoNodes, It.memoNodes, memoNodesL, List.map_append, List.map_cons, List.map_nil]
  | .recoverVia _ _, d, d' => by simp only [G.memoNodes, It.memoNodes, memoNodesL, List.map_append, List.map_cons, List.map_nil]
  | .recoverSkipUntil _ _ _ _, d, d' => by simp only [G.memoNodes, It.memoNodes, memoNodesL, List.map_append, List.map_cons, List.map_nil]
  | .recoverSkipRetry _ _ _, d, d' => by simp only [G.memoNodes, It.memoNodes, memoNodesL, List.map_append, List.map_cons, List.map_nil]
  | .labelled _ _ a, d, d' => by simp only [G.memoNodes, It.memoNodes, memoNodesL, List.map_append, List.map_cons, List.map_nil, G.memoIds_shift a (d + 1) (d' + 1)]
  | .mapErr _ a, d, d' => by simp only [G.memoNodes, It.memoNodes, memoNodesL, List.map_append, List.map_cons, List.map_nil, G.memoIds_shift a (d + 1) (d' + 1)]
  | .withCtx _ _, d, d' => by simp only [G.memoNodes, It.memoNodes, memoNodesL, List.map_append, List.map_cons, List.map_nil]
  | .ignoreWithCtx _ _, d, d' => by simp only [G.memoNodes, It.memoNodes, memoNodesL, List.map_append, List.map_cons, List.map_nil]
  | .thenWithCtx _ _, d, d' => by simp only [G.memoNodes, It.memoNodes, memoNodesL, List.map_append, List.map_cons, List.map_nil]
  | .mapCtx _ _, d, d' => by simp only [G.memoNodes, It.memoNodes, memoNodesL, List.map_append, List.map_cons, List.map_nil]
  | .configureJust _ _, d, d' => by simp only [G.memoNodes, It.memoNodes, memoNodesL, List.map_append, List.map_cons, List.map_nil]
  | .withState a, d, d' => by simp only [G.memoNodes, It.memoNodes, memoNodesL, List.map_append, List.map_cons, List.map_nil, G.memoIds_shift a (d + 1) (d' + 1)]
  | .memoized id a, d, d' => by simp only [G.memoNodes, It.memoNodes, memoNodesL, List.map_append, List.map_cons, List.map_nil, G.memoIds_shift a (d + 1) (d' + 1)]
  | .call _, d, d' => by simp only [G.memoNodes, It.memoNodes, memoNodesL, List.map_append, List.map_cons, List.map_nil]
  | .boxed a, d, d' => by simp only [G.memoNodes, It.memoNodes, memoNodesL, List.map_append, List.map_cons, List.map_nil, G.memoIds_shift a (d + 1) (d' + 1)]
theorem It.memoIds_shift : ∀ (it : It) (d d' : Nat), (It.memoNodes d it).map (·.1) = (It.memoNodes d' it).map (·.1)
  | .repeated a _ _, d, d' => by simp only [G.memoNodes, It.memoNodes, memoNodesL, List.map_append, List.map_cons, List.map_nil, G.memoIds_shift a (d + 1) (d' + 1)]
  | .separatedBy a sep _ _ _ _, d, d' => by simp only [G.memoNodes, It.memoNodes, memoNodesL, List.map_append, List.map_cons, List.map_nil, G.memoIds_shift a (d + 1) (d' + 1), G.memoIds_shift sep (d + 1) (d' + 1)]
  | .enumerate it, d, d' => by simp only [G.memoNodes, It.memoNodes, memoNodesL, List.map_append, List.map_cons, List.map_nil, It.memoIds_shift it (d + 1) (d' + 1)]
  | .orNotIt a, d, d' => by simp only [G.memoNodes, It.memoNodes, memoNodesL, List.map_append, List.map_cons, List.map_nil, G.memoIds_shift a (d + 1) (d' + 1)]
  | .intoIter a, d, d' => by simp only [G.memoNodes, It.memoNodes, memoNodesL, List.map_append, List.map_cons, List.map_nil, G.memoIds_shift a (d + 1) (d' + 1)]
  | .thenIt a b, d, d' => by simp only [G.memoNodes, It.memoNodes, memoNodesL, List.map_append, List.map_cons, List.map_nil, It.memoIds_shift a (d + 1) (d' + 1), It.memoIds_shift b (d + 1) (d' + 1)]
  | .mapIt _ it, d, d' => by simp only [G.memoNodes, It.memoNodes, memoNodesL, List.map_append, List.map_cons, List.map_nil, It.memoIds_shift it (d + 1) (d' + 1)]
  | .configureRep _ _, d, d' => by simp only [G.memoNodes, It.memoNodes, memoNodesL, List.map_append, List.map_cons, List.map_nil]
  | .tryConfigureRep _ _, d, d' => by simp only [G.memoNodes, It.memoNodes, memoNodesL, List.map_append, List.map_cons, List.map_nil]
theorem memoIdsL_shift : ∀ (gs : List G) (d d' : Nat), (memoNodesL d gs).map (·.1) = (memoNodesL d' gs).map (·.1)
  | [], d, d' => by simp only [G.memoNodes, It.memoNodes, memoNodesL, List.map_append, List.map_cons, List.map_nil]
  | g :: gs, d, d' => by simp only [G.memoNodes, It.memoNodes, memoNodesL, List.map_append, List.map_cons, List.map_nil, G.memoIds_shift g d d', memoIdsL_shift gs d d']
end

/-- the memo ids of a grammar, in syntactic order -/
def G.memoIds (g : G) : List Nat := (G.memoNodes 0 g).map (·.1)

theorem G.memoIds_eq (g : G) (d : Nat) : (G.memoNodes d g).map (·.1) = g.memoIds := G.memoIds_shift g d 0

namespace MF

/-! ### the setting of one simulation -/

/-- what is fixed during one simulation: the first environment (`memoOn` arbitrary; the second one is
    `env.withMemo false`), the flag `F` ("the two runs also agree on secondary errors, inspector, context" —
    forced when memoization is on), the table invariant's parameters and the nodes of the top grammar -/
structure Cx where
  env : Env
  ve : Bool
  F : Prop
  hF : env.memoOn = true → F
  B : Nat → G → Prop
  Rof : Nat → Runner
  nodes0 : List MNode

namespace Cx
variable (X : Cx)

abbrev env' : Env := X.env.withMemo false
abbrev ek : ErrKind := X.env.ek

/-- precondition on the table for running a grammar whose nodes are `l` -/
def Pre (l : List MNode) (memo : Memo) : Prop :=
  l.Sublist X.nodes0 ∧
  (X.env.memoOn = true → TableInv X.B X.Rof X.env' memo ∧
    ∀ (p : Nat) (x : MNode), x ∈ l → memoFind memo (p, x.1) ≠ some none)

def Post (memo0 memo : Memo) : Prop :=
  X.env.memoOn = true → TableOK X.B X.Rof X.env' memo0 memo

variable {X}

theorem Pre.app_l {l1 l2 memo} (h : X.Pre (l1 ++ l2) memo) : X.Pre l1 memo :=
  ⟨(List.sublist_append_left l1 l2).trans h.1, fun hon => ⟨(h.2 hon).1, fun p x hx =>
    (h.2 hon).2 p x (List.mem_append_left _ hx)⟩⟩

theorem Pre.app_r {l1 l2 memo} (h : X.Pre (l1 ++ l2) memo) : X.Pre l2 memo :=
  ⟨(List.sublist_append_right l1 l2).trans h.1, fun hon => ⟨(h.2 hon).1, fun p x hx =>
    (h.2 hon).2 p x (List.mem_append_right _ hx)⟩⟩

theorem Pre.tail {x l memo} (h : X.Pre (x :: l) memo) : X.Pre l memo :=
  Pre.app_r (l1 := [x]) h

theorem Pre.step {l memo0 memo} (h : X.Pre l memo0) (hp : X.Post memo0 memo) : X.Pre l memo :=
  ⟨h.1, fun hon => ⟨(hp hon).1, fun p x hx hf => (h.2 hon).2 p x hx ((hp hon).2 _ hf)⟩⟩

theorem Pre.refl {l memo} (h : X.Pre l memo) : X.Post memo memo :=
  fun hon => ⟨(h.2 hon).1, fun _ hk => hk⟩

theorem Post.trans {m0 m1 m2} (h1 : X.Post m0 m1) (h2 : X.Post m1 m2) : X.Post m0 m2 :=
  fun hon => ⟨(h2 hon).1, fun k hk => (h1 hon).2 k ((h2 hon).2 k hk)⟩

end Cx

/-! ### the second environment -/

section envLemmas
variable (env : Env) (b : Bool)
@[simp] theorem Env.withMemo_mkSpan : (env.withMemo b).mkSpan = env.mkSpan := rfl
@[simp] theorem Env.withMemo_off : (env.withMemo b).off = env.off := rfl
@[simp] theorem Env.withMemo_toks : (env.withMemo b).toks = env.toks := rfl
@[simp] theorem St.next_withMemo : St.next (env.withMemo b) = St.next env := rfl
@[simp] theorem St.peek_withMemo : St.peek (env.withMemo b) = St.peek env := rfl
@[simp] theorem St.addAlt_withMemo : St.addAlt (env.withMemo b) = St.addAlt env := rfl
@[simp] theorem St.addAltErr_withMemo : St.addAltErr (env.withMemo b) = St.addAltErr env := rfl
@[simp] theorem St.readdAlt_withMemo : St.readdAlt (env.withMemo b) = St.readdAlt env := rfl
@[simp] theorem tokenPrim_withMemo : tokenPrim (env.withMemo b) = tokenPrim env := rfl
@[simp] theorem runCustom_withMemo : runCustom (env.withMemo b) = runCustom env := rfl
@[simp] theorem justRun_withMemo : ∀ (ts : List Nat) (st : St), justRun (env.withMemo b) ts st = justRun env ts st
  | [], st => rfl
  | e :: es, st => by
    simp only [justRun, St.next_withMemo, Env.withMemo_mkSpan, St.addAlt_withMemo, justRun_withMemo es]
theorem Env.withMemo_self (h : env.memoOn = false) : env.withMemo false = env := by
  cases env; simp_all [Env.withMemo]
end envLemmas

/-! ### memo field of the state operations -/

@[simp] theorem addAlt_memo (env : Env) (st : St) (e f s) : (st.addAlt env e f s).memo = st.memo := by
  unfold St.addAlt; split <;> rfl
@[simp] theorem readdAlt_memo (env : Env) (st : St) (n) : (St.readdAlt env st n).memo = st.memo :=
  (readdAlt_frame env st n).2.2.2.2
@[simp] theorem next_memo (env : Env) (st : St) : (st.next env).2.memo = st.memo := by
  unfold St.next; split <;> rfl
@[simp] theorem next_pos_insp (env : Env) (st : St) :
    (st.next env).2.pos = st.pos + (if (st.next env).1.isSome then 1 else 0) := by
  unfold St.next; split <;> simp [*]
attribute [simp] addAltErr_memo

/-! ### the relations -/

theorem OptLoc.isSome_of_equiv {a b : Option Loc} (h : OptLoc.equiv a b) (hb : b.isSome = true) : a.isSome = true := by
  cases a <;> cases b <;> simp_all [OptLoc.equiv]

/-- `ta ≈ o ⊕ sa`, both runs merge `x` in: `ta' ≈ o ⊕ sa'` -/
theorem alt_merge {ek : ErrKind} {o sa ta sa' ta' x x' : Option Loc} (h : OptLoc.equiv ta (oplus ek o sa))
    (ht : OptLoc.equiv ta' (oplus ek ta x)) (hs : OptLoc.equiv sa' (oplus ek sa x')) (hx : OptLoc.equiv x x') :
    OptLoc.equiv ta' (oplus ek o sa') := by
  refine OptLoc.equiv_trans ht ?_
  refine OptLoc.equiv_trans (oplus_congr h hx) ?_
  refine OptLoc.equiv_trans (OptLoc.equiv_symm (oplus_assoc _ _ _ _)) ?_
  exact oplus_congr (OptLoc.equiv_refl _) (OptLoc.equiv_symm hs)

section rel
variable (X : Cx)

/-- first-run state `s` vs second-run state `t` (`MRel` when `F`) -/
structure WRel (o : Option Loc) (s t : St) : Prop where
  pos : s.pos = t.pos
  alt : OptLoc.equiv t.alt (oplus X.ek o s.alt)
  full : X.F → s.errs = t.errs ∧ s.insp = t.insp ∧ s.ctx = t.ctx

/-- related states inside the frame `(base, c)` of a caller, table predicate `Q`;
    `stab`: in the `validate`-free class (`ve`) the secondary errors never change -/
structure WOk (Q : Memo → Prop) (o : Option Loc) (base : List Loc) (c : Val) (s t : St) : Prop
    extends WRel X o s t where
  frame : X.F → base <+: s.errs ∧ s.ctx = c
  stab : X.F → X.ve = true → s.errs = base
  tab : Q s.memo

/-- related failures: only the frame (`FRel` when `F`) -/
structure WFail (Q : Memo → Prop) (o : Option Loc) (base : List Loc) (c : Val) (s t : St) : Prop where
  some : s.alt.isSome = true
  alt : OptLoc.equiv t.alt (oplus X.ek o s.alt)
  full : X.F → base <+: s.errs ∧ base <+: t.errs ∧ s.ctx = c ∧ t.ctx = c
  stab : X.F → X.ve = true → s.errs = base ∧ t.errs = base
  tab : Q s.memo

inductive WOut (Q : Memo → Prop) (o : Option Loc) (base : List Loc) (c : Val) : Out → Out → Prop
  | ok (v : Val) {s t : St} : WOk X Q o base c s t → WOut Q o base c (.ok v s) (.ok v t)
  | fail {s t : St} : WFail X Q o base c s t → WOut Q o base c (.fail s) (.fail t)
  | panic (w : Nat) : WOut Q o base c (.panic w) (.panic w)
  | oof : WOut Q o base c .oof .oof

inductive WIt (Q : Memo → Prop) (o : Option Loc) (base : List Loc) (c : Val) : ItOut → ItOut → Prop
  | some (v : Val) (ist : ItSt) {s t : St} : WOk X Q o base c s t → WIt Q o base c (.some v s ist) (.some v t ist)
  | done (ist : ItSt) {s t : St} : WOk X Q o base c s t → WIt Q o base c (.done s ist) (.done t ist)
  | fail {s t : St} : WFail X Q o base c s t → WIt Q o base c (.fail s) (.fail t)
  | panic (w : Nat) : WIt Q o base c (.panic w) (.panic w)
  | oof : WIt Q o base c .oof .oof

inductive WMk (Q : Memo → Prop) (o : Option Loc) (base : List Loc) (c : Val) : MkOut → MkOut → Prop
  | ok (ist : ItSt) {s t : St} : WOk X Q o base c s t → WMk Q o base c (.ok ist s) (.ok ist t)
  | fail {s t : St} : WFail X Q o base c s t → WMk Q o base c (.fail s) (.fail t)
  | panic (w : Nat) : WMk Q o base c (.panic w) (.panic w)
  | oof : WMk Q o base c .oof .oof

end rel

section relLemmas
variable {X : Cx} {Q Q1 : Memo → Prop} {o : Option Loc} {base b1 : List Loc} {c c1 : Val} {s t s' t' : St}

theorem WRel.init (h : WRel X o s t) (hq : Q s.memo) : WOk X Q o s.errs s.ctx s t :=
  { h with frame := fun _ => ⟨List.prefix_refl _, rfl⟩, stab := fun _ _ => rfl, tab := hq }

/-- what links the frame of a sub-run started in a state with secondary errors `b1`, context `c1` to the caller's -/
structure Link (X : Cx) (base b1 : List Loc) (c c1 : Val) : Prop where
  frame : X.F → base <+: b1 ∧ c1 = c
  stab : X.F → X.ve = true → b1 = base

theorem WOk.link (h : WOk X Q o base c s t) : Link X base s.errs c s.ctx := ⟨h.frame, h.stab⟩

theorem WOk.rebase (h : WOk X Q1 o b1 c1 s t) (hb : Link X base b1 c c1) (hq : ∀ m, Q1 m → Q m) :
    WOk X Q o base c s t :=
  { h.toWRel with
    frame := fun hF => ⟨(hb.frame hF).1.trans (h.frame hF).1, (h.frame hF).2.trans (hb.frame hF).2⟩
    stab := fun hF hE => (h.stab hF hE).trans (hb.stab hF hE)
    tab := hq _ h.tab }

theorem WFail.rebase (h : WFail X Q1 o b1 c1 s t) (hb : Link X base b1 c c1) (hq : ∀ m, Q1 m → Q m) :
    WFail X Q o base c s t :=
  ⟨h.some, h.alt, fun hF => ⟨(hb.frame hF).1.trans (h.full hF).1, (hb.frame hF).1.trans (h.full hF).2.1,
    (h.full hF).2.2.1.trans (hb.frame hF).2, (h.full hF).2.2.2.trans (hb.frame hF).2⟩,
    fun hF hE => ⟨(h.stab hF hE).1.trans (hb.stab hF hE), (h.stab hF hE).2.trans (hb.stab hF hE)⟩, hq _ h.tab⟩

theorem WOut.rebase {x y : Out} (h : WOut X Q1 o b1 c1 x y) (hb : Link X base b1 c c1)
    (hq : ∀ m, Q1 m → Q m) : WOut X Q o base c x y := by
  cases h with
  | ok v h => exact .ok v (h.rebase hb hq)
  | fail h => exact .fail (h.rebase hb hq)
  | panic w => exact .panic w
  | oof => exact .oof

theorem WIt.rebase {x y : ItOut} (h : WIt X Q1 o b1 c1 x y) (hb : Link X base b1 c c1)
    (hq : ∀ m, Q1 m → Q m) : WIt X Q o base c x y := by
  cases h with
  | some v ist h => exact .some v ist (h.rebase hb hq)
  | done ist h => exact .done ist (h.rebase hb hq)
  | fail h => exact .fail (h.rebase hb hq)
  | panic w => exact .panic w
  | oof => exact .oof

theorem WMk.rebase {x y : MkOut} (h : WMk X Q1 o b1 c1 x y) (hb : Link X base b1 c c1)
    (hq : ∀ m, Q1 m → Q m) : WMk X Q o base c x y := by
  cases h with
  | ok ist h => exact .ok ist (h.rebase hb hq)
  | fail h => exact .fail (h.rebase hb hq)
  | panic w => exact .panic w
  | oof => exact .oof

/-- a failed sub-run rewound to the checkpoint of the state `(s, t)` whose frame it was measured in -/
theorem WFail.rewind (hs : WRel X o s t) (h : WFail X Q o s.errs s.ctx s' t') :
    WOk X Q o s.errs s.ctx (s'.rewind s.save) (t'.rewind t.save) where
  pos := hs.pos
  alt := h.alt
  full := fun hF => by
    obtain ⟨h1, h2, h3, h4⟩ := h.full hF
    obtain ⟨e1, e2, e3⟩ := hs.full hF
    refine ⟨?_, e2, h3.trans h4.symm⟩
    show s'.errs.take s.errs.length = t'.errs.take t.errs.length
    rw [take_of_prefix h1, ← e1, take_of_prefix h2]
  frame := fun hF => by
    obtain ⟨h1, h2, h3, h4⟩ := h.full hF
    refine ⟨?_, h3⟩
    show s.errs <+: s'.errs.take s.errs.length
    rw [take_of_prefix h1]; exact List.prefix_refl _
  stab := fun hF _ => by
    show s'.errs.take s.errs.length = s.errs
    exact take_of_prefix (h.full hF).1
  tab := h.tab

theorem WOk.toFail (h : WOk X Q o base c s t) (hs : s.alt.isSome = true) : WFail X Q o base c s t :=
  ⟨hs, h.alt, fun hF => ⟨(h.frame hF).1, (h.full hF).1 ▸ (h.frame hF).1, (h.frame hF).2,
    (h.full hF).2.2 ▸ (h.frame hF).2⟩, fun hF hE => ⟨h.stab hF hE, (h.full hF).1 ▸ h.stab hF hE⟩, h.tab⟩

/-- rewind cursor and inspector to the checkpoint of an earlier related pair -/
theorem WOk.rewindInput {sc tc : St} (h : WOk X Q o base c s t) (hp : sc.pos = tc.pos)
    (hi : X.F → sc.insp = tc.insp) : WOk X Q o base c (s.rewindInput sc.save) (t.rewindInput tc.save) where
  pos := hp
  alt := h.alt
  full := fun hF => ⟨(h.full hF).1, hi hF, (h.full hF).2.2⟩
  frame := h.frame
  stab := h.stab
  tab := h.tab

/-- full rewind of a *successful* state to the checkpoint of an earlier related pair in the same frame -/
theorem WOk.rewindTo {Q' : Memo → Prop} {o' : Option Loc} {sc tc : St} (h : WOk X Q o base c s t)
    (hc : WOk X Q' o' base c sc tc) : WOk X Q o base c (s.rewind sc.save) (t.rewind tc.save) where
  pos := hc.pos
  alt := h.alt
  full := fun hF => by
    obtain ⟨e1, e2, e3⟩ := hc.full hF
    obtain ⟨f1, f2, f3⟩ := h.full hF
    refine ⟨?_, e2, f3⟩
    show s.errs.take sc.errs.length = t.errs.take tc.errs.length
    rw [← f1, ← e1]
  frame := fun hF => by
    obtain ⟨h1, h2⟩ := h.frame hF
    refine ⟨?_, h2⟩
    show base <+: s.errs.take sc.errs.length
    exact List.prefix_take_iff.mpr ⟨h1, (hc.frame hF).1.length_le⟩
  stab := fun hF hE => by
    show s.errs.take sc.errs.length = base
    rw [h.stab hF hE, hc.stab hF hE, List.take_length]
  tab := h.tab

/-- both runs set their pending error aside -/
theorem WOk.altNone (h : WOk X Q o base c s t) :
    WOk X Q none base c { s with alt := none } { t with alt := none } where
  pos := h.pos
  alt := trivial
  full := h.full
  frame := h.frame
  stab := h.stab
  tab := h.tab

theorem WOk.setAltLog {x y : Option Loc} {o' : Option Loc} {lg lg' : List Loc} (h : WOk X Q o base c s t)
    (hxy : OptLoc.equiv y (oplus X.ek o' x)) :
    WOk X Q o' base c { s with alt := x, log := lg } { t with alt := y, log := lg' } where
  pos := h.pos
  alt := hxy
  full := h.full
  frame := h.frame
  stab := h.stab
  tab := h.tab

/-- `validate` (outside the `validate`-free class) -/
theorem WOk.appendErrs (h : WOk X Q o base c s t) (hv : X.ve = false) (l : List Loc) :
    WOk X Q o base c { s with errs := s.errs ++ l } { t with errs := t.errs ++ l } where
  pos := h.pos
  alt := h.alt
  full := fun hF => ⟨by rw [(h.full hF).1], (h.full hF).2⟩
  frame := fun hF => ⟨(h.frame hF).1.trans (List.prefix_append _ _), (h.frame hF).2⟩
  stab := fun _ hE => by rw [hv] at hE; cases hE
  tab := h.tab

theorem WOk.addAlt (h : WOk X Q o base c s t) (exp : List Pat) (f : Option Nat) (sp : Nat × Nat) :
    WFail X Q o base c (s.addAlt X.env exp f sp) (t.addAlt X.env exp f sp) := by
  obtain ⟨a1, a2, a3⟩ := addAlt_contrib X.env s exp f sp
  obtain ⟨b1', b2, b3⟩ := addAlt_contrib X.env t exp f sp
  refine ⟨by simp, ?_, fun hF => ?_, fun hF hE => ?_, by simpa using h.tab⟩
  · exact alt_merge h.alt b3 a3 (by rw [h.pos]; exact OptLoc.equiv_refl _)
  · obtain ⟨f1, f2, f3⟩ := h.full hF
    obtain ⟨g1, g2⟩ := h.frame hF
    simp only [addAlt_errs, addAlt_ctx]
    exact ⟨g1, f1 ▸ g1, g2, f3 ▸ g2⟩
  · simp only [addAlt_errs]
    exact ⟨h.stab hF hE, (h.full hF).1 ▸ h.stab hF hE⟩

theorem WOk.addAltErr (h : WOk X Q o base c s t) (p : Nat) (e : Err) :
    WFail X Q o base c (s.addAltErr X.env p e) (t.addAltErr X.env p e) := by
  refine ⟨by simp, ?_, fun hF => ?_, fun hF hE => ?_, by simpa using h.tab⟩
  · exact alt_merge h.alt (OptLoc.equiv_of_eq (addAltErr_alt_oplus ..)) (OptLoc.equiv_of_eq (addAltErr_alt_oplus ..))
      (OptLoc.equiv_refl _)
  · obtain ⟨f1, f2, f3⟩ := h.full hF
    obtain ⟨g1, g2⟩ := h.frame hF
    simp only [addAltErr_errs, addAltErr_ctx]
    exact ⟨g1, f1 ▸ g1, g2, f3 ▸ g2⟩
  · simp only [addAltErr_errs]
    exact ⟨h.stab hF hE, (h.full hF).1 ▸ h.stab hF hE⟩

/-- both runs merge back the pending error they had set aside (`try_map`) -/
theorem WOk.reshelter {s0 t0 : St} (h : WOk X Q none base c s t) (h0 : OptLoc.equiv t0.alt (oplus X.ek o s0.alt)) :
    WOk X Q o base c (St.readdAlt X.env { s with alt := s0.alt } s.alt)
      (St.readdAlt X.env { t with alt := t0.alt } t.alt) where
  pos := by simpa using h.pos
  alt := by
    rw [readdAlt_alt_oplus, readdAlt_alt_oplus]
    have := h.alt; rw [oplus_none_left] at this
    exact alt_merge h0 (OptLoc.equiv_refl _) (OptLoc.equiv_refl _) this
  full := fun hF => by simpa using h.full hF
  frame := fun hF => by simpa using h.frame hF
  stab := fun hF hE => by simpa using h.stab hF hE
  tab := by simpa using h.tab

theorem WFail.reshelter {s0 t0 : St} (h : WFail X Q none base c s t) (h0 : OptLoc.equiv t0.alt (oplus X.ek o s0.alt)) :
    WFail X Q o base c (St.readdAlt X.env { s with alt := s0.alt } s.alt)
      (St.readdAlt X.env { t with alt := t0.alt } t.alt) where
  some := by rw [readdAlt_alt_isSome]; simp [h.some]
  alt := by
    rw [readdAlt_alt_oplus, readdAlt_alt_oplus]
    have := h.alt; rw [oplus_none_left] at this
    exact alt_merge h0 (OptLoc.equiv_refl _) (OptLoc.equiv_refl _) this
  full := fun hF => by simpa using h.full hF
  stab := fun hF hE => by simpa using h.stab hF hE
  tab := by simpa using h.tab

/-- both runs merge related errors `x`, `y` into the pending error they had set aside (`labelled`, `map_err`) -/
theorem WOk.readd {s0 t0 : St} (h : WOk X Q none base c s t) (h0 : OptLoc.equiv t0.alt (oplus X.ek o s0.alt))
    {x y : Option Loc} (hxy : OptLoc.equiv y x) :
    WOk X Q o base c (St.readdAlt X.env { s with alt := s0.alt } x) (St.readdAlt X.env { t with alt := t0.alt } y) where
  pos := by simpa using h.pos
  alt := by
    rw [readdAlt_alt_oplus, readdAlt_alt_oplus]
    exact alt_merge h0 (OptLoc.equiv_refl _) (OptLoc.equiv_refl _) hxy
  full := fun hF => by simpa using h.full hF
  frame := fun hF => by simpa using h.frame hF
  stab := fun hF hE => by simpa using h.stab hF hE
  tab := by simpa using h.tab

theorem WFail.readd {s0 t0 : St} (h : WFail X Q none base c s t) (h0 : OptLoc.equiv t0.alt (oplus X.ek o s0.alt))
    {x y : Option Loc} (hxy : OptLoc.equiv y x) (hx : x.isSome = true) :
    WFail X Q o base c (St.readdAlt X.env { s with alt := s0.alt } x) (St.readdAlt X.env { t with alt := t0.alt } y) where
  some := by rw [readdAlt_alt_isSome]; simp [hx]
  alt := by
    rw [readdAlt_alt_oplus, readdAlt_alt_oplus]
    exact alt_merge h0 (OptLoc.equiv_refl _) (OptLoc.equiv_refl _) hxy
  full := fun hF => by simpa using h.full hF
  stab := fun hF hE => by simpa using h.stab hF hE
  tab := by simpa using h.tab

/-- `with_state`: both runs install an inspector -/
theorem WOk.setInsp (h : WOk X Q o base c s t) {i i' : List Nat} (hi : X.F → i = i') :
    WOk X Q o base c { s with insp := i } { t with insp := i' } where
  pos := h.pos
  alt := h.alt
  full := fun hF => ⟨(h.full hF).1, hi hF, (h.full hF).2.2⟩
  frame := h.frame
  stab := h.stab
  tab := h.tab

theorem WFail.setInsp (h : WFail X Q o base c s t) (i i' : List Nat) :
    WFail X Q o base c { s with insp := i } { t with insp := i' } :=
  ⟨h.some, h.alt, h.full, h.stab, h.tab⟩

theorem WOk.next (h : WOk X Q o base c s t) :
    (t.next X.env).1 = (s.next X.env).1 ∧ WOk X Q o base c (s.next X.env).2 (t.next X.env).2 := by
  simp only [St.next, ← h.pos]
  cases X.env.toks[s.pos]? with
  | none => exact ⟨rfl, h⟩
  | some x =>
    refine ⟨rfl, ⟨⟨by simp [h.pos], h.alt, fun hF => ?_⟩, h.frame, h.stab, h.tab⟩⟩
    obtain ⟨f1, f2, f3⟩ := h.full hF
    exact ⟨f1, by simp [f2], f3⟩

theorem WOk.peek (h : WOk X Q o base c s t) : t.peek X.env = s.peek X.env := by
  simp only [St.peek, h.pos]

theorem WOk.save_pos (h : WOk X Q o base c s t) : t.save.pos = s.save.pos := h.pos.symm

/-! ### case analysis -/

theorem WOut.cases {x y : Out} (h : WOut X Q o base c x y) :
    (∃ v s t, x = .ok v s ∧ y = .ok v t ∧ WOk X Q o base c s t) ∨
    (∃ s t, x = .fail s ∧ y = .fail t ∧ WFail X Q o base c s t) ∨
    (∃ w, x = .panic w ∧ y = .panic w) ∨ (x = .oof ∧ y = .oof) := by
  cases h with
  | ok v h => exact .inl ⟨v, _, _, rfl, rfl, h⟩
  | fail h => exact .inr (.inl ⟨_, _, rfl, rfl, h⟩)
  | panic w => exact .inr (.inr (.inl ⟨w, rfl, rfl⟩))
  | oof => exact .inr (.inr (.inr ⟨rfl, rfl⟩))

theorem WIt.cases {x y : ItOut} (h : WIt X Q o base c x y) :
    (∃ v i s t, x = .some v s i ∧ y = .some v t i ∧ WOk X Q o base c s t) ∨
    (∃ i s t, x = .done s i ∧ y = .done t i ∧ WOk X Q o base c s t) ∨
    (∃ s t, x = .fail s ∧ y = .fail t ∧ WFail X Q o base c s t) ∨
    (∃ w, x = .panic w ∧ y = .panic w) ∨ (x = .oof ∧ y = .oof) := by
  cases h with
  | some v i h => exact .inl ⟨v, i, _, _, rfl, rfl, h⟩
  | done i h => exact .inr (.inl ⟨i, _, _, rfl, rfl, h⟩)
  | fail h => exact .inr (.inr (.inl ⟨_, _, rfl, rfl, h⟩))
  | panic w => exact .inr (.inr (.inr (.inl ⟨w, rfl, rfl⟩)))
  | oof => exact .inr (.inr (.inr (.inr ⟨rfl, rfl⟩)))

theorem WMk.cases {x y : MkOut} (h : WMk X Q o base c x y) :
    (∃ i s t, x = .ok i s ∧ y = .ok i t ∧ WOk X Q o base c s t) ∨
    (∃ s t, x = .fail s ∧ y = .fail t ∧ WFail X Q o base c s t) ∨
    (∃ w, x = .panic w ∧ y = .panic w) ∨ (x = .oof ∧ y = .oof) := by
  cases h with
  | ok i h => exact .inl ⟨i, _, _, rfl, rfl, h⟩
  | fail h => exact .inr (.inl ⟨_, _, rfl, rfl, h⟩)
  | panic w => exact .inr (.inr (.inl ⟨w, rfl, rfl⟩))
  | oof => exact .inr (.inr (.inr ⟨rfl, rfl⟩))

theorem WOut.ite {p : Prop} [Decidable p] {x y x' y' : Out} (h1 : WOut X Q o base c x y)
    (h2 : WOut X Q o base c x' y') : WOut X Q o base c (if p then x else x') (if p then y else y') := by
  by_cases hc : p
  · simp only [if_pos hc]; exact h1
  · simp only [if_neg hc]; exact h2

theorem WIt.ite {p : Prop} [Decidable p] {x y x' y' : ItOut} (h1 : WIt X Q o base c x y)
    (h2 : WIt X Q o base c x' y') : WIt X Q o base c (if p then x else x') (if p then y else y') := by
  by_cases hc : p
  · simp only [if_pos hc]; exact h1
  · simp only [if_neg hc]; exact h2

end relLemmas

/-! ### the simulation hypotheses on the runners (open recursion); `d` = depth of the grammar being run -/

section sim
variable (X : Cx)

def SimR (d : Nat) (R R' : Runner) : Prop :=
  ∀ g : G, g.memoSafe X.ve = true → ∀ (m : Mode) (o : Option Loc) (s t : St), WRel X o s t →
    X.Pre (g.memoNodes d) s.memo → WOut X (X.Post s.memo) o s.errs s.ctx (R X.env m g s) (R' X.env' m g t)

def SimN (d : Nat) (N N' : NextRunner) : Prop :=
  ∀ it : It, it.memoSafe X.ve = true → ∀ (m : Mode) (o : Option Loc) (s t : St) (ist : ItSt), WRel X o s t →
    X.Pre (it.memoNodes d) s.memo →
    WIt X (X.Post s.memo) o s.errs s.ctx (N X.env m it s ist) (N' X.env' m it t ist)

def SimK (d : Nat) (K K' : MkRunner) : Prop :=
  ∀ it : It, it.memoSafe X.ve = true → ∀ (m : Mode) (o : Option Loc) (s t : St), WRel X o s t →
    X.Pre (it.memoNodes d) s.memo → WMk X (X.Post s.memo) o s.errs s.ctx (K X.env m it s) (K' X.env' m it t)

end sim

section calls
variable {X : Cx} {d : Nat} {R R' : Runner} {N N' : NextRunner} {K K' : MkRunner}
variable {memo0 : Memo} {o : Option Loc} {base : List Loc} {c : Val} {s t : St}

/-- a sub-run from a pair related inside the caller's frame: the results in the caller's frame; for a failure also
    the pair rewound to the checkpoint taken at the call -/
theorem SimR.cases (hR : SimR X d R R') {g : G} (hg : g.memoSafe X.ve = true) (hpre : X.Pre (g.memoNodes d) memo0)
    (hok : WOk X (X.Post memo0) o base c s t) (m : Mode) :
    (∃ v s1 t1, R X.env m g s = .ok v s1 ∧ R' X.env' m g t = .ok v t1 ∧ WOk X (X.Post memo0) o base c s1 t1) ∨
    (∃ s1 t1, R X.env m g s = .fail s1 ∧ R' X.env' m g t = .fail t1 ∧ WFail X (X.Post memo0) o base c s1 t1 ∧
      WOk X (X.Post memo0) o base c (s1.rewind s.save) (t1.rewind t.save)) ∨
    (∃ w, R X.env m g s = .panic w ∧ R' X.env' m g t = .panic w) ∨
    (R X.env m g s = .oof ∧ R' X.env' m g t = .oof) := by
  have h := hR g hg m o s t hok.toWRel (hpre.step hok.tab)
  have hq : ∀ mm, X.Post s.memo mm → X.Post memo0 mm := fun _ h' => Cx.Post.trans hok.tab h'
  rcases h.cases with ⟨v, s1, t1, e1, e2, h1⟩ | ⟨s1, t1, e1, e2, h1⟩ | ⟨w, e1, e2⟩ | ⟨e1, e2⟩
  · exact .inl ⟨v, s1, t1, e1, e2, h1.rebase hok.link hq⟩
  · exact .inr (.inl ⟨s1, t1, e1, e2, h1.rebase hok.link hq, (WFail.rewind hok.toWRel h1).rebase hok.link hq⟩)
  · exact .inr (.inr (.inl ⟨w, e1, e2⟩))
  · exact .inr (.inr (.inr ⟨e1, e2⟩))

theorem SimN.cases (hN : SimN X d N N') {it : It} (hg : it.memoSafe X.ve = true) (hpre : X.Pre (it.memoNodes d) memo0)
    (hok : WOk X (X.Post memo0) o base c s t) (m : Mode) (ist : ItSt) :
    (∃ v i s1 t1, N X.env m it s ist = .some v s1 i ∧ N' X.env' m it t ist = .some v t1 i ∧
      WOk X (X.Post memo0) o base c s1 t1) ∨
    (∃ i s1 t1, N X.env m it s ist = .done s1 i ∧ N' X.env' m it t ist = .done t1 i ∧
      WOk X (X.Post memo0) o base c s1 t1) ∨
    (∃ s1 t1, N X.env m it s ist = .fail s1 ∧ N' X.env' m it t ist = .fail t1 ∧
      WFail X (X.Post memo0) o base c s1 t1) ∨
    (∃ w, N X.env m it s ist = .panic w ∧ N' X.env' m it t ist = .panic w) ∨
    (N X.env m it s ist = .oof ∧ N' X.env' m it t ist = .oof) := by
  have h := hN it hg m o s t ist hok.toWRel (hpre.step hok.tab)
  have hq : ∀ mm, X.Post s.memo mm → X.Post memo0 mm := fun _ h' => Cx.Post.trans hok.tab h'
  rcases h.cases with ⟨v, i, s1, t1, e1, e2, h1⟩ | ⟨i, s1, t1, e1, e2, h1⟩ | ⟨s1, t1, e1, e2, h1⟩ | ⟨w, e1, e2⟩ | ⟨e1, e2⟩
  · exact .inl ⟨v, i, _, _, e1, e2, h1.rebase hok.link hq⟩
  · exact .inr (.inl ⟨i, _, _, e1, e2, h1.rebase hok.link hq⟩)
  · exact .inr (.inr (.inl ⟨_, _, e1, e2, h1.rebase hok.link hq⟩))
  · exact .inr (.inr (.inr (.inl ⟨w, e1, e2⟩)))
  · exact .inr (.inr (.inr (.inr ⟨e1, e2⟩)))

theorem SimK.cases (hK : SimK X d K K') {it : It} (hg : it.memoSafe X.ve = true) (hpre : X.Pre (it.memoNodes d) memo0)
    (hok : WOk X (X.Post memo0) o base c s t) (m : Mode) :
    (∃ i s1 t1, K X.env m it s = .ok i s1 ∧ K' X.env' m it t = .ok i t1 ∧ WOk X (X.Post memo0) o base c s1 t1) ∨
    (∃ s1 t1, K X.env m it s = .fail s1 ∧ K' X.env' m it t = .fail t1 ∧ WFail X (X.Post memo0) o base c s1 t1) ∨
    (∃ w, K X.env m it s = .panic w ∧ K' X.env' m it t = .panic w) ∨
    (K X.env m it s = .oof ∧ K' X.env' m it t = .oof) := by
  have h := hK it hg m o s t hok.toWRel (hpre.step hok.tab)
  have hq : ∀ mm, X.Post s.memo mm → X.Post memo0 mm := fun _ h' => Cx.Post.trans hok.tab h'
  rcases h.cases with ⟨i, s1, t1, e1, e2, h1⟩ | ⟨s1, t1, e1, e2, h1⟩ | ⟨w, e1, e2⟩ | ⟨e1, e2⟩
  · exact .inl ⟨i, _, _, e1, e2, h1.rebase hok.link hq⟩
  · exact .inr (.inl ⟨_, _, e1, e2, h1.rebase hok.link hq⟩)
  · exact .inr (.inr (.inl ⟨w, e1, e2⟩))
  · exact .inr (.inr (.inr ⟨e1, e2⟩))

end calls

/-- case split on a sub-run (`SimR.cases`): `panic`/`oof` closed, goals left: `ok`, then `fail` -/
macro "mf_rc " h:term " with " v:ident a:ident b:ident hr:ident hf:ident hrw:ident : tactic => `(tactic|
  (rcases id $h with ⟨$v:ident, $a:ident, $b:ident, e1, e2, $hr:ident⟩ | ⟨$a:ident, $b:ident, e1, e2, $hf:ident, $hrw:ident⟩ | ⟨w, e1, e2⟩ | ⟨e1, e2⟩ <;>
   simp only [e1, e2, Out.andThen, Out.restoreInsp] <;>
   first | exact WOut.panic _ | exact WOut.oof | exact WIt.panic _ | exact WIt.oof | exact WMk.panic _ | exact WMk.oof | skip))

/-- case split on `make_iter` (`SimK.cases`): goals left: `ok`, then `fail` -/
macro "mf_kc " h:term " with " v:ident a:ident b:ident hr:ident hf:ident : tactic => `(tactic|
  (rcases id $h with ⟨$v:ident, $a:ident, $b:ident, e1, e2, $hr:ident⟩ | ⟨$a:ident, $b:ident, e1, e2, $hf:ident⟩ | ⟨w, e1, e2⟩ | ⟨e1, e2⟩ <;>
   simp only [e1, e2] <;>
   first | exact WOut.panic _ | exact WOut.oof | exact WIt.panic _ | exact WIt.oof | exact WMk.panic _ | exact WMk.oof | skip))

/-- case split on `next` (`SimN.cases`): goals left: `some`, `done`, `fail` -/
macro "mf_nc " h:term " with " v:ident i:ident a:ident b:ident hr:ident hf:ident : tactic => `(tactic|
  (rcases id $h with ⟨$v:ident, $i:ident, $a:ident, $b:ident, e1, e2, $hr:ident⟩ | ⟨$i:ident, $a:ident, $b:ident, e1, e2, $hr:ident⟩ | ⟨$a:ident, $b:ident, e1, e2, $hf:ident⟩ | ⟨w, e1, e2⟩ | ⟨e1, e2⟩ <;>
   simp only [e1, e2] <;>
   first | exact WOut.panic _ | exact WOut.oof | exact WIt.panic _ | exact WIt.oof | exact WMk.panic _ | exact WMk.oof | skip))

/-- `simp only` with the lemmas that replace the second environment by the first -/
macro "mf_esimp" "[" ls:Lean.Parser.Tactic.simpLemma,* "]" : tactic =>
  `(tactic| simp only [Cx.env', St.next_withMemo, St.peek_withMemo, St.addAlt_withMemo, St.addAltErr_withMemo,
      St.readdAlt_withMemo, Env.withMemo_mkSpan, Env.withMemo_off, Env.withMemo_ek, Env.withMemo_toks,
      tokenPrim_withMemo, runCustom_withMemo, justRun_withMemo, $ls,*])

/-! ### primitives -/

section prims
variable {X : Cx} {Q : Memo → Prop} {o : Option Loc} {base : List Loc} {c : Val} {s t : St}

theorem tokenPrim_sim (h : WOk X Q o base c s t) (m : Mode) (acc : Nat → Option Val) (exp : List Pat) :
    WOut X Q o base c (tokenPrim X.env m s acc exp) (tokenPrim X.env' m t acc exp) := by
  obtain ⟨hn1, hn2⟩ := h.next
  mf_esimp [tokenPrim, hn1, save_pos, ← h.pos, ← hn2.pos]
  cases ((St.next X.env s).1.bind acc) with
  | some v => exact .ok _ hn2
  | none => exact .fail ((hn2.rewindTo h).addAlt _ _ _)

theorem justRun_sim : ∀ (ts : List Nat) (s t : St), WOk X Q o base c s t →
    (∃ a b, justRun X.env ts s = .inl a ∧ justRun X.env ts t = .inl b ∧ WFail X Q o base c a b) ∨
    (∃ a b, justRun X.env ts s = .inr a ∧ justRun X.env ts t = .inr b ∧ WOk X Q o base c a b) := by
  intro ts
  induction ts with
  | nil => intro s t h; exact .inr ⟨_, _, rfl, rfl, h⟩
  | cons e es ih =>
    intro s t h
    obtain ⟨hn1, hn2⟩ := h.next
    simp only [justRun, hn1, save_pos, ← h.pos, ← hn2.pos]
    by_cases hc : ((St.next X.env s).1 == some e) = true
    · simp only [hc, if_true]; exact ih _ _ hn2
    · simp only [hc, if_false]
      exact .inl ⟨_, _, rfl, rfl, (hn2.rewindTo h).addAlt _ _ _⟩

theorem justStep_sim (ts : List Nat) (h : WOk X Q o base c s t) (v : Val) :
    WOut X Q o base c (match justRun X.env ts s with | .inr st' => .ok v st' | .inl st' => .fail st')
      (match justRun X.env ts t with | .inr st' => .ok v st' | .inl st' => .fail st') := by
  rcases justRun_sim ts s t h with ⟨a, b', e1, e2, hr⟩ | ⟨a, b', e1, e2, hr⟩ <;> simp only [e1, e2]
  · exact .fail hr
  · exact .ok _ hr

theorem runCustom_sim (h : WOk X Q o base c s t) (m : Mode) (f : CustomFn) :
    WOut X Q o base c (runCustom X.env m f s) (runCustom X.env' m f t) := by
  obtain ⟨hn1, hn2⟩ := h.next
  obtain ⟨hm1, hm2⟩ := hn2.next
  cases f with
  | next msg =>
    mf_esimp [runCustom, hn1, ← h.pos, ← hn2.pos]
    cases (St.next X.env s).1 with
    | some x => exact .ok _ hn2
    | none => exact .fail (hn2.addAltErr _ _)
  | take2Fail msg =>
    mf_esimp [runCustom, ← h.pos, ← hm2.pos]
    exact .fail (hm2.addAltErr _ _)
  | nothing => exact .ok _ h
  | failNow msg =>
    mf_esimp [runCustom, ← h.pos]
    exact .fail (h.addAltErr _ _)

end prims

/-! ### loops -/

section loops
variable {X : Cx} {d : Nat} {R R' : Runner} {N N' : NextRunner} {K K' : MkRunner}
variable {memo0 : Memo} {o : Option Loc}

theorem choiceTuple_sim (hR : SimR X d R R') (m : Mode) {sc tc : St} (hc : WRel X o sc tc) :
    ∀ (gs : List G) (st tt : St), memoSafeL X.ve gs = true → X.Pre (memoNodesL d gs) memo0 →
    WOk X (X.Post memo0) o sc.errs sc.ctx st tt → (gs ≠ [] ∨ st.alt.isSome = true) →
    WOut X (X.Post memo0) o sc.errs sc.ctx (choiceTuple R X.env m sc.save gs st)
      (choiceTuple R' X.env' m tc.save gs tt) := by
  intro gs
  induction gs with
  | nil =>
    intro st tt _ _ h hne
    exact .fail (h.toFail (by simpa using hne))
  | cons g gs ih =>
    intro st tt hg hpre h _
    simp only [memoSafeL, Bool.and_eq_true] at hg
    simp only [memoNodesL] at hpre
    simp only [choiceTuple]
    mf_rc (hR.cases hg.1 hpre.app_l h m) with v a b hr hf hrw
    · exact .ok _ hr
    · exact ih _ _ hg.2 hpre.app_r (WFail.rewind hc hf) (.inr hf.some)

theorem choiceSlice_sim (hR : SimR X d R R') (m : Mode) {sc tc : St} (hc : WRel X o sc tc) :
    ∀ (gs : List G) (st tt : St), memoSafeL X.ve gs = true → X.Pre (memoNodesL d gs) memo0 →
    WOk X (X.Post memo0) o sc.errs sc.ctx (st.rewind sc.save) (tt.rewind tc.save) →
    (gs ≠ [] ∨ WFail X (X.Post memo0) o sc.errs sc.ctx st tt) →
    WOut X (X.Post memo0) o sc.errs sc.ctx (choiceSlice R X.env m sc.save gs st)
      (choiceSlice R' X.env' m tc.save gs tt) := by
  intro gs
  induction gs with
  | nil =>
    intro st tt _ _ h hne
    exact .fail (by simpa using hne)
  | cons g gs ih =>
    intro st tt hg hpre h _
    simp only [memoSafeL, Bool.and_eq_true] at hg
    simp only [memoNodesL] at hpre
    simp only [choiceSlice]
    mf_rc (hR.cases hg.1 hpre.app_l h m) with v a b hr hf hrw
    · exact .ok _ hr
    · exact ih _ _ hg.2 hpre.app_r (WFail.rewind hc hf) (.inr hf)

variable {base : List Loc} {c : Val}

theorem groupLoop_sim (hR : SimR X d R R') (m : Mode) :
    ∀ (gs : List G) (st tt : St) (acc : List Val), memoSafeL X.ve gs = true → X.Pre (memoNodesL d gs) memo0 →
    WOk X (X.Post memo0) o base c st tt →
    WOut X (X.Post memo0) o base c (groupLoop R X.env m gs st acc) (groupLoop R' X.env' m gs tt acc) := by
  intro gs
  induction gs with
  | nil => intro st tt acc _ _ h; exact .ok _ h
  | cons g gs ih =>
    intro st tt acc hg hpre h
    simp only [memoSafeL, Bool.and_eq_true] at hg
    simp only [memoNodesL] at hpre
    simp only [groupLoop]
    mf_rc (hR.cases hg.1 hpre.app_l h m) with v a b hr hf hrw
    · exact ih _ _ _ hg.2 hpre.app_r hr
    · exact .fail hf

theorem collectLoop_sim (hN : SimN X d N N') (m : Mode) (it : It) (k : CollKind) (hi : it.memoSafe X.ve = true)
    (hpre : X.Pre (it.memoNodes d) memo0) :
    ∀ (fuel : Nat) (st tt : St) (ist : ItSt) (acc : List Val) (i : Nat), WOk X (X.Post memo0) o base c st tt →
    WOut X (X.Post memo0) o base c (collectLoop N X.env m it k fuel st ist acc i)
      (collectLoop N' X.env' m it k fuel tt ist acc i) := by
  intro fuel
  induction fuel with
  | zero => intro st tt ist acc i h; exact .oof
  | succ fuel ih =>
    intro st tt ist acc i h
    simp only [collectLoop]
    mf_nc (hN.cases hi hpre h m ist) with v ist' a b hr hf
    · simp only [← hr.pos, ← h.pos]
      exact WOut.ite (.panic _) (ih _ _ _ _ _ hr)
    · exact .ok _ hr
    · exact .fail hf

theorem collectExactlyLoop_sim (hN : SimN X d N N') (m : Mode) (it : It) (hi : it.memoSafe X.ve = true)
    (hpre : X.Pre (it.memoNodes d) memo0) :
    ∀ (n : Nat) (st tt : St) (ist : ItSt) (acc : List Val), WOk X (X.Post memo0) o base c st tt →
    WOut X (X.Post memo0) o base c (collectExactlyLoop N X.env m it n st ist acc)
      (collectExactlyLoop N' X.env' m it n tt ist acc) := by
  intro n
  induction n with
  | zero => intro st tt ist acc h; exact .ok _ h
  | succ n ih =>
    intro st tt ist acc h
    simp only [collectExactlyLoop]
    mf_nc (hN.cases hi hpre h m ist) with v ist' a b hr hf
    · exact ih _ _ _ _ hr
    · mf_esimp [hr.peek, ← hr.pos]
      exact .fail (hr.addAlt _ _ _)
    · exact .fail hf

theorem foldlLoop_sim (hN : SimN X d N N') (m : Mode) (it : It) (hi : it.memoSafe X.ve = true)
    (hpre : X.Pre (it.memoNodes d) memo0) (f1 f2 : Val → Val → St → Val)
    (hf12 : ∀ acc x (a b : St), a.pos = b.pos → f1 acc x a = f2 acc x b) :
    ∀ (fuel : Nat) (st tt : St) (ist : ItSt) (acc : Val), WOk X (X.Post memo0) o base c st tt →
    WOut X (X.Post memo0) o base c (foldlLoop N X.env m it f1 fuel st ist acc)
      (foldlLoop N' X.env' m it f2 fuel tt ist acc) := by
  intro fuel
  induction fuel with
  | zero => intro st tt ist acc h; exact .oof
  | succ fuel ih =>
    intro st tt ist acc h
    simp only [foldlLoop]
    mf_nc (hN.cases hi hpre h m ist) with v ist' a b hr hf
    · simp only [← hr.pos, ← h.pos, ← hf12 _ _ _ _ hr.pos]
      exact WOut.ite (.panic _) (ih _ _ _ _ hr)
    · exact .ok _ hr
    · exact .fail hf

theorem repeatFast_sim (hR : SimR X d R R') (a : G) (hg : a.memoSafe X.ve = true) (hpre : X.Pre (a.memoNodes d) memo0) :
    ∀ (fuel : Nat) (st tt : St), WOk X (X.Post memo0) o base c st tt →
    WOut X (X.Post memo0) o base c (repeatFast R X.env a fuel st) (repeatFast R' X.env' a fuel tt) := by
  intro fuel
  induction fuel with
  | zero => intro st tt h; exact .oof
  | succ fuel ih =>
    intro st tt h
    simp only [repeatFast]
    mf_rc (hR.cases hg hpre h .check) with v s1 t1 hr hf hrw
    · simp only [← hr.pos, ← h.pos]
      exact WOut.ite (.panic _) (ih _ _ hr)
    · exact .ok _ hrw

theorem iterLoop_sim (hN : SimN X d N N') (it : It) (ap : Bool) (hi : it.memoSafe X.ve = true)
    (hpre : X.Pre (it.memoNodes d) memo0) :
    ∀ (fuel : Nat) (st tt : St) (ist : ItSt), WOk X (X.Post memo0) o base c st tt →
    WOut X (X.Post memo0) o base c (iterLoop N X.env it ap fuel st ist) (iterLoop N' X.env' it ap fuel tt ist) := by
  intro fuel
  induction fuel with
  | zero => intro st tt ist h; exact .oof
  | succ fuel ih =>
    intro st tt ist h
    simp only [iterLoop]
    mf_nc (hN.cases hi hpre h .check ist) with v ist' a b hr hf
    · simp only [← hr.pos, ← h.pos]
      exact WOut.ite (.panic _) (ih _ _ _ hr)
    · exact .ok _ hr
    · exact .fail hf

inductive WFc (X : Cx) (Q : Memo → Prop) (o : Option Loc) (base : List Loc) (c : Val) :
    (Option (List (Val × Nat) × St)) ⊕ Out → (Option (List (Val × Nat) × St)) ⊕ Out → Prop
  | items (xs : List (Val × Nat)) {a b : St} : WOk X Q o base c a b →
      WFc X Q o base c (.inl (some (xs, a))) (.inl (some (xs, b)))
  | out {x y : Out} : WOut X Q o base c x y → WFc X Q o base c (.inr x) (.inr y)

theorem WFc.ite {Q} {p : Prop} [Decidable p] {x y x' y'} (h1 : WFc X Q o base c x y) (h2 : WFc X Q o base c x' y') :
    WFc X Q o base c (if p then x else x') (if p then y else y') := by
  by_cases hc : p
  · simp only [if_pos hc]; exact h1
  · simp only [if_neg hc]; exact h2

theorem foldrCollect_sim (hN : SimN X d N N') (m : Mode) (it : It) (hi : it.memoSafe X.ve = true)
    (hpre : X.Pre (it.memoNodes d) memo0) :
    ∀ (fuel : Nat) (st tt : St) (ist : ItSt) (acc : List (Val × Nat)), WOk X (X.Post memo0) o base c st tt →
    WFc X (X.Post memo0) o base c (foldrCollect N X.env m it fuel st ist acc)
      (foldrCollect N' X.env' m it fuel tt ist acc) := by
  intro fuel
  induction fuel with
  | zero => intro st tt ist acc h; exact .out .oof
  | succ fuel ih =>
    intro st tt ist acc h
    simp only [foldrCollect]
    rcases hN.cases hi hpre h m ist with ⟨v, ist', a, b, e1, e2, hr⟩ | ⟨ist', a, b, e1, e2, hr⟩ |
      ⟨a, b, e1, e2, hf⟩ | ⟨w, e1, e2⟩ | ⟨e1, e2⟩ <;> simp only [e1, e2]
    · simp only [← hr.pos, ← h.pos]
      exact WFc.ite (.out (.panic _)) (ih _ _ _ _ hr)
    · exact .items _ hr
    · exact .out (.fail hf)
    · exact .out (.panic _)
    · exact .out .oof

end loops

theorem WFc.cases {X : Cx} {Q : Memo → Prop} {o : Option Loc} {base : List Loc} {c : Val} {x y}
    (h : WFc X Q o base c x y) :
    (∃ xs a b, x = .inl (some (xs, a)) ∧ y = .inl (some (xs, b)) ∧ WOk X Q o base c a b) ∨
    (∃ x' y', x = .inr x' ∧ y = .inr y' ∧ WOut X Q o base c x' y') := by
  cases h with
  | items xs h => exact .inl ⟨xs, _, _, rfl, rfl, h⟩
  | out h => exact .inr ⟨_, _, rfl, rfl, h⟩

/-! ### `labelled` / `as_context` / `map_err`: relabelling respects `equiv` -/

theorem labelWith_congr (ek : ErrKind) {a b : Err} (h : a.equiv b) (l : Nat) :
    (ek.labelWith a l).equiv (ek.labelWith b l) := by
  cases ek with
  | rich =>
    obtain ⟨sa, ra, ca⟩ := a
    obtain ⟨sb, rb, cb⟩ := b
    obtain ⟨h1, h2⟩ := h
    simp only at h1 h2
    cases ra <;> cases rb <;> simp only [Reason.equiv] at h2 <;>
      exact ⟨h1, by simp [ErrKind.labelWith, Reason.equiv]⟩
  | simple => exact h
  | cheap => exact h
  | empty => exact h

theorem inContext_congr (ek : ErrKind) {a b : Err} (h : a.equiv b) (l : Nat) (sp : Nat × Nat) :
    (ek.inContext a l sp).equiv (ek.inContext b l sp) := by
  cases ek with
  | rich =>
    simp only [ErrKind.inContext]
    split <;> split <;> exact ⟨h.1, h.2⟩
  | simple => exact h
  | cheap => exact h
  | empty => exact h

/-- the error `labelled` re-adds for the inner pending error `n` -/
def labErr (env : Env) (l : Nat) (asCtx : Bool) (cpos : Nat) (n : Loc) : Err :=
  if n.pos == cpos then env.ek.labelWith n.err l
  else if asCtx && n.pos > cpos then env.ek.inContext n.err l (env.mkSpan cpos n.pos)
  else n.err

theorem labErr_congr (env : Env) (l : Nat) (asCtx : Bool) (cpos : Nat) {n n' : Loc} (h : n.equiv n') :
    (labErr env l asCtx cpos n).equiv (labErr env l asCtx cpos n') := by
  simp only [labErr, h.1]
  split
  · exact labelWith_congr _ h.2 _
  · split
    · exact inContext_congr _ h.2 _ _
    · exact h.2

def labNew (env : Env) (l : Nat) (asCtx : Bool) (cpos : Nat) (new : Option Loc) : Option Loc :=
  new.map (fun n => ⟨n.pos, labErr env l asCtx cpos n⟩)

theorem labNew_congr (env : Env) (l : Nat) (asCtx : Bool) (cpos : Nat) {x y : Option Loc} (h : OptLoc.equiv y x) :
    OptLoc.equiv (labNew env l asCtx cpos y) (labNew env l asCtx cpos x) := by
  cases x <;> cases y <;> simp only [OptLoc.equiv] at h
  · trivial
  · exact ⟨h.1, labErr_congr env l asCtx cpos h⟩

/-- the `finish` closure of `labelled` -/
def labFin (env : Env) (l : Nat) (asCtx : Bool) (old : Option Loc) (c : Chk) (st1 : St) : St :=
  let new := st1.alt
  let st2 := { st1 with alt := old }
  let st3 :=
    match new with
    | none => st2
    | some n =>
      let e :=
        if n.pos == c.pos then env.ek.labelWith n.err l
        else if asCtx && n.pos > c.pos then env.ek.inContext n.err l (env.mkSpan c.pos n.pos)
        else n.err
      St.readdAlt env st2 (some ⟨n.pos, e⟩)
  if asCtx then { st3 with errs := ctxSecondary env l c.pos c.errCount st3.errs } else st3

theorem labFin_eq (env : Env) (l : Nat) (asCtx : Bool) (old : Option Loc) (c : Chk) (st1 : St) :
    labFin env l asCtx old c st1 =
      if asCtx then
        { St.readdAlt env { st1 with alt := old } (labNew env l asCtx c.pos st1.alt) with
          errs := ctxSecondary env l c.pos c.errCount st1.errs }
      else St.readdAlt env { st1 with alt := old } (labNew env l asCtx c.pos st1.alt) := by
  simp only [labFin, labNew, labErr]
  cases st1.alt with
  | none => cases asCtx <;> rfl
  | some n => cases asCtx <;> simp

theorem ctxSecondary_prefix {env : Env} {l start : Nat} {base errs : List Loc} (h : base <+: errs) :
    base <+: ctxSecondary env l start base.length errs := by
  simp only [ctxSecondary, take_of_prefix h]
  exact List.prefix_append _ _

theorem ctxSecondary_self (env : Env) (l start : Nat) (errs : List Loc) :
    ctxSecondary env l start errs.length errs = errs := by
  simp [ctxSecondary]

section lab
variable {X : Cx} {Q : Memo → Prop} {o : Option Loc} {s t s1 t1 : St}

theorem WOk.labFin (hs : WRel X o s t) (h : WOk X Q none s.errs s.ctx s1 t1) (l : Nat) (asCtx : Bool) :
    WOk X Q o s.errs s.ctx (labFin X.env l asCtx s.alt s.save s1) (labFin X.env l asCtx t.alt t.save t1) := by
  have hxy : OptLoc.equiv (labNew X.env l asCtx t.save.pos t1.alt) (labNew X.env l asCtx s.save.pos s1.alt) := by
    have := h.alt; rw [oplus_none_left] at this
    have e : t.save.pos = s.save.pos := hs.pos.symm
    rw [e]; exact labNew_congr _ _ _ _ this
  have hr := h.readd hs.alt hxy
  rw [labFin_eq, labFin_eq]
  cases asCtx with
  | false => exact hr
  | true =>
    simp only [if_true]
    refine ⟨⟨hr.pos, hr.alt, fun hF => ?_⟩, fun hF => ?_, fun hF hE => ?_, hr.tab⟩
    · obtain ⟨f1, f2, f3⟩ := hr.full hF
      obtain ⟨g1, g2, g3⟩ := h.full hF
      refine ⟨?_, f2, f3⟩
      show ctxSecondary X.env l s.pos s.errs.length s1.errs = ctxSecondary X.env l t.pos t.errs.length t1.errs
      rw [g1, hs.pos, (hs.full hF).1]
    · refine ⟨?_, (hr.frame hF).2⟩
      exact ctxSecondary_prefix (h.frame hF).1
    · show ctxSecondary X.env l s.pos s.errs.length s1.errs = s.errs
      rw [h.stab hF hE, ctxSecondary_self]

theorem WFail.labFin (hs : WRel X o s t) (h : WFail X Q none s.errs s.ctx s1 t1) (l : Nat) (asCtx : Bool) :
    WFail X Q o s.errs s.ctx (labFin X.env l asCtx s.alt s.save s1) (labFin X.env l asCtx t.alt t.save t1) := by
  have hxy : OptLoc.equiv (labNew X.env l asCtx t.save.pos t1.alt) (labNew X.env l asCtx s.save.pos s1.alt) := by
    have := h.alt; rw [oplus_none_left] at this
    have e : t.save.pos = s.save.pos := hs.pos.symm
    rw [e]; exact labNew_congr _ _ _ _ this
  have hx : (labNew X.env l asCtx s.save.pos s1.alt).isSome = true := by
    simp [labNew, h.some]
  have hr := h.readd hs.alt hxy hx
  rw [labFin_eq, labFin_eq]
  cases asCtx with
  | false => exact hr
  | true =>
    simp only [if_true]
    refine ⟨hr.some, hr.alt, fun hF => ?_, fun hF hE => ?_, hr.tab⟩
    · obtain ⟨f1, f2, f3, f4⟩ := h.full hF
      refine ⟨ctxSecondary_prefix f1, ?_, (hr.full hF).2.2.1, (hr.full hF).2.2.2⟩
      show s.errs <+: ctxSecondary X.env l t.pos t.errs.length t1.errs
      rw [← (hs.full hF).1]
      exact ctxSecondary_prefix f2
    · obtain ⟨e1, e2⟩ := h.stab hF hE
      refine ⟨?_, ?_⟩
      · show ctxSecondary X.env l s.pos s.errs.length s1.errs = s.errs
        rw [e1, ctxSecondary_self]
      · show ctxSecondary X.env l t.pos t.errs.length t1.errs = s.errs
        rw [e2, ← (hs.full hF).1, ctxSecondary_self]

end lab

/-! ### the step functions -/

section steps
variable {X : Cx} {d : Nat} {R R' : Runner} {N N' : NextRunner} {K K' : MkRunner}

/-- the `memoized` node (placeholder statement; proved below) -/
def MemoCase (X : Cx) (d : Nat) (R R' : Runner) (N N' : NextRunner) (K K' : MkRunner) (L : Nat) : Prop :=
  ∀ (id : Nat) (a : G), a.memoSafe X.ve = true → ∀ (m : Mode) (o : Option Loc) (s t : St), WRel X o s t →
    X.Pre ((id, a, d + 1) :: G.memoNodes (d + 1) a) s.memo →
    WOut X (X.Post s.memo) o s.errs s.ctx (step R N K L X.env m (.memoized id a) s)
      (step R' N' K' L X.env' m (.memoized id a) t)

theorem step_sim (hR : SimR X (d + 1) R R') (hN : SimN X (d + 1) N N') (hK : SimK X (d + 1) K K') (L : Nat)
    (hM : MemoCase X d R R' N N' K K' L) : SimR X d (step R N K L) (step R' N' K' L) := by
  intro g hg m o s t hs hpre
  have h0 : WOk X (X.Post s.memo) o s.errs s.ctx s t := hs.init hpre.refl
  have hsp : ∀ {x y : St} {p : Nat}, x.pos = y.pos → X.env.mkSpan p y.pos = X.env.mkSpan p x.pos := by
    intro x y p h; rw [h]
  cases g with
  | end_ =>
    obtain ⟨hn1, hn2⟩ := h0.next
    mf_esimp [step, hn1, save_pos, ← hs.pos, ← hn2.pos]
    cases (St.next X.env s).1 with
    | none => exact .ok _ hn2
    | some x => exact .fail ((hn2.rewindTo h0).addAlt _ _ _)
  | empty => exact .ok _ h0
  | any => exact tokenPrim_sim h0 _ _ _
  | just ts => mf_esimp [step]; exact justStep_sim ts h0 _
  | oneOf ts => exact tokenPrim_sim h0 _ _ _
  | noneOf ts => exact tokenPrim_sim h0 _ _ _
  | select ts => exact tokenPrim_sim h0 _ _ _
  | custom f => exact runCustom_sim h0 _ _
  | todo => exact .panic _
  | then_ a b =>
    simp only [G.memoSafe, Bool.and_eq_true] at hg
    simp only [G.memoNodes] at hpre
    mf_esimp [step]
    mf_rc (hR.cases hg.1 hpre.app_l h0 m) with va s1 t1 hr hf hrw
    · mf_rc (hR.cases hg.2 hpre.app_r hr m) with vb s2 t2 hr2 hf2 hrw2
      · exact .ok _ hr2
      · exact .fail hf2
    · exact .fail hf
  | ignoreThen a b =>
    simp only [G.memoSafe, Bool.and_eq_true] at hg
    simp only [G.memoNodes] at hpre
    mf_esimp [step]
    mf_rc (hR.cases hg.1 hpre.app_l h0 .check) with va s1 t1 hr hf hrw
    · mf_rc (hR.cases hg.2 hpre.app_r hr m) with vb s2 t2 hr2 hf2 hrw2
      · exact .ok _ hr2
      · exact .fail hf2
    · exact .fail hf
  | thenIgnore a b =>
    simp only [G.memoSafe, Bool.and_eq_true] at hg
    simp only [G.memoNodes] at hpre
    mf_esimp [step]
    mf_rc (hR.cases hg.1 hpre.app_l h0 m) with va s1 t1 hr hf hrw
    · mf_rc (hR.cases hg.2 hpre.app_r hr .check) with vb s2 t2 hr2 hf2 hrw2
      · exact .ok _ hr2
      · exact .fail hf2
    · exact .fail hf
  | delimitedBy a l r =>
    simp only [G.memoSafe, Bool.and_eq_true] at hg
    simp only [G.memoNodes] at hpre
    mf_esimp [step]
    mf_rc (hR.cases hg.1.2 hpre.app_r.app_l h0 .check) with va s1 t1 hr hf hrw
    · mf_rc (hR.cases hg.1.1 hpre.app_l hr m) with vb s2 t2 hr2 hf2 hrw2
      · mf_rc (hR.cases hg.2 hpre.app_r.app_r hr2 .check) with vc s3 t3 hr3 hf3 hrw3
        · exact .ok _ hr3
        · exact .fail hf3
      · exact .fail hf2
    · exact .fail hf
  | paddedBy a p =>
    simp only [G.memoSafe, Bool.and_eq_true] at hg
    simp only [G.memoNodes] at hpre
    mf_esimp [step]
    mf_rc (hR.cases hg.2 hpre.app_r h0 .check) with va s1 t1 hr hf hrw
    · mf_rc (hR.cases hg.1 hpre.app_l hr m) with vb s2 t2 hr2 hf2 hrw2
      · mf_rc (hR.cases hg.2 hpre.app_r hr2 .check) with vc s3 t3 hr3 hf3 hrw3
        · exact .ok _ hr3
        · exact .fail hf3
      · exact .fail hf2
    · exact .fail hf
  | group gs =>
    simp only [G.memoSafe] at hg
    simp only [G.memoNodes] at hpre
    mf_esimp [step]
    exact groupLoop_sim hR m gs s t [] hg hpre h0
  | groupArr gs =>
    simp only [G.memoSafe] at hg
    simp only [G.memoNodes] at hpre
    mf_esimp [step]
    exact groupLoop_sim hR m gs s t [] hg hpre h0
  | or_ a b =>
    simp only [G.memoSafe, Bool.and_eq_true] at hg
    simp only [G.memoNodes] at hpre
    mf_esimp [step]
    exact choiceTuple_sim hR m hs [a, b] s t (by simp [memoSafeL, hg.1, hg.2])
      (by simpa [memoNodesL] using hpre) h0 (.inl (by simp))
  | choice fl gs =>
    simp only [G.memoSafe] at hg
    simp only [G.memoNodes] at hpre
    cases fl with
    | tuple =>
      cases gs with
      | nil => exact .panic _
      | cons g gs =>
        cases gs with
        | nil =>
          simp only [memoSafeL, Bool.and_eq_true] at hg
          simp only [memoNodesL] at hpre
          mf_esimp [step]
          exact hR g hg.1 m o s t hs hpre.app_l
        | cons g2 gs =>
          mf_esimp [step]
          exact choiceTuple_sim hR m hs (g :: g2 :: gs) s t hg hpre h0 (.inl (by simp))
    | slice =>
      cases gs with
      | nil =>
        mf_esimp [step, ← hs.pos]
        exact .fail (h0.addAlt _ _ _)
      | cons g gs =>
        mf_esimp [step]
        exact choiceSlice_sim hR m hs (g :: gs) s t hg hpre (h0.rewindTo h0) (.inl (by simp))
  | orNot a =>
    simp only [G.memoSafe] at hg
    simp only [G.memoNodes] at hpre
    mf_esimp [step]
    mf_rc (hR.cases hg hpre h0 m) with v s1 t1 hr hf hrw
    · exact .ok _ hr
    · exact .ok _ hrw
  | not_ a =>
    simp only [G.memoSafe] at hg
    simp only [G.memoNodes] at hpre
    mf_esimp [step]
    mf_rc (hR.cases hg hpre h0.altNone .check) with v s1 t1 hr hf hrw
    · have h2 : WOk X (X.Post s.memo) o s.errs s.ctx { s1.rewind s.save with alt := s.alt }
          { t1.rewind t.save with alt := t.alt } := (hr.rewindTo h0).setAltLog hs.alt
      obtain ⟨hn1, hn2⟩ := h2.next
      simp only [hn1, save_pos, ← hs.pos, ← hr.pos]
      exact .fail (hn2.addAlt _ _ _)
    · exact .ok _ (hrw.setAltLog hs.alt)
  | andIs a b =>
    simp only [G.memoSafe, Bool.and_eq_true] at hg
    simp only [G.memoNodes] at hpre
    mf_esimp [step]
    mf_rc (hR.cases hg.1 hpre.app_l h0 m) with v s1 t1 hr hf hrw
    · mf_rc (hR.cases hg.2 hpre.app_r (hr.rewindInput hs.pos (fun hF => (hs.full hF).2.1)) .check) with v2 s2 t2 hr2 hf2 hrw2
      · exact .ok _ (hr2.rewindInput hr.pos (fun hF => (hr.full hF).2.1))
      · exact .fail hf2
    · exact .fail (hrw.toFail hf.some)
  | rewind a =>
    simp only [G.memoSafe] at hg
    simp only [G.memoNodes] at hpre
    mf_esimp [step]
    mf_rc (hR.cases hg hpre h0 m) with v s1 t1 hr hf hrw
    · exact .ok _ (hr.rewindInput hs.pos (fun hF => (hs.full hF).2.1))
    · exact .fail hf
  | map f a =>
    simp only [G.memoSafe] at hg
    simp only [G.memoNodes] at hpre
    mf_esimp [step]
    mf_rc (hR.cases hg hpre h0 m) with v s1 t1 hr hf hrw
    · exact .ok _ hr
    · exact .fail hf
  | to v a =>
    simp only [G.memoSafe] at hg
    simp only [G.memoNodes] at hpre
    mf_esimp [step]
    mf_rc (hR.cases hg hpre h0 .check) with v s1 t1 hr hf hrw
    · exact .ok _ hr
    · exact .fail hf
  | ignored a =>
    simp only [G.memoSafe] at hg
    simp only [G.memoNodes] at hpre
    mf_esimp [step]
    mf_rc (hR.cases hg hpre h0 .check) with v s1 t1 hr hf hrw
    · exact .ok _ hr
    · exact .fail hf
  | filter p a =>
    simp only [G.memoSafe] at hg
    simp only [G.memoNodes] at hpre
    mf_esimp [step]
    mf_rc (hR.cases hg hpre h0 .emit) with v s1 t1 hr hf hrw
    · simp only [save_pos, ← hs.pos, ← hr.pos, (hr.rewindTo h0).peek]
      exact WOut.ite (.ok _ hr) (.fail ((hr.rewindTo h0).addAlt _ _ _))
    · exact .fail hf
  | tryMap f a =>
    simp only [G.memoSafe] at hg
    simp only [G.memoNodes] at hpre
    mf_esimp [step]
    mf_rc (hR.cases hg hpre h0.altNone .emit) with v s1 t1 hr hf hrw
    · simp only [hsp hr.pos, ← hs.pos]
      exact WOut.ite (.fail ((hr.setAltLog hs.alt).addAltErr _ _)) (.ok _ (hr.reshelter hs.alt))
    · exact .fail (hf.reshelter hs.alt)
  | tryMapWith f a =>
    simp only [G.memoSafe] at hg
    simp only [G.memoNodes] at hpre
    mf_esimp [step]
    mf_rc (hR.cases hg hpre h0 .emit) with v s1 t1 hr hf hrw
    · simp only [← hs.pos, ← hr.pos]
      exact WOut.ite (.fail (hr.addAltErr _ _)) (.ok _ hr)
    · exact .fail hf
  | toSpan a =>
    simp only [G.memoSafe] at hg
    simp only [G.memoNodes] at hpre
    mf_esimp [step]
    mf_rc (hR.cases hg hpre h0 m) with v s1 t1 hr hf hrw
    · simp only [← hs.pos, ← hr.pos]; exact .ok _ hr
    · exact .fail hf
  | toSlice a =>
    simp only [G.memoSafe] at hg
    simp only [G.memoNodes] at hpre
    mf_esimp [step]
    mf_rc (hR.cases hg hpre h0 .check) with v s1 t1 hr hf hrw
    · simp only [← hs.pos, ← hr.pos]; exact .ok _ hr
    · exact .fail hf
  | mapWithSpan a =>
    simp only [G.memoSafe] at hg
    simp only [G.memoNodes] at hpre
    mf_esimp [step]
    mf_rc (hR.cases hg hpre h0 m) with v s1 t1 hr hf hrw
    · simp only [← hs.pos, ← hr.pos]; exact .ok _ hr
    · exact .fail hf
  | validate f a =>
    simp only [G.memoSafe, Bool.and_eq_true] at hg
    simp only [G.memoNodes] at hpre
    mf_esimp [step]
    mf_rc (hR.cases hg.2 hpre h0 .emit) with v s1 t1 hr hf hrw
    · simp only [hsp hr.pos, ← hs.pos]
      by_cases hc : f.emitIf.eval v = true
      · simp only [hc, if_true]; exact .ok _ (hr.appendErrs (by simpa using hg.1) _)
      · simp only [hc, if_false]; exact .ok _ hr
    · exact .fail hf
  | collect k it =>
    simp only [G.memoSafe] at hg
    simp only [G.memoNodes] at hpre
    mf_esimp [step]
    mf_kc (hK.cases hg hpre h0 m) with ist s1 t1 hr hf
    · exact collectLoop_sim hN m it k hg hpre L s1 t1 ist [] 0 hr
    · exact .fail hf
  | collectExactly n it =>
    simp only [G.memoSafe] at hg
    simp only [G.memoNodes] at hpre
    mf_esimp [step]
    mf_kc (hK.cases hg hpre h0 m) with ist s1 t1 hr hf
    · exact collectExactlyLoop_sim hN m it hg hpre n s1 t1 ist [] hr
    · exact .fail hf
  | foldl f a it =>
    simp only [G.memoSafe, Bool.and_eq_true] at hg
    simp only [G.memoNodes] at hpre
    mf_esimp [step]
    mf_rc (hR.cases hg.1 hpre.app_l h0 m) with va s1 t1 hr hf hrw
    · mf_kc (hK.cases hg.2 hpre.app_r hr m) with ist s2 t2 hr2 hf2
      · exact foldlLoop_sim hN m it hg.2 hpre.app_r (fun acc x _ => f.evalL acc x) (fun acc x _ => f.evalL acc x)
          (fun _ _ _ _ _ => rfl) L s2 t2 ist va hr2
      · exact .fail hf2
    · exact .fail hf
  | foldlWith a it =>
    simp only [G.memoSafe, Bool.and_eq_true] at hg
    simp only [G.memoNodes] at hpre
    mf_esimp [step]
    mf_rc (hR.cases hg.1 hpre.app_l h0 m) with va s1 t1 hr hf hrw
    · mf_kc (hK.cases hg.2 hpre.app_r hr m) with ist s2 t2 hr2 hf2
      · exact foldlLoop_sim hN m it hg.2 hpre.app_r _ _
          (fun _ _ x y hxy => by simp only [← hs.pos, hxy]) L s2 t2 ist va hr2
      · exact .fail hf2
    · exact .fail hf
  | foldr f it b =>
    simp only [G.memoSafe, Bool.and_eq_true] at hg
    simp only [G.memoNodes] at hpre
    mf_esimp [step]
    mf_kc (hK.cases hg.1 hpre.app_l h0 m) with ist s1 t1 hr hf
    · rcases (foldrCollect_sim hN m it hg.1 hpre.app_l L s1 t1 ist [] hr).cases with
        ⟨xs, s2, t2, e1, e2, hr2⟩ | ⟨x', y', e1, e2, ho⟩ <;> simp only [e1, e2]
      · mf_rc (hR.cases hg.2 hpre.app_r hr2 m) with vb s3 t3 hr3 hf3 hrw3
        · exact .ok _ hr3
        · exact .fail hf3
      · exact ho
    · exact .fail hf
  | foldrWith it b =>
    simp only [G.memoSafe, Bool.and_eq_true] at hg
    simp only [G.memoNodes] at hpre
    mf_esimp [step]
    mf_kc (hK.cases hg.1 hpre.app_l h0 m) with ist s1 t1 hr hf
    · rcases (foldrCollect_sim hN m it hg.1 hpre.app_l L s1 t1 ist [] hr).cases with
        ⟨xs, s2, t2, e1, e2, hr2⟩ | ⟨x', y', e1, e2, ho⟩ <;> simp only [e1, e2]
      · mf_rc (hR.cases hg.2 hpre.app_r hr2 m) with vb s3 t3 hr3 hf3 hrw3
        · simp only [← hr3.pos]; exact .ok _ hr3
        · exact .fail hf3
      · exact ho
    · exact .fail hf
  | labelled l asCtx a =>
    simp only [G.memoSafe] at hg
    simp only [G.memoNodes] at hpre
    mf_esimp [step]
    mf_rc (hR.cases hg hpre h0.altNone m) with v s1 t1 hr hf hrw
    · exact .ok _ (hr.labFin hs l asCtx)
    · exact .fail (hf.labFin hs l asCtx)
  | mapErr k a =>
    simp only [G.memoSafe] at hg
    simp only [G.memoNodes] at hpre
    mf_esimp [step]
    mf_rc (hR.cases hg hpre h0.altNone m) with v s1 t1 hr hf hrw
    · exact .ok _ (hr.reshelter hs.alt)
    · obtain ⟨n, hn⟩ := Option.isSome_iff_exists.mp hf.some
      have ha := hf.alt
      rw [oplus_none_left, hn] at ha
      cases hn' : t1.alt with
      | none => rw [hn'] at ha; exact ha.elim
      | some n' =>
        rw [hn'] at ha
        simp only [hn, hn']
        exact .fail (hf.readd hs.alt (x := some ⟨n.pos, X.env.ek.labelWith n.err k⟩)
          (y := some ⟨n'.pos, X.env.ek.labelWith n'.err k⟩) ⟨ha.1, labelWith_congr _ ha.2 _⟩ rfl)
  | withState a =>
    simp only [G.memoSafe] at hg
    simp only [G.memoNodes] at hpre
    mf_esimp [step]
    mf_rc (hR.cases hg hpre (h0.setInsp (i := []) (i' := []) (fun _ => rfl)) m) with v s1 t1 hr hf hrw
    · exact .ok _ (hr.setInsp (fun hF => (hs.full hF).2.1))
    · exact .fail (hf.setInsp _ _)
  | iterP it =>
    simp only [G.memoSafe] at hg
    have generic : ∀ (ap : Bool), X.Pre (it.memoNodes (d + 1)) s.memo →
        WOut X (X.Post s.memo) o s.errs s.ctx
          (match K X.env .check it s with
            | .ok ist st1 => iterLoop N X.env it ap L st1 ist
            | .fail st1 => .fail st1
            | .panic w => .panic w
            | .oof => .oof)
          (match K' X.env' .check it t with
            | .ok ist st1 => iterLoop N' X.env' it ap L st1 ist
            | .fail st1 => .fail st1
            | .panic w => .panic w
            | .oof => .oof) := by
      intro ap hp
      mf_kc (hK.cases hg hp h0 .check) with ist s1 t1 hr hf
      · exact iterLoop_sim hN it ap hg hp L s1 t1 ist hr
      · exact .fail hf
    cases it with
    | repeated a lo hi =>
      cases lo with
      | zero =>
        cases hi with
        | none =>
          simp only [It.memoSafe] at hg
          simp only [G.memoNodes] at hpre
          exact repeatFast_sim hR a hg hpre L s t h0
        | some h =>
          simp only [G.memoNodes] at hpre
          exact generic true (by simpa only [It.memoNodes] using hpre)
      | succ lo =>
        simp only [G.memoNodes] at hpre
        exact generic true (by simpa only [It.memoNodes] using hpre)
    | separatedBy a sep lo hi lead trail =>
      simp only [G.memoNodes] at hpre
      exact generic true (by simpa only [It.memoNodes] using hpre)
    | intoIter a =>
      simp only [It.memoSafe] at hg
      simp only [G.memoNodes] at hpre
      mf_esimp [step]
      mf_rc (hR.cases hg hpre h0 .check) with v s1 t1 hr hf hrw
      · exact .ok _ hr
      · exact .fail hf
    | enumerate _ => exact .panic _
    | orNotIt _ => exact .panic _
    | thenIt _ _ => exact .panic _
    | mapIt _ _ => exact .panic _
    | _ => exact absurd hg (by simp [It.memoSafe])
  | memoized id a =>
    simp only [G.memoSafe] at hg
    simp only [G.memoNodes] at hpre
    exact hM id a hg m o s t hs hpre
  | boxed a =>
    simp only [G.memoSafe] at hg
    simp only [G.memoNodes] at hpre
    mf_esimp [step]
    exact hR a hg m o s t hs hpre
  | _ => exact absurd hg (by simp [G.memoSafe])

theorem stepMk_sim (hR : SimR X (d + 1) R R') (hK : SimK X (d + 1) K K') : SimK X d (stepMk R K) (stepMk R' K') := by
  intro it hg m o s t hs hpre
  have h0 : WOk X (X.Post s.memo) o s.errs s.ctx s t := hs.init hpre.refl
  cases it with
  | repeated a lo hi => exact .ok _ h0
  | separatedBy a sep lo hi lead trail => exact .ok _ h0
  | enumerate inner =>
    simp only [It.memoSafe] at hg
    simp only [It.memoNodes] at hpre
    mf_esimp [stepMk]
    mf_kc (hK.cases hg hpre h0 m) with ist s1 t1 hr hf
    · exact .ok _ hr
    · exact .fail hf
  | orNotIt a => exact .ok _ h0
  | intoIter a =>
    simp only [It.memoSafe] at hg
    simp only [It.memoNodes] at hpre
    mf_esimp [stepMk]
    mf_rc (hR.cases hg hpre h0 .emit) with v s1 t1 hr hf hrw
    · exact .ok _ hr
    · exact .fail hf
  | thenIt a b =>
    simp only [It.memoSafe, Bool.and_eq_true] at hg
    simp only [It.memoNodes] at hpre
    mf_esimp [stepMk]
    mf_kc (hK.cases hg.1 hpre.app_l h0 m) with ist s1 t1 hr hf
    · exact .ok _ hr
    · exact .fail hf
  | mapIt f inner =>
    simp only [It.memoSafe] at hg
    simp only [It.memoNodes] at hpre
    mf_esimp [stepMk]
    exact hK inner hg m o s t hs hpre
  | _ => exact absurd hg (by simp [It.memoSafe])

theorem repeatedNext_sim {d' : Nat} (hR : SimR X d' R R') {a : G} (hg : a.memoSafe X.ve = true) {memo0 : Memo}
    (hpre : X.Pre (a.memoNodes d') memo0) {o : Option Loc} {base : List Loc} {c : Val} {s t : St}
    (h : WOk X (X.Post memo0) o base c s t) (m : Mode) (lo : Nat) (hi : Option Nat) (n : Nat) (wrap : ItSt → ItSt) :
    WIt X (X.Post memo0) o base c (repeatedNext R X.env m a lo hi s n wrap)
      (repeatedNext R' X.env' m a lo hi t n wrap) := by
  simp only [repeatedNext]
  refine WIt.ite (.done _ h) ?_
  mf_rc (hR.cases hg hpre h m) with v s1 t1 hr hf hrw
  · exact .some _ _ hr
  · exact WIt.ite (.done _ hrw) (.fail (hrw.toFail hf.some))

theorem sepItem_sim {d' : Nat} (hR : SimR X d' R R') {a : G} (hg : a.memoSafe X.ve = true) {o : Option Loc} {s t : St}
    (hs : WRel X o s t) (hpre : X.Pre (a.memoNodes d') s.memo) {st0 tt0 : St}
    (h : WOk X (X.Post s.memo) o s.errs s.ctx st0 tt0) (m : Mode) (lo n : Nat) (trail : Bool) :
    WIt X (X.Post s.memo) o s.errs s.ctx
      (match R X.env m a st0 with
        | .ok v st1 => ItOut.some v st1 (.cnt (n + 1))
        | .fail st1 =>
          if n < lo then .fail (st1.rewind s.save)
          else if trail then .done (st1.rewind st0.save) (.cnt n)
          else .done (st1.rewind s.save) (.cnt n)
        | .panic w => .panic w
        | .oof => .oof)
      (match R' X.env' m a tt0 with
        | .ok v st1 => ItOut.some v st1 (.cnt (n + 1))
        | .fail st1 =>
          if n < lo then .fail (st1.rewind t.save)
          else if trail then .done (st1.rewind tt0.save) (.cnt n)
          else .done (st1.rewind t.save) (.cnt n)
        | .panic w => .panic w
        | .oof => .oof) := by
  mf_rc (hR.cases hg hpre h m) with v s1 t1 hr hf hrw
  · exact .some _ _ hr
  · have hb := WFail.rewind hs hf
    exact WIt.ite (.fail (hb.toFail hf.some)) (WIt.ite (.done _ hrw) (.done _ hb))

theorem separatedNext_sim {d' : Nat} (hR : SimR X d' R R') {a sep : G} (hg : a.memoSafe X.ve = true ∧ sep.memoSafe X.ve = true)
    {o : Option Loc} {s t : St} (hs : WRel X o s t) (hpre : X.Pre (a.memoNodes d' ++ sep.memoNodes d') s.memo)
    (m : Mode) (lo : Nat) (hi : Option Nat) (lead trail : Bool) (n : Nat) :
    WIt X (X.Post s.memo) o s.errs s.ctx (separatedNext R X.env m a sep lo hi lead trail s n)
      (separatedNext R' X.env' m a sep lo hi lead trail t n) := by
  have h0 : WOk X (X.Post s.memo) o s.errs s.ctx s t := hs.init hpre.refl
  simp only [separatedNext]
  refine WIt.ite (.done _ h0) (WIt.ite ?_ (WIt.ite ?_ ?_))
  · mf_rc (hR.cases hg.2 hpre.app_r h0 .check) with v s1 t1 hr hf hrw
    · exact sepItem_sim hR hg.1 hs hpre.app_l hr m lo n trail
    · exact sepItem_sim hR hg.1 hs hpre.app_l hrw m lo n trail
  · mf_rc (hR.cases hg.2 hpre.app_r h0 .check) with v s1 t1 hr hf hrw
    · exact sepItem_sim hR hg.1 hs hpre.app_l hr m lo n trail
    · exact WIt.ite (.fail (hrw.toFail hf.some)) (.done _ hrw)
  · exact sepItem_sim hR hg.1 hs hpre.app_l h0 m lo n trail

theorem stepNext_sim (hR : SimR X (d + 1) R R') (hN : SimN X (d + 1) N N') (hK : SimK X (d + 1) K K') :
    SimN X d (stepNext R N K) (stepNext R' N' K') := by
  intro it hg m o s t ist hs hpre
  have h0 : WOk X (X.Post s.memo) o s.errs s.ctx s t := hs.init hpre.refl
  cases it with
  | repeated a lo hi =>
    simp only [It.memoSafe] at hg
    simp only [It.memoNodes] at hpre
    cases ist with
    | cnt n => exact repeatedNext_sim hR hg hpre h0 m lo hi n id
    | _ => exact .panic _
  | separatedBy a sep lo hi lead trail =>
    simp only [It.memoSafe, Bool.and_eq_true] at hg
    simp only [It.memoNodes] at hpre
    cases ist with
    | cnt n => exact separatedNext_sim hR hg hs hpre m lo hi lead trail n
    | _ => exact .panic _
  | enumerate inner =>
    simp only [It.memoSafe] at hg
    simp only [It.memoNodes] at hpre
    cases ist with
    | enum k si =>
      mf_esimp [stepNext]
      mf_nc (hN.cases hg hpre h0 m si) with v i s1 t1 hr hf
      · exact .some _ _ hr
      · exact .done _ hr
      · exact .fail hf
    | _ => exact .panic _
  | orNotIt a =>
    simp only [It.memoSafe] at hg
    simp only [It.memoNodes] at hpre
    cases ist with
    | fin b =>
      mf_esimp [stepNext]
      refine WIt.ite (.done _ h0) ?_
      mf_rc (hR.cases hg hpre h0 m) with v s1 t1 hr hf hrw
      · exact .some _ _ hr
      · exact .done _ hrw
    | _ => exact .panic _
  | intoIter a =>
    cases ist with
    | into vs =>
      cases vs with
      | nil => exact .done _ h0
      | cons v rest => exact .some _ _ h0
    | _ => exact .panic _
  | thenIt a b =>
    simp only [It.memoSafe, Bool.and_eq_true] at hg
    simp only [It.memoNodes] at hpre
    cases ist with
    | thn sa sb? =>
      cases sb? with
      | some sb =>
        mf_esimp [stepNext]
        mf_nc (hN.cases hg.2 hpre.app_r h0 m sb) with v i s1 t1 hr hf
        · exact .some _ _ hr
        · exact .done _ hr
        · exact .fail hf
      | none =>
        mf_esimp [stepNext]
        mf_nc (hN.cases hg.1 hpre.app_l h0 m sa) with v i s1 t1 hr hf
        · exact .some _ _ hr
        · mf_kc (hK.cases hg.2 hpre.app_r hr m) with sb s2 t2 hr2 hf2
          · mf_nc (hN.cases hg.2 hpre.app_r hr2 m sb) with v i3 s3 t3 hr3 hf3
            · exact .some _ _ hr3
            · exact .done _ hr3
            · exact .fail hf3
          · exact .fail hf2
        · exact .fail hf
    | _ => exact .panic _
  | mapIt f inner =>
    simp only [It.memoSafe] at hg
    simp only [It.memoNodes] at hpre
    mf_esimp [stepNext]
    mf_nc (hN.cases hg hpre h0 m ist) with v i s1 t1 hr hf
    · exact .some _ _ hr
    · exact .done _ hr
    · exact .fail hf
  | _ => exact absurd hg (by simp [It.memoSafe])

end steps

/-! ### the `memoized` node: `step_memoized_transparent` (MemoSim) in the present relations -/

/-- the global facts about the nodes of the top grammar: `B` is "is a node", one body per id, ids pairwise distinct -/
structure Cx.Wf (X : Cx) : Prop where
  hB : ∀ {id a k}, (id, a, k) ∈ X.nodes0 → X.B id a
  hB1 : ∀ {id a a'}, X.B id a → X.B id a' → a = a'
  nodup : (X.nodes0.map (·.1)).Nodup

theorem WOut.toM {X : Cx} (hon : X.env.memoOn = true) (hF : X.F) {memo0 : Memo} {o : Option Loc} {base : List Loc}
    {c : Val} {x y : Out} (h : WOut X (X.Post memo0) o base c x y) :
    MOutRel X.ek (TableOK X.B X.Rof X.env' memo0) o base c x y := by
  cases h with
  | ok v h =>
    exact ⟨rfl, ⟨h.pos, (h.full hF).1, (h.full hF).2.1, (h.full hF).2.2, h.alt⟩, h.tab hon⟩
  | fail h =>
    obtain ⟨h1, h2, h3, h4⟩ := h.full hF
    exact ⟨⟨h1, h2, h3, h4, h.some, h.alt⟩, h.tab hon⟩
  | panic w => exact rfl
  | oof => exact trivial

theorem memo_on_ok_frame {R : Runner} {N : NextRunner} {K : MkRunner} {L : Nat} {env : Env} (hon : env.memoOn = true)
    {m : Mode} {id : Nat} {a : G} {s s1 : St} {v : Val} (h : step R N K L env m (.memoized id a) s = .ok v s1) :
    ∃ s1', R env m a { s with memo := memoInsert s.memo (s.pos, id) none, alt := none } = .ok v s1' ∧
      s1.errs = s1'.errs ∧ s1.ctx = s1'.ctx := by
  rw [step_memoized_on R N K L env hon] at h
  cases hf : memoFind s.memo (s.pos, id) with
  | some x => cases x <;> simp [hf] at h
  | none =>
    simp only [hf] at h
    cases hr : R env m a { s with memo := memoInsert s.memo (s.pos, id) none, alt := none } with
    | ok v' s1' =>
      simp only [hr] at h
      injection h with h1 h2
      subst h1 h2
      exact ⟨s1', rfl, by simp, by simp⟩
    | fail _ => simp [hr] at h
    | panic _ => simp [hr] at h
    | oof => simp [hr] at h

theorem memo_on_fail_frame {R : Runner} {N : NextRunner} {K : MkRunner} {L : Nat} {env : Env} (hon : env.memoOn = true)
    {m : Mode} {id : Nat} {a : G} {s s1 : St} (h : step R N K L env m (.memoized id a) s = .fail s1) :
    s1.errs = s.errs ∨
    ∃ s1', R env m a { s with memo := memoInsert s.memo (s.pos, id) none, alt := none } = .fail s1' ∧
      s1.errs = s1'.errs := by
  rw [step_memoized_on R N K L env hon] at h
  cases hf : memoFind s.memo (s.pos, id) with
  | some x =>
    cases x with
    | none => simp only [hf] at h; injection h with h; subst h; left; simp
    | some e => simp only [hf] at h; injection h with h; subst h; left; simp
  | none =>
    simp only [hf] at h
    cases hr : R env m a { s with memo := memoInsert s.memo (s.pos, id) none, alt := none } with
    | fail s1' =>
      simp only [hr] at h
      injection h with h
      subst h
      exact .inr ⟨s1', rfl, by simp⟩
    | ok _ _ => simp [hr] at h
    | panic _ => simp [hr] at h
    | oof => simp [hr] at h

section memo
variable {X : Cx} {d : Nat} {R R' : Runner} {N N' : NextRunner} {K K' : MkRunner}

theorem memo_case (W : X.Wf) (hR : SimR X (d + 1) R R')
    (hRof : X.env.memoOn = true → ∀ id a, (id, a, d + 1) ∈ X.nodes0 → X.Rof id = R')
    (hPD : X.env.memoOn = true → ∀ a : G, a.memoSafe X.ve = true → (G.memoNodes (d + 1) a).Sublist X.nodes0 →
      PosDetermined R' X.env' a) (L : Nat) : MemoCase X d R R' N N' K K' L := by
  intro id a hg m o s t hs hpre
  by_cases hon : X.env.memoOn = true
  · have hF := X.hF hon
    obtain ⟨hsub, hrest⟩ := hpre
    obtain ⟨hTI, hNP⟩ := hrest hon
    have hmem : (id, a, d + 1) ∈ X.nodes0 := hsub.subset List.mem_cons_self
    have hsubA : (G.memoNodes (d + 1) a).Sublist X.nodes0 := (List.sublist_cons_self _ _).trans hsub
    have hnd : (id :: (G.memoNodes (d + 1) a).map (·.1)).Nodup := by
      have h1 : (List.map (fun x : MNode => x.1) ((id, a, d + 1) :: G.memoNodes (d + 1) a)).Sublist
          (List.map (fun x : MNode => x.1) X.nodes0) := hsub.map _
      exact List.Pairwise.sublist h1 W.nodup
    have hid : ¬ id ∈ (G.memoNodes (d + 1) a).map (·.1) := (List.nodup_cons.mp hnd).1
    have mrel : MRel X.ek o s t := ⟨hs.pos, (hs.full hF).1, (hs.full hF).2.1, (hs.full hF).2.2, hs.alt⟩
    have hBody : ∀ (o : Option Loc) (s t : St), MRel X.ek o s t → TableInv X.B X.Rof X.env' s.memo →
        (∀ p i, i ∈ (G.memoNodes (d + 1) a).map (·.1) → memoFind s.memo (p, i) ≠ some none) →
        MOutRel X.ek (TableOK X.B X.Rof X.env' s.memo) o s.errs s.ctx (R X.env m a s) (R' X.env' m a t) := by
      intro o s t hm hti hnp
      exact (hR a hg m o s t ⟨hm.pos, hm.alt, fun _ => ⟨hm.errs, hm.insp, hm.ctx⟩⟩
        ⟨hsubA, fun _ => ⟨hti, fun p x hx => hnp p x.1 (List.mem_map_of_mem hx)⟩⟩).toM hon hF
    have key := step_memoized_transparent (N := N) (N' := N') (K := K) (K' := K') L hon (hRof hon id a hmem)
      (W.hB hmem) (fun a' ha' => W.hB1 ha' (W.hB hmem)) (fun i => i ∈ (G.memoNodes (d + 1) a).map (·.1)) hid
      (hPD hon a hg hsubA) m hBody mrel hTI (fun p => hNP p (id, a, d + 1) List.mem_cons_self)
      (fun p i hi => by
        obtain ⟨x, hx, rfl⟩ := List.mem_map.mp hi
        exact hNP p x (List.mem_cons_of_mem _ hx))
    -- the body run from the state with this node in progress (what ON does on a miss) vs the OFF body run
    have hw := hR a hg m (oplus X.ek o s.alt) { s with memo := memoInsert s.memo (s.pos, id) none, alt := none } t
      ⟨hs.pos, hs.alt, hs.full⟩
      ⟨hsubA, fun _ => ⟨hTI.insert_none _, fun p x hx' => by
        have hne : (p, x.1) ≠ (s.pos, id) := fun h => hid ((Prod.mk.inj h).2 ▸ List.mem_map_of_mem hx')
        rw [memoFind_insert_ne _ _ _ _ hne]
        exact hNP p x (List.mem_cons_of_mem _ hx')⟩⟩
    cases hx : step R N K L X.env m (.memoized id a) s <;>
      cases hy : step R' N' K' L X.env' m (.memoized id a) t <;>
      rw [hx, hy] at key <;> simp only [MOutRel] at key
    · -- ok / ok: the frame of the body's result
      rename_i v s1 v' t1
      obtain ⟨rfl, hm, htab⟩ := key
      obtain ⟨s1', hr1, e1, e2⟩ := memo_on_ok_frame hon hx
      rw [hr1] at hw
      rcases hw.cases with ⟨_, _, _, e3, _, hok⟩ | ⟨_, _, e3, _⟩ | ⟨_, e3, _⟩ | ⟨e3, _⟩ <;> cases e3
      refine .ok _ ⟨⟨hm.pos, hm.alt, fun _ => ⟨hm.errs, hm.insp, hm.ctx⟩⟩, fun hF' => ?_, fun hF' hE => ?_, fun _ => htab⟩
      · rw [e1, e2]
        exact hok.frame hF'
      · rw [e1]
        exact hok.stab hF' hE
    · -- fail / fail
      rename_i s1 t1
      obtain ⟨hfr, htab⟩ := key
      refine .fail ⟨hfr.some, hfr.alt, fun _ => ⟨hfr.errsL, hfr.errsR, hfr.ctxL, hfr.ctxR⟩, fun hF' hE => ?_, fun _ => htab⟩
      have hy' : R' X.env' m a t = .fail t1 := by rw [step_memoized_off] at hy; exact hy
      rw [hy'] at hw
      rcases hw.cases with ⟨_, _, _, _, e4, _⟩ | ⟨s1'', _, e3, e4, hfw⟩ | ⟨_, _, e4⟩ | ⟨_, e4⟩ <;> cases e4
      refine ⟨?_, (hfw.stab hF' hE).2⟩
      rcases memo_on_fail_frame hon hx with h | ⟨s1', hr, he⟩
      · exact h
      · rw [hr] at e3; cases e3
        rw [he]; exact (hfw.stab hF' hE).1
    · subst key; exact .panic _
    · exact .oof
  · have hoff : X.env.memoOn = false := by simpa using hon
    have e1 : step R N K L X.env m (.memoized id a) s = R X.env m a s := by simp [step, hoff]
    rw [e1, step_memoized_off]
    exact hR a hg m o s t hs hpre.tail

end memo

/-! ### every fuel -/

theorem all_sim (X : Cx) (W : X.Wf) (Ntop : Nat)
    (hRof : X.env.memoOn = true → ∀ id a k, (id, a, k) ∈ X.nodes0 → X.Rof id = run (Ntop - k))
    (hPD : X.env.memoOn = true → ∀ (n d : Nat) (a : G), a.memoSafe X.ve = true → (G.memoNodes d a).Sublist X.nodes0 →
      PosDetermined (run n) X.env' a) :
    ∀ n d, n + d = Ntop → SimR X d (run n) (run n) ∧ SimN X d (next n) (next n) ∧ SimK X d (mkIter n) (mkIter n) := by
  intro n
  induction n with
  | zero =>
    intro d _
    exact ⟨fun _ _ _ _ _ _ _ _ => .oof, fun _ _ _ _ _ _ _ _ _ => .oof, fun _ _ _ _ _ _ _ _ => .oof⟩
  | succ n ih =>
    intro d hd
    obtain ⟨hR, hN, hK⟩ := ih (d + 1) (by omega)
    refine ⟨?_, ?_, ?_⟩
    · show SimR X d (step (run n) (next n) (mkIter n) n) (step (run n) (next n) (mkIter n) n)
      refine step_sim hR hN hK n (memo_case W hR ?_ ?_ n)
      · intro hon id a hmem
        rw [hRof hon id a (d + 1) hmem]
        have : Ntop - (d + 1) = n := by omega
        rw [this]
      · intro hon a hg hsub
        exact hPD hon n (d + 1) a hg hsub
    · exact stepNext_sim hR hN hK
    · exact stepMk_sim hR hK

/-! ### (iii) of MemoSim for `run`: failure and contribution are determined by the position -/

theorem erase_eq_fail {o : Out} {st : St} (h : o.erase = .fail st) : o = .fail st := by
  cases o <;> simp [Out.erase] at h ⊢
  exact h

theorem run_fail_mode {n : Nat} {env : Env} {a : G} {t t1 : St} (h : run n env .emit a t = .fail t1) (m : Mode) :
    run n env m a t = .fail t1 := by
  cases m with
  | emit => exact h
  | check => rw [run_check_eq_erase_emit, h]; rfl

theorem posDetermined_run (env : Env) (hoff : env.memoOn = false) (ve : Bool) (B : Nat → G → Prop) (Rof : Nat → Runner)
    (nodes0 : List MNode) (W : Cx.Wf ⟨env, ve, False, fun h => absurd h (by simp [hoff]), B, Rof, nodes0⟩)
    (n d : Nat) (a : G) (hg : a.memoSafe ve = true) (hsub : (G.memoNodes d a).Sublist nodes0) :
    PosDetermined (run n) env a := by
  let X : Cx := ⟨env, ve, False, fun h => absurd h (by simp [hoff]), B, Rof, nodes0⟩
  have he : X.env' = env := Env.withMemo_self env hoff
  have hR : SimR X d (run n) (run n) :=
    (all_sim X W (n + d) (fun h => absurd h (by simp [X, hoff])) (fun h => absurd h (by simp [X, hoff])) n d rfl).1
  have hpre : ∀ memo, X.Pre (G.memoNodes d a) memo := fun memo => ⟨hsub, fun h => absurd h (by simp [X, hoff])⟩
  -- a pair: the run from `{t with alt := none}` (first) and the run from `t'` (second), offset `t'.alt`
  have pair : ∀ (t0 t' : St), t0.pos = t'.pos →
      WOut X (X.Post ({ t0 with alt := none } : St).memo) t'.alt t0.errs t0.ctx
        (run n env .emit a { t0 with alt := none }) (run n env .emit a t') := by
    intro t0 t' hp
    have := hR a hg .emit t'.alt { t0 with alt := none } t' ⟨hp, by rw [oplus_none_right]; exact OptLoc.equiv_refl _,
      fun h => h.elim⟩ (hpre _)
    rw [he] at this
    exact this
  intro m t t1 hfail
  have hE : run n env .emit a t = .fail t1 := by
    cases m with
    | emit => exact hfail
    | check => rw [run_check_eq_erase_emit] at hfail; exact erase_eq_fail hfail
  -- the canonical run fails
  have h1 := pair t t rfl
  rw [hE] at h1
  rcases h1.cases with ⟨_, _, _, _, e2, _⟩ | ⟨s1, _, e1, e2, hf1⟩ | ⟨_, _, e2⟩ | ⟨_, e2⟩ <;> cases e2
  obtain ⟨e, he1⟩ := Option.isSome_iff_exists.mp hf1.some
  refine ⟨e, ?_⟩
  intro m' t' ht'
  have h2 := pair t t' ht'.symm
  rw [e1] at h2
  rcases h2.cases with ⟨_, _, _, e3, _, _⟩ | ⟨_, t1', e3, e4, hf2⟩ | ⟨_, e3, _⟩ | ⟨e3, _⟩ <;> cases e3
  have hm := run_fail_mode e4 m'
  have hrf := run_refines n env m' a t' hoff
  rw [hm] at hrf
  refine ⟨t1', hm, ?_, ?_, ?_⟩
  · cases hp : peg n env a t'.ss t'.ctx <;> rw [hp] at hrf <;> simp only [Refines] at hrf
    exact hrf.errs
  · cases hp : peg n env a t'.ss t'.ctx <;> rw [hp] at hrf <;> simp only [Refines] at hrf
    exact hrf.ctx
  · have := hf2.alt
    rw [he1] at this
    exact this

/-! ### the table-invariant parameters of a concrete grammar -/

/-- "`memoized id a` is a node" -/
def memoB (l : List MNode) (id : Nat) (a : G) : Prop := ∃ k, (id, a, k) ∈ l

/-- the depth at which the body of node `id` runs -/
def memoDepth (l : List MNode) (id : Nat) : Nat :=
  match l.find? (fun x => x.1 == id) with
  | some x => x.2.2
  | none => 0

/-- the runner the body of node `id` is run with, when the top grammar is run with fuel `N` -/
def memoRof (N : Nat) (l : List MNode) (id : Nat) : Runner := run (N - memoDepth l id)

theorem nodes_unique : ∀ {l : List MNode}, (l.map (·.1)).Nodup → ∀ {id a a' k k'}, (id, a, k) ∈ l → (id, a', k') ∈ l →
    a = a' ∧ k = k'
  | [], _, _, _, _, _, _, h, _ => by cases h
  | x :: l, hnd, id, a, a', k, k', h1, h2 => by
    have hnd' := List.nodup_cons.mp (by simpa using hnd : (x.1 :: l.map (·.1)).Nodup)
    rcases List.mem_cons.mp h1 with e1 | h1' <;> rcases List.mem_cons.mp h2 with e2 | h2'
    · rw [← e1] at e2; cases e2; exact ⟨rfl, rfl⟩
    · subst e1; exact absurd (List.mem_map_of_mem (f := fun y : MNode => y.1) h2') hnd'.1
    · subst e2; exact absurd (List.mem_map_of_mem (f := fun y : MNode => y.1) h1') hnd'.1
    · exact nodes_unique hnd'.2 h1' h2'

theorem memoDepth_eq {l : List MNode} (hnd : (l.map (·.1)).Nodup) {id a k} (h : (id, a, k) ∈ l) :
    memoDepth l id = k := by
  unfold memoDepth
  cases hf : l.find? (fun x => x.1 == id) with
  | none =>
    have := List.find?_eq_none.mp hf _ h
    simp at this
  | some x =>
    have hx : x ∈ l := List.mem_of_find?_eq_some hf
    have hid : x.1 = id := by simpa using List.find?_some hf
    obtain ⟨i, b, k'⟩ := x
    simp only at hid
    subst hid
    exact (nodes_unique hnd hx h).2

/-- the setting for the grammar whose nodes are `l`, run with fuel `N` -/
def memoCx (env : Env) (ve : Bool) (F : Prop) (hF : env.memoOn = true → F) (N : Nat) (l : List MNode) : Cx :=
  ⟨env, ve, F, hF, memoB l, memoRof N l, l⟩

theorem memoCx_wf (env : Env) (ve : Bool) (F : Prop) (hF : env.memoOn = true → F) (N : Nat) (l : List MNode)
    (hnd : (l.map (·.1)).Nodup) : (memoCx env ve F hF N l).Wf :=
  ⟨fun h => ⟨_, h⟩, fun ⟨_, h1⟩ ⟨_, h2⟩ => (nodes_unique hnd h1 h2).1, hnd⟩

/-- **the simulation at every fuel**, ON (`env`, `memoOn = true`) vs OFF (`env.withMemo false`), for the nodes `l` of
    a top grammar run with fuel `N`; `ve = true`: the `validate`-free class -/
theorem memo_sim_on (env : Env) (ve : Bool) (N : Nat) (l : List MNode) (hnd : (l.map (·.1)).Nodup) :
    ∀ n d, n + d = N →
      SimR (memoCx env ve True (fun _ => trivial) N l) d (run n) (run n) ∧
      SimN (memoCx env ve True (fun _ => trivial) N l) d (next n) (next n) ∧
      SimK (memoCx env ve True (fun _ => trivial) N l) d (mkIter n) (mkIter n) := by
  refine all_sim _ (memoCx_wf env ve True _ N l hnd) N ?_ ?_
  · intro _ id a k hmem
    show memoRof N l id = run (N - k)
    rw [memoRof, memoDepth_eq hnd hmem]
  · intro _ n d a hg hsub
    have hoff : (env.withMemo false).memoOn = false := rfl
    exact posDetermined_run (env.withMemo false) hoff ve (memoB l) (memoRof N l) l
      ⟨fun h => ⟨_, h⟩, fun ⟨_, h1⟩ ⟨_, h2⟩ => (nodes_unique hnd h1 h2).1, hnd⟩ n d a hg hsub

/-- the simulation for a top grammar `g`, in the relations of this file (`WOut`: `MOutRel` plus, in the
    `validate`-free class, "the secondary errors never change") -/
theorem run_memo_sim (N : Nat) (env : Env) (ve : Bool) (g : G) (hg : g.memoSafe ve = true) (hnd : g.memoIds.Nodup)
    (m : Mode) (o : Option Loc) (s t : St) (hrel : MRel env.ek o s t)
    (hTI : TableInv (memoB (G.memoNodes 0 g)) (memoRof N (G.memoNodes 0 g)) (env.withMemo false) s.memo)
    (hNP : ∀ p i, i ∈ g.memoIds → memoFind s.memo (p, i) ≠ some none) :
    WOut (memoCx env ve True (fun _ => trivial) N (G.memoNodes 0 g))
      ((memoCx env ve True (fun _ => trivial) N (G.memoNodes 0 g)).Post s.memo) o s.errs s.ctx
      (run N env m g s) (run N (env.withMemo false) m g t) :=
  (memo_sim_on env ve N (G.memoNodes 0 g) hnd N 0 rfl).1 g hg m o s t
    ⟨hrel.pos, hrel.alt, fun _ => ⟨hrel.errs, hrel.insp, hrel.ctx⟩⟩
    ⟨List.Sublist.refl _, fun _ => ⟨hTI, fun p x hx => hNP p x.1 (List.mem_map_of_mem hx)⟩⟩

end MF
open MF

/-- **C11, full transparency at the level of `run`.**  `g`: any grammar of the class `memoSafe` (with `memoized` at
    any node), memo ids pairwise distinct.  From states related by `MRel` (equal cursor, secondary errors, inspector,
    context; pending errors related modulo the offset `o`) whose table satisfies the invariant and holds no
    in-progress marker for a node of `g`, the run with memoization ON and the run with memoization OFF are related by
    `MOutRel`: same outcome kind, same value, `MRel` on success, `FRel` on failure, table invariant preserved. -/
theorem run_memo_transparent (N : Nat) (env : Env) (hon : env.memoOn = true) (g : G) (hg : g.memoSafe false = true)
    (hnd : g.memoIds.Nodup) (m : Mode) (o : Option Loc) (s t : St)
    (hrel : MRel env.ek o s t)
    (hTI : TableInv (memoB (G.memoNodes 0 g)) (memoRof N (G.memoNodes 0 g)) (env.withMemo false) s.memo)
    (hNP : ∀ p i, i ∈ g.memoIds → memoFind s.memo (p, i) ≠ some none) :
    MOutRel env.ek (TableOK (memoB (G.memoNodes 0 g)) (memoRof N (G.memoNodes 0 g)) (env.withMemo false) s.memo)
      o s.errs s.ctx (run N env m g s) (run N (env.withMemo false) m g t) :=
  (run_memo_sim N env false g hg hnd m o s t hrel hTI hNP).toM hon trivial

/-- in the `validate`-free class (`memoSafe true`) moreover: all result states, failed ones included, carry exactly
    the secondary errors of the start state -/
theorem run_memo_errs_stable (N : Nat) (env : Env) (g : G) (hg : g.memoSafe true = true)
    (hnd : g.memoIds.Nodup) (m : Mode) (o : Option Loc) (s t : St)
    (hrel : MRel env.ek o s t)
    (hTI : TableInv (memoB (G.memoNodes 0 g)) (memoRof N (G.memoNodes 0 g)) (env.withMemo false) s.memo)
    (hNP : ∀ p i, i ∈ g.memoIds → memoFind s.memo (p, i) ≠ some none) :
    match run N env m g s, run N (env.withMemo false) m g t with
    | .ok _ s1, .ok _ t1 => s1.errs = s.errs ∧ t1.errs = s.errs
    | .fail s1, .fail t1 => s1.errs = s.errs ∧ t1.errs = s.errs
    | _, _ => True := by
  have h := run_memo_sim N env true g hg hnd m o s t hrel hTI hNP
  rcases h.cases with ⟨_, _, _, e1, e2, h⟩ | ⟨_, _, e1, e2, h⟩ | ⟨_, e1, e2⟩ | ⟨e1, e2⟩ <;> rw [e1, e2] <;> simp only []
  · exact ⟨h.stab trivial rfl, (h.full trivial).1 ▸ h.stab trivial rfl⟩
  · exact h.stab trivial rfl

theorem memoSafe_weaken : ∀ g : G, g.memoSafe true = true → g.memoSafe false = true := G.memoSafe_weaken'

/-- from one state with an empty table, in plain terms -/
theorem run_memo_transparent_empty (N : Nat) (env : Env) (hon : env.memoOn = true) (g : G) (hg : g.memoSafe false = true)
    (hnd : g.memoIds.Nodup) (m : Mode) (s : St) (hs : s.memo = []) :
    match run N env m g s, run N (env.withMemo false) m g s with
    | .ok v s1, .ok v' t1 => v = v' ∧ s1.pos = t1.pos ∧ s1.errs = t1.errs ∧ s1.insp = t1.insp ∧ s1.ctx = t1.ctx ∧
        OptLoc.equiv s1.alt t1.alt
    | .fail s1, .fail t1 => OptLoc.equiv s1.alt t1.alt ∧ s1.alt.isSome = true ∧ s.errs <+: s1.errs ∧ s.errs <+: t1.errs ∧
        s1.ctx = s.ctx ∧ t1.ctx = s.ctx
    | .panic w, .panic w' => w = w'
    | .oof, .oof => True
    | _, _ => False := by
  have h := run_memo_transparent N env hon g hg hnd m none s s (MRel.refl_none _ s)
    (by rw [hs]; exact TableInv.nil _ _ _) (by intro p i _; rw [hs]; simp [memoFind])
  cases h1 : run N env m g s <;> cases h2 : run N (env.withMemo false) m g s <;>
    rw [h1, h2] at h <;> simp only [MOutRel] at h ⊢
  · exact ⟨h.1, h.2.1.pos, h.2.1.errs, h.2.1.insp, h.2.1.ctx, h.2.1.alt_none⟩
  · exact ⟨h.1.alt_none, h.1.some, h.1.errsL, h.1.errsR, h.1.ctxL, h.1.ctxR⟩
  · exact h

/-! ### top level -/

/-- what the two top-level results share: same kind; same output; with an output, the same error list; without,
    both lists end with the primary error, the same up to `Err.equiv` (order of `expected`) -/
def TopMemoRel : TopOut → TopOut → Prop
  | .result r _, .result r' _ =>
      r.output = r'.output ∧
      match r.output with
      | some _ => r.errs = r'.errs
      | none => ∃ es es' e e', r.errs = es ++ [e] ∧ r'.errs = es' ++ [e'] ∧ e.equiv e'
  | .panic w, .panic w' => w = w'
  | .oof, .oof => True
  | _, _ => False

/-- pointwise `Err.equiv` -/
def ErrsEquiv : List Err → List Err → Prop
  | [], [] => True
  | a :: l, b :: l' => a.equiv b ∧ ErrsEquiv l l'
  | _, _ => False

/-- same kind, same output, the same error list up to `Err.equiv` -/
def TopMemoRelFull : TopOut → TopOut → Prop
  | .result r _, .result r' _ => r.output = r'.output ∧ ErrsEquiv r.errs r'.errs
  | .panic w, .panic w' => w = w'
  | .oof, .oof => True
  | _, _ => False

theorem forall₂_equiv_refl : ∀ l : List Err, ErrsEquiv l l
  | [] => trivial
  | e :: l => ⟨Err.equiv_refl e, forall₂_equiv_refl l⟩

theorem memoSafe_top {ve : Bool} {g : G} (hg : g.memoSafe ve = true) : (G.thenIgnore g .end_).memoSafe ve = true := by
  simp [G.memoSafe, hg]

theorem memoIds_top {g : G} (hnd : g.memoIds.Nodup) : (G.thenIgnore g .end_).memoIds.Nodup := by
  show ((G.memoNodes 1 g ++ []).map (fun x : MNode => x.1)).Nodup
  rw [List.append_nil, G.memoIds_eq]; exact hnd

/-- **C11 at the top level**: `parse`/`check` with memoization ON and OFF: same acceptance, same output, same errors
    (on failure: the same primary error up to the order of `expected`). -/
theorem parseTop_memo_transparent (N : Nat) (env : Env) (hon : env.memoOn = true) (g : G) (hg : g.memoSafe false = true)
    (hnd : g.memoIds.Nodup) (m : Mode) :
    TopMemoRel (parseTop N env m g) (parseTop N (env.withMemo false) m g) := by
  have h := run_memo_transparent_empty N env hon (.thenIgnore g .end_) (memoSafe_top hg) (memoIds_top hnd) m St.init rfl
  simp only [parseTop]
  cases h1 : run N env m (.thenIgnore g .end_) St.init <;>
    cases h2 : run N (env.withMemo false) m (.thenIgnore g .end_) St.init <;>
    rw [h1, h2] at h <;> simp only [TopMemoRel] at h ⊢
  · obtain ⟨hv, _, he, _⟩ := h
    exact ⟨by rw [hv], by rw [he]⟩
  · rename_i s1 t1
    obtain ⟨ha, hsome, _⟩ := h
    refine ⟨trivial, _, _, _, _, rfl, rfl, ?_⟩
    obtain ⟨a, ha1⟩ := Option.isSome_iff_exists.mp hsome
    rw [ha1] at ha ⊢
    cases ht : t1.alt with
    | none => rw [ht] at ha; exact ha.elim
    | some b => rw [ht] at ha; exact ha.2
  · exact h

/-- **C11 at the top level, `validate`-free class**: same acceptance, same output, the same error list up to
    `Err.equiv`, also when the parse fails. -/
theorem parseTop_memo_transparent_full (N : Nat) (env : Env) (hon : env.memoOn = true) (g : G)
    (hg : g.memoSafe true = true) (hnd : g.memoIds.Nodup) (m : Mode) :
    TopMemoRelFull (parseTop N env m g) (parseTop N (env.withMemo false) m g) := by
  have h := run_memo_transparent_empty N env hon (.thenIgnore g .end_) (memoSafe_weaken _ (memoSafe_top hg))
    (memoIds_top hnd) m St.init rfl
  have hst := run_memo_errs_stable N env (.thenIgnore g .end_) (memoSafe_top hg) (memoIds_top hnd) m none
    St.init St.init (MRel.refl_none _ _) (TableInv.nil _ _ _) (by intro p i _; simp [St.init, memoFind])
  simp only [parseTop]
  cases h1 : run N env m (.thenIgnore g .end_) St.init <;>
    cases h2 : run N (env.withMemo false) m (.thenIgnore g .end_) St.init <;>
    rw [h1, h2] at h hst <;> simp only [TopMemoRelFull] at h hst ⊢
  · obtain ⟨hv, _, he, _⟩ := h
    exact ⟨by rw [hv], by rw [he]; exact forall₂_equiv_refl _⟩
  · rename_i s1 t1
    obtain ⟨ha, hsome, _⟩ := h
    refine ⟨trivial, ?_⟩
    rw [hst.1, hst.2]
    obtain ⟨a, ha1⟩ := Option.isSome_iff_exists.mp hsome
    rw [ha1] at ha ⊢
    cases ht : t1.alt with
    | none => rw [ht] at ha; exact ha.elim
    | some b =>
      rw [ht] at ha
      exact ⟨ha.2, trivial⟩
  · exact h

/-- **C11 read as "inserting `memoized()` changes nothing"**: the grammar with its `memoized` nodes, table on, against
    the grammar with every `memoized id a` replaced by the identity wrapper (`G.stripMemo`, MemoOff.lean). -/
theorem parseTop_memo_vs_plain (N : Nat) (env : Env) (hon : env.memoOn = true) (g : G) (hg : g.memoSafe false = true)
    (hnd : g.memoIds.Nodup) (m : Mode) :
    TopMemoRel (parseTop N env m g)
      (parseTop N { env with memoOn := true, defs := stripMemoL env.defs } m g.stripMemo) := by
  have h := parseTop_memo_transparent N env hon g hg hnd m
  rw [parseTop_stripMemo N (env.withMemo false) rfl true m g] at h
  exact h

theorem parseTop_memo_vs_plain_full (N : Nat) (env : Env) (hon : env.memoOn = true) (g : G)
    (hg : g.memoSafe true = true) (hnd : g.memoIds.Nodup) (m : Mode) :
    TopMemoRelFull (parseTop N env m g)
      (parseTop N { env with memoOn := true, defs := stripMemoL env.defs } m g.stripMemo) := by
  have h := parseTop_memo_transparent_full N env hon g hg hnd m
  rw [parseTop_stripMemo N (env.withMemo false) rfl true m g] at h
  exact h

/-! ### non-vacuity: a grammar with two memoized nodes (one inside the other's sibling, one under a repetition) -/

def memoExample : G :=
  .or_ (.then_ (.memoized 1 (.then_ (.oneOf [1, 2]) (.orNot (.just [3])))) (.just [9]))
       (.collect .vec (.repeated (.memoized 2 (.validate ⟨.tokIs 2, 7, 1⟩ .any)) 0 none))

example : memoExample.memoSafe false = true ∧ memoExample.memoIds.Nodup := by decide

example (N : Nat) (m : Mode) (toks : List Nat) :
    TopMemoRel (parseTop N { toks := toks, memoOn := true } m memoExample)
      (parseTop N (({ toks := toks, memoOn := true } : Env).withMemo false) m memoExample) :=
  parseTop_memo_transparent N _ rfl memoExample (by decide) (by decide) m

/-- sanity: both runs of the example accept `[1, 3, 5]` (second alternative, after the first one — through the
    memoized node 1 — has failed and been rewound) -/
example : (parseTop 20 { toks := [1, 3, 5], memoOn := true } .emit memoExample).accepted = some true ∧
    (parseTop 20 { toks := [1, 3, 5], memoOn := false } .emit memoExample).accepted = some true := by
  decide +kernel

/-- a `validate`-free example (labels, `try_map`, `not`, separated lists, a plain `repeated()`), three memoized nodes -/
def memoExample2 : G :=
  .then_ (.labelled 3 true (.memoized 1 (.tryMap ⟨.tokIs 4, 8, 2⟩ .any)))
    (.or_ (.foldl .pair (.memoized 2 (.just [1])) (.separatedBy (.memoized 3 (.oneOf [1, 2])) (.just [0]) 0 none true false))
          (.ignoreThen (.not_ (.just [7])) (.iterP (.repeated (.noneOf [9]) 0 none))))

example : memoExample2.memoSafe true = true ∧ memoExample2.memoIds.Nodup := by decide

example (N : Nat) (m : Mode) (toks : List Nat) (ek : ErrKind) :
    TopMemoRelFull (parseTop N { toks := toks, ek := ek, memoOn := true } m memoExample2)
      (parseTop N (({ toks := toks, ek := ek, memoOn := true } : Env).withMemo false) m memoExample2) :=
  parseTop_memo_transparent_full N _ rfl memoExample2 (by decide) (by decide) m

/-- a memo *hit* inside the class with pairwise distinct ids: `collect_exactly` has no progress assertion, so the
    second `next` of `repeated(or_not(memoized(just 7)))` re-enters the node at the same position and replays the
    stored failure (the entry is still in the final table); the theorem covers it -/
def memoExampleHit : G := .collectExactly 2 (.repeated (.orNot (.memoized 1 (.just [7]))) 0 none)

def TopOut.memoSize : TopOut → Nat
  | .result _ f => f.memo.length
  | _ => 0

example : memoExampleHit.memoSafe true = true ∧ memoExampleHit.memoIds.Nodup ∧
    (parseTop 20 { toks := [], memoOn := true } .emit memoExampleHit).accepted = some true ∧
    (parseTop 20 { toks := [], memoOn := true } .emit memoExampleHit).memoSize = 1 ∧
    (parseTop 20 { toks := [], memoOn := false } .emit memoExampleHit).accepted = some true := by
  decide +kernel

#print axioms all_sim
#print axioms posDetermined_run
#print axioms run_memo_transparent
#print axioms run_memo_errs_stable
#print axioms run_memo_transparent_empty
#print axioms parseTop_memo_transparent
#print axioms parseTop_memo_transparent_full
#print axioms parseTop_memo_vs_plain
#print axioms parseTop_memo_vs_plain_full
end Chumsky
