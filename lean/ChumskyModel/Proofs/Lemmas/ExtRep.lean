/-
  C02 for grammars with extensions: repetitions and separated lists whose items are (or contain) Pratt expressions and nested
  parses — `expr.separated_by(',')` inside a group, a sequence of groups — collect exactly the item chain the reading prescribes.
  The characterisations of `RepSpec.lean` are generic in the item reading; here they are instantiated with `pegE`.
-/
import ChumskyModel.Model.Ext
import ChumskyModel.Proofs.Lemmas.RepSpec
set_option linter.unusedSimpArgs false
set_option linter.unusedVariables false
namespace Chumsky

section
variable {e : EEnv} {env : Env} {ctx : Val}

theorem pegNextE_succ (n : Nat) : pegNextE e (n + 1) = pegNext (pegE e n) (pegNextE e n) (pegMkE e n) := by rw [pegNextE]
theorem pegMkE_succ (n : Nat) : pegMkE e (n + 1) = pegMk (pegE e n) (pegMkE e n) := by rw [pegMkE]

theorem pegNextE_repeated (n : Nat) {a lo hi} (s : SS) (k : Nat) :
    pegNextE e (n + 1) env (.repeated a lo hi) s ctx (.cnt k) = sRepeatedNext (pegE e n) env ctx a lo hi s k id := by
  rw [pegNextE_succ]; rfl

theorem pegMkE_repeated (n : Nat) {a lo hi} (s : SS) :
    pegMkE e (n + 1) env (.repeated a lo hi) s ctx = .ok (.cnt 0) s [] := by
  rw [pegMkE_succ]; rfl

theorem pegNextE_separatedBy (n : Nat) {a sep lo hi lead trail} (s : SS) (k : Nat) :
    pegNextE e (n + 1) env (.separatedBy a sep lo hi lead trail) s ctx (.cnt k) =
      sSeparatedNext (pegE e n) env ctx a sep lo hi lead trail s k := by
  rw [pegNextE_succ]; rfl

theorem pegMkE_separatedBy (n : Nat) {a sep lo hi lead trail} (s : SS) :
    pegMkE e (n + 1) env (.separatedBy a sep lo hi lead trail) s ctx = .ok (.cnt 0) s [] := by
  rw [pegMkE_succ]; rfl

theorem pegE_collect_items {n k it s v s' em} (h : pegE e (n + 1) env (.collect k it) s ctx = .ok v s' em) :
    ∃ ist s1 e1 vs e2, pegMkE e n env it s ctx = .ok ist s1 e1 ∧
      Items (pegNextE e n) env ctx it s1 ist vs s' e2 ∧ v = sCollectOut k vs ∧ em = e1 ++ e2 := by
  simp only [pegE, EEnv.find, pegStep] at h
  cases hK : pegMkE e n env it s ctx with
  | ok ist s1 e1 =>
    rw [hK] at h; simp only at h
    obtain ⟨vs, e', hI, hv, he⟩ := sCollectLoop_sound _ _ _ _ _ _ _ _ _ h
    exact ⟨ist, s1, e1, vs, e', rfl, hI, by simpa using hv, he⟩
  | fail => rw [hK] at h; cases h
  | panic w => rw [hK] at h; cases h
  | oof => rw [hK] at h; cases h

/-- `repeated().collect()` over items read by `pegE` -/
theorem pegE_collect_repeated {n k a lo hi s v s' em}
    (h : pegE e (n + 2) env (.collect k (.repeated a lo hi)) s ctx = .ok v s' em) :
    ∃ vs, RepRun (pegE e n) env ctx a lo hi s vs s' em ∧ v = sCollectOut k vs := by
  obtain ⟨ist, s1, e1, vs, e2, hK, hI, hv, rfl⟩ := pegE_collect_items h
  rw [pegMkE_repeated] at hK
  cases hK
  exact ⟨vs, by simpa using (repeated_items_zero (pegNextE_repeated n)).1 hI, hv⟩

theorem pegE_collect_vec_repeated {n a lo hi s v s' em} (hwf : ∀ h, hi = some h → lo ≤ h)
    (h : pegE e (n + 2) env (.collect .vec (.repeated a lo hi)) s ctx = .ok v s' em) :
    ∃ vs, Chain (pegE e n) env ctx a s vs s' em ∧ v = Val.ofList vs ∧ lo ≤ vs.length ∧
      (∀ h, hi = some h → vs.length ≤ h) ∧ (hi = some vs.length ∨ pegE e n env a s' ctx = .fail) := by
  obtain ⟨vs, hr, rfl⟩ := pegE_collect_repeated h
  exact ⟨vs, hr.chain, rfl, hr.lo_le hwf, hr.le_hi, hr.stop⟩

/-- `separated_by().collect()` over items and separators read by `pegE` -/
theorem pegE_collect_separatedBy {n k a sep lo hi lead trail s v s' em}
    (h : pegE e (n + 2) env (.collect k (.separatedBy a sep lo hi lead trail)) s ctx = .ok v s' em) :
    ∃ vs, SepRun (pegE e n) env ctx a sep lo hi lead trail s vs s' em ∧ v = sCollectOut k vs := by
  obtain ⟨ist, s1, e1, vs, e2, hK, hI, hv, rfl⟩ := pegE_collect_items h
  rw [pegMkE_separatedBy] at hK
  cases hK
  exact ⟨vs, by simpa using (separated_items_zero (pegNextE_separatedBy n)).1 hI, hv⟩
end

end Chumsky
