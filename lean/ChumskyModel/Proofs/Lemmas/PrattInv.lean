/-
  C18 / C20 for Pratt parsers: state invariants of the reading carry through the binding-power recursion.

  For every preorder `R` on spec states that the atom / operator parsers respect, every result of `sPratt` is `R`-related to
  its start. Instances (from `SpecInv`): `Fed` — the inspector has been fed exactly the tokens between start and end
  position, whatever operators were tried and abandoned on the way (C18) — and `Adv` — positions only move forward and
  stay inside the input (C20). Plain tables and recursive expression grammars (`XEnv`).
-/
import ChumskyModel.Proofs.Lemmas.PrattRec
import ChumskyModel.Proofs.Lemmas.SpecInv
set_option linter.unusedSimpArgs false
set_option linter.unusedVariables false
namespace Chumsky

section
variable {P : G → SS → SOut} {rec : Nat → SS → SOut} {env : Env} {R : SS → SS → Prop} {ok : G → Prop}

def OptSat (o : Option SOut) (Q : SS → Prop) : Prop :=
  match o with
  | none => True
  | some o => o.Sat Q

def OpsOK (ok : G → Prop) (ops : List PrattOp) : Prop := ∀ o ∈ ops, ok o.parser

theorem OpsOK.tail {o : PrattOp} {os : List PrattOp} (h : OpsOK ok (o :: os)) : OpsOK ok os :=
  fun x hx => h x (List.mem_cons_of_mem _ hx)
theorem OpsOK.head {o : PrattOp} {os : List PrattOp} (h : OpsOK ok (o :: os)) : ok o.parser :=
  h o (List.mem_cons_self ..)

/-- hypothesis on the atom / operator parsers: results are `R`-related to the start, composed with what came before -/
def PSat (P : G → SS → SOut) (ok : G → Prop) (R : SS → SS → Prop) : Prop :=
  ∀ g s0 s, ok g → R s0 s → (P g s).Sat (R s0)
def RecSat (rec : Nat → SS → SOut) (R : SS → SS → Prop) : Prop :=
  ∀ p s0 s, R s0 s → (rec p s).Sat (R s0)

theorem sPrattPrefix_inv (hP : PSat P ok R) (hrec : RecSat rec R) (s0 start : SS) (h0 : R s0 start) :
    ∀ ops, OpsOK ok ops → OptSat (sPrattPrefix P rec env start ops) (R s0)
  | [], _ => trivial
  | .prefix bp op :: rest, hops => by
    simp only [sPrattPrefix]
    have h1 := hP op s0 start hops.head h0
    generalize P op start = o at h1 ⊢
    cases o with
    | ok opv s1 e1 =>
      dsimp only
      have h2 := hrec (2 * bp) s0 s1 h1
      generalize rec (2 * bp) s1 = r at h2 ⊢
      cases r with
      | ok _ _ _ => exact h2
      | fail => exact sPrattPrefix_inv hP hrec s0 start h0 rest hops.tail
      | panic w => trivial
      | oof => trivial
    | fail => exact sPrattPrefix_inv hP hrec s0 start h0 rest hops.tail
    | panic w => trivial
    | oof => trivial
  | .infix _ _ _ :: rest, hops => by simp only [sPrattPrefix]; exact sPrattPrefix_inv hP hrec s0 start h0 rest hops.tail
  | .postfix _ _ :: rest, hops => by simp only [sPrattPrefix]; exact sPrattPrefix_inv hP hrec s0 start h0 rest hops.tail

theorem sPrattPostfix_inv (hP : PSat P ok R) (s0 start : SS) (minP : Nat) (lhs : Val) (s : SS) (h0 : R s0 s) :
    ∀ ops, OpsOK ok ops → OptSat (sPrattPostfix P env start minP lhs s ops) (R s0)
  | [], _ => trivial
  | .postfix bp op :: rest, hops => by
    simp only [sPrattPostfix]
    split
    · have h1 := hP op s0 s hops.head h0
      generalize P op s = o at h1 ⊢
      cases o with
      | ok opv s1 e1 => exact h1
      | fail => exact sPrattPostfix_inv hP s0 start minP lhs s h0 rest hops.tail
      | panic w => trivial
      | oof => trivial
    · exact sPrattPostfix_inv hP s0 start minP lhs s h0 rest hops.tail
  | .infix _ _ _ :: rest, hops => by
    simp only [sPrattPostfix]; exact sPrattPostfix_inv hP s0 start minP lhs s h0 rest hops.tail
  | .prefix _ _ :: rest, hops => by
    simp only [sPrattPostfix]; exact sPrattPostfix_inv hP s0 start minP lhs s h0 rest hops.tail

theorem sPrattInfix_inv (hP : PSat P ok R) (hrec : RecSat rec R) (s0 start : SS) (minP : Nat) (lhs : Val) (s : SS)
    (h0 : R s0 s) : ∀ ops, OpsOK ok ops → OptSat (sPrattInfix P rec env start minP lhs s ops) (R s0)
  | [], _ => trivial
  | .infix la bp op :: rest, hops => by
    simp only [sPrattInfix]
    split
    · have h1 := hP op s0 s hops.head h0
      generalize P op s = o at h1 ⊢
      cases o with
      | ok opv s1 e1 =>
        dsimp only
        have h2 := hrec (rightPower la bp) s0 s1 h1
        generalize rec (rightPower la bp) s1 = r at h2 ⊢
        cases r with
        | ok _ _ _ => exact h2
        | fail => exact sPrattInfix_inv hP hrec s0 start minP lhs s h0 rest hops.tail
        | panic w => trivial
        | oof => trivial
      | fail => exact sPrattInfix_inv hP hrec s0 start minP lhs s h0 rest hops.tail
      | panic w => trivial
      | oof => trivial
    · exact sPrattInfix_inv hP hrec s0 start minP lhs s h0 rest hops.tail
  | .postfix _ _ :: rest, hops => by
    simp only [sPrattInfix]; exact sPrattInfix_inv hP hrec s0 start minP lhs s h0 rest hops.tail
  | .prefix _ _ :: rest, hops => by
    simp only [sPrattInfix]; exact sPrattInfix_inv hP hrec s0 start minP lhs s h0 rest hops.tail

theorem sPrattLoop_inv (hP : PSat P ok R) (hrec : RecSat rec R) (ops : List PrattOp) (hops : OpsOK ok ops) (s0 start : SS)
    (minP : Nat) :
    ∀ (k : Nat) (s : SS) (lhs : Val) (em : List Emis), R s0 s → (sPrattLoop P rec env ops start minP k s lhs em).Sat (R s0)
  | 0, _, _, _, _ => trivial
  | k + 1, s, lhs, em, h0 => by
    simp only [sPrattLoop]
    have hp := sPrattPostfix_inv (env := env) hP s0 start minP lhs s h0 ops hops
    generalize sPrattPostfix P env start minP lhs s ops = r at hp ⊢
    cases r with
    | some o =>
      cases o with
      | ok v s1 e1 => exact sPrattLoop_inv hP hrec ops hops s0 start minP k s1 v _ hp
      | fail => trivial
      | panic w => trivial
      | oof => trivial
    | none =>
      dsimp only
      have hi := sPrattInfix_inv (env := env) hP hrec s0 start minP lhs s h0 ops hops
      generalize sPrattInfix P rec env start minP lhs s ops = r2 at hi ⊢
      cases r2 with
      | some o =>
        cases o with
        | ok v s2 e2 => exact sPrattLoop_inv hP hrec ops hops s0 start minP k s2 v _ hi
        | fail => trivial
        | panic w => trivial
        | oof => trivial
      | none => exact h0

/-- every result of the textbook algorithm is `R`-related to where it started (however many operators were tried and
    abandoned) -/
theorem sPratt_inv (hP : PSat P ok R) (atom : G) (hatom : ok atom) (ops : List PrattOp) (hops : OpsOK ok ops) :
    ∀ (k minP : Nat) (s0 s : SS), R s0 s → (sPratt P env atom ops k minP s).Sat (R s0) := by
  intro k
  induction k with
  | zero => intro _ _ _ _; trivial
  | succ k ih =>
    intro minP s0 s h0
    have hrec : RecSat (sPratt P env atom ops k) R := fun p s0 s h => ih p s0 s h
    simp only [sPratt]
    have hp := sPrattPrefix_inv (env := env) hP hrec s0 s h0 ops hops
    generalize sPrattPrefix P (sPratt P env atom ops k) env s ops = r at hp ⊢
    cases r with
    | some o =>
      cases o with
      | ok v s1 e1 => exact sPrattLoop_inv hP hrec ops hops s0 s minP k s1 v e1 hp
      | fail => trivial
      | panic w => trivial
      | oof => trivial
    | none =>
      dsimp only
      have ha := hP atom s0 s hatom h0
      generalize P atom s = o at ha ⊢
      cases o with
      | ok v s1 e1 => exact sPrattLoop_inv hP hrec ops hops s0 s minP k s1 v e1 ha
      | fail => trivial
      | panic w => trivial
      | oof => trivial
end

/-- the reading of the model satisfies the hypothesis for any `RelOK` preorder -/
theorem peg_pSat {env : Env} {W : Prop} {R : SS → SS → Prop} (hR : RelOK env W R) (hdefs : ∀ d ∈ env.defs, OKG W d)
    (n : Nat) (ctx : Val) : PSat (fun g s => peg n env g s ctx) (OKG W) R :=
  fun g s0 s hg h0 => PInv.at hR (peg_inv_all hR hdefs n).1 hg ctx h0

/-- **C18 for `atom.pratt(ops)`**: a successful Pratt parse from `s` to `s'` has fed the inspector exactly the tokens
    between the two positions (atom / operator parsers without `with_state` scopes) -/
theorem pegPratt_fed (fuel : Nat) (env : Env) (hdefs : ∀ d ∈ env.defs, d.noStateScope = true) (atom : G)
    (hatom : atom.noStateScope = true) (ops : List PrattOp) (hops : ∀ o ∈ ops, o.parser.noStateScope = true)
    (s : SS) (ctx : Val) {v s' em} (h : pegPratt fuel env atom ops s ctx = .ok v s' em) : Fed env s s' := by
  have := sPratt_inv (env := env) (peg_pSat (fed_relOK env) (fun d hd => Or.inr (hdefs d hd)) fuel ctx) atom
    (Or.inr hatom) ops (fun o ho => Or.inr (hops o ho)) fuel 0 s s ((fed_relOK env).refl s)
  unfold pegPratt at h
  rwa [h] at this

/-- positions only move forward and stay inside the input (no hypothesis on the grammars) -/
theorem pegPratt_adv (fuel : Nat) (env : Env) (atom : G) (ops : List PrattOp) (s : SS) (ctx : Val) {v s' em}
    (h : pegPratt fuel env atom ops s ctx = .ok v s' em) : Adv env s s' := by
  have := sPratt_inv (env := env) (peg_pSat (adv_relOK env) (fun d hd => Or.inl trivial) fuel ctx) atom
    (Or.inl trivial) ops (fun o ho => Or.inl trivial) fuel 0 s s ((adv_relOK env).refl s)
  unfold pegPratt at h
  rwa [h] at this

/-! ### recursive expression grammars -/

theorem pegX_inv_all (x : XEnv) {env : Env} {W : Prop} {R : SS → SS → Prop} (hR : RelOK env W R)
    (hdefs : ∀ d ∈ env.defs, OKG W d) (hatom : OKG W x.atom) (hops : OpsOK (OKG W) x.ops) (n : Nat) :
    PInv W R (pegX x n) env ∧ NInv W R (pegNextX x n) env ∧ KInv W R (pegMkX x n) env := by
  induction n with
  | zero =>
    refine ⟨?_, ?_, ?_⟩
    · intro g s ctx _; simp [pegX]
    · intro it s ctx ist _; simp [pegNextX]
    · intro it s ctx _; simp [pegMkX]
  | succ n ih =>
    obtain ⟨hP, hN, hK⟩ := ih
    refine ⟨?_, ?_, ?_⟩
    · intro g s ctx hg
      simp only [pegX]
      by_cases hh : x.isHole g = true
      · simp only [hh, if_true]
        exact sPratt_inv (env := env) (ok := OKG W) (fun g s0 s hg h0 => PInv.at hR hP hg ctx h0) x.atom hatom x.ops hops n 0 s s
          (hR.refl s)
      · simp only [hh]
        exact pegStep_inv hR hdefs hP hN hK n g s ctx hg
    · simp only [pegNextX]; exact pegNext_inv hR hP hN hK
    · simp only [pegMkX]; exact pegMk_inv hR hP hK

/-- **C18 for recursive expression grammars**: at every grammar position the inspector is fed exactly the tokens between
    start and end of a successful (sub-)parse, through any depth of parentheses and abandoned operators -/
theorem pegX_fed (x : XEnv) (n : Nat) (env : Env) (hdefs : ∀ d ∈ env.defs, d.noStateScope = true)
    (hatom : x.atom.noStateScope = true) (hops : ∀ o ∈ x.ops, o.parser.noStateScope = true) (g : G)
    (hg : g.noStateScope = true) (s : SS) (ctx : Val) {v s' em} (h : pegX x n env g s ctx = .ok v s' em) :
    Fed env s s' := by
  have := (pegX_inv_all x (fed_relOK env) (fun d hd => Or.inr (hdefs d hd)) (Or.inr hatom)
    (fun o ho => Or.inr (hops o ho)) n).1 g s ctx (Or.inr hg)
  rwa [h] at this

theorem pegX_adv (x : XEnv) (n : Nat) (env : Env) (g : G) (s : SS) (ctx : Val) {v s' em}
    (h : pegX x n env g s ctx = .ok v s' em) : Adv env s s' := by
  have := (pegX_inv_all x (adv_relOK env) (fun d hd => Or.inl trivial) (Or.inl trivial)
    (fun o ho => Or.inl trivial) n).1 g s ctx (Or.inl trivial)
  rwa [h] at this

end Chumsky

namespace Chumsky

theorem peg_end_ok {n : Nat} {env : Env} {s : SS} {ctx v : Val} {s' : SS} {em : List Emis}
    (h : peg n env .end_ s ctx = .ok v s' em) : s' = s ∧ env.toks[s.pos]? = none := by
  cases n with
  | zero => simp [peg] at h
  | succ n =>
    simp only [peg, pegStep] at h
    cases ht : env.toks[s.pos]? with
    | none =>
      simp [ht] at h
      exact ⟨h.2.1.symm, rfl⟩
    | some t => simp [ht] at h

/-- **after a successful Pratt parse the inspector has seen exactly the whole input** (reading) -/
theorem pegTopPratt_insp (fuel : Nat) (env : Env) (hdefs : ∀ d ∈ env.defs, d.noStateScope = true) (atom : G)
    (hatom : atom.noStateScope = true) (ops : List PrattOp) (hops : ∀ o ∈ ops, o.parser.noStateScope = true)
    {v s' em} (h : pegTopPratt fuel env atom ops = .ok v s' em) : s'.insp = env.toks ∧ s'.pos = env.toks.length := by
  unfold pegTopPratt at h
  cases h1 : pegPratt fuel env atom ops ⟨0, []⟩ .unit with
  | ok v1 s1 e1 =>
    rw [h1] at h
    simp only [SOut.andThen] at h
    cases h2 : peg fuel env .end_ s1 .unit with
    | ok v2 s2 e2 =>
      rw [h2] at h
      simp only [SOut.ok.injEq] at h
      obtain ⟨_, rfl, _⟩ := h
      obtain ⟨rfl, hnone⟩ := peg_end_ok h2
      have hf := pegPratt_fed fuel env hdefs atom hatom ops hops _ _ h1
      have ha := pegPratt_adv fuel env atom ops _ _ h1
      have hb := ha.bound (Nat.zero_le _)
      have hge : env.toks.length ≤ s2.pos := by simpa using hnone
      have hp : s2.pos = env.toks.length := Nat.le_antisymm hb hge
      refine ⟨?_, hp⟩
      have := hf.2
      simp at this
      rw [this, hp, List.take_length]
    | fail => rw [h2] at h; simp at h
    | panic w => rw [h2] at h; simp at h
    | oof => rw [h2] at h; simp at h
  | fail => rw [h1] at h; simp [SOut.andThen] at h
  | panic w => rw [h1] at h; simp [SOut.andThen] at h
  | oof => rw [h1] at h; simp [SOut.andThen] at h

/-- machine level, any mode -/
theorem parseTopPratt_final_state (fuel : Nat) (env : Env) (m : Mode) (hm : env.memoOn = false)
    (hdefs : ∀ d ∈ env.defs, d.noStateScope = true) (atom : G) (hatom : atom.noStateScope = true) (ops : List PrattOp)
    (hops : ∀ o ∈ ops, o.parser.noStateScope = true) (r : ParseResult) (f : St)
    (h : parseTopPratt fuel env m atom ops = .result r f) (v : Val) (ho : r.output = some v) :
    f.insp = env.toks ∧ f.pos = env.toks.length := by
  have ht := parseTopPratt_refines fuel env m atom ops hm
  rw [h] at ht
  cases hp : pegTopPratt fuel env atom ops <;> rw [hp] at ht <;> simp only [TopRefines] at ht
  · rename_i v' s em
    have := pegTopPratt_insp fuel env hdefs atom hatom ops hops hp
    have hs := ht.2.1
    simp [St.ss] at hs
    cases hs
    exact this
  · rw [ht.1] at ho; cases ho

end Chumsky
