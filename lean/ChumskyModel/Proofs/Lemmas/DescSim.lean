/-
  Proofs/Lemmas/DescSim.lean — two simulations "equal up to error descriptions" (memoization off, error kind ≠ empty).

  PART 1 (C06, last sentence): `Rich`, `Simple` and `Cheap` report the same spans.  Running the same grammar with two
  error kinds gives the same control flow, values, positions, number of secondary errors and, pointwise, the same
  spans; the pending error sits at the same position with the same span.
      `run_kindSim`, `next_kindSim`, `mkIter_kindSim`, `parseTop_kindSim`          (every grammar)

  PART 2 (C17): `labelled`, `as_context` and the (span preserving) `map_err` change how a failure is described, never
  whether or where.  `G.eraseDeco` replaces every decoration by the identity wrapper `boxed`.
      `run_decoSim_weak`, `parseTop_decoSim_weak`   every grammar: same acceptance, values, cursor, inspector, context,
                                                    number (and recording positions) of the secondary errors, panics
      `run_decoSim`, `parseTop_decoSim`             full lock-step up to descriptions (also the spans of all secondary
                                                    errors and position/span of the pending = primary error), PROVIDED
                                                    no recovery strategy sits under a decoration (`G.decoSafe`)
      `decoCex_secondary`, `decoCex_primary`        the proviso is needed: with `recover_with` under a `labelled` both
                                                    the span of a secondary error and of the primary error change
                                                    (the decorated parser recovers from `alt = none`, so `take_alt()`
                                                    yields the inner error; undecorated it yields the farther old one)

  Both parts are instances of one two-run simulation (`step_sim`, `stepNext_sim`, `stepMk_sim`, `run_sim`) with
    * `b`  : erase the decorations in the second run (`G.erase b`; `erase false = id`, `erase true = eraseDeco`),
    * `s`  : relate spans (`true`: `errs` pointwise same span, `alt` related) or only the number/positions of `errs`,
    * `o`  : the shape (position, span) of the pending error the *first* run has sheltered and the second has not
             (a decorated parser runs its inner parser from `alt = none`, the undecorated one from the old pending
             error): `alt₂ ≈ comb o alt₁` where `comb` is the priority rule "maximal position, first one on ties",
             which is associative — this is why merging the sheltered error back (`labelled`'s `finish`) re-establishes
             the relation,
    * `u`/`dr` : static bookkeeping for the proviso (`G.adm`): under a decoration (`u`) no recovery strategy may occur
             when spans are related (`s`), because recovery *emits* the pending error, whose span then depends on `o`.
  `OutRel.fail` also carries "a failing run leaves a pending error" for both runs (needed for the `unwrap`s of
  `recover_with` and `map_err`), so this is re-proved here for every constructor.
-/
import ChumskyModel.Model.Machine
set_option linter.unusedSimpArgs false
set_option linter.unusedVariables false
namespace Chumsky

/-! ### shapes -/

/-- position and span of a located error -/
abbrev Sh := Nat × (Nat × Nat)

def Loc.sh (a : Loc) : Sh := (a.pos, a.err.span)

/-- shape of a secondary error; with `s = false` only its position -/
def Loc.shs (s : Bool) (a : Loc) : Sh := (a.pos, if s then a.err.span else (0, 0))

/-- the priority rule of `add_alt` on shapes: maximal position, the first one on ties -/
def comb : Option Sh → Option Sh → Option Sh
  | none, y => y
  | some a, none => some a
  | some a, some b => if b.1 ≤ a.1 then some a else some b

@[simp] theorem comb_none_left (y : Option Sh) : comb none y = y := rfl
@[simp] theorem comb_none_right (x : Option Sh) : comb x none = x := by cases x <;> rfl

theorem comb_assoc (x y z : Option Sh) : comb (comb x y) z = comb x (comb y z) := by
  cases x with
  | none => rfl
  | some a =>
    cases y with
    | none => simp
    | some b =>
      cases z with
      | none => simp
      | some c =>
        simp only [comb]
        by_cases h1 : b.1 ≤ a.1 <;> by_cases h2 : c.1 ≤ b.1 <;> by_cases h3 : c.1 ≤ a.1 <;>
          simp [comb, h1, h2, h3] <;> omega

theorem comb_isSome_right (x y : Option Sh) (h : y.isSome = true) : (comb x y).isSome = true := by
  cases x <;> cases y <;> simp [comb] at h ⊢
  split <;> rfl

theorem comb_isSome_left (x y : Option Sh) (h : x.isSome = true) : (comb x y).isSome = true := by
  cases x <;> cases y <;> simp [comb] at h ⊢
  split <;> rfl

/-! ### the error operations keep spans (every kind `≠ empty`) -/

theorem ErrKind.expectedFound_span {k : ErrKind} (hk : k ≠ .empty) (exp f sp) :
    (k.expectedFound exp f sp).span = sp := by
  cases k <;> first | rfl | exact absurd rfl hk

theorem ErrKind.userErr_span {k : ErrKind} (hk : k ≠ .empty) (sp msg) : (k.userErr sp msg).span = sp := by
  cases k <;> first | rfl | exact absurd rfl hk

@[simp] theorem ErrKind.merge_span (k : ErrKind) (a b : Err) : (k.merge a b).span = a.span := by
  cases k <;> rfl

@[simp] theorem ErrKind.mergeEF_span (k : ErrKind) (a : Err) (exp f sp) : (k.mergeEF a exp f sp).span = a.span := by
  cases k <;> simp only [ErrKind.mergeEF]
  split <;> rfl

@[simp] theorem ErrKind.labelWith_span (k : ErrKind) (a : Err) (l : Nat) : (k.labelWith a l).span = a.span := by
  cases k <;> simp only [ErrKind.labelWith]
  split <;> rfl

@[simp] theorem ErrKind.inContext_span (k : ErrKind) (a : Err) (l : Nat) (sp) : (k.inContext a l sp).span = a.span := by
  cases k <;> simp only [ErrKind.inContext]
  split <;> rfl

/-! ### the pending-error operations on shapes -/

theorem mergeAlt_sh (ek : ErrKind) (alt : Option Loc) (p : Nat) (e : Err) :
    (St.mergeAlt ek alt p e).map Loc.sh = comb (alt.map Loc.sh) (some (p, e.span)) := by
  cases alt with
  | none => rfl
  | some a =>
    simp only [St.mergeAlt, Option.map_some, comb, Loc.sh]
    by_cases h1 : a.pos = p
    · simp [h1, Loc.sh]
    · by_cases h2 : a.pos > p
      · have : p ≤ a.pos := by omega
        simp [h1, h2, this, Loc.sh]
      · have : ¬ p ≤ a.pos := by omega
        simp [h1, h2, this, Loc.sh]

theorem addAlt_alt {env : Env} (hk : env.ek ≠ .empty) (st : St) (exp f sp) :
    (st.addAlt env exp f sp).alt.map Loc.sh = comb (st.alt.map Loc.sh) (some (st.pos, sp)) := by
  have hsp := ErrKind.expectedFound_span hk exp f sp
  cases hek : env.ek with
  | empty => exact absurd hek hk
  | _ =>
    rw [hek] at hsp
    simp only [St.addAlt, hek]
    cases st.alt with
    | none => simp [Loc.sh, hsp]
    | some a =>
      simp only [Option.map_some, comb, Loc.sh]
      by_cases h1 : a.pos = st.pos
      · simp [h1, Loc.sh]
      · by_cases h2 : a.pos > st.pos
        · have : st.pos ≤ a.pos := by omega
          simp [h1, h2, this, Loc.sh]
        · have : ¬ st.pos ≤ a.pos := by omega
          simp [h1, h2, this, Loc.sh, ErrKind.replaceEF, hsp]

theorem addAltErr_alt {env : Env} (hk : env.ek ≠ .empty) (st : St) (p : Nat) (e : Err) :
    (st.addAltErr env p e).alt.map Loc.sh = comb (st.alt.map Loc.sh) (some (p, e.span)) := by
  cases hek : env.ek with
  | empty => exact absurd hek hk
  | _ => simp only [St.addAltErr, hek]; exact mergeAlt_sh _ _ _ _

theorem readdAlt_alt {env : Env} (hk : env.ek ≠ .empty) (st : St) (new : Option Loc) :
    (St.readdAlt env st new).alt.map Loc.sh = comb (st.alt.map Loc.sh) (new.map Loc.sh) := by
  cases new with
  | none => simp [St.readdAlt]
  | some n =>
    cases hek : env.ek with
    | empty => exact absurd hek hk
    | _ => simp only [St.readdAlt, hek]; exact mergeAlt_sh _ _ _ _

@[simp] theorem addAlt_pos (env : Env) (st : St) (exp f sp) : (st.addAlt env exp f sp).pos = st.pos := by
  simp only [St.addAlt]; split <;> rfl
@[simp] theorem addAlt_errs (env : Env) (st : St) (exp f sp) : (st.addAlt env exp f sp).errs = st.errs := by
  simp only [St.addAlt]; split <;> rfl
@[simp] theorem addAlt_insp (env : Env) (st : St) (exp f sp) : (st.addAlt env exp f sp).insp = st.insp := by
  simp only [St.addAlt]; split <;> rfl
@[simp] theorem addAlt_ctx (env : Env) (st : St) (exp f sp) : (st.addAlt env exp f sp).ctx = st.ctx := by
  simp only [St.addAlt]; split <;> rfl
@[simp] theorem addAltErr_pos (env : Env) (st : St) (p e) : (st.addAltErr env p e).pos = st.pos := by
  simp only [St.addAltErr]; split <;> rfl
@[simp] theorem addAltErr_errs (env : Env) (st : St) (p e) : (st.addAltErr env p e).errs = st.errs := by
  simp only [St.addAltErr]; split <;> rfl
@[simp] theorem addAltErr_insp (env : Env) (st : St) (p e) : (st.addAltErr env p e).insp = st.insp := by
  simp only [St.addAltErr]; split <;> rfl
@[simp] theorem addAltErr_ctx (env : Env) (st : St) (p e) : (st.addAltErr env p e).ctx = st.ctx := by
  simp only [St.addAltErr]; split <;> rfl
@[simp] theorem readdAlt_pos (env : Env) (st : St) (n) : (St.readdAlt env st n).pos = st.pos := by
  simp only [St.readdAlt]; split <;> (try split) <;> rfl
@[simp] theorem readdAlt_errs (env : Env) (st : St) (n) : (St.readdAlt env st n).errs = st.errs := by
  simp only [St.readdAlt]; split <;> (try split) <;> rfl
@[simp] theorem readdAlt_insp (env : Env) (st : St) (n) : (St.readdAlt env st n).insp = st.insp := by
  simp only [St.readdAlt]; split <;> (try split) <;> rfl
@[simp] theorem readdAlt_ctx (env : Env) (st : St) (n) : (St.readdAlt env st n).ctx = st.ctx := by
  simp only [St.readdAlt]; split <;> (try split) <;> rfl

/-! ### erasing decorations; admissible grammars (generated, one line per constructor) -/

/- erase the decorations: `labelled`/`as_context`/`map_err` become the identity wrapper `boxed` -/
mutual
def G.eraseDeco : G → G
  | .end_ => .end_
  | .empty => .empty
  | .any => .any
  | .just x0 => .just x0
  | .oneOf x0 => .oneOf x0
  | .noneOf x0 => .noneOf x0
  | .select x0 => .select x0
  | .custom x0 => .custom x0
  | .todo => .todo
  | .then_ x0 x1 => .then_ (G.eraseDeco x0) (G.eraseDeco x1)
  | .ignoreThen x0 x1 => .ignoreThen (G.eraseDeco x0) (G.eraseDeco x1)
  | .thenIgnore x0 x1 => .thenIgnore (G.eraseDeco x0) (G.eraseDeco x1)
  | .delimitedBy x0 x1 x2 => .delimitedBy (G.eraseDeco x0) (G.eraseDeco x1) (G.eraseDeco x2)
  | .paddedBy x0 x1 => .paddedBy (G.eraseDeco x0) (G.eraseDeco x1)
  | .group x0 => .group (eraseDecoL x0)
  | .groupArr x0 => .groupArr (eraseDecoL x0)
  | .or_ x0 x1 => .or_ (G.eraseDeco x0) (G.eraseDeco x1)
  | .choice x0 x1 => .choice x0 (eraseDecoL x1)
  | .orNot x0 => .orNot (G.eraseDeco x0)
  | .not_ x0 => .not_ (G.eraseDeco x0)
  | .andIs x0 x1 => .andIs (G.eraseDeco x0) (G.eraseDeco x1)
  | .rewind x0 => .rewind (G.eraseDeco x0)
  | .map x0 x1 => .map x0 (G.eraseDeco x1)
  | .to x0 x1 => .to x0 (G.eraseDeco x1)
  | .ignored x0 => .ignored (G.eraseDeco x0)
  | .filter x0 x1 => .filter x0 (G.eraseDeco x1)
  | .tryMap x0 x1 => .tryMap x0 (G.eraseDeco x1)
  | .tryMapWith x0 x1 => .tryMapWith x0 (G.eraseDeco x1)
  | .toSpan x0 => .toSpan (G.eraseDeco x0)
  | .toSlice x0 => .toSlice (G.eraseDeco x0)
  | .mapWithSpan x0 => .mapWithSpan (G.eraseDeco x0)
  | .mapWithState x0 => .mapWithState (G.eraseDeco x0)
  | .mapWithCtx x0 => .mapWithCtx (G.eraseDeco x0)
  | .validate x0 x1 => .validate x0 (G.eraseDeco x1)
  | .collect x0 x1 => .collect x0 (It.eraseDeco x1)
  | .collectExactly x0 x1 => .collectExactly x0 (It.eraseDeco x1)
  | .foldl x0 x1 x2 => .foldl x0 (G.eraseDeco x1) (It.eraseDeco x2)
  | .foldr x0 x1 x2 => .foldr x0 (It.eraseDeco x1) (G.eraseDeco x2)
  | .foldlWith x0 x1 => .foldlWith (G.eraseDeco x0) (It.eraseDeco x1)
  | .foldrWith x0 x1 => .foldrWith (It.eraseDeco x0) (G.eraseDeco x1)
  | .iterP x0 => .iterP (It.eraseDeco x0)
  | .recoverVia x0 x1 => .recoverVia (G.eraseDeco x0) (G.eraseDeco x1)
  | .recoverSkipUntil x0 x1 x2 x3 => .recoverSkipUntil (G.eraseDeco x0) (G.eraseDeco x1) (G.eraseDeco x2) x3
  | .recoverSkipRetry x0 x1 x2 => .recoverSkipRetry (G.eraseDeco x0) (G.eraseDeco x1) (G.eraseDeco x2)
  | .labelled x0 x1 x2 => .boxed (G.eraseDeco x2)
  | .mapErr x0 x1 => .boxed (G.eraseDeco x1)
  | .withCtx x0 x1 => .withCtx x0 (G.eraseDeco x1)
  | .ignoreWithCtx x0 x1 => .ignoreWithCtx (G.eraseDeco x0) (G.eraseDeco x1)
  | .thenWithCtx x0 x1 => .thenWithCtx (G.eraseDeco x0) (G.eraseDeco x1)
  | .mapCtx x0 x1 => .mapCtx x0 (G.eraseDeco x1)
  | .configureJust x0 x1 => .configureJust x0 x1
  | .withState x0 => .withState (G.eraseDeco x0)
  | .memoized x0 x1 => .memoized x0 (G.eraseDeco x1)
  | .call x0 => .call x0
  | .boxed x0 => .boxed (G.eraseDeco x0)
def It.eraseDeco : It → It
  | .repeated x0 x1 x2 => .repeated (G.eraseDeco x0) x1 x2
  | .separatedBy x0 x1 x2 x3 x4 x5 => .separatedBy (G.eraseDeco x0) (G.eraseDeco x1) x2 x3 x4 x5
  | .enumerate x0 => .enumerate (It.eraseDeco x0)
  | .orNotIt x0 => .orNotIt (G.eraseDeco x0)
  | .intoIter x0 => .intoIter (G.eraseDeco x0)
  | .thenIt x0 x1 => .thenIt (It.eraseDeco x0) (It.eraseDeco x1)
  | .mapIt x0 x1 => .mapIt x0 (It.eraseDeco x1)
  | .configureRep x0 x1 => .configureRep x0 (It.eraseDeco x1)
  | .tryConfigureRep x0 x1 => .tryConfigureRep x0 (It.eraseDeco x1)
def eraseDecoL : List G → List G
  | [] => []
  | g :: gs => G.eraseDeco g :: eraseDecoL gs
end

/- `erase true = eraseDeco`, `erase false = id` (so that one simulation proof serves both parts) -/
mutual
def G.erase (b : Bool) : G → G
  | .end_ => .end_
  | .empty => .empty
  | .any => .any
  | .just x0 => .just x0
  | .oneOf x0 => .oneOf x0
  | .noneOf x0 => .noneOf x0
  | .select x0 => .select x0
  | .custom x0 => .custom x0
  | .todo => .todo
  | .then_ x0 x1 => .then_ (G.erase b x0) (G.erase b x1)
  | .ignoreThen x0 x1 => .ignoreThen (G.erase b x0) (G.erase b x1)
  | .thenIgnore x0 x1 => .thenIgnore (G.erase b x0) (G.erase b x1)
  | .delimitedBy x0 x1 x2 => .delimitedBy (G.erase b x0) (G.erase b x1) (G.erase b x2)
  | .paddedBy x0 x1 => .paddedBy (G.erase b x0) (G.erase b x1)
  | .group x0 => .group (eraseL b x0)
  | .groupArr x0 => .groupArr (eraseL b x0)
  | .or_ x0 x1 => .or_ (G.erase b x0) (G.erase b x1)
  | .choice x0 x1 => .choice x0 (eraseL b x1)
  | .orNot x0 => .orNot (G.erase b x0)
  | .not_ x0 => .not_ (G.erase b x0)
  | .andIs x0 x1 => .andIs (G.erase b x0) (G.erase b x1)
  | .rewind x0 => .rewind (G.erase b x0)
  | .map x0 x1 => .map x0 (G.erase b x1)
  | .to x0 x1 => .to x0 (G.erase b x1)
  | .ignored x0 => .ignored (G.erase b x0)
  | .filter x0 x1 => .filter x0 (G.erase b x1)
  | .tryMap x0 x1 => .tryMap x0 (G.erase b x1)
  | .tryMapWith x0 x1 => .tryMapWith x0 (G.erase b x1)
  | .toSpan x0 => .toSpan (G.erase b x0)
  | .toSlice x0 => .toSlice (G.erase b x0)
  | .mapWithSpan x0 => .mapWithSpan (G.erase b x0)
  | .mapWithState x0 => .mapWithState (G.erase b x0)
  | .mapWithCtx x0 => .mapWithCtx (G.erase b x0)
  | .validate x0 x1 => .validate x0 (G.erase b x1)
  | .collect x0 x1 => .collect x0 (It.erase b x1)
  | .collectExactly x0 x1 => .collectExactly x0 (It.erase b x1)
  | .foldl x0 x1 x2 => .foldl x0 (G.erase b x1) (It.erase b x2)
  | .foldr x0 x1 x2 => .foldr x0 (It.erase b x1) (G.erase b x2)
  | .foldlWith x0 x1 => .foldlWith (G.erase b x0) (It.erase b x1)
  | .foldrWith x0 x1 => .foldrWith (It.erase b x0) (G.erase b x1)
  | .iterP x0 => .iterP (It.erase b x0)
  | .recoverVia x0 x1 => .recoverVia (G.erase b x0) (G.erase b x1)
  | .recoverSkipUntil x0 x1 x2 x3 => .recoverSkipUntil (G.erase b x0) (G.erase b x1) (G.erase b x2) x3
  | .recoverSkipRetry x0 x1 x2 => .recoverSkipRetry (G.erase b x0) (G.erase b x1) (G.erase b x2)
  | .labelled x0 x1 x2 => if b then .boxed (G.erase b x2) else .labelled x0 x1 (G.erase b x2)
  | .mapErr x0 x1 => if b then .boxed (G.erase b x1) else .mapErr x0 (G.erase b x1)
  | .withCtx x0 x1 => .withCtx x0 (G.erase b x1)
  | .ignoreWithCtx x0 x1 => .ignoreWithCtx (G.erase b x0) (G.erase b x1)
  | .thenWithCtx x0 x1 => .thenWithCtx (G.erase b x0) (G.erase b x1)
  | .mapCtx x0 x1 => .mapCtx x0 (G.erase b x1)
  | .configureJust x0 x1 => .configureJust x0 x1
  | .withState x0 => .withState (G.erase b x0)
  | .memoized x0 x1 => .memoized x0 (G.erase b x1)
  | .call x0 => .call x0
  | .boxed x0 => .boxed (G.erase b x0)
def It.erase (b : Bool) : It → It
  | .repeated x0 x1 x2 => .repeated (G.erase b x0) x1 x2
  | .separatedBy x0 x1 x2 x3 x4 x5 => .separatedBy (G.erase b x0) (G.erase b x1) x2 x3 x4 x5
  | .enumerate x0 => .enumerate (It.erase b x0)
  | .orNotIt x0 => .orNotIt (G.erase b x0)
  | .intoIter x0 => .intoIter (G.erase b x0)
  | .thenIt x0 x1 => .thenIt (It.erase b x0) (It.erase b x1)
  | .mapIt x0 x1 => .mapIt x0 (It.erase b x1)
  | .configureRep x0 x1 => .configureRep x0 (It.erase b x1)
  | .tryConfigureRep x0 x1 => .tryConfigureRep x0 (It.erase b x1)
def eraseL (b : Bool) : List G → List G
  | [] => []
  | g :: gs => G.erase b g :: eraseL b gs
end

mutual
def G.adm (s b dr : Bool) : Bool → G → Bool
  | u, .end_ => true
  | u, .empty => true
  | u, .any => true
  | u, .just x0 => true
  | u, .oneOf x0 => true
  | u, .noneOf x0 => true
  | u, .select x0 => true
  | u, .custom x0 => true
  | u, .todo => true
  | u, .then_ x0 x1 => G.adm s b dr u x0 && G.adm s b dr u x1
  | u, .ignoreThen x0 x1 => G.adm s b dr u x0 && G.adm s b dr u x1
  | u, .thenIgnore x0 x1 => G.adm s b dr u x0 && G.adm s b dr u x1
  | u, .delimitedBy x0 x1 x2 => G.adm s b dr u x0 && G.adm s b dr u x1 && G.adm s b dr u x2
  | u, .paddedBy x0 x1 => G.adm s b dr u x0 && G.adm s b dr u x1
  | u, .group x0 => admL s b dr u x0
  | u, .groupArr x0 => admL s b dr u x0
  | u, .or_ x0 x1 => G.adm s b dr u x0 && G.adm s b dr u x1
  | u, .choice x0 x1 => admL s b dr u x1
  | u, .orNot x0 => G.adm s b dr u x0
  | u, .not_ x0 => G.adm s b dr u x0
  | u, .andIs x0 x1 => G.adm s b dr u x0 && G.adm s b dr u x1
  | u, .rewind x0 => G.adm s b dr u x0
  | u, .map x0 x1 => G.adm s b dr u x1
  | u, .to x0 x1 => G.adm s b dr u x1
  | u, .ignored x0 => G.adm s b dr u x0
  | u, .filter x0 x1 => G.adm s b dr u x1
  | u, .tryMap x0 x1 => G.adm s b dr u x1
  | u, .tryMapWith x0 x1 => G.adm s b dr u x1
  | u, .toSpan x0 => G.adm s b dr u x0
  | u, .toSlice x0 => G.adm s b dr u x0
  | u, .mapWithSpan x0 => G.adm s b dr u x0
  | u, .mapWithState x0 => G.adm s b dr u x0
  | u, .mapWithCtx x0 => G.adm s b dr u x0
  | u, .validate x0 x1 => G.adm s b dr u x1
  | u, .collect x0 x1 => It.adm s b dr u x1
  | u, .collectExactly x0 x1 => It.adm s b dr u x1
  | u, .foldl x0 x1 x2 => G.adm s b dr u x1 && It.adm s b dr u x2
  | u, .foldr x0 x1 x2 => It.adm s b dr u x1 && G.adm s b dr u x2
  | u, .foldlWith x0 x1 => G.adm s b dr u x0 && It.adm s b dr u x1
  | u, .foldrWith x0 x1 => It.adm s b dr u x0 && G.adm s b dr u x1
  | u, .iterP x0 => It.adm s b dr u x0
  | u, .recoverVia x0 x1 => (!s || !u) && G.adm s b dr u x0 && G.adm s b dr u x1
  | u, .recoverSkipUntil x0 x1 x2 x3 => (!s || !u) && G.adm s b dr u x0 && G.adm s b dr u x1 && G.adm s b dr u x2
  | u, .recoverSkipRetry x0 x1 x2 => (!s || !u) && G.adm s b dr u x0 && G.adm s b dr u x1 && G.adm s b dr u x2
  | u, .labelled x0 x1 x2 => G.adm s b dr (u || b) x2
  | u, .mapErr x0 x1 => G.adm s b dr (u || b) x1
  | u, .withCtx x0 x1 => G.adm s b dr u x1
  | u, .ignoreWithCtx x0 x1 => G.adm s b dr u x0 && G.adm s b dr u x1
  | u, .thenWithCtx x0 x1 => G.adm s b dr u x0 && G.adm s b dr u x1
  | u, .mapCtx x0 x1 => G.adm s b dr u x1
  | u, .configureJust x0 x1 => true
  | u, .withState x0 => G.adm s b dr u x0
  | u, .memoized x0 x1 => G.adm s b dr u x1
  | u, .call x0 => (!s || !u || dr)
  | u, .boxed x0 => G.adm s b dr u x0
def It.adm (s b dr : Bool) : Bool → It → Bool
  | u, .repeated x0 x1 x2 => G.adm s b dr u x0
  | u, .separatedBy x0 x1 x2 x3 x4 x5 => G.adm s b dr u x0 && G.adm s b dr u x1
  | u, .enumerate x0 => It.adm s b dr u x0
  | u, .orNotIt x0 => G.adm s b dr u x0
  | u, .intoIter x0 => G.adm s b dr u x0
  | u, .thenIt x0 x1 => It.adm s b dr u x0 && It.adm s b dr u x1
  | u, .mapIt x0 x1 => It.adm s b dr u x1
  | u, .configureRep x0 x1 => It.adm s b dr u x1
  | u, .tryConfigureRep x0 x1 => It.adm s b dr u x1
def admL (s b dr : Bool) : Bool → List G → Bool
  | _, [] => true
  | u, g :: gs => G.adm s b dr u g && admL s b dr u gs
end

mutual
theorem G.erase_false : ∀ g : G, g.erase false = g
  | .end_ => by simp [G.erase, It.erase, eraseL]
  | .empty => by simp [G.erase, It.erase, eraseL]
  | .any => by simp [G.erase, It.erase, eraseL]
  | .just x0 => by simp [G.erase, It.erase, eraseL]
  | .oneOf x0 => by simp [G.erase, It.erase, eraseL]
  | .noneOf x0 => by simp [G.erase, It.erase, eraseL]
  | .select x0 => by simp [G.erase, It.erase, eraseL]
  | .custom x0 => by simp [G.erase, It.erase, eraseL]
  | .todo => by simp [G.erase, It.erase, eraseL]
  | .then_ x0 x1 => by simp [G.erase, It.erase, eraseL, G.erase_false x0, G.erase_false x1]
  | .ignoreThen x0 x1 => by simp [G.erase, It.erase, eraseL, G.erase_false x0, G.erase_false x1]
  | .thenIgnore x0 x1 => by simp [G.erase, It.erase, eraseL, G.erase_false x0, G.erase_false x1]
  | .delimitedBy x0 x1 x2 => by simp [G.erase, It.erase, eraseL, G.erase_false x0, G.erase_false x1, G.erase_false x2]
  | .paddedBy x0 x1 => by simp [G.erase, It.erase, eraseL, G.erase_false x0, G.erase_false x1]
  | .group x0 => by simp [G.erase, It.erase, eraseL, eraseL_false x0]
  | .groupArr x0 => by simp [G.erase, It.erase, eraseL, eraseL_false x0]
  | .or_ x0 x1 => by simp [G.erase, It.erase, eraseL, G.erase_false x0, G.erase_false x1]
  | .choice x0 x1 => by simp [G.erase, It.erase, eraseL, eraseL_false x1]
  | .orNot x0 => by simp [G.erase, It.erase, eraseL, G.erase_false x0]
  | .not_ x0 => by simp [G.erase, It.erase, eraseL, G.erase_false x0]
  | .andIs x0 x1 => by simp [G.erase, It.erase, eraseL, G.erase_false x0, G.erase_false x1]
  | .rewind x0 => by simp [G.erase, It.erase, eraseL, G.erase_false x0]
  | .map x0 x1 => by simp [G.erase, It.erase, eraseL, G.erase_false x1]
  | .to x0 x1 => by simp [G.erase, It.erase, eraseL, G.erase_false x1]
  | .ignored x0 => by simp [G.erase, It.erase, eraseL, G.erase_false x0]
  | .filter x0 x1 => by simp [G.erase, It.erase, eraseL, G.erase_false x1]
  | .tryMap x0 x1 => by simp [G.erase, It.erase, eraseL, G.erase_false x1]
  | .tryMapWith x0 x1 => by simp [G.erase, It.erase, eraseL, G.erase_false x1]
  | .toSpan x0 => by simp [G.erase, It.erase, eraseL, G.erase_false x0]
  | .toSlice x0 => by simp [G.erase, It.erase, eraseL, G.erase_false x0]
  | .mapWithSpan x0 => by simp [G.erase, It.erase, eraseL, G.erase_false x0]
  | .mapWithState x0 => by simp [G.erase, It.erase, eraseL, G.erase_false x0]
  | .mapWithCtx x0 => by simp [G.erase, It.erase, eraseL, G.erase_false x0]
  | .validate x0 x1 => by simp [G.erase, It.erase, eraseL, G.erase_false x1]
  | .collect x0 x1 => by simp [G.erase, It.erase, eraseL, It.erase_false x1]
  | .collectExactly x0 x1 => by simp [G.erase, It.erase, eraseL, It.erase_false x1]
  | .foldl x0 x1 x2 => by simp [G.erase, It.erase, eraseL, G.erase_false x1, It.erase_false x2]
  | .foldr x0 x1 x2 => by simp [G.erase, It.erase, eraseL, It.erase_false x1, G.erase_false x2]
  | .foldlWith x0 x1 => by simp [G.erase, It.erase, eraseL, G.erase_false x0, It.erase_false x1]
  | .foldrWith x0 x1 => by simp [G.erase, It.erase, eraseL, It.erase_false x0, G.erase_false x1]
  | .iterP x0 => by simp [G.erase, It.erase, eraseL, It.erase_false x0]
  | .recoverVia x0 x1 => by simp [G.erase, It.erase, eraseL, G.erase_false x0, G.erase_false x1]
  | .recoverSkipUntil x0 x1 x2 x3 => by simp [G.erase, It.erase, eraseL, G.erase_false x0, G.erase_false x1, G.erase_false x2]
  | .recoverSkipRetry x0 x1 x2 => by simp [G.erase, It.erase, eraseL, G.erase_false x0, G.erase_false x1, G.erase_false x2]
  | .labelled x0 x1 x2 => by simp [G.erase, It.erase, eraseL, G.erase_false x2]
  | .mapErr x0 x1 => by simp [G.erase, It.erase, eraseL, G.erase_false x1]
  | .withCtx x0 x1 => by simp [G.erase, It.erase, eraseL, G.erase_false x1]
  | .ignoreWithCtx x0 x1 => by simp [G.erase, It.erase, eraseL, G.erase_false x0, G.erase_false x1]
  | .thenWithCtx x0 x1 => by simp [G.erase, It.erase, eraseL, G.erase_false x0, G.erase_false x1]
  | .mapCtx x0 x1 => by simp [G.erase, It.erase, eraseL, G.erase_false x1]
  | .configureJust x0 x1 => by simp [G.erase, It.erase, eraseL]
  | .withState x0 => by simp [G.erase, It.erase, eraseL, G.erase_false x0]
  | .memoized x0 x1 => by simp [G.erase, It.erase, eraseL, G.erase_false x1]
  | .call x0 => by simp [G.erase, It.erase, eraseL]
  | .boxed x0 => by simp [G.erase, It.erase, eraseL, G.erase_false x0]
theorem It.erase_false : ∀ it : It, it.erase false = it
  | .repeated x0 x1 x2 => by simp [G.erase, It.erase, eraseL, G.erase_false x0]
  | .separatedBy x0 x1 x2 x3 x4 x5 => by simp [G.erase, It.erase, eraseL, G.erase_false x0, G.erase_false x1]
  | .enumerate x0 => by simp [G.erase, It.erase, eraseL, It.erase_false x0]
  | .orNotIt x0 => by simp [G.erase, It.erase, eraseL, G.erase_false x0]
  | .intoIter x0 => by simp [G.erase, It.erase, eraseL, G.erase_false x0]
  | .thenIt x0 x1 => by simp [G.erase, It.erase, eraseL, It.erase_false x0, It.erase_false x1]
  | .mapIt x0 x1 => by simp [G.erase, It.erase, eraseL, It.erase_false x1]
  | .configureRep x0 x1 => by simp [G.erase, It.erase, eraseL, It.erase_false x1]
  | .tryConfigureRep x0 x1 => by simp [G.erase, It.erase, eraseL, It.erase_false x1]
theorem eraseL_false : ∀ gs : List G, eraseL false gs = gs
  | [] => by simp [G.erase, It.erase, eraseL]
  | g :: gs => by simp [G.erase, It.erase, eraseL, G.erase_false g, eraseL_false gs]
end

mutual
theorem G.erase_true : ∀ g : G, g.erase true = g.eraseDeco
  | .end_ => by simp [G.erase, It.erase, eraseL, G.eraseDeco, It.eraseDeco, eraseDecoL]
  | .empty => by simp [G.erase, It.erase, eraseL, G.eraseDeco, It.eraseDeco, eraseDecoL]
  | .any => by simp [G.erase, It.erase, eraseL, G.eraseDeco, It.eraseDeco, eraseDecoL]
  | .just x0 => by simp [G.erase, It.erase, eraseL, G.eraseDeco, It.eraseDeco, eraseDecoL]
  | .oneOf x0 => by simp [G.erase, It.erase, eraseL, G.eraseDeco, It.eraseDeco, eraseDecoL]
  | .noneOf x0 => by simp [G.erase, It.erase, eraseL, G.eraseDeco, It.eraseDeco, eraseDecoL]
  | .select x0 => by simp [G.erase, It.erase, eraseL, G.eraseDeco, It.eraseDeco, eraseDecoL]
  | .custom x0 => by simp [G.erase, It.erase, eraseL, G.eraseDeco, It.eraseDeco, eraseDecoL]
  | .todo => by simp [G.erase, It.erase, eraseL, G.eraseDeco, It.eraseDeco, eraseDecoL]
  | .then_ x0 x1 => by simp [G.erase, It.erase, eraseL, G.eraseDeco, It.eraseDeco, eraseDecoL, G.erase_true x0, G.erase_true x1]
  | .ignoreThen x0 x1 => by simp [G.erase, It.erase, eraseL, G.eraseDeco, It.eraseDeco, eraseDecoL, G.erase_true x0, G.erase_true x1]
  | .thenIgnore x0 x1 => by simp [G.erase, It.erase, eraseL, G.eraseDeco, It.eraseDeco, eraseDecoL, G.erase_true x0, G.erase_true x1]
  | .delimitedBy x0 x1 x2 => by simp [G.erase, It.erase, eraseL, G.eraseDeco, It.eraseDeco, eraseDecoL, G.erase_true x0, G.erase_true x1, G.erase_true x2]
  | .paddedBy x0 x1 => by simp [G.erase, It.erase, eraseL, G.eraseDeco, It.eraseDeco, eraseDecoL, G.erase_true x0, G.erase_true x1]
  | .group x0 => by simp [G.erase, It.erase, eraseL, G.eraseDeco, It.eraseDeco, eraseDecoL, eraseL_true x0]
  | .groupArr x0 => by simp [G.erase, It.erase, eraseL, G.eraseDeco, It.eraseDeco, eraseDecoL, eraseL_true x0]
  | .or_ x0 x1 => by simp [G.erase, It.erase, eraseL, G.eraseDeco, It.eraseDeco, eraseDecoL, G.erase_true x0, G.erase_true x1]
  | .choice x0 x1 => by simp [G.erase, It.erase, eraseL, G.eraseDeco, It.eraseDeco, eraseDecoL, eraseL_true x1]
  | .orNot x0 => by simp [G.erase, It.erase, eraseL, G.eraseDeco, It.eraseDeco, eraseDecoL, G.erase_true x0]
  | .not_ x0 => by simp [G.erase, It.erase, eraseL, G.eraseDeco, It.eraseDeco, eraseDecoL, G.erase_true x0]
  | .andIs x0 x1 => by simp [G.erase, It.erase, eraseL, G.eraseDeco, It.eraseDeco, eraseDecoL, G.erase_true x0, G.erase_true x1]
  | .rewind x0 => by simp [G.erase, It.erase, eraseL, G.eraseDeco, It.eraseDeco, eraseDecoL, G.erase_true x0]
  | .map x0 x1 => by simp [G.erase, It.erase, eraseL, G.eraseDeco, It.eraseDeco, eraseDecoL, G.erase_true x1]
  | .to x0 x1 => by simp [G.erase, It.erase, eraseL, G.eraseDeco, It.eraseDeco, eraseDecoL, G.erase_true x1]
  | .ignored x0 => by simp [G.erase, It.erase, eraseL, G.eraseDeco, It.eraseDeco, eraseDecoL, G.erase_true x0]
  | .filter x0 x1 => by simp [G.erase, It.erase, eraseL, G.eraseDeco, It.eraseDeco, eraseDecoL, G.erase_true x1]
  | .tryMap x0 x1 => by simp [G.erase, It.erase, eraseL, G.eraseDeco, It.eraseDeco, eraseDecoL, G.erase_true x1]
  | .tryMapWith x0 x1 => by simp [G.erase, It.erase, eraseL, G.eraseDeco, It.eraseDeco, eraseDecoL, G.erase_true x1]
  | .toSpan x0 => by simp [G.erase, It.erase, eraseL, G.eraseDeco, It.eraseDeco, eraseDecoL, G.erase_true x0]
  | .toSlice x0 => by simp [G.erase, It.erase, eraseL, G.eraseDeco, It.eraseDeco, eraseDecoL, G.erase_true x0]
  | .mapWithSpan x0 => by simp [G.erase, It.erase, eraseL, G.eraseDeco, It.eraseDeco, eraseDecoL, G.erase_true x0]
  | .mapWithState x0 => by simp [G.erase, It.erase, eraseL, G.eraseDeco, It.eraseDeco, eraseDecoL, G.erase_true x0]
  | .mapWithCtx x0 => by simp [G.erase, It.erase, eraseL, G.eraseDeco, It.eraseDeco, eraseDecoL, G.erase_true x0]
  | .validate x0 x1 => by simp [G.erase, It.erase, eraseL, G.eraseDeco, It.eraseDeco, eraseDecoL, G.erase_true x1]
  | .collect x0 x1 => by simp [G.erase, It.erase, eraseL, G.eraseDeco, It.eraseDeco, eraseDecoL, It.erase_true x1]
  | .collectExactly x0 x1 => by simp [G.erase, It.erase, eraseL, G.eraseDeco, It.eraseDeco, eraseDecoL, It.erase_true x1]
  | .foldl x0 x1 x2 => by simp [G.erase, It.erase, eraseL, G.eraseDeco, It.eraseDeco, eraseDecoL, G.erase_true x1, It.erase_true x2]
  | .foldr x0 x1 x2 => by simp [G.erase, It.erase, eraseL, G.eraseDeco, It.eraseDeco, eraseDecoL, It.erase_true x1, G.erase_true x2]
  | .foldlWith x0 x1 => by simp [G.erase, It.erase, eraseL, G.eraseDeco, It.eraseDeco, eraseDecoL, G.erase_true x0, It.erase_true x1]
  | .foldrWith x0 x1 => by simp [G.erase, It.erase, eraseL, G.eraseDeco, It.eraseDeco, eraseDecoL, It.erase_true x0, G.erase_true x1]
  | .iterP x0 => by simp [G.erase, It.erase, eraseL, G.eraseDeco, It.eraseDeco, eraseDecoL, It.erase_true x0]
  | .recoverVia x0 x1 => by simp [G.erase, It.erase, eraseL, G.eraseDeco, It.eraseDeco, eraseDecoL, G.erase_true x0, G.erase_true x1]
  | .recoverSkipUntil x0 x1 x2 x3 => by simp [G.erase, It.erase, eraseL, G.eraseDeco, It.eraseDeco, eraseDecoL, G.erase_true x0, G.erase_true x1, G.erase_true x2]
  | .recoverSkipRetry x0 x1 x2 => by simp [G.erase, It.erase, eraseL, G.eraseDeco, It.eraseDeco, eraseDecoL, G.erase_true x0, G.erase_true x1, G.erase_true x2]
  | .labelled x0 x1 x2 => by simp [G.erase, It.erase, eraseL, G.eraseDeco, It.eraseDeco, eraseDecoL, G.erase_true x2]
  | .mapErr x0 x1 => by simp [G.erase, It.erase, eraseL, G.eraseDeco, It.eraseDeco, eraseDecoL, G.erase_true x1]
  | .withCtx x0 x1 => by simp [G.erase, It.erase, eraseL, G.eraseDeco, It.eraseDeco, eraseDecoL, G.erase_true x1]
  | .ignoreWithCtx x0 x1 => by simp [G.erase, It.erase, eraseL, G.eraseDeco, It.eraseDeco, eraseDecoL, G.erase_true x0, G.erase_true x1]
  | .thenWithCtx x0 x1 => by simp [G.erase, It.erase, eraseL, G.eraseDeco, It.eraseDeco, eraseDecoL, G.erase_true x0, G.erase_true x1]
  | .mapCtx x0 x1 => by simp [G.erase, It.erase, eraseL, G.eraseDeco, It.eraseDeco, eraseDecoL, G.erase_true x1]
  | .configureJust x0 x1 => by simp [G.erase, It.erase, eraseL, G.eraseDeco, It.eraseDeco, eraseDecoL]
  | .withState x0 => by simp [G.erase, It.erase, eraseL, G.eraseDeco, It.eraseDeco, eraseDecoL, G.erase_true x0]
  | .memoized x0 x1 => by simp [G.erase, It.erase, eraseL, G.eraseDeco, It.eraseDeco, eraseDecoL, G.erase_true x1]
  | .call x0 => by simp [G.erase, It.erase, eraseL, G.eraseDeco, It.eraseDeco, eraseDecoL]
  | .boxed x0 => by simp [G.erase, It.erase, eraseL, G.eraseDeco, It.eraseDeco, eraseDecoL, G.erase_true x0]
theorem It.erase_true : ∀ it : It, it.erase true = it.eraseDeco
  | .repeated x0 x1 x2 => by simp [G.erase, It.erase, eraseL, G.eraseDeco, It.eraseDeco, eraseDecoL, G.erase_true x0]
  | .separatedBy x0 x1 x2 x3 x4 x5 => by simp [G.erase, It.erase, eraseL, G.eraseDeco, It.eraseDeco, eraseDecoL, G.erase_true x0, G.erase_true x1]
  | .enumerate x0 => by simp [G.erase, It.erase, eraseL, G.eraseDeco, It.eraseDeco, eraseDecoL, It.erase_true x0]
  | .orNotIt x0 => by simp [G.erase, It.erase, eraseL, G.eraseDeco, It.eraseDeco, eraseDecoL, G.erase_true x0]
  | .intoIter x0 => by simp [G.erase, It.erase, eraseL, G.eraseDeco, It.eraseDeco, eraseDecoL, G.erase_true x0]
  | .thenIt x0 x1 => by simp [G.erase, It.erase, eraseL, G.eraseDeco, It.eraseDeco, eraseDecoL, It.erase_true x0, It.erase_true x1]
  | .mapIt x0 x1 => by simp [G.erase, It.erase, eraseL, G.eraseDeco, It.eraseDeco, eraseDecoL, It.erase_true x1]
  | .configureRep x0 x1 => by simp [G.erase, It.erase, eraseL, G.eraseDeco, It.eraseDeco, eraseDecoL, It.erase_true x1]
  | .tryConfigureRep x0 x1 => by simp [G.erase, It.erase, eraseL, G.eraseDeco, It.eraseDeco, eraseDecoL, It.erase_true x1]
theorem eraseL_true : ∀ gs : List G, eraseL true gs = eraseDecoL gs
  | [] => by simp [G.erase, It.erase, eraseL, G.eraseDeco, It.eraseDeco, eraseDecoL]
  | g :: gs => by simp [G.erase, It.erase, eraseL, G.eraseDeco, It.eraseDeco, eraseDecoL, G.erase_true g, eraseL_true gs]
end

mutual
theorem G.adm_weak (b dr : Bool) : ∀ (u : Bool) (g : G), g.adm false b dr u = true
  | u, .end_ => by simp [G.adm, It.adm, admL]
  | u, .empty => by simp [G.adm, It.adm, admL]
  | u, .any => by simp [G.adm, It.adm, admL]
  | u, .just x0 => by simp [G.adm, It.adm, admL]
  | u, .oneOf x0 => by simp [G.adm, It.adm, admL]
  | u, .noneOf x0 => by simp [G.adm, It.adm, admL]
  | u, .select x0 => by simp [G.adm, It.adm, admL]
  | u, .custom x0 => by simp [G.adm, It.adm, admL]
  | u, .todo => by simp [G.adm, It.adm, admL]
  | u, .then_ x0 x1 => by simp [G.adm, It.adm, admL, G.adm_weak b dr u x0, G.adm_weak b dr u x1]
  | u, .ignoreThen x0 x1 => by simp [G.adm, It.adm, admL, G.adm_weak b dr u x0, G.adm_weak b dr u x1]
  | u, .thenIgnore x0 x1 => by simp [G.adm, It.adm, admL, G.adm_weak b dr u x0, G.adm_weak b dr u x1]
  | u, .delimitedBy x0 x1 x2 => by simp [G.adm, It.adm, admL, G.adm_weak b dr u x0, G.adm_weak b dr u x1, G.adm_weak b dr u x2]
  | u, .paddedBy x0 x1 => by simp [G.adm, It.adm, admL, G.adm_weak b dr u x0, G.adm_weak b dr u x1]
  | u, .group x0 => by simp [G.adm, It.adm, admL, admL_weak b dr u x0]
  | u, .groupArr x0 => by simp [G.adm, It.adm, admL, admL_weak b dr u x0]
  | u, .or_ x0 x1 => by simp [G.adm, It.adm, admL, G.adm_weak b dr u x0, G.adm_weak b dr u x1]
  | u, .choice x0 x1 => by simp [G.adm, It.adm, admL, admL_weak b dr u x1]
  | u, .orNot x0 => by simp [G.adm, It.adm, admL, G.adm_weak b dr u x0]
  | u, .not_ x0 => by simp [G.adm, It.adm, admL, G.adm_weak b dr u x0]
  | u, .andIs x0 x1 => by simp [G.adm, It.adm, admL, G.adm_weak b dr u x0, G.adm_weak b dr u x1]
  | u, .rewind x0 => by simp [G.adm, It.adm, admL, G.adm_weak b dr u x0]
  | u, .map x0 x1 => by simp [G.adm, It.adm, admL, G.adm_weak b dr u x1]
  | u, .to x0 x1 => by simp [G.adm, It.adm, admL, G.adm_weak b dr u x1]
  | u, .ignored x0 => by simp [G.adm, It.adm, admL, G.adm_weak b dr u x0]
  | u, .filter x0 x1 => by simp [G.adm, It.adm, admL, G.adm_weak b dr u x1]
  | u, .tryMap x0 x1 => by simp [G.adm, It.adm, admL, G.adm_weak b dr u x1]
  | u, .tryMapWith x0 x1 => by simp [G.adm, It.adm, admL, G.adm_weak b dr u x1]
  | u, .toSpan x0 => by simp [G.adm, It.adm, admL, G.adm_weak b dr u x0]
  | u, .toSlice x0 => by simp [G.adm, It.adm, admL, G.adm_weak b dr u x0]
  | u, .mapWithSpan x0 => by simp [G.adm, It.adm, admL, G.adm_weak b dr u x0]
  | u, .mapWithState x0 => by simp [G.adm, It.adm, admL, G.adm_weak b dr u x0]
  | u, .mapWithCtx x0 => by simp [G.adm, It.adm, admL, G.adm_weak b dr u x0]
  | u, .validate x0 x1 => by simp [G.adm, It.adm, admL, G.adm_weak b dr u x1]
  | u, .collect x0 x1 => by simp [G.adm, It.adm, admL, It.adm_weak b dr u x1]
  | u, .collectExactly x0 x1 => by simp [G.adm, It.adm, admL, It.adm_weak b dr u x1]
  | u, .foldl x0 x1 x2 => by simp [G.adm, It.adm, admL, G.adm_weak b dr u x1, It.adm_weak b dr u x2]
  | u, .foldr x0 x1 x2 => by simp [G.adm, It.adm, admL, It.adm_weak b dr u x1, G.adm_weak b dr u x2]
  | u, .foldlWith x0 x1 => by simp [G.adm, It.adm, admL, G.adm_weak b dr u x0, It.adm_weak b dr u x1]
  | u, .foldrWith x0 x1 => by simp [G.adm, It.adm, admL, It.adm_weak b dr u x0, G.adm_weak b dr u x1]
  | u, .iterP x0 => by simp [G.adm, It.adm, admL, It.adm_weak b dr u x0]
  | u, .recoverVia x0 x1 => by simp [G.adm, It.adm, admL, G.adm_weak b dr u x0, G.adm_weak b dr u x1]
  | u, .recoverSkipUntil x0 x1 x2 x3 => by simp [G.adm, It.adm, admL, G.adm_weak b dr u x0, G.adm_weak b dr u x1, G.adm_weak b dr u x2]
  | u, .recoverSkipRetry x0 x1 x2 => by simp [G.adm, It.adm, admL, G.adm_weak b dr u x0, G.adm_weak b dr u x1, G.adm_weak b dr u x2]
  | u, .labelled x0 x1 x2 => by simp [G.adm, It.adm, admL, G.adm_weak b dr (u || b) x2]
  | u, .mapErr x0 x1 => by simp [G.adm, It.adm, admL, G.adm_weak b dr (u || b) x1]
  | u, .withCtx x0 x1 => by simp [G.adm, It.adm, admL, G.adm_weak b dr u x1]
  | u, .ignoreWithCtx x0 x1 => by simp [G.adm, It.adm, admL, G.adm_weak b dr u x0, G.adm_weak b dr u x1]
  | u, .thenWithCtx x0 x1 => by simp [G.adm, It.adm, admL, G.adm_weak b dr u x0, G.adm_weak b dr u x1]
  | u, .mapCtx x0 x1 => by simp [G.adm, It.adm, admL, G.adm_weak b dr u x1]
  | u, .configureJust x0 x1 => by simp [G.adm, It.adm, admL]
  | u, .withState x0 => by simp [G.adm, It.adm, admL, G.adm_weak b dr u x0]
  | u, .memoized x0 x1 => by simp [G.adm, It.adm, admL, G.adm_weak b dr u x1]
  | u, .call x0 => by simp [G.adm, It.adm, admL]
  | u, .boxed x0 => by simp [G.adm, It.adm, admL, G.adm_weak b dr u x0]
theorem It.adm_weak (b dr : Bool) : ∀ (u : Bool) (it : It), it.adm false b dr u = true
  | u, .repeated x0 x1 x2 => by simp [G.adm, It.adm, admL, G.adm_weak b dr u x0]
  | u, .separatedBy x0 x1 x2 x3 x4 x5 => by simp [G.adm, It.adm, admL, G.adm_weak b dr u x0, G.adm_weak b dr u x1]
  | u, .enumerate x0 => by simp [G.adm, It.adm, admL, It.adm_weak b dr u x0]
  | u, .orNotIt x0 => by simp [G.adm, It.adm, admL, G.adm_weak b dr u x0]
  | u, .intoIter x0 => by simp [G.adm, It.adm, admL, G.adm_weak b dr u x0]
  | u, .thenIt x0 x1 => by simp [G.adm, It.adm, admL, It.adm_weak b dr u x0, It.adm_weak b dr u x1]
  | u, .mapIt x0 x1 => by simp [G.adm, It.adm, admL, It.adm_weak b dr u x1]
  | u, .configureRep x0 x1 => by simp [G.adm, It.adm, admL, It.adm_weak b dr u x1]
  | u, .tryConfigureRep x0 x1 => by simp [G.adm, It.adm, admL, It.adm_weak b dr u x1]
theorem admL_weak (b dr : Bool) : ∀ (u : Bool) (gs : List G), admL false b dr u gs = true
  | u, [] => by simp [G.adm, It.adm, admL]
  | u, g :: gs => by simp [G.adm, It.adm, admL, G.adm_weak b dr u g, admL_weak b dr u gs]
end

mutual
theorem G.adm_kind (s dr : Bool) : ∀ g : G, g.adm s false dr false = true
  | .end_ => by simp [G.adm, It.adm, admL]
  | .empty => by simp [G.adm, It.adm, admL]
  | .any => by simp [G.adm, It.adm, admL]
  | .just x0 => by simp [G.adm, It.adm, admL]
  | .oneOf x0 => by simp [G.adm, It.adm, admL]
  | .noneOf x0 => by simp [G.adm, It.adm, admL]
  | .select x0 => by simp [G.adm, It.adm, admL]
  | .custom x0 => by simp [G.adm, It.adm, admL]
  | .todo => by simp [G.adm, It.adm, admL]
  | .then_ x0 x1 => by simp [G.adm, It.adm, admL, G.adm_kind s dr x0, G.adm_kind s dr x1]
  | .ignoreThen x0 x1 => by simp [G.adm, It.adm, admL, G.adm_kind s dr x0, G.adm_kind s dr x1]
  | .thenIgnore x0 x1 => by simp [G.adm, It.adm, admL, G.adm_kind s dr x0, G.adm_kind s dr x1]
  | .delimitedBy x0 x1 x2 => by simp [G.adm, It.adm, admL, G.adm_kind s dr x0, G.adm_kind s dr x1, G.adm_kind s dr x2]
  | .paddedBy x0 x1 => by simp [G.adm, It.adm, admL, G.adm_kind s dr x0, G.adm_kind s dr x1]
  | .group x0 => by simp [G.adm, It.adm, admL, admL_kind s dr x0]
  | .groupArr x0 => by simp [G.adm, It.adm, admL, admL_kind s dr x0]
  | .or_ x0 x1 => by simp [G.adm, It.adm, admL, G.adm_kind s dr x0, G.adm_kind s dr x1]
  | .choice x0 x1 => by simp [G.adm, It.adm, admL, admL_kind s dr x1]
  | .orNot x0 => by simp [G.adm, It.adm, admL, G.adm_kind s dr x0]
  | .not_ x0 => by simp [G.adm, It.adm, admL, G.adm_kind s dr x0]
  | .andIs x0 x1 => by simp [G.adm, It.adm, admL, G.adm_kind s dr x0, G.adm_kind s dr x1]
  | .rewind x0 => by simp [G.adm, It.adm, admL, G.adm_kind s dr x0]
  | .map x0 x1 => by simp [G.adm, It.adm, admL, G.adm_kind s dr x1]
  | .to x0 x1 => by simp [G.adm, It.adm, admL, G.adm_kind s dr x1]
  | .ignored x0 => by simp [G.adm, It.adm, admL, G.adm_kind s dr x0]
  | .filter x0 x1 => by simp [G.adm, It.adm, admL, G.adm_kind s dr x1]
  | .tryMap x0 x1 => by simp [G.adm, It.adm, admL, G.adm_kind s dr x1]
  | .tryMapWith x0 x1 => by simp [G.adm, It.adm, admL, G.adm_kind s dr x1]
  | .toSpan x0 => by simp [G.adm, It.adm, admL, G.adm_kind s dr x0]
  | .toSlice x0 => by simp [G.adm, It.adm, admL, G.adm_kind s dr x0]
  | .mapWithSpan x0 => by simp [G.adm, It.adm, admL, G.adm_kind s dr x0]
  | .mapWithState x0 => by simp [G.adm, It.adm, admL, G.adm_kind s dr x0]
  | .mapWithCtx x0 => by simp [G.adm, It.adm, admL, G.adm_kind s dr x0]
  | .validate x0 x1 => by simp [G.adm, It.adm, admL, G.adm_kind s dr x1]
  | .collect x0 x1 => by simp [G.adm, It.adm, admL, It.adm_kind s dr x1]
  | .collectExactly x0 x1 => by simp [G.adm, It.adm, admL, It.adm_kind s dr x1]
  | .foldl x0 x1 x2 => by simp [G.adm, It.adm, admL, G.adm_kind s dr x1, It.adm_kind s dr x2]
  | .foldr x0 x1 x2 => by simp [G.adm, It.adm, admL, It.adm_kind s dr x1, G.adm_kind s dr x2]
  | .foldlWith x0 x1 => by simp [G.adm, It.adm, admL, G.adm_kind s dr x0, It.adm_kind s dr x1]
  | .foldrWith x0 x1 => by simp [G.adm, It.adm, admL, It.adm_kind s dr x0, G.adm_kind s dr x1]
  | .iterP x0 => by simp [G.adm, It.adm, admL, It.adm_kind s dr x0]
  | .recoverVia x0 x1 => by simp [G.adm, It.adm, admL, G.adm_kind s dr x0, G.adm_kind s dr x1]
  | .recoverSkipUntil x0 x1 x2 x3 => by simp [G.adm, It.adm, admL, G.adm_kind s dr x0, G.adm_kind s dr x1, G.adm_kind s dr x2]
  | .recoverSkipRetry x0 x1 x2 => by simp [G.adm, It.adm, admL, G.adm_kind s dr x0, G.adm_kind s dr x1, G.adm_kind s dr x2]
  | .labelled x0 x1 x2 => by simp [G.adm, It.adm, admL, G.adm_kind s dr x2]
  | .mapErr x0 x1 => by simp [G.adm, It.adm, admL, G.adm_kind s dr x1]
  | .withCtx x0 x1 => by simp [G.adm, It.adm, admL, G.adm_kind s dr x1]
  | .ignoreWithCtx x0 x1 => by simp [G.adm, It.adm, admL, G.adm_kind s dr x0, G.adm_kind s dr x1]
  | .thenWithCtx x0 x1 => by simp [G.adm, It.adm, admL, G.adm_kind s dr x0, G.adm_kind s dr x1]
  | .mapCtx x0 x1 => by simp [G.adm, It.adm, admL, G.adm_kind s dr x1]
  | .configureJust x0 x1 => by simp [G.adm, It.adm, admL]
  | .withState x0 => by simp [G.adm, It.adm, admL, G.adm_kind s dr x0]
  | .memoized x0 x1 => by simp [G.adm, It.adm, admL, G.adm_kind s dr x1]
  | .call x0 => by simp [G.adm, It.adm, admL]
  | .boxed x0 => by simp [G.adm, It.adm, admL, G.adm_kind s dr x0]
theorem It.adm_kind (s dr : Bool) : ∀ it : It, it.adm s false dr false = true
  | .repeated x0 x1 x2 => by simp [G.adm, It.adm, admL, G.adm_kind s dr x0]
  | .separatedBy x0 x1 x2 x3 x4 x5 => by simp [G.adm, It.adm, admL, G.adm_kind s dr x0, G.adm_kind s dr x1]
  | .enumerate x0 => by simp [G.adm, It.adm, admL, It.adm_kind s dr x0]
  | .orNotIt x0 => by simp [G.adm, It.adm, admL, G.adm_kind s dr x0]
  | .intoIter x0 => by simp [G.adm, It.adm, admL, G.adm_kind s dr x0]
  | .thenIt x0 x1 => by simp [G.adm, It.adm, admL, It.adm_kind s dr x0, It.adm_kind s dr x1]
  | .mapIt x0 x1 => by simp [G.adm, It.adm, admL, It.adm_kind s dr x1]
  | .configureRep x0 x1 => by simp [G.adm, It.adm, admL, It.adm_kind s dr x1]
  | .tryConfigureRep x0 x1 => by simp [G.adm, It.adm, admL, It.adm_kind s dr x1]
theorem admL_kind (s dr : Bool) : ∀ gs : List G, admL s false dr false gs = true
  | [] => by simp [G.adm, It.adm, admL]
  | g :: gs => by simp [G.adm, It.adm, admL, G.adm_kind s dr g, admL_kind s dr gs]
end


/-! ### the relations -/

/-- secondary errors: same number, same positions and (if `s`) same spans -/
def errRel (s : Bool) (e1 e2 : List Loc) : Prop := e1.map (Loc.shs s) = e2.map (Loc.shs s)

/-- pending error: the second run holds the first run's one merged behind the sheltered shape `o` -/
def altRel (o : Option Sh) (a1 a2 : Option Loc) : Prop := a2.map Loc.sh = comb o (a1.map Loc.sh)

theorem altRel.eq {o a1 a2} (h : altRel o a1 a2) : a2.map Loc.sh = comb o (a1.map Loc.sh) := h

structure Rel (o : Option Sh) (s : Bool) (a b : St) : Prop where
  pos : a.pos = b.pos
  insp : a.insp = b.insp
  ctx : a.ctx = b.ctx
  errs : errRel s a.errs b.errs
  alt : s = true → altRel o a.alt b.alt

theorem errRel.length {s} {a b : List Loc} (h : errRel s a b) : a.length = b.length := by
  have := congrArg List.length h
  simpa using this

theorem errRel.take {s} {a b : List Loc} (h : errRel s a b) (n : Nat) : errRel s (a.take n) (b.take n) := by
  simp only [errRel, List.map_take] at h ⊢
  rw [h]

theorem errRel.append {s} {a b a' b' : List Loc} (h : errRel s a b) (h' : errRel s a' b') :
    errRel s (a ++ a') (b ++ b') := by
  simp only [errRel, List.map_append] at h h' ⊢
  rw [h, h']

theorem errRel.single {s} {x y : Loc} (h : Loc.shs s x = Loc.shs s y) : errRel s [x] [y] := by
  simp [errRel, h]

theorem errRel.replicate {s} {x y : Loc} (h : Loc.shs s x = Loc.shs s y) (n : Nat) :
    errRel s (List.replicate n x) (List.replicate n y) := by
  simp [errRel, List.map_replicate, h]

theorem ctxSecondary_shs (s : Bool) (env : Env) (l start n : Nat) (errs : List Loc) :
    (ctxSecondary env l start n errs).map (Loc.shs s) = errs.map (Loc.shs s) := by
  have hf : (Loc.shs s ∘ fun e : Loc => (⟨e.pos, env.ek.inContext e.err l (env.mkSpan start e.pos)⟩ : Loc)) = Loc.shs s := by
    funext e; simp [Loc.shs]
  simp only [ctxSecondary, List.map_append, List.map_map, hf]
  rw [← List.map_append, List.take_append_drop]

theorem errRel.ctxSec_left {s} {a b : List Loc} (h : errRel s a b) (env : Env) (l start n : Nat) :
    errRel s (ctxSecondary env l start n a) b := by
  simp only [errRel, ctxSecondary_shs]; exact h

theorem errRel.ctxSec {s} {a b : List Loc} (h : errRel s a b) (env1 env2 : Env) (l start n : Nat) :
    errRel s (ctxSecondary env1 l start n a) (ctxSecondary env2 l start n b) := by
  simp only [errRel, ctxSecondary_shs]; exact h

theorem shs_of_sh {s} {x y : Loc} (h : x.sh = y.sh) : Loc.shs s x = Loc.shs s y := by
  simp only [Loc.sh, Prod.mk.injEq] at h
  simp [Loc.shs, h.1, h.2]

namespace Rel
variable {o : Option Sh} {s : Bool} {a b : St}

theorem save (h : Rel o s a b) : a.save = b.save := by
  simp [St.save, h.pos, h.insp, h.errs.length]

theorem rewind (h : Rel o s a b) (c : Chk) : Rel o s (a.rewind c) (b.rewind c) :=
  ⟨rfl, rfl, h.ctx, h.errs.take _, h.alt⟩

theorem rewindInput (h : Rel o s a b) (c : Chk) : Rel o s (a.rewindInput c) (b.rewindInput c) :=
  ⟨rfl, rfl, h.ctx, h.errs, h.alt⟩

theorem setCtx (h : Rel o s a b) (c : Val) : Rel o s { a with ctx := c } { b with ctx := c } :=
  ⟨h.pos, h.insp, rfl, h.errs, h.alt⟩

theorem setInsp (h : Rel o s a b) (i : List Nat) : Rel o s { a with insp := i } { b with insp := i } :=
  ⟨h.pos, rfl, h.ctx, h.errs, h.alt⟩

/-- both runs shelter their pending error -/
theorem altNone (h : Rel o s a b) : Rel none s { a with alt := none } { b with alt := none } :=
  ⟨h.pos, h.insp, h.ctx, h.errs, fun _ => rfl⟩

/-- only the first run shelters its pending error (decoration erased in the second run) -/
theorem altNoneLeft (h : Rel o s a b) : Rel (comb o (a.alt.map Loc.sh)) s { a with alt := none } b :=
  ⟨h.pos, h.insp, h.ctx, h.errs, fun hs => by simpa [altRel] using h.alt hs⟩

theorem changeO {o'} (h : Rel o s a b) (ho : s = true → o = o') : Rel o' s a b :=
  ⟨h.pos, h.insp, h.ctx, h.errs, fun hs => ho hs ▸ h.alt hs⟩

/-- replace the pending errors by related ones -/
theorem setAlt {o'} (h : Rel o s a b) {x y : Option Loc} (hxy : s = true → altRel o' x y) :
    Rel o' s { a with alt := x } { b with alt := y } :=
  ⟨h.pos, h.insp, h.ctx, h.errs, hxy⟩

theorem setErrs (h : Rel o s a b) {x y : List Loc} (hxy : errRel s x y) :
    Rel o s { a with errs := x } { b with errs := y } :=
  ⟨h.pos, h.insp, h.ctx, hxy, h.alt⟩

theorem emit (h : Rel o s a b) (p : Nat) {e1 e2 : Err} (he : Loc.shs s ⟨p, e1⟩ = Loc.shs s ⟨p, e2⟩) :
    Rel o s (a.emit p e1) (b.emit p e2) :=
  ⟨h.pos, h.insp, h.ctx, h.errs.append (errRel.single he), h.alt⟩

theorem addAlt {env1 env2 : Env} (h1 : env1.ek ≠ .empty) (h2 : env2.ek ≠ .empty) (h : Rel o s a b) (exp f sp) :
    Rel o s (a.addAlt env1 exp f sp) (b.addAlt env2 exp f sp) := by
  refine ⟨by simp [h.pos], by simp [h.insp], by simp [h.ctx], by simpa using h.errs, ?_⟩
  intro hs
  simp only [altRel, addAlt_alt h1, addAlt_alt h2, (h.alt hs).eq, comb_assoc, h.pos]

theorem addAltErr {env1 env2 : Env} (h1 : env1.ek ≠ .empty) (h2 : env2.ek ≠ .empty) (h : Rel o s a b)
    (p : Nat) {e1 e2 : Err} (he : e1.span = e2.span) :
    Rel o s (a.addAltErr env1 p e1) (b.addAltErr env2 p e2) := by
  refine ⟨by simp [h.pos], by simp [h.insp], by simp [h.ctx], by simpa using h.errs, ?_⟩
  intro hs
  simp only [altRel, addAltErr_alt h1, addAltErr_alt h2, (h.alt hs).eq, comb_assoc, he]

theorem readdAlt {env1 env2 : Env} (h1 : env1.ek ≠ .empty) (h2 : env2.ek ≠ .empty) (h : Rel o s a b)
    {n1 n2 : Option Loc} (hn : n1.map Loc.sh = n2.map Loc.sh) :
    Rel o s (St.readdAlt env1 a n1) (St.readdAlt env2 b n2) := by
  refine ⟨by simp [h.pos], by simp [h.insp], by simp [h.ctx], by simpa using h.errs, ?_⟩
  intro hs
  simp only [altRel, readdAlt_alt h1, readdAlt_alt h2, (h.alt hs).eq, comb_assoc, hn]

/-- only the first run re-adds (decoration erased in the second run): the second run's pending error already is
    the merge -/
theorem readdAltLeft {env1 : Env} (h1 : env1.ek ≠ .empty) {old : Option Loc} {a b : St}
    (h : Rel (comb o (old.map Loc.sh)) s a b) {n1 : Option Loc} (hn : n1.map Loc.sh = a.alt.map Loc.sh) :
    Rel o s (St.readdAlt env1 { a with alt := old } n1) b := by
  refine ⟨by simp [h.pos], by simp [h.insp], by simp [h.ctx], by simpa using h.errs, ?_⟩
  intro hs
  simp only [altRel, readdAlt_alt h1, (h.alt hs).eq, comb_assoc, hn]

end Rel

theorem addAlt_isSome {env : Env} (hk : env.ek ≠ .empty) (st : St) (exp f sp) :
    (st.addAlt env exp f sp).alt.isSome = true := by
  have := addAlt_alt hk st exp f sp
  have h2 := comb_isSome_right (st.alt.map Loc.sh) (some (st.pos, sp)) rfl
  rw [← this] at h2
  simpa using h2

theorem addAltErr_isSome {env : Env} (hk : env.ek ≠ .empty) (st : St) (p e) :
    (st.addAltErr env p e).alt.isSome = true := by
  have := addAltErr_alt hk st p e
  have h2 := comb_isSome_right (st.alt.map Loc.sh) (some (p, e.span)) rfl
  rw [← this] at h2
  simpa using h2

theorem readdAlt_isSome {env : Env} (hk : env.ek ≠ .empty) (st : St) (n : Option Loc)
    (h : st.alt.isSome = true ∨ n.isSome = true) : (St.readdAlt env st n).alt.isSome = true := by
  have := readdAlt_alt hk st n
  have h2 : (comb (st.alt.map Loc.sh) (n.map Loc.sh)).isSome = true := by
    rcases h with h | h
    · exact comb_isSome_left _ _ (by simpa using h)
    · exact comb_isSome_right _ _ (by simpa using h)
  rw [← this] at h2
  simpa using h2

/-- the two environments: same input, error kinds `≠ empty`, memoization off, definitions erased alike -/
structure EnvRel (s b dr : Bool) (env1 env2 : Env) : Prop where
  toks : env2.toks = env1.toks
  kind : env2.kind = env1.kind
  tspans : env2.tspans = env1.tspans
  eoi : env2.eoi = env1.eoi
  ek1 : env1.ek ≠ .empty
  ek2 : env2.ek ≠ .empty
  m1 : env1.memoOn = false
  m2 : env2.memoOn = false
  defs : env2.defs = env1.defs.map (G.erase b)
  adm : ∀ (k : Nat) (d : G) (u : Bool), env1.defs[k]? = some d → (u = false ∨ s = false ∨ dr = true) → d.adm s b dr u = true

namespace EnvRel
variable {s b dr : Bool} {env1 env2 : Env}

theorem mkSpan (he : EnvRel s b dr env1 env2) (i j : Nat) : env2.mkSpan i j = env1.mkSpan i j := by
  simp only [Env.mkSpan, he.toks, he.kind, he.tspans, he.eoi]

theorem off (he : EnvRel s b dr env1 env2) (i : Nat) : env2.off i = env1.off i := by
  simp only [Env.off, he.toks, he.kind]

end EnvRel

inductive OutRel (o : Option Sh) (s : Bool) : Out → Out → Prop
  | ok (v : Val) {a b : St} : Rel o s a b → OutRel o s (.ok v a) (.ok v b)
  | fail {a b : St} : Rel o s a b → (a.alt.isSome = true ∧ b.alt.isSome = true) → OutRel o s (.fail a) (.fail b)
  | panic (w : Nat) : OutRel o s (.panic w) (.panic w)
  | oof : OutRel o s .oof .oof

inductive ItRel (o : Option Sh) (s : Bool) : ItOut → ItOut → Prop
  | some (v : Val) (ist : ItSt) {a b : St} : Rel o s a b → ItRel o s (.some v a ist) (.some v b ist)
  | done (ist : ItSt) {a b : St} : Rel o s a b → ItRel o s (.done a ist) (.done b ist)
  | fail {a b : St} : Rel o s a b → (a.alt.isSome = true ∧ b.alt.isSome = true) → ItRel o s (.fail a) (.fail b)
  | panic (w : Nat) : ItRel o s (.panic w) (.panic w)
  | oof : ItRel o s .oof .oof

inductive MkRel (o : Option Sh) (s : Bool) : MkOut → MkOut → Prop
  | ok (ist : ItSt) {a b : St} : Rel o s a b → MkRel o s (.ok ist a) (.ok ist b)
  | fail {a b : St} : Rel o s a b → (a.alt.isSome = true ∧ b.alt.isSome = true) → MkRel o s (.fail a) (.fail b)
  | panic (w : Nat) : MkRel o s (.panic w) (.panic w)
  | oof : MkRel o s .oof .oof

theorem OutRel.cases {o s x y} (h : OutRel o s x y) :
    (∃ v a b, x = .ok v a ∧ y = .ok v b ∧ Rel o s a b) ∨
    (∃ a b, x = .fail a ∧ y = .fail b ∧ Rel o s a b ∧ (a.alt.isSome = true ∧ b.alt.isSome = true)) ∨
    (∃ w, x = .panic w ∧ y = .panic w) ∨ (x = .oof ∧ y = .oof) := by
  cases h with
  | ok v h => exact .inl ⟨v, _, _, rfl, rfl, h⟩
  | fail h h' => exact .inr (.inl ⟨_, _, rfl, rfl, h, h'⟩)
  | panic w => exact .inr (.inr (.inl ⟨w, rfl, rfl⟩))
  | oof => exact .inr (.inr (.inr ⟨rfl, rfl⟩))

theorem ItRel.cases {o s x y} (h : ItRel o s x y) :
    (∃ v ist a b, x = .some v a ist ∧ y = .some v b ist ∧ Rel o s a b) ∨
    (∃ ist a b, x = .done a ist ∧ y = .done b ist ∧ Rel o s a b) ∨
    (∃ a b, x = .fail a ∧ y = .fail b ∧ Rel o s a b ∧ (a.alt.isSome = true ∧ b.alt.isSome = true)) ∨
    (∃ w, x = .panic w ∧ y = .panic w) ∨ (x = .oof ∧ y = .oof) := by
  cases h with
  | some v ist h => exact .inl ⟨v, ist, _, _, rfl, rfl, h⟩
  | done ist h => exact .inr (.inl ⟨ist, _, _, rfl, rfl, h⟩)
  | fail h h' => exact .inr (.inr (.inl ⟨_, _, rfl, rfl, h, h'⟩))
  | panic w => exact .inr (.inr (.inr (.inl ⟨w, rfl, rfl⟩)))
  | oof => exact .inr (.inr (.inr (.inr ⟨rfl, rfl⟩)))

theorem MkRel.cases {o s x y} (h : MkRel o s x y) :
    (∃ ist a b, x = .ok ist a ∧ y = .ok ist b ∧ Rel o s a b) ∨
    (∃ a b, x = .fail a ∧ y = .fail b ∧ Rel o s a b ∧ (a.alt.isSome = true ∧ b.alt.isSome = true)) ∨
    (∃ w, x = .panic w ∧ y = .panic w) ∨ (x = .oof ∧ y = .oof) := by
  cases h with
  | ok v h => exact .inl ⟨v, _, _, rfl, rfl, h⟩
  | fail h h' => exact .inr (.inl ⟨_, _, rfl, rfl, h, h'⟩)
  | panic w => exact .inr (.inr (.inl ⟨w, rfl, rfl⟩))
  | oof => exact .inr (.inr (.inr ⟨rfl, rfl⟩))

/-- case split on a pair of related sub-runs; the `panic`/`oof` cases are closed, the goals left are `ok` then `fail` -/
macro "ocases " h:term " with " v:ident a:ident b:ident hr:ident hsm:ident : tactic => `(tactic|
  (rcases OutRel.cases $h with ⟨$v:ident, $a:ident, $b:ident, e1, e2, $hr:ident⟩ | ⟨$a:ident, $b:ident, e1, e2, $hr:ident, $hsm:ident⟩ | ⟨w, e1, e2⟩ | ⟨e1, e2⟩ <;>
   simp only [e1, e2, Out.andThen, Out.restoreCtx, Out.restoreInsp] <;>
   first | exact OutRel.panic _ | exact OutRel.oof | exact ItRel.panic _ | exact ItRel.oof | exact MkRel.panic _ | exact MkRel.oof
         | exact Sum.inr_injective.eq_iff.mpr rfl | skip))

/-- same for `make_iter`: goals left are `ok` then `fail` -/
macro "kcases " h:term " with " v:ident a:ident b:ident hr:ident hsm:ident : tactic => `(tactic|
  (rcases MkRel.cases $h with ⟨$v:ident, $a:ident, $b:ident, e1, e2, $hr:ident⟩ | ⟨$a:ident, $b:ident, e1, e2, $hr:ident, $hsm:ident⟩ | ⟨w, e1, e2⟩ | ⟨e1, e2⟩ <;>
   simp only [e1, e2] <;>
   first | exact OutRel.panic _ | exact OutRel.oof | exact ItRel.panic _ | exact ItRel.oof | exact MkRel.panic _ | exact MkRel.oof | skip))

/-- same for `next`: goals left are `some`, `done`, `fail` -/
macro "ncases " h:term " with " v:ident ist:ident a:ident b:ident hr:ident hsm:ident : tactic => `(tactic|
  (rcases ItRel.cases $h with ⟨$v:ident, $ist:ident, $a:ident, $b:ident, e1, e2, $hr:ident⟩ | ⟨$ist:ident, $a:ident, $b:ident, e1, e2, $hr:ident⟩ | ⟨$a:ident, $b:ident, e1, e2, $hr:ident, $hsm:ident⟩ | ⟨w, e1, e2⟩ | ⟨e1, e2⟩ <;>
   simp only [e1, e2] <;>
   first | exact OutRel.panic _ | exact OutRel.oof | exact ItRel.panic _ | exact ItRel.oof | exact MkRel.panic _ | exact MkRel.oof | skip))


/-! ### the simulation hypotheses on the runners (open recursion) -/

def SimR (s b dr : Bool) (env1 env2 : Env) (R1 R2 : Runner) : Prop :=
  ∀ (o : Option Sh) (u : Bool) (m : Mode) (g : G) (st1 st2 : St), Rel o s st1 st2 → g.adm s b dr u = true →
    (s = true → u = false → o = none) → OutRel o s (R1 env1 m g st1) (R2 env2 m (g.erase b) st2)

def SimN (s b dr : Bool) (env1 env2 : Env) (N1 N2 : NextRunner) : Prop :=
  ∀ (o : Option Sh) (u : Bool) (m : Mode) (it : It) (st1 st2 : St) (ist : ItSt), Rel o s st1 st2 →
    it.adm s b dr u = true → (s = true → u = false → o = none) →
    ItRel o s (N1 env1 m it st1 ist) (N2 env2 m (it.erase b) st2 ist)

def SimK (s b dr : Bool) (env1 env2 : Env) (K1 K2 : MkRunner) : Prop :=
  ∀ (o : Option Sh) (u : Bool) (m : Mode) (it : It) (st1 st2 : St), Rel o s st1 st2 →
    it.adm s b dr u = true → (s = true → u = false → o = none) →
    MkRel o s (K1 env1 m it st1) (K2 env2 m (it.erase b) st2)

theorem OutRel.ite {o s} {c : Prop} [Decidable c] {x y x' y' : Out} (h1 : OutRel o s x y) (h2 : OutRel o s x' y') :
    OutRel o s (if c then x else x') (if c then y else y') := by
  by_cases hc : c
  · simp only [if_pos hc]; exact h1
  · simp only [if_neg hc]; exact h2

theorem ItRel.ite {o s} {c : Prop} [Decidable c] {x y x' y' : ItOut} (h1 : ItRel o s x y) (h2 : ItRel o s x' y') :
    ItRel o s (if c then x else x') (if c then y else y') := by
  by_cases hc : c
  · simp only [if_pos hc]; exact h1
  · simp only [if_neg hc]; exact h2

theorem It.nonconsOk_erase (b : Bool) : ∀ it : It, (it.erase b).nonconsOk = it.nonconsOk
  | .repeated .. => rfl
  | .separatedBy .. => rfl
  | .enumerate it => by simp [It.erase, It.nonconsOk, It.nonconsOk_erase b it]
  | .orNotIt _ => rfl
  | .intoIter _ => rfl
  | .thenIt x y => by simp [It.erase, It.nonconsOk, It.nonconsOk_erase b x, It.nonconsOk_erase b y]
  | .mapIt _ it => by simp [It.erase, It.nonconsOk, It.nonconsOk_erase b it]
  | .configureRep _ it => by simp [It.erase, It.nonconsOk, It.nonconsOk_erase b it]
  | .tryConfigureRep _ it => by simp [It.erase, It.nonconsOk, It.nonconsOk_erase b it]

section
variable {s b dr : Bool} {env1 env2 : Env} {o : Option Sh}

/-! ### primitives -/

theorem next_fst (he : EnvRel s b dr env1 env2) {st1 st2 : St} (hs : Rel o s st1 st2) :
    (St.next env2 st2).1 = (St.next env1 st1).1 := by
  simp only [St.next, he.toks, ← hs.pos]
  cases env1.toks[st1.pos]? <;> rfl

theorem next_snd (he : EnvRel s b dr env1 env2) {st1 st2 : St} (hs : Rel o s st1 st2) :
    Rel o s (St.next env1 st1).2 (St.next env2 st2).2 := by
  simp only [St.next, he.toks, ← hs.pos]
  cases env1.toks[st1.pos]? with
  | none => exact hs
  | some t => exact ⟨by simp [hs.pos], by simp [hs.insp], hs.ctx, hs.errs, hs.alt⟩

theorem peek_eq (he : EnvRel s b dr env1 env2) {st1 st2 : St} (hs : Rel o s st1 st2) :
    St.peek env2 st2 = St.peek env1 st1 := by
  simp only [St.peek, he.toks, hs.pos]

theorem tokenPrim_sim (he : EnvRel s b dr env1 env2) {st1 st2 : St} (hs : Rel o s st1 st2) (m : Mode)
    (acc : Nat → Option Val) (exp : List Pat) :
    OutRel o s (tokenPrim env1 m st1 acc exp) (tokenPrim env2 m st2 acc exp) := by
  have hn := next_snd he hs
  simp only [tokenPrim, next_fst he hs, ← hs.save, he.mkSpan, ← hn.pos]
  cases ((St.next env1 st1).1.bind acc) with
  | some v => exact .ok _ hn
  | none => exact .fail ((hn.rewind _).addAlt he.ek1 he.ek2 _ _ _) ⟨addAlt_isSome he.ek1 _ _ _ _, addAlt_isSome he.ek2 _ _ _ _⟩

theorem justRun_sim (he : EnvRel s b dr env1 env2) : ∀ (ts : List Nat) (st1 st2 : St), Rel o s st1 st2 →
    (∃ a b, justRun env1 ts st1 = .inl a ∧ justRun env2 ts st2 = .inl b ∧ Rel o s a b ∧ (a.alt.isSome = true ∧ b.alt.isSome = true)) ∨
    (∃ a b, justRun env1 ts st1 = .inr a ∧ justRun env2 ts st2 = .inr b ∧ Rel o s a b) := by
  intro ts
  induction ts with
  | nil => intro st1 st2 hs; exact .inr ⟨_, _, rfl, rfl, hs⟩
  | cons e es ih =>
    intro st1 st2 hs
    have hn := next_snd he hs
    simp only [justRun, next_fst he hs, ← hs.save, he.mkSpan, ← hn.pos]
    by_cases hc : ((St.next env1 st1).1 == some e) = true
    · simp only [hc, if_true]; exact ih _ _ hn
    · simp only [hc, if_false]
      exact .inl ⟨_, _, rfl, rfl, (hn.rewind _).addAlt he.ek1 he.ek2 _ _ _, ⟨addAlt_isSome he.ek1 _ _ _ _, addAlt_isSome he.ek2 _ _ _ _⟩⟩

theorem justStep_sim (he : EnvRel s b dr env1 env2) (ts : List Nat) {st1 st2 : St} (hs : Rel o s st1 st2) (v : Val) :
    OutRel o s (match justRun env1 ts st1 with | .inr st' => .ok v st' | .inl st' => .fail st')
      (match justRun env2 ts st2 with | .inr st' => .ok v st' | .inl st' => .fail st') := by
  rcases justRun_sim he ts st1 st2 hs with ⟨a, b', e1, e2, hr, hsm⟩ | ⟨a, b', e1, e2, hr⟩ <;> simp only [e1, e2]
  · exact .fail hr hsm
  · exact .ok _ hr

theorem runCustom_sim (he : EnvRel s b dr env1 env2) {st1 st2 : St} (hs : Rel o s st1 st2) (m : Mode) (f : CustomFn) :
    OutRel o s (runCustom env1 m f st1) (runCustom env2 m f st2) := by
  have hn := next_snd he hs
  have hn2 := next_snd he hn
  have hu1 := ErrKind.userErr_span he.ek1
  have hu2 := ErrKind.userErr_span he.ek2
  cases f with
  | next msg =>
    simp only [runCustom, next_fst he hs, ← hs.pos]
    cases (St.next env1 st1).1 with
    | some t => exact .ok _ hn
    | none => exact .fail (hn.addAltErr he.ek1 he.ek2 _ (by simp [hu1, hu2, he.mkSpan, hn.pos])) ⟨addAltErr_isSome he.ek1 _ _ _, addAltErr_isSome he.ek2 _ _ _⟩
  | take2Fail msg =>
    simp only [runCustom, ← hs.pos]
    exact .fail (hn2.addAltErr he.ek1 he.ek2 _ (by simp [hu1, hu2, he.mkSpan, hn2.pos])) ⟨addAltErr_isSome he.ek1 _ _ _, addAltErr_isSome he.ek2 _ _ _⟩
  | nothing => exact .ok _ hs
  | failNow msg =>
    simp only [runCustom, ← hs.pos]
    exact .fail (hs.addAltErr he.ek1 he.ek2 _ (by simp [hu1, hu2, he.mkSpan])) ⟨addAltErr_isSome he.ek1 _ _ _, addAltErr_isSome he.ek2 _ _ _⟩

/-! ### sheltering the pending error (`try_map`, `not`, `labelled`, `map_err`, `memoized`) -/

/-- `st'` is `st` with the sheltered error `old` merged back in front of the pending error (descriptions aside) -/
structure Reshelter (old : Option Loc) (st st' : St) : Prop where
  pos : st'.pos = st.pos
  insp : st'.insp = st.insp
  ctx : st'.ctx = st.ctx
  errs : ∀ s, st'.errs.map (Loc.shs s) = st.errs.map (Loc.shs s)
  alt : st'.alt.map Loc.sh = comb (old.map Loc.sh) (st.alt.map Loc.sh)

theorem Rel.altEq {a c : St} (h : Rel none s a c) (hs : s = true) : a.alt.map Loc.sh = c.alt.map Loc.sh := by
  have := (h.alt hs).eq
  simpa using this.symm

theorem Rel.reshelter {old1 old2 : Option Loc} {a a' c c' : St} (h : Rel none s a c)
    (h1 : Reshelter old1 a a') (h2 : Reshelter old2 c c') (hold : s = true → altRel o old1 old2) : Rel o s a' c' := by
  refine ⟨by rw [h1.pos, h2.pos, h.pos], by rw [h1.insp, h2.insp, h.insp], by rw [h1.ctx, h2.ctx, h.ctx], ?_, ?_⟩
  · simp only [errRel, h1.errs, h2.errs]; exact h.errs
  · intro hs
    simp only [altRel, h1.alt, h2.alt, (hold hs).eq, comb_assoc, h.altEq hs]

theorem Rel.reshelterLeft {old1 : Option Loc} {a a' c : St} (h : Rel (comb o (old1.map Loc.sh)) s a c)
    (h1 : Reshelter old1 a a') : Rel o s a' c := by
  refine ⟨by rw [h1.pos, h.pos], by rw [h1.insp, h.insp], by rw [h1.ctx, h.ctx], ?_, ?_⟩
  · simp only [errRel, h1.errs]; exact h.errs
  · intro hs
    simp only [altRel, h1.alt, (h.alt hs).eq, comb_assoc]

theorem Reshelter.isSome_of_new {old : Option Loc} {st st' : St} (h : Reshelter old st st') (hn : st.alt.isSome = true) :
    st'.alt.isSome = true := by
  have := comb_isSome_right (old.map Loc.sh) (st.alt.map Loc.sh) (by simpa using hn)
  rw [← h.alt] at this
  simpa using this

theorem readdAlt_reshelter {env : Env} (hk : env.ek ≠ .empty) (old : Option Loc) (st : St) (n : Option Loc)
    (hn : n.map Loc.sh = st.alt.map Loc.sh) : Reshelter old st (St.readdAlt env { st with alt := old } n) :=
  ⟨by simp, by simp, by simp, fun s => by simp, by simp [readdAlt_alt hk, hn]⟩

/-- the `finish` closure of `labelled` -/
def labFinish (env : Env) (l : Nat) (asCtx : Bool) (old : Option Loc) (c : Chk) (st1 : St) : St :=
  let new := st1.alt
  let st2 := { st1 with alt := old }
  let st3 :=
    match new with
    | none => st2
    | some n =>
      let e :=
        if n.pos == c.pos then env.ek.labelWith n.err l
        else if asCtx && n.pos > c.pos then env.ek.inContext n.err l (env.mkSpan c.pos n.pos)
        else n.err
      St.readdAlt env st2 (some ⟨n.pos, e⟩)
  if asCtx then { st3 with errs := ctxSecondary env l c.pos c.errCount st3.errs } else st3

theorem labFinish_reshelter {env : Env} (hk : env.ek ≠ .empty) (l : Nat) (asCtx : Bool) (old : Option Loc) (c : Chk)
    (st1 : St) : Reshelter old st1 (labFinish env l asCtx old c st1) := by
  have h3 : Reshelter old st1 (match st1.alt with
      | none => { st1 with alt := old }
      | some n => St.readdAlt env { st1 with alt := old } (some ⟨n.pos,
          if n.pos == c.pos then env.ek.labelWith n.err l
          else if asCtx && n.pos > c.pos then env.ek.inContext n.err l (env.mkSpan c.pos n.pos)
          else n.err⟩)) := by
    cases hn : st1.alt with
    | none => exact ⟨rfl, rfl, rfl, fun _ => rfl, by simp [hn]⟩
    | some n =>
      have := readdAlt_reshelter hk old st1 (some ⟨n.pos,
          if n.pos == c.pos then env.ek.labelWith n.err l
          else if asCtx && n.pos > c.pos then env.ek.inContext n.err l (env.mkSpan c.pos n.pos)
          else n.err⟩) (by
            simp only [hn, Option.map_some, Loc.sh]
            split
            · simp
            · split <;> simp)
      simpa [hn] using this
  simp only [labFinish]
  cases asCtx with
  | false => simpa using h3
  | true =>
    simp only [if_true]
    exact ⟨h3.pos, h3.insp, h3.ctx, fun s => by simp only [ctxSecondary_shs]; exact h3.errs s, h3.alt⟩

/-! ### loops -/

variable {R1 R2 : Runner} {N1 N2 : NextRunner} {K1 K2 : MkRunner}

theorem choiceTuple_sim (hR : SimR s b dr env1 env2 R1 R2) (m : Mode) (c : Chk) (u : Bool)
    (ho : s = true → u = false → o = none) : ∀ (gs : List G) (st1 st2 : St), Rel o s st1 st2 →
    admL s b dr u gs = true → (gs ≠ [] ∨ (st1.alt.isSome = true ∧ st2.alt.isSome = true)) →
    OutRel o s (choiceTuple R1 env1 m c gs st1) (choiceTuple R2 env2 m c (eraseL b gs) st2) := by
  intro gs
  induction gs with
  | nil =>
    intro st1 st2 hs _ hne
    exact .fail hs (by simpa using hne)
  | cons g gs ih =>
    intro st1 st2 hs hg _
    simp only [admL, Bool.and_eq_true] at hg
    simp only [choiceTuple, eraseL]
    ocases (hR o u m g st1 st2 hs hg.1 ho) with v a' b' hr hsm
    · exact .ok _ hr
    · exact ih _ _ (hr.rewind c) hg.2 (.inr hsm)

theorem choiceSlice_sim (hR : SimR s b dr env1 env2 R1 R2) (m : Mode) (c : Chk) (u : Bool)
    (ho : s = true → u = false → o = none) : ∀ (gs : List G) (st1 st2 : St), Rel o s st1 st2 →
    admL s b dr u gs = true → (gs ≠ [] ∨ (st1.alt.isSome = true ∧ st2.alt.isSome = true)) →
    OutRel o s (choiceSlice R1 env1 m c gs st1) (choiceSlice R2 env2 m c (eraseL b gs) st2) := by
  intro gs
  induction gs with
  | nil =>
    intro st1 st2 hs _ hne
    exact .fail hs (by simpa using hne)
  | cons g gs ih =>
    intro st1 st2 hs hg _
    simp only [admL, Bool.and_eq_true] at hg
    simp only [choiceSlice, eraseL]
    ocases (hR o u m g _ _ (hs.rewind c) hg.1 ho) with v a' b' hr hsm
    · exact .ok _ hr
    · exact ih _ _ hr hg.2 (.inr hsm)

theorem groupLoop_sim (hR : SimR s b dr env1 env2 R1 R2) (m : Mode) (u : Bool)
    (ho : s = true → u = false → o = none) : ∀ (gs : List G) (st1 st2 : St) (acc : List Val), Rel o s st1 st2 →
    admL s b dr u gs = true →
    OutRel o s (groupLoop R1 env1 m gs st1 acc) (groupLoop R2 env2 m (eraseL b gs) st2 acc) := by
  intro gs
  induction gs with
  | nil => intro st1 st2 acc hs _; exact .ok _ hs
  | cons g gs ih =>
    intro st1 st2 acc hs hg
    simp only [admL, Bool.and_eq_true] at hg
    simp only [groupLoop, eraseL]
    ocases (hR o u m g st1 st2 hs hg.1 ho) with v a' b' hr hsm
    · exact ih _ _ _ hr hg.2
    · exact .fail hr hsm

theorem collectLoop_sim (hN : SimN s b dr env1 env2 N1 N2) (m : Mode) (it : It) (k : CollKind) (u : Bool)
    (hi : it.adm s b dr u = true) (ho : s = true → u = false → o = none) :
    ∀ (fuel : Nat) (st1 st2 : St) (ist : ItSt) (acc : List Val) (i : Nat), Rel o s st1 st2 →
    OutRel o s (collectLoop N1 env1 m it k fuel st1 ist acc i) (collectLoop N2 env2 m (it.erase b) k fuel st2 ist acc i) := by
  intro fuel
  induction fuel with
  | zero => intro st1 st2 ist acc i hs; exact .oof
  | succ fuel ih =>
    intro st1 st2 ist acc i hs
    simp only [collectLoop, It.nonconsOk_erase]
    ncases (hN o u m it st1 st2 ist hs hi ho) with v ist' a' b' hr hsm
    · simp only [hr.pos, hs.pos]
      exact OutRel.ite (.panic _) (ih _ _ _ _ _ hr)
    · exact .ok _ hr
    · exact .fail hr hsm

theorem collectExactlyLoop_sim (he : EnvRel s b dr env1 env2) (hN : SimN s b dr env1 env2 N1 N2) (m : Mode) (it : It) (u : Bool)
    (hi : it.adm s b dr u = true) (ho : s = true → u = false → o = none) :
    ∀ (n : Nat) (st1 st2 : St) (ist : ItSt) (acc : List Val), Rel o s st1 st2 →
    OutRel o s (collectExactlyLoop N1 env1 m it n st1 ist acc) (collectExactlyLoop N2 env2 m (it.erase b) n st2 ist acc) := by
  intro n
  induction n with
  | zero => intro st1 st2 ist acc hs; exact .ok _ hs
  | succ n ih =>
    intro st1 st2 ist acc hs
    simp only [collectExactlyLoop]
    ncases (hN o u m it st1 st2 ist hs hi ho) with v ist' a' b' hr hsm
    · exact ih _ _ _ _ hr
    · simp only [peek_eq he hr, he.mkSpan, ← hr.pos]
      exact .fail (hr.addAlt he.ek1 he.ek2 _ _ _) ⟨addAlt_isSome he.ek1 _ _ _ _, addAlt_isSome he.ek2 _ _ _ _⟩
    · exact .fail hr hsm

theorem foldlLoop_sim (hN : SimN s b dr env1 env2 N1 N2) (m : Mode) (it : It) (u : Bool)
    (hi : it.adm s b dr u = true) (ho : s = true → u = false → o = none) (f1 f2 : Val → Val → St → Val)
    (hf : ∀ acc x a b', Rel o s a b' → f1 acc x a = f2 acc x b') :
    ∀ (fuel : Nat) (st1 st2 : St) (ist : ItSt) (acc : Val), Rel o s st1 st2 →
    OutRel o s (foldlLoop N1 env1 m it f1 fuel st1 ist acc) (foldlLoop N2 env2 m (it.erase b) f2 fuel st2 ist acc) := by
  intro fuel
  induction fuel with
  | zero => intro st1 st2 ist acc hs; exact .oof
  | succ fuel ih =>
    intro st1 st2 ist acc hs
    simp only [foldlLoop, It.nonconsOk_erase]
    ncases (hN o u m it st1 st2 ist hs hi ho) with v ist' a' b' hr hsm
    · simp only [hr.pos, hs.pos, hf _ _ _ _ hr]
      exact OutRel.ite (.panic _) (ih _ _ _ _ hr)
    · exact .ok _ hr
    · exact .fail hr hsm

inductive FcRel (o : Option Sh) (s : Bool) :
    (Option (List (Val × Nat) × St)) ⊕ Out → (Option (List (Val × Nat) × St)) ⊕ Out → Prop
  | items (xs : List (Val × Nat)) {a b : St} : Rel o s a b → FcRel o s (.inl (some (xs, a))) (.inl (some (xs, b)))
  | out {x y : Out} : OutRel o s x y → FcRel o s (.inr x) (.inr y)

theorem FcRel.ite {o s} {c : Prop} [Decidable c] {x y x' y'} (h1 : FcRel o s x y) (h2 : FcRel o s x' y') :
    FcRel o s (if c then x else x') (if c then y else y') := by
  by_cases hc : c
  · simp only [if_pos hc]; exact h1
  · simp only [if_neg hc]; exact h2

theorem FcRel.cases {o s x y} (h : FcRel o s x y) :
    (∃ xs a b, x = .inl (some (xs, a)) ∧ y = .inl (some (xs, b)) ∧ Rel o s a b) ∨
    (∃ x' y', x = .inr x' ∧ y = .inr y' ∧ OutRel o s x' y') := by
  cases h with
  | items xs h => exact .inl ⟨xs, _, _, rfl, rfl, h⟩
  | out h => exact .inr ⟨_, _, rfl, rfl, h⟩

theorem foldrCollect_sim (hN : SimN s b dr env1 env2 N1 N2) (m : Mode) (it : It) (u : Bool)
    (hi : it.adm s b dr u = true) (ho : s = true → u = false → o = none) :
    ∀ (fuel : Nat) (st1 st2 : St) (ist : ItSt) (acc : List (Val × Nat)), Rel o s st1 st2 →
    FcRel o s (foldrCollect N1 env1 m it fuel st1 ist acc) (foldrCollect N2 env2 m (it.erase b) fuel st2 ist acc) := by
  intro fuel
  induction fuel with
  | zero => intro st1 st2 ist acc hs; exact .out .oof
  | succ fuel ih =>
    intro st1 st2 ist acc hs
    simp only [foldrCollect, It.nonconsOk_erase]
    rcases ItRel.cases (hN o u m it st1 st2 ist hs hi ho) with ⟨v, ist', a', b', e1, e2, hr⟩ | ⟨ist', a', b', e1, e2, hr⟩ |
      ⟨a', b', e1, e2, hr, hsm⟩ | ⟨w, e1, e2⟩ | ⟨e1, e2⟩ <;> simp only [e1, e2]
    · simp only [hr.pos, hs.pos]
      exact FcRel.ite (.out (.panic _)) (ih _ _ _ _ hr)
    · exact .items _ hr
    · exact .out (.fail hr hsm)
    · exact .out (.panic _)
    · exact .out .oof

theorem repeatFast_sim (hR : SimR s b dr env1 env2 R1 R2) (a : G) (u : Bool)
    (hg : a.adm s b dr u = true) (ho : s = true → u = false → o = none) :
    ∀ (fuel : Nat) (st1 st2 : St), Rel o s st1 st2 →
    OutRel o s (repeatFast R1 env1 a fuel st1) (repeatFast R2 env2 (a.erase b) fuel st2) := by
  intro fuel
  induction fuel with
  | zero => intro st1 st2 hs; exact .oof
  | succ fuel ih =>
    intro st1 st2 hs
    simp only [repeatFast, ← hs.save]
    ocases (hR o u .check a st1 st2 hs hg ho) with v a' b' hr hsm
    · simp only [hr.pos, hs.pos]
      exact OutRel.ite (.panic _) (ih _ _ hr)
    · exact .ok _ (hr.rewind _)

theorem iterLoop_sim (hN : SimN s b dr env1 env2 N1 N2) (it : It) (ap : Bool) (u : Bool)
    (hi : it.adm s b dr u = true) (ho : s = true → u = false → o = none) :
    ∀ (fuel : Nat) (st1 st2 : St) (ist : ItSt), Rel o s st1 st2 →
    OutRel o s (iterLoop N1 env1 it ap fuel st1 ist) (iterLoop N2 env2 (it.erase b) ap fuel st2 ist) := by
  intro fuel
  induction fuel with
  | zero => intro st1 st2 ist hs; exact .oof
  | succ fuel ih =>
    intro st1 st2 ist hs
    simp only [iterLoop]
    ncases (hN o u .check it st1 st2 ist hs hi ho) with v ist' a' b' hr hsm
    · simp only [hr.pos, hs.pos]
      exact OutRel.ite (.panic _) (ih _ _ _ hr)
    · exact .ok _ hr
    · exact .fail hr hsm

/-! ### recovery loops (the pending error `x1`/`x2` was taken out; inner parsers run from `alt = none`) -/

theorem skipUntilLoop_sim (hR : SimR s b dr env1 env2 R1 R2) (m : Mode) (skip until_ : G) (fb : Val) (x1 x2 : Loc)
    (u : Bool) (hsk : skip.adm s b dr u = true) (hun : until_.adm s b dr u = true)
    (hos : s = true → o = none) (hx : s = true → altRel o (some x1) (some x2))
    (hsp : ∀ p, Loc.shs s ⟨p, x1.err⟩ = Loc.shs s ⟨p, x2.err⟩) :
    ∀ (fuel : Nat) (st1 st2 : St), Rel none s st1 st2 →
    OutRel o s (skipUntilLoop R1 env1 m skip until_ fb x1 fuel st1)
      (skipUntilLoop R2 env2 m (skip.erase b) (until_.erase b) fb x2 fuel st2) := by
  intro fuel
  induction fuel with
  | zero => intro st1 st2 hs; exact .oof
  | succ fuel ih =>
    intro st1 st2 hs
    simp only [skipUntilLoop, ← hs.save]
    ocases (hR none u .check until_ st1 st2 hs hun (fun _ _ => rfl)) with v a1 c1 hr hsm
    · simp only [← hr.pos]
      exact .ok _ ((hr.changeO (fun h => (hos h).symm)).emit _ (hsp _))
    · ocases (hR none u .check skip _ _ (hr.rewind st1.save) hsk (fun _ _ => rfl)) with v a3 c3 hr3 hsm3
      · exact ih _ _ hr3
      · exact .fail (hr3.setAlt hx) ⟨rfl, rfl⟩

theorem skipRetryLoop_sim (hR : SimR s b dr env1 env2 R1 R2) (m : Mode) (a skip until_ : G) (x1 x2 : Loc)
    (u : Bool) (ha : a.adm s b dr u = true) (hsk : skip.adm s b dr u = true) (hun : until_.adm s b dr u = true)
    (hos : s = true → o = none) (hx : s = true → altRel o (some x1) (some x2))
    (hsp : ∀ p, Loc.shs s ⟨p, x1.err⟩ = Loc.shs s ⟨p, x2.err⟩) :
    ∀ (fuel : Nat) (st1 st2 : St), Rel none s st1 st2 →
    OutRel o s (skipRetryLoop R1 env1 m a skip until_ x1 fuel st1)
      (skipRetryLoop R2 env2 m (a.erase b) (skip.erase b) (until_.erase b) x2 fuel st2) := by
  intro fuel
  induction fuel with
  | zero => intro st1 st2 hs; exact .oof
  | succ fuel ih =>
    intro st1 st2 hs
    simp only [skipRetryLoop, ← hs.save]
    ocases (hR none u .check until_ st1 st2 hs hun (fun _ _ => rfl)) with v a1 c1 hr hsm
    · exact .fail ((hr.setAlt hx).rewind _) ⟨rfl, rfl⟩
    · ocases (hR none u .check skip _ _ (hr.rewind st1.save) hsk (fun _ _ => rfl)) with v a3 c3 hr3 hsm3
      · simp only [← hr3.save]
        ocases (hR none u m a _ _ hr3 ha (fun _ _ => rfl)) with v a4 c4 hr4 hsm4
        · simp only [← hr4.errs.length, ← hr4.pos]
          exact OutRel.ite (.ok _ ((hr4.changeO (fun h => (hos h).symm)).emit _ (hsp _))) (ih _ _ (hr4.altNone.rewind _))
        · exact ih _ _ (hr4.altNone.rewind _)
      · exact .fail (hr3.setAlt hx) ⟨rfl, rfl⟩

end
/-! ### the step functions -/

section
variable {s b dr : Bool} {env1 env2 : Env} {R1 R2 : Runner} {N1 N2 : NextRunner} {K1 K2 : MkRunner}

theorem some_of_isSome {α} {x : Option α} (h : x.isSome = true) : ∃ y, x = some y := by
  cases x with
  | none => cases h
  | some y => exact ⟨y, rfl⟩

/-- the pending errors taken out by a recovery strategy are emitted with the same shape -/
theorem Rel.takenShs {o} {a c : St} (h : Rel o s a c) (hos : s = true → o = none) {x1 x2 : Loc}
    (h1 : a.alt = some x1) (h2 : c.alt = some x2) (p : Nat) : Loc.shs s ⟨p, x1.err⟩ = Loc.shs s ⟨p, x2.err⟩ := by
  cases s with
  | false => rfl
  | true =>
    have := (h.alt rfl).eq
    rw [h1, h2, hos rfl] at this
    simp only [Option.map_some, comb_none_left, Option.some.injEq, Loc.sh, Prod.mk.injEq] at this
    simp [Loc.shs, this.2]

theorem Rel.takenAlt {o} {a c : St} (h : Rel o s a c) {x1 x2 : Loc}
    (h1 : a.alt = some x1) (h2 : c.alt = some x2) : s = true → altRel o (some x1) (some x2) := by
  intro hs
  have := h.alt hs
  rwa [h1, h2] at this

theorem Rel.setAltLog {o o'} {a c : St} (h : Rel o s a c) {x y : Option Loc} (hxy : s = true → altRel o' x y)
    (l1 l2 : List Loc) : Rel o' s { a with alt := x, log := l1 } { c with alt := y, log := l2 } :=
  ⟨h.pos, h.insp, h.ctx, h.errs, hxy⟩

theorem step_sim (he : EnvRel s b dr env1 env2) (hR : SimR s b dr env1 env2 R1 R2) (hN : SimN s b dr env1 env2 N1 N2)
    (hK : SimK s b dr env1 env2 K1 K2) (L : Nat) : SimR s b dr env1 env2 (step R1 N1 K1 L) (step R2 N2 K2 L) := by
  intro o u m g st1 st2 hs hg ho
  have hn := next_snd he hs
  have hu : ∀ sp msg, (env1.ek.userErr sp msg).span = (env2.ek.userErr sp msg).span := by
    intro sp msg; rw [ErrKind.userErr_span he.ek1, ErrKind.userErr_span he.ek2]
  have hus : ∀ p sp msg, Loc.shs s ⟨p, env1.ek.userErr sp msg⟩ = Loc.shs s ⟨p, env2.ek.userErr sp msg⟩ := by
    intro p sp msg; simp [Loc.shs, hu]
  have hsp : ∀ {o' : Option Sh} {x y : St}, Rel o' s x y → env2.mkSpan st2.pos y.pos = env1.mkSpan st1.pos x.pos := by
    intro o' x y h; rw [he.mkSpan, hs.pos, h.pos]
  cases g with
  | end_ =>
    simp only [G.erase, step, next_fst he hs, ← hs.save, he.mkSpan, ← hn.pos]
    cases (St.next env1 st1).1 with
    | none => exact .ok _ hn
    | some t => exact .fail ((hn.rewind _).addAlt he.ek1 he.ek2 _ _ _) ⟨addAlt_isSome he.ek1 _ _ _ _, addAlt_isSome he.ek2 _ _ _ _⟩
  | empty => exact .ok _ hs
  | any => exact tokenPrim_sim he hs _ _ _
  | just ts => simp only [G.erase, step]; exact justStep_sim he ts hs _
  | oneOf ts => exact tokenPrim_sim he hs _ _ _
  | noneOf ts => exact tokenPrim_sim he hs _ _ _
  | select ts => exact tokenPrim_sim he hs _ _ _
  | custom f => exact runCustom_sim he hs _ _
  | todo => exact .panic _
  | then_ a c =>
    simp only [G.adm, Bool.and_eq_true] at hg
    simp only [G.erase, step]
    ocases (hR o u m a st1 st2 hs hg.1 ho) with va a1 c1 hr hsm
    · ocases (hR o u m c a1 c1 hr hg.2 ho) with vb a2 c2 hr2 hsm2
      · exact .ok _ hr2
      · exact .fail hr2 hsm2
    · exact .fail hr hsm
  | ignoreThen a c =>
    simp only [G.adm, Bool.and_eq_true] at hg
    simp only [G.erase, step]
    ocases (hR o u .check a st1 st2 hs hg.1 ho) with va a1 c1 hr hsm
    · ocases (hR o u m c a1 c1 hr hg.2 ho) with vb a2 c2 hr2 hsm2
      · exact .ok _ hr2
      · exact .fail hr2 hsm2
    · exact .fail hr hsm
  | thenIgnore a c =>
    simp only [G.adm, Bool.and_eq_true] at hg
    simp only [G.erase, step]
    ocases (hR o u m a st1 st2 hs hg.1 ho) with va a1 c1 hr hsm
    · ocases (hR o u .check c a1 c1 hr hg.2 ho) with vb a2 c2 hr2 hsm2
      · exact .ok _ hr2
      · exact .fail hr2 hsm2
    · exact .fail hr hsm
  | delimitedBy a l r =>
    simp only [G.adm, Bool.and_eq_true] at hg
    simp only [G.erase, step]
    ocases (hR o u .check l st1 st2 hs hg.1.2 ho) with va a1 c1 hr hsm
    · ocases (hR o u m a a1 c1 hr hg.1.1 ho) with vb a2 c2 hr2 hsm2
      · ocases (hR o u .check r a2 c2 hr2 hg.2 ho) with vc a3 c3 hr3 hsm3
        · exact .ok _ hr3
        · exact .fail hr3 hsm3
      · exact .fail hr2 hsm2
    · exact .fail hr hsm
  | paddedBy a p =>
    simp only [G.adm, Bool.and_eq_true] at hg
    simp only [G.erase, step]
    ocases (hR o u .check p st1 st2 hs hg.2 ho) with va a1 c1 hr hsm
    · ocases (hR o u m a a1 c1 hr hg.1 ho) with vb a2 c2 hr2 hsm2
      · ocases (hR o u .check p a2 c2 hr2 hg.2 ho) with vc a3 c3 hr3 hsm3
        · exact .ok _ hr3
        · exact .fail hr3 hsm3
      · exact .fail hr2 hsm2
    · exact .fail hr hsm
  | group gs =>
    simp only [G.adm] at hg
    simp only [G.erase, step]
    exact groupLoop_sim hR m u ho gs st1 st2 [] hs hg
  | groupArr gs =>
    simp only [G.adm] at hg
    simp only [G.erase, step]
    exact groupLoop_sim hR m u ho gs st1 st2 [] hs hg
  | or_ a c =>
    simp only [G.adm, Bool.and_eq_true] at hg
    simp only [G.erase, step, ← hs.save]
    have := choiceTuple_sim hR m st1.save u ho [a, c] st1 st2 hs (by simp [admL, hg.1, hg.2]) (.inl (by simp))
    simpa only [eraseL] using this
  | choice fl gs =>
    simp only [G.adm] at hg
    cases fl with
    | tuple =>
      cases gs with
      | nil => exact .panic _
      | cons g gs =>
        cases gs with
        | nil =>
          simp only [admL, Bool.and_eq_true] at hg
          simp only [G.erase, eraseL, step]
          exact hR o u m g st1 st2 hs hg.1 ho
        | cons g2 gs =>
          have := choiceTuple_sim hR m st1.save u ho (g :: g2 :: gs) st1 st2 hs hg (.inl (by simp))
          simp only [eraseL] at this
          simp only [G.erase, eraseL, step, ← hs.save]
          exact this
    | slice =>
      cases gs with
      | nil =>
        simp only [G.erase, eraseL, step, he.mkSpan, ← hs.pos]
        exact .fail (hs.addAlt he.ek1 he.ek2 _ _ _) ⟨addAlt_isSome he.ek1 _ _ _ _, addAlt_isSome he.ek2 _ _ _ _⟩
      | cons g gs =>
        have := choiceSlice_sim hR m st1.save u ho (g :: gs) st1 st2 hs hg (.inl (by simp))
        simp only [eraseL] at this
        simp only [G.erase, eraseL, step, ← hs.save]
        exact this
  | orNot a =>
    simp only [G.adm] at hg
    simp only [G.erase, step, ← hs.save]
    ocases (hR o u m a st1 st2 hs hg ho) with v a1 c1 hr hsm
    · exact .ok _ hr
    · exact .ok _ (hr.rewind _)
  | not_ a =>
    simp only [G.adm] at hg
    simp only [G.erase, step, ← hs.save]
    ocases (hR none u .check a _ _ hs.altNone hg (fun _ _ => rfl)) with v a1 c1 hr hsm
    · have h2 : Rel o s { a1.rewind st1.save with alt := st1.alt } { c1.rewind st1.save with alt := st2.alt } :=
        (hr.rewind _).setAlt hs.alt
      have hn2 := next_snd he h2
      simp only [he.mkSpan, ← hr.pos, next_fst he h2]
      exact .fail (hn2.addAlt he.ek1 he.ek2 _ _ _) ⟨addAlt_isSome he.ek1 _ _ _ _, addAlt_isSome he.ek2 _ _ _ _⟩
    · exact .ok _ ((hr.rewind _).setAlt hs.alt)
  | andIs a c =>
    simp only [G.adm, Bool.and_eq_true] at hg
    simp only [G.erase, step, ← hs.save]
    ocases (hR o u m a st1 st2 hs hg.1 ho) with v a1 c1 hr hsm
    · simp only [← hr.save]
      ocases (hR o u .check c _ _ (hr.rewindInput st1.save) hg.2 ho) with v2 a2 c2 hr2 hsm2
      · exact .ok _ (hr2.rewindInput _)
      · exact .fail hr2 hsm2
    · exact .fail (hr.rewind _) hsm
  | rewind a =>
    simp only [G.adm] at hg
    simp only [G.erase, step, ← hs.save]
    ocases (hR o u m a st1 st2 hs hg ho) with v a1 c1 hr hsm
    · exact .ok _ (hr.rewindInput _)
    · exact .fail hr hsm
  | map f a =>
    simp only [G.adm] at hg
    simp only [G.erase, step]
    ocases (hR o u m a st1 st2 hs hg ho) with v a1 c1 hr hsm
    · exact .ok _ hr
    · exact .fail hr hsm
  | to v a =>
    simp only [G.adm] at hg
    simp only [G.erase, step]
    ocases (hR o u .check a st1 st2 hs hg ho) with v a1 c1 hr hsm
    · exact .ok _ hr
    · exact .fail hr hsm
  | ignored a =>
    simp only [G.adm] at hg
    simp only [G.erase, step]
    ocases (hR o u .check a st1 st2 hs hg ho) with v a1 c1 hr hsm
    · exact .ok _ hr
    · exact .fail hr hsm
  | filter p a =>
    simp only [G.adm] at hg
    simp only [G.erase, step, ← hs.save]
    ocases (hR o u .emit a st1 st2 hs hg ho) with v a1 c1 hr hsm
    · simp only [he.mkSpan, ← hr.pos, peek_eq he (hr.rewind st1.save)]
      exact OutRel.ite (.ok _ hr) (.fail ((hr.rewind _).addAlt he.ek1 he.ek2 _ _ _)
        ⟨addAlt_isSome he.ek1 _ _ _ _, addAlt_isSome he.ek2 _ _ _ _⟩)
    · exact .fail hr hsm
  | tryMap f a =>
    simp only [G.adm] at hg
    simp only [G.erase, step]
    ocases (hR none u .emit a _ _ hs.altNone hg (fun _ _ => rfl)) with v a1 c1 hr hsm
    · simp only [hsp hr]; simp only [← hs.pos]
      refine OutRel.ite (.fail (Rel.addAltErr he.ek1 he.ek2 (hr.setAltLog hs.alt _ _) _ (hu _ _))
        ⟨addAltErr_isSome he.ek1 _ _ _, addAltErr_isSome he.ek2 _ _ _⟩) (.ok _ ?_)
      exact hr.reshelter (readdAlt_reshelter he.ek1 _ _ _ rfl) (readdAlt_reshelter he.ek2 _ _ _ rfl) hs.alt
    · have h1 := readdAlt_reshelter he.ek1 st1.alt a1 a1.alt rfl
      have h2 := readdAlt_reshelter he.ek2 st2.alt c1 c1.alt rfl
      exact .fail (hr.reshelter h1 h2 hs.alt) ⟨h1.isSome_of_new hsm.1, h2.isSome_of_new hsm.2⟩
  | tryMapWith f a =>
    simp only [G.adm] at hg
    simp only [G.erase, step, ← hs.pos]
    ocases (hR o u .emit a st1 st2 hs hg ho) with v a1 c1 hr hsm
    · simp only [he.mkSpan, ← hr.pos]
      exact OutRel.ite (.fail (hr.addAltErr he.ek1 he.ek2 _ (hu _ _))
        ⟨addAltErr_isSome he.ek1 _ _ _, addAltErr_isSome he.ek2 _ _ _⟩) (.ok _ hr)
    · exact .fail hr hsm
  | toSpan a =>
    simp only [G.adm] at hg
    simp only [G.erase, step, ← hs.pos, he.mkSpan]
    ocases (hR o u m a st1 st2 hs hg ho) with v a1 c1 hr hsm
    · simp only [← hr.pos]; exact .ok _ hr
    · exact .fail hr hsm
  | toSlice a =>
    simp only [G.adm] at hg
    simp only [G.erase, step, ← hs.pos, he.off]
    ocases (hR o u .check a st1 st2 hs hg ho) with v a1 c1 hr hsm
    · simp only [← hr.pos]; exact .ok _ hr
    · exact .fail hr hsm
  | mapWithSpan a =>
    simp only [G.adm] at hg
    simp only [G.erase, step, ← hs.pos, he.mkSpan]
    ocases (hR o u m a st1 st2 hs hg ho) with v a1 c1 hr hsm
    · simp only [← hr.pos]; exact .ok _ hr
    · exact .fail hr hsm
  | mapWithState a =>
    simp only [G.adm] at hg
    simp only [G.erase, step]
    ocases (hR o u m a st1 st2 hs hg ho) with v a1 c1 hr hsm
    · simp only [← hr.insp]; exact .ok _ hr
    · exact .fail hr hsm
  | mapWithCtx a =>
    simp only [G.adm] at hg
    simp only [G.erase, step]
    ocases (hR o u m a st1 st2 hs hg ho) with v a1 c1 hr hsm
    · simp only [← hr.ctx]; exact .ok _ hr
    · exact .fail hr hsm
  | validate f a =>
    simp only [G.adm] at hg
    simp only [G.erase, step]
    ocases (hR o u .emit a st1 st2 hs hg ho) with v a1 c1 hr hsm
    · simp only [hsp hr]; simp only [← hs.pos]
      refine .ok _ ?_
      by_cases hc : f.emitIf.eval v = true
      · simp only [hc, if_true]
        exact hr.setErrs (hr.errs.append (errRel.replicate (hus _ _ _) _))
      · simp only [hc, if_false]; exact hr
    · exact .fail hr hsm
  | collect k it =>
    simp only [G.adm] at hg
    simp only [G.erase, step]
    kcases (hK o u m it st1 st2 hs hg ho) with ist a1 c1 hr hsm
    · exact collectLoop_sim hN m it k u hg ho L a1 c1 ist [] 0 hr
    · exact .fail hr hsm
  | collectExactly n it =>
    simp only [G.adm] at hg
    simp only [G.erase, step]
    kcases (hK o u m it st1 st2 hs hg ho) with ist a1 c1 hr hsm
    · exact collectExactlyLoop_sim he hN m it u hg ho n a1 c1 ist [] hr
    · exact .fail hr hsm
  | foldl f a it =>
    simp only [G.adm, Bool.and_eq_true] at hg
    simp only [G.erase, step]
    ocases (hR o u m a st1 st2 hs hg.1 ho) with va a1 c1 hr hsm
    · kcases (hK o u m it a1 c1 hr hg.2 ho) with ist a2 c2 hr2 hsm2
      · exact foldlLoop_sim hN m it u hg.2 ho (fun acc x _ => f.evalL acc x) (fun acc x _ => f.evalL acc x)
          (fun _ _ _ _ _ => rfl) L a2 c2 ist va hr2
      · exact .fail hr2 hsm2
    · exact .fail hr hsm
  | foldlWith a it =>
    simp only [G.adm, Bool.and_eq_true] at hg
    simp only [G.erase, step, he.mkSpan, ← hs.pos]
    ocases (hR o u m a st1 st2 hs hg.1 ho) with va a1 c1 hr hsm
    · kcases (hK o u m it a1 c1 hr hg.2 ho) with ist a2 c2 hr2 hsm2
      · refine foldlLoop_sim hN m it u hg.2 ho _ _ ?_ L a2 c2 ist va hr2
        intro _ _ _ _ h; simp only [h.pos]
      · exact .fail hr2 hsm2
    · exact .fail hr hsm
  | foldr f it c =>
    simp only [G.adm, Bool.and_eq_true] at hg
    simp only [G.erase, step]
    kcases (hK o u m it st1 st2 hs hg.1 ho) with ist a1 c1 hr hsm
    · rcases FcRel.cases (foldrCollect_sim hN m it u hg.1 ho L a1 c1 ist [] hr) with
        ⟨xs, a2, c2, e1, e2, hr2⟩ | ⟨x', y', e1, e2, hxy⟩ <;> simp only [e1, e2]
      · ocases (hR o u m c a2 c2 hr2 hg.2 ho) with vb a3 c3 hr3 hsm3
        · exact .ok _ hr3
        · exact .fail hr3 hsm3
      · exact hxy
    · exact .fail hr hsm
  | foldrWith it c =>
    simp only [G.adm, Bool.and_eq_true] at hg
    simp only [G.erase, step, he.mkSpan]
    kcases (hK o u m it st1 st2 hs hg.1 ho) with ist a1 c1 hr hsm
    · rcases FcRel.cases (foldrCollect_sim hN m it u hg.1 ho L a1 c1 ist [] hr) with
        ⟨xs, a2, c2, e1, e2, hr2⟩ | ⟨x', y', e1, e2, hxy⟩ <;> simp only [e1, e2]
      · ocases (hR o u m c a2 c2 hr2 hg.2 ho) with vb a3 c3 hr3 hsm3
        · simp only [← hr3.pos]; exact .ok _ hr3
        · exact .fail hr3 hsm3
      · exact hxy
    · exact .fail hr hsm
  | iterP it =>
    simp only [G.adm] at hg
    cases it with
    | repeated a lo hi =>
      have hk := hK o u .check (.repeated a lo hi) st1 st2 hs hg ho
      have hl := fun x y ist h => iterLoop_sim (o := o) hN (.repeated a lo hi) true u hg ho L x y ist h
      simp only [It.erase] at hk hl
      cases lo with
      | zero =>
        cases hi with
        | none =>
          simp only [It.adm] at hg
          simp only [G.erase, It.erase, step]
          exact repeatFast_sim hR a u hg ho L st1 st2 hs
        | some h =>
          simp only [G.erase, It.erase, step]
          kcases hk with ist a1 c1 hr hsm
          · exact hl _ _ _ hr
          · exact .fail hr hsm
      | succ lo =>
        simp only [G.erase, It.erase, step]
        kcases hk with ist a1 c1 hr hsm
        · exact hl _ _ _ hr
        · exact .fail hr hsm
    | separatedBy a sep lo hi lead trail =>
      have hk := hK o u .check (.separatedBy a sep lo hi lead trail) st1 st2 hs hg ho
      have hl := fun x y ist h => iterLoop_sim (o := o) hN (.separatedBy a sep lo hi lead trail) true u hg ho L x y ist h
      simp only [It.erase] at hk hl
      simp only [G.erase, It.erase, step]
      kcases hk with ist a1 c1 hr hsm
      · exact hl _ _ _ hr
      · exact .fail hr hsm
    | configureRep c inner =>
      have hk := hK o u .check (.configureRep c inner) st1 st2 hs hg ho
      have hl := fun x y ist h => iterLoop_sim (o := o) hN (.configureRep c inner) false u hg ho L x y ist h
      simp only [It.erase] at hk hl
      simp only [G.erase, It.erase, step]
      kcases hk with ist a1 c1 hr hsm
      · exact hl _ _ _ hr
      · exact .fail hr hsm
    | tryConfigureRep c inner =>
      have hk := hK o u .check (.tryConfigureRep c inner) st1 st2 hs hg ho
      have hl := fun x y ist h => iterLoop_sim (o := o) hN (.tryConfigureRep c inner) false u hg ho L x y ist h
      simp only [It.erase] at hk hl
      simp only [G.erase, It.erase, step]
      kcases hk with ist a1 c1 hr hsm
      · exact hl _ _ _ hr
      · exact .fail hr hsm
    | intoIter a =>
      simp only [It.adm] at hg
      simp only [G.erase, It.erase, step]
      ocases (hR o u .check a st1 st2 hs hg ho) with v a1 c1 hr hsm
      · exact .ok _ hr
      · exact .fail hr hsm
    | enumerate _ => exact .panic _
    | orNotIt _ => exact .panic _
    | thenIt _ _ => exact .panic _
    | mapIt _ _ => exact .panic _
  | recoverVia a r =>
    simp only [G.adm, Bool.and_eq_true, Bool.or_eq_true, Bool.not_eq_eq_eq_not, Bool.not_true] at hg
    have hos : s = true → o = none := fun h => ho h (by
      rcases hg.1.1 with h' | h'
      · rw [h] at h'; cases h'
      · exact h')
    simp only [G.erase, step, ← hs.save]
    ocases (hR o u m a st1 st2 hs hg.1.2 ho) with v a1 c1 hr hsm
    · exact .ok _ hr
    · obtain ⟨x1, hx1⟩ := some_of_isSome hsm.1
      obtain ⟨x2, hx2⟩ := some_of_isSome hsm.2
      have hx1' : (a1.rewind st1.save).alt = some x1 := hx1
      have hx2' : (c1.rewind st1.save).alt = some x2 := hx2
      simp only [hx1', hx2']
      ocases (hR none u m r _ _ (hr.rewind st1.save).altNone hg.2 (fun _ _ => rfl)) with v a3 c3 hr3 hsm3
      · simp only [← hr3.pos]
        exact .ok _ ((hr3.changeO (fun h => (hos h).symm)).emit _ (hr.takenShs hos hx1 hx2 _))
      · exact .fail ((hr3.setAlt (hr.takenAlt hx1 hx2)).rewind _) ⟨rfl, rfl⟩
  | recoverSkipUntil a skip until_ fb =>
    simp only [G.adm, Bool.and_eq_true, Bool.or_eq_true, Bool.not_eq_eq_eq_not, Bool.not_true] at hg
    have hos : s = true → o = none := fun h => ho h (by
      rcases hg.1.1.1 with h' | h'
      · rw [h] at h'; cases h'
      · exact h')
    simp only [G.erase, step, ← hs.save]
    ocases (hR o u m a st1 st2 hs hg.1.1.2 ho) with v a1 c1 hr hsm
    · exact .ok _ hr
    · obtain ⟨x1, hx1⟩ := some_of_isSome hsm.1
      obtain ⟨x2, hx2⟩ := some_of_isSome hsm.2
      have hx1' : (a1.rewind st1.save).alt = some x1 := hx1
      have hx2' : (c1.rewind st1.save).alt = some x2 := hx2
      simp only [hx1', hx2']
      ocases (skipUntilLoop_sim hR m skip until_ fb x1 x2 u hg.1.2 hg.2 hos (hr.takenAlt hx1 hx2)
        (hr.takenShs hos hx1 hx2) L _ _ (hr.rewind st1.save).altNone) with v a3 c3 hr3 hsm3
      · exact .ok _ hr3
      · exact .fail (hr3.rewind _) hsm3
  | recoverSkipRetry a skip until_ =>
    simp only [G.adm, Bool.and_eq_true, Bool.or_eq_true, Bool.not_eq_eq_eq_not, Bool.not_true] at hg
    have hos : s = true → o = none := fun h => ho h (by
      rcases hg.1.1.1 with h' | h'
      · rw [h] at h'; cases h'
      · exact h')
    simp only [G.erase, step, ← hs.save]
    ocases (hR o u m a st1 st2 hs hg.1.1.2 ho) with v a1 c1 hr hsm
    · exact .ok _ hr
    · obtain ⟨x1, hx1⟩ := some_of_isSome hsm.1
      obtain ⟨x2, hx2⟩ := some_of_isSome hsm.2
      have hx1' : (a1.rewind st1.save).alt = some x1 := hx1
      have hx2' : (c1.rewind st1.save).alt = some x2 := hx2
      simp only [hx1', hx2']
      ocases (skipRetryLoop_sim hR m a skip until_ x1 x2 u hg.1.1.2 hg.1.2 hg.2 hos (hr.takenAlt hx1 hx2)
        (hr.takenShs hos hx1 hx2) L _ _ (hr.rewind st1.save).altNone) with v a3 c3 hr3 hsm3
      · exact .ok _ hr3
      · exact .fail (hr3.rewind _) hsm3
  | labelled l asCtx a =>
    simp only [G.adm] at hg
    cases b with
    | false =>
      simp only [Bool.or_false] at hg
      simp only [G.erase, step, Bool.false_eq_true, if_false, ← hs.save]
      ocases (hR none u m a _ _ hs.altNone hg (fun _ _ => rfl)) with v a1 c1 hr hsm
      · exact .ok _ (hr.reshelter (labFinish_reshelter he.ek1 l asCtx st1.alt st1.save a1)
          (labFinish_reshelter he.ek2 l asCtx st2.alt st1.save c1) hs.alt)
      · have h1 := labFinish_reshelter he.ek1 l asCtx st1.alt st1.save a1
        have h2 := labFinish_reshelter he.ek2 l asCtx st2.alt st1.save c1
        exact .fail (hr.reshelter h1 h2 hs.alt) ⟨h1.isSome_of_new hsm.1, h2.isSome_of_new hsm.2⟩
    | true =>
      simp only [Bool.or_true] at hg
      simp only [G.erase, step, if_true]
      ocases (hR _ true m a _ _ hs.altNoneLeft hg (fun _ h => by cases h)) with v a1 c1 hr hsm
      · exact .ok _ (hr.reshelterLeft (labFinish_reshelter he.ek1 l asCtx st1.alt st1.save a1))
      · have h1 := labFinish_reshelter he.ek1 l asCtx st1.alt st1.save a1
        exact .fail (hr.reshelterLeft h1) ⟨h1.isSome_of_new hsm.1, hsm.2⟩
  | mapErr k a =>
    simp only [G.adm] at hg
    cases b with
    | false =>
      simp only [Bool.or_false] at hg
      simp only [G.erase, step, Bool.false_eq_true, if_false]
      ocases (hR none u m a _ _ hs.altNone hg (fun _ _ => rfl)) with v a1 c1 hr hsm
      · exact .ok _ (hr.reshelter (readdAlt_reshelter he.ek1 _ _ _ rfl) (readdAlt_reshelter he.ek2 _ _ _ rfl) hs.alt)
      · obtain ⟨x1, hx1⟩ := some_of_isSome hsm.1
        obtain ⟨x2, hx2⟩ := some_of_isSome hsm.2
        simp only [hx1, hx2]
        have h1 := readdAlt_reshelter he.ek1 st1.alt a1 (some ⟨x1.pos, env1.ek.labelWith x1.err k⟩) (by simp [hx1, Loc.sh])
        have h2 := readdAlt_reshelter he.ek2 st2.alt c1 (some ⟨x2.pos, env2.ek.labelWith x2.err k⟩) (by simp [hx2, Loc.sh])
        exact .fail (hr.reshelter h1 h2 hs.alt) ⟨h1.isSome_of_new hsm.1, h2.isSome_of_new hsm.2⟩
    | true =>
      simp only [Bool.or_true] at hg
      simp only [G.erase, step, if_true]
      ocases (hR _ true m a _ _ hs.altNoneLeft hg (fun _ h => by cases h)) with v a1 c1 hr hsm
      · exact .ok _ (hr.reshelterLeft (readdAlt_reshelter he.ek1 _ _ _ rfl))
      · obtain ⟨x1, hx1⟩ := some_of_isSome hsm.1
        simp only [hx1]
        have h1 := readdAlt_reshelter he.ek1 st1.alt a1 (some ⟨x1.pos, env1.ek.labelWith x1.err k⟩) (by simp [hx1, Loc.sh])
        exact .fail (hr.reshelterLeft h1) ⟨h1.isSome_of_new hsm.1, hsm.2⟩
  | withCtx cv a =>
    simp only [G.adm] at hg
    simp only [G.erase, step]
    ocases (hR o u m a _ _ (hs.setCtx cv) hg ho) with v a1 c1 hr hsm
    · simp only [← hs.ctx]; exact .ok _ (hr.setCtx _)
    · simp only [← hs.ctx]; exact .fail (hr.setCtx _) hsm
  | ignoreWithCtx a c =>
    simp only [G.adm, Bool.and_eq_true] at hg
    simp only [G.erase, step]
    ocases (hR o u .emit a st1 st2 hs hg.1 ho) with va a1 c1 hr hsm
    · ocases (hR o u m c _ _ (hr.setCtx va) hg.2 ho) with vb a2 c2 hr2 hsm2
      · simp only [← hs.ctx]; exact .ok _ (hr2.setCtx _)
      · simp only [← hs.ctx]; exact .fail (hr2.setCtx _) hsm2
    · exact .fail hr hsm
  | thenWithCtx a c =>
    simp only [G.adm, Bool.and_eq_true] at hg
    simp only [G.erase, step]
    ocases (hR o u .emit a st1 st2 hs hg.1 ho) with va a1 c1 hr hsm
    · ocases (hR o u m c _ _ (hr.setCtx va) hg.2 ho) with vb a2 c2 hr2 hsm2
      · simp only [← hs.ctx]; exact .ok _ (hr2.setCtx _)
      · simp only [← hs.ctx]; exact .fail (hr2.setCtx _) hsm2
    · exact .fail hr hsm
  | mapCtx f a =>
    simp only [G.adm] at hg
    simp only [G.erase, step]
    have h0 : Rel o s { st1 with ctx := f.eval st1.ctx } { st2 with ctx := f.eval st2.ctx } := by
      have := hs.setCtx (f.eval st1.ctx)
      rwa [hs.ctx] at this ⊢
    ocases (hR o u m a _ _ h0 hg ho) with v a1 c1 hr hsm
    · simp only [← hs.ctx]; exact .ok _ (hr.setCtx _)
    · simp only [← hs.ctx]; exact .fail (hr.setCtx _) hsm
  | configureJust c ts =>
    simp only [G.erase, step, ← hs.ctx]
    exact justStep_sim he _ hs _
  | withState a =>
    simp only [G.adm] at hg
    simp only [G.erase, step]
    ocases (hR o u m a _ _ (hs.setInsp []) hg ho) with v a1 c1 hr hsm
    · simp only [← hs.insp]; exact .ok _ (hr.setInsp _)
    · simp only [← hs.insp]; exact .fail (hr.setInsp _) hsm
  | memoized id a =>
    simp only [G.adm] at hg
    simp only [G.erase, step, he.m1, he.m2, Bool.not_false, if_true]
    exact hR o u m a st1 st2 hs hg ho
  | call k =>
    simp only [G.adm] at hg
    simp only [G.erase, step, he.defs, List.getElem?_map]
    cases hd : env1.defs[k]? with
    | none => exact .panic _
    | some d =>
      simp only [Option.map_some]
      exact hR o u m d st1 st2 hs (he.adm k d u hd (by
        cases s <;> cases u <;> cases dr <;> simp at hg ⊢)) ho
  | boxed a =>
    simp only [G.adm] at hg
    simp only [G.erase, step]
    exact hR o u m a st1 st2 hs hg ho

theorem stepMk_sim (he : EnvRel s b dr env1 env2) (hR : SimR s b dr env1 env2 R1 R2)
    (hK : SimK s b dr env1 env2 K1 K2) : SimK s b dr env1 env2 (stepMk R1 K1) (stepMk R2 K2) := by
  intro o u m it st1 st2 hs hg ho
  cases it with
  | repeated a lo hi => exact .ok _ hs
  | separatedBy a sep lo hi lead trail => exact .ok _ hs
  | enumerate inner =>
    simp only [It.adm] at hg
    simp only [It.erase, stepMk]
    kcases (hK o u m inner st1 st2 hs hg ho) with ist a1 c1 hr hsm
    · exact .ok _ hr
    · exact .fail hr hsm
  | orNotIt a => exact .ok _ hs
  | intoIter a =>
    simp only [It.adm] at hg
    simp only [It.erase, stepMk]
    ocases (hR o u .emit a st1 st2 hs hg ho) with v a1 c1 hr hsm
    · exact .ok _ hr
    · exact .fail hr hsm
  | thenIt x y =>
    simp only [It.adm, Bool.and_eq_true] at hg
    simp only [It.erase, stepMk]
    kcases (hK o u m x st1 st2 hs hg.1 ho) with ist a1 c1 hr hsm
    · exact .ok _ hr
    · exact .fail hr hsm
  | mapIt f inner =>
    simp only [It.adm] at hg
    simp only [It.erase, stepMk]
    exact hK o u m inner st1 st2 hs hg ho
  | configureRep c inner =>
    simp only [It.adm] at hg
    simp only [It.erase, stepMk]
    kcases (hK o u m inner st1 st2 hs hg ho) with ist a1 c1 hr hsm
    · simp only [← hr.ctx]; exact .ok _ hr
    · exact .fail hr hsm
  | tryConfigureRep c inner =>
    simp only [It.adm] at hg
    simp only [It.erase, stepMk, ← hs.ctx]
    cases st1.ctx.asNat? with
    | none =>
      simp only [he.mkSpan, ← hs.pos]
      exact .fail (hs.addAltErr he.ek1 he.ek2 _ (by
        rw [ErrKind.userErr_span he.ek1, ErrKind.userErr_span he.ek2]))
        ⟨addAltErr_isSome he.ek1 _ _ _, addAltErr_isSome he.ek2 _ _ _⟩
    | some n =>
      simp only []
      kcases (hK o u m inner st1 st2 hs hg ho) with ist a1 c1 hr hsm
      · exact .ok _ hr
      · exact .fail hr hsm

theorem repeatedNext_sim (hR : SimR s b dr env1 env2 R1 R2) {o : Option Sh} (u : Bool) (m : Mode) (a : G)
    (hg : a.adm s b dr u = true) (ho : s = true → u = false → o = none) (lo : Nat) (hi : Option Nat)
    {st1 st2 : St} (hs : Rel o s st1 st2) (n : Nat) (wrap : ItSt → ItSt) :
    ItRel o s (repeatedNext R1 env1 m a lo hi st1 n wrap) (repeatedNext R2 env2 m (a.erase b) lo hi st2 n wrap) := by
  simp only [repeatedNext, ← hs.save]
  refine ItRel.ite (.done _ hs) ?_
  ocases (hR o u m a st1 st2 hs hg ho) with v a1 c1 hr hsm
  · exact .some _ _ hr
  · exact ItRel.ite (.done _ (hr.rewind _)) (.fail (hr.rewind _) hsm)

theorem separatedNext_sim (hR : SimR s b dr env1 env2 R1 R2) {o : Option Sh} (u : Bool) (m : Mode) (a sep : G)
    (hga : a.adm s b dr u = true) (hgs : sep.adm s b dr u = true) (ho : s = true → u = false → o = none)
    (lo : Nat) (hi : Option Nat) (lead trail : Bool) {st1 st2 : St} (hs : Rel o s st1 st2) (n : Nat) :
    ItRel o s (separatedNext R1 env1 m a sep lo hi lead trail st1 n)
      (separatedNext R2 env2 m (a.erase b) (sep.erase b) lo hi lead trail st2 n) := by
  simp only [separatedNext, ← hs.save]
  refine ItRel.ite (.done _ hs) (ItRel.ite ?_ (ItRel.ite ?_ ?_))
  · ocases (hR o u .check sep st1 st2 hs hgs ho) with vs a0 c0 hr0 hsm0
    · simp only [← hr0.save]
      ocases (hR o u m a a0 c0 hr0 hga ho) with v a1 c1 hr hsm
      · exact .some _ _ hr
      · exact ItRel.ite (.fail (hr.rewind _) hsm) (ItRel.ite (.done _ (hr.rewind _)) (.done _ (hr.rewind _)))
    · have hr0' := hr0.rewind st1.save
      simp only [← hr0'.save]
      ocases (hR o u m a _ _ hr0' hga ho) with v a1 c1 hr hsm
      · exact .some _ _ hr
      · exact ItRel.ite (.fail (hr.rewind _) hsm) (ItRel.ite (.done _ (hr.rewind _)) (.done _ (hr.rewind _)))
  · ocases (hR o u .check sep st1 st2 hs hgs ho) with vs a0 c0 hr0 hsm0
    · simp only [← hr0.save]
      ocases (hR o u m a a0 c0 hr0 hga ho) with v a1 c1 hr hsm
      · exact .some _ _ hr
      · exact ItRel.ite (.fail (hr.rewind _) hsm) (ItRel.ite (.done _ (hr.rewind _)) (.done _ (hr.rewind _)))
    · exact ItRel.ite (.fail (hr0.rewind _) hsm0) (.done _ (hr0.rewind _))
  · ocases (hR o u m a st1 st2 hs hga ho) with v a1 c1 hr hsm
    · exact .some _ _ hr
    · exact ItRel.ite (.fail (hr.rewind _) hsm) (ItRel.ite (.done _ (hr.rewind _)) (.done _ (hr.rewind _)))

theorem stepNext_sim (he : EnvRel s b dr env1 env2) (hR : SimR s b dr env1 env2 R1 R2) (hN : SimN s b dr env1 env2 N1 N2)
    (hK : SimK s b dr env1 env2 K1 K2) : SimN s b dr env1 env2 (stepNext R1 N1 K1) (stepNext R2 N2 K2) := by
  intro o u m it st1 st2 ist hs hg ho
  cases it with
  | repeated a lo hi =>
    simp only [It.adm] at hg
    cases ist with
    | cnt n => simp only [It.erase, stepNext]; exact repeatedNext_sim hR u m a hg ho lo hi hs n id
    | _ => exact .panic _
  | separatedBy a sep lo hi lead trail =>
    simp only [It.adm, Bool.and_eq_true] at hg
    cases ist with
    | cnt n => simp only [It.erase, stepNext]; exact separatedNext_sim hR u m a sep hg.1 hg.2 ho lo hi lead trail hs n
    | _ => exact .panic _
  | enumerate inner =>
    simp only [It.adm] at hg
    cases ist with
    | enum k si =>
      simp only [It.erase, stepNext]
      ncases (hN o u m inner st1 st2 si hs hg ho) with v ist' a1 c1 hr hsm
      · exact .some _ _ hr
      · exact .done _ hr
      · exact .fail hr hsm
    | _ => exact .panic _
  | orNotIt a =>
    simp only [It.adm] at hg
    cases ist with
    | fin fb =>
      simp only [It.erase, stepNext, ← hs.save]
      refine ItRel.ite (.done _ hs) ?_
      ocases (hR o u m a st1 st2 hs hg ho) with v a1 c1 hr hsm
      · exact .some _ _ hr
      · exact .done _ (hr.rewind _)
    | _ => exact .panic _
  | intoIter a =>
    cases ist with
    | into vs =>
      cases vs with
      | nil => exact .done _ hs
      | cons v rest => exact .some _ _ hs
    | _ => exact .panic _
  | thenIt x y =>
    simp only [It.adm, Bool.and_eq_true] at hg
    cases ist with
    | thn sa sb? =>
      cases sb? with
      | some sb =>
        simp only [It.erase, stepNext]
        ncases (hN o u m y st1 st2 sb hs hg.2 ho) with v ist' a1 c1 hr hsm
        · exact .some _ _ hr
        · exact .done _ hr
        · exact .fail hr hsm
      | none =>
        simp only [It.erase, stepNext]
        ncases (hN o u m x st1 st2 sa hs hg.1 ho) with v ist' a1 c1 hr hsm
        · exact .some _ _ hr
        · kcases (hK o u m y a1 c1 hr hg.2 ho) with sb a2 c2 hr2 hsm2
          · ncases (hN o u m y a2 c2 sb hr2 hg.2 ho) with v ist'' a3 c3 hr3 hsm3
            · exact .some _ _ hr3
            · exact .done _ hr3
            · exact .fail hr3 hsm3
          · exact .fail hr2 hsm2
        · exact .fail hr hsm
    | _ => exact .panic _
  | mapIt f inner =>
    simp only [It.adm] at hg
    simp only [It.erase, stepNext]
    ncases (hN o u m inner st1 st2 ist hs hg ho) with v ist' a1 c1 hr hsm
    · exact .some _ _ hr
    · exact .done _ hr
    · exact .fail hr hsm
  | configureRep c inner =>
    simp only [It.adm] at hg
    cases inner with
    | repeated a lo hi =>
      simp only [It.adm] at hg
      cases ist with
      | cfg si clo chi =>
        cases si with
        | cnt n =>
          simp only [It.erase, stepNext]
          exact repeatedNext_sim hR u m a hg ho _ _ hs n _
        | _ => exact .panic _
      | _ => exact .panic _
    | _ => cases ist <;> exact .panic _
  | tryConfigureRep c inner =>
    simp only [It.adm] at hg
    cases inner with
    | repeated a lo hi =>
      simp only [It.adm] at hg
      cases ist with
      | cfg si clo chi =>
        cases si with
        | cnt n =>
          simp only [It.erase, stepNext]
          exact repeatedNext_sim hR u m a hg ho _ _ hs n _
        | _ => exact .panic _
      | _ => exact .panic _
    | _ => cases ist <;> exact .panic _

end

/-! ### the simulation at every fuel -/

theorem run_sim {s b dr : Bool} {env1 env2 : Env} (he : EnvRel s b dr env1 env2) (n : Nat) :
    SimR s b dr env1 env2 (run n) (run n) ∧ SimN s b dr env1 env2 (next n) (next n) ∧
      SimK s b dr env1 env2 (mkIter n) (mkIter n) := by
  induction n with
  | zero =>
    exact ⟨fun _ _ _ _ _ _ _ _ _ => .oof, fun _ _ _ _ _ _ _ _ _ _ => .oof, fun _ _ _ _ _ _ _ _ _ => .oof⟩
  | succ n ih =>
    exact ⟨step_sim he ih.1 ih.2.1 ih.2.2 n, stepNext_sim he ih.1 ih.2.1 ih.2.2, stepMk_sim he ih.1 ih.2.2⟩

/-! ### the relations of the statements -/

/-- two errors with the same span (descriptions may differ) -/
def Loc.sameShape (a b : Loc) : Prop := a.pos = b.pos ∧ a.err.span = b.err.span

/-- pointwise `sameShape`, equal lengths -/
def shapeL : List Loc → List Loc → Prop
  | [], [] => True
  | a :: as, b :: bs => a.sameShape b ∧ shapeL as bs
  | _, _ => False

def shapeO : Option Loc → Option Loc → Prop
  | none, none => True
  | some a, some b => a.sameShape b
  | _, _ => False

/-- states equal up to the descriptions of the errors they hold (memo table and ghost log are not related) -/
structure StSim (a b : St) : Prop where
  pos : a.pos = b.pos
  insp : a.insp = b.insp
  ctx : a.ctx = b.ctx
  errs : shapeL a.errs b.errs
  alt : shapeO a.alt b.alt

inductive OutSim : Out → Out → Prop
  | ok (v : Val) {a b : St} : StSim a b → OutSim (.ok v a) (.ok v b)
  | fail {a b : St} : StSim a b → OutSim (.fail a) (.fail b)
  | panic (w : Nat) : OutSim (.panic w) (.panic w)
  | oof : OutSim .oof .oof

inductive ItSim : ItOut → ItOut → Prop
  | some (v : Val) (ist : ItSt) {a b : St} : StSim a b → ItSim (.some v a ist) (.some v b ist)
  | done (ist : ItSt) {a b : St} : StSim a b → ItSim (.done a ist) (.done b ist)
  | fail {a b : St} : StSim a b → ItSim (.fail a) (.fail b)
  | panic (w : Nat) : ItSim (.panic w) (.panic w)
  | oof : ItSim .oof .oof

inductive MkSim : MkOut → MkOut → Prop
  | ok (ist : ItSt) {a b : St} : StSim a b → MkSim (.ok ist a) (.ok ist b)
  | fail {a b : St} : StSim a b → MkSim (.fail a) (.fail b)
  | panic (w : Nat) : MkSim (.panic w) (.panic w)
  | oof : MkSim .oof .oof

theorem Loc.sameShape_iff (a b : Loc) : a.sameShape b ↔ a.sh = b.sh := by
  simp [Loc.sameShape, Loc.sh]

theorem Loc.shs_true : Loc.shs true = Loc.sh := by
  funext a; simp [Loc.shs, Loc.sh]

theorem shapeL_iff : ∀ (xs ys : List Loc), shapeL xs ys ↔ errRel true xs ys
  | [], [] => by simp [shapeL, errRel]
  | [], _ :: _ => by simp [shapeL, errRel]
  | _ :: _, [] => by simp [shapeL, errRel]
  | a :: as, c :: cs => by
    have ih := shapeL_iff as cs
    simp only [errRel] at ih
    simp [shapeL, errRel, ih, Loc.sameShape_iff, Loc.shs_true]

theorem shapeO_iff (x y : Option Loc) : shapeO x y ↔ altRel none x y := by
  cases x <;> cases y <;> simp [shapeO, altRel, Loc.sameShape_iff, eq_comm]

theorem shapeL.length_eq {xs ys : List Loc} (h : shapeL xs ys) : xs.length = ys.length :=
  ((shapeL_iff xs ys).mp h).length

theorem shapeL.spans_eq {xs ys : List Loc} (h : shapeL xs ys) :
    (xs.map (·.err)).map (·.span) = (ys.map (·.err)).map (·.span) := by
  have h' := (shapeL_iff xs ys).mp h
  have := congrArg (List.map (fun p : Sh => p.2)) h'
  simpa [Loc.shs, List.map_map, Function.comp_def] using this

theorem StSim_iff (a b : St) : StSim a b ↔ Rel none true a b := by
  constructor
  · intro h; exact ⟨h.pos, h.insp, h.ctx, (shapeL_iff _ _).mp h.errs, fun _ => (shapeO_iff _ _).mp h.alt⟩
  · intro h; exact ⟨h.pos, h.insp, h.ctx, (shapeL_iff _ _).mpr h.errs, (shapeO_iff _ _).mpr (h.alt rfl)⟩

theorem OutRel.toSim {x y : Out} (h : OutRel none true x y) : OutSim x y := by
  cases h with
  | ok v h => exact .ok v ((StSim_iff _ _).mpr h)
  | fail h _ => exact .fail ((StSim_iff _ _).mpr h)
  | panic w => exact .panic w
  | oof => exact .oof

theorem ItRel.toSim {x y : ItOut} (h : ItRel none true x y) : ItSim x y := by
  cases h with
  | some v ist h => exact .some v ist ((StSim_iff _ _).mpr h)
  | done ist h => exact .done ist ((StSim_iff _ _).mpr h)
  | fail h _ => exact .fail ((StSim_iff _ _).mpr h)
  | panic w => exact .panic w
  | oof => exact .oof

theorem MkRel.toSim {x y : MkOut} (h : MkRel none true x y) : MkSim x y := by
  cases h with
  | ok ist h => exact .ok ist ((StSim_iff _ _).mpr h)
  | fail h _ => exact .fail ((StSim_iff _ _).mpr h)
  | panic w => exact .panic w
  | oof => exact .oof

/-- a failing run leaves a pending error (both runs) -/
theorem OutRel.fail_isSome {o s} {a c : St} (h : OutRel o s (.fail a) (.fail c)) :
    a.alt.isSome = true ∧ c.alt.isSome = true := by
  cases h with
  | fail _ h => exact h

/-! ### PART 1 — the error type does not matter -/

theorem eraseFalse_defs (ds : List G) : ds.map (G.erase false) = ds := by
  have : G.erase false = id := funext G.erase_false
  rw [this, List.map_id]

theorem envRel_kind (env : Env) (hm : env.memoOn = false) (k1 k2 : ErrKind) (h1 : k1 ≠ .empty) (h2 : k2 ≠ .empty) :
    EnvRel true false false { env with ek := k1 } { env with ek := k2 } where
  toks := rfl
  kind := rfl
  tspans := rfl
  eoi := rfl
  ek1 := h1
  ek2 := h2
  m1 := hm
  m2 := hm
  defs := (eraseFalse_defs env.defs).symm
  adm := by
    intro k d u _ hu
    rcases hu with hu | hu | hu
    · rw [hu]; exact G.adm_kind true false d
    · cases hu
    · cases hu

/-- **C06 (spans).** `Rich`, `Simple` and `Cheap` runs of the same grammar on the same input are in lock-step: same
    values, positions, inspector, context, the same number of secondary errors with the same spans, and pending
    errors at the same position with the same span. -/
theorem run_kindSim (n : Nat) (env : Env) (hm : env.memoOn = false) (k1 k2 : ErrKind) (h1 : k1 ≠ .empty)
    (h2 : k2 ≠ .empty) (m : Mode) (g : G) (st1 st2 : St) (hs : StSim st1 st2) :
    OutSim (run n { env with ek := k1 } m g st1) (run n { env with ek := k2 } m g st2) := by
  have := (run_sim (envRel_kind env hm k1 k2 h1 h2) n).1 none false m g st1 st2 ((StSim_iff _ _).mp hs)
    (G.adm_kind true false g) (fun _ _ => rfl)
  rw [G.erase_false] at this
  exact this.toSim

theorem next_kindSim (n : Nat) (env : Env) (hm : env.memoOn = false) (k1 k2 : ErrKind) (h1 : k1 ≠ .empty)
    (h2 : k2 ≠ .empty) (m : Mode) (it : It) (st1 st2 : St) (ist : ItSt) (hs : StSim st1 st2) :
    ItSim (next n { env with ek := k1 } m it st1 ist) (next n { env with ek := k2 } m it st2 ist) := by
  have := (run_sim (envRel_kind env hm k1 k2 h1 h2) n).2.1 none false m it st1 st2 ist ((StSim_iff _ _).mp hs)
    (It.adm_kind true false it) (fun _ _ => rfl)
  rw [It.erase_false] at this
  exact this.toSim

theorem mkIter_kindSim (n : Nat) (env : Env) (hm : env.memoOn = false) (k1 k2 : ErrKind) (h1 : k1 ≠ .empty)
    (h2 : k2 ≠ .empty) (m : Mode) (it : It) (st1 st2 : St) (hs : StSim st1 st2) :
    MkSim (mkIter n { env with ek := k1 } m it st1) (mkIter n { env with ek := k2 } m it st2) := by
  have := (run_sim (envRel_kind env hm k1 k2 h1 h2) n).2.2 none false m it st1 st2 ((StSim_iff _ _).mp hs)
    (It.adm_kind true false it) (fun _ _ => rfl)
  rw [It.erase_false] at this
  exact this.toSim

theorem StSim.refl_init : StSim St.init St.init :=
  ⟨rfl, rfl, rfl, trivial, trivial⟩

/-- two top-level results that agree up to the descriptions of the errors -/
def TopSim (x y : TopOut) : Prop :=
  (∃ r1 f1 r2 f2, x = .result r1 f1 ∧ y = .result r2 f2 ∧ r1.output = r2.output ∧
      r1.errs.length = r2.errs.length ∧ r1.errs.map (·.span) = r2.errs.map (·.span) ∧ StSim f1 f2) ∨
  (∃ w, x = .panic w ∧ y = .panic w) ∨ (x = .oof ∧ y = .oof)

/-- the post-processing of `parseTop` -/
def topOf (env : Env) (o : Out) : TopOut :=
  match o with
  | .panic w => .panic w
  | .oof => .oof
  | .ok v st => .result ⟨some v, st.errs.map (·.err)⟩ st
  | .fail st =>
    let alt := match st.alt with
      | some a => a.err
      | none => env.ek.expectedFound [] none (env.mkSpan st.pos st.pos)
    .result ⟨none, st.errs.map (·.err) ++ [alt]⟩ st

theorem parseTop_eq (fuel : Nat) (env : Env) (m : Mode) (g : G) :
    parseTop fuel env m g = topOf env (run fuel env m (.thenIgnore g .end_) St.init) := rfl

/-- from related final runs to related top-level results -/
theorem topSim_of_outSim {env1 env2 : Env} (h1 : env1.ek ≠ .empty) (h2 : env2.ek ≠ .empty)
    (hsp : ∀ i j, env2.mkSpan i j = env1.mkSpan i j) {x y : Out} (h : OutSim x y) :
    TopSim (topOf env1 x) (topOf env2 y) := by
  cases h with
  | panic w => exact .inr (.inl ⟨w, rfl, rfl⟩)
  | oof => exact .inr (.inr ⟨rfl, rfl⟩)
  | @ok v a c h =>
    refine .inl ⟨_, a, _, c, rfl, rfl, rfl, ?_, h.errs.spans_eq, h⟩
    simp [h.errs.length_eq]
  | @fail a c h =>
    refine .inl ⟨_, a, _, c, rfl, rfl, rfl, ?_, ?_, h⟩
    · simp [h.errs.length_eq]
    · simp only [List.map_append, h.errs.spans_eq, List.map_cons, List.map_nil]
      congr 2
      have ha := h.alt
      cases h1' : a.alt <;> cases h2' : c.alt <;> rw [h1', h2'] at ha <;> simp only [shapeO] at ha
      · simp only [ErrKind.expectedFound_span h1, ErrKind.expectedFound_span h2, hsp, h.pos]
      · exact ha.2

/-- **C06 (spans), top level.** same output, same number of errors, pointwise the same spans. -/
theorem parseTop_kindSim (n : Nat) (env : Env) (hm : env.memoOn = false) (k1 k2 : ErrKind) (h1 : k1 ≠ .empty)
    (h2 : k2 ≠ .empty) (m : Mode) (g : G) :
    TopSim (parseTop n { env with ek := k1 } m g) (parseTop n { env with ek := k2 } m g) := by
  have h := run_kindSim n env hm k1 k2 h1 h2 m (.thenIgnore g .end_) St.init St.init StSim.refl_init
  rw [parseTop_eq, parseTop_eq]
  exact topSim_of_outSim (env1 := { env with ek := k1 }) (env2 := { env with ek := k2 }) h1 h2 (fun _ _ => rfl) h

/-! ### PART 2 — labels and `map_err` change how a failure is described, never whether or where -/

/-- no recovery strategy sits under a decoration (`labelled`, `as_context`, `map_err`).  `dr = true` additionally
    allows `call` under a decoration (then the definitions must be recovery free, see `DecoSafeDefs`). -/
def G.decoSafe (dr : Bool) (g : G) : Bool := g.adm true true dr false

/-- no recovery strategy at all (and `call` only if `dr`) -/
def G.recFree (dr : Bool) (g : G) : Bool := g.adm true true dr true

structure DecoSafeDefs (dr : Bool) (env : Env) : Prop where
  safe : ∀ d ∈ env.defs, G.decoSafe dr d = true
  recFree : dr = true → ∀ d ∈ env.defs, G.recFree dr d = true

theorem eraseTrue_defs (ds : List G) : ds.map (G.erase true) = ds.map G.eraseDeco := by
  have : G.erase true = G.eraseDeco := funext G.erase_true
  rw [this]

theorem envRel_deco (s : Bool) (env : Env) (hm : env.memoOn = false) (hek : env.ek ≠ .empty) (dr : Bool)
    (hd : s = true → DecoSafeDefs dr env) :
    EnvRel s true dr env { env with defs := env.defs.map G.eraseDeco } where
  toks := rfl
  kind := rfl
  tspans := rfl
  eoi := rfl
  ek1 := hek
  ek2 := hek
  m1 := hm
  m2 := hm
  defs := (eraseTrue_defs env.defs).symm
  adm := by
    intro k d u hk hu
    have hmem := List.mem_of_getElem? hk
    cases s with
    | false => exact G.adm_weak true dr u d
    | true =>
      have hd' := hd rfl
      cases u with
      | false => exact hd'.safe d hmem
      | true =>
        rcases hu with hu | hu | hu
        · cases hu
        · cases hu
        · exact hd'.recFree hu d hmem

/-- **C17.** Erasing every `labelled`/`as_context`/`map_err` keeps the run in lock-step up to descriptions: same
    values, positions, inspector, context, number and spans of the secondary errors, position and span of the
    pending error — provided no recovery strategy sits under a decoration (without the proviso the spans differ,
    see `decoCex_secondary`, `decoCex_primary` below). -/
theorem run_decoSim (n : Nat) (env : Env) (hm : env.memoOn = false) (hek : env.ek ≠ .empty) (dr : Bool)
    (hd : DecoSafeDefs dr env) (m : Mode) (g : G) (hg : g.decoSafe dr = true) (st1 st2 : St) (hs : StSim st1 st2) :
    OutSim (run n env m g st1) (run n { env with defs := env.defs.map G.eraseDeco } m g.eraseDeco st2) := by
  have := (run_sim (envRel_deco true env hm hek dr (fun _ => hd)) n).1 none false m g st1 st2 ((StSim_iff _ _).mp hs)
    hg (fun _ _ => rfl)
  rw [G.erase_true] at this
  exact this.toSim

/-- **C17, top level** (same proviso): same output, same number of errors, pointwise the same spans. -/
theorem parseTop_decoSim (n : Nat) (env : Env) (hm : env.memoOn = false) (hek : env.ek ≠ .empty) (dr : Bool)
    (hd : DecoSafeDefs dr env) (m : Mode) (g : G) (hg : g.decoSafe dr = true) :
    TopSim (parseTop n env m g) (parseTop n { env with defs := env.defs.map G.eraseDeco } m g.eraseDeco) := by
  have h := run_decoSim n env hm hek dr hd m (.thenIgnore g .end_) (by
    simpa [G.decoSafe, G.adm] using hg) St.init St.init StSim.refl_init
  rw [parseTop_eq, parseTop_eq]
  have : (G.thenIgnore g .end_).eraseDeco = .thenIgnore g.eraseDeco .end_ := by simp [G.eraseDeco]
  rw [this] at h
  exact topSim_of_outSim (env1 := env) (env2 := { env with defs := env.defs.map G.eraseDeco }) hek hek (fun _ _ => rfl) h

/-! #### every grammar: decorations never change whether, or where (cursor), a parse fails -/

/-- same cursor, inspector, context and the same number of secondary errors, recorded at the same positions -/
structure StSimW (a b : St) : Prop where
  pos : a.pos = b.pos
  insp : a.insp = b.insp
  ctx : a.ctx = b.ctx
  errs : a.errs.map (·.pos) = b.errs.map (·.pos)

inductive OutSimW : Out → Out → Prop
  | ok (v : Val) {a b : St} : StSimW a b → OutSimW (.ok v a) (.ok v b)
  | fail {a b : St} : StSimW a b → a.alt.isSome = true → b.alt.isSome = true → OutSimW (.fail a) (.fail b)
  | panic (w : Nat) : OutSimW (.panic w) (.panic w)
  | oof : OutSimW .oof .oof

theorem errRel_false_iff (xs ys : List Loc) : errRel false xs ys ↔ xs.map (·.pos) = ys.map (·.pos) := by
  constructor
  · intro h
    have := congrArg (List.map (fun p : Sh => p.1)) h
    simpa [Loc.shs, List.map_map, Function.comp_def] using this
  · intro h
    have hf : Loc.shs false = (fun p : Nat => ((p, ((0, 0) : Nat × Nat)) : Sh)) ∘ (·.pos) := by
      funext a; simp [Loc.shs]
    rw [errRel, hf, ← List.map_map, ← List.map_map, h]

theorem StSimW_iff (o : Option Sh) (a b : St) : StSimW a b ↔ Rel o false a b := by
  constructor
  · intro h; exact ⟨h.pos, h.insp, h.ctx, (errRel_false_iff _ _).mpr h.errs, fun h => by cases h⟩
  · intro h; exact ⟨h.pos, h.insp, h.ctx, (errRel_false_iff _ _).mp h.errs⟩

theorem OutRel.toSimW {o} {x y : Out} (h : OutRel o false x y) : OutSimW x y := by
  cases h with
  | ok v h => exact .ok v ((StSimW_iff _ _ _).mpr h)
  | fail h h' => exact .fail ((StSimW_iff _ _ _).mpr h) h'.1 h'.2
  | panic w => exact .panic w
  | oof => exact .oof

/-- **C17, every grammar.** Erasing the decorations never changes acceptance, values, the cursor, the inspector,
    the context, or the number (and recording positions) of the secondary errors; both runs panic / run out of
    fuel alike, and a failing run leaves a pending error in both. -/
theorem run_decoSim_weak (n : Nat) (env : Env) (hm : env.memoOn = false) (hek : env.ek ≠ .empty) (m : Mode) (g : G)
    (st1 st2 : St) (hs : StSimW st1 st2) :
    OutSimW (run n env m g st1) (run n { env with defs := env.defs.map G.eraseDeco } m g.eraseDeco st2) := by
  have := (run_sim (envRel_deco false env hm hek false (fun h => by cases h)) n).1 none false m g st1 st2
    ((StSimW_iff _ _ _).mp hs) (G.adm_weak true false false g) (fun h => by cases h)
  rw [G.erase_true] at this
  exact this.toSimW

/-- same output, same number of errors -/
def TopSimW (x y : TopOut) : Prop :=
  (∃ r1 f1 r2 f2, x = .result r1 f1 ∧ y = .result r2 f2 ∧ r1.output = r2.output ∧
      r1.errs.length = r2.errs.length ∧ StSimW f1 f2) ∨
  (∃ w, x = .panic w ∧ y = .panic w) ∨ (x = .oof ∧ y = .oof)

theorem parseTop_decoSim_weak (n : Nat) (env : Env) (hm : env.memoOn = false) (hek : env.ek ≠ .empty) (m : Mode) (g : G) :
    TopSimW (parseTop n env m g) (parseTop n { env with defs := env.defs.map G.eraseDeco } m g.eraseDeco) := by
  have h := run_decoSim_weak n env hm hek m (.thenIgnore g .end_) St.init St.init ⟨rfl, rfl, rfl, rfl⟩
  have he : (G.thenIgnore g .end_).eraseDeco = .thenIgnore g.eraseDeco .end_ := by simp [G.eraseDeco]
  rw [he] at h
  rw [parseTop_eq, parseTop_eq]
  generalize run n env m (.thenIgnore g .end_) St.init = x at h
  generalize run n _ m (.thenIgnore g.eraseDeco .end_) St.init = y at h
  cases h with
  | panic w => exact .inr (.inl ⟨w, rfl, rfl⟩)
  | oof => exact .inr (.inr ⟨rfl, rfl⟩)
  | @ok v a c h =>
    refine .inl ⟨_, a, _, c, rfl, rfl, rfl, ?_, h⟩
    have := congrArg List.length h.errs
    simpa using this
  | @fail a c h _ _ =>
    refine .inl ⟨_, a, _, c, rfl, rfl, rfl, ?_, h⟩
    have := congrArg List.length h.errs
    simp only [List.length_map] at this
    simp [this]

/-! #### the proviso of `run_decoSim` is needed

  `choice(any.then(just 5), X.labelled(0))` on the input `[1, 2]`, where `X = just(7).recover_with(via_parser(r))`.
  The first alternative leaves a pending error at position 1 (span `1..2`).  Inside the label `just 7` fails at
  position 0 (span `0..1`) with the pending error *sheltered*, so recovery takes and emits the `0..1` error; without
  the label the pending error is the farther one, and recovery emits `1..2` instead (`take_alt().unwrap()`). -/

def decoCexEnv : Env := { toks := [1, 2], memoOn := false }
def decoCexG (r : G) : G := .or_ (.then_ .any (.just [5])) (.labelled 0 false (.recoverVia (.just [7]) r))

def TopOut.spans : TopOut → Option (Bool × List (Nat × Nat))
  | .result r _ => some (r.output.isSome, r.errs.map (·.span))
  | _ => none

/-- the secondary error has a different span (both parses succeed with one error) -/
theorem decoCex_secondary :
    (parseTop 10 decoCexEnv .emit (decoCexG (.then_ .any .any))).spans = some (true, [(0, 1)]) ∧
    (parseTop 10 { decoCexEnv with defs := decoCexEnv.defs.map G.eraseDeco } .emit
      (decoCexG (.then_ .any .any)).eraseDeco).spans = some (true, [(1, 2)]) := by
  decide +kernel

/-- the primary error has a different span too (both parses fail with two errors) -/
theorem decoCex_primary :
    (parseTop 10 decoCexEnv .emit (decoCexG .empty)).spans = some (false, [(0, 1), (1, 2)]) ∧
    (parseTop 10 { decoCexEnv with defs := decoCexEnv.defs.map G.eraseDeco } .emit
      (decoCexG .empty).eraseDeco).spans = some (false, [(1, 2), (0, 1)]) := by
  decide +kernel

end Chumsky

#print axioms Chumsky.run_kindSim
#print axioms Chumsky.next_kindSim
#print axioms Chumsky.mkIter_kindSim
#print axioms Chumsky.parseTop_kindSim
#print axioms Chumsky.run_decoSim
#print axioms Chumsky.parseTop_decoSim
#print axioms Chumsky.run_decoSim_weak
#print axioms Chumsky.parseTop_decoSim_weak
#print axioms Chumsky.decoCex_secondary
#print axioms Chumsky.decoCex_primary
