/-
  Lemmas about the five `InputRef` operations of the machine: what each leaves untouched.
-/
import ChumskyModel.Model.Spec
namespace Chumsky
open St

@[simp] theorem save_pos (st : St) : st.save.pos = st.pos := rfl
@[simp] theorem save_errCount (st : St) : st.save.errCount = st.errs.length := rfl
@[simp] theorem save_insp (st : St) : st.save.insp = st.insp := rfl

@[simp] theorem rewind_pos (st : St) (c : Chk) : (st.rewind c).pos = c.pos := rfl
@[simp] theorem rewind_errs (st : St) (c : Chk) : (st.rewind c).errs = st.errs.take c.errCount := rfl
@[simp] theorem rewind_insp (st : St) (c : Chk) : (st.rewind c).insp = c.insp := rfl
@[simp] theorem rewind_ctx (st : St) (c : Chk) : (st.rewind c).ctx = st.ctx := rfl
@[simp] theorem rewind_alt (st : St) (c : Chk) : (st.rewind c).alt = st.alt := rfl

@[simp] theorem rewindInput_pos (st : St) (c : Chk) : (st.rewindInput c).pos = c.pos := rfl
@[simp] theorem rewindInput_errs (st : St) (c : Chk) : (st.rewindInput c).errs = st.errs := rfl
@[simp] theorem rewindInput_insp (st : St) (c : Chk) : (st.rewindInput c).insp = c.insp := rfl
@[simp] theorem rewindInput_ctx (st : St) (c : Chk) : (st.rewindInput c).ctx = st.ctx := rfl
@[simp] theorem rewindInput_alt (st : St) (c : Chk) : (st.rewindInput c).alt = st.alt := rfl

@[simp] theorem emit_pos (st : St) (a : Nat) (e : Err) : (st.emit a e).pos = st.pos := rfl
@[simp] theorem emit_errs (st : St) (a : Nat) (e : Err) : (st.emit a e).errs = st.errs ++ [⟨a, e⟩] := rfl
@[simp] theorem emit_insp (st : St) (a : Nat) (e : Err) : (st.emit a e).insp = st.insp := rfl
@[simp] theorem emit_ctx (st : St) (a : Nat) (e : Err) : (st.emit a e).ctx = st.ctx := rfl
@[simp] theorem emit_alt (st : St) (a : Nat) (e : Err) : (st.emit a e).alt = st.alt := rfl

theorem next_some {env : Env} {st : St} {t : Nat} (h : env.toks[st.pos]? = some t) :
    st.next env = (some t, { st with pos := st.pos + 1, insp := st.insp ++ [t] }) := by
  simp [St.next, h]

theorem next_none {env : Env} {st : St} (h : env.toks[st.pos]? = none) :
    st.next env = (none, st) := by
  simp [St.next, h]

@[simp] theorem next_errs (env : Env) (st : St) : (st.next env).2.errs = st.errs := by
  unfold St.next; split <;> rfl
@[simp] theorem next_ctx (env : Env) (st : St) : (st.next env).2.ctx = st.ctx := by
  unfold St.next; split <;> rfl
@[simp] theorem next_alt (env : Env) (st : St) : (st.next env).2.alt = st.alt := by
  unfold St.next; split <;> rfl

@[simp] theorem addAlt_pos (env : Env) (st : St) (e f s) : (st.addAlt env e f s).pos = st.pos := by
  unfold St.addAlt; split <;> rfl
@[simp] theorem addAlt_errs (env : Env) (st : St) (e f s) : (st.addAlt env e f s).errs = st.errs := by
  unfold St.addAlt; split <;> rfl
@[simp] theorem addAlt_insp (env : Env) (st : St) (e f s) : (st.addAlt env e f s).insp = st.insp := by
  unfold St.addAlt; split <;> rfl
@[simp] theorem addAlt_ctx (env : Env) (st : St) (e f s) : (st.addAlt env e f s).ctx = st.ctx := by
  unfold St.addAlt; split <;> rfl
@[simp] theorem addAlt_alt_isSome (env : Env) (st : St) (e f s) : (st.addAlt env e f s).alt.isSome = true := by
  unfold St.addAlt
  split
  · rfl
  · simp only
    split
    · rfl
    · split
      · rfl
      · split <;> rfl

theorem mergeAlt_isSome (ek : ErrKind) (alt : Option Loc) (a : Nat) (e : Err) :
    (St.mergeAlt ek alt a e).isSome = true := by
  unfold St.mergeAlt
  split
  · rfl
  · split
    · rfl
    · split <;> rfl

@[simp] theorem addAltErr_pos (env : Env) (st : St) (a e) : (st.addAltErr env a e).pos = st.pos := by
  unfold St.addAltErr; split <;> rfl
@[simp] theorem addAltErr_errs (env : Env) (st : St) (a e) : (st.addAltErr env a e).errs = st.errs := by
  unfold St.addAltErr; split <;> rfl
@[simp] theorem addAltErr_insp (env : Env) (st : St) (a e) : (st.addAltErr env a e).insp = st.insp := by
  unfold St.addAltErr; split <;> rfl
@[simp] theorem addAltErr_ctx (env : Env) (st : St) (a e) : (st.addAltErr env a e).ctx = st.ctx := by
  unfold St.addAltErr; split <;> rfl
@[simp] theorem addAltErr_alt_isSome (env : Env) (st : St) (a e) : (st.addAltErr env a e).alt.isSome = true := by
  unfold St.addAltErr
  split
  · rfl
  · exact mergeAlt_isSome _ _ _ _

@[simp] theorem readdAlt_pos (env : Env) (st : St) (n) : (St.readdAlt env st n).pos = st.pos := by
  unfold St.readdAlt; split; rfl; split <;> rfl
@[simp] theorem readdAlt_errs (env : Env) (st : St) (n) : (St.readdAlt env st n).errs = st.errs := by
  unfold St.readdAlt; split; rfl; split <;> rfl
@[simp] theorem readdAlt_insp (env : Env) (st : St) (n) : (St.readdAlt env st n).insp = st.insp := by
  unfold St.readdAlt; split; rfl; split <;> rfl
@[simp] theorem readdAlt_ctx (env : Env) (st : St) (n) : (St.readdAlt env st n).ctx = st.ctx := by
  unfold St.readdAlt; split; rfl; split <;> rfl
theorem readdAlt_alt_isSome (env : Env) (st : St) (n : Option Loc) :
    (St.readdAlt env st n).alt.isSome = (st.alt.isSome || n.isSome) := by
  unfold St.readdAlt
  split
  · simp
  · split
    · simp
    · simp [mergeAlt_isSome]

/-- truncating to the length of a prefix gives the prefix back -/
theorem take_of_prefix {base l : List Loc} (h : base <+: l) : l.take base.length = base := by
  exact (List.prefix_iff_eq_take.mp h).symm

end Chumsky
