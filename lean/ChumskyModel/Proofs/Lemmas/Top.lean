/-
  The master refinement at the level of `Parser::parse` / `Parser::check`.
-/
import ChumskyModel.Proofs.Lemmas.Master
namespace Chumsky

/-- what `parse`/`check` return, related to the PEG reading of "grammar, then end of input" from position 0 -/
def TopRefines (m : Mode) : TopOut → SOut → Prop
  | .result r final, .ok v s em =>
      r.output = some (m.bind v) ∧ final.ss = s ∧ EmsRel final.errs em ∧ r.errs = final.errs.map (·.err)
  | .result r final, .fail =>
      r.output = none ∧ (∃ e, r.errs = final.errs.map (·.err) ++ [e])
  | .panic w, .panic w' => w = w'
  | .oof, .oof => True
  | _, _ => False

theorem parseTop_refines (n : Nat) (env : Env) (m : Mode) (g : G) (hm : env.memoOn = false) :
    TopRefines m (parseTop n env m g) (pegTop n env g) := by
  unfold parseTop pegTop
  have h := run_refines n env m (.thenIgnore g .end_) St.init hm
  have e1 : St.init.ss = ⟨0, []⟩ := rfl
  have e2 : St.init.ctx = .unit := rfl
  have e3 : St.init.errs = [] := rfl
  rw [e1, e2, e3] at h
  revert h
  cases run n env m (.thenIgnore g .end_) St.init <;>
    cases peg n env (.thenIgnore g .end_) ⟨0, []⟩ .unit <;> simp [Refines, TopRefines]
  · intro h
    obtain ⟨new, he, hr⟩ := h.errs
    simp at he
    exact ⟨h.val, h.ss, by rw [he]; exact hr⟩

end Chumsky
