/-
  Proofs/Lemmas/RepSpec.lean — property C02 on the reference semantics (`Model/Spec.lean`).

  `repeated()` and `separated_by()` match greedily and possessively; `collect`, `collect_exactly`,
  `count`, `enumerate`, `foldl`, `foldr` see exactly the item sequence the iterator produces.

  Everything here is about the Spec only, for an arbitrary item runner `P : SRunner`
  (instantiated with `peg n` in the corollaries at the end of each section).
-/
import ChumskyModel.Model.Spec
set_option linter.unusedSimpArgs false
set_option linter.unusedVariables false
namespace Chumsky

/-! ## 1. the item stream of an iterator -/

/-- driving `next` from `(s, ist)` until it says `done`: the items, the final position, the emissions -/
inductive Items (N : SNextRunner) (env : Env) (ctx : Val) (it : It) :
    SS → ItSt → List Val → SS → List Emis → Prop
  | done {s ist s' ist' em} : N env it s ctx ist = .done s' ist' em → Items N env ctx it s ist [] s' em
  | some {s ist v s1 ist1 e1 vs s2 e2} : N env it s ctx ist = .some v s1 ist1 e1 →
      Items N env ctx it s1 ist1 vs s2 e2 → Items N env ctx it s ist (v :: vs) s2 (e1 ++ e2)

/-- a prefix of the stream: `vs.length` calls of `next`, each of which returned an item
    (`Items` without the final `done`) -/
inductive ItemsPre (N : SNextRunner) (env : Env) (ctx : Val) (it : It) :
    SS → ItSt → List Val → SS → ItSt → List Emis → Prop
  | nil (s ist) : ItemsPre N env ctx it s ist [] s ist []
  | some {s ist v s1 ist1 e1 vs s2 ist2 e2} : N env it s ctx ist = .some v s1 ist1 e1 →
      ItemsPre N env ctx it s1 ist1 vs s2 ist2 e2 → ItemsPre N env ctx it s ist (v :: vs) s2 ist2 (e1 ++ e2)

/-- driving `next` fails: some prefix of items (`vs`, ending at `s1`), then `next` says `fail` -/
def ItemsFail (N : SNextRunner) (env : Env) (ctx : Val) (it : It) (s : SS) (ist : ItSt)
    (vs : List Val) (s1 : SS) : Prop :=
  ∃ ist1 e, ItemsPre N env ctx it s ist vs s1 ist1 e ∧ N env it s1 ctx ist1 = .fail

section generic
variable {N : SNextRunner} {env : Env} {ctx : Val} {it : It}

/-- the full stream = a prefix followed by `done` -/
theorem Items_iff_pre {s ist vs s' e} :
    Items N env ctx it s ist vs s' e ↔
      ∃ s1 ist1 e1 ist' e2, ItemsPre N env ctx it s ist vs s1 ist1 e1 ∧
        N env it s1 ctx ist1 = .done s' ist' e2 ∧ e = e1 ++ e2 := by
  constructor
  · intro h
    induction h with
    | done h => exact ⟨_, _, [], _, _, .nil _ _, h, rfl⟩
    | some h _ ih =>
      obtain ⟨s1, ist1, e1, ist', e2, hp, hd, rfl⟩ := ih
      exact ⟨s1, ist1, _, ist', e2, .some h hp, hd, by simp⟩
  · rintro ⟨s1, ist1, e1, ist', e2, hp, hd, rfl⟩
    induction hp with
    | nil => exact .done hd
    | some h _ ih => rw [List.append_assoc]; exact .some h (ih hd)

theorem ItemsFail_nil {s ist s'} :
    ItemsFail N env ctx it s ist [] s' ↔ s' = s ∧ N env it s ctx ist = .fail := by
  constructor
  · rintro ⟨ist1, e, hp, hf⟩; cases hp; exact ⟨rfl, hf⟩
  · rintro ⟨rfl, h⟩; exact ⟨_, _, .nil _ _, h⟩

theorem ItemsFail_cons {s ist v vs s'} : ItemsFail N env ctx it s ist (v :: vs) s' ↔
    ∃ s1 ist1 e1, N env it s ctx ist = .some v s1 ist1 e1 ∧ ItemsFail N env ctx it s1 ist1 vs s' := by
  constructor
  · rintro ⟨ist2, e, hp, hf⟩
    cases hp with
    | some h hp => exact ⟨_, _, _, h, _, _, hp, hf⟩
  · rintro ⟨s1, ist1, e1, h, ist2, e, hp, hf⟩
    exact ⟨_, _, .some h hp, hf⟩

/-- the stream is a function of the start -/
theorem Items.det {s ist vs s' e vs2 s2 e2} (h1 : Items N env ctx it s ist vs s' e)
    (h2 : Items N env ctx it s ist vs2 s2 e2) : vs = vs2 ∧ s' = s2 ∧ e = e2 := by
  induction h1 generalizing vs2 s2 e2 with
  | done h =>
    cases h2 with
    | done h' => rw [h] at h'; cases h'; exact ⟨rfl, rfl, rfl⟩
    | some h' _ => rw [h] at h'; cases h'
  | some h _ ih =>
    cases h2 with
    | done h' => rw [h] at h'; cases h'
    | some h' t =>
      rw [h] at h'; cases h'
      obtain ⟨rfl, rfl, rfl⟩ := ih t
      exact ⟨rfl, rfl, rfl⟩

/-! ## 2. the consumers see exactly that stream -/

/-- `collect`: the container is built from the stream, in input order -/
theorem sCollectLoop_sound {k : CollKind} : ∀ fuel s ist acc i em v s' em',
    sCollectLoop N env ctx it k fuel s ist acc i em = .ok v s' em' →
    ∃ vs e, Items N env ctx it s ist vs s' e ∧ v = sCollectOut k (acc.reverse ++ vs) ∧ em' = em ++ e := by
  intro fuel
  induction fuel with
  | zero => intro s ist acc i em v s' em' h; simp [sCollectLoop] at h
  | succ fuel ih =>
    intro s ist acc i em v s' em' h
    unfold sCollectLoop at h
    cases hN : N env it s ctx ist with
    | some w s1 ist1 e1 =>
      rw [hN] at h; simp only at h
      split at h
      · cases h
      · obtain ⟨vs, e, hI, hv, he⟩ := ih _ _ _ _ _ _ _ _ h
        exact ⟨w :: vs, e1 ++ e, .some hN hI, by simpa using hv, by simp [he]⟩
    | done s1 ist1 e1 =>
      rw [hN] at h; simp only [SOut.ok.injEq] at h
      obtain ⟨rfl, rfl, rfl⟩ := h
      exact ⟨[], e1, .done hN, by simp, rfl⟩
    | fail => rw [hN] at h; cases h
    | panic w => rw [hN] at h; cases h
    | oof => rw [hN] at h; cases h

/-- conversely: with enough fuel the loop returns the container of the stream, unless the
    no-progress assertion fires -/
theorem sCollectLoop_complete {k : CollKind} {s ist vs s' e} (h : Items N env ctx it s ist vs s' e) :
    ∀ fuel acc i em, vs.length < fuel →
      sCollectLoop N env ctx it k fuel s ist acc i em = .ok (sCollectOut k (acc.reverse ++ vs)) s' (em ++ e) ∨
      sCollectLoop N env ctx it k fuel s ist acc i em = .panic pNoProgress := by
  induction h with
  | done h =>
    intro fuel acc i em hf
    cases fuel with
    | zero => cases hf
    | succ fuel => left; simp [sCollectLoop, h]
  | @some s0 ist0 w s1 ist1 e1 vs s2 e2 h _ ih =>
    intro fuel acc i em hf
    cases fuel with
    | zero => cases hf
    | succ fuel =>
      unfold sCollectLoop
      rw [h]; simp only
      split
      · right; rfl
      · have := ih fuel (w :: acc) (i + 1) (em ++ e1) (by simpa using hf)
        simpa using this

/-- `foldl` with a state-independent closure: folding the stream from the left -/
theorem sFoldlLoop_sound {g : Val → Val → Val} : ∀ fuel s ist acc em v s' em',
    sFoldlLoop N env ctx it (fun a x _ => g a x) fuel s ist acc em = .ok v s' em' →
    ∃ vs e, Items N env ctx it s ist vs s' e ∧ v = vs.foldl g acc ∧ em' = em ++ e := by
  intro fuel
  induction fuel with
  | zero => intro s ist acc em v s' em' h; simp [sFoldlLoop] at h
  | succ fuel ih =>
    intro s ist acc em v s' em' h
    unfold sFoldlLoop at h
    cases hN : N env it s ctx ist with
    | some w s1 ist1 e1 =>
      rw [hN] at h; simp only at h
      split at h
      · cases h
      · obtain ⟨vs, e, hI, hv, he⟩ := ih _ _ _ _ _ _ _ h
        exact ⟨w :: vs, e1 ++ e, .some hN hI, by simpa using hv, by simp [he]⟩
    | done s1 ist1 e1 =>
      rw [hN] at h; simp only [SOut.ok.injEq] at h
      obtain ⟨rfl, rfl, rfl⟩ := h
      exact ⟨[], e1, .done hN, by simp, rfl⟩
    | fail => rw [hN] at h; cases h
    | panic w => rw [hN] at h; cases h
    | oof => rw [hN] at h; cases h

/-- the positions after each item of a stream, needed for the state-dependent closure of
    `foldl_with` -/
inductive ItemsAt (N : SNextRunner) (env : Env) (ctx : Val) (it : It) :
    SS → ItSt → List (Val × SS) → SS → List Emis → Prop
  | done {s ist s' ist' em} : N env it s ctx ist = .done s' ist' em → ItemsAt N env ctx it s ist [] s' em
  | some {s ist v s1 ist1 e1 vs s2 e2} : N env it s ctx ist = .some v s1 ist1 e1 →
      ItemsAt N env ctx it s1 ist1 vs s2 e2 → ItemsAt N env ctx it s ist ((v, s1) :: vs) s2 (e1 ++ e2)

theorem ItemsAt.items {s ist vs s' e} (h : ItemsAt N env ctx it s ist vs s' e) :
    Items N env ctx it s ist (vs.map (·.1)) s' e := by
  induction h with
  | done h => exact .done h
  | some h _ ih => exact .some h ih

/-- `foldl` with an arbitrary closure (`foldl_with`): each step sees the item and the position after it -/
theorem sFoldlLoop_sound_at {f : Val → Val → SS → Val} : ∀ fuel s ist acc em v s' em',
    sFoldlLoop N env ctx it f fuel s ist acc em = .ok v s' em' →
    ∃ vs e, ItemsAt N env ctx it s ist vs s' e ∧ v = vs.foldl (fun a x => f a x.1 x.2) acc ∧ em' = em ++ e := by
  intro fuel
  induction fuel with
  | zero => intro s ist acc em v s' em' h; simp [sFoldlLoop] at h
  | succ fuel ih =>
    intro s ist acc em v s' em' h
    unfold sFoldlLoop at h
    cases hN : N env it s ctx ist with
    | some w s1 ist1 e1 =>
      rw [hN] at h; simp only at h
      split at h
      · cases h
      · obtain ⟨vs, e, hI, hv, he⟩ := ih _ _ _ _ _ _ _ h
        exact ⟨(w, s1) :: vs, e1 ++ e, .some hN hI, by simpa using hv, by simp [he]⟩
    | done s1 ist1 e1 =>
      rw [hN] at h; simp only [SOut.ok.injEq] at h
      obtain ⟨rfl, rfl, rfl⟩ := h
      exact ⟨[], e1, .done hN, by simp, rfl⟩
    | fail => rw [hN] at h; cases h
    | panic w => rw [hN] at h; cases h
    | oof => rw [hN] at h; cases h

/-- the collecting phase of `foldr`: the accumulator (reversed) is extended by the stream -/
theorem sFoldrCollect_sound : ∀ fuel s ist acc em items s' em',
    sFoldrCollect N env ctx it fuel s ist acc em = .inl (some (items, s', em')) →
    ∃ vs e, Items N env ctx it s ist vs s' e ∧
      items.reverse.map (·.1) = acc.reverse.map (·.1) ++ vs ∧ em' = em ++ e := by
  intro fuel
  induction fuel with
  | zero => intro s ist acc em items s' em' h; simp [sFoldrCollect] at h
  | succ fuel ih =>
    intro s ist acc em items s' em' h
    unfold sFoldrCollect at h
    cases hN : N env it s ctx ist with
    | some w s1 ist1 e1 =>
      rw [hN] at h; simp only at h
      split at h
      · cases h
      · obtain ⟨vs, e, hI, hv, he⟩ := ih _ _ _ _ _ _ _ h
        exact ⟨w :: vs, e1 ++ e, .some hN hI, by simpa using hv, by simp [he]⟩
    | done s1 ist1 e1 =>
      rw [hN] at h; simp only [Sum.inl.injEq, Option.some.injEq, Prod.mk.injEq] at h
      obtain ⟨rfl, rfl, rfl⟩ := h
      exact ⟨[], e1, .done hN, by simp, rfl⟩
    | fail => rw [hN] at h; cases h
    | panic w => rw [hN] at h; cases h
    | oof => rw [hN] at h; cases h

/-- the collecting phase never short-circuits with a success -/
theorem sFoldrCollect_ne_ok : ∀ fuel s ist acc em v s' em',
    sFoldrCollect N env ctx it fuel s ist acc em ≠ .inr (.ok v s' em') := by
  intro fuel
  induction fuel with
  | zero => intro s ist acc em v s' em' h; simp [sFoldrCollect] at h
  | succ fuel ih =>
    intro s ist acc em v s' em' h
    unfold sFoldrCollect at h
    cases hN : N env it s ctx ist with
    | some w s1 ist1 e1 =>
      rw [hN] at h; simp only at h
      split at h
      · cases h
      · exact ih _ _ _ _ _ _ _ h
    | done s1 ist1 e1 => rw [hN] at h; cases h
    | fail => rw [hN] at h; cases h
    | panic w => rw [hN] at h; cases h
    | oof => rw [hN] at h; cases h

/-- the final fold of `foldr` over the reversed accumulator is a right fold over the items
    in input order -/
theorem foldr_final (g : Val → Val → Val) (items : List (Val × Nat)) (vb : Val) :
    items.foldl (fun acc (x : Val × Nat) => g x.1 acc) vb = List.foldr g vb (items.reverse.map (·.1)) := by
  induction items generalizing vb with
  | nil => rfl
  | cons x xs ih => simp [ih]

/-- the counted loop of `Repeated::go` / `SeparatedBy::go`: drives the whole stream, value `()` -/
theorem sIterLoop_sound {ap : Bool} : ∀ fuel s ist em v s' em',
    sIterLoop N env ctx it ap fuel s ist em = .ok v s' em' →
    ∃ vs e, Items N env ctx it s ist vs s' e ∧ v = .unit ∧ em' = em ++ e := by
  intro fuel
  induction fuel with
  | zero => intro s ist em v s' em' h; simp [sIterLoop] at h
  | succ fuel ih =>
    intro s ist em v s' em' h
    unfold sIterLoop at h
    cases hN : N env it s ctx ist with
    | some w s1 ist1 e1 =>
      rw [hN] at h; simp only at h
      split at h
      · cases h
      · obtain ⟨vs, e, hI, hv, he⟩ := ih _ _ _ _ _ _ h
        exact ⟨w :: vs, e1 ++ e, .some hN hI, hv, by simp [he]⟩
    | done s1 ist1 e1 =>
      rw [hN] at h; simp only [SOut.ok.injEq] at h
      obtain ⟨rfl, rfl, rfl⟩ := h
      exact ⟨[], e1, .done hN, rfl, rfl⟩
    | fail => rw [hN] at h; cases h
    | panic w => rw [hN] at h; cases h
    | oof => rw [hN] at h; cases h

/-- `collect_exactly(n)` succeeds iff exactly `n` calls of `next` return items; it never asks
    for the final `done` -/
theorem sCollectExactlyLoop_ok : ∀ n s ist acc em v s' em',
    sCollectExactlyLoop N env ctx it n s ist acc em = .ok v s' em' ↔
    ∃ vs ist' e, ItemsPre N env ctx it s ist vs s' ist' e ∧ vs.length = n ∧
      v = Val.ofList (acc.reverse ++ vs) ∧ em' = em ++ e := by
  intro n
  induction n with
  | zero =>
    intro s ist acc em v s' em'
    simp only [sCollectExactlyLoop, SOut.ok.injEq]
    constructor
    · rintro ⟨rfl, rfl, rfl⟩; exact ⟨[], ist, [], .nil _ _, rfl, by simp, by simp⟩
    · rintro ⟨vs, ist', e, hp, hl, rfl, rfl⟩
      cases hp with
      | nil => simp
      | some _ _ => simp at hl
  | succ n ih =>
    intro s ist acc em v s' em'
    unfold sCollectExactlyLoop
    constructor
    · intro h
      cases hN : N env it s ctx ist with
      | some w s1 ist1 e1 =>
        rw [hN] at h; simp only at h
        obtain ⟨vs, ist', e, hp, hl, hv, he⟩ := (ih _ _ _ _ _ _ _).1 h
        exact ⟨w :: vs, ist', e1 ++ e, .some hN hp, by simp [hl], by simpa using hv, by simp [he]⟩
      | done s1 ist1 e1 => rw [hN] at h; cases h
      | fail => rw [hN] at h; cases h
      | panic w => rw [hN] at h; cases h
      | oof => rw [hN] at h; cases h
    · rintro ⟨vs, ist', e, hp, hl, rfl, rfl⟩
      cases hp with
      | nil => simp at hl
      | some hN hp =>
        rw [hN]; simp only
        exact (ih _ _ _ _ _ _ _).2 ⟨_, _, _, hp, by simpa using hl, by simp, by simp⟩

/-- `collect_exactly(n)` fails iff `next` says `done` or `fail` after fewer than `n` items -/
theorem sCollectExactlyLoop_fail : ∀ n s ist acc em,
    sCollectExactlyLoop N env ctx it n s ist acc em = .fail ↔
    ∃ vs s1 ist1 e, ItemsPre N env ctx it s ist vs s1 ist1 e ∧ vs.length < n ∧
      (N env it s1 ctx ist1 = .fail ∨ ∃ s2 ist2 e2, N env it s1 ctx ist1 = .done s2 ist2 e2) := by
  intro n
  induction n with
  | zero => intro s ist acc em; simp [sCollectExactlyLoop]
  | succ n ih =>
    intro s ist acc em
    unfold sCollectExactlyLoop
    constructor
    · intro h
      cases hN : N env it s ctx ist with
      | some w s1 ist1 e1 =>
        rw [hN] at h; simp only at h
        obtain ⟨vs, s2, ist2, e, hp, hl, hx⟩ := (ih _ _ _ _).1 h
        exact ⟨w :: vs, s2, ist2, _, .some hN hp, by simpa using hl, hx⟩
      | done s1 ist1 e1 => exact ⟨[], s, ist, [], .nil _ _, by simp, .inr ⟨_, _, _, hN⟩⟩
      | fail => exact ⟨[], s, ist, [], .nil _ _, by simp, .inl hN⟩
      | panic w => rw [hN] at h; cases h
      | oof => rw [hN] at h; cases h
    · rintro ⟨vs, s1, ist1, e, hp, hl, hx⟩
      cases hp with
      | nil =>
        rcases hx with hx | ⟨s2, ist2, e2, hx⟩ <;> rw [hx]
      | some hN hp =>
        rw [hN]; simp only
        exact (ih _ _ _ _).2 ⟨_, _, _, _, hp, by simpa using hl, hx⟩

/-- conversely for `foldl`: with enough fuel the loop returns the left fold of the stream, unless
    the no-progress assertion fires -/
theorem sFoldlLoop_complete {g : Val → Val → Val} {s ist vs s' e} (h : Items N env ctx it s ist vs s' e) :
    ∀ fuel acc em, vs.length < fuel →
      sFoldlLoop N env ctx it (fun a x _ => g a x) fuel s ist acc em = .ok (vs.foldl g acc) s' (em ++ e) ∨
      sFoldlLoop N env ctx it (fun a x _ => g a x) fuel s ist acc em = .panic pNoProgress := by
  induction h with
  | done h =>
    intro fuel acc em hf
    cases fuel with
    | zero => cases hf
    | succ fuel => left; simp [sFoldlLoop, h]
  | @some s0 ist0 w s1 ist1 e1 vs s2 e2 h _ ih =>
    intro fuel acc em hf
    cases fuel with
    | zero => cases hf
    | succ fuel =>
      unfold sFoldlLoop
      rw [h]; simp only
      split
      · right; rfl
      · have := ih fuel (g acc w) (em ++ e1) (by simpa using hf)
        simpa using this

/-- conversely for the counted loop -/
theorem sIterLoop_complete {ap : Bool} {s ist vs s' e} (h : Items N env ctx it s ist vs s' e) :
    ∀ fuel em, vs.length < fuel →
      sIterLoop N env ctx it ap fuel s ist em = .ok .unit s' (em ++ e) ∨
      sIterLoop N env ctx it ap fuel s ist em = .panic pNoProgress := by
  induction h with
  | done h =>
    intro fuel em hf
    cases fuel with
    | zero => cases hf
    | succ fuel => left; simp [sIterLoop, h]
  | @some s0 ist0 w s1 ist1 e1 vs s2 e2 h _ ih =>
    intro fuel em hf
    cases fuel with
    | zero => cases hf
    | succ fuel =>
      unfold sIterLoop
      rw [h]; simp only
      split
      · right; rfl
      · have := ih fuel (em ++ e1) (by simpa using hf)
        simpa using this

end generic

/-! ## 3. `repeated` -/

/-- a run of consecutive successful items -/
inductive Chain (P : SRunner) (env : Env) (ctx : Val) (a : G) : SS → List Val → SS → List Emis → Prop
  | nil (s) : Chain P env ctx a s [] s []
  | cons {s v s1 e1 vs s2 e2} : P env a s ctx = .ok v s1 e1 → Chain P env ctx a s1 vs s2 e2 →
      Chain P env ctx a s (v :: vs) s2 (e1 ++ e2)

section repeated
variable {P : SRunner} {N : SNextRunner} {env : Env} {ctx : Val} {a : G} {lo : Nat} {hi : Option Nat}

theorem sRepeatedNext_some_iff {s k v s1 ist1 e1} :
    sRepeatedNext P env ctx a lo hi s k id = .some v s1 ist1 e1 ↔
      capReached hi k = false ∧ P env a s ctx = .ok v s1 e1 ∧ ist1 = .cnt (k + 1) := by
  unfold sRepeatedNext
  cases hc : capReached hi k <;> simp only [Bool.false_eq_true, if_false, if_true]
  · cases hP : P env a s ctx with
    | ok w t em => simp; grind
    | fail => simp; split <;> simp
    | panic w => simp
    | oof => simp
  · simp

theorem sRepeatedNext_done_iff {s k s' ist' em} :
    sRepeatedNext P env ctx a lo hi s k id = .done s' ist' em ↔
      s' = s ∧ ist' = .cnt k ∧ em = [] ∧
        (capReached hi k = true ∨ (capReached hi k = false ∧ P env a s ctx = .fail ∧ lo ≤ k)) := by
  unfold sRepeatedNext
  cases hc : capReached hi k <;> simp only [Bool.false_eq_true, if_false, if_true]
  · cases hP : P env a s ctx with
    | ok w t em => simp
    | fail => simp; split <;> simp [*, eq_comm]
    | panic w => simp
    | oof => simp
  · simp [eq_comm]

theorem sRepeatedNext_fail_iff {s k} :
    sRepeatedNext P env ctx a lo hi s k id = .fail ↔
      capReached hi k = false ∧ P env a s ctx = .fail ∧ k < lo := by
  unfold sRepeatedNext
  cases hc : capReached hi k <;> simp only [Bool.false_eq_true, if_false, if_true]
  · cases hP : P env a s ctx with
    | ok w t em => simp
    | fail => simp
    | panic w => simp
    | oof => simp
  · simp

/-- **greedy and possessive.** The stream of `repeated` from count `k` is a chain of consecutive
    successful items which ends only where the cap is reached or where the item fails (never
    earlier); in the latter case the count is at least `lo`; the final position is just after the
    last item. (At the cap `next` says `done` without looking at `lo`: see `repeated_items_iff_wf`
    for well-formed bounds.) -/
theorem repeated_items_iff
    (hN : ∀ s k, N env (.repeated a lo hi) s ctx (.cnt k) = sRepeatedNext P env ctx a lo hi s k id)
    {s k vs s' e} :
    Items N env ctx (.repeated a lo hi) s (.cnt k) vs s' e ↔
      Chain P env ctx a s vs s' e ∧
      (capReached hi (k + vs.length) = true ∨ (P env a s' ctx = .fail ∧ lo ≤ k + vs.length)) ∧
      (∀ j < vs.length, capReached hi (k + j) = false) := by
  constructor
  · intro h
    generalize hist : ItSt.cnt k = ist at h
    induction h generalizing k with
    | done h =>
      subst hist
      rw [hN, sRepeatedNext_done_iff] at h
      obtain ⟨rfl, -, rfl, h⟩ := h
      refine ⟨.nil _, ?_, by simp⟩
      rcases h with h | ⟨_, h, h'⟩
      · left; simpa using h
      · right; exact ⟨h, by simpa using h'⟩
    | some h _ ih =>
      subst hist
      rw [hN, sRepeatedNext_some_iff] at h
      obtain ⟨hc, hP, rfl⟩ := h
      obtain ⟨hch, hstop, hcap⟩ := ih rfl
      refine ⟨.cons hP hch, ?_, ?_⟩
      · simpa [Nat.add_assoc, Nat.add_comm 1] using hstop
      · intro j hj
        cases j with
        | zero => simpa using hc
        | succ j =>
          have := hcap j (by simpa using hj)
          simpa [Nat.add_assoc, Nat.add_comm 1] using this
  · rintro ⟨hch, hstop, hcap⟩
    induction hch generalizing k with
    | nil s =>
      refine .done (ist' := .cnt k) ?_
      rw [hN, sRepeatedNext_done_iff]
      refine ⟨rfl, rfl, rfl, ?_⟩
      cases hc : capReached hi k with
      | true => left; rfl
      | false =>
        right
        rcases hstop with h | ⟨h, h'⟩
        · simp [hc] at h
        · exact ⟨rfl, h, by simpa using h'⟩
    | cons hP _ ih =>
      refine .some (ist1 := .cnt (k + 1)) ?_ (ih ?_ ?_)
      · rw [hN, sRepeatedNext_some_iff]
        exact ⟨by simpa using hcap 0 (by simp), hP, rfl⟩
      · simpa [Nat.add_assoc, Nat.add_comm 1] using hstop
      · intro j hj
        have := hcap (j + 1) (by simpa using hj)
        simpa [Nat.add_assoc, Nat.add_comm 1] using this

theorem capReached_true_iff {hi : Option Nat} {n : Nat} :
    capReached hi n = true ↔ ∃ h, hi = some h ∧ h ≤ n := by
  cases hi <;> simp [capReached]

theorem capReached_false_iff {hi : Option Nat} {n : Nat} :
    capReached hi n = false ↔ ∀ h, hi = some h → n < h := by
  cases hi <;> simp [capReached]

/-- with well-formed bounds (`at_least ≤ at_most`) the form of the design: the count is within
    `[lo, hi]`, and the chain stops only at the cap or where the item fails -/
theorem repeated_items_iff_wf
    (hN : ∀ s k, N env (.repeated a lo hi) s ctx (.cnt k) = sRepeatedNext P env ctx a lo hi s k id)
    (hwf : ∀ h, hi = some h → lo ≤ h) {s k vs s' e} :
    Items N env ctx (.repeated a lo hi) s (.cnt k) vs s' e ↔
      Chain P env ctx a s vs s' e ∧ lo ≤ k + vs.length ∧
      (capReached hi (k + vs.length) = true ∨ P env a s' ctx = .fail) ∧
      (∀ j < vs.length, capReached hi (k + j) = false) := by
  rw [repeated_items_iff hN]
  constructor
  · rintro ⟨hch, hstop, hcap⟩
    refine ⟨hch, ?_, ?_, hcap⟩
    · rcases hstop with h | ⟨_, h⟩
      · obtain ⟨m, hm, hle⟩ := capReached_true_iff.1 h
        exact Nat.le_trans (hwf m hm) hle
      · exact h
    · rcases hstop with h | ⟨h, _⟩
      · exact .inl h
      · exact .inr h
  · rintro ⟨hch, hlo, hstop, hcap⟩
    refine ⟨hch, ?_, hcap⟩
    rcases hstop with h | h
    · exact .inl h
    · exact .inr ⟨h, hlo⟩

/-- driving `next` of `repeated` fails iff there is a chain of `j` items with `k + j < lo`, no cap
    reached on the way, and the item fails after it -/
theorem repeated_itemsFail_iff
    (hN : ∀ s k, N env (.repeated a lo hi) s ctx (.cnt k) = sRepeatedNext P env ctx a lo hi s k id)
    {s k vs s'} :
    ItemsFail N env ctx (.repeated a lo hi) s (.cnt k) vs s' ↔
      ∃ e, Chain P env ctx a s vs s' e ∧ k + vs.length < lo ∧ P env a s' ctx = .fail ∧
        (∀ j ≤ vs.length, capReached hi (k + j) = false) := by
  induction vs generalizing s k with
  | nil =>
    rw [ItemsFail_nil, hN, sRepeatedNext_fail_iff]
    constructor
    · rintro ⟨rfl, hc, hP, hk⟩
      exact ⟨[], .nil _, by simpa using hk, hP, by simpa using hc⟩
    · rintro ⟨e, hch, hk, hP, hc⟩
      cases hch
      exact ⟨rfl, by simpa using hc 0, hP, by simpa using hk⟩
  | cons v vs ih =>
    rw [ItemsFail_cons]
    constructor
    · rintro ⟨s1, ist1, e1, hn, hf⟩
      rw [hN, sRepeatedNext_some_iff] at hn
      obtain ⟨hc, hP, rfl⟩ := hn
      obtain ⟨e, hch, hk, hPf, hcap⟩ := ih.1 hf
      refine ⟨_, .cons hP hch, by simp; omega, hPf, ?_⟩
      intro j hj
      cases j with
      | zero => simpa using hc
      | succ j =>
        have := hcap j (by simpa using hj)
        simpa [Nat.add_assoc, Nat.add_comm 1] using this
    · rintro ⟨e, hch, hk, hPf, hcap⟩
      cases hch with
      | @cons _ _ s1 e1 _ _ e2 hP hch =>
        refine ⟨s1, .cnt (k + 1), e1, ?_, ih.2 ⟨e2, hch, by simp at hk; omega, hPf, ?_⟩⟩
        · rw [hN, sRepeatedNext_some_iff]
          exact ⟨by simpa using hcap 0 (by simp), hP, rfl⟩
        · intro j hj
          have := hcap (j + 1) (by simpa using hj)
          simpa [Nat.add_assoc, Nat.add_comm 1] using this

/-- a prefix of the stream of `repeated`: a chain with no cap reached on the way (`lo` plays no role) -/
theorem repeated_itemsPre_iff
    (hN : ∀ s k, N env (.repeated a lo hi) s ctx (.cnt k) = sRepeatedNext P env ctx a lo hi s k id)
    {s k vs s' ist' e} :
    ItemsPre N env ctx (.repeated a lo hi) s (.cnt k) vs s' ist' e ↔
      Chain P env ctx a s vs s' e ∧ ist' = .cnt (k + vs.length) ∧
      (∀ j < vs.length, capReached hi (k + j) = false) := by
  constructor
  · intro h
    generalize hist : ItSt.cnt k = ist at h
    induction h generalizing k with
    | nil => subst hist; exact ⟨.nil _, rfl, by simp⟩
    | some h _ ih =>
      subst hist
      rw [hN, sRepeatedNext_some_iff] at h
      obtain ⟨hc, hP, rfl⟩ := h
      obtain ⟨hch, hist, hcap⟩ := ih rfl
      refine ⟨.cons hP hch, by simp [hist, Nat.add_assoc, Nat.add_comm 1], ?_⟩
      intro j hj
      cases j with
      | zero => simpa using hc
      | succ j =>
        have := hcap j (by simpa using hj)
        simpa [Nat.add_assoc, Nat.add_comm 1] using this
  · rintro ⟨hch, rfl, hcap⟩
    induction hch generalizing k with
    | nil s => exact .nil _ _
    | @cons s0 w s1 e1 ws s2 e2 hP _ ih =>
      have h1 : N env (.repeated a lo hi) s0 ctx (.cnt k) = .some w s1 (.cnt (k + 1)) e1 := by
        rw [hN, sRepeatedNext_some_iff]
        exact ⟨by simpa using hcap 0 (by simp), hP, rfl⟩
      have h2 := ih (k := k + 1) (by
        intro j hj
        have := hcap (j + 1) (by simpa using hj)
        simpa [Nat.add_assoc, Nat.add_comm 1] using this)
      have := ItemsPre.some h1 h2
      simpa [Nat.add_assoc, Nat.add_comm 1] using this

/-- the C02 reading of a fresh `repeated`: a chain of items in input order, at most `hi` of them,
    which stops only because `hi` items were taken or because the item fails just after the last
    one (and then at least `lo` were taken) -/
def RepRun (P : SRunner) (env : Env) (ctx : Val) (a : G) (lo : Nat) (hi : Option Nat)
    (s : SS) (vs : List Val) (s' : SS) (e : List Emis) : Prop :=
  Chain P env ctx a s vs s' e ∧ (∀ h, hi = some h → vs.length ≤ h) ∧
  (hi = some vs.length ∨ (P env a s' ctx = .fail ∧ lo ≤ vs.length))

theorem RepRun.chain {s vs s' e} (h : RepRun P env ctx a lo hi s vs s' e) : Chain P env ctx a s vs s' e := h.1
theorem RepRun.le_hi {s vs s' e} (h : RepRun P env ctx a lo hi s vs s' e) :
    ∀ m, hi = some m → vs.length ≤ m := h.2.1
theorem RepRun.stop {s vs s' e} (h : RepRun P env ctx a lo hi s vs s' e) :
    hi = some vs.length ∨ P env a s' ctx = .fail := by
  rcases h.2.2 with h | h
  · exact .inl h
  · exact .inr h.1
/-- with `at_least ≤ at_most` the count is at least `lo` -/
theorem RepRun.lo_le {s vs s' e} (h : RepRun P env ctx a lo hi s vs s' e) (hwf : ∀ m, hi = some m → lo ≤ m) :
    lo ≤ vs.length := by
  rcases h.2.2 with h | h
  · exact hwf _ h
  · exact h.2

theorem forall_lt_lt_iff {n h : Nat} : (∀ j < n, j < h) ↔ n ≤ h := by
  constructor
  · intro H
    cases n with
    | zero => omega
    | succ n => have := H n (by omega); omega
  · intro H j hj; omega

/-- the stream of a fresh `repeated` is exactly a `RepRun` -/
theorem repeated_items_zero
    (hN : ∀ s k, N env (.repeated a lo hi) s ctx (.cnt k) = sRepeatedNext P env ctx a lo hi s k id)
    {s vs s' e} :
    Items N env ctx (.repeated a lo hi) s (.cnt 0) vs s' e ↔ RepRun P env ctx a lo hi s vs s' e := by
  rw [repeated_items_iff hN]
  unfold RepRun
  simp only [Nat.zero_add]
  cases hi with
  | none => simp [capReached]
  | some h =>
    simp only [capReached, ge_iff_le, decide_eq_true_eq, decide_eq_false_iff_not, Nat.not_le,
      forall_lt_lt_iff, Option.some.injEq, forall_eq']
    constructor
    · rintro ⟨hc, hs, hl⟩
      refine ⟨hc, hl, ?_⟩
      rcases hs with hs | hs
      · left; omega
      · right; exact hs
    · rintro ⟨hc, hl, hs⟩
      refine ⟨hc, ?_, hl⟩
      rcases hs with hs | hs
      · left; omega
      · right; exact hs

/-- the fast path of `Repeated::go` (`at_least = 0`, unbounded): items until the item fails -/
theorem sRepeatFast_sound : ∀ fuel s em v s' em',
    sRepeatFast P env ctx a fuel s em = .ok v s' em' →
    ∃ vs e, RepRun P env ctx a 0 none s vs s' e ∧ v = .unit ∧ em' = em ++ e := by
  intro fuel
  induction fuel with
  | zero => intro s em v s' em' h; simp [sRepeatFast] at h
  | succ fuel ih =>
    intro s em v s' em' h
    unfold sRepeatFast at h
    cases hP : P env a s ctx with
    | ok w s1 e1 =>
      rw [hP] at h; simp only at h
      split at h
      · cases h
      · obtain ⟨vs, e, ⟨hch, _, hs⟩, hv, he⟩ := ih _ _ _ _ _ h
        refine ⟨w :: vs, e1 ++ e, ⟨.cons hP hch, by simp, ?_⟩, hv, by simp [he]⟩
        rcases hs with hs | hs
        · cases hs
        · exact .inr ⟨hs.1, Nat.zero_le _⟩
    | fail =>
      rw [hP] at h; simp only [SOut.ok.injEq] at h
      obtain ⟨rfl, rfl, rfl⟩ := h
      exact ⟨[], [], ⟨.nil _, by simp, .inr ⟨hP, Nat.le_refl _⟩⟩, rfl, by simp⟩
    | panic w => rw [hP] at h; cases h
    | oof => rw [hP] at h; cases h

end repeated

/-! ### `enumerate` -/

/-- the items numbered from `k` -/
def enumVals : Nat → List Val → List Val
  | _, [] => []
  | k, v :: vs => .pair (.nat k) v :: enumVals (k + 1) vs

theorem enumVals_length (k : Nat) (vs : List Val) : (enumVals k vs).length = vs.length := by
  induction vs generalizing k with
  | nil => rfl
  | cons v vs ih => simp [enumVals, ih]

/-- `enumerate` sees exactly the stream of the inner iterator, each item paired with its index -/
theorem enumerate_items_iff {N N' : SNextRunner} {env : Env} {ctx : Val} {inner : It}
    (hN : ∀ s k st, N env (.enumerate inner) s ctx (.enum k st) =
      match N' env inner s ctx st with
      | .some v s1 st1 em => .some (.pair (.nat k) v) s1 (.enum (k + 1) st1) em
      | .done s1 st1 em => .done s1 (.enum (k + 1) st1) em
      | .fail => .fail
      | .panic w => .panic w
      | .oof => .oof) {s k st vs s' e} :
    Items N env ctx (.enumerate inner) s (.enum k st) vs s' e ↔
      ∃ ws, Items N' env ctx inner s st ws s' e ∧ vs = enumVals k ws := by
  constructor
  · intro h
    generalize hist : ItSt.enum k st = ist at h
    induction h generalizing k st with
    | done h =>
      subst hist
      rw [hN] at h
      cases hN' : N' env inner _ ctx st with
      | some w s1 st1 e1 => rw [hN'] at h; cases h
      | done s1 st1 e1 =>
        rw [hN'] at h; simp only [SItOut.done.injEq] at h
        obtain ⟨rfl, -, rfl⟩ := h
        exact ⟨[], .done hN', rfl⟩
      | fail => rw [hN'] at h; cases h
      | panic w => rw [hN'] at h; cases h
      | oof => rw [hN'] at h; cases h
    | some h _ ih =>
      subst hist
      rw [hN] at h
      cases hN' : N' env inner _ ctx st with
      | some w s1 st1 e1 =>
        rw [hN'] at h; simp only [SItOut.some.injEq] at h
        obtain ⟨rfl, rfl, rfl, rfl⟩ := h
        obtain ⟨ws, hI, rfl⟩ := ih rfl
        exact ⟨w :: ws, .some hN' hI, rfl⟩
      | done s1 st1 e1 => rw [hN'] at h; cases h
      | fail => rw [hN'] at h; cases h
      | panic w => rw [hN'] at h; cases h
      | oof => rw [hN'] at h; cases h
  · rintro ⟨ws, h, rfl⟩
    induction h generalizing k with
    | @done s0 st0 s1 st1 e1 h =>
      refine .done (ist' := .enum (k + 1) st1) ?_
      rw [hN, h]
    | @some s0 st0 w s1 st1 e1 ws s2 e2 h _ ih =>
      refine .some (ist1 := .enum (k + 1) st1) ?_ ih
      rw [hN, h]

/-! ### top level: `peg` -/

section top
variable {env : Env} {ctx : Val}

theorem peg_succ (n : Nat) : peg (n + 1) = pegStep (peg n) (pegNext' n) (pegMk' n) n := by rw [peg]
theorem pegNext'_succ (n : Nat) : pegNext' (n + 1) = pegNext (peg n) (pegNext' n) (pegMk' n) := by rw [pegNext']
theorem pegMk'_succ (n : Nat) : pegMk' (n + 1) = pegMk (peg n) (pegMk' n) := by rw [pegMk']

theorem pegNext'_repeated (n : Nat) {a lo hi} (s : SS) (k : Nat) :
    pegNext' (n + 1) env (.repeated a lo hi) s ctx (.cnt k) = sRepeatedNext (peg n) env ctx a lo hi s k id := by
  rw [pegNext'_succ]; rfl

theorem pegMk'_repeated (n : Nat) {a lo hi} (s : SS) :
    pegMk' (n + 1) env (.repeated a lo hi) s ctx = .ok (.cnt 0) s [] := by
  rw [pegMk'_succ]; rfl

/-- `collect` at top level: the iterator is made, then its whole stream is collected, in order -/
theorem peg_collect_items {n k it s v s' em} (h : peg (n + 1) env (.collect k it) s ctx = .ok v s' em) :
    ∃ ist s1 e1 vs e2, pegMk' n env it s ctx = .ok ist s1 e1 ∧
      Items (pegNext' n) env ctx it s1 ist vs s' e2 ∧ v = sCollectOut k vs ∧ em = e1 ++ e2 := by
  rw [peg_succ] at h
  simp only [pegStep] at h
  cases hK : pegMk' n env it s ctx with
  | ok ist s1 e1 =>
    rw [hK] at h; simp only at h
    obtain ⟨vs, e, hI, hv, he⟩ := sCollectLoop_sound _ _ _ _ _ _ _ _ _ h
    exact ⟨ist, s1, e1, vs, e, rfl, hI, by simpa using hv, he⟩
  | fail => rw [hK] at h; cases h
  | panic w => rw [hK] at h; cases h
  | oof => rw [hK] at h; cases h

/-- `collect_exactly(m)` at top level: exactly `m` calls of `next` return items -/
theorem peg_collectExactly_items {n m it s v s' em} :
    peg (n + 1) env (.collectExactly m it) s ctx = .ok v s' em ↔
    ∃ ist s1 e1 vs ist' e2, pegMk' n env it s ctx = .ok ist s1 e1 ∧
      ItemsPre (pegNext' n) env ctx it s1 ist vs s' ist' e2 ∧ vs.length = m ∧
      v = Val.ofList vs ∧ em = e1 ++ e2 := by
  rw [peg_succ]
  simp only [pegStep]
  cases hK : pegMk' n env it s ctx with
  | ok ist s1 e1 =>
    simp only [sCollectExactlyLoop_ok, SMkOut.ok.injEq]
    constructor
    · rintro ⟨vs, ist', e, hp, hl, hv, he⟩
      exact ⟨ist, s1, e1, vs, ist', e, ⟨rfl, rfl, rfl⟩, hp, hl, by simpa using hv, he⟩
    · rintro ⟨_, _, _, vs, ist', e, ⟨rfl, rfl, rfl⟩, hp, hl, hv, he⟩
      exact ⟨vs, ist', e, hp, hl, by simpa using hv, he⟩
  | fail => simp
  | panic w => simp
  | oof => simp

/-- `foldl` at top level: the stream folded from the left, starting from the value of `a0` -/
theorem peg_foldl_items {n f a0 it s v s' em} (h : peg (n + 1) env (.foldl f a0 it) s ctx = .ok v s' em) :
    ∃ v0 s0 e0 ist s1 e1 vs e2, peg n env a0 s ctx = .ok v0 s0 e0 ∧
      pegMk' n env it s0 ctx = .ok ist s1 e1 ∧
      Items (pegNext' n) env ctx it s1 ist vs s' e2 ∧ v = vs.foldl f.evalL v0 ∧ em = e0 ++ e1 ++ e2 := by
  rw [peg_succ] at h
  simp only [pegStep] at h
  cases hA : peg n env a0 s ctx with
  | ok v0 s0 e0 =>
    rw [hA] at h; simp only [SOut.andThen] at h
    cases hK : pegMk' n env it s0 ctx with
    | ok ist s1 e1 =>
      rw [hK] at h; simp only at h
      obtain ⟨vs, e, hI, hv, he⟩ := sFoldlLoop_sound (g := f.evalL) _ _ _ _ _ _ _ _ h
      exact ⟨v0, s0, e0, ist, s1, e1, vs, e, rfl, hK, hI, hv, he⟩
    | fail => rw [hK] at h; cases h
    | panic w => rw [hK] at h; cases h
    | oof => rw [hK] at h; cases h
  | fail => rw [hA] at h; cases h
  | panic w => rw [hA] at h; cases h
  | oof => rw [hA] at h; cases h

/-- `foldr` at top level: the stream folded from the right onto the value of `b` -/
theorem peg_foldr_items {n f it b s v s' em} (h : peg (n + 1) env (.foldr f it b) s ctx = .ok v s' em) :
    ∃ ist s1 e1 vs s2 e2 vb e3, pegMk' n env it s ctx = .ok ist s1 e1 ∧
      Items (pegNext' n) env ctx it s1 ist vs s2 e2 ∧ peg n env b s2 ctx = .ok vb s' e3 ∧
      v = List.foldr f.evalR vb vs ∧ em = e1 ++ e2 ++ e3 := by
  rw [peg_succ] at h
  simp only [pegStep] at h
  cases hK : pegMk' n env it s ctx with
  | ok ist s1 e1 =>
    rw [hK] at h; simp only at h
    cases hF : sFoldrCollect (pegNext' n) env ctx it n s1 ist [] e1 with
    | inr o => rw [hF] at h; simp only at h; subst h; exact absurd hF (sFoldrCollect_ne_ok _ _ _ _ _ _ _ _)
    | inl r =>
      cases r with
      | none => rw [hF] at h; cases h
      | some r =>
        obtain ⟨items, s2, e2'⟩ := r
        rw [hF] at h; simp only at h
        obtain ⟨vs, e2, hI, hv, he⟩ := sFoldrCollect_sound _ _ _ _ _ _ _ _ hF
        cases hB : peg n env b s2 ctx with
        | ok vb s3 e3 =>
          rw [hB] at h; simp only [SOut.andThen, SOut.ok.injEq] at h
          obtain ⟨rfl, rfl, rfl⟩ := h
          refine ⟨ist, s1, e1, vs, s2, e2, vb, e3, rfl, hI, hB, ?_, by simp [he]⟩
          rw [foldr_final, hv]; simp
        | fail => rw [hB] at h; cases h
        | panic w => rw [hB] at h; cases h
        | oof => rw [hB] at h; cases h
  | fail => rw [hK] at h; cases h
  | panic w => rw [hK] at h; cases h
  | oof => rw [hK] at h; cases h

/-- `IterParser` used as a plain parser (counted loop, `repeated`/`separated_by`): the stream is
    driven to its end, output `()` -/
theorem pegStep_iterP_repeated_slow {P N K L} {a lo hi s} (h : lo ≠ 0 ∨ hi ≠ none) :
    pegStep P N K L env (.iterP (.repeated a lo hi)) s ctx =
      match K env (.repeated a lo hi) s ctx with
      | .ok ist s1 em => sIterLoop N env ctx (.repeated a lo hi) true L s1 ist em
      | .fail => .fail
      | .panic w => .panic w
      | .oof => .oof := by
  rcases lo with _ | lo <;> rcases hi with _ | hi <;> simp at h <;> rfl

theorem pegStep_iterP_separatedBy {P N K L} {a sep lo hi lead trail s} :
    pegStep P N K L env (.iterP (.separatedBy a sep lo hi lead trail)) s ctx =
      match K env (.separatedBy a sep lo hi lead trail) s ctx with
      | .ok ist s1 em => sIterLoop N env ctx (.separatedBy a sep lo hi lead trail) true L s1 ist em
      | .fail => .fail
      | .panic w => .panic w
      | .oof => .oof := rfl

/-! #### `repeated` under each consumer -/

/-- `repeated().collect()` -/
theorem peg_collect_repeated {n k a lo hi s v s' em}
    (h : peg (n + 2) env (.collect k (.repeated a lo hi)) s ctx = .ok v s' em) :
    ∃ vs, RepRun (peg n) env ctx a lo hi s vs s' em ∧ v = sCollectOut k vs := by
  obtain ⟨ist, s1, e1, vs, e2, hK, hI, hv, rfl⟩ := peg_collect_items h
  rw [pegMk'_repeated] at hK
  cases hK
  exact ⟨vs, by simpa using (repeated_items_zero (pegNext'_repeated n)).1 hI, hv⟩

/-- `repeated().collect::<Vec<_>>()` in the form of the design (bounds well-formed) -/
theorem peg_collect_vec_repeated {n a lo hi s v s' em} (hwf : ∀ h, hi = some h → lo ≤ h)
    (h : peg (n + 2) env (.collect .vec (.repeated a lo hi)) s ctx = .ok v s' em) :
    ∃ vs, Chain (peg n) env ctx a s vs s' em ∧ v = Val.ofList vs ∧ lo ≤ vs.length ∧
      (∀ h, hi = some h → vs.length ≤ h) ∧ (hi = some vs.length ∨ peg n env a s' ctx = .fail) := by
  obtain ⟨vs, hr, rfl⟩ := peg_collect_repeated h
  exact ⟨vs, hr.chain, rfl, hr.lo_le hwf, hr.le_hi, hr.stop⟩

/-- `repeated().count()` -/
theorem peg_collect_count_repeated {n a lo hi s v s' em} (hwf : ∀ h, hi = some h → lo ≤ h)
    (h : peg (n + 2) env (.collect .count (.repeated a lo hi)) s ctx = .ok v s' em) :
    ∃ vs, Chain (peg n) env ctx a s vs s' em ∧ v = .nat vs.length ∧ lo ≤ vs.length ∧
      (∀ h, hi = some h → vs.length ≤ h) ∧ (hi = some vs.length ∨ peg n env a s' ctx = .fail) := by
  obtain ⟨vs, hr, rfl⟩ := peg_collect_repeated h
  exact ⟨vs, hr.chain, rfl, hr.lo_le hwf, hr.le_hi, hr.stop⟩

/-- `a0.foldl(repeated(), f)` -/
theorem peg_foldl_repeated {n f a0 a lo hi s v s' em}
    (h : peg (n + 2) env (.foldl f a0 (.repeated a lo hi)) s ctx = .ok v s' em) :
    ∃ v0 s0 e0 vs e, peg (n + 1) env a0 s ctx = .ok v0 s0 e0 ∧
      RepRun (peg n) env ctx a lo hi s0 vs s' e ∧ v = vs.foldl f.evalL v0 ∧ em = e0 ++ e := by
  obtain ⟨v0, s0, e0, ist, s1, e1, vs, e2, hA, hK, hI, hv, rfl⟩ := peg_foldl_items h
  rw [pegMk'_repeated] at hK
  cases hK
  exact ⟨v0, s0, e0, vs, e2, hA, (repeated_items_zero (pegNext'_repeated n)).1 hI, hv, by simp⟩

/-- `repeated().foldr(b, f)` -/
theorem peg_foldr_repeated {n f a lo hi b s v s' em}
    (h : peg (n + 2) env (.foldr f (.repeated a lo hi) b) s ctx = .ok v s' em) :
    ∃ vs s2 e2 vb e3, RepRun (peg n) env ctx a lo hi s vs s2 e2 ∧
      peg (n + 1) env b s2 ctx = .ok vb s' e3 ∧ v = List.foldr f.evalR vb vs ∧ em = e2 ++ e3 := by
  obtain ⟨ist, s1, e1, vs, s2, e2, vb, e3, hK, hI, hB, hv, rfl⟩ := peg_foldr_items h
  rw [pegMk'_repeated] at hK
  cases hK
  exact ⟨vs, s2, e2, vb, e3, (repeated_items_zero (pegNext'_repeated n)).1 hI, hB, hv, by simp⟩

/-- `repeated()` as a plain parser, counted loop (`at_least > 0` or bounded) -/
theorem peg_iterP_repeated_slow {n a lo hi s v s' em} (hb : lo ≠ 0 ∨ hi ≠ none)
    (h : peg (n + 2) env (.iterP (.repeated a lo hi)) s ctx = .ok v s' em) :
    ∃ vs, RepRun (peg n) env ctx a lo hi s vs s' em ∧ v = .unit := by
  rw [peg_succ, pegStep_iterP_repeated_slow hb, pegMk'_repeated] at h
  simp only at h
  obtain ⟨vs, e, hI, hv, he⟩ := sIterLoop_sound _ _ _ _ _ _ _ h
  refine ⟨vs, ?_, hv⟩
  have := (repeated_items_zero (pegNext'_repeated n)).1 hI
  simpa [he] using this

/-- `repeated()` as a plain parser, fast path (`at_least = 0`, unbounded): the items are run by the
    enclosing level directly -/
theorem peg_iterP_repeated_fast {n a s v s' em}
    (h : peg (n + 1) env (.iterP (.repeated a 0 none)) s ctx = .ok v s' em) :
    ∃ vs, RepRun (peg n) env ctx a 0 none s vs s' em ∧ v = .unit := by
  rw [peg_succ] at h
  simp only [pegStep] at h
  obtain ⟨vs, e, hr, hv, he⟩ := sRepeatFast_sound _ _ _ _ _ _ h
  exact ⟨vs, by simpa [he] using hr, hv⟩

/-- `repeated().collect_exactly(m)`: succeeds iff `m` consecutive items match and `m ≤ at_most`;
    `at_least` is never consulted and nothing is tried after the `m`-th item -/
theorem peg_collectExactly_repeated {n m a lo hi s v s' em} :
    peg (n + 2) env (.collectExactly m (.repeated a lo hi)) s ctx = .ok v s' em ↔
    ∃ vs, Chain (peg n) env ctx a s vs s' em ∧ vs.length = m ∧ v = Val.ofList vs ∧
      (∀ h, hi = some h → m ≤ h) := by
  rw [peg_collectExactly_items]
  constructor
  · rintro ⟨ist, s1, e1, vs, ist', e2, hK, hp, rfl, rfl, rfl⟩
    rw [pegMk'_repeated] at hK
    cases hK
    obtain ⟨hch, _, hcap⟩ := (repeated_itemsPre_iff (pegNext'_repeated n)).1 hp
    refine ⟨vs, by simpa using hch, rfl, rfl, ?_⟩
    intro h hh
    refine forall_lt_lt_iff.1 (fun j hj => ?_)
    have := capReached_false_iff.1 (hcap j hj) h hh
    simpa using this
  · rintro ⟨vs, hch, rfl, rfl, hcap⟩
    refine ⟨_, _, _, vs, .cnt (0 + vs.length), em, pegMk'_repeated n s, ?_, rfl, rfl, by simp⟩
    refine (repeated_itemsPre_iff (pegNext'_repeated n)).2 ⟨hch, rfl, ?_⟩
    intro j hj
    rw [capReached_false_iff]
    intro h hh
    have := hcap h hh
    omega

theorem pegNext'_enumerate (n : Nat) {inner} (s : SS) (k : Nat) (st : ItSt) :
    pegNext' (n + 1) env (.enumerate inner) s ctx (.enum k st) =
      match pegNext' n env inner s ctx st with
      | .some v s1 st1 em => .some (.pair (.nat k) v) s1 (.enum (k + 1) st1) em
      | .done s1 st1 em => .done s1 (.enum (k + 1) st1) em
      | .fail => .fail
      | .panic w => .panic w
      | .oof => .oof := by
  rw [pegNext'_succ]; rfl

/-- `repeated().enumerate().collect()`: the same greedy run, each item paired with its index -/
theorem peg_collect_enumerate_repeated {n k a lo hi s v s' em}
    (h : peg (n + 3) env (.collect k (.enumerate (.repeated a lo hi))) s ctx = .ok v s' em) :
    ∃ vs, RepRun (peg n) env ctx a lo hi s vs s' em ∧ v = sCollectOut k (enumVals 0 vs) := by
  obtain ⟨ist, s1, e1, vs, e2, hK, hI, hv, rfl⟩ := peg_collect_items h
  have hK' : pegMk' (n + 2) env (.enumerate (.repeated a lo hi)) s ctx = .ok (.enum 0 (.cnt 0)) s [] := by
    rw [pegMk'_succ]; simp only [pegMk, pegMk'_repeated]
  rw [hK'] at hK
  cases hK
  obtain ⟨ws, hI', rfl⟩ := (enumerate_items_iff (pegNext'_enumerate (n + 1))).1 hI
  exact ⟨ws, by simpa using (repeated_items_zero (pegNext'_repeated n)).1 hI', hv⟩

end top

/-! ## 4. `separated_by` -/

/-- the item step of `SeparatedBy::next`, after the (optional) separator ended at `s0` with
    emissions `e0`; `s` is the position before the separator -/
def sepItem (P : SRunner) (env : Env) (ctx : Val) (a : G) (lo : Nat) (trail : Bool)
    (s : SS) (n : Nat) (s0 : SS) (e0 : List Emis) : SItOut :=
  match P env a s0 ctx with
  | .ok v s1 em => .some v s1 (.cnt (n + 1)) (e0 ++ em)
  | .fail =>
    if n < lo then .fail
    else if trail then .done s0 (.cnt n) e0
    else .done s (.cnt n) []
  | .panic w => .panic w
  | .oof => .oof

/-- the optional leading separator: taken iff `allow_leading` and it matches -/
inductive Lead (P : SRunner) (env : Env) (ctx : Val) (sep : G) (lead : Bool) (s : SS) :
    SS → List Emis → Prop
  | took {w s0 e0} : lead = true → P env sep s ctx = .ok w s0 e0 → Lead P env ctx sep lead s s0 e0
  | skip : (lead = false ∨ P env sep s ctx = .fail) → Lead P env ctx sep lead s s []

/-- the leading-separator step of `SeparatedBy::next` at count 0, followed by `X` -/
def leadStep (P : SRunner) (env : Env) (ctx : Val) (sep : G) (lead : Bool) (s : SS)
    (X : SS → List Emis → SItOut) : SItOut :=
  if lead then
    match P env sep s ctx with
    | .ok _ s1 e1 => X s1 e1
    | .fail => X s []
    | .panic w => .panic w
    | .oof => .oof
  else X s []

/-- `(sep item)*`: every separator is followed by an accepted item -/
inductive SepTail (P : SRunner) (env : Env) (ctx : Val) (a sep : G) :
    SS → List Val → SS → List Emis → Prop
  | nil (s) : SepTail P env ctx a sep s [] s []
  | cons {s w s1 e1 v s2 e2 vs s3 e3} : P env sep s ctx = .ok w s1 e1 → P env a s1 ctx = .ok v s2 e2 →
      SepTail P env ctx a sep s2 vs s3 e3 → SepTail P env ctx a sep s (v :: vs) s3 (e1 ++ e2 ++ e3)

/-- why and where the stream stops after `n ≥ 1` items, the last of which ended at `sm`:
    the result position and the emissions of what is consumed after `sm` -/
inductive SepStop (P : SRunner) (env : Env) (ctx : Val) (a sep : G) (lo : Nat) (hi : Option Nat)
    (trail : Bool) (n : Nat) (sm : SS) : SS → List Emis → Prop
  /-- the cap: no trailing separator is looked for (and `lo` is not consulted) -/
  | cap : capReached hi n = true → SepStop P env ctx a sep lo hi trail n sm sm []
  /-- the separator fails -/
  | sepFail : capReached hi n = false → P env sep sm ctx = .fail → lo ≤ n →
      SepStop P env ctx a sep lo hi trail n sm sm []
  /-- separator matched, item after it fails, `allow_trailing`: the separator is kept -/
  | itemFailKeep {w ss es} : capReached hi n = false → P env sep sm ctx = .ok w ss es →
      P env a ss ctx = .fail → lo ≤ n → trail = true → SepStop P env ctx a sep lo hi trail n sm ss es
  /-- separator matched, item after it fails, no `allow_trailing`: the separator is given back -/
  | itemFailBack {w ss es} : capReached hi n = false → P env sep sm ctx = .ok w ss es →
      P env a ss ctx = .fail → lo ≤ n → trail = false → SepStop P env ctx a sep lo hi trail n sm sm []

/-- the C02 reading of a fresh `separated_by`:
    `[sep]? item (sep item)* [sep]?` or nothing -/
inductive SepRun (P : SRunner) (env : Env) (ctx : Val) (a sep : G) (lo : Nat) (hi : Option Nat)
    (lead trail : Bool) (s : SS) : List Val → SS → List Emis → Prop
  /-- `at_most = 0` -/
  | capZero : capReached hi 0 = true → SepRun P env ctx a sep lo hi lead trail s [] s []
  /-- no item, `allow_trailing`: a leading separator that was taken is kept -/
  | emptyKeep {s0 e0} : capReached hi 0 = false → lo = 0 → Lead P env ctx sep lead s s0 e0 →
      P env a s0 ctx = .fail → trail = true → SepRun P env ctx a sep lo hi lead trail s [] s0 e0
  /-- no item, no `allow_trailing`: back to the start -/
  | emptyBack {s0 e0} : capReached hi 0 = false → lo = 0 → Lead P env ctx sep lead s s0 e0 →
      P env a s0 ctx = .fail → trail = false → SepRun P env ctx a sep lo hi lead trail s [] s []
  | items {s0 e0 v s1 e1 vs sm em s' et} : capReached hi 0 = false → Lead P env ctx sep lead s s0 e0 →
      P env a s0 ctx = .ok v s1 e1 → SepTail P env ctx a sep s1 vs sm em →
      SepStop P env ctx a sep lo hi trail (1 + vs.length) sm s' et →
      (∀ j < vs.length, capReached hi (1 + j) = false) →
      SepRun P env ctx a sep lo hi lead trail s (v :: vs) s' (e0 ++ e1 ++ (em ++ et))

section separated
variable {P : SRunner} {N : SNextRunner} {env : Env} {ctx : Val} {a sep : G} {lo : Nat}
  {hi : Option Nat} {lead trail : Bool}

theorem sSeparatedNext_pos {s n} (hn : 0 < n) :
    sSeparatedNext P env ctx a sep lo hi lead trail s n =
      if capReached hi n then .done s (.cnt n) [] else
        match P env sep s ctx with
        | .ok _ s1 e1 => sepItem P env ctx a lo trail s n s1 e1
        | .fail => if n < lo then .fail else .done s (.cnt n) []
        | .panic w => .panic w
        | .oof => .oof := by
  unfold sSeparatedNext sepItem
  have h0 : (n == 0) = false := by simp; omega
  simp only [h0, Bool.false_and, Bool.false_eq_true, if_false, gt_iff_lt, hn, if_true]
  rfl

theorem sSeparatedNext_zero {s} :
    sSeparatedNext P env ctx a sep lo hi lead trail s 0 =
      if capReached hi 0 then .done s (.cnt 0) [] else
        leadStep P env ctx sep lead s (sepItem P env ctx a lo trail s 0) := by
  unfold sSeparatedNext sepItem leadStep
  cases lead <;> simp <;> rfl

theorem leadStep_eq_iff {X : SS → List Emis → SItOut} {s r} (hp : ∀ w, r ≠ .panic w) (ho : r ≠ .oof) :
    leadStep P env ctx sep lead s X = r ↔ ∃ s0 e0, Lead P env ctx sep lead s s0 e0 ∧ X s0 e0 = r := by
  unfold leadStep
  cases lead with
  | false =>
    simp only [Bool.false_eq_true, if_false]
    constructor
    · intro h; exact ⟨s, [], .skip (.inl rfl), h⟩
    · rintro ⟨s0, e0, hl, h⟩
      cases hl with
      | took h' => cases h'
      | skip _ => exact h
  | true =>
    simp only [if_true]
    cases hS : P env sep s ctx with
    | ok w ss es =>
      simp only
      constructor
      · intro h; exact ⟨ss, es, .took rfl hS, h⟩
      · rintro ⟨s0, e0, hl, h⟩
        cases hl with
        | took _ h' => rw [hS] at h'; cases h'; exact h
        | skip h' => rcases h' with h' | h'; cases h'; rw [hS] at h'; cases h'
    | fail =>
      simp only
      constructor
      · intro h; exact ⟨s, [], .skip (.inr hS), h⟩
      · rintro ⟨s0, e0, hl, h⟩
        cases hl with
        | took _ h' => rw [hS] at h'; cases h'
        | skip _ => exact h
    | panic w =>
      simp only
      constructor
      · intro h; exact absurd h.symm (hp w)
      · rintro ⟨s0, e0, hl, h⟩
        cases hl with
        | took _ h' => rw [hS] at h'; cases h'
        | skip h' => rcases h' with h' | h'; cases h'; rw [hS] at h'; cases h'
    | oof =>
      simp only
      constructor
      · intro h; exact absurd h.symm ho
      · rintro ⟨s0, e0, hl, h⟩
        cases hl with
        | took _ h' => rw [hS] at h'; cases h'
        | skip h' => rcases h' with h' | h'; cases h'; rw [hS] at h'; cases h'

theorem sepItem_some_iff {s n s0 e0 v s1 ist1 e} :
    sepItem P env ctx a lo trail s n s0 e0 = .some v s1 ist1 e ↔
      ∃ em, P env a s0 ctx = .ok v s1 em ∧ ist1 = .cnt (n + 1) ∧ e = e0 ++ em := by
  unfold sepItem
  cases hP : P env a s0 ctx with
  | ok w t em => simp; grind
  | fail =>
    simp only [reduceCtorEq, false_and, exists_false, iff_false]
    intro h
    split at h
    · cases h
    · split at h <;> cases h
  | panic w => simp
  | oof => simp

theorem sepItem_done_iff {s n s0 e0 s' ist' e} :
    sepItem P env ctx a lo trail s n s0 e0 = .done s' ist' e ↔
      P env a s0 ctx = .fail ∧ lo ≤ n ∧ ist' = .cnt n ∧
        ((trail = true ∧ s' = s0 ∧ e = e0) ∨ (trail = false ∧ s' = s ∧ e = [])) := by
  unfold sepItem
  cases hP : P env a s0 ctx with
  | ok w t em => simp
  | fail =>
    simp only [true_and]
    split
    · simp; omega
    · cases trail <;> simp <;> grind
  | panic w => simp
  | oof => simp

theorem sepItem_fail_iff {s n s0 e0} :
    sepItem P env ctx a lo trail s n s0 e0 = .fail ↔ P env a s0 ctx = .fail ∧ n < lo := by
  unfold sepItem
  cases hP : P env a s0 ctx with
  | ok w t em => simp
  | fail =>
    simp only [true_and]
    split
    · simp [*]
    · cases trail <;> simp [*]
  | panic w => simp
  | oof => simp

theorem sSeparatedNext_pos_done_iff {s n s' ist' e} (hn : 0 < n) :
    sSeparatedNext P env ctx a sep lo hi lead trail s n = .done s' ist' e ↔
      ist' = .cnt n ∧ SepStop P env ctx a sep lo hi trail n s s' e := by
  rw [sSeparatedNext_pos hn]
  cases hc : capReached hi n with
  | true =>
    simp only [if_true, SItOut.done.injEq]
    constructor
    · rintro ⟨rfl, rfl, rfl⟩; exact ⟨rfl, .cap hc⟩
    · rintro ⟨rfl, h⟩
      cases h with
      | cap _ => exact ⟨rfl, rfl, rfl⟩
      | sepFail h => rw [hc] at h; cases h
      | itemFailKeep h => rw [hc] at h; cases h
      | itemFailBack h => rw [hc] at h; cases h
  | false =>
    simp only [Bool.false_eq_true, if_false]
    cases hS : P env sep s ctx with
    | ok w ss es =>
      simp only [sepItem_done_iff]
      constructor
      · rintro ⟨hA, hlo, rfl, h⟩
        refine ⟨rfl, ?_⟩
        rcases h with ⟨ht, rfl, rfl⟩ | ⟨ht, rfl, rfl⟩
        · exact .itemFailKeep hc hS hA hlo ht
        · exact .itemFailBack hc hS hA hlo ht
      · rintro ⟨rfl, h⟩
        cases h with
        | cap h => rw [hc] at h; cases h
        | sepFail _ h => rw [hS] at h; cases h
        | itemFailKeep _ h hA hlo ht => rw [hS] at h; cases h; exact ⟨hA, hlo, rfl, .inl ⟨ht, rfl, rfl⟩⟩
        | itemFailBack _ h hA hlo ht => rw [hS] at h; cases h; exact ⟨hA, hlo, rfl, .inr ⟨ht, rfl, rfl⟩⟩
    | fail =>
      simp only
      constructor
      · intro h
        split at h
        · cases h
        · cases h; exact ⟨rfl, .sepFail hc hS (by omega)⟩
      · rintro ⟨rfl, h⟩
        cases h with
        | cap h => rw [hc] at h; cases h
        | sepFail _ _ hlo => rw [if_neg (by omega)]
        | itemFailKeep _ h => rw [hS] at h; cases h
        | itemFailBack _ h => rw [hS] at h; cases h
    | panic w =>
      simp only [reduceCtorEq, false_iff]
      rintro ⟨_, h⟩
      cases h with
      | cap h => rw [hc] at h; cases h
      | sepFail _ h => rw [hS] at h; cases h
      | itemFailKeep _ h => rw [hS] at h; cases h
      | itemFailBack _ h => rw [hS] at h; cases h
    | oof =>
      simp only [reduceCtorEq, false_iff]
      rintro ⟨_, h⟩
      cases h with
      | cap h => rw [hc] at h; cases h
      | sepFail _ h => rw [hS] at h; cases h
      | itemFailKeep _ h => rw [hS] at h; cases h
      | itemFailBack _ h => rw [hS] at h; cases h

theorem sSeparatedNext_pos_some_iff {s n v s2 ist1 e} (hn : 0 < n) :
    sSeparatedNext P env ctx a sep lo hi lead trail s n = .some v s2 ist1 e ↔
      capReached hi n = false ∧ ∃ w s1 e1 e2, P env sep s ctx = .ok w s1 e1 ∧
        P env a s1 ctx = .ok v s2 e2 ∧ ist1 = .cnt (n + 1) ∧ e = e1 ++ e2 := by
  rw [sSeparatedNext_pos hn]
  cases hc : capReached hi n with
  | true => simp
  | false =>
    simp only [Bool.false_eq_true, if_false, true_and]
    cases hS : P env sep s ctx with
    | ok w ss es =>
      simp only [sepItem_some_iff, SOut.ok.injEq]
      constructor
      · rintro ⟨em, hA, rfl, rfl⟩; exact ⟨w, ss, es, em, ⟨rfl, rfl, rfl⟩, hA, rfl, rfl⟩
      · rintro ⟨_, _, _, em, ⟨rfl, rfl, rfl⟩, hA, rfl, rfl⟩; exact ⟨em, hA, rfl, rfl⟩
    | fail => simp only [reduceCtorEq, false_and, exists_false, iff_false]; split <;> simp
    | panic w => simp
    | oof => simp

theorem sSeparatedNext_pos_fail_iff {s n} (hn : 0 < n) :
    sSeparatedNext P env ctx a sep lo hi lead trail s n = .fail ↔
      capReached hi n = false ∧ n < lo ∧
        (P env sep s ctx = .fail ∨ ∃ w s1 e1, P env sep s ctx = .ok w s1 e1 ∧ P env a s1 ctx = .fail) := by
  rw [sSeparatedNext_pos hn]
  cases hc : capReached hi n with
  | true => simp
  | false =>
    simp only [Bool.false_eq_true, if_false, true_and]
    cases hS : P env sep s ctx with
    | ok w ss es =>
      simp only [sepItem_fail_iff, reduceCtorEq, SOut.ok.injEq, false_or]
      constructor
      · rintro ⟨hA, hlo⟩; exact ⟨hlo, w, ss, es, ⟨rfl, rfl, rfl⟩, hA⟩
      · rintro ⟨hlo, _, _, _, ⟨rfl, rfl, rfl⟩, hA⟩; exact ⟨hA, hlo⟩
    | fail => simp only [reduceCtorEq, false_and, exists_false, or_false, and_true]; split <;> simp [*]
    | panic w => simp
    | oof => simp

theorem sSeparatedNext_zero_some_iff {s v s1 ist1 e} :
    sSeparatedNext P env ctx a sep lo hi lead trail s 0 = .some v s1 ist1 e ↔
      capReached hi 0 = false ∧ ∃ s0 e0 e1, Lead P env ctx sep lead s s0 e0 ∧
        P env a s0 ctx = .ok v s1 e1 ∧ ist1 = .cnt 1 ∧ e = e0 ++ e1 := by
  rw [sSeparatedNext_zero]
  cases hc : capReached hi 0 with
  | true => simp
  | false =>
    simp only [Bool.false_eq_true, if_false, true_and]
    rw [leadStep_eq_iff (by simp) (by simp)]
    simp only [sepItem_some_iff]
    constructor
    · rintro ⟨s0, e0, hl, e1, hA, rfl, rfl⟩; exact ⟨s0, e0, e1, hl, hA, rfl, rfl⟩
    · rintro ⟨s0, e0, e1, hl, hA, rfl, rfl⟩; exact ⟨s0, e0, hl, e1, hA, rfl, rfl⟩

theorem sSeparatedNext_zero_done_iff {s s' ist' e} :
    sSeparatedNext P env ctx a sep lo hi lead trail s 0 = .done s' ist' e ↔
      ist' = .cnt 0 ∧ SepRun P env ctx a sep lo hi lead trail s [] s' e := by
  rw [sSeparatedNext_zero]
  cases hc : capReached hi 0 with
  | true =>
    simp only [if_true, SItOut.done.injEq]
    constructor
    · rintro ⟨rfl, rfl, rfl⟩; exact ⟨rfl, .capZero hc⟩
    · rintro ⟨rfl, h⟩
      cases h with
      | capZero _ => exact ⟨rfl, rfl, rfl⟩
      | emptyKeep h => rw [hc] at h; cases h
      | emptyBack h => rw [hc] at h; cases h
  | false =>
    simp only [Bool.false_eq_true, if_false]
    rw [leadStep_eq_iff (by simp) (by simp)]
    simp only [sepItem_done_iff]
    constructor
    · rintro ⟨s0, e0, hl, hA, hlo, rfl, h⟩
      refine ⟨rfl, ?_⟩
      rcases h with ⟨ht, rfl, rfl⟩ | ⟨ht, rfl, rfl⟩
      · exact .emptyKeep hc (by omega) hl hA ht
      · exact .emptyBack hc (by omega) hl hA ht
    · rintro ⟨rfl, h⟩
      cases h with
      | capZero h => rw [hc] at h; cases h
      | emptyKeep _ hlo hl hA ht => exact ⟨_, _, hl, hA, by omega, rfl, .inl ⟨ht, rfl, rfl⟩⟩
      | emptyBack _ hlo hl hA ht => exact ⟨_, _, hl, hA, by omega, rfl, .inr ⟨ht, rfl, rfl⟩⟩

theorem sSeparatedNext_zero_fail_iff {s} :
    sSeparatedNext P env ctx a sep lo hi lead trail s 0 = .fail ↔
      capReached hi 0 = false ∧ 0 < lo ∧ ∃ s0 e0, Lead P env ctx sep lead s s0 e0 ∧
        P env a s0 ctx = .fail := by
  rw [sSeparatedNext_zero]
  cases hc : capReached hi 0 with
  | true => simp
  | false =>
    simp only [Bool.false_eq_true, if_false, true_and]
    rw [leadStep_eq_iff (by simp) (by simp)]
    simp only [sepItem_fail_iff]
    constructor
    · rintro ⟨s0, e0, hl, hA, hlo⟩; exact ⟨hlo, s0, e0, hl, hA⟩
    · rintro ⟨hlo, s0, e0, hl, hA⟩; exact ⟨s0, e0, hl, hA, hlo⟩

/-- the stream of `separated_by` once at least one item has been taken (`k ≥ 1`): `(sep item)*`,
    stopping only at the cap, where the separator fails, or where the item after a separator
    fails -/
theorem separated_items_pos
    (hN : ∀ s k, N env (.separatedBy a sep lo hi lead trail) s ctx (.cnt k) =
      sSeparatedNext P env ctx a sep lo hi lead trail s k) {s k vs s' e} (hk : 0 < k) :
    Items N env ctx (.separatedBy a sep lo hi lead trail) s (.cnt k) vs s' e ↔
      ∃ sm em et, SepTail P env ctx a sep s vs sm em ∧
        SepStop P env ctx a sep lo hi trail (k + vs.length) sm s' et ∧ e = em ++ et ∧
        (∀ j < vs.length, capReached hi (k + j) = false) := by
  constructor
  · intro h
    generalize hist : ItSt.cnt k = ist at h
    induction h generalizing k with
    | done h =>
      subst hist
      rw [hN, sSeparatedNext_pos_done_iff hk] at h
      exact ⟨_, [], _, .nil _, by simpa using h.2, by simp, by simp⟩
    | some h _ ih =>
      subst hist
      rw [hN, sSeparatedNext_pos_some_iff hk] at h
      obtain ⟨hc, w, s1, e1, e2, hS, hA, rfl, rfl⟩ := h
      obtain ⟨sm, em, et, htl, hst, rfl, hcap⟩ := ih (Nat.succ_pos k) rfl
      refine ⟨sm, e1 ++ e2 ++ em, et, .cons hS hA htl, ?_, by simp, ?_⟩
      · simpa [Nat.add_assoc, Nat.add_comm 1] using hst
      · intro j hj
        cases j with
        | zero => simpa using hc
        | succ j =>
          have := hcap j (by simpa using hj)
          simpa [Nat.add_assoc, Nat.add_comm 1] using this
  · rintro ⟨sm, em, et, htl, hst, rfl, hcap⟩
    induction htl generalizing k with
    | nil s =>
      refine .done (ist' := .cnt k) ?_
      rw [hN, sSeparatedNext_pos_done_iff hk]
      exact ⟨rfl, by simpa using hst⟩
    | @cons s0 w s1 e1 v s2 e2 vs s3 e3 hS hA _ ih =>
      have h1 : N env (.separatedBy a sep lo hi lead trail) s0 ctx (.cnt k) =
          .some v s2 (.cnt (k + 1)) (e1 ++ e2) := by
        rw [hN, sSeparatedNext_pos_some_iff hk]
        exact ⟨by simpa using hcap 0 (by simp), w, s1, e1, e2, hS, hA, rfl, rfl⟩
      have h2 := ih (k := k + 1) (Nat.succ_pos k)
        (by simpa [Nat.add_assoc, Nat.add_comm 1] using hst)
        (by
          intro j hj
          have := hcap (j + 1) (by simpa using hj)
          simpa [Nat.add_assoc, Nat.add_comm 1] using this)
      have := Items.some h1 h2
      simpa [List.append_assoc] using this

/-- **`separated_by` from the start.** The stream is exactly a `SepRun`:
    `[sep, only if lead] item (sep item)* [sep, only if trail]`, or nothing. -/
theorem separated_items_zero
    (hN : ∀ s k, N env (.separatedBy a sep lo hi lead trail) s ctx (.cnt k) =
      sSeparatedNext P env ctx a sep lo hi lead trail s k) {s vs s' e} :
    Items N env ctx (.separatedBy a sep lo hi lead trail) s (.cnt 0) vs s' e ↔
      SepRun P env ctx a sep lo hi lead trail s vs s' e := by
  constructor
  · intro h
    cases h with
    | done h =>
      rw [hN, sSeparatedNext_zero_done_iff] at h
      exact h.2
    | some h ht =>
      rw [hN, sSeparatedNext_zero_some_iff] at h
      obtain ⟨hc, s0, e0, e1, hl, hA, rfl, rfl⟩ := h
      obtain ⟨sm, em, et, htl, hst, rfl, hcap⟩ := (separated_items_pos hN (Nat.succ_pos 0)).1 ht
      exact .items hc hl hA htl (by simpa using hst) (by simpa using hcap)
  · intro h
    cases h with
    | capZero hc =>
      refine .done (ist' := .cnt 0) ?_
      rw [hN, sSeparatedNext_zero_done_iff]; exact ⟨rfl, .capZero hc⟩
    | emptyKeep hc hlo hl hA ht =>
      refine .done (ist' := .cnt 0) ?_
      rw [hN, sSeparatedNext_zero_done_iff]; exact ⟨rfl, .emptyKeep hc hlo hl hA ht⟩
    | emptyBack hc hlo hl hA ht =>
      refine .done (ist' := .cnt 0) ?_
      rw [hN, sSeparatedNext_zero_done_iff]; exact ⟨rfl, .emptyBack hc hlo hl hA ht⟩
    | @items s0 e0 v s1 e1 vs sm em s' et hc hl hA htl hst hcap =>
      have h1 : N env (.separatedBy a sep lo hi lead trail) s ctx (.cnt 0) =
          .some v s1 (.cnt 1) (e0 ++ e1) := by
        rw [hN, sSeparatedNext_zero_some_iff]
        exact ⟨hc, s0, e0, e1, hl, hA, rfl, rfl⟩
      have h2 := (separated_items_pos hN (k := 1) (Nat.succ_pos 0)).2
        ⟨sm, em, et, htl, hst, rfl, hcap⟩
      exact .some h1 h2

/-! #### consequences of `SepRun` -/

/-- the count never exceeds `at_most` -/
theorem SepRun.le_hi {s vs s' e} (h : SepRun P env ctx a sep lo hi lead trail s vs s' e) :
    ∀ m, hi = some m → vs.length ≤ m := by
  intro m hm
  cases h with
  | capZero _ => simp
  | emptyKeep => simp
  | emptyBack => simp
  | @items s0 e0 v s1 e1 vs sm em s' et hc _ _ _ _ hcap =>
    have h0 := capReached_false_iff.1 hc m hm
    have : vs.length + 1 ≤ m := by
      refine forall_lt_lt_iff.1 (fun j hj => ?_)
      cases j with
      | zero => exact h0
      | succ j =>
        have := capReached_false_iff.1 (hcap j (by omega)) m hm
        omega
    simpa using this

/-- with `at_least ≤ at_most` the count is at least `at_least` -/
theorem SepRun.lo_le {s vs s' e} (h : SepRun P env ctx a sep lo hi lead trail s vs s' e)
    (hwf : ∀ m, hi = some m → lo ≤ m) : lo ≤ vs.length := by
  cases h with
  | capZero hc =>
    obtain ⟨m, hm, hle⟩ := capReached_true_iff.1 hc
    have := hwf m hm; omega
  | emptyKeep _ hlo => omega
  | emptyBack _ hlo => omega
  | @items s0 e0 v s1 e1 vs sm em s' et _ _ _ _ hst _ =>
    simp only [List.length_cons]
    cases hst with
    | cap hc =>
      obtain ⟨m, hm, hle⟩ := capReached_true_iff.1 hc
      have := hwf m hm; omega
    | sepFail _ _ h => omega
    | itemFailKeep _ _ _ h => omega
    | itemFailBack _ _ _ h => omega

/-- no item: the result position is the start, or just after one separator when both
    `allow_leading` and `allow_trailing` hold (and the separator matched, the item after it not) -/
theorem SepRun.nil_pos {s s' e} (h : SepRun P env ctx a sep lo hi lead trail s [] s' e) :
    (s' = s ∧ e = []) ∨
    (lead = true ∧ trail = true ∧ ∃ w, P env sep s ctx = .ok w s' e ∧ P env a s' ctx = .fail) := by
  cases h with
  | capZero _ => exact .inl ⟨rfl, rfl⟩
  | emptyKeep _ _ hl hA ht =>
    cases hl with
    | took hlead hS => exact .inr ⟨hlead, ht, _, hS, hA⟩
    | skip _ => exact .inl ⟨rfl, rfl⟩
  | emptyBack => exact .inl ⟨rfl, rfl⟩

/-- without `allow_leading` and `allow_trailing`: exactly `item (sep item)*` is consumed, the result
    position is just after the last accepted item (or the start) -/
theorem SepRun.strict {s vs s' e} (h : SepRun P env ctx a sep lo hi false false s vs s' e) :
    (vs = [] ∧ s' = s ∧ e = []) ∨
    (∃ v vs' s1 e1 em, vs = v :: vs' ∧ P env a s ctx = .ok v s1 e1 ∧
      SepTail P env ctx a sep s1 vs' s' em ∧ e = e1 ++ em) := by
  cases h with
  | capZero _ => exact .inl ⟨rfl, rfl, rfl⟩
  | emptyKeep _ _ _ _ ht => cases ht
  | emptyBack => exact .inl ⟨rfl, rfl, rfl⟩
  | @items s0 e0 v s1 e1 vs sm em s' et _ hl hA htl hst _ =>
    right
    cases hl with
    | took hlead _ => cases hlead
    | skip _ =>
      cases hst with
      | cap _ => exact ⟨v, vs, s1, e1, em, rfl, hA, htl, by simp⟩
      | sepFail => exact ⟨v, vs, s1, e1, em, rfl, hA, htl, by simp⟩
      | itemFailKeep _ _ _ _ ht => cases ht
      | itemFailBack => exact ⟨v, vs, s1, e1, em, rfl, hA, htl, by simp⟩

/-- the separated tail is a function of its length: `(sep item)*` is possessive -/
theorem SepTail.length_det {s vs sm em vs2 sm2 em2} (h1 : SepTail P env ctx a sep s vs sm em)
    (h2 : SepTail P env ctx a sep s vs2 sm2 em2) (hl : vs.length = vs2.length) :
    vs = vs2 ∧ sm = sm2 ∧ em = em2 := by
  induction h1 generalizing vs2 sm2 em2 with
  | nil s =>
    cases h2 with
    | nil => exact ⟨rfl, rfl, rfl⟩
    | cons => simp at hl
  | cons hS hA _ ih =>
    cases h2 with
    | nil => simp at hl
    | cons hS' hA' ht =>
      rw [hS] at hS'; cases hS'
      rw [hA] at hA'; cases hA'
      obtain ⟨rfl, rfl, rfl⟩ := ih ht (by simpa using hl)
      exact ⟨rfl, rfl, rfl⟩

/-- driving `next` of `separated_by` fails after `k ≥ 1` items iff after some more `(sep item)`
    rounds the count is still below `at_least`, no cap was reached, and the separator or the item
    after it fails -/
theorem separated_itemsFail_pos
    (hN : ∀ s k, N env (.separatedBy a sep lo hi lead trail) s ctx (.cnt k) =
      sSeparatedNext P env ctx a sep lo hi lead trail s k) {s k vs sf} (hk : 0 < k) :
    ItemsFail N env ctx (.separatedBy a sep lo hi lead trail) s (.cnt k) vs sf ↔
      ∃ e, SepTail P env ctx a sep s vs sf e ∧ k + vs.length < lo ∧
        (∀ j ≤ vs.length, capReached hi (k + j) = false) ∧
        (P env sep sf ctx = .fail ∨
          ∃ w s1 e1, P env sep sf ctx = .ok w s1 e1 ∧ P env a s1 ctx = .fail) := by
  induction vs generalizing s k with
  | nil =>
    rw [ItemsFail_nil, hN, sSeparatedNext_pos_fail_iff hk]
    constructor
    · rintro ⟨rfl, hc, hlo, hx⟩
      exact ⟨[], .nil _, by simpa using hlo, by simpa using hc, hx⟩
    · rintro ⟨e, htl, hlo, hc, hx⟩
      cases htl
      exact ⟨rfl, by simpa using hc 0, by simpa using hlo, hx⟩
  | cons v vs ih =>
    rw [ItemsFail_cons]
    constructor
    · rintro ⟨s2, ist1, e12, hn, hf⟩
      rw [hN, sSeparatedNext_pos_some_iff hk] at hn
      obtain ⟨hc, w, s1, e1, e2, hS, hA, rfl, rfl⟩ := hn
      obtain ⟨e, htl, hlo, hcap, hx⟩ := (ih (Nat.succ_pos k)).1 hf
      refine ⟨_, .cons hS hA htl, by simp; omega, ?_, hx⟩
      intro j hj
      cases j with
      | zero => simpa using hc
      | succ j =>
        have := hcap j (by simpa using hj)
        simpa [Nat.add_assoc, Nat.add_comm 1] using this
    · rintro ⟨e, htl, hlo, hcap, hx⟩
      cases htl with
      | @cons _ w s1 e1 _ s2 e2 _ _ e3 hS hA htl =>
        refine ⟨s2, .cnt (k + 1), e1 ++ e2, ?_,
          (ih (Nat.succ_pos k)).2 ⟨e3, htl, by simp at hlo; omega, ?_, hx⟩⟩
        · rw [hN, sSeparatedNext_pos_some_iff hk]
          exact ⟨by simpa using hcap 0 (by simp), w, s1, e1, e2, hS, hA, rfl, rfl⟩
        · intro j hj
          have := hcap (j + 1) (by simpa using hj)
          simpa [Nat.add_assoc, Nat.add_comm 1] using this

/-- driving `next` of a fresh `separated_by` fails iff fewer than `at_least` items could be taken:
    the very first item fails (after the optional leading separator), or a later separator / the
    item after it fails — in each case below `at_least` and below the cap -/
theorem separated_itemsFail_zero
    (hN : ∀ s k, N env (.separatedBy a sep lo hi lead trail) s ctx (.cnt k) =
      sSeparatedNext P env ctx a sep lo hi lead trail s k) {s vs sf} :
    ItemsFail N env ctx (.separatedBy a sep lo hi lead trail) s (.cnt 0) vs sf ↔
      capReached hi 0 = false ∧
      ((vs = [] ∧ sf = s ∧ 0 < lo ∧ ∃ s0 e0, Lead P env ctx sep lead s s0 e0 ∧ P env a s0 ctx = .fail) ∨
       (∃ v vs' s0 e0 s1 e1 e, vs = v :: vs' ∧ Lead P env ctx sep lead s s0 e0 ∧
          P env a s0 ctx = .ok v s1 e1 ∧ SepTail P env ctx a sep s1 vs' sf e ∧ vs.length < lo ∧
          (∀ j ≤ vs'.length, capReached hi (1 + j) = false) ∧
          (P env sep sf ctx = .fail ∨
            ∃ w s2 e2, P env sep sf ctx = .ok w s2 e2 ∧ P env a s2 ctx = .fail))) := by
  cases vs with
  | nil =>
    rw [ItemsFail_nil, hN, sSeparatedNext_zero_fail_iff]
    constructor
    · rintro ⟨rfl, hc, hlo, hx⟩; exact ⟨hc, .inl ⟨rfl, rfl, hlo, hx⟩⟩
    · rintro ⟨hc, ⟨_, rfl, hlo, hx⟩ | ⟨v, vs', s0, e0, s1, e1, e, h, _⟩⟩
      · exact ⟨rfl, hc, hlo, hx⟩
      · cases h
  | cons v vs =>
    rw [ItemsFail_cons]
    constructor
    · rintro ⟨s1, ist1, e01, hn, hf⟩
      rw [hN, sSeparatedNext_zero_some_iff] at hn
      obtain ⟨hc, s0, e0, e1, hl, hA, rfl, rfl⟩ := hn
      obtain ⟨e, htl, hlo, hcap, hx⟩ := (separated_itemsFail_pos hN (Nat.succ_pos 0)).1 hf
      exact ⟨hc, .inr ⟨v, vs, s0, e0, s1, e1, e, rfl, hl, hA, htl, by simp; omega, by simpa using hcap, hx⟩⟩
    · rintro ⟨hc, ⟨h, _⟩ | ⟨v', vs', s0, e0, s1, e1, e, h, hl, hA, htl, hlo, hcap, hx⟩⟩
      · cases h
      · cases h
        refine ⟨s1, .cnt 1, e0 ++ e1, ?_, (separated_itemsFail_pos hN (k := 1) (Nat.succ_pos 0)).2
          ⟨e, htl, by simp at hlo; omega, hcap, hx⟩⟩
        rw [hN, sSeparatedNext_zero_some_iff]
        exact ⟨hc, s0, e0, e1, hl, hA, rfl, rfl⟩

end separated

/-! #### `separated_by` under each consumer -/

section topSep
variable {env : Env} {ctx : Val}

theorem pegNext'_separatedBy (n : Nat) {a sep lo hi lead trail} (s : SS) (k : Nat) :
    pegNext' (n + 1) env (.separatedBy a sep lo hi lead trail) s ctx (.cnt k) =
      sSeparatedNext (peg n) env ctx a sep lo hi lead trail s k := by
  rw [pegNext'_succ]; rfl

theorem pegMk'_separatedBy (n : Nat) {a sep lo hi lead trail} (s : SS) :
    pegMk' (n + 1) env (.separatedBy a sep lo hi lead trail) s ctx = .ok (.cnt 0) s [] := by
  rw [pegMk'_succ]; rfl

/-- `separated_by().collect()` -/
theorem peg_collect_separatedBy {n k a sep lo hi lead trail s v s' em}
    (h : peg (n + 2) env (.collect k (.separatedBy a sep lo hi lead trail)) s ctx = .ok v s' em) :
    ∃ vs, SepRun (peg n) env ctx a sep lo hi lead trail s vs s' em ∧ v = sCollectOut k vs := by
  obtain ⟨ist, s1, e1, vs, e2, hK, hI, hv, rfl⟩ := peg_collect_items h
  rw [pegMk'_separatedBy] at hK
  cases hK
  exact ⟨vs, by simpa using (separated_items_zero (pegNext'_separatedBy n)).1 hI, hv⟩

/-- `a0.foldl(separated_by(), f)` -/
theorem peg_foldl_separatedBy {n f a0 a sep lo hi lead trail s v s' em}
    (h : peg (n + 2) env (.foldl f a0 (.separatedBy a sep lo hi lead trail)) s ctx = .ok v s' em) :
    ∃ v0 s0 e0 vs e, peg (n + 1) env a0 s ctx = .ok v0 s0 e0 ∧
      SepRun (peg n) env ctx a sep lo hi lead trail s0 vs s' e ∧ v = vs.foldl f.evalL v0 ∧
      em = e0 ++ e := by
  obtain ⟨v0, s0, e0, ist, s1, e1, vs, e2, hA, hK, hI, hv, rfl⟩ := peg_foldl_items h
  rw [pegMk'_separatedBy] at hK
  cases hK
  exact ⟨v0, s0, e0, vs, e2, hA, (separated_items_zero (pegNext'_separatedBy n)).1 hI, hv, by simp⟩

/-- `separated_by().foldr(b, f)` -/
theorem peg_foldr_separatedBy {n f a sep lo hi lead trail b s v s' em}
    (h : peg (n + 2) env (.foldr f (.separatedBy a sep lo hi lead trail) b) s ctx = .ok v s' em) :
    ∃ vs s2 e2 vb e3, SepRun (peg n) env ctx a sep lo hi lead trail s vs s2 e2 ∧
      peg (n + 1) env b s2 ctx = .ok vb s' e3 ∧ v = List.foldr f.evalR vb vs ∧ em = e2 ++ e3 := by
  obtain ⟨ist, s1, e1, vs, s2, e2, vb, e3, hK, hI, hB, hv, rfl⟩ := peg_foldr_items h
  rw [pegMk'_separatedBy] at hK
  cases hK
  exact ⟨vs, s2, e2, vb, e3, (separated_items_zero (pegNext'_separatedBy n)).1 hI, hB, hv, by simp⟩

/-- `separated_by()` as a plain parser -/
theorem peg_iterP_separatedBy {n a sep lo hi lead trail s v s' em}
    (h : peg (n + 2) env (.iterP (.separatedBy a sep lo hi lead trail)) s ctx = .ok v s' em) :
    ∃ vs, SepRun (peg n) env ctx a sep lo hi lead trail s vs s' em ∧ v = .unit := by
  rw [peg_succ, pegStep_iterP_separatedBy, pegMk'_separatedBy] at h
  simp only at h
  obtain ⟨vs, e, hI, hv, he⟩ := sIterLoop_sound _ _ _ _ _ _ _ h
  refine ⟨vs, ?_, hv⟩
  have := (separated_items_zero (pegNext'_separatedBy n)).1 hI
  simpa [he] using this

/-- `separated_by().enumerate().collect()` -/
theorem peg_collect_enumerate_separatedBy {n k a sep lo hi lead trail s v s' em}
    (h : peg (n + 3) env (.collect k (.enumerate (.separatedBy a sep lo hi lead trail))) s ctx = .ok v s' em) :
    ∃ vs, SepRun (peg n) env ctx a sep lo hi lead trail s vs s' em ∧ v = sCollectOut k (enumVals 0 vs) := by
  obtain ⟨ist, s1, e1, vs, e2, hK, hI, hv, rfl⟩ := peg_collect_items h
  have hK' : pegMk' (n + 2) env (.enumerate (.separatedBy a sep lo hi lead trail)) s ctx =
      .ok (.enum 0 (.cnt 0)) s [] := by
    rw [pegMk'_succ]; simp only [pegMk, pegMk'_separatedBy]
  rw [hK'] at hK
  cases hK
  obtain ⟨ws, hI', rfl⟩ := (enumerate_items_iff (pegNext'_enumerate (n + 1))).1 hI
  exact ⟨ws, by simpa using (separated_items_zero (pegNext'_separatedBy n)).1 hI', hv⟩

end topSep

/-! ## axioms -/

#print axioms Items_iff_pre
#print axioms Items.det
#print axioms sCollectLoop_sound
#print axioms sCollectLoop_complete
#print axioms sFoldlLoop_sound
#print axioms sFoldlLoop_sound_at
#print axioms sFoldlLoop_complete
#print axioms sFoldrCollect_sound
#print axioms sFoldrCollect_ne_ok
#print axioms foldr_final
#print axioms sIterLoop_sound
#print axioms sIterLoop_complete
#print axioms sCollectExactlyLoop_ok
#print axioms sCollectExactlyLoop_fail
#print axioms repeated_items_iff
#print axioms repeated_items_iff_wf
#print axioms repeated_itemsFail_iff
#print axioms repeated_itemsPre_iff
#print axioms repeated_items_zero
#print axioms RepRun.lo_le
#print axioms sRepeatFast_sound
#print axioms enumerate_items_iff
#print axioms peg_collect_items
#print axioms peg_collectExactly_items
#print axioms peg_foldl_items
#print axioms peg_foldr_items
#print axioms peg_collect_repeated
#print axioms peg_collect_vec_repeated
#print axioms peg_collect_count_repeated
#print axioms peg_foldl_repeated
#print axioms peg_foldr_repeated
#print axioms peg_iterP_repeated_slow
#print axioms peg_iterP_repeated_fast
#print axioms peg_collectExactly_repeated
#print axioms peg_collect_enumerate_repeated
#print axioms separated_items_pos
#print axioms separated_items_zero
#print axioms SepRun.le_hi
#print axioms SepRun.lo_le
#print axioms SepRun.nil_pos
#print axioms SepRun.strict
#print axioms SepTail.length_det
#print axioms separated_itemsFail_pos
#print axioms separated_itemsFail_zero
#print axioms peg_collect_separatedBy
#print axioms peg_foldl_separatedBy
#print axioms peg_foldr_separatedBy
#print axioms peg_iterP_separatedBy
#print axioms peg_collect_enumerate_separatedBy

end Chumsky
