/-
  Proofs/Lemmas/KindSim.lean — the result does not depend on how the input is represented (C10).

  The machine touches the input kind only through `Env.mkSpan` and `Env.off`.  Running under any kind
  equals running under the index-based `.slice` kind with every span re-based afterwards
  (functional simulation): `run n env' m g (st.mapSp M) = (run n env m g st).mapSp M`.

  * `SpMap` / `Val.mapSp`, `Err.mapSp`, `Loc.mapSp`, `St.mapSp`, `Out.mapSp`, `ItSt.mapSp`, `ItOut.mapSp`,
    `MkOut.mapSp`, `TopOut.mapSp`: the re-basing of everything the machine produces (cursor and inspector untouched).
  * `KindRel M env env'`: same tokens / error type / memo switch, `env'.mkSpan = M.f ∘ env.mkSpan`,
    `env'.off = M.o ∘ env.off`, the three span-taking error constructors commute with `M`.
  * `run_kindSim_gen` / `parseTop_kindSim_gen`: the simulation for any two related environments and EVERY grammar,
    the constants of the grammar (`to v`, `with_ctx(c)`, the fallback of `skip_until`) being re-based too
    (`G.mapConst`).  No hypothesis on the start state.
  * `run_kindSim_partial` / `parseTop_kindSim_partial` (and the primed versions for every error type): `env` of kind
    `.slice`, `env' := { env with kind, tspans, eoi }`, grammars of the class `G.constOk` (constants without
    span / slice values, for which `G.mapConst` is the identity).
  * examples: three presentations of "éa"; why the class; why the zero-sized error type is treated apart.

  Layout as in `ModeSim.lean`: commutation lemmas for every state operation, one lemma per loop helper,
  one `cases g` in `step_kind`, then `stepNext`, `stepMk`, induction on the fuel.
-/
import ChumskyModel.Model.Machine
set_option linter.unusedVariables false
namespace Chumsky

/-- a re-basing: `fe` acts on the spans stored in errors, `f` on span values, `o` on slice offsets -/
structure SpMap where
  fe : Nat × Nat → Nat × Nat
  f : Nat × Nat → Nat × Nat
  o : Nat → Nat

/-! ### re-basing of values, errors, states, results -/

def Val.mapSp (M : SpMap) : Val → Val
  | .unit => .unit
  | .tok t => .tok t
  | .toks ts => .toks ts
  | .pair a b => .pair (a.mapSp M) (b.mapSp M)
  | .nil => .nil
  | .cons h t => .cons (h.mapSp M) (t.mapSp M)
  | .none => .none
  | .some v => .some (v.mapSp M)
  | .tag k v => .tag k (v.mapSp M)
  | .span s e => .span (M.f (s, e)).1 (M.f (s, e)).2
  | .slice s e => .slice (M.o s) (M.o e)
  | .nat n => .nat n
  | .insp seen => .insp seen

def Err.mapSp (M : SpMap) (e : Err) : Err :=
  ⟨M.fe e.span, e.reason, e.ctx.map (fun c => (c.1, M.fe c.2))⟩

def Loc.mapSp (M : SpMap) (l : Loc) : Loc := ⟨l.pos, l.err.mapSp M⟩

def St.mapSp (M : SpMap) (st : St) : St :=
  { pos := st.pos
    errs := st.errs.map (Loc.mapSp M)
    alt := st.alt.map (Loc.mapSp M)
    insp := st.insp
    ctx := st.ctx.mapSp M
    memo := st.memo.map (fun kv => (kv.1, kv.2.map (Loc.mapSp M)))
    log := st.log.map (Loc.mapSp M) }

def Out.mapSp (M : SpMap) : Out → Out
  | .ok v st => .ok (v.mapSp M) (st.mapSp M)
  | .fail st => .fail (st.mapSp M)
  | .panic w => .panic w
  | .oof => .oof

def ItSt.mapSp (M : SpMap) : ItSt → ItSt
  | .cnt n => .cnt n
  | .fin b => .fin b
  | .enum k s => .enum k (s.mapSp M)
  | .into vs => .into (vs.map (Val.mapSp M))
  | .thn a none => .thn (a.mapSp M) none
  | .thn a (some b) => .thn (a.mapSp M) (some (b.mapSp M))
  | .cfg s lo hi => .cfg (s.mapSp M) lo hi

def ItOut.mapSp (M : SpMap) : ItOut → ItOut
  | .some v st ist => .some (v.mapSp M) (st.mapSp M) (ist.mapSp M)
  | .done st ist => .done (st.mapSp M) (ist.mapSp M)
  | .fail st => .fail (st.mapSp M)
  | .panic w => .panic w
  | .oof => .oof

def MkOut.mapSp (M : SpMap) : MkOut → MkOut
  | .ok ist st => .ok (ist.mapSp M) (st.mapSp M)
  | .fail st => .fail (st.mapSp M)
  | .panic w => .panic w
  | .oof => .oof

/-- no `span` / `slice` inside -/
def Val.noSp : Val → Bool
  | .pair a b => a.noSp && b.noSp
  | .cons h t => h.noSp && t.noSp
  | .some v => v.noSp
  | .tag _ v => v.noSp
  | .span _ _ => false
  | .slice _ _ => false
  | _ => true

mutual
/-- re-base the constants of a grammar (`to v`, `with_ctx(c)`, the fallback of `skip_until`) -/
def G.mapConst (M : SpMap) : G → G
  | .end_ => .end_
  | .empty => .empty
  | .any => .any
  | .just x0 => .just x0
  | .oneOf x0 => .oneOf x0
  | .noneOf x0 => .noneOf x0
  | .select x0 => .select x0
  | .custom x0 => .custom x0
  | .todo => .todo
  | .then_ x0 x1 => .then_ (G.mapConst M x0) (G.mapConst M x1)
  | .ignoreThen x0 x1 => .ignoreThen (G.mapConst M x0) (G.mapConst M x1)
  | .thenIgnore x0 x1 => .thenIgnore (G.mapConst M x0) (G.mapConst M x1)
  | .delimitedBy x0 x1 x2 => .delimitedBy (G.mapConst M x0) (G.mapConst M x1) (G.mapConst M x2)
  | .paddedBy x0 x1 => .paddedBy (G.mapConst M x0) (G.mapConst M x1)
  | .group x0 => .group (mapConstL M x0)
  | .groupArr x0 => .groupArr (mapConstL M x0)
  | .or_ x0 x1 => .or_ (G.mapConst M x0) (G.mapConst M x1)
  | .choice x0 x1 => .choice x0 (mapConstL M x1)
  | .orNot x0 => .orNot (G.mapConst M x0)
  | .not_ x0 => .not_ (G.mapConst M x0)
  | .andIs x0 x1 => .andIs (G.mapConst M x0) (G.mapConst M x1)
  | .rewind x0 => .rewind (G.mapConst M x0)
  | .map x0 x1 => .map x0 (G.mapConst M x1)
  | .to x0 x1 => .to (x0.mapSp M) (G.mapConst M x1)
  | .ignored x0 => .ignored (G.mapConst M x0)
  | .filter x0 x1 => .filter x0 (G.mapConst M x1)
  | .tryMap x0 x1 => .tryMap x0 (G.mapConst M x1)
  | .tryMapWith x0 x1 => .tryMapWith x0 (G.mapConst M x1)
  | .toSpan x0 => .toSpan (G.mapConst M x0)
  | .toSlice x0 => .toSlice (G.mapConst M x0)
  | .mapWithSpan x0 => .mapWithSpan (G.mapConst M x0)
  | .mapWithState x0 => .mapWithState (G.mapConst M x0)
  | .mapWithCtx x0 => .mapWithCtx (G.mapConst M x0)
  | .validate x0 x1 => .validate x0 (G.mapConst M x1)
  | .collect x0 x1 => .collect x0 (It.mapConst M x1)
  | .collectExactly x0 x1 => .collectExactly x0 (It.mapConst M x1)
  | .foldl x0 x1 x2 => .foldl x0 (G.mapConst M x1) (It.mapConst M x2)
  | .foldr x0 x1 x2 => .foldr x0 (It.mapConst M x1) (G.mapConst M x2)
  | .foldlWith x0 x1 => .foldlWith (G.mapConst M x0) (It.mapConst M x1)
  | .foldrWith x0 x1 => .foldrWith (It.mapConst M x0) (G.mapConst M x1)
  | .iterP x0 => .iterP (It.mapConst M x0)
  | .recoverVia x0 x1 => .recoverVia (G.mapConst M x0) (G.mapConst M x1)
  | .recoverSkipUntil x0 x1 x2 x3 => .recoverSkipUntil (G.mapConst M x0) (G.mapConst M x1) (G.mapConst M x2) (x3.mapSp M)
  | .recoverSkipRetry x0 x1 x2 => .recoverSkipRetry (G.mapConst M x0) (G.mapConst M x1) (G.mapConst M x2)
  | .labelled x0 x1 x2 => .labelled x0 x1 (G.mapConst M x2)
  | .mapErr x0 x1 => .mapErr x0 (G.mapConst M x1)
  | .withCtx x0 x1 => .withCtx (x0.mapSp M) (G.mapConst M x1)
  | .ignoreWithCtx x0 x1 => .ignoreWithCtx (G.mapConst M x0) (G.mapConst M x1)
  | .thenWithCtx x0 x1 => .thenWithCtx (G.mapConst M x0) (G.mapConst M x1)
  | .mapCtx x0 x1 => .mapCtx x0 (G.mapConst M x1)
  | .configureJust x0 x1 => .configureJust x0 x1
  | .withState x0 => .withState (G.mapConst M x0)
  | .memoized x0 x1 => .memoized x0 (G.mapConst M x1)
  | .call x0 => .call x0
  | .boxed x0 => .boxed (G.mapConst M x0)
def It.mapConst (M : SpMap) : It → It
  | .repeated x0 x1 x2 => .repeated (G.mapConst M x0) x1 x2
  | .separatedBy x0 x1 x2 x3 x4 x5 => .separatedBy (G.mapConst M x0) (G.mapConst M x1) x2 x3 x4 x5
  | .enumerate x0 => .enumerate (It.mapConst M x0)
  | .orNotIt x0 => .orNotIt (G.mapConst M x0)
  | .intoIter x0 => .intoIter (G.mapConst M x0)
  | .thenIt x0 x1 => .thenIt (It.mapConst M x0) (It.mapConst M x1)
  | .mapIt x0 x1 => .mapIt x0 (It.mapConst M x1)
  | .configureRep x0 x1 => .configureRep x0 (It.mapConst M x1)
  | .tryConfigureRep x0 x1 => .tryConfigureRep x0 (It.mapConst M x1)
def mapConstL (M : SpMap) : List G → List G
  | [] => []
  | g :: gs => G.mapConst M g :: mapConstL M gs
end

mutual
/-- the constants of the grammar carry no span / slice value -/
def G.constOk : G → Bool
  | .end_ => true
  | .empty => true
  | .any => true
  | .just x0 => true
  | .oneOf x0 => true
  | .noneOf x0 => true
  | .select x0 => true
  | .custom x0 => true
  | .todo => true
  | .then_ x0 x1 => G.constOk x0 && G.constOk x1
  | .ignoreThen x0 x1 => G.constOk x0 && G.constOk x1
  | .thenIgnore x0 x1 => G.constOk x0 && G.constOk x1
  | .delimitedBy x0 x1 x2 => G.constOk x0 && G.constOk x1 && G.constOk x2
  | .paddedBy x0 x1 => G.constOk x0 && G.constOk x1
  | .group x0 => constOkL x0
  | .groupArr x0 => constOkL x0
  | .or_ x0 x1 => G.constOk x0 && G.constOk x1
  | .choice x0 x1 => constOkL x1
  | .orNot x0 => G.constOk x0
  | .not_ x0 => G.constOk x0
  | .andIs x0 x1 => G.constOk x0 && G.constOk x1
  | .rewind x0 => G.constOk x0
  | .map x0 x1 => G.constOk x1
  | .to x0 x1 => x0.noSp && G.constOk x1
  | .ignored x0 => G.constOk x0
  | .filter x0 x1 => G.constOk x1
  | .tryMap x0 x1 => G.constOk x1
  | .tryMapWith x0 x1 => G.constOk x1
  | .toSpan x0 => G.constOk x0
  | .toSlice x0 => G.constOk x0
  | .mapWithSpan x0 => G.constOk x0
  | .mapWithState x0 => G.constOk x0
  | .mapWithCtx x0 => G.constOk x0
  | .validate x0 x1 => G.constOk x1
  | .collect x0 x1 => It.constOk x1
  | .collectExactly x0 x1 => It.constOk x1
  | .foldl x0 x1 x2 => G.constOk x1 && It.constOk x2
  | .foldr x0 x1 x2 => It.constOk x1 && G.constOk x2
  | .foldlWith x0 x1 => G.constOk x0 && It.constOk x1
  | .foldrWith x0 x1 => It.constOk x0 && G.constOk x1
  | .iterP x0 => It.constOk x0
  | .recoverVia x0 x1 => G.constOk x0 && G.constOk x1
  | .recoverSkipUntil x0 x1 x2 x3 => G.constOk x0 && G.constOk x1 && G.constOk x2 && x3.noSp
  | .recoverSkipRetry x0 x1 x2 => G.constOk x0 && G.constOk x1 && G.constOk x2
  | .labelled x0 x1 x2 => G.constOk x2
  | .mapErr x0 x1 => G.constOk x1
  | .withCtx x0 x1 => x0.noSp && G.constOk x1
  | .ignoreWithCtx x0 x1 => G.constOk x0 && G.constOk x1
  | .thenWithCtx x0 x1 => G.constOk x0 && G.constOk x1
  | .mapCtx x0 x1 => G.constOk x1
  | .configureJust x0 x1 => true
  | .withState x0 => G.constOk x0
  | .memoized x0 x1 => G.constOk x1
  | .call x0 => true
  | .boxed x0 => G.constOk x0
def It.constOk : It → Bool
  | .repeated x0 x1 x2 => G.constOk x0
  | .separatedBy x0 x1 x2 x3 x4 x5 => G.constOk x0 && G.constOk x1
  | .enumerate x0 => It.constOk x0
  | .orNotIt x0 => G.constOk x0
  | .intoIter x0 => G.constOk x0
  | .thenIt x0 x1 => It.constOk x0 && It.constOk x1
  | .mapIt x0 x1 => It.constOk x1
  | .configureRep x0 x1 => It.constOk x1
  | .tryConfigureRep x0 x1 => It.constOk x1
def constOkL : List G → Bool
  | [] => true
  | g :: gs => G.constOk g && constOkL gs
end

/-! ### simp lemmas: projections and constructors -/
section basics
variable (M : SpMap)

@[simp] theorem St.mapSp_pos (st : St) : (st.mapSp M).pos = st.pos := rfl
@[simp] theorem St.mapSp_errs (st : St) : (st.mapSp M).errs = st.errs.map (Loc.mapSp M) := rfl
@[simp] theorem St.mapSp_alt (st : St) : (st.mapSp M).alt = st.alt.map (Loc.mapSp M) := rfl
@[simp] theorem St.mapSp_insp (st : St) : (st.mapSp M).insp = st.insp := rfl
@[simp] theorem St.mapSp_ctx (st : St) : (st.mapSp M).ctx = st.ctx.mapSp M := rfl
@[simp] theorem St.mapSp_memo (st : St) :
    (st.mapSp M).memo = st.memo.map (fun kv => (kv.1, kv.2.map (Loc.mapSp M))) := rfl
@[simp] theorem St.mapSp_log (st : St) : (st.mapSp M).log = st.log.map (Loc.mapSp M) := rfl
@[simp] theorem Loc.mapSp_pos (l : Loc) : (l.mapSp M).pos = l.pos := rfl
@[simp] theorem Loc.mapSp_err (l : Loc) : (l.mapSp M).err = l.err.mapSp M := rfl
@[simp] theorem Loc.mapSp_mk (p : Nat) (e : Err) : Loc.mapSp M ⟨p, e⟩ = ⟨p, e.mapSp M⟩ := rfl
@[simp] theorem Err.mapSp_span (e : Err) : (e.mapSp M).span = M.fe e.span := rfl
@[simp] theorem Err.mapSp_reason (e : Err) : (e.mapSp M).reason = e.reason := rfl
@[simp] theorem Err.mapSp_ctx (e : Err) : (e.mapSp M).ctx = e.ctx.map (fun c => (c.1, M.fe c.2)) := rfl

@[simp] theorem Out.mapSp_ok (v : Val) (st : St) : (Out.ok v st).mapSp M = .ok (v.mapSp M) (st.mapSp M) := rfl
@[simp] theorem Out.mapSp_fail (st : St) : (Out.fail st).mapSp M = .fail (st.mapSp M) := rfl
@[simp] theorem Out.mapSp_panic (w : Nat) : (Out.panic w).mapSp M = .panic w := rfl
@[simp] theorem Out.mapSp_oof : Out.oof.mapSp M = .oof := rfl
@[simp] theorem ItOut.mapSp_some (v : Val) (st : St) (ist : ItSt) :
    (ItOut.some v st ist).mapSp M = .some (v.mapSp M) (st.mapSp M) (ist.mapSp M) := rfl
@[simp] theorem ItOut.mapSp_done (st : St) (ist : ItSt) :
    (ItOut.done st ist).mapSp M = .done (st.mapSp M) (ist.mapSp M) := rfl
@[simp] theorem ItOut.mapSp_fail (st : St) : (ItOut.fail st).mapSp M = .fail (st.mapSp M) := rfl
@[simp] theorem ItOut.mapSp_panic (w : Nat) : (ItOut.panic w).mapSp M = .panic w := rfl
@[simp] theorem ItOut.mapSp_oof : ItOut.oof.mapSp M = .oof := rfl
@[simp] theorem MkOut.mapSp_ok (ist : ItSt) (st : St) :
    (MkOut.ok ist st).mapSp M = .ok (ist.mapSp M) (st.mapSp M) := rfl
@[simp] theorem MkOut.mapSp_fail (st : St) : (MkOut.fail st).mapSp M = .fail (st.mapSp M) := rfl
@[simp] theorem MkOut.mapSp_panic (w : Nat) : (MkOut.panic w).mapSp M = .panic w := rfl
@[simp] theorem MkOut.mapSp_oof : MkOut.oof.mapSp M = .oof := rfl

@[simp] theorem ItSt.mapSp_cnt (n : Nat) : (ItSt.cnt n).mapSp M = .cnt n := by simp [ItSt.mapSp]
@[simp] theorem ItSt.mapSp_fin (b : Bool) : (ItSt.fin b).mapSp M = .fin b := by simp [ItSt.mapSp]
@[simp] theorem ItSt.mapSp_enum (k : Nat) (s : ItSt) : (ItSt.enum k s).mapSp M = .enum k (s.mapSp M) := by
  simp [ItSt.mapSp]
@[simp] theorem ItSt.mapSp_into (vs : List Val) : (ItSt.into vs).mapSp M = .into (vs.map (Val.mapSp M)) := by
  simp [ItSt.mapSp]
@[simp] theorem ItSt.mapSp_thn (a : ItSt) (b : Option ItSt) :
    (ItSt.thn a b).mapSp M = .thn (a.mapSp M) (b.map (ItSt.mapSp M)) := by
  cases b <;> simp [ItSt.mapSp]
@[simp] theorem ItSt.mapSp_cfg (s : ItSt) (lo hi : Option Nat) :
    (ItSt.cfg s lo hi).mapSp M = .cfg (s.mapSp M) lo hi := by simp [ItSt.mapSp]

/-! ### the closure library does not look at spans -/

theorem Val.mapSp_of_noSp : ∀ (v : Val), v.noSp = true → v.mapSp M = v
  | .unit, _ => rfl
  | .tok _, _ => rfl
  | .toks _, _ => rfl
  | .pair a b, h => by
    simp only [Val.noSp, Bool.and_eq_true] at h
    simp only [Val.mapSp, Val.mapSp_of_noSp a h.1, Val.mapSp_of_noSp b h.2]
  | .nil, _ => rfl
  | .cons a b, h => by
    simp only [Val.noSp, Bool.and_eq_true] at h
    simp only [Val.mapSp, Val.mapSp_of_noSp a h.1, Val.mapSp_of_noSp b h.2]
  | .none, _ => rfl
  | .some a, h => by
    simp only [Val.noSp] at h
    simp only [Val.mapSp, Val.mapSp_of_noSp a h]
  | .tag _ a, h => by
    simp only [Val.noSp] at h
    simp only [Val.mapSp, Val.mapSp_of_noSp a h]
  | .span _ _, h => by simp [Val.noSp] at h
  | .slice _ _, h => by simp [Val.noSp] at h
  | .nat _, _ => rfl
  | .insp _, _ => rfl

@[simp] theorem Mode.bind_mapSp (m : Mode) (v : Val) : m.bind (v.mapSp M) = (m.bind v).mapSp M := by
  cases m <;> rfl

theorem Val.mapSp_unit : Val.mapSp M .unit = .unit := rfl
theorem Val.mapSp_tok (t : Nat) : Val.mapSp M (.tok t) = .tok t := rfl
theorem Val.mapSp_toks (ts : List Nat) : Val.mapSp M (.toks ts) = .toks ts := rfl
theorem Val.mapSp_pair (a b : Val) : Val.mapSp M (.pair a b) = .pair (a.mapSp M) (b.mapSp M) := rfl
theorem Val.mapSp_nil : Val.mapSp M .nil = .nil := rfl
theorem Val.mapSp_cons (a b : Val) : Val.mapSp M (.cons a b) = .cons (a.mapSp M) (b.mapSp M) := rfl
theorem Val.mapSp_none : Val.mapSp M .none = .none := rfl
theorem Val.mapSp_some (a : Val) : Val.mapSp M (.some a) = .some (a.mapSp M) := rfl
theorem Val.mapSp_tag (k : Nat) (a : Val) : Val.mapSp M (.tag k a) = .tag k (a.mapSp M) := rfl
theorem Val.mapSp_span (s e : Nat) : Val.mapSp M (.span s e) = .span (M.f (s, e)).1 (M.f (s, e)).2 := rfl
theorem Val.mapSp_slice (s e : Nat) : Val.mapSp M (.slice s e) = .slice (M.o s) (M.o e) := rfl
theorem Val.mapSp_nat (n : Nat) : Val.mapSp M (.nat n) = .nat n := rfl
theorem Val.mapSp_insp (l : List Nat) : Val.mapSp M (.insp l) = .insp l := rfl

theorem Val.mapSp_eq_tok (v : Val) (t : Nat) : (v.mapSp M = .tok t) ↔ v = .tok t := by
  cases v <;> simp [Val.mapSp]
theorem Val.mapSp_eq_nil (v : Val) : (v.mapSp M = .nil) ↔ v = .nil := by
  cases v <;> simp [Val.mapSp]
theorem Val.mapSp_beq_tok (v : Val) (t : Nat) : (v.mapSp M == .tok t) = (v == .tok t) := by
  rw [Bool.eq_iff_iff]; simp [Val.mapSp_eq_tok]
theorem Val.mapSp_beq_nil (v : Val) : (v.mapSp M == .nil) = (v == .nil) := by
  rw [Bool.eq_iff_iff]; simp [Val.mapSp_eq_nil]

@[simp] theorem PredFn.eval_mapSp (p : PredFn) (v : Val) : p.eval (v.mapSp M) = p.eval v := by
  cases p with
  | always => rfl
  | never => rfl
  | tokIs t => simp only [PredFn.eval, Val.mapSp_beq_tok]
  | tokNot t => simp only [PredFn.eval, bne, Val.mapSp_beq_tok]
  | isSome => cases v <;> rfl
  | isNil => simp only [PredFn.eval, Val.mapSp_beq_nil]

@[simp] theorem MapFn.eval_mapSp (f : MapFn) (v : Val) : f.eval (v.mapSp M) = (f.eval v).mapSp M := by
  cases f <;> cases v <;> rfl

@[simp] theorem FoldFn.evalL_mapSp (f : FoldFn) (a x : Val) :
    f.evalL (a.mapSp M) (x.mapSp M) = (f.evalL a x).mapSp M := by cases f <;> rfl
@[simp] theorem FoldFn.evalR_mapSp (f : FoldFn) (x a : Val) :
    f.evalR (x.mapSp M) (a.mapSp M) = (f.evalR x a).mapSp M := by cases f <;> rfl

@[simp] theorem Val.elems_mapSp : ∀ v : Val, (v.mapSp M).elems = v.elems.map (Val.mapSp M)
  | .cons h t => by simp only [Val.mapSp, Val.elems, Val.elems_mapSp t, List.map_cons]
  | .toks ts => by simp [Val.mapSp, Val.elems, Function.comp_def]
  | .some v => rfl
  | .unit => rfl
  | .tok _ => rfl
  | .pair _ _ => rfl
  | .nil => rfl
  | .none => rfl
  | .tag _ _ => rfl
  | .span _ _ => rfl
  | .slice _ _ => rfl
  | .nat _ => rfl
  | .insp _ => rfl

@[simp] theorem Val.asNat?_mapSp (v : Val) : (v.mapSp M).asNat? = v.asNat? := by cases v <;> rfl
@[simp] theorem Val.asToks?_mapSp (v : Val) : (v.mapSp M).asToks? = v.asToks? := by cases v <;> rfl

@[simp] theorem CtxFn.eval_mapSp (f : CtxFn) (v : Val) : f.eval (v.mapSp M) = (f.eval v).mapSp M := by
  cases f with
  | id => rfl
  | tag k => rfl
  | lenOf =>
    cases v <;> simp [CtxFn.eval, Val.mapSp, Val.elems]
    
@[simp] theorem Val.ofList_mapSp : ∀ l : List Val, Val.ofList (l.map (Val.mapSp M)) = (Val.ofList l).mapSp M
  | [] => rfl
  | v :: vs => by simp only [List.map_cons, Val.ofList, Val.mapSp, Val.ofList_mapSp vs]

@[simp] theorem collectOut_mapSp (m : Mode) (k : CollKind) (items : List Val) :
    collectOut m k (items.map (Val.mapSp M)) = (collectOut m k items).mapSp M := by
  cases k with
  | vec => simp only [collectOut, Val.ofList_mapSp, Mode.bind_mapSp]
  | string =>
    simp only [collectOut, ← Mode.bind_mapSp, List.filterMap_map]
    congr 2
    congr 1
    funext v
    cases v <;> rfl
  | count => simp only [collectOut, List.length_map, ← Mode.bind_mapSp, Val.mapSp]
  | unit => simp only [collectOut, ← Mode.bind_mapSp, Val.mapSp]

@[simp] theorem cfgBounds_mapSp (c : CfgFn) (v : Val) : cfgBounds c (v.mapSp M) = cfgBounds c v := by
  simp only [cfgBounds, Val.asNat?_mapSp]

/-! ### error operations -/

@[simp] theorem ErrKind.merge_mapSp (k : ErrKind) (a b : Err) :
    k.merge (a.mapSp M) (b.mapSp M) = (k.merge a b).mapSp M := by cases k <;> rfl

@[simp] theorem ErrKind.mergeEF_mapSp (k : ErrKind) (a : Err) (exp : List Pat) (found : Option Nat) (s s' : Nat × Nat) :
    k.mergeEF (a.mapSp M) exp found s' = (k.mergeEF a exp found s).mapSp M := by
  cases k <;> try rfl
  simp only [ErrKind.mergeEF, Err.mapSp_reason]
  cases a.reason <;> rfl

@[simp] theorem ErrKind.labelWith_mapSp (k : ErrKind) (a : Err) (l : Nat) :
    k.labelWith (a.mapSp M) l = (k.labelWith a l).mapSp M := by
  cases k <;> try rfl
  simp only [ErrKind.labelWith, Err.mapSp_reason]
  cases a.reason <;> rfl

end basics

/-! ### the relation between the two environments -/

/-- `env'` presents the same tokens as `env`, with spans re-based by `M` -/
structure KindRel (M : SpMap) (env env' : Env) : Prop where
  toks : env'.toks = env.toks
  ek : env'.ek = env.ek
  defs : env'.defs = mapConstL M env.defs
  memoOn : env'.memoOn = env.memoOn
  span : ∀ i j, env'.mkSpan i j = M.f (env.mkSpan i j)
  off : ∀ i, env'.off i = M.o (env.off i)
  ef : ∀ exp found p, env.ek.expectedFound exp found (M.f p) = (env.ek.expectedFound exp found p).mapSp M
  ue : ∀ p msg, env.ek.userErr (M.f p) msg = (env.ek.userErr p msg).mapSp M
  ic : ∀ a l p, env.ek.inContext (a.mapSp M) l (M.f p) = (env.ek.inContext a l p).mapSp M

section stateOps
variable {M : SpMap} {env env' : Env}

@[simp] theorem St.save_mapSp (st : St) : (st.mapSp M).save = st.save := by
  simp only [St.save, St.mapSp_pos, St.mapSp_errs, St.mapSp_insp, List.length_map]

@[simp] theorem St.rewind_mapSp (st : St) (c : Chk) : (st.mapSp M).rewind c = (st.rewind c).mapSp M := by
  simp only [St.rewind, St.mapSp, List.map_take]

@[simp] theorem St.rewindInput_mapSp (st : St) (c : Chk) :
    (st.mapSp M).rewindInput c = (st.rewindInput c).mapSp M := rfl

@[simp] theorem St.emit_mapSp (st : St) (p : Nat) (e : Err) :
    (st.mapSp M).emit p (e.mapSp M) = (st.emit p e).mapSp M := by
  simp only [St.emit, St.mapSp, List.map_append, List.map_cons, List.map_nil, Loc.mapSp]

theorem St.next_mapSp (h : KindRel M env env') (st : St) :
    St.next env' (st.mapSp M) = ((st.next env).1, (st.next env).2.mapSp M) := by
  simp only [St.next, h.toks, St.mapSp_pos]
  cases env.toks[st.pos]? <;> rfl

theorem St.peek_mapSp (h : KindRel M env env') (st : St) : St.peek env' (st.mapSp M) = St.peek env st := by
  simp only [St.peek, h.toks, St.mapSp_pos]

theorem St.mergeAlt_mapSp (ek : ErrKind) (alt : Option Loc) (p : Nat) (e : Err) :
    St.mergeAlt ek (alt.map (Loc.mapSp M)) p (e.mapSp M) = (St.mergeAlt ek alt p e).map (Loc.mapSp M) := by
  cases alt with
  | none => rfl
  | some a =>
    simp only [St.mergeAlt, Option.map_some, Loc.mapSp_pos, Loc.mapSp_err, ErrKind.merge_mapSp,
      apply_ite (Option.map (Loc.mapSp M)), Loc.mapSp_mk]
    rfl

theorem St.addAlt_mapSp (h : KindRel M env env') (st : St) (exp : List Pat) (found : Option Nat) (p : Nat × Nat) :
    (st.mapSp M).addAlt env' exp found (M.f p) = (st.addAlt env exp found p).mapSp M := by
  have hef := h.ef exp found p
  have hmef : ∀ a : Err, env.ek.mergeEF (a.mapSp M) exp found (M.f p) = (env.ek.mergeEF a exp found p).mapSp M :=
    fun a => ErrKind.mergeEF_mapSp M _ _ _ _ _ _
  have href : ∀ a : Err, env.ek.replaceEF (a.mapSp M) exp found (M.f p) = (env.ek.replaceEF a exp found p).mapSp M :=
    fun a => hef
  simp only [St.addAlt, h.ek]
  cases hk : env.ek <;> simp only [hk] at hef hmef href <;>
    cases hal : st.alt <;>
    simp [St.mapSp, hal, hef, hmef, href, Loc.mapSp, apply_ite (Option.map (Loc.mapSp M))]

theorem St.addAltErr_mapSp (h : KindRel M env env') (st : St) (p : Nat) (e : Err) :
    (st.mapSp M).addAltErr env' p (e.mapSp M) = (st.addAltErr env p e).mapSp M := by
  have hm := St.mergeAlt_mapSp (M := M) env.ek st.alt p e
  simp only [St.addAltErr, h.ek]
  cases hk : env.ek <;> simp only [hk] at hm <;> simp [St.mapSp, hm, Loc.mapSp]

theorem St.readdAlt_mapSp (h : KindRel M env env') (st : St) (n : Option Loc) :
    St.readdAlt env' (st.mapSp M) (n.map (Loc.mapSp M)) = (St.readdAlt env st n).mapSp M := by
  cases n with
  | none => rfl
  | some n =>
    have hm := St.mergeAlt_mapSp (M := M) env.ek st.alt n.pos n.err
    simp only [St.readdAlt, h.ek, Option.map_some]
    cases hk : env.ek <;> simp only [hk] at hm <;> simp [St.mapSp, hm, Loc.mapSp]

end stateOps

/-! ### folding a state whose fields are in mapped form -/
section fold
variable (M : SpMap)

theorem St.fold_map (p : Nat) (es : List Loc) (a : Option Loc) (i : List Nat) (c : Val)
    (mm : List ((Nat × Nat) × Option Loc)) (lg : List Loc) :
    St.mk p (es.map (Loc.mapSp M)) (a.map (Loc.mapSp M)) i (c.mapSp M)
        (mm.map (fun kv => (kv.1, kv.2.map (Loc.mapSp M)))) (lg.map (Loc.mapSp M))
      = St.mapSp M (St.mk p es a i c mm lg) := rfl

theorem St.fold_none (p : Nat) (es : List Loc) (i : List Nat) (c : Val)
    (mm : List ((Nat × Nat) × Option Loc)) (lg : List Loc) :
    St.mk p (es.map (Loc.mapSp M)) none i (c.mapSp M)
        (mm.map (fun kv => (kv.1, kv.2.map (Loc.mapSp M)))) (lg.map (Loc.mapSp M))
      = St.mapSp M (St.mk p es none i c mm lg) := rfl

theorem St.fold_some (p : Nat) (es : List Loc) (a : Loc) (i : List Nat) (c : Val)
    (mm : List ((Nat × Nat) × Option Loc)) (lg : List Loc) :
    St.mk p (es.map (Loc.mapSp M)) (some (a.mapSp M)) i (c.mapSp M)
        (mm.map (fun kv => (kv.1, kv.2.map (Loc.mapSp M)))) (lg.map (Loc.mapSp M))
      = St.mapSp M (St.mk p es (some a) i c mm lg) := rfl

end fold

/-! ### the simulation hypotheses -/

def KindSimR (M : SpMap) (env env' : Env) (R : Runner) : Prop :=
  ∀ m g st, R env' m (G.mapConst M g) (St.mapSp M st) = (R env m g st).mapSp M
def KindSimN (M : SpMap) (env env' : Env) (N : NextRunner) : Prop :=
  ∀ m it st ist, N env' m (It.mapConst M it) (St.mapSp M st) (ItSt.mapSp M ist) = (N env m it st ist).mapSp M
def KindSimK (M : SpMap) (env env' : Env) (K : MkRunner) : Prop :=
  ∀ m it st, K env' m (It.mapConst M it) (St.mapSp M st) = (K env m it st).mapSp M

@[simp] theorem It.nonconsOk_mapConst (M : SpMap) : ∀ it : It, (It.mapConst M it).nonconsOk = it.nonconsOk
  | .repeated .. => rfl
  | .separatedBy .. => rfl
  | .enumerate it => by simp only [It.mapConst, It.nonconsOk, It.nonconsOk_mapConst M it]
  | .orNotIt _ => rfl
  | .intoIter _ => rfl
  | .thenIt a b => by simp only [It.mapConst, It.nonconsOk, It.nonconsOk_mapConst M a, It.nonconsOk_mapConst M b]
  | .mapIt _ it => by simp only [It.mapConst, It.nonconsOk, It.nonconsOk_mapConst M it]
  | .configureRep _ it => by simp only [It.mapConst, It.nonconsOk, It.nonconsOk_mapConst M it]
  | .tryConfigureRep _ it => by simp only [It.mapConst, It.nonconsOk, It.nonconsOk_mapConst M it]

/-- re-basing of the result of the collecting phase of `foldr` -/
def fcMapSp (M : SpMap) : (Option (List (Val × Nat) × St)) ⊕ Out → (Option (List (Val × Nat) × St)) ⊕ Out
  | .inl (some (items, st)) => .inl (some (items.map (fun x => (x.1.mapSp M, x.2)), st.mapSp M))
  | .inl none => .inl none
  | .inr o => .inr (o.mapSp M)

@[simp] theorem fcMapSp_some (M : SpMap) (items : List (Val × Nat)) (st : St) :
    fcMapSp M (.inl (some (items, st))) = .inl (some (items.map (fun x => (x.1.mapSp M, x.2)), st.mapSp M)) := rfl
@[simp] theorem fcMapSp_none (M : SpMap) : fcMapSp M (.inl none) = .inl none := rfl
@[simp] theorem fcMapSp_inr (M : SpMap) (o : Out) : fcMapSp M (.inr o) = .inr (o.mapSp M) := rfl

/-- the normalising simp set: push `mapSp` out of state operations, into result constructors -/
macro "kind_simp" "[" ts:Lean.Parser.Tactic.simpLemma,* "]" : tactic => `(tactic| simp only [
  Out.mapSp_ok, Out.mapSp_fail, Out.mapSp_panic, Out.mapSp_oof,
  ItOut.mapSp_some, ItOut.mapSp_done, ItOut.mapSp_fail, ItOut.mapSp_panic, ItOut.mapSp_oof,
  MkOut.mapSp_ok, MkOut.mapSp_fail, MkOut.mapSp_panic, MkOut.mapSp_oof,
  ItSt.mapSp_cnt, ItSt.mapSp_fin, ItSt.mapSp_enum, ItSt.mapSp_into, ItSt.mapSp_thn, ItSt.mapSp_cfg,
  fcMapSp_some, fcMapSp_none, fcMapSp_inr,
  St.mapSp_pos, St.mapSp_errs, St.mapSp_alt, St.mapSp_insp, St.mapSp_ctx, St.mapSp_memo, St.mapSp_log,
  Loc.mapSp_pos, Loc.mapSp_err, List.length_map, Option.map_none, Option.map_some,
  St.fold_map, St.fold_none, St.fold_some,
  St.save_mapSp, St.rewind_mapSp, St.rewindInput_mapSp, St.emit_mapSp,
  apply_ite (Out.mapSp _), apply_ite (ItOut.mapSp _), apply_ite (MkOut.mapSp _), apply_ite (fcMapSp _),
  ← Mode.bind_mapSp, Val.mapSp_unit, Val.mapSp_tok, Val.mapSp_toks, Val.mapSp_pair, Val.mapSp_nil, Val.mapSp_cons,
  Val.mapSp_none, Val.mapSp_some, Val.mapSp_tag, Val.mapSp_span, Val.mapSp_slice, Val.mapSp_nat, Val.mapSp_insp,
  Prod.eta, PredFn.eval_mapSp, MapFn.eval_mapSp, FoldFn.evalL_mapSp, FoldFn.evalR_mapSp,
  Val.elems_mapSp, Val.asNat?_mapSp, Val.asToks?_mapSp, CtxFn.eval_mapSp, cfgBounds_mapSp,
  It.nonconsOk_mapConst, Out.andThen,
  $ts,*])

section loops
variable {M : SpMap} {env env' : Env} {R : Runner} {N : NextRunner} {K : MkRunner}

theorem choiceTuple_kind (hR : KindSimR M env env' R) (m : Mode) (c : Chk) : ∀ (gs : List G) (st : St),
    choiceTuple R env' m c (mapConstL M gs) (st.mapSp M) = (choiceTuple R env m c gs st).mapSp M
  | [], st => rfl
  | g :: gs, st => by
    kind_simp [choiceTuple, mapConstL, hR m g st]
    cases R env m g st with
    | fail st' =>
      kind_simp []
      exact choiceTuple_kind hR m c gs _
    | _ => rfl

theorem choiceSlice_kind (hR : KindSimR M env env' R) (m : Mode) (c : Chk) : ∀ (gs : List G) (st : St),
    choiceSlice R env' m c (mapConstL M gs) (st.mapSp M) = (choiceSlice R env m c gs st).mapSp M
  | [], st => rfl
  | g :: gs, st => by
    kind_simp [choiceSlice, mapConstL, hR m g]
    cases R env m g (st.rewind c) with
    | fail st' =>
      kind_simp []
      exact choiceSlice_kind hR m c gs _
    | _ => rfl

theorem groupLoop_kind (hR : KindSimR M env env' R) (m : Mode) : ∀ (gs : List G) (st : St) (acc : List Val),
    groupLoop R env' m (mapConstL M gs) (st.mapSp M) (acc.map (Val.mapSp M)) = (groupLoop R env m gs st acc).mapSp M
  | [], st, acc => by
    simp only [groupLoop, mapConstL, Out.mapSp_ok, ← List.map_reverse, Val.ofList_mapSp, Mode.bind_mapSp]
  | g :: gs, st, acc => by
    kind_simp [groupLoop, mapConstL, hR m g st]
    cases R env m g st with
    | ok v st' =>
      kind_simp []
      exact groupLoop_kind hR m gs st' (v :: acc)
    | _ => rfl

theorem collectLoop_kind (hN : KindSimN M env env' N) (m : Mode) (it : It) (k : CollKind) :
    ∀ (fuel : Nat) (st : St) (ist : ItSt) (acc : List Val) (i : Nat),
    collectLoop N env' m (it.mapConst M) k fuel (st.mapSp M) (ist.mapSp M) (acc.map (Val.mapSp M)) i
      = (collectLoop N env m it k fuel st ist acc i).mapSp M
  | 0, _, _, _, _ => rfl
  | fuel + 1, st, ist, acc, i => by
    kind_simp [collectLoop, hN m it st ist]
    cases N env m it st ist with
    | some v st' ist' =>
      kind_simp []
      rw [← List.map_cons, collectLoop_kind hN m it k fuel]
      rfl
    | done st' ist' => kind_simp [← List.map_reverse, collectOut_mapSp]
    | _ => rfl

theorem collectExactlyLoop_kind (h : KindRel M env env') (hN : KindSimN M env env' N) (m : Mode) (it : It) :
    ∀ (n : Nat) (st : St) (ist : ItSt) (acc : List Val),
    collectExactlyLoop N env' m (it.mapConst M) n (st.mapSp M) (ist.mapSp M) (acc.map (Val.mapSp M))
      = (collectExactlyLoop N env m it n st ist acc).mapSp M
  | 0, st, _, acc => by
    simp only [collectExactlyLoop, Out.mapSp_ok, ← List.map_reverse, Val.ofList_mapSp, Mode.bind_mapSp]
  | n + 1, st, ist, acc => by
    kind_simp [collectExactlyLoop, hN m it st ist]
    cases N env m it st ist with
    | some v st' ist' =>
      kind_simp []
      rw [← List.map_cons, collectExactlyLoop_kind h hN m it n]
    | done st' ist' => kind_simp [h.span, St.peek_mapSp h, St.addAlt_mapSp h]
    | _ => rfl

theorem foldlLoop_kind (hN : KindSimN M env env' N) (m : Mode) (it : It) (f f' : Val → Val → St → Val)
    (hf : ∀ acc x st, f' (Val.mapSp M acc) (Val.mapSp M x) (St.mapSp M st) = (f acc x st).mapSp M) :
    ∀ (fuel : Nat) (st : St) (ist : ItSt) (acc : Val),
    foldlLoop N env' m (it.mapConst M) f' fuel (st.mapSp M) (ist.mapSp M) (acc.mapSp M)
      = (foldlLoop N env m it f fuel st ist acc).mapSp M
  | 0, _, _, _ => rfl
  | fuel + 1, st, ist, acc => by
    kind_simp [foldlLoop, hN m it st ist]
    cases N env m it st ist with
    | some v st' ist' =>
      cases m with
      | emit => kind_simp [hf, foldlLoop_kind hN .emit it f f' hf fuel]
      | check =>
        have ih := foldlLoop_kind hN .check it f f' hf fuel st' ist' .unit
        simp only [show Val.mapSp M Val.unit = Val.unit from rfl] at ih
        kind_simp [ih]
    | _ => rfl

theorem foldrCollect_kind (hN : KindSimN M env env' N) (m : Mode) (it : It) :
    ∀ (fuel : Nat) (st : St) (ist : ItSt) (acc : List (Val × Nat)),
    foldrCollect N env' m (it.mapConst M) fuel (st.mapSp M) (ist.mapSp M) (acc.map (fun x => (x.1.mapSp M, x.2)))
      = fcMapSp M (foldrCollect N env m it fuel st ist acc)
  | 0, _, _, _ => rfl
  | fuel + 1, st, ist, acc => by
    kind_simp [foldrCollect, hN m it st ist]
    cases N env m it st ist with
    | some v st' ist' =>
      kind_simp []
      rw [show (Val.mapSp M v, st.pos) :: acc.map (fun x => (x.1.mapSp M, x.2))
            = ((v, st.pos) :: acc).map (fun x => (x.1.mapSp M, x.2)) from rfl,
        foldrCollect_kind hN m it fuel]
      rfl
    | _ => rfl

theorem repeatFast_kind (hR : KindSimR M env env' R) (a : G) : ∀ (fuel : Nat) (st : St),
    repeatFast R env' (a.mapConst M) fuel (st.mapSp M) = (repeatFast R env a fuel st).mapSp M
  | 0, _ => rfl
  | fuel + 1, st => by
    kind_simp [repeatFast, hR .check a st]
    cases R env .check a st with
    | ok v st' => kind_simp [repeatFast_kind hR a fuel]
    | fail st' => kind_simp []
    | _ => rfl

theorem iterLoop_kind (hN : KindSimN M env env' N) (it : It) (ap : Bool) : ∀ (fuel : Nat) (st : St) (ist : ItSt),
    iterLoop N env' (it.mapConst M) ap fuel (st.mapSp M) (ist.mapSp M) = (iterLoop N env it ap fuel st ist).mapSp M
  | 0, _, _ => rfl
  | fuel + 1, st, ist => by
    kind_simp [iterLoop, hN .check it st ist]
    cases N env .check it st ist with
    | some v st' ist' => kind_simp [iterLoop_kind hN it ap fuel]
    | done st' ist' => kind_simp []
    | _ => rfl

theorem skipUntilLoop_kind (hR : KindSimR M env env' R) (m : Mode) (skip until_ : G) (fb : Val) (alt : Loc) :
    ∀ (fuel : Nat) (st : St),
    skipUntilLoop R env' m (skip.mapConst M) (until_.mapConst M) (fb.mapSp M) (alt.mapSp M) fuel (st.mapSp M)
      = (skipUntilLoop R env m skip until_ fb alt fuel st).mapSp M
  | 0, _ => rfl
  | fuel + 1, st => by
    kind_simp [skipUntilLoop, hR _ _ _]
    cases R env .check until_ st with
    | fail st1 =>
      kind_simp [hR _ _ _]
      cases R env .check skip (st1.rewind st.save) with
      | ok v st3 => kind_simp [skipUntilLoop_kind hR m skip until_ fb alt fuel]
      | fail st3 => kind_simp []
      | _ => rfl
    | ok v st1 => kind_simp []
    | _ => rfl

theorem skipRetryLoop_kind (hR : KindSimR M env env' R) (m : Mode) (a skip until_ : G) (alt : Loc) :
    ∀ (fuel : Nat) (st : St),
    skipRetryLoop R env' m (a.mapConst M) (skip.mapConst M) (until_.mapConst M) (alt.mapSp M) fuel (st.mapSp M)
      = (skipRetryLoop R env m a skip until_ alt fuel st).mapSp M
  | 0, _ => rfl
  | fuel + 1, st => by
    kind_simp [skipRetryLoop, hR _ _ _]
    cases R env .check until_ st with
    | fail st1 =>
      kind_simp [hR _ _ _]
      cases R env .check skip (st1.rewind st.save) with
      | ok v st3 =>
        kind_simp [hR _ _ _]
        cases R env m a st3 with
        | ok v st4 => kind_simp [skipRetryLoop_kind hR m a skip until_ alt fuel]
        | fail st4 => kind_simp [skipRetryLoop_kind hR m a skip until_ alt fuel]
        | _ => rfl
      | fail st3 => kind_simp []
      | _ => rfl
    | ok v st1 => kind_simp []
    | _ => rfl

end loops

/-! ### helpers of `step` -/
section helpers
variable {M : SpMap} {env env' : Env}

theorem St.readdAlt_mapSp_some (h : KindRel M env env') (st : St) (p : Nat) (e : Err) :
    St.readdAlt env' (st.mapSp M) (some ⟨p, e.mapSp M⟩) = (St.readdAlt env st (some ⟨p, e⟩)).mapSp M :=
  St.readdAlt_mapSp h st (some ⟨p, e⟩)

theorem St.readdAlt_mapSp_some' (h : KindRel M env env') (st : St) (n : Loc) :
    St.readdAlt env' (st.mapSp M) (some (n.mapSp M)) = (St.readdAlt env st (some n)).mapSp M :=
  St.readdAlt_mapSp h st (some n)

theorem St.readdAlt_mapSp_none (st : St) :
    St.readdAlt env' (st.mapSp M) none = (St.readdAlt env st none).mapSp M := rfl

theorem replicate_mapSp (es : List Loc) (n p : Nat) (e : Err) :
    es.map (Loc.mapSp M) ++ List.replicate n (Loc.mk p (e.mapSp M))
      = (es ++ List.replicate n (Loc.mk p e)).map (Loc.mapSp M) := by
  simp only [List.map_append, List.map_replicate, Loc.mapSp_mk]

theorem ctxSecondary_kind (h : KindRel M env env') (l start n : Nat) (errs : List Loc) :
    ctxSecondary env' l start n (errs.map (Loc.mapSp M)) = (ctxSecondary env l start n errs).map (Loc.mapSp M) := by
  simp only [ctxSecondary, List.map_append, List.map_take, List.map_drop, List.map_map, h.ek, h.span]
  congr 3
  funext e
  simp only [Function.comp, Loc.mapSp_pos, Loc.mapSp_err, h.ic, Loc.mapSp_mk]

theorem memoFind_mapSp (key : Nat × Nat) : ∀ mm : List ((Nat × Nat) × Option Loc),
    memoFind (mm.map (fun kv => (kv.1, kv.2.map (Loc.mapSp M)))) key
      = (memoFind mm key).map (Option.map (Loc.mapSp M))
  | [] => rfl
  | (k, v) :: rest => by
    simp only [List.map_cons, memoFind, memoFind_mapSp key rest]
    split <;> rfl

theorem memoRemove_mapSp (key : Nat × Nat) (mm : List ((Nat × Nat) × Option Loc)) :
    memoRemove (mm.map (fun kv => (kv.1, kv.2.map (Loc.mapSp M)))) key
      = (memoRemove mm key).map (fun kv => (kv.1, kv.2.map (Loc.mapSp M))) := by
  simp only [memoRemove, List.filter_map]
  rfl

theorem memoInsert_mapSp (key : Nat × Nat) (mm : List ((Nat × Nat) × Option Loc)) (v : Option Loc) :
    memoInsert (mm.map (fun kv => (kv.1, kv.2.map (Loc.mapSp M)))) key (v.map (Loc.mapSp M))
      = (memoInsert mm key v).map (fun kv => (kv.1, kv.2.map (Loc.mapSp M))) := by
  simp only [memoInsert, List.filter_map, List.map_cons]
  rfl

theorem memoInsert_mapSp_none (key : Nat × Nat) (mm : List ((Nat × Nat) × Option Loc)) :
    memoInsert (mm.map (fun kv => (kv.1, kv.2.map (Loc.mapSp M)))) key none
      = (memoInsert mm key none).map (fun kv => (kv.1, kv.2.map (Loc.mapSp M))) :=
  memoInsert_mapSp key mm none

theorem Out.restoreCtx_mapSp (o : Out) (c : Val) :
    (o.mapSp M).restoreCtx (c.mapSp M) = (o.restoreCtx c).mapSp M := by cases o <;> rfl

theorem Out.restoreInsp_mapSp (o : Out) (i : List Nat) :
    (o.mapSp M).restoreInsp i = (o.restoreInsp i).mapSp M := by cases o <;> rfl

theorem tokenPrim_kind (h : KindRel M env env') (m : Mode) (st : St) (accept : Nat → Option Val) (exp : List Pat)
    (hacc : ∀ t, (accept t).map (Val.mapSp M) = accept t) :
    tokenPrim env' m (st.mapSp M) accept exp = (tokenPrim env m st accept exp).mapSp M := by
  kind_simp [tokenPrim, St.next_mapSp h]
  cases hb : (St.next env st).fst.bind accept with
  | none => kind_simp [h.span, St.addAlt_mapSp h]
  | some v =>
    have hv : v.mapSp M = v := by
      cases ht : (St.next env st).fst with
      | none => simp [ht] at hb
      | some t =>
        simp only [ht, Option.bind_some] at hb
        have := hacc t
        rw [hb] at this
        simpa using this
    kind_simp [hv]

theorem justRun_kind (h : KindRel M env env') : ∀ (ts : List Nat) (st : St),
    justRun env' ts (st.mapSp M) = (justRun env ts st).map (St.mapSp M) (St.mapSp M)
  | [], st => rfl
  | e :: es, st => by
    kind_simp [justRun, St.next_mapSp h, justRun_kind h es, h.span, St.addAlt_mapSp h]
    split <;> rfl

theorem runCustom_kind (h : KindRel M env env') (m : Mode) (f : CustomFn) (st : St) :
    runCustom env' m f (st.mapSp M) = (runCustom env m f st).mapSp M := by
  cases f with
  | next msg =>
    kind_simp [runCustom, St.next_mapSp h]
    cases (St.next env st).fst with
    | none => kind_simp [h.span, h.ek, h.ue, St.addAltErr_mapSp h]
    | some t => kind_simp []
  | take2Fail msg => kind_simp [runCustom, St.next_mapSp h, h.span, h.ek, h.ue, St.addAltErr_mapSp h]
  | nothing => kind_simp [runCustom]
  | failNow msg => kind_simp [runCustom, h.span, h.ek, h.ue, St.addAltErr_mapSp h]

theorem foldr_items_kind (f : FoldFn) : ∀ (items : List (Val × Nat)) (vb : Val),
    (items.map (fun x => (x.1.mapSp M, x.2))).foldl (fun acc (x : Val × Nat) => f.evalR x.1 acc) (vb.mapSp M)
      = (items.foldl (fun acc (x : Val × Nat) => f.evalR x.1 acc) vb).mapSp M
  | [], vb => rfl
  | x :: xs, vb => by
    simp only [List.map_cons, List.foldl_cons, FoldFn.evalR_mapSp, foldr_items_kind f xs]

theorem foldrWith_items_kind (p : Nat) : ∀ (items : List (Val × Nat)) (vb : Val),
    (items.map (fun x => (x.1.mapSp M, x.2))).foldl (fun acc (x : Val × Nat) =>
        Val.pair (.pair x.1 acc) (.span (M.f (env.mkSpan x.2 p)).1 (M.f (env.mkSpan x.2 p)).2)) (vb.mapSp M)
      = (items.foldl (fun acc (x : Val × Nat) =>
        Val.pair (.pair x.1 acc) (.span (env.mkSpan x.2 p).1 (env.mkSpan x.2 p).2)) vb).mapSp M
  | [], vb => rfl
  | x :: xs, vb => by
    simp only [List.map_cons, List.foldl_cons]
    rw [← foldrWith_items_kind p xs]
    simp only [Val.mapSp_pair, Val.mapSp_span, Prod.eta]

end helpers

/-- `kind_simp` plus the lemmas that depend on the relation `h` between the environments -/
macro "kind_simph" h:ident "[" ts:Lean.Parser.Tactic.simpLemma,* "]" : tactic => `(tactic| kind_simp [
  KindRel.span $h, KindRel.off $h, KindRel.ek $h, KindRel.memoOn $h, KindRel.ue $h, KindRel.ic $h,
  St.next_mapSp $h, St.peek_mapSp $h, St.addAlt_mapSp $h, St.addAltErr_mapSp $h,
  St.readdAlt_mapSp $h, St.readdAlt_mapSp_some $h, St.readdAlt_mapSp_some' $h, St.readdAlt_mapSp_none,
  ErrKind.labelWith_mapSp, replicate_mapSp, ctxSecondary_kind $h,
  memoFind_mapSp, memoRemove_mapSp, memoInsert_mapSp, memoInsert_mapSp_none,
  Out.restoreCtx_mapSp, Out.restoreInsp_mapSp,
  $ts,*])

section steps
variable {M : SpMap} {env env' : Env} {R : Runner} {N : NextRunner} {K : MkRunner}

theorem getElem?_mapConstL (M : SpMap) : ∀ (gs : List G) (k : Nat), (mapConstL M gs)[k]? = (gs[k]?).map (G.mapConst M)
  | [], k => by simp [mapConstL]
  | g :: gs, 0 => by simp [mapConstL]
  | g :: gs, k + 1 => by simp [mapConstL, getElem?_mapConstL M gs k]

theorem step_kind (h : KindRel M env env') (hR : KindSimR M env env' R) (hN : KindSimN M env env' N)
    (hK : KindSimK M env env' K) (L : Nat) : KindSimR M env env' (step R N K L) := by
  have hR' : ∀ m g st, R env' m (G.mapConst M g) (St.mapSp M st) = (R env m g st).mapSp M := hR
  have hK' : ∀ m it st, K env' m (It.mapConst M it) (St.mapSp M st) = (K env m it st).mapSp M := hK
  intro m g st
  cases g with
  | end_ =>
    kind_simph h [step, G.mapConst]
    cases (St.next env st).fst with
    | none => kind_simp []
    | some t => kind_simp []
  | empty => rfl
  | any => exact tokenPrim_kind h _ _ _ _ (fun _ => rfl)
  | just ts =>
    kind_simph h [step, G.mapConst, justRun_kind h]
    cases justRun env ts st <;> kind_simp [Sum.map_inl, Sum.map_inr]
  | oneOf ts =>
    refine tokenPrim_kind h _ _ _ _ (fun t => ?_)
    split <;> rfl
  | noneOf ts =>
    refine tokenPrim_kind h _ _ _ _ (fun t => ?_)
    split <;> rfl
  | select ts =>
    refine tokenPrim_kind h _ _ _ _ (fun t => ?_)
    split <;> rfl
  | custom f => exact runCustom_kind h _ _ _
  | todo => rfl
  | then_ a b =>
    kind_simph h [step, G.mapConst, hR']
    cases R env m a st with
    | ok va st1 =>
      kind_simp [hR']
      cases R env m b st1 <;> kind_simp []
    | _ => rfl
  | ignoreThen a b =>
    kind_simph h [step, G.mapConst, hR']
    cases R env .check a st with
    | ok va st1 =>
      kind_simp [hR']
      cases R env m b st1 <;> kind_simp []
    | _ => rfl
  | thenIgnore a b =>
    kind_simph h [step, G.mapConst, hR']
    cases R env m a st with
    | ok va st1 =>
      kind_simp [hR']
      cases R env .check b st1 <;> kind_simp []
    | _ => rfl
  | delimitedBy a l r =>
    kind_simph h [step, G.mapConst, hR']
    cases R env .check l st with
    | ok vl st1 =>
      kind_simp [hR']
      cases R env m a st1 with
      | ok va st2 =>
        kind_simp [hR']
        cases R env .check r st2 <;> kind_simp []
      | _ => rfl
    | _ => rfl
  | paddedBy a p =>
    kind_simph h [step, G.mapConst, hR']
    cases R env .check p st with
    | ok vl st1 =>
      kind_simp [hR']
      cases R env m a st1 with
      | ok va st2 =>
        kind_simp [hR']
        cases R env .check p st2 <;> kind_simp []
      | _ => rfl
    | _ => rfl
  | group gs => exact groupLoop_kind hR m gs st []
  | groupArr gs => exact groupLoop_kind hR m gs st []
  | or_ a b =>
    have := choiceTuple_kind hR m st.save [a, b] st
    kind_simp [step, G.mapConst]
    exact this
  | choice fl gs =>
    cases fl with
    | tuple =>
      match gs with
      | [] => rfl
      | [g] => exact hR m g st
      | g :: g' :: gs =>
        have := choiceTuple_kind hR m st.save (g :: g' :: gs) st
        kind_simp [step, G.mapConst, mapConstL]
        exact this
    | slice =>
      match gs with
      | [] => kind_simph h [step, G.mapConst, mapConstL]
      | g :: gs =>
        have := choiceSlice_kind hR m st.save (g :: gs) st
        kind_simp [step, G.mapConst, mapConstL]
        exact this
  | orNot a =>
    kind_simph h [step, G.mapConst, hR']
    cases R env m a st <;> cases m <;> kind_simp []
  | not_ a =>
    kind_simph h [step, G.mapConst, hR']
    cases R env .check a { st with alt := none } <;> kind_simph h []
  | andIs a b =>
    kind_simph h [step, G.mapConst, hR']
    cases R env m a st with
    | ok va st1 =>
      kind_simp [hR']
      cases R env .check b (st1.rewindInput st.save) <;> kind_simp []
    | _ => kind_simp []
  | rewind a =>
    kind_simph h [step, G.mapConst, hR']
    cases R env m a st <;> kind_simp []
  | map f a =>
    kind_simph h [step, G.mapConst, hR']
    cases R env m a st <;> cases m <;> kind_simp []
  | to v a =>
    kind_simph h [step, G.mapConst, hR']
    cases R env .check a st <;> kind_simp []
  | ignored a =>
    kind_simph h [step, G.mapConst, hR']
    cases R env .check a st <;> kind_simp []
  | filter p a =>
    kind_simph h [step, G.mapConst, hR']
    cases R env .emit a st <;> kind_simph h []
  | tryMap f a =>
    kind_simph h [step, G.mapConst, hR']
    cases R env .emit a { st with alt := none } <;> kind_simph h []
  | tryMapWith f a =>
    kind_simph h [step, G.mapConst, hR']
    cases R env .emit a st <;> kind_simph h []
  | toSpan a =>
    kind_simph h [step, G.mapConst, hR']
    cases R env m a st <;> kind_simph h []
  | toSlice a =>
    kind_simph h [step, G.mapConst, hR']
    cases R env .check a st <;> kind_simph h []
  | mapWithSpan a =>
    kind_simph h [step, G.mapConst, hR']
    cases R env m a st <;> kind_simph h []
  | mapWithState a =>
    kind_simph h [step, G.mapConst, hR']
    cases R env m a st <;> kind_simph h []
  | mapWithCtx a =>
    kind_simph h [step, G.mapConst, hR']
    cases R env m a st <;> kind_simph h []
  | validate f a =>
    kind_simph h [step, G.mapConst, hR']
    cases R env .emit a st <;> kind_simph h [apply_ite (St.mapSp M)]
  | collect k it =>
    kind_simph h [step, G.mapConst, hK']
    cases K env m it st with
    | ok ist st1 => exact collectLoop_kind hN m it k L st1 ist [] 0
    | _ => kind_simp []
  | collectExactly n it =>
    kind_simph h [step, G.mapConst, hK']
    cases K env m it st with
    | ok ist st1 => exact collectExactlyLoop_kind h hN m it n st1 ist []
    | _ => kind_simp []
  | foldl f a it =>
    kind_simph h [step, G.mapConst, hR', hK']
    cases R env m a st with
    | ok va st1 =>
      kind_simp [hK']
      cases K env m it st1 with
      | ok ist st2 =>
        kind_simp []
        exact foldlLoop_kind hN m it _ _ (fun acc x _ => FoldFn.evalL_mapSp M f acc x) L st2 ist va
      | _ => kind_simp []
    | _ => kind_simp []
  | foldlWith a it =>
    kind_simph h [step, G.mapConst, hR', hK']
    cases R env m a st with
    | ok va st1 =>
      kind_simp [hK']
      cases K env m it st1 with
      | ok ist st2 =>
        kind_simp []
        refine foldlLoop_kind hN m it _ _ (fun acc x st' => ?_) L st2 ist va
        kind_simp []
      | _ => kind_simp []
    | _ => kind_simp []
  | foldr f it b =>
    kind_simph h [step, G.mapConst, hR', hK']
    cases K env m it st with
    | ok ist st1 =>
      have hc := foldrCollect_kind hN m it L st1 ist []
      simp only [List.map_nil] at hc
      kind_simp [hc]
      cases foldrCollect N env m it L st1 ist [] with
      | inr o => kind_simp []
      | inl x =>
        cases x with
        | none => kind_simp []
        | some p =>
          cases p with
          | mk items st2 =>
            kind_simp [hR']
            cases R env m b st2 <;> cases m <;> kind_simp [foldr_items_kind]
    | _ => kind_simp []
  | foldrWith it b =>
    kind_simph h [step, G.mapConst, hR', hK']
    cases K env m it st with
    | ok ist st1 =>
      have hc := foldrCollect_kind hN m it L st1 ist []
      simp only [List.map_nil] at hc
      kind_simp [hc]
      cases foldrCollect N env m it L st1 ist [] with
      | inr o => kind_simp []
      | inl x =>
        cases x with
        | none => kind_simp []
        | some p =>
          cases p with
          | mk items st2 =>
            kind_simp [hR']
            cases R env m b st2 <;> cases m <;> kind_simp [foldrWith_items_kind]
    | _ => kind_simp []
  | iterP it =>
    cases it with
    | repeated a lo hi =>
      have h1 := hK' .check (.repeated a lo hi) st
      have h2 := iterLoop_kind hN (.repeated a lo hi) true L
      simp only [It.mapConst] at h1 h2
      cases lo with
      | zero =>
        cases hi with
        | none => exact repeatFast_kind hR a L st
        | some hh =>
          kind_simp [G.mapConst, It.mapConst, step, h1]
          cases K env .check (.repeated a 0 (some hh)) st <;> kind_simp [h2]
      | succ lo =>
        kind_simp [G.mapConst, It.mapConst, step, h1]
        cases K env .check (.repeated a (lo + 1) hi) st <;> kind_simp [h2]
    | separatedBy a sep lo hi lead trail =>
      have h1 := hK' .check (.separatedBy a sep lo hi lead trail) st
      have h2 := iterLoop_kind hN (.separatedBy a sep lo hi lead trail) true L
      simp only [It.mapConst] at h1 h2
      kind_simp [G.mapConst, It.mapConst, step, h1]
      cases K env .check (.separatedBy a sep lo hi lead trail) st <;> kind_simp [h2]
    | configureRep c inner =>
      have h1 := hK' .check (.configureRep c inner) st
      have h2 := iterLoop_kind hN (.configureRep c inner) false L
      simp only [It.mapConst] at h1 h2
      kind_simp [G.mapConst, It.mapConst, step, h1]
      cases K env .check (.configureRep c inner) st <;> kind_simp [h2]
    | tryConfigureRep c inner =>
      have h1 := hK' .check (.tryConfigureRep c inner) st
      have h2 := iterLoop_kind hN (.tryConfigureRep c inner) false L
      simp only [It.mapConst] at h1 h2
      kind_simp [G.mapConst, It.mapConst, step, h1]
      cases K env .check (.tryConfigureRep c inner) st <;> kind_simp [h2]
    | intoIter a =>
      kind_simp [G.mapConst, It.mapConst, step, hR']
      cases R env .check a st <;> kind_simp []
    | _ => rfl
  | recoverVia a r =>
    kind_simph h [step, G.mapConst, hR']
    cases R env m a st with
    | fail st1 =>
      kind_simp []
      cases (st1.rewind st.save).alt with
      | none => kind_simp []
      | some alt =>
        kind_simp [hR']
        cases R env m r { st1.rewind st.save with alt := none } <;> kind_simp []
    | _ => kind_simp []
  | recoverSkipUntil a skip until_ fb =>
    kind_simph h [step, G.mapConst, hR']
    cases R env m a st with
    | fail st1 =>
      kind_simp []
      cases (st1.rewind st.save).alt with
      | none => kind_simp []
      | some alt =>
        kind_simp [skipUntilLoop_kind hR]
        cases skipUntilLoop R env m skip until_ fb alt L { st1.rewind st.save with alt := none } <;> kind_simp []
    | _ => kind_simp []
  | recoverSkipRetry a skip until_ =>
    kind_simph h [step, G.mapConst, hR']
    cases R env m a st with
    | fail st1 =>
      kind_simp []
      cases (st1.rewind st.save).alt with
      | none => kind_simp []
      | some alt =>
        kind_simp [skipRetryLoop_kind hR]
        cases skipRetryLoop R env m a skip until_ alt L { st1.rewind st.save with alt := none } <;> kind_simp []
    | _ => kind_simp []
  | labelled l asCtx a =>
    kind_simph h [step, G.mapConst, hR']
    cases R env m a { st with alt := none } with
    | ok v st1 =>
      obtain ⟨p1, es1, al1, i1, c1, mm1, lg1⟩ := st1
      cases al1 <;> cases asCtx <;>
        kind_simph h [Bool.false_eq_true, if_false, if_true, Bool.false_and, Bool.true_and, ← apply_ite (Err.mapSp M)] <;>
        (try rfl)
    | fail st1 =>
      obtain ⟨p1, es1, al1, i1, c1, mm1, lg1⟩ := st1
      cases al1 <;> cases asCtx <;>
        kind_simph h [Bool.false_eq_true, if_false, if_true, Bool.false_and, Bool.true_and, ← apply_ite (Err.mapSp M)] <;>
        (try rfl)
    | _ => kind_simp []
  | mapErr k a =>
    kind_simph h [step, G.mapConst, hR']
    cases R env m a { st with alt := none } with
    | fail st1 =>
      obtain ⟨p1, es1, al1, i1, c1, mm1, lg1⟩ := st1
      cases al1 <;> kind_simph h []
    | _ => kind_simph h []
  | withCtx cv a =>
    kind_simph h [step, G.mapConst, hR']
  | ignoreWithCtx a b =>
    kind_simph h [step, G.mapConst, hR']
    cases R env .emit a st <;> kind_simph h [hR']
  | thenWithCtx a b =>
    kind_simph h [step, G.mapConst, hR']
    cases R env .emit a st with
    | ok va st1 =>
      kind_simph h [hR']
      cases (R env m b { st1 with ctx := va }) <;> kind_simph h [Out.restoreCtx]
    | _ => kind_simp []
  | mapCtx f a =>
    kind_simph h [step, G.mapConst, hR']
  | configureJust c ts =>
    kind_simph h [step, G.mapConst, justRun_kind h]
    generalize justRun env _ st = o
    cases o <;> kind_simp [Sum.map_inl, Sum.map_inr]
  | withState a =>
    kind_simph h [step, G.mapConst, hR']
  | memoized id a =>
    kind_simph h [step, G.mapConst, hR']
    cases env.memoOn with
    | false => kind_simp [Bool.not_false, if_true]
    | true =>
      kind_simp [Bool.not_true, Bool.false_eq_true, if_false]
      cases memoFind st.memo (st.pos, id) with
      | some x => cases x <;> kind_simph h []
      | none =>
        kind_simph h [hR']
        cases R env m a { st with memo := memoInsert st.memo (st.pos, id) none, alt := none } <;> kind_simph h []
  | call k =>
    kind_simph h [step, G.mapConst, h.defs, getElem?_mapConstL]
    cases env.defs[k]? <;> kind_simp [hR']
  | boxed a => exact hR m a st

end steps

section iters
variable {M : SpMap} {env env' : Env} {R : Runner} {N : NextRunner} {K : MkRunner}

theorem repeatedNext_kind (hR : KindSimR M env env' R) (m : Mode) (a : G) (lo : Nat) (hi : Option Nat)
    (st : St) (n : Nat) (wrap : ItSt → ItSt) (hw : ∀ s, wrap (ItSt.mapSp M s) = (wrap s).mapSp M) :
    repeatedNext R env' m (a.mapConst M) lo hi (st.mapSp M) n wrap
      = (repeatedNext R env m a lo hi st n wrap).mapSp M := by
  have hw' : ∀ k, wrap (.cnt k) = (wrap (.cnt k)).mapSp M := fun k => by
    have := hw (.cnt k)
    simpa using this
  kind_simp [repeatedNext, hR m a st]
  cases R env m a st <;> kind_simp [← hw']

theorem separatedNext_kind (hR : KindSimR M env env' R) (m : Mode) (a sep : G) (lo : Nat) (hi : Option Nat)
    (lead trail : Bool) (st : St) (n : Nat) :
    separatedNext R env' m (a.mapConst M) (sep.mapConst M) lo hi lead trail (st.mapSp M) n
      = (separatedNext R env m a sep lo hi lead trail st n).mapSp M := by
  have hR' : ∀ m g st, R env' m (G.mapConst M g) (St.mapSp M st) = (R env m g st).mapSp M := hR
  have item : ∀ st0 : St,
      (match R env' m (a.mapConst M) (st0.mapSp M) with
        | .ok v st1 => ItOut.some v st1 (.cnt (n + 1))
        | .fail st1 =>
          if n < lo then .fail (st1.rewind st.save)
          else if trail then .done (st1.rewind st0.save) (.cnt n)
          else .done (st1.rewind st.save) (.cnt n)
        | .panic w => .panic w
        | .oof => .oof)
      = ItOut.mapSp M (match R env m a st0 with
        | .ok v st1 => ItOut.some v st1 (.cnt (n + 1))
        | .fail st1 =>
          if n < lo then .fail (st1.rewind st.save)
          else if trail then .done (st1.rewind st0.save) (.cnt n)
          else .done (st1.rewind st.save) (.cnt n)
        | .panic w => .panic w
        | .oof => .oof) := by
    intro st0
    kind_simp [hR']
    cases R env m a st0 <;> kind_simp []
  kind_simp [separatedNext, hR']
  split
  · rfl
  · split
    · cases R env .check sep st with
      | ok v st1 => kind_simp []; exact item st1
      | fail st1 => kind_simp []; exact item _
      | _ => kind_simp []
    · split
      · cases R env .check sep st with
        | ok v st1 => kind_simp []; exact item st1
        | fail st1 => kind_simp []
        | _ => kind_simp []
      · have hi := item st
        rw [hR'] at hi
        exact hi

theorem stepNext_kind (hR : KindSimR M env env' R) (hN : KindSimN M env env' N) (hK : KindSimK M env env' K) :
    KindSimN M env env' (stepNext R N K) := by
  have hR' : ∀ m g st, R env' m (G.mapConst M g) (St.mapSp M st) = (R env m g st).mapSp M := hR
  have hN' : ∀ m it st ist, N env' m (It.mapConst M it) (St.mapSp M st) (ItSt.mapSp M ist)
      = (N env m it st ist).mapSp M := hN
  have hK' : ∀ m it st, K env' m (It.mapConst M it) (St.mapSp M st) = (K env m it st).mapSp M := hK
  intro m it st ist
  cases it with
  | repeated a lo hi =>
    cases ist with
    | cnt n => exact repeatedNext_kind hR m a lo hi st n id (fun _ => rfl)
    | _ => first | rfl | (kind_simp [It.mapConst, stepNext])
  | separatedBy a sep lo hi lead trail =>
    cases ist with
    | cnt n => exact separatedNext_kind hR m a sep lo hi lead trail st n
    | _ => first | rfl | (kind_simp [It.mapConst, stepNext])
  | enumerate inner =>
    cases ist with
    | enum k s =>
      kind_simp [It.mapConst, stepNext, hN']
      cases N env m inner st s <;> kind_simp []
    | _ => first | rfl | (kind_simp [It.mapConst, stepNext])
  | orNotIt a =>
    cases ist with
    | fin b =>
      kind_simp [It.mapConst, stepNext, hR']
      cases b with
      | true => rfl
      | false =>
        kind_simp [Bool.false_eq_true, if_false]
        cases R env m a st <;> kind_simp []
    | _ => first | rfl | (kind_simp [It.mapConst, stepNext])
  | intoIter a =>
    cases ist with
    | into vs => cases vs <;> kind_simp [It.mapConst, stepNext, List.map_nil, List.map_cons]
    | _ => first | rfl | (kind_simp [It.mapConst, stepNext])
  | thenIt a b =>
    cases ist with
    | thn sa sb? =>
      cases sb? with
      | some sb =>
        kind_simp [It.mapConst, stepNext, hN']
        cases N env m b st sb <;> kind_simp []
      | none =>
        kind_simp [It.mapConst, stepNext, hN']
        cases N env m a st sa with
        | done st1 sa1 =>
          kind_simp [hK']
          cases K env m b st1 with
          | ok sb st2 =>
            kind_simp [hN']
            cases N env m b st2 sb <;> kind_simp []
          | _ => kind_simp []
        | _ => kind_simp []
    | _ => first | rfl | (kind_simp [It.mapConst, stepNext])
  | mapIt f inner =>
    kind_simp [It.mapConst, stepNext, hN']
    cases N env m inner st ist <;> cases m <;> kind_simp []
  | configureRep c inner =>
    cases inner with
    | repeated a lo hi =>
      cases ist with
      | cfg s clo chi =>
        cases s with
        | cnt n =>
          kind_simp [It.mapConst, stepNext]
          exact repeatedNext_kind hR m a _ _ st n _ (fun s => by kind_simp [])
        | _ => first | rfl | (kind_simp [It.mapConst, stepNext])
      | _ => first | rfl | (kind_simp [It.mapConst, stepNext])
    | _ => cases ist <;> first | rfl | (kind_simp [It.mapConst, stepNext])
  | tryConfigureRep c inner =>
    cases inner with
    | repeated a lo hi =>
      cases ist with
      | cfg s clo chi =>
        cases s with
        | cnt n =>
          kind_simp [It.mapConst, stepNext]
          exact repeatedNext_kind hR m a _ _ st n _ (fun s => by kind_simp [])
        | _ => first | rfl | (kind_simp [It.mapConst, stepNext])
      | _ => first | rfl | (kind_simp [It.mapConst, stepNext])
    | _ => cases ist <;> first | rfl | (kind_simp [It.mapConst, stepNext])

theorem stepMk_kind (h : KindRel M env env') (hR : KindSimR M env env' R) (hK : KindSimK M env env' K) :
    KindSimK M env env' (stepMk R K) := by
  have hR' : ∀ m g st, R env' m (G.mapConst M g) (St.mapSp M st) = (R env m g st).mapSp M := hR
  have hK' : ∀ m it st, K env' m (It.mapConst M it) (St.mapSp M st) = (K env m it st).mapSp M := hK
  intro m it st
  cases it with
  | repeated a lo hi => rfl
  | separatedBy a sep lo hi lead trail => rfl
  | enumerate inner =>
    kind_simp [It.mapConst, stepMk, hK']
    cases K env m inner st <;> kind_simp []
  | orNotIt a => rfl
  | intoIter a =>
    kind_simp [It.mapConst, stepMk, hR']
    cases R env .emit a st <;> kind_simp []
  | thenIt a b =>
    kind_simp [It.mapConst, stepMk, hK']
    cases K env m a st <;> kind_simp []
  | mapIt f inner => exact hK m inner st
  | configureRep c inner =>
    kind_simp [It.mapConst, stepMk, hK']
    cases K env m inner st <;> kind_simp []
  | tryConfigureRep c inner =>
    kind_simph h [It.mapConst, stepMk, hK']
    cases st.ctx.asNat? with
    | none => kind_simp []
    | some n =>
      kind_simp []
      cases K env m inner st <;> kind_simp []

end iters

/-! ### every fuel -/

theorem run_kind_all {M : SpMap} {env env' : Env} (h : KindRel M env env') : ∀ n : Nat,
    KindSimR M env env' (run n) ∧ KindSimN M env env' (next n) ∧ KindSimK M env env' (mkIter n)
  | 0 => ⟨fun _ _ _ => rfl, fun _ _ _ _ => rfl, fun _ _ _ => rfl⟩
  | n + 1 => by
    obtain ⟨hR, hN, hK⟩ := run_kind_all h n
    exact ⟨step_kind h hR hN hK n, stepNext_kind hR hN hK, stepMk_kind h hR hK⟩

/-- general form: any two environments related by a re-basing `M`; the constants of the grammar are re-based too -/
theorem run_kindSim_gen {M : SpMap} {env env' : Env} (h : KindRel M env env') (n : Nat) (m : Mode) (g : G) (st : St) :
    run n env' m (g.mapConst M) (st.mapSp M) = (run n env m g st).mapSp M :=
  (run_kind_all h n).1 m g st

/-- closes one case of `mapConst_of_constOk` -/
macro "kind_mc_close" : tactic => `(tactic|
  (simp only [G.constOk, It.constOk, constOkL, G.mapConst, It.mapConst, mapConstL, Bool.and_eq_true] at *; simp_all))

mutual
/-- a grammar whose constants carry no span is its own re-basing -/
theorem G.mapConst_of_constOk (M : SpMap) : ∀ g : G, g.constOk = true → g.mapConst M = g
  | .end_ => by intro _; rfl
  | .empty => by intro _; rfl
  | .any => by intro _; rfl
  | .just x0 => by intro _; rfl
  | .oneOf x0 => by intro _; rfl
  | .noneOf x0 => by intro _; rfl
  | .select x0 => by intro _; rfl
  | .custom x0 => by intro _; rfl
  | .todo => by intro _; rfl
  | .then_ x0 x1 => by intro hc; have r0 := G.mapConst_of_constOk M x0; have r1 := G.mapConst_of_constOk M x1; kind_mc_close
  | .ignoreThen x0 x1 => by intro hc; have r0 := G.mapConst_of_constOk M x0; have r1 := G.mapConst_of_constOk M x1; kind_mc_close
  | .thenIgnore x0 x1 => by intro hc; have r0 := G.mapConst_of_constOk M x0; have r1 := G.mapConst_of_constOk M x1; kind_mc_close
  | .delimitedBy x0 x1 x2 => by intro hc; have r0 := G.mapConst_of_constOk M x0; have r1 := G.mapConst_of_constOk M x1; have r2 := G.mapConst_of_constOk M x2; kind_mc_close
  | .paddedBy x0 x1 => by intro hc; have r0 := G.mapConst_of_constOk M x0; have r1 := G.mapConst_of_constOk M x1; kind_mc_close
  | .group x0 => by intro hc; have r0 := mapConstL_of_constOkL M x0; kind_mc_close
  | .groupArr x0 => by intro hc; have r0 := mapConstL_of_constOkL M x0; kind_mc_close
  | .or_ x0 x1 => by intro hc; have r0 := G.mapConst_of_constOk M x0; have r1 := G.mapConst_of_constOk M x1; kind_mc_close
  | .choice x0 x1 => by intro hc; have r0 := mapConstL_of_constOkL M x1; kind_mc_close
  | .orNot x0 => by intro hc; have r0 := G.mapConst_of_constOk M x0; kind_mc_close
  | .not_ x0 => by intro hc; have r0 := G.mapConst_of_constOk M x0; kind_mc_close
  | .andIs x0 x1 => by intro hc; have r0 := G.mapConst_of_constOk M x0; have r1 := G.mapConst_of_constOk M x1; kind_mc_close
  | .rewind x0 => by intro hc; have r0 := G.mapConst_of_constOk M x0; kind_mc_close
  | .map x0 x1 => by intro hc; have r0 := G.mapConst_of_constOk M x1; kind_mc_close
  | .to x0 x1 => by intro hc; have r0 := G.mapConst_of_constOk M x1; have r1 := Val.mapSp_of_noSp M x0; kind_mc_close
  | .ignored x0 => by intro hc; have r0 := G.mapConst_of_constOk M x0; kind_mc_close
  | .filter x0 x1 => by intro hc; have r0 := G.mapConst_of_constOk M x1; kind_mc_close
  | .tryMap x0 x1 => by intro hc; have r0 := G.mapConst_of_constOk M x1; kind_mc_close
  | .tryMapWith x0 x1 => by intro hc; have r0 := G.mapConst_of_constOk M x1; kind_mc_close
  | .toSpan x0 => by intro hc; have r0 := G.mapConst_of_constOk M x0; kind_mc_close
  | .toSlice x0 => by intro hc; have r0 := G.mapConst_of_constOk M x0; kind_mc_close
  | .mapWithSpan x0 => by intro hc; have r0 := G.mapConst_of_constOk M x0; kind_mc_close
  | .mapWithState x0 => by intro hc; have r0 := G.mapConst_of_constOk M x0; kind_mc_close
  | .mapWithCtx x0 => by intro hc; have r0 := G.mapConst_of_constOk M x0; kind_mc_close
  | .validate x0 x1 => by intro hc; have r0 := G.mapConst_of_constOk M x1; kind_mc_close
  | .collect x0 x1 => by intro hc; have r0 := It.mapConst_of_constOk M x1; kind_mc_close
  | .collectExactly x0 x1 => by intro hc; have r0 := It.mapConst_of_constOk M x1; kind_mc_close
  | .foldl x0 x1 x2 => by intro hc; have r0 := G.mapConst_of_constOk M x1; have r1 := It.mapConst_of_constOk M x2; kind_mc_close
  | .foldr x0 x1 x2 => by intro hc; have r0 := It.mapConst_of_constOk M x1; have r1 := G.mapConst_of_constOk M x2; kind_mc_close
  | .foldlWith x0 x1 => by intro hc; have r0 := G.mapConst_of_constOk M x0; have r1 := It.mapConst_of_constOk M x1; kind_mc_close
  | .foldrWith x0 x1 => by intro hc; have r0 := It.mapConst_of_constOk M x0; have r1 := G.mapConst_of_constOk M x1; kind_mc_close
  | .iterP x0 => by intro hc; have r0 := It.mapConst_of_constOk M x0; kind_mc_close
  | .recoverVia x0 x1 => by intro hc; have r0 := G.mapConst_of_constOk M x0; have r1 := G.mapConst_of_constOk M x1; kind_mc_close
  | .recoverSkipUntil x0 x1 x2 x3 => by intro hc; have r0 := G.mapConst_of_constOk M x0; have r1 := G.mapConst_of_constOk M x1; have r2 := G.mapConst_of_constOk M x2; have r3 := Val.mapSp_of_noSp M x3; kind_mc_close
  | .recoverSkipRetry x0 x1 x2 => by intro hc; have r0 := G.mapConst_of_constOk M x0; have r1 := G.mapConst_of_constOk M x1; have r2 := G.mapConst_of_constOk M x2; kind_mc_close
  | .labelled x0 x1 x2 => by intro hc; have r0 := G.mapConst_of_constOk M x2; kind_mc_close
  | .mapErr x0 x1 => by intro hc; have r0 := G.mapConst_of_constOk M x1; kind_mc_close
  | .withCtx x0 x1 => by intro hc; have r0 := G.mapConst_of_constOk M x1; have r1 := Val.mapSp_of_noSp M x0; kind_mc_close
  | .ignoreWithCtx x0 x1 => by intro hc; have r0 := G.mapConst_of_constOk M x0; have r1 := G.mapConst_of_constOk M x1; kind_mc_close
  | .thenWithCtx x0 x1 => by intro hc; have r0 := G.mapConst_of_constOk M x0; have r1 := G.mapConst_of_constOk M x1; kind_mc_close
  | .mapCtx x0 x1 => by intro hc; have r0 := G.mapConst_of_constOk M x1; kind_mc_close
  | .configureJust x0 x1 => by intro _; rfl
  | .withState x0 => by intro hc; have r0 := G.mapConst_of_constOk M x0; kind_mc_close
  | .memoized x0 x1 => by intro hc; have r0 := G.mapConst_of_constOk M x1; kind_mc_close
  | .call x0 => by intro _; rfl
  | .boxed x0 => by intro hc; have r0 := G.mapConst_of_constOk M x0; kind_mc_close
theorem It.mapConst_of_constOk (M : SpMap) : ∀ it : It, it.constOk = true → it.mapConst M = it
  | .repeated x0 x1 x2 => by intro hc; have r0 := G.mapConst_of_constOk M x0; kind_mc_close
  | .separatedBy x0 x1 x2 x3 x4 x5 => by intro hc; have r0 := G.mapConst_of_constOk M x0; have r1 := G.mapConst_of_constOk M x1; kind_mc_close
  | .enumerate x0 => by intro hc; have r0 := It.mapConst_of_constOk M x0; kind_mc_close
  | .orNotIt x0 => by intro hc; have r0 := G.mapConst_of_constOk M x0; kind_mc_close
  | .intoIter x0 => by intro hc; have r0 := G.mapConst_of_constOk M x0; kind_mc_close
  | .thenIt x0 x1 => by intro hc; have r0 := It.mapConst_of_constOk M x0; have r1 := It.mapConst_of_constOk M x1; kind_mc_close
  | .mapIt x0 x1 => by intro hc; have r0 := It.mapConst_of_constOk M x1; kind_mc_close
  | .configureRep x0 x1 => by intro hc; have r0 := It.mapConst_of_constOk M x1; kind_mc_close
  | .tryConfigureRep x0 x1 => by intro hc; have r0 := It.mapConst_of_constOk M x1; kind_mc_close
theorem mapConstL_of_constOkL (M : SpMap) : ∀ gs : List G, constOkL gs = true → mapConstL M gs = gs
  | [] => by intro _; rfl
  | g :: gs => by intro hc; have r0 := G.mapConst_of_constOk M g; have r1 := mapConstL_of_constOkL M gs; kind_mc_close
end

/-! ### top level -/

def TopOut.mapSp (M : SpMap) : TopOut → TopOut
  | .result r final => .result ⟨r.output.map (Val.mapSp M), r.errs.map (Err.mapSp M)⟩ (final.mapSp M)
  | .panic w => .panic w
  | .oof => .oof

theorem parseTop_kindSim_gen {M : SpMap} {env env' : Env} (h : KindRel M env env') (n : Nat) (m : Mode) (g : G) :
    parseTop n env' m (g.mapConst M) = (parseTop n env m g).mapSp M := by
  have hr := run_kindSim_gen h n m (.thenIgnore g .end_) St.init
  simp only [G.mapConst, show St.mapSp M St.init = St.init from rfl] at hr
  simp only [parseTop, hr, h.ek, h.span]
  cases run n env m (.thenIgnore g .end_) St.init with
  | ok v st =>
    simp only [Out.mapSp_ok, TopOut.mapSp, St.mapSp_errs, List.map_map, Option.map_some]
    rfl
  | fail st =>
    simp only [Out.mapSp_fail, TopOut.mapSp, St.mapSp_errs, St.mapSp_alt, St.mapSp_pos, List.map_map, Option.map_none,
      List.map_append, List.map_cons, List.map_nil]
    cases st.alt with
    | none => simp only [Option.map_none, h.ef]; rfl
    | some a => rfl
  | panic w => rfl
  | oof => rfl

/-! ### instantiation: the index-based `.slice` kind against any other presentation of the same tokens -/

theorem Err.mapSp_ops_of_ne_empty (M : SpMap) (hfe : M.fe = M.f) (k : ErrKind) (hk : k ≠ .empty) :
    (∀ exp found p, k.expectedFound exp found (M.f p) = (k.expectedFound exp found p).mapSp M)
    ∧ (∀ p msg, k.userErr (M.f p) msg = (k.userErr p msg).mapSp M)
    ∧ (∀ a l p, k.inContext (a.mapSp M) l (M.f p) = (k.inContext a l p).mapSp M) := by
  refine ⟨?_, ?_, ?_⟩
  · intro exp found p
    cases k <;> first | exact absurd rfl hk | simp [ErrKind.expectedFound, Err.mapSp, hfe]
  · intro p msg
    cases k <;> first | exact absurd rfl hk | simp [ErrKind.userErr, Err.mapSp, hfe]
  · intro a l p
    cases k <;> try rfl
    simp only [ErrKind.inContext, Err.mapSp_ctx, List.all_map, Function.comp_def, apply_ite (Err.mapSp M)]
    simp [Err.mapSp, hfe]

theorem Err.mapSp_ops_empty (M : SpMap) (hfe : M.fe (0, 0) = (0, 0)) :
    (∀ exp found p, ErrKind.empty.expectedFound exp found (M.f p) = (ErrKind.empty.expectedFound exp found p).mapSp M)
    ∧ (∀ p msg, ErrKind.empty.userErr (M.f p) msg = (ErrKind.empty.userErr p msg).mapSp M)
    ∧ (∀ a l p, ErrKind.empty.inContext (a.mapSp M) l (M.f p) = (ErrKind.empty.inContext a l p).mapSp M) := by
  refine ⟨?_, ?_, ?_⟩
  · intro exp found p; simp [ErrKind.expectedFound, Err.mapSp, hfe]
  · intro p msg; simp [ErrKind.userErr, Err.mapSp, hfe]
  · intro a l p; rfl

/-- the re-basing from token indices to the spans / offsets of `env'`; errors of the zero-sized error type
    (`ek = .empty`) carry the constant span `(0, 0)` under every kind, so their spans are left alone -/
def Env.rebase (env' : Env) : SpMap where
  fe := if env'.ek = .empty then id else fun p => env'.mkSpan p.1 p.2
  f := fun p => env'.mkSpan p.1 p.2
  o := env'.off

theorem Env.rebase_of_ne_empty (env' : Env) (hk : env'.ek ≠ .empty) :
    env'.rebase = ⟨fun p => env'.mkSpan p.1 p.2, fun p => env'.mkSpan p.1 p.2, env'.off⟩ := by
  simp only [Env.rebase, if_neg hk]

/-- `env` index-based, `env'` the same tokens under kind `k` (same error type, definitions, memo switch) -/
theorem kindRel_of_slice (env : Env) (hs : env.kind = .slice) (k : InKind) (ts : List (Nat × Nat)) (e : Nat × Nat)
    (hd : constOkL env.defs = true) :
    KindRel ({ env with kind := k, tspans := ts, eoi := e } : Env).rebase env
      { env with kind := k, tspans := ts, eoi := e } := by
  have hsp : ∀ i j, env.mkSpan i j = (i, j) := fun i j => by simp only [Env.mkSpan, hs]
  have hof : ∀ i, env.off i = i := fun i => by simp only [Env.off, hs]
  have hops : (∀ exp found p, env.ek.expectedFound exp found
          (({ env with kind := k, tspans := ts, eoi := e } : Env).rebase.f p)
          = (env.ek.expectedFound exp found p).mapSp ({ env with kind := k, tspans := ts, eoi := e } : Env).rebase)
      ∧ (∀ p msg, env.ek.userErr (({ env with kind := k, tspans := ts, eoi := e } : Env).rebase.f p) msg
          = (env.ek.userErr p msg).mapSp ({ env with kind := k, tspans := ts, eoi := e } : Env).rebase)
      ∧ (∀ a l p, env.ek.inContext (a.mapSp ({ env with kind := k, tspans := ts, eoi := e } : Env).rebase) l
            (({ env with kind := k, tspans := ts, eoi := e } : Env).rebase.f p)
          = (env.ek.inContext a l p).mapSp ({ env with kind := k, tspans := ts, eoi := e } : Env).rebase) := by
    by_cases hk : env.ek = .empty
    · rw [hk]
      exact Err.mapSp_ops_empty _ (by simp only [Env.rebase, if_true]; rfl)
    · exact Err.mapSp_ops_of_ne_empty _ (by simp only [Env.rebase, if_neg hk]) _ hk
  exact {
    toks := rfl
    ek := rfl
    defs := (mapConstL_of_constOkL _ _ hd).symm
    memoOn := rfl
    span := fun i j => by simp only [hsp, Env.rebase]
    off := fun i => by simp only [hof, Env.rebase]
    ef := hops.1
    ue := hops.2.1
    ic := hops.2.2 }

/-- **C10, functional simulation.**  `env` presents the tokens index-based (`.slice`); `env'` presents the same tokens
    under any kind `k` (with any per-token spans `ts` and end-of-input span `e`).  For every grammar whose constants
    carry no span value (`constOk`; likewise the definition table), every fuel, mode and start state: the run under
    `env'` from the re-based state is the re-based run under `env`.  The error type is not the zero-sized one. -/
theorem run_kindSim_partial (env : Env) (hs : env.kind = .slice) (k : InKind) (ts : List (Nat × Nat)) (e : Nat × Nat)
    (hek : env.ek ≠ .empty) (hd : constOkL env.defs = true)
    (n : Nat) (m : Mode) (g : G) (hg : g.constOk = true) (st : St) :
    let env' : Env := { env with kind := k, tspans := ts, eoi := e }
    let M : SpMap := ⟨fun p => env'.mkSpan p.1 p.2, fun p => env'.mkSpan p.1 p.2, env'.off⟩
    run n env' m g (st.mapSp M) = (run n env m g st).mapSp M := by
  intro env' M
  have h := kindRel_of_slice env hs k ts e hd
  rw [Env.rebase_of_ne_empty env' hek] at h
  have := run_kindSim_gen h n m g st
  rwa [G.mapConst_of_constOk _ g hg] at this

/-- the same for every error type: with the zero-sized error type the spans inside errors are not re-based
    (`Env.rebase` leaves them alone), the spans inside values are -/
theorem run_kindSim_partial' (env : Env) (hs : env.kind = .slice) (k : InKind) (ts : List (Nat × Nat)) (e : Nat × Nat)
    (hd : constOkL env.defs = true) (n : Nat) (m : Mode) (g : G) (hg : g.constOk = true) (st : St) :
    let env' : Env := { env with kind := k, tspans := ts, eoi := e }
    run n env' m g (st.mapSp env'.rebase) = (run n env m g st).mapSp env'.rebase := by
  intro env'
  have := run_kindSim_gen (kindRel_of_slice env hs k ts e hd) n m g st
  rwa [G.mapConst_of_constOk _ g hg] at this

/-- C10 at the top level: output value and error list of `parse` / `check` are those of the index-based input,
    re-based -/
theorem parseTop_kindSim_partial (env : Env) (hs : env.kind = .slice) (k : InKind) (ts : List (Nat × Nat))
    (e : Nat × Nat) (hek : env.ek ≠ .empty) (hd : constOkL env.defs = true)
    (n : Nat) (m : Mode) (g : G) (hg : g.constOk = true) :
    let env' : Env := { env with kind := k, tspans := ts, eoi := e }
    let M : SpMap := ⟨fun p => env'.mkSpan p.1 p.2, fun p => env'.mkSpan p.1 p.2, env'.off⟩
    parseTop n env' m g = (parseTop n env m g).mapSp M := by
  intro env' M
  have h := kindRel_of_slice env hs k ts e hd
  rw [Env.rebase_of_ne_empty env' hek] at h
  have := parseTop_kindSim_gen h n m g
  rwa [G.mapConst_of_constOk _ g hg] at this

theorem parseTop_kindSim_partial' (env : Env) (hs : env.kind = .slice) (k : InKind) (ts : List (Nat × Nat))
    (e : Nat × Nat) (hd : constOkL env.defs = true) (n : Nat) (m : Mode) (g : G) (hg : g.constOk = true) :
    let env' : Env := { env with kind := k, tspans := ts, eoi := e }
    parseTop n env' m g = (parseTop n env m g).mapSp env'.rebase := by
  intro env'
  have := parseTop_kindSim_gen (kindRel_of_slice env hs k ts e hd) n m g
  rwa [G.mapConst_of_constOk _ g hg] at this

/-! ### concrete instances -/
section examples

/-- "éa" as tokens, index-based -/
def kxSlice : Env := { toks := [0xe9, 0x61] }
/-- the same as a `&str`: `é` is two bytes wide -/
def kxStr : Env := { kxSlice with kind := .str }
/-- the same through `Input::map`, every token with its own span -/
def kxMapped : Env := { kxSlice with kind := .mapped, tspans := [(10, 14), (20, 21)], eoi := (30, 30) }

def kxG : G := .mapWithSpan (.then_ (.toSpan .any) (.then_ (.toSlice .any) (.to (.tag 3 (.nat 1)) .empty)))

example : kxG.constOk = true := by decide

/-- a start state that is not the initial one: a secondary error, a pending error with a context entry, a context
    value holding a span and a slice, a memo entry, a ghost-log entry.  No side condition on it is needed. -/
def kxSt : St :=
  { pos := 0
    errs := [⟨0, ⟨(0, 1), .custom 4, []⟩⟩]
    alt := some ⟨0, ⟨(0, 1), .ef [.any] none, [(.label 2, (0, 2))]⟩⟩
    ctx := .pair (.span 0 1) (.slice 1 2)
    memo := [((0, 7), some ⟨1, ⟨(1, 2), .ef [] none, []⟩⟩)]
    log := [⟨0, ⟨(0, 0), .ef [] none, []⟩⟩] }

/-- the theorem at this state, `&str` presentation -/
example :
    let M : SpMap := ⟨fun p => kxStr.mkSpan p.1 p.2, fun p => kxStr.mkSpan p.1 p.2, kxStr.off⟩
    run 9 kxStr .emit (.mapWithCtx kxG) (kxSt.mapSp M) = (run 9 kxSlice .emit (.mapWithCtx kxG) kxSt).mapSp M :=
  run_kindSim_partial kxSlice rfl .str [] (0, 0) (by decide) rfl 9 .emit (.mapWithCtx kxG) (by decide) kxSt

/-- what the two runs are: token indices `0..1`, `1..2`, `0..2` against byte offsets `0..2`, `2..3`, `0..3` -/
example : run 9 kxSlice .emit kxG St.init
    = .ok (.pair (.pair (.span 0 1) (.pair (.slice 1 2) (.tag 3 (.nat 1)))) (.span 0 2)) { pos := 2, insp := [0xe9, 0x61] } := by
  decide
example : run 9 kxStr .emit kxG St.init
    = .ok (.pair (.pair (.span 0 2) (.pair (.slice 2 3) (.tag 3 (.nat 1)))) (.span 0 3)) { pos := 2, insp := [0xe9, 0x61] } := by
  decide
example : run 9 kxMapped .emit kxG St.init
    = .ok (.pair (.pair (.span 10 14) (.pair (.slice 1 2) (.tag 3 (.nat 1)))) (.span 10 21)) { pos := 2, insp := [0xe9, 0x61] } := by
  decide

/-- why the class: a constant that is itself a span is returned as it is under every kind, whereas re-basing the
    index-based result would move it.  (`run_kindSim_gen` says what holds instead: the constant has to be re-based
    as well.) -/
example :
    let M : SpMap := ⟨fun p => kxStr.mkSpan p.1 p.2, fun p => kxStr.mkSpan p.1 p.2, kxStr.off⟩
    run 2 kxStr .emit (.to (.span 0 1) .empty) (St.init.mapSp M)
      ≠ (run 2 kxSlice .emit (.to (.span 0 1) .empty) St.init).mapSp M := by
  decide

/-- why `ek ≠ .empty` in `run_kindSim_partial`: the zero-sized error type reports `(0, 0)` under every kind, whereas
    re-basing `(0, 0)` for the mapped presentation gives the start of the first token -/
example :
    let env : Env := { kxSlice with ek := .empty }
    let env' : Env := { kxMapped with ek := .empty }
    let M : SpMap := ⟨fun p => env'.mkSpan p.1 p.2, fun p => env'.mkSpan p.1 p.2, env'.off⟩
    run 2 env' .emit .end_ (St.init.mapSp M) ≠ (run 2 env .emit .end_ St.init).mapSp M := by
  decide

end examples

end Chumsky

#print axioms Chumsky.run_kindSim_gen
#print axioms Chumsky.parseTop_kindSim_gen
#print axioms Chumsky.run_kindSim_partial
#print axioms Chumsky.run_kindSim_partial'
#print axioms Chumsky.parseTop_kindSim_partial
#print axioms Chumsky.parseTop_kindSim_partial'
#print axioms Chumsky.G.mapConst_of_constOk
