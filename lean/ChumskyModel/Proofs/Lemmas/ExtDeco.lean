/-
  C17 for the extension steps: `pratt_go` and `NestedIn::go` under the two-run simulation of `DescSim.lean` (run on a grammar
  with decorations against the run on the grammar with `labelled` / `as_context` / `map_err` erased).
-/
import ChumskyModel.Model.Ext
import ChumskyModel.Proofs.Lemmas.DescSim
import ChumskyModel.Proofs.Lemmas.PrattRefine
set_option linter.unusedSimpArgs false
set_option linter.unusedVariables false
namespace Chumsky

def PrattOp.erase (b : Bool) : PrattOp → PrattOp
  | .prefix bp op => .prefix bp (op.erase b)
  | .postfix bp op => .postfix bp (op.erase b)
  | .infix la bp op => .infix la bp (op.erase b)

/-- related results of the operator passes: none applied (related states) or one applied / aborted (related outcomes) -/
inductive SumRel (o : Option Sh) (s : Bool) : Sum St Out → Sum St Out → Prop
  | inl {a b : St} : Rel o s a b → SumRel o s (.inl a) (.inl b)
  | inr {x y : Out} : OutRel o s x y → (∀ a, x ≠ .fail a) → SumRel o s (.inr x) (.inr y)

section
variable {o : Option Sh} {s b : Bool} {env1 env2 : Env} {R1 R2 : Mode → G → St → Out} {rec1 rec2 : Nat → St → Out}

/-- the atom / operator parsers are simulated (fixed sheltered shape `o`) -/
def PSim (o : Option Sh) (s b : Bool) (ok : G → Prop) (R1 R2 : Mode → G → St → Out) : Prop :=
  ∀ m g st1 st2, ok g → Rel o s st1 st2 → OutRel o s (R1 m g st1) (R2 m (g.erase b) st2)
def RecSim (o : Option Sh) (s : Bool) (rec1 rec2 : Nat → St → Out) : Prop :=
  ∀ p st1 st2, Rel o s st1 st2 → OutRel o s (rec1 p st1) (rec2 p st2)

theorem prattPrefix_sim {ok : G → Prop} (hsp : ∀ i j, env2.mkSpan i j = env1.mkSpan i j) (hR : PSim o s b ok R1 R2)
    (hrec : RecSim o s rec1 rec2) (m : Mode) (c : Chk) :
    ∀ (ops : List PrattOp), (∀ op ∈ ops, ok op.parser) → ∀ (st1 st2 : St), Rel o s st1 st2 →
      SumRel o s (prattPrefix R1 rec1 env1 m c ops st1) (prattPrefix R2 rec2 env2 m c (ops.map (PrattOp.erase b)) st2)
  | [], _, st1, st2, hs => .inl hs
  | .prefix bp op :: rest, hops, st1, st2, hs => by
    have hrest : ∀ op ∈ rest, ok op.parser := fun x hx => hops x (List.mem_cons_of_mem _ hx)
    have h1 := hR m op st1 st2 (hops _ (List.mem_cons_self ..)) hs
    simp only [List.map, PrattOp.erase, prattPrefix]
    rcases OutRel.cases h1 with ⟨v, a, c', e1, e2, hr⟩ | ⟨a, c', e1, e2, hr, _⟩ | ⟨w, e1, e2⟩ | ⟨e1, e2⟩
    · rw [e1, e2]
      dsimp only
      have h2 := hrec (2 * bp) a c' hr
      rcases OutRel.cases h2 with ⟨v2, a2, c2, f1, f2, hr2⟩ | ⟨a2, c2, f1, f2, hr2, _⟩ | ⟨w, f1, f2⟩ | ⟨f1, f2⟩
      · rw [f1, f2]
        dsimp only
        rw [hsp, hr2.pos]
        exact .inr (.ok _ hr2) (fun _ h => by cases h)
      · rw [f1, f2]; dsimp only; exact prattPrefix_sim hsp hR hrec m c rest hrest _ _ (hr2.rewind c)
      · rw [f1, f2]; exact .inr (.panic w) (fun _ h => by cases h)
      · rw [f1, f2]; exact .inr .oof (fun _ h => by cases h)
    · rw [e1, e2]; dsimp only; exact prattPrefix_sim hsp hR hrec m c rest hrest _ _ (hr.rewind c)
    · rw [e1, e2]; exact .inr (.panic w) (fun _ h => by cases h)
    · rw [e1, e2]; exact .inr .oof (fun _ h => by cases h)
  | .infix _ _ _ :: rest, hops, st1, st2, hs => by
    simp only [List.map, PrattOp.erase, prattPrefix]
    exact prattPrefix_sim hsp hR hrec m c rest (fun x hx => hops x (List.mem_cons_of_mem _ hx)) st1 st2 hs
  | .postfix _ _ :: rest, hops, st1, st2, hs => by
    simp only [List.map, PrattOp.erase, prattPrefix]
    exact prattPrefix_sim hsp hR hrec m c rest (fun x hx => hops x (List.mem_cons_of_mem _ hx)) st1 st2 hs
theorem prattPostfix_sim {ok : G → Prop} (hsp : ∀ i j, env2.mkSpan i j = env1.mkSpan i j) (hR : PSim o s b ok R1 R2)
    (m : Mode) (c c' : Chk) (minP : Nat) (lhs : Val) :
    ∀ (ops : List PrattOp), (∀ op ∈ ops, ok op.parser) → ∀ (st1 st2 : St), Rel o s st1 st2 →
      SumRel o s (prattPostfix R1 env1 m c c' minP lhs ops st1)
        (prattPostfix R2 env2 m c c' minP lhs (ops.map (PrattOp.erase b)) st2)
  | [], _, st1, st2, hs => .inl hs
  | .postfix bp op :: rest, hops, st1, st2, hs => by
    have hrest : ∀ op ∈ rest, ok op.parser := fun x hx => hops x (List.mem_cons_of_mem _ hx)
    have h1 := hR m op st1 st2 (hops _ (List.mem_cons_self ..)) hs
    simp only [List.map, PrattOp.erase, prattPostfix]
    split
    · rcases OutRel.cases h1 with ⟨v, a, c2, e1, e2, hr⟩ | ⟨a, c2, e1, e2, hr, _⟩ | ⟨w, e1, e2⟩ | ⟨e1, e2⟩
      · rw [e1, e2]; dsimp only; rw [hsp, hr.pos]; exact .inr (.ok _ hr) (fun _ h => by cases h)
      · rw [e1, e2]; dsimp only; exact prattPostfix_sim hsp hR m c c' minP lhs rest hrest _ _ (hr.rewind c')
      · rw [e1, e2]; exact .inr (.panic w) (fun _ h => by cases h)
      · rw [e1, e2]; exact .inr .oof (fun _ h => by cases h)
    · exact prattPostfix_sim hsp hR m c c' minP lhs rest hrest st1 st2 hs
  | .infix _ _ _ :: rest, hops, st1, st2, hs => by
    simp only [List.map, PrattOp.erase, prattPostfix]
    exact prattPostfix_sim hsp hR m c c' minP lhs rest (fun x hx => hops x (List.mem_cons_of_mem _ hx)) st1 st2 hs
  | .prefix _ _ :: rest, hops, st1, st2, hs => by
    simp only [List.map, PrattOp.erase, prattPostfix]
    exact prattPostfix_sim hsp hR m c c' minP lhs rest (fun x hx => hops x (List.mem_cons_of_mem _ hx)) st1 st2 hs

theorem prattInfix_sim {ok : G → Prop} (hsp : ∀ i j, env2.mkSpan i j = env1.mkSpan i j) (hR : PSim o s b ok R1 R2)
    (hrec : RecSim o s rec1 rec2) (m : Mode) (c c' : Chk) (minP : Nat) (lhs : Val) :
    ∀ (ops : List PrattOp), (∀ op ∈ ops, ok op.parser) → ∀ (st1 st2 : St), Rel o s st1 st2 →
      SumRel o s (prattInfix R1 rec1 env1 m c c' minP lhs ops st1)
        (prattInfix R2 rec2 env2 m c c' minP lhs (ops.map (PrattOp.erase b)) st2)
  | [], _, st1, st2, hs => .inl hs
  | .infix la bp op :: rest, hops, st1, st2, hs => by
    have hrest : ∀ op ∈ rest, ok op.parser := fun x hx => hops x (List.mem_cons_of_mem _ hx)
    have h1 := hR m op st1 st2 (hops _ (List.mem_cons_self ..)) hs
    simp only [List.map, PrattOp.erase, prattInfix]
    split
    · rcases OutRel.cases h1 with ⟨v, a, c2, e1, e2, hr⟩ | ⟨a, c2, e1, e2, hr, _⟩ | ⟨w, e1, e2⟩ | ⟨e1, e2⟩
      · rw [e1, e2]
        dsimp only
        have h2 := hrec (rightPower la bp) a c2 hr
        rcases OutRel.cases h2 with ⟨v2, a2, c3, f1, f2, hr2⟩ | ⟨a2, c3, f1, f2, hr2, _⟩ | ⟨w, f1, f2⟩ | ⟨f1, f2⟩
        · rw [f1, f2]; dsimp only; rw [hsp, hr2.pos]; exact .inr (.ok _ hr2) (fun _ h => by cases h)
        · rw [f1, f2]; dsimp only; exact prattInfix_sim hsp hR hrec m c c' minP lhs rest hrest _ _ (hr2.rewind c')
        · rw [f1, f2]; exact .inr (.panic w) (fun _ h => by cases h)
        · rw [f1, f2]; exact .inr .oof (fun _ h => by cases h)
      · rw [e1, e2]; dsimp only; exact prattInfix_sim hsp hR hrec m c c' minP lhs rest hrest _ _ (hr.rewind c')
      · rw [e1, e2]; exact .inr (.panic w) (fun _ h => by cases h)
      · rw [e1, e2]; exact .inr .oof (fun _ h => by cases h)
    · exact prattInfix_sim hsp hR hrec m c c' minP lhs rest hrest st1 st2 hs
  | .postfix _ _ :: rest, hops, st1, st2, hs => by
    simp only [List.map, PrattOp.erase, prattInfix]
    exact prattInfix_sim hsp hR hrec m c c' minP lhs rest (fun x hx => hops x (List.mem_cons_of_mem _ hx)) st1 st2 hs
  | .prefix _ _ :: rest, hops, st1, st2, hs => by
    simp only [List.map, PrattOp.erase, prattInfix]
    exact prattInfix_sim hsp hR hrec m c c' minP lhs rest (fun x hx => hops x (List.mem_cons_of_mem _ hx)) st1 st2 hs

theorem prattLoop_sim {ok : G → Prop} (hsp : ∀ i j, env2.mkSpan i j = env1.mkSpan i j) (hR : PSim o s b ok R1 R2)
    (hrec : RecSim o s rec1 rec2) (m : Mode) (ops : List PrattOp) (hops : ∀ op ∈ ops, ok op.parser) (c : Chk)
    (minP : Nat) :
    ∀ (k : Nat) (st1 st2 : St) (lhs : Val), Rel o s st1 st2 →
      OutRel o s (prattLoop R1 rec1 env1 m ops c minP k st1 lhs)
        (prattLoop R2 rec2 env2 m (ops.map (PrattOp.erase b)) c minP k st2 lhs)
  | 0, _, _, _, _ => .oof
  | k + 1, st1, st2, lhs, hs => by
    simp only [prattLoop]
    rw [← hs.save]
    have hp := prattPostfix_sim (b := b) hsp hR m c st1.save minP lhs ops hops st1 st2 hs
    generalize prattPostfix R1 env1 m c st1.save minP lhs ops st1 = x at hp ⊢
    generalize prattPostfix R2 env2 m c st1.save minP lhs (ops.map (PrattOp.erase b)) st2 = y at hp ⊢
    cases hp with
    | inr hxy hnf =>
      rcases OutRel.cases hxy with ⟨v, a, c2, e1, e2, hr⟩ | ⟨a, c2, e1, e2, hr, _⟩ | ⟨w, e1, e2⟩ | ⟨e1, e2⟩
      · rw [e1, e2]; exact prattLoop_sim hsp hR hrec m ops hops c minP k a c2 v hr
      · exact absurd e1 (hnf a)
      · rw [e1, e2]; exact .panic w
      · rw [e1, e2]; exact .oof
    | @inl a1 b1 hr1 =>
      dsimp only
      have hi := prattInfix_sim (b := b) hsp hR hrec m c st1.save minP lhs ops hops a1 b1 hr1
      generalize prattInfix R1 rec1 env1 m c st1.save minP lhs ops a1 = x at hi ⊢
      generalize prattInfix R2 rec2 env2 m c st1.save minP lhs (ops.map (PrattOp.erase b)) b1 = y at hi ⊢
      cases hi with
      | inr hxy hnf =>
        rcases OutRel.cases hxy with ⟨v, a, c2, e1, e2, hr⟩ | ⟨a, c2, e1, e2, hr, _⟩ | ⟨w, e1, e2⟩ | ⟨e1, e2⟩
        · rw [e1, e2]; exact prattLoop_sim hsp hR hrec m ops hops c minP k a c2 v hr
        · exact absurd e1 (hnf a)
        · rw [e1, e2]; exact .panic w
        · rw [e1, e2]; exact .oof
      | @inl a2 b2 hr2 => exact .ok _ (hr2.rewind _)

/-- **`pratt_go` under the decoration-erasing simulation**: if the atom and the operator parsers are simulated (with the
    sheltered shape `o`), so is the Pratt parser built from them — the operator rewinds keep the relation, the values handed to
    the fold callbacks and the spans are equal -/
theorem prattGo_sim {ok : G → Prop} (hsp : ∀ i j, env2.mkSpan i j = env1.mkSpan i j) (hR : PSim o s b ok R1 R2)
    (m : Mode) (atom : G) (ops : List PrattOp) (hatom : ok atom) (hops : ∀ op ∈ ops, ok op.parser) :
    ∀ (k minP : Nat) (st1 st2 : St), Rel o s st1 st2 →
      OutRel o s (prattGo R1 env1 m atom ops k minP st1)
        (prattGo R2 env2 m (atom.erase b) (ops.map (PrattOp.erase b)) k minP st2) := by
  intro k
  induction k with
  | zero => intro _ _ _ _; exact .oof
  | succ k ih =>
    intro minP st1 st2 hs
    have hrec : RecSim o s (prattGo R1 env1 m atom ops k) (prattGo R2 env2 m (atom.erase b) (ops.map (PrattOp.erase b)) k) :=
      fun p a c h => ih p a c h
    simp only [prattGo]
    rw [← hs.save]
    have hp := prattPrefix_sim (b := b) hsp hR hrec m st1.save ops hops st1 st2 hs
    generalize prattPrefix R1 (prattGo R1 env1 m atom ops k) env1 m st1.save ops st1 = x at hp ⊢
    generalize prattPrefix R2 (prattGo R2 env2 m (atom.erase b) (ops.map (PrattOp.erase b)) k) env2 m st1.save
      (ops.map (PrattOp.erase b)) st2 = y at hp ⊢
    cases hp with
    | inr hxy hnf =>
      rcases OutRel.cases hxy with ⟨v, a, c2, e1, e2, hr⟩ | ⟨a, c2, e1, e2, hr, _⟩ | ⟨w, e1, e2⟩ | ⟨e1, e2⟩
      · rw [e1, e2]; exact prattLoop_sim hsp hR hrec m ops hops st1.save minP k a c2 v hr
      · exact absurd e1 (hnf a)
      · rw [e1, e2]; exact .panic w
      · rw [e1, e2]; exact .oof
    | @inl a0 b0 hr0 =>
      dsimp only
      have ha := hR m atom a0 b0 hatom hr0
      rcases OutRel.cases ha with ⟨v, a, c2, e1, e2, hr⟩ | ⟨a, c2, e1, e2, hr, hsm⟩ | ⟨w, e1, e2⟩ | ⟨e1, e2⟩
      · rw [e1, e2]; exact prattLoop_sim hsp hR hrec m ops hops st1.save minP k a c2 v hr
      · rw [e1, e2]; exact .fail hr hsm
      · rw [e1, e2]; exact .panic w
      · rw [e1, e2]; exact .oof
end

/-! ### `NestedIn::go` and the extension machine — the simulation that holds for EVERY grammar (`s = false`: acceptance, values,
  cursor, inspector, context, number and recording positions of the secondary errors; a failing run leaves a pending error in
  both runs) -/

def HEnv.erase (b : Bool) (h : HEnv) : HEnv := { h with a := h.a.erase b, b := h.b.erase b }

def Ext.erase (b : Bool) : Ext → Ext
  | .pratt atom ops => .pratt (atom.erase b) (ops.map (PrattOp.erase b))
  | .nested a c => .nested (a.erase b) (c.erase b)

def EEnv.erase (b : Bool) (e : EEnv) : EEnv := { e with exts := e.exts.map (Ext.erase b) }

/-- a runner pair simulated in every related pair of environments, for every sheltered shape -/
def SimRW (b dr : Bool) (R1 R2 : Runner) : Prop :=
  ∀ env1 env2, EnvRel false b dr env1 env2 → ∀ (o : Option Sh) (m : Mode) (g : G) (st1 st2 : St), Rel o false st1 st2 →
    OutRel o false (R1 env1 m g st1) (R2 env2 m (g.erase b) st2)

theorem innerEnv_envRel {b dr : Bool} {env1 env2 : Env} (he : EnvRel false b dr env1 env2) (h : HEnv) (kids : List Nat) :
    EnvRel false b dr (h.innerEnv env1 kids) ((h.erase b).innerEnv env2 kids) where
  toks := rfl
  kind := rfl
  tspans := rfl
  eoi := rfl
  ek1 := he.ek1
  ek2 := he.ek2
  m1 := he.m1
  m2 := he.m2
  defs := he.defs
  adm := he.adm

theorem rehome_pos (p : Nat) (xs : List Loc) : (rehome p xs).map (·.pos) = xs.map (fun _ => p) := by
  simp [rehome, List.map_map, Function.comp_def]

theorem errRel_rehome (p : Nat) {xs ys : List Loc} (h : errRel false xs ys) : errRel false (rehome p xs) (rehome p ys) := by
  rw [errRel_false_iff, rehome_pos, rehome_pos]
  have hl := h.length
  clear h
  induction xs generalizing ys with
  | nil => cases ys <;> simp_all
  | cons x xs ih =>
    cases ys with
    | nil => simp at hl
    | cons y ys => simp only [List.map_cons, List.cons.injEq, true_and]; exact ih (by simpa using hl)

theorem nestedMerge_rel {b dr : Bool} {env1 env2 : Env} {o : Option Sh} (he : EnvRel false b dr env1 env2) {a1 b1 si1 si2 : St}
    (hr : Rel o false a1 b1) (hi : Rel o false si1 si2) :
    Rel o false (nestedMerge env1 a1 si1) (nestedMerge env2 b1 si2) := by
  have base : Rel o false ({ a1 with errs := a1.errs ++ rehome a1.pos si1.errs, insp := si1.insp } : St)
      ({ b1 with errs := b1.errs ++ rehome b1.pos si2.errs, insp := si2.insp } : St) :=
    ⟨hr.pos, hi.insp, hr.ctx, by rw [← hr.pos]; exact hr.errs.append (errRel_rehome _ hi.errs), fun h => by cases h⟩
  unfold nestedMerge
  cases h1 : si1.alt <;> cases h2 : si2.alt <;> dsimp only
  · exact base
  · exact ⟨by simpa using base.pos, by simpa using base.insp, by simpa using base.ctx, by simpa using base.errs, fun h => by cases h⟩
  · exact ⟨by simpa using base.pos, by simpa using base.insp, by simpa using base.ctx, by simpa using base.errs, fun h => by cases h⟩
  · exact ⟨by simpa using base.pos, by simpa using base.insp, by simpa using base.ctx, by simpa using base.errs, fun h => by cases h⟩

theorem nestedMerge_pending {env : Env} (hk : env.ek ≠ .empty) (st1 si : St) (h : si.alt.isSome = true) :
    (nestedMerge env st1 si).alt.isSome = true := by
  unfold nestedMerge
  cases ha : si.alt with
  | none => rw [ha] at h; cases h
  | some a => dsimp only; exact addAltErr_isSome hk _ _ _

theorem nestedStep_simW {b dr : Bool} {R1 R2 : Runner} (hR : SimRW b dr R1 R2) {env1 env2 : Env}
    (he : EnvRel false b dr env1 env2) (h : HEnv) (o : Option Sh) (m : Mode) (st1 st2 : St) (hs : Rel o false st1 st2) :
    OutRel o false (nestedStepM R1 h env1 m st1) (nestedStepM R2 (h.erase b) env2 m st2) := by
  unfold nestedStepM
  have hb := hR env1 env2 he o .emit h.b st1 st2 hs
  have hbe : (h.erase b).b = h.b.erase b := rfl
  rw [hbe]
  rcases OutRel.cases hb with ⟨vb, a1, b1, e1, e2, hr⟩ | ⟨a1, b1, e1, e2, hr, hsm⟩ | ⟨w, e1, e2⟩ | ⟨e1, e2⟩
  · rw [e1, e2]
    dsimp only
    have hk : (h.erase b).kidsOf vb = h.kidsOf vb := rfl
    rw [hk]
    cases h.kidsOf vb with
    | none => exact .panic _
    | some kids =>
      dsimp only
      have hei := innerEnv_envRel he h kids
      have hae : (h.erase b).a = h.a.erase b := rfl
      rw [hae]
      have h0 : Rel o false ({ pos := 0, errs := [], alt := none, insp := a1.insp, ctx := a1.ctx, memo := [], log := [] } : St)
          ({ pos := 0, errs := [], alt := none, insp := b1.insp, ctx := b1.ctx, memo := [], log := [] } : St) :=
        ⟨rfl, hr.insp, hr.ctx, rfl, fun h => by cases h⟩
      have ha := hR _ _ hei o m h.a _ _ h0
      unfold innerThenEndM
      rcases OutRel.cases ha with ⟨va, i1, i2, f1, f2, hri⟩ | ⟨i1, i2, f1, f2, hri, hsm⟩ | ⟨w, f1, f2⟩ | ⟨f1, f2⟩
      · rw [f1, f2]
        simp only [Out.andThen]
        have hend := hR _ _ hei o .check .end_ i1 i2 hri
        have hee : G.erase b .end_ = .end_ := by simp [G.erase]
        rw [hee] at hend
        rcases OutRel.cases hend with ⟨ve, j1, j2, g1, g2, hrj⟩ | ⟨j1, j2, g1, g2, hrj, hsm⟩ | ⟨w, g1, g2⟩ | ⟨g1, g2⟩
        · rw [g1, g2]; exact .ok _ (nestedMerge_rel he hr hrj)
        · rw [g1, g2]
          exact .fail (nestedMerge_rel he hr hrj)
            ⟨nestedMerge_pending he.ek1 _ _ hsm.1, nestedMerge_pending he.ek2 _ _ hsm.2⟩
        · rw [g1, g2]; exact .panic w
        · rw [g1, g2]; exact .oof
      · rw [f1, f2]
        simp only [Out.andThen]
        exact .fail (nestedMerge_rel he hr hri)
          ⟨nestedMerge_pending he.ek1 _ _ hsm.1, nestedMerge_pending he.ek2 _ _ hsm.2⟩
      · rw [f1, f2]; exact .panic w
      · rw [f1, f2]; exact .oof
  · rw [e1, e2]; exact .fail hr hsm
  · rw [e1, e2]; exact .panic w
  · rw [e1, e2]; exact .oof

theorem EEnv.find_erase (e : EEnv) (b : Bool) (g : G) : (e.erase b).find (g.erase b) = (e.find g).map (Ext.erase b) := by
  cases g
  case call k =>
    simp only [G.erase, EEnv.find, EEnv.erase]
    by_cases hk : e.base ≤ k
    · simp only [if_pos hk, List.getElem?_map]
    · simp [hk]
  case labelled l c a => cases b <;> simp [G.erase, EEnv.find, EEnv.erase]
  case mapErr k a => cases b <;> simp [G.erase, EEnv.find, EEnv.erase]
  all_goals simp [G.erase, EEnv.find, EEnv.erase]

/-- all three runners simulated in every related pair of environments -/
def AllSimW (b dr : Bool) (R1 R2 : Runner) (N1 N2 : NextRunner) (K1 K2 : MkRunner) : Prop :=
  ∀ env1 env2, EnvRel false b dr env1 env2 →
    SimR false b dr env1 env2 R1 R2 ∧ SimN false b dr env1 env2 N1 N2 ∧ SimK false b dr env1 env2 K1 K2

theorem AllSimW.simRW {b dr : Bool} {R1 R2 N1 N2 K1 K2} (h : AllSimW b dr R1 R2 N1 N2 K1 K2) : SimRW b dr R1 R2 :=
  fun env1 env2 he o m g st1 st2 hs =>
    (h env1 env2 he).1 o false m g st1 st2 hs (G.adm_weak b dr false g) (fun h => by cases h)

/-- **the extension machine under decoration erasure** (every grammar, every table, every token tree) -/
theorem runE_simW (e : EEnv) (b dr : Bool) (n : Nat) :
    AllSimW b dr (runE e n) (runE (e.erase b) n) (nextE e n) (nextE (e.erase b) n) (mkIterE e n) (mkIterE (e.erase b) n) := by
  induction n with
  | zero =>
    intro env1 env2 he
    exact ⟨fun _ _ _ _ _ _ _ _ _ => .oof, fun _ _ _ _ _ _ _ _ _ _ => .oof, fun _ _ _ _ _ _ _ _ _ => .oof⟩
  | succ n ih =>
    intro env1 env2 he
    obtain ⟨hR, hN, hK⟩ := ih env1 env2 he
    refine ⟨?_, ?_, ?_⟩
    · intro o u m g st1 st2 hs hg ho
      simp only [runE]
      rw [EEnv.find_erase]
      cases hf : e.find g with
      | none => exact step_sim he hR hN hK n o u m g st1 st2 hs hg ho
      | some x =>
        cases x with
        | pratt atom ops =>
          simp only [Option.map, Ext.erase]
          exact prattGo_sim (ok := fun _ => True) (fun i j => he.mkSpan i j)
            (fun m' g' a c _ hr => ih.simRW env1 env2 he o m' g' a c hr) m atom ops trivial (fun _ _ => trivial) n 0 st1 st2 hs
        | nested a c =>
          simp only [Option.map, Ext.erase]
          exact nestedStep_simW ih.simRW he (e.henv a c) o m st1 st2 hs
    · simp only [nextE]; exact stepNext_sim he hR hN hK
    · simp only [mkIterE]; exact stepMk_sim he hR hK

/-- **C17 for grammars with extensions, every grammar**: erasing the decorations — in the main grammar, in the definitions, in the
    atoms and operator parsers of every Pratt table and in both parsers of every nested parse — never changes acceptance,
    values, the cursor, the inspector, the context, or the number and recording positions of the secondary errors; both runs
    panic / run out of fuel alike, and a failing run leaves a pending error in both -/
theorem runE_decoSim_weak (e : EEnv) (n : Nat) (env : Env) (hm : env.memoOn = false) (hek : env.ek ≠ .empty) (m : Mode) (g : G)
    (st1 st2 : St) (hs : StSimW st1 st2) :
    OutSimW (runE e n env m g st1)
      (runE (e.erase true) n { env with defs := env.defs.map G.eraseDeco } m g.eraseDeco st2) := by
  have := (runE_simW e true false n).simRW env _ (envRel_deco false env hm hek false (fun h => by cases h)) none m g st1 st2
    ((StSimW_iff _ _ _).mp hs)
  rw [G.erase_true] at this
  exact this.toSimW

def topOfE (env : Env) : Out → TopOut
  | .panic w => .panic w
  | .oof => .oof
  | .ok v st => .result ⟨some v, st.errs.map (·.err)⟩ st
  | .fail st =>
    let alt := match st.alt with
      | some a => a.err
      | none => env.ek.expectedFound [] none (env.mkSpan st.pos st.pos)
    .result ⟨none, st.errs.map (·.err) ++ [alt]⟩ st

theorem parseTopE_eq (e : EEnv) (fuel : Nat) (env : Env) (m : Mode) (g : G) :
    parseTopE e fuel env m g = topOfE env (runE e fuel env m (.thenIgnore g .end_) St.init) := by
  unfold parseTopE topOfE
  cases runE e fuel env m (.thenIgnore g .end_) St.init <;> rfl

theorem parseTopE_decoSim_weak (e : EEnv) (n : Nat) (env : Env) (hm : env.memoOn = false) (hek : env.ek ≠ .empty) (m : Mode)
    (g : G) :
    TopSimW (parseTopE e n env m g)
      (parseTopE (e.erase true) n { env with defs := env.defs.map G.eraseDeco } m g.eraseDeco) := by
  have h := runE_decoSim_weak e n env hm hek m (.thenIgnore g .end_) St.init St.init ⟨rfl, rfl, rfl, rfl⟩
  have he : (G.thenIgnore g .end_).eraseDeco = .thenIgnore g.eraseDeco .end_ := by simp [G.eraseDeco]
  rw [he] at h
  rw [parseTopE_eq, parseTopE_eq]
  generalize runE e n env m (.thenIgnore g .end_) St.init = x at h
  generalize runE (e.erase true) n _ m (.thenIgnore g.eraseDeco .end_) St.init = y at h
  cases h with
  | panic w => exact .inr (.inl ⟨w, rfl, rfl⟩)
  | oof => exact .inr (.inr ⟨rfl, rfl⟩)
  | @ok v a c h =>
    refine .inl ⟨_, a, _, c, rfl, rfl, rfl, ?_, h⟩
    have := congrArg List.length h.errs
    simpa using this
  | @fail a c h _ _ =>
    refine .inl ⟨_, a, _, c, rfl, rfl, rfl, ?_, h⟩
    have := congrArg List.length h.errs
    simp only [List.length_map] at this
    simp [this]



end Chumsky
