/-
  Proofs/Lemmas/Guarded.lean — properties C12/C20: termination of GUARDED RECURSIVE grammars.

  `Total.lean` proves termination (no `oof`) for call-free grammars only.  Here: every grammar of the FULL syntax
  (`G`/`It`, no class restriction) whose recursive references are *guarded* — a token is consumed (in the sense of
  `G.consumes`) between the entry of a definition body and every `.call` in it — terminates on every input, from
  every start state, within the explicit fuel

      guardedFuel env g = depth g + maxDefDepth env * (|input| + 1) + |input| + 1        (+ 1 at top level)

  where `maxDefDepth env = depthL env.defs` is the largest `G.depth` of a definition body.

  §1  `G.guarded cd seen` / `It.guarded` / `guardedL` / `guardedS` (structural recursion on the nested mutual syntax):
      `seen` = "a token has been consumed since the body was entered"; `.call _` is allowed only when `seen`;
      the right-hand parts of a sequence (`then`, `ignore_then`, `then_ignore`, `delimited_by`, `padded_by`, `group`,
      `foldl`, `*_with_ctx`) are checked with `seen || left.consumes cd`; everything else (alternatives, options,
      lookahead, loop items, separators, recovery parsers) inherits `seen`.  `G.guarded_true`: the flag is monotone.
      `DefsGuarded cd env : Bool`: the annotation `cd` is justified (`cdefsB`, sound for `CDefs`) and every body is
      `G.bodyOk` = `wf` ∧ `termOk` ∧ `guarded cd false`.   `G.mainOk` = `wf` ∧ `termOk` ∧ `guarded cd true`.
  §2  the measure: `wt env D seen s = D * (|input| - pos s + [seen])`; the budget of a node is
      `depth + wt + |input| + 1`; a sub-parser that consumes pays for the flag (`wt_step`), a guarded call pays `D`
      for the body's depth (`wt_call`).  Lexicographic (remaining input, depth left in the body), made linear.
  §3  the engine (open recursion as in Total.lean §4, but with a position-dependent budget):
      `pegStep_good2`, `pegNext_good2`, `pegMk_good2`, `good2_all`.
  §4  the theorems: `peg_guarded_terminates_at` (position-sensitive), `peg_guarded_terminates`,
      `run_guarded_terminates`, `parseTop_guarded_terminates` (machine side through `run_refines`, `memoOn = false`).
  §5  non-vacuity: `expr = '(' expr ')' | 'a'` and `value = '[' value,* ']' | digit+` are guarded and parse with the
      bound's fuel; `expr = expr 'a' | 'a'` is not guarded (for any annotation) and is out of fuel at every fuel.
-/
import ChumskyModel.Proofs.Lemmas.Total
set_option linter.unusedSimpArgs false
set_option linter.unusedVariables false
namespace Chumsky

/-! ## 1. guardedness -/

mutual
/-- every `.call` in the grammar is reached only after a token has been consumed; `seen`: one has been already -/
def G.guarded (cd : Nat → Bool) : Bool → G → Bool
  | _, .end_ => true
  | _, .empty => true
  | _, .any => true
  | _, .just _ => true
  | _, .oneOf _ => true
  | _, .noneOf _ => true
  | _, .select _ => true
  | _, .custom _ => true
  | _, .todo => true
  | b, .then_ x y => (x.guarded cd b) && (y.guarded cd (b || x.consumes cd))
  | b, .ignoreThen x y => (x.guarded cd b) && (y.guarded cd (b || x.consumes cd))
  | b, .thenIgnore x y => (x.guarded cd b) && (y.guarded cd (b || x.consumes cd))
  | b, .delimitedBy x l r => (l.guarded cd b) && ((x.guarded cd (b || l.consumes cd)) &&
      (r.guarded cd ((b || l.consumes cd) || x.consumes cd)))
  | b, .paddedBy x p => (p.guarded cd b) && (x.guarded cd (b || p.consumes cd))
  | b, .group gs => guardedS cd b gs
  | b, .groupArr gs => guardedS cd b gs
  | b, .or_ x y => (x.guarded cd b) && (y.guarded cd b)
  | b, .choice _ gs => guardedL cd b gs
  | b, .orNot x => x.guarded cd b
  | b, .not_ x => x.guarded cd b
  | b, .andIs x y => (x.guarded cd b) && (y.guarded cd b)
  | b, .rewind x => x.guarded cd b
  | b, .map _ x => x.guarded cd b
  | b, .to _ x => x.guarded cd b
  | b, .ignored x => x.guarded cd b
  | b, .filter _ x => x.guarded cd b
  | b, .tryMap _ x => x.guarded cd b
  | b, .tryMapWith _ x => x.guarded cd b
  | b, .toSpan x => x.guarded cd b
  | b, .toSlice x => x.guarded cd b
  | b, .mapWithSpan x => x.guarded cd b
  | b, .mapWithState x => x.guarded cd b
  | b, .mapWithCtx x => x.guarded cd b
  | b, .validate _ x => x.guarded cd b
  | b, .collect _ it => it.guarded cd b
  | b, .collectExactly _ it => it.guarded cd b
  | b, .foldl _ x it => (x.guarded cd b) && (it.guarded cd (b || x.consumes cd))
  | b, .foldr _ it y => (it.guarded cd b) && (y.guarded cd b)
  | b, .foldlWith x it => (x.guarded cd b) && (it.guarded cd (b || x.consumes cd))
  | b, .foldrWith it y => (it.guarded cd b) && (y.guarded cd b)
  | b, .iterP it => it.guarded cd b
  | b, .recoverVia x r => (x.guarded cd b) && (r.guarded cd b)
  | b, .recoverSkipUntil x skip until_ _ => (x.guarded cd b) && ((skip.guarded cd b) && (until_.guarded cd b))
  | b, .recoverSkipRetry x skip until_ => (x.guarded cd b) && ((skip.guarded cd b) && (until_.guarded cd b))
  | b, .labelled _ _ x => x.guarded cd b
  | b, .mapErr _ x => x.guarded cd b
  | b, .withCtx _ x => x.guarded cd b
  | b, .ignoreWithCtx x y => (x.guarded cd b) && (y.guarded cd (b || x.consumes cd))
  | b, .thenWithCtx x y => (x.guarded cd b) && (y.guarded cd (b || x.consumes cd))
  | b, .mapCtx _ x => x.guarded cd b
  | _, .configureJust _ _ => true
  | b, .withState x => x.guarded cd b
  | b, .memoized _ x => x.guarded cd b
  | b, .call _ => b
  | b, .boxed x => x.guarded cd b
def It.guarded (cd : Nat → Bool) : Bool → It → Bool
  | b, .repeated x _ _ => x.guarded cd b
  | b, .separatedBy x sep _ _ _ _ => (x.guarded cd b) && (sep.guarded cd b)
  | b, .enumerate it => it.guarded cd b
  | b, .orNotIt x => x.guarded cd b
  | b, .intoIter x => x.guarded cd b
  | b, .thenIt x y => (x.guarded cd b) && (y.guarded cd b)
  | b, .mapIt _ it => it.guarded cd b
  | b, .configureRep _ it => it.guarded cd b
  | b, .tryConfigureRep _ it => it.guarded cd b
/-- alternatives: all start where the choice starts -/
def guardedL (cd : Nat → Bool) : Bool → List G → Bool
  | _, [] => true
  | b, g :: gs => (g.guarded cd b) && guardedL cd b gs
/-- a tuple/array `group`: left to right -/
def guardedS (cd : Nat → Bool) : Bool → List G → Bool
  | _, [] => true
  | b, g :: gs => (g.guarded cd b) && guardedS cd (b || g.consumes cd) gs
end

/-- Bool version of `CDefs`: a definition annotated "consumes" has a body that consumes -/
def cdefsB (cd : Nat → Bool) (defs : List G) : Bool :=
  (List.range defs.length).all fun k => !cd k || (match defs[k]? with | some d => d.consumes cd | none => true)

/-- a definition body: well-formed, loops/recovery as termination needs them, every reference guarded -/
def G.bodyOk (cd : Nat → Bool) (nd : Nat) (d : G) : Bool := d.wf cd nd && (d.termOk cd && d.guarded cd false)

/-- the main grammar: as a body, but it may refer to the definitions at once -/
def G.mainOk (cd : Nat → Bool) (nd : Nat) (g : G) : Bool := g.wf cd nd && (g.termOk cd && g.guarded cd true)

/-- **guarded definition table** (w.r.t. the consumption annotation `cd`) -/
def DefsGuarded (cd : Nat → Bool) (env : Env) : Bool :=
  cdefsB cd env.defs && env.defs.all (G.bodyOk cd env.defs.length)

theorem cdefsB_sound {cd : Nat → Bool} {env : Env} (h : cdefsB cd env.defs = true) : CDefs cd env := by
  intro k dd he hk
  obtain ⟨hlt, _⟩ := List.getElem?_eq_some_iff.1 he
  have := List.all_eq_true.1 h k (List.mem_range.2 hlt)
  simpa [hk, he] using this

/-! ### the flag is monotone: what is guarded without a consumed token is guarded with one -/

mutual
theorem G.guarded_true (cd : Nat → Bool) : ∀ (g : G) (b : Bool), g.guarded cd b = true → g.guarded cd true = true := by
  intro g b h
  cases g <;> simp only [G.guarded, Bool.true_or, Bool.and_eq_true] at h ⊢ <;>
  first
  | exact G.guarded_true cd _ _ h
  | exact It.guarded_true cd _ _ h
  | exact guardedL_true cd _ _ h
  | exact guardedS_true cd _ _ h
  | exact ⟨G.guarded_true cd _ _ h.1, G.guarded_true cd _ _ h.2⟩
  | exact ⟨G.guarded_true cd _ _ h.1, It.guarded_true cd _ _ h.2⟩
  | exact ⟨It.guarded_true cd _ _ h.1, G.guarded_true cd _ _ h.2⟩
  | exact ⟨G.guarded_true cd _ _ h.1, G.guarded_true cd _ _ h.2.1, G.guarded_true cd _ _ h.2.2⟩
  | trivial
theorem It.guarded_true (cd : Nat → Bool) : ∀ (it : It) (b : Bool), it.guarded cd b = true → it.guarded cd true = true := by
  intro it b h
  cases it <;> simp only [It.guarded, Bool.and_eq_true] at h ⊢ <;>
  first
  | exact G.guarded_true cd _ _ h
  | exact It.guarded_true cd _ _ h
  | exact ⟨G.guarded_true cd _ _ h.1, G.guarded_true cd _ _ h.2⟩
  | exact ⟨It.guarded_true cd _ _ h.1, It.guarded_true cd _ _ h.2⟩
theorem guardedL_true (cd : Nat → Bool) : ∀ (gs : List G) (b : Bool), guardedL cd b gs = true → guardedL cd true gs = true := by
  intro gs b h
  cases gs with
  | nil => rfl
  | cons g gs =>
    simp only [guardedL, Bool.and_eq_true] at h ⊢
    exact ⟨G.guarded_true cd _ _ h.1, guardedL_true cd _ _ h.2⟩
theorem guardedS_true (cd : Nat → Bool) : ∀ (gs : List G) (b : Bool), guardedS cd b gs = true → guardedS cd true gs = true := by
  intro gs b h
  cases gs with
  | nil => rfl
  | cons g gs =>
    simp only [guardedS, Bool.true_or, Bool.and_eq_true] at h ⊢
    exact ⟨G.guarded_true cd _ _ h.1, guardedS_true cd _ _ h.2⟩
end

/-- a grammar admissible as a definition body is admissible as the main grammar -/
theorem G.mainOk_of_bodyOk {cd : Nat → Bool} {nd : Nat} {g : G} (h : g.bodyOk cd nd = true) : g.mainOk cd nd = true := by
  simp only [G.bodyOk, G.mainOk, Bool.and_eq_true] at h ⊢
  exact ⟨h.1, h.2.1, G.guarded_true cd g false h.2.2⟩

/-! ## 2. the measure -/

/-- `D * (remaining input + [a token has been consumed since the body was entered])` -/
def wt (env : Env) (D : Nat) (b : Bool) (s : SS) : Nat := D * (env.toks.length - s.pos + b.toNat)

/-- after a sub-parser: the position moved on, strictly (and inside the input) when it consumes -/
theorem wt_step {env : Env} {D : Nat} {b c : Bool} {s s1 : SS} (h1 : s.pos ≤ s1.pos)
    (h2 : c = true → s.pos < s1.pos ∧ s1.pos ≤ env.toks.length) : wt env D (b || c) s1 ≤ wt env D b s := by
  unfold wt
  apply Nat.mul_le_mul_left
  cases c with
  | false => simp only [Bool.or_false]; omega
  | true =>
    have := h2 rfl
    cases b <;> simp <;> omega

theorem wt_le {env : Env} {D : Nat} {b : Bool} {s s1 : SS} (h1 : s.pos ≤ s1.pos) : wt env D b s1 ≤ wt env D b s := by
  unfold wt
  apply Nat.mul_le_mul_left
  omega

/-- a (guarded) call: the body starts with `seen = false` -/
theorem wt_call (env : Env) (D : Nat) (s : SS) : wt env D false s + D = wt env D true s := by
  simp [wt, Nat.mul_add]

theorem wt_bound (env : Env) (D : Nat) (b : Bool) (s : SS) : wt env D b s ≤ D * (env.toks.length + 1) := by
  unfold wt
  apply Nat.mul_le_mul_left
  cases b <;> simp <;> omega

/-! ## 3. the engine -/

/-- admissible syntax at flag `b` -/
def AdmG (cd : Nat → Bool) (nd : Nat) (b : Bool) (g : G) : Prop :=
  (g.wf cd nd) = true ∧ (g.termOk cd) = true ∧ (g.guarded cd b) = true
def AdmGI (cd : Nat → Bool) (nd : Nat) (b : Bool) (it : It) : Prop :=
  (it.wf cd nd) = true ∧ (it.termOk cd) = true ∧ (it.guarded cd b) = true
def AdmGL (cd : Nat → Bool) (nd : Nat) (b : Bool) (gs : List G) : Prop :=
  wfL cd nd gs = true ∧ termOkL cd gs = true ∧ guardedL cd b gs = true
def AdmGS (cd : Nat → Bool) (nd : Nat) (b : Bool) (gs : List G) : Prop :=
  wfL cd nd gs = true ∧ termOkL cd gs = true ∧ guardedS cd b gs = true

/-- with fuel `n`, the runner is good on admissible syntax whose budget `depth + wt + |input| + 1` is within `n` -/
def PG2 (cd : Nat → Bool) (nd D n : Nat) (P : SRunner) (env : Env) : Prop :=
  ∀ g s ctx b, AdmG cd nd b g → g.depth + wt env D b s + env.toks.length + 1 ≤ n → (P env g s ctx).Good True
def NG2 (cd : Nat → Bool) (nd D n : Nat) (N : SNextRunner) (env : Env) : Prop :=
  ∀ it s ctx ist b, AdmGI cd nd b it → it.fits ist = true → it.depth + wt env D b s + env.toks.length + 1 ≤ n →
    (N env it s ctx ist).Good True it
def KG2 (cd : Nat → Bool) (nd D n : Nat) (K : SMkRunner) (env : Env) : Prop :=
  ∀ it s ctx b, AdmGI cd nd b it → it.depth + wt env D b s + env.toks.length + 1 ≤ n → (K env it s ctx).Good True it

/-- admissibility of a child (at the flag the child is run with) from admissibility of the node -/
macro "adm2 " h:ident : tactic => `(tactic| (
  simp only [AdmG, AdmGI, AdmGL, AdmGS] at $h:ident ⊢
  have h1 := ($h).1
  have h2 := ($h).2.1
  have h3 := ($h).2.2
  simp only [G.wf, It.wf, wfL, Bool.and_eq_true] at h1
  simp only [G.termOk, It.termOk, termOkL, Bool.and_eq_true] at h2
  simp only [G.guarded, It.guarded, guardedL, guardedS, Bool.and_eq_true] at h3
  simp [h1, h2, h3]))

/-- all that is known about one `next` call (position also on `done`) -/
def NStep2 (cd : Nat → Bool) (env : Env) (it : It) (s : SS) : SItOut → Prop
  | .some _ s' ist' _ => it.fits ist' = true ∧ s.pos ≤ s'.pos ∧
      ((it.advances cd) = true → s.pos < s'.pos ∧ s'.pos ≤ env.toks.length)
  | .done s' ist' _ => it.fits ist' = true ∧ s.pos ≤ s'.pos
  | .fail => True
  | .panic _ => False
  | .oof => False

/-- all that is known about one `make_iter` call -/
def KStep (it : It) (s : SS) : SMkOut → Prop
  | .ok ist s' _ => it.fits ist = true ∧ s.pos ≤ s'.pos
  | .fail => True
  | .panic _ => False
  | .oof => False

macro "g2_simp" : tactic => `(tactic| simp only [SOut.good_ok, SOut.good_fail, SOut.good_panic, SOut.good_oof,
  SItOut.good_some, SItOut.good_done, SItOut.good_fail, SItOut.good_panic, SItOut.good_oof,
  SMkOut.good_ok, SMkOut.good_fail, SMkOut.good_panic, SMkOut.good_oof, PStep, NStep2, KStep,
  imp_self, implies_true, false_imp_iff, true_imp_iff, not_true_eq_false])

section good2
variable {cd : Nat → Bool} {env : Env} {P : SRunner} {N : SNextRunner} {K : SMkRunner} {nd D n : Nat}

theorem pstep2 (H : CHyp cd env P N K) (hP : PG2 cd nd D n P env) {g : G} {b : Bool} (hg : AdmG cd nd b g)
    (s : SS) (ctx : Val) (hf : g.depth + wt env D b s + env.toks.length + 1 ≤ n) :
    PStep True env (g.consumes cd) s (P env g s ctx) := by
  have h1 := hP g s ctx b hg hf
  have h2 := H.advP g s ctx okT
  have h3 := H.consP g s ctx
  revert h1 h2 h3
  cases P env g s ctx <;> simp [PStep]
  intro h2 h3
  exact ⟨h2.1, fun hc => ⟨h3 hc, h2.2 (h3 hc)⟩⟩

theorem nstep2 (H : CHyp cd env P N K) (hN : NG2 cd nd D n N env) {it : It} {b : Bool} (hi : AdmGI cd nd b it)
    (s : SS) (ctx : Val) {ist : ItSt} (hf : it.fits ist = true)
    (hfu : it.depth + wt env D b s + env.toks.length + 1 ≤ n) : NStep2 cd env it s (N env it s ctx ist) := by
  have h1 := hN it s ctx ist b hi hf hfu
  have h2 := H.advN it s ctx ist okTI
  have h3 := H.consN it s ctx ist
  revert h1 h2 h3
  cases N env it s ctx ist <;> simp [NStep2]
  · intro h1 h2 h3
    exact ⟨h1, h2.1, fun hc => ⟨h3 hc, h2.2 (h3 hc)⟩⟩
  · intro h1 h2; exact ⟨h1, h2.1⟩

theorem kstep2 (H : CHyp cd env P N K) (hK : KG2 cd nd D n K env) {it : It} {b : Bool} (hi : AdmGI cd nd b it)
    (s : SS) (ctx : Val) (hfu : it.depth + wt env D b s + env.toks.length + 1 ≤ n) : KStep it s (K env it s ctx) := by
  have h1 := hK it s ctx b hi hfu
  have h2 := H.advK it s ctx okTI
  revert h1 h2
  cases K env it s ctx <;> simp [KStep]
  intro h1 h2; exact ⟨h1, h2.1⟩

/-- sequencing: the continuation runs at a position of smaller (or equal) weight, with the upgraded flag -/
theorem thn2 (H : CHyp cd env P N K) (hP : PG2 cd nd D n P env) {a : G} {b : Bool} (ha : AdmG cd nd b a)
    (s : SS) (ctx : Val) (hf : a.depth + wt env D b s + env.toks.length + 1 ≤ n) (k : Val → SS → List Emis → SOut)
    (hk : ∀ v s1 em, s.pos ≤ s1.pos → wt env D (b || a.consumes cd) s1 ≤ wt env D b s → (k v s1 em).Good True) :
    ((P env a s ctx).andThen k).Good True := by
  have h1 := pstep2 H hP ha s ctx hf
  revert h1
  cases P env a s ctx <;> simp only [SOut.andThen] <;> g2_simp
  rintro ⟨hle, hadv⟩
  exact hk _ _ _ hle (wt_step hle hadv)

theorem sChoice_good2 (hP : PG2 cd nd D n P env) (ctx : Val) (s : SS) (b : Bool) :
    ∀ gs, AdmGL cd nd b gs → depthL gs + wt env D b s + env.toks.length + 1 ≤ n → (sChoice P env ctx s gs).Good True := by
  intro gs
  induction gs with
  | nil => intro _ _; simp [sChoice]
  | cons g gs ih =>
    intro hl hf
    simp only [depthL] at hf
    have h1 := hP g s ctx b (by adm2 hl) (by omega)
    simp only [sChoice]
    revert h1
    cases P env g s ctx <;> g2_simp
    exact ih (by adm2 hl) (by omega)

theorem sGroup_good2 (H : CHyp cd env P N K) (hP : PG2 cd nd D n P env) (ctx : Val) :
    ∀ gs s acc em b, AdmGS cd nd b gs → depthL gs + wt env D b s + env.toks.length + 1 ≤ n →
      (sGroup P env ctx gs s acc em).Good True := by
  intro gs
  induction gs with
  | nil => intros; simp [sGroup]
  | cons g gs ih =>
    intro s acc em b hl hf
    simp only [depthL] at hf
    have h1 := pstep2 H hP (b := b) (g := g) (by adm2 hl) s ctx (by omega)
    simp only [sGroup]
    revert h1
    cases P env g s ctx <;> g2_simp
    rintro ⟨hle, hadv⟩
    have := wt_step (D := D) (b := b) hle hadv
    exact ih _ _ _ (b || g.consumes cd) (by adm2 hl) (by omega)

theorem sCollectLoop_good2 (H : CHyp cd env P N K) (hN : NG2 cd nd D n N env) (ctx : Val) (it : It) (k : CollKind)
    (b : Bool) (hi : AdmGI cd nd b it) (hT : (it.advances cd) = true) :
    ∀ fuel s ist acc i em, it.fits ist = true → it.depth + wt env D b s + env.toks.length + 1 ≤ n →
      env.toks.length - s.pos + 1 ≤ fuel → (sCollectLoop N env ctx it k fuel s ist acc i em).Good True := by
  intro fuel
  induction fuel with
  | zero => intro s ist acc i em _ _ hfu; omega
  | succ fuel ih =>
    intro s ist acc i em hf hw hfu
    have h1 := nstep2 H hN hi s ctx hf hw
    simp only [sCollectLoop]
    revert h1
    cases N env it s ctx ist <;> g2_simp
    rintro ⟨hf', hle, hadv⟩
    have := hadv hT
    have := wt_le (env := env) (D := D) (b := b) hle
    split
    · rename_i hc
      simp only [Bool.and_eq_true, Bool.not_eq_true', beq_iff_eq, decide_eq_true_eq] at hc
      omega
    · exact ih _ _ _ _ _ hf' (by omega) (by omega)

theorem sCollectExactlyLoop_good2 (H : CHyp cd env P N K) (hN : NG2 cd nd D n N env) (ctx : Val) (it : It)
    (b : Bool) (hi : AdmGI cd nd b it) :
    ∀ m s ist acc em, it.fits ist = true → it.depth + wt env D b s + env.toks.length + 1 ≤ n →
      (sCollectExactlyLoop N env ctx it m s ist acc em).Good True := by
  intro m
  induction m with
  | zero => intros; simp [sCollectExactlyLoop]
  | succ m ih =>
    intro s ist acc em hf hw
    have h1 := nstep2 H hN hi s ctx hf hw
    simp only [sCollectExactlyLoop]
    revert h1
    cases N env it s ctx ist <;> g2_simp
    rintro ⟨hf', hle, _⟩
    have := wt_le (env := env) (D := D) (b := b) hle
    exact ih _ _ _ _ hf' (by omega)

theorem sFoldlLoop_good2 (H : CHyp cd env P N K) (hN : NG2 cd nd D n N env) (ctx : Val) (it : It)
    (f : Val → Val → SS → Val) (b : Bool) (hi : AdmGI cd nd b it) (hT : (it.advances cd) = true) :
    ∀ fuel s ist acc em, it.fits ist = true → it.depth + wt env D b s + env.toks.length + 1 ≤ n →
      env.toks.length - s.pos + 1 ≤ fuel → (sFoldlLoop N env ctx it f fuel s ist acc em).Good True := by
  intro fuel
  induction fuel with
  | zero => intro s ist acc em _ _ hfu; omega
  | succ fuel ih =>
    intro s ist acc em hf hw hfu
    have h1 := nstep2 H hN hi s ctx hf hw
    simp only [sFoldlLoop]
    revert h1
    cases N env it s ctx ist <;> g2_simp
    rintro ⟨hf', hle, hadv⟩
    have := hadv hT
    have := wt_le (env := env) (D := D) (b := b) hle
    split
    · rename_i hc
      simp only [Bool.and_eq_true, Bool.not_eq_true', beq_iff_eq] at hc
      omega
    · exact ih _ _ _ _ hf' (by omega) (by omega)

/-- what `sFoldrCollect` returns (the position it stops at is at or after `s0`) -/
def FoldrGood2 (s0 : SS) (r : (Option (List (Val × Nat) × SS × List Emis)) ⊕ SOut) : Prop :=
  match r with
  | .inl (some (_, s2, _)) => s0.pos ≤ s2.pos
  | .inl none => False
  | .inr o => o.Good True

@[simp] theorem FoldrGood2.inl_some {s0 a s2 e} : FoldrGood2 s0 (.inl (some (a, s2, e))) ↔ s0.pos ≤ s2.pos := Iff.rfl
@[simp] theorem FoldrGood2.inl_none {s0} : FoldrGood2 s0 (.inl none) ↔ False := Iff.rfl
@[simp] theorem FoldrGood2.inr {s0 o} : FoldrGood2 s0 (.inr o) ↔ o.Good True := Iff.rfl

theorem sFoldrCollect_good2 (H : CHyp cd env P N K) (hN : NG2 cd nd D n N env) (ctx : Val) (it : It)
    (b : Bool) (hi : AdmGI cd nd b it) (hT : (it.advances cd) = true) (s0 : SS) :
    ∀ fuel s ist acc em, it.fits ist = true → it.depth + wt env D b s + env.toks.length + 1 ≤ n →
      env.toks.length - s.pos + 1 ≤ fuel → s0.pos ≤ s.pos →
      FoldrGood2 s0 (sFoldrCollect N env ctx it fuel s ist acc em) := by
  intro fuel
  induction fuel with
  | zero => intro s ist acc em _ _ hfu; omega
  | succ fuel ih =>
    intro s ist acc em hf hw hfu h0
    have h1 := nstep2 H hN hi s ctx hf hw
    simp only [sFoldrCollect]
    revert h1
    cases N env it s ctx ist <;> (simp only [FoldrGood2.inl_some, FoldrGood2.inr]; g2_simp)
    · rintro ⟨hf', hle, hadv⟩
      have := hadv hT
      have := wt_le (env := env) (D := D) (b := b) hle
      split
      · rename_i hc
        simp only [Bool.and_eq_true, Bool.not_eq_true', beq_iff_eq] at hc
        omega
      · exact ih _ _ _ _ hf' (by omega) (by omega) (by omega)
    · rintro ⟨_, hle⟩; omega

theorem sRepeatFast_good2 (H : CHyp cd env P N K) (hP : PG2 cd nd D n P env) (ctx : Val) (a : G) (b : Bool)
    (ha : AdmG cd nd b a) (hc : (a.consumes cd) = true) :
    ∀ fuel s em, a.depth + wt env D b s + env.toks.length + 1 ≤ n → env.toks.length - s.pos + 1 ≤ fuel →
      (sRepeatFast P env ctx a fuel s em).Good True := by
  intro fuel
  induction fuel with
  | zero => intro s em _ hfu; omega
  | succ fuel ih =>
    intro s em hw hfu
    have h1 := pstep2 H hP ha s ctx hw
    simp only [sRepeatFast]
    revert h1
    cases P env a s ctx <;> g2_simp
    rintro ⟨hle, hadv⟩
    have := hadv hc
    have := wt_le (env := env) (D := D) (b := b) hle
    split
    · rename_i hc'
      simp only [beq_iff_eq] at hc'
      omega
    · exact ih _ _ (by omega) (by omega)

theorem sIterLoop_good2 (H : CHyp cd env P N K) (hN : NG2 cd nd D n N env) (ctx : Val) (it : It) (ap : Bool)
    (b : Bool) (hi : AdmGI cd nd b it) (hT : (it.advances cd) = true) :
    ∀ fuel s ist em, it.fits ist = true → it.depth + wt env D b s + env.toks.length + 1 ≤ n →
      env.toks.length - s.pos + 1 ≤ fuel → (sIterLoop N env ctx it ap fuel s ist em).Good True := by
  intro fuel
  induction fuel with
  | zero => intro s ist em _ _ hfu; omega
  | succ fuel ih =>
    intro s ist em hf hw hfu
    have h1 := nstep2 H hN hi s ctx hf hw
    simp only [sIterLoop]
    revert h1
    cases N env it s ctx ist <;> g2_simp
    rintro ⟨hf', hle, hadv⟩
    have := hadv hT
    have := wt_le (env := env) (D := D) (b := b) hle
    split
    · rename_i hc
      simp only [Bool.and_eq_true, beq_iff_eq] at hc
      omega
    · exact ih _ _ _ hf' (by omega) (by omega)

theorem sSkipUntil_good2 (H : CHyp cd env P N K) (hP : PG2 cd nd D n P env) (ctx : Val) (skip until_ : G) (fb : Val)
    (b : Bool) (hs : AdmG cd nd b skip) (hu : AdmG cd nd b until_) (hT : (skip.consumes cd) = true) :
    ∀ fuel s em, skip.depth + wt env D b s + env.toks.length + 1 ≤ n →
      until_.depth + wt env D b s + env.toks.length + 1 ≤ n → env.toks.length - s.pos + 1 ≤ fuel →
      (sSkipUntil P env ctx skip until_ fb fuel s em).Good True := by
  intro fuel
  induction fuel with
  | zero => intro s em _ _ hfu; omega
  | succ fuel ih =>
    intro s em hws hwu hfu
    have h1 := pstep2 H hP hu s ctx hwu
    have h2 := pstep2 H hP hs s ctx hws
    simp only [sSkipUntil]
    revert h1
    cases P env until_ s ctx <;> g2_simp
    revert h2
    cases P env skip s ctx <;> g2_simp
    rintro ⟨hle, hadv⟩
    have := hadv hT
    have := wt_le (env := env) (D := D) (b := b) hle
    exact ih _ _ (by omega) (by omega) (by omega)

theorem sSkipRetry_good2 (H : CHyp cd env P N K) (hP : PG2 cd nd D n P env) (ctx : Val) (a skip until_ : G)
    (b : Bool) (ha : AdmG cd nd b a) (hs : AdmG cd nd b skip) (hu : AdmG cd nd b until_)
    (hT : (skip.consumes cd) = true) :
    ∀ fuel s em, a.depth + wt env D b s + env.toks.length + 1 ≤ n →
      skip.depth + wt env D b s + env.toks.length + 1 ≤ n →
      until_.depth + wt env D b s + env.toks.length + 1 ≤ n → env.toks.length - s.pos + 1 ≤ fuel →
      (sSkipRetry P env ctx a skip until_ fuel s em).Good True := by
  intro fuel
  induction fuel with
  | zero => intro s em _ _ _ hfu; omega
  | succ fuel ih =>
    intro s em hwa hws hwu hfu
    have h1 := pstep2 H hP hu s ctx hwu
    have h2 := pstep2 H hP hs s ctx hws
    simp only [sSkipRetry]
    revert h1
    cases P env until_ s ctx <;> g2_simp
    revert h2
    cases P env skip s ctx <;> g2_simp
    rename_i v2 s2 em2
    rintro ⟨hle, hadv⟩
    have := hadv hT
    have := wt_le (env := env) (D := D) (b := b) hle
    have hrec : (sSkipRetry P env ctx a skip until_ fuel s2 (em ++ em2)).Good True :=
      ih _ _ (by omega) (by omega) (by omega) (by omega)
    have h3 := pstep2 H hP ha s2 ctx (by omega)
    revert h3
    cases P env a s2 ctx <;> g2_simp
    · rename_i v3 s3 em3
      intro _
      cases em3 with
      | nil => simp
      | cons e es => exact hrec
    · exact hrec

theorem pegStep_good2 (H : CHyp cd env P N K)
    (hdefs : ∀ k dd, k < nd → env.defs[k]? = some dd → AdmG cd nd false dd ∧ dd.depth ≤ D)
    (hnd : nd ≤ env.defs.length)
    (hP : PG2 cd nd D n P env) (hN : NG2 cd nd D n N env) (hK : KG2 cd nd D n K env) :
    PG2 cd nd D (n + 1) (pegStep P N K n) env := by
  intro g s ctx b hg hf
  have fu : ∀ s' : SS, env.toks.length - s'.pos + 1 ≤ n := fun s' => by have := g.depth_pos; omega
  have wle : ∀ {s1 s2 : SS}, s1.pos ≤ s2.pos → wt env D b s2 ≤ wt env D b s1 := fun h => wt_le h
  cases g
  all_goals try simp only [pegStep]
  all_goals simp only [G.depth] at hf
  case end_ => cases env.toks[s.pos]? <;> simp
  case empty => simp
  case any => exact sTokenPrim_good s _
  case just ts => exact sJust_good ts _ s
  case oneOf ts => exact sTokenPrim_good s _
  case noneOf ts => exact sTokenPrim_good s _
  case select ts => exact sTokenPrim_good s _
  case custom f => exact sCustom_good f s
  case todo => simp [AdmG, G.wf] at hg
  case then_ x y =>
    refine thn2 H hP (b := b) (by adm2 hg) s ctx (by omega) _ fun _ s1 _ hle hw => ?_
    exact thn2 H hP (b := b || x.consumes cd) (by adm2 hg) s1 ctx (by omega) _ fun _ _ _ _ _ => by simp
  case ignoreThen x y =>
    refine thn2 H hP (b := b) (by adm2 hg) s ctx (by omega) _ fun _ s1 _ hle hw => ?_
    exact thn2 H hP (b := b || x.consumes cd) (by adm2 hg) s1 ctx (by omega) _ fun _ _ _ _ _ => by simp
  case thenIgnore x y =>
    refine thn2 H hP (b := b) (by adm2 hg) s ctx (by omega) _ fun _ s1 _ hle hw => ?_
    exact thn2 H hP (b := b || x.consumes cd) (by adm2 hg) s1 ctx (by omega) _ fun _ _ _ _ _ => by simp
  case delimitedBy x l r =>
    refine thn2 H hP (b := b) (by adm2 hg) s ctx (by omega) _ fun _ s1 _ hle1 hw1 => ?_
    refine thn2 H hP (b := b || l.consumes cd) (by adm2 hg) s1 ctx (by omega) _ fun _ s2 _ hle2 hw2 => ?_
    exact thn2 H hP (b := (b || l.consumes cd) || x.consumes cd) (by adm2 hg) s2 ctx (by omega) _
      fun _ _ _ _ _ => by simp
  case paddedBy x p =>
    refine thn2 H hP (b := b) (by adm2 hg) s ctx (by omega) _ fun _ s1 _ hle1 hw1 => ?_
    refine thn2 H hP (b := b || p.consumes cd) (by adm2 hg) s1 ctx (by omega) _ fun _ s2 _ hle2 hw2 => ?_
    have := wle (Nat.le_trans hle1 hle2)
    exact thn2 H hP (b := b) (by adm2 hg) s2 ctx (by omega) _ fun _ _ _ _ _ => by simp
  case group gs => exact sGroup_good2 H hP ctx gs s [] [] b (by adm2 hg) (by omega)
  case groupArr gs => exact sGroup_good2 H hP ctx gs s [] [] b (by adm2 hg) (by omega)
  case or_ x y =>
    refine sChoice_good2 hP ctx s b [x, y] ?_ (by simp only [depthL]; omega)
    have hx : AdmG cd nd b x := by adm2 hg
    have hy : AdmG cd nd b y := by adm2 hg
    simp only [AdmG, AdmGL, wfL, termOkL, guardedL] at hx hy ⊢
    simp [hx, hy]
  case choice fl gs =>
    have hgs : AdmGL cd nd b gs := by adm2 hg
    cases fl
    · cases gs
      · simp [AdmG, G.wf] at hg
      · simp only [pegStep]; exact sChoice_good2 hP ctx s b _ hgs (by omega)
    · simp only [pegStep]; exact sChoice_good2 hP ctx s b _ hgs (by omega)
  case orNot x =>
    have h1 := hP x s ctx b (by adm2 hg) (by omega)
    revert h1
    cases P env x s ctx <;> g2_simp
  case not_ x =>
    have h1 := hP x s ctx b (by adm2 hg) (by omega)
    revert h1
    cases P env x s ctx <;> g2_simp
  case andIs x y =>
    refine thn2 H hP (b := b) (by adm2 hg) s ctx (by omega) _ fun _ s1 _ _ _ => ?_
    exact thn2 H hP (b := b) (by adm2 hg) s ctx (by omega) _ fun _ _ _ _ _ => by simp
  case rewind x => exact thn2 H hP (b := b) (by adm2 hg) s ctx (by omega) _ fun _ _ _ _ _ => by simp
  case map f x => exact thn2 H hP (b := b) (by adm2 hg) s ctx (by omega) _ fun _ _ _ _ _ => by simp
  case to v x => exact thn2 H hP (b := b) (by adm2 hg) s ctx (by omega) _ fun _ _ _ _ _ => by simp
  case ignored x => exact thn2 H hP (b := b) (by adm2 hg) s ctx (by omega) _ fun _ _ _ _ _ => by simp
  case filter p x => exact thn2 H hP (b := b) (by adm2 hg) s ctx (by omega) _ fun _ _ _ _ _ => by split <;> simp
  case tryMap f x => exact thn2 H hP (b := b) (by adm2 hg) s ctx (by omega) _ fun _ _ _ _ _ => by split <;> simp
  case tryMapWith f x => exact thn2 H hP (b := b) (by adm2 hg) s ctx (by omega) _ fun _ _ _ _ _ => by split <;> simp
  case toSpan x => exact thn2 H hP (b := b) (by adm2 hg) s ctx (by omega) _ fun _ _ _ _ _ => by simp
  case toSlice x => exact thn2 H hP (b := b) (by adm2 hg) s ctx (by omega) _ fun _ _ _ _ _ => by simp
  case mapWithSpan x => exact thn2 H hP (b := b) (by adm2 hg) s ctx (by omega) _ fun _ _ _ _ _ => by simp
  case mapWithState x => exact thn2 H hP (b := b) (by adm2 hg) s ctx (by omega) _ fun _ _ _ _ _ => by simp
  case mapWithCtx x => exact thn2 H hP (b := b) (by adm2 hg) s ctx (by omega) _ fun _ _ _ _ _ => by simp
  case validate f x => exact thn2 H hP (b := b) (by adm2 hg) s ctx (by omega) _ fun _ _ _ _ _ => by simp
  case collect k it =>
    have hi : AdmGI cd nd b it := by adm2 hg
    have hT : (it.advances cd) = true := by
      have := hg.2.1; simp only [G.termOk, Bool.and_eq_true] at this; exact this.2
    have hk := kstep2 H hK hi s ctx (by omega)
    revert hk
    cases K env it s ctx <;> g2_simp
    rintro ⟨hf', hle⟩
    have := wle hle
    exact sCollectLoop_good2 H hN ctx it k b hi hT n _ _ _ _ _ hf' (by omega) (fu _)
  case collectExactly m it =>
    have hi : AdmGI cd nd b it := by adm2 hg
    have hk := kstep2 H hK hi s ctx (by omega)
    revert hk
    cases K env it s ctx <;> g2_simp
    rintro ⟨hf', hle⟩
    have := wle hle
    exact sCollectExactlyLoop_good2 H hN ctx it b hi m _ _ _ _ hf' (by omega)
  case foldl f x it =>
    have hi : AdmGI cd nd (b || x.consumes cd) it := by adm2 hg
    have hT : (it.advances cd) = true := by
      have := hg.2.1; simp only [G.termOk, Bool.and_eq_true] at this; exact this.2.2
    refine thn2 H hP (b := b) (by adm2 hg) s ctx (by omega) _ fun va s1 e1 hle1 hw1 => ?_
    have hk := kstep2 H hK hi s1 ctx (by omega)
    revert hk
    cases K env it s1 ctx <;> g2_simp
    rintro ⟨hf', hle⟩
    have := wt_le (env := env) (D := D) (b := b || x.consumes cd) hle
    exact sFoldlLoop_good2 H hN ctx it _ _ hi hT n _ _ _ _ hf' (by omega) (fu _)
  case foldlWith x it =>
    have hi : AdmGI cd nd (b || x.consumes cd) it := by adm2 hg
    have hT : (it.advances cd) = true := by
      have := hg.2.1; simp only [G.termOk, Bool.and_eq_true] at this; exact this.2.2
    refine thn2 H hP (b := b) (by adm2 hg) s ctx (by omega) _ fun va s1 e1 hle1 hw1 => ?_
    have hk := kstep2 H hK hi s1 ctx (by omega)
    revert hk
    cases K env it s1 ctx <;> g2_simp
    rintro ⟨hf', hle⟩
    have := wt_le (env := env) (D := D) (b := b || x.consumes cd) hle
    exact sFoldlLoop_good2 H hN ctx it _ _ hi hT n _ _ _ _ hf' (by omega) (fu _)
  case foldr f it y =>
    have hi : AdmGI cd nd b it := by adm2 hg
    have hT : (it.advances cd) = true := by
      have := hg.2.1; simp only [G.termOk, Bool.and_eq_true] at this; exact this.2.2
    have hk := kstep2 H hK hi s ctx (by omega)
    revert hk
    cases K env it s ctx <;> g2_simp
    rename_i ist s1 e1
    rintro ⟨hf', hle⟩
    have := wle hle
    have hfc := sFoldrCollect_good2 H hN ctx it b hi hT s1 n s1 ist [] e1 hf' (by omega) (fu _) (Nat.le_refl _)
    revert hfc
    cases sFoldrCollect N env ctx it n s1 ist [] e1 with
    | inr o => exact id
    | inl x =>
      cases x with
      | none => simp
      | some t =>
        obtain ⟨items, s2, e2⟩ := t
        simp only [FoldrGood2.inl_some]
        intro hle2
        have := wle (Nat.le_trans hle hle2)
        exact thn2 H hP (b := b) (by adm2 hg) s2 ctx (by omega) _ fun _ _ _ _ _ => by simp
  case foldrWith it y =>
    have hi : AdmGI cd nd b it := by adm2 hg
    have hT : (it.advances cd) = true := by
      have := hg.2.1; simp only [G.termOk, Bool.and_eq_true] at this; exact this.2.2
    have hk := kstep2 H hK hi s ctx (by omega)
    revert hk
    cases K env it s ctx <;> g2_simp
    rename_i ist s1 e1
    rintro ⟨hf', hle⟩
    have := wle hle
    have hfc := sFoldrCollect_good2 H hN ctx it b hi hT s1 n s1 ist [] e1 hf' (by omega) (fu _) (Nat.le_refl _)
    revert hfc
    cases sFoldrCollect N env ctx it n s1 ist [] e1 with
    | inr o => exact id
    | inl x =>
      cases x with
      | none => simp
      | some t =>
        obtain ⟨items, s2, e2⟩ := t
        simp only [FoldrGood2.inl_some]
        intro hle2
        have := wle (Nat.le_trans hle hle2)
        exact thn2 H hP (b := b) (by adm2 hg) s2 ctx (by omega) _ fun _ _ _ _ _ => by simp
  case iterP it =>
    have hi : AdmGI cd nd b it := by adm2 hg
    have hw := hg.1
    simp only [G.wf, Bool.and_eq_true] at hw
    have hT : (it.iterPTerm cd) = true := by
      have := hg.2.1; simp only [G.termOk, Bool.and_eq_true] at this; exact this.2
    have loop : ∀ ap, (it.advances cd) = true → (match K env it s ctx with
        | .ok ist s1 em => sIterLoop N env ctx it ap n s1 ist em
        | .fail => .fail
        | .panic w => .panic w
        | .oof => .oof).Good True := by
      intro ap hTa
      have hk := kstep2 H hK hi s ctx (by omega)
      revert hk
      cases K env it s ctx <;> g2_simp
      rintro ⟨hf', hle⟩
      have := wle hle
      exact sIterLoop_good2 H hN ctx it ap b hi hTa n _ _ _ hf' (by omega) (fu _)
    cases it
    case repeated x lo hi' =>
      have hc : (x.consumes cd) = true := by simpa [It.iterPOk] using hw.2
      simp only [It.depth] at hf
      cases lo
      · cases hi'
        · simp only [pegStep]
          exact sRepeatFast_good2 H hP ctx x b (by adm2 hi) hc n s [] (by omega) (fu _)
        · simp only [pegStep]; exact loop true hc
      · simp only [pegStep]; exact loop true hc
    case separatedBy x sep lo hi' lead trail =>
      have hc : (x.consumes cd) = true := by simpa [It.iterPOk] using hw.2
      simp only [pegStep]; exact loop true hc
    case configureRep c inner =>
      simp only [pegStep]
      exact loop false (by simpa [It.iterPTerm, It.advances] using hT)
    case tryConfigureRep c inner =>
      simp only [pegStep]
      exact loop false (by simpa [It.iterPTerm, It.advances] using hT)
    case intoIter x =>
      simp only [pegStep]
      simp only [It.depth] at hf
      exact thn2 H hP (b := b) (by adm2 hi) s ctx (by omega) _ fun _ _ _ _ _ => by simp
    all_goals simp [It.iterPOk] at hw
  case recoverVia x r =>
    have h1 := hP x s ctx b (by adm2 hg) (by omega)
    have h2 := hP r s ctx b (by adm2 hg) (by omega)
    revert h1
    cases P env x s ctx <;> g2_simp
    revert h2
    cases P env r s ctx <;> g2_simp
  case recoverSkipUntil x skip until_ fb =>
    have hT : (skip.consumes cd) = true := by
      have := hg.2.1; simp only [G.termOk, Bool.and_eq_true] at this; exact this.2.2.2
    have h1 := hP x s ctx b (by adm2 hg) (by omega)
    revert h1
    cases P env x s ctx <;> g2_simp
    exact sSkipUntil_good2 H hP ctx skip until_ fb b (by adm2 hg) (by adm2 hg) hT n s [] (by omega) (by omega) (fu _)
  case recoverSkipRetry x skip until_ =>
    have hT : (skip.consumes cd) = true := by
      have := hg.2.1; simp only [G.termOk, Bool.and_eq_true] at this; exact this.2.2.2
    have h1 := hP x s ctx b (by adm2 hg) (by omega)
    revert h1
    cases P env x s ctx <;> g2_simp
    exact sSkipRetry_good2 H hP ctx x skip until_ b (by adm2 hg) (by adm2 hg) (by adm2 hg) hT n s []
      (by omega) (by omega) (by omega) (fu _)
  case labelled l asCtx x => exact thn2 H hP (b := b) (by adm2 hg) s ctx (by omega) _ fun _ _ _ _ _ => by simp
  case mapErr k x => exact hP x s ctx b (by adm2 hg) (by omega)
  case withCtx cv x => exact hP x s cv b (by adm2 hg) (by omega)
  case ignoreWithCtx x y =>
    refine thn2 H hP (b := b) (by adm2 hg) s ctx (by omega) _ fun va s1 _ hle hw => ?_
    exact thn2 H hP (b := b || x.consumes cd) (by adm2 hg) s1 va (by omega) _ fun _ _ _ _ _ => by simp
  case thenWithCtx x y =>
    refine thn2 H hP (b := b) (by adm2 hg) s ctx (by omega) _ fun va s1 _ hle hw => ?_
    exact thn2 H hP (b := b || x.consumes cd) (by adm2 hg) s1 va (by omega) _ fun _ _ _ _ _ => by simp
  case mapCtx f x => exact hP x s _ b (by adm2 hg) (by omega)
  case configureJust c ts => exact sJust_good _ _ s
  case withState x =>
    have hw0 : wt env D b ⟨s.pos, []⟩ = wt env D b s := rfl
    exact thn2 H hP (b := b) (by adm2 hg) ⟨s.pos, []⟩ ctx (by omega) _ fun _ _ _ _ _ => by simp
  case memoized id x => exact hP x s ctx b (by adm2 hg) (by omega)
  case call k =>
    have hb : b = true := by simpa [G.guarded] using hg.2.2
    have hk : k < nd := by simpa [G.wf] using hg.1
    have hlt : k < env.defs.length := Nat.lt_of_lt_of_le hk hnd
    have he : env.defs[k]? = some env.defs[k] := List.getElem?_eq_getElem hlt
    rw [he]
    obtain ⟨hadm, hdd⟩ := hdefs k _ hk he
    subst hb
    have := wt_call env D s
    exact hP _ s ctx false hadm (by omega)
  case boxed x => exact hP x s ctx b (by adm2 hg) (by omega)

theorem pegMk_good2 (hP : PG2 cd nd D n P env) (hK : KG2 cd nd D n K env) : KG2 cd nd D (n + 1) (pegMk P K) env := by
  intro it s ctx b hi hf
  cases it
  all_goals simp only [pegMk]
  all_goals simp only [It.depth] at hf
  case repeated => simp [It.fits]
  case separatedBy => simp [It.fits]
  case orNotIt => simp [It.fits]
  case enumerate inner =>
    have hk := hK inner s ctx b (by adm2 hi) (by omega)
    revert hk
    cases K env inner s ctx <;> g2_simp
    simp [It.fits]
  case intoIter x =>
    have h1 := hP x s ctx b (by adm2 hi) (by omega)
    revert h1
    cases P env x s ctx <;> g2_simp
    simp [It.fits]
  case thenIt x y =>
    have hk := hK x s ctx b (by adm2 hi) (by omega)
    revert hk
    cases K env x s ctx <;> g2_simp
    simp [It.fits]
  case mapIt f inner =>
    have hk := hK inner s ctx b (by adm2 hi) (by omega)
    revert hk
    cases K env inner s ctx <;> g2_simp
    simp [It.fits]
  case configureRep c inner =>
    have hr : inner.isRepeated = true := by
      have := hi.1; simp only [It.wf, Bool.and_eq_true] at this; exact this.2
    have hin : AdmGI cd nd b inner := by adm2 hi
    obtain ⟨x, lo, hi', rfl⟩ := isRepeated_eq hr
    have hk := hK (.repeated x lo hi') s ctx b hin (by omega)
    revert hk
    cases K env (.repeated x lo hi') s ctx <;> g2_simp
    intro hf'
    obtain ⟨m, rfl⟩ := fits_repeated_cnt hf'
    simp [It.fits]
  case tryConfigureRep c inner =>
    have hr : inner.isRepeated = true := by
      have := hi.1; simp only [It.wf, Bool.and_eq_true] at this; exact this.2
    have hin : AdmGI cd nd b inner := by adm2 hi
    obtain ⟨x, lo, hi', rfl⟩ := isRepeated_eq hr
    cases ctx.asNat? with
    | none => simp
    | some m =>
      have hk := hK (.repeated x lo hi') s ctx b hin (by omega)
      revert hk
      cases K env (.repeated x lo hi') s ctx <;> g2_simp
      intro hf'
      obtain ⟨m, rfl⟩ := fits_repeated_cnt hf'
      simp [It.fits]

theorem sRepeatedNext_good2 (hP : PG2 cd nd D n P env) (ctx : Val) (a : G) (b : Bool) (ha : AdmG cd nd b a)
    (lo : Nat) (hi : Option Nat) (s : SS) (hfu : a.depth + wt env D b s + env.toks.length + 1 ≤ n) (m : Nat)
    (wrap : ItSt → ItSt) (it : It) (hw : ∀ m, it.fits (wrap (.cnt m)) = true) :
    (sRepeatedNext P env ctx a lo hi s m wrap).Good True it := by
  unfold sRepeatedNext
  split
  · simp [hw]
  · have h1 := hP a s ctx b ha hfu
    revert h1
    cases P env a s ctx <;> g2_simp
    · exact hw _
    · split <;> simp [hw]

theorem sSeparatedNext_good2 (H : CHyp cd env P N K) (hP : PG2 cd nd D n P env) (ctx : Val) (a sep : G) (b : Bool)
    (ha : AdmG cd nd b a) (hs : AdmG cd nd b sep) (lo : Nat) (hi : Option Nat) (lead trail : Bool) (s : SS)
    (hfa : a.depth + wt env D b s + env.toks.length + 1 ≤ n)
    (hfs : sep.depth + wt env D b s + env.toks.length + 1 ≤ n) (m : Nat) (it : It)
    (hw : ∀ m, it.fits (.cnt m) = true) :
    (sSeparatedNext P env ctx a sep lo hi lead trail s m).Good True it := by
  have item : ∀ (s0 : SS) (e0 : List Emis), s.pos ≤ s0.pos →
      (match P env a s0 ctx with
        | .ok v s1 em => SItOut.some v s1 (.cnt (m + 1)) (e0 ++ em)
        | .fail =>
          if m < lo then .fail
          else if trail then .done s0 (.cnt m) e0
          else .done s (.cnt m) []
        | .panic w => .panic w
        | .oof => .oof).Good True it := by
    intro s0 e0 h0
    have := wt_le (env := env) (D := D) (b := b) h0
    have h1 := hP a s0 ctx b ha (by omega)
    revert h1
    cases P env a s0 ctx <;> g2_simp
    · exact hw _
    · split
      · simp
      · split <;> simp [hw]
  have hsep := pstep2 H hP hs s ctx hfs
  unfold sSeparatedNext
  split
  · simp [hw]
  · simp only []
    split
    · revert hsep
      cases P env sep s ctx <;> g2_simp
      · rintro ⟨hle, _⟩; exact item _ _ hle
      · exact item _ _ (Nat.le_refl _)
    · split
      · revert hsep
        cases P env sep s ctx <;> g2_simp
        · rintro ⟨hle, _⟩; exact item _ _ hle
        · split <;> simp [hw]
      · exact item _ _ (Nat.le_refl _)

theorem pegNext_good2 (H : CHyp cd env P N K) (hP : PG2 cd nd D n P env) (hN : NG2 cd nd D n N env)
    (hK : KG2 cd nd D n K env) : NG2 cd nd D (n + 1) (pegNext P N K) env := by
  intro it s ctx ist b hi hf hfu
  cases it
  all_goals simp only [It.depth] at hfu
  case repeated x lo hi' =>
    obtain ⟨m, rfl⟩ := fits_repeated_cnt hf
    simp only [pegNext]
    exact sRepeatedNext_good2 hP ctx x b (by adm2 hi) _ _ s (by omega) m id _ (fun m => by simp [It.fits])
  case separatedBy x sep lo hi' lead trail =>
    cases ist <;> simp only [It.fits, Bool.false_eq_true] at hf
    simp only [pegNext]
    exact sSeparatedNext_good2 H hP ctx x sep b (by adm2 hi) (by adm2 hi) _ _ _ _ s (by omega) (by omega) _ _
      (fun m => by simp [It.fits])
  case enumerate inner =>
    cases ist <;> simp only [It.fits, Bool.false_eq_true] at hf
    rename_i k st
    simp only [pegNext]
    have h1 := hN inner s ctx st b (by adm2 hi) hf (by omega)
    revert h1
    cases N env inner s ctx st <;> g2_simp
    all_goals simp [It.fits]
  case orNotIt x =>
    cases ist <;> simp only [It.fits, Bool.false_eq_true] at hf
    rename_i fin
    simp only [pegNext]
    split
    · simp [It.fits]
    · have h1 := hP x s ctx b (by adm2 hi) (by omega)
      revert h1
      cases P env x s ctx <;> g2_simp
      all_goals simp [It.fits]
  case intoIter x =>
    cases ist <;> simp only [It.fits, Bool.false_eq_true] at hf
    simp only [pegNext]
    split <;> simp [It.fits]
  case thenIt x y =>
    cases ist <;> simp only [It.fits, Bool.false_eq_true, Bool.and_eq_true] at hf
    rename_i sa sb?
    have hx : AdmGI cd nd b x := by adm2 hi
    have hy : AdmGI cd nd b y := by adm2 hi
    simp only [pegNext]
    cases sb? with
    | some sb =>
      simp only []
      have h1 := hN y s ctx sb b hy hf.2 (by omega)
      revert h1
      cases N env y s ctx sb <;> g2_simp
      all_goals simp [It.fits, hf.1]
    | none =>
      simp only []
      have h1 := nstep2 H hN hx s ctx hf.1 (by omega)
      revert h1
      cases N env x s ctx sa <;> g2_simp
      · rintro ⟨hfa, _, _⟩; simp [It.fits, hfa]
      · rename_i s1 sa1 e1
        rintro ⟨hfa, hle1⟩
        have := wt_le (env := env) (D := D) (b := b) hle1
        have h2 := kstep2 H hK hy s1 ctx (by omega)
        revert h2
        cases K env y s1 ctx <;> g2_simp
        rename_i sb s2 e2
        rintro ⟨hfb, hle2⟩
        have := wt_le (env := env) (D := D) (b := b) hle2
        have h3 := hN y s2 ctx sb b hy hfb (by omega)
        revert h3
        cases N env y s2 ctx sb <;> g2_simp
        all_goals simp [It.fits, hfa]
  case mapIt f inner =>
    have hf' : inner.fits ist = true := by simpa [It.fits] using hf
    simp only [pegNext]
    have h1 := hN inner s ctx ist b (by adm2 hi) hf' (by omega)
    revert h1
    cases N env inner s ctx ist <;> g2_simp
    all_goals simp [It.fits]
  case configureRep c inner =>
    have hr : inner.isRepeated = true := by
      have := hi.1; simp only [It.wf, Bool.and_eq_true] at this; exact this.2
    have hin : AdmGI cd nd b inner := by adm2 hi
    obtain ⟨x, lo, hi', rfl⟩ := isRepeated_eq hr
    cases ist <;> simp only [It.fits, Bool.false_eq_true] at hf
    rename_i st clo chi
    cases st <;> simp only [Bool.false_eq_true] at hf
    simp only [pegNext]
    simp only [It.depth] at hfu
    exact sRepeatedNext_good2 hP ctx x b (by adm2 hin) _ _ s (by omega) _ _ _ (fun m => by simp [It.fits])
  case tryConfigureRep c inner =>
    have hr : inner.isRepeated = true := by
      have := hi.1; simp only [It.wf, Bool.and_eq_true] at this; exact this.2
    have hin : AdmGI cd nd b inner := by adm2 hi
    obtain ⟨x, lo, hi', rfl⟩ := isRepeated_eq hr
    cases ist <;> simp only [It.fits, Bool.false_eq_true] at hf
    rename_i st clo chi
    cases st <;> simp only [Bool.false_eq_true] at hf
    simp only [pegNext]
    simp only [It.depth] at hfu
    exact sRepeatedNext_good2 hP ctx x b (by adm2 hin) _ _ s (by omega) _ _ _ (fun m => by simp [It.fits])

end good2

/-- closing the recursion: at fuel `n` the three runners are good wherever the budget is within `n` -/
theorem good2_all {cd : Nat → Bool} (env : Env) (hcd : CDefs cd env) (nd D : Nat) (hnd : nd ≤ env.defs.length)
    (hdefs : ∀ k dd, k < nd → env.defs[k]? = some dd → AdmG cd nd false dd ∧ dd.depth ≤ D) :
    ∀ n, PG2 cd nd D n (peg n) env ∧ NG2 cd nd D n (pegNext' n) env ∧ KG2 cd nd D n (pegMk' n) env := by
  intro n
  induction n with
  | zero =>
    exact ⟨fun g s ctx b _ h => by omega, fun it s ctx ist b _ _ h => by omega, fun it s ctx b _ h => by omega⟩
  | succ n ih =>
    have H := chyp_all env hcd n
    obtain ⟨hP, hN, hK⟩ := ih
    exact ⟨pegStep_good2 H hdefs hnd hP hN hK, pegNext_good2 H hP hN hK, pegMk_good2 hP hK⟩

/-! ## 4. guarded recursive grammars terminate -/

/-- the largest depth of a definition body -/
def maxDefDepth (env : Env) : Nat := depthL env.defs

/-- **the fuel bound**: `depth g + maxDefDepth * (|input| + 1) + |input| + 1` -/
def guardedFuel (env : Env) (g : G) : Nat :=
  g.depth + maxDefDepth env * (env.toks.length + 1) + env.toks.length + 1

theorem depth_le_depthL {g : G} : ∀ {gs : List G}, g ∈ gs → g.depth ≤ depthL gs := by
  intro gs
  induction gs with
  | nil => intro h; cases h
  | cons x xs ih =>
    intro h
    simp only [depthL]
    rcases List.mem_cons.1 h with rfl | h
    · omega
    · have := ih h; omega

theorem defsGuarded_cdefs {cd : Nat → Bool} {env : Env} (hd : DefsGuarded cd env = true) : CDefs cd env := by
  simp only [DefsGuarded, Bool.and_eq_true] at hd
  exact cdefsB_sound hd.1

theorem defsGuarded_bodies {cd : Nat → Bool} {env : Env} (hd : DefsGuarded cd env = true) :
    ∀ k dd, k < env.defs.length → env.defs[k]? = some dd →
      AdmG cd env.defs.length false dd ∧ dd.depth ≤ maxDefDepth env := by
  intro k dd _ he
  simp only [DefsGuarded, Bool.and_eq_true] at hd
  have hm : dd ∈ env.defs := List.mem_of_getElem? he
  have := List.all_eq_true.1 hd.2 dd hm
  simp only [G.bodyOk, Bool.and_eq_true] at this
  exact ⟨⟨this.1, this.2.1, this.2.2⟩, depth_le_depthL hm⟩

/-- a guarded table is in particular a well-formed one (`Total.lean`: it never panics) -/
theorem defsGuarded_defsWf {cd : Nat → Bool} {env : Env} (hd : DefsGuarded cd env = true) : DefsWf cd env :=
  ⟨defsGuarded_cdefs hd, fun dd hm => by
    simp only [DefsGuarded, Bool.and_eq_true] at hd
    have := List.all_eq_true.1 hd.2 dd hm
    simp only [G.bodyOk, Bool.and_eq_true] at this
    exact this.1⟩

/-- **C12/C20, spec side, position-sensitive form.** from the start state `s`, fuel
    `depth g + maxDefDepth * (remaining input + 1) + |input| + 1` suffices -/
theorem peg_guarded_terminates_at {cd : Nat → Bool} (n : Nat) (env : Env) (g : G) (s : SS) (ctx : Val)
    (hd : DefsGuarded cd env = true) (hg : g.mainOk cd env.defs.length = true)
    (hn : g.depth + maxDefDepth env * (env.toks.length - s.pos + 1) + env.toks.length + 1 ≤ n) :
    peg n env g s ctx ≠ .oof ∧ ∀ w, peg n env g s ctx ≠ .panic w := by
  simp only [G.mainOk, Bool.and_eq_true] at hg
  have := (good2_all env (defsGuarded_cdefs hd) env.defs.length (maxDefDepth env) (Nat.le_refl _)
    (defsGuarded_bodies hd) n).1 g s ctx true ⟨hg.1, hg.2.1, hg.2.2⟩ (by simpa [wt] using hn)
  constructor
  · intro h; rw [h] at this; exact this trivial
  · intro w h; rw [h] at this; exact this

/-- **C12/C20, spec side.** a guarded definition table and a main grammar over it: with fuel `guardedFuel env g`
    the reading neither runs out of fuel nor panics — on every input, from every start state -/
theorem peg_guarded_terminates {cd : Nat → Bool} (n : Nat) (env : Env) (g : G) (s : SS) (ctx : Val)
    (hd : DefsGuarded cd env = true) (hg : g.mainOk cd env.defs.length = true) (hn : guardedFuel env g ≤ n) :
    peg n env g s ctx ≠ .oof ∧ ∀ w, peg n env g s ctx ≠ .panic w := by
  refine peg_guarded_terminates_at n env g s ctx hd hg (Nat.le_trans ?_ hn)
  have : maxDefDepth env * (env.toks.length - s.pos + 1) ≤ maxDefDepth env * (env.toks.length + 1) :=
    Nat.mul_le_mul_left _ (by omega)
  simp only [guardedFuel]
  omega

/-- **C12/C20, the machine.** -/
theorem run_guarded_terminates {cd : Nat → Bool} (n : Nat) (env : Env) (m : Mode) (g : G) (st : St)
    (hm : env.memoOn = false) (hd : DefsGuarded cd env = true) (hg : g.mainOk cd env.defs.length = true)
    (hn : guardedFuel env g ≤ n) :
    run n env m g st ≠ .oof ∧ ∀ w, run n env m g st ≠ .panic w :=
  ⟨fun h => (peg_guarded_terminates n env g _ _ hd hg hn).1 (run_oof_peg hm h),
   fun w h => (peg_guarded_terminates n env g _ _ hd hg hn).2 w (run_panic_peg hm h)⟩

/-- **C12/C20, top level.** `parse`/`check` of a guarded recursive grammar return a `ParseResult` -/
theorem parseTop_guarded_terminates {cd : Nat → Bool} (n : Nat) (env : Env) (m : Mode) (g : G)
    (hm : env.memoOn = false) (hd : DefsGuarded cd env = true) (hg : g.mainOk cd env.defs.length = true)
    (hn : guardedFuel env g + 1 ≤ n) :
    ∃ r final, parseTop n env m g = .result r final := by
  have hg' : (G.thenIgnore g .end_).mainOk cd env.defs.length = true := by
    simp only [G.mainOk, Bool.and_eq_true] at hg ⊢
    simp [G.wf, G.termOk, G.guarded, hg]
  have hfuel : guardedFuel env (.thenIgnore g .end_) ≤ n := by
    have := g.depth_pos
    simp only [guardedFuel, G.depth] at hn ⊢
    omega
  have h := run_guarded_terminates n env m (.thenIgnore g .end_) St.init hm hd hg' hfuel
  cases hp : parseTop n env m g with
  | result r final => exact ⟨r, final, rfl⟩
  | panic w => exact absurd (parseTop_panic_run hp) (h.2 w)
  | oof => exact absurd (parseTop_oof_run hp) h.1

/-! ## 5. non-vacuity -/

section examples

/-- `expr = '(' expr ')' | 'a'` as definition 0 -/
def parenDefs : List G := [.or_ (.delimitedBy (.call 0) (.just [40]) (.just [41])) (.just [97])]
def parenEnv (toks : List Nat) : Env := { toks := toks, defs := parenDefs, memoOn := false }

/-- the table is guarded (under the annotation "definition 0 consumes", which the check justifies) … -/
theorem parenEnv_guarded (toks : List Nat) : DefsGuarded allCalls (parenEnv toks) = true := rfl
/-- … the main grammar `expr` is admissible … -/
theorem parenMain_ok (toks : List Nat) : (G.call 0).mainOk allCalls (parenEnv toks).defs.length = true := rfl
/-- … hence `parse` returns a result on every input with the bound's fuel (here `3 * (|input| + 1) + |input| + 3`) -/
theorem paren_terminates (toks : List Nat) (m : Mode) :
    ∃ r final, parseTop (guardedFuel (parenEnv toks) (.call 0) + 1) (parenEnv toks) m (.call 0) = .result r final :=
  parseTop_guarded_terminates _ (parenEnv toks) m (.call 0) rfl (parenEnv_guarded toks) (parenMain_ok toks) (Nat.le_refl _)

example : guardedFuel (parenEnv [40, 40, 97, 41, 41]) (.call 0) + 1 = 26 := by decide

/-- the nested input `((a))` parses, with exactly the bound's fuel, to the innermost `a`, consuming all 5 tokens -/
example :
    (match parseTop (guardedFuel (parenEnv [40, 40, 97, 41, 41]) (.call 0) + 1) (parenEnv [40, 40, 97, 41, 41]) .emit
        (.call 0) with
      | .result r f => (r.output, f.pos)
      | _ => (none, 0)) = (some (.toks [97]), 5) := by
  decide +kernel

/-- a table with a loop: `value = '[' value,* ']' | digit+` (`exValue` of Total.lean) is guarded as well -/
theorem exEnv_guarded (toks : List Nat) : DefsGuarded allCalls (exEnv toks) = true := rfl

theorem exValue_terminates (toks : List Nat) (m : Mode) :
    ∃ r final, parseTop (guardedFuel (exEnv toks) (.call 0) + 1) (exEnv toks) m (.call 0) = .result r final :=
  parseTop_guarded_terminates _ (exEnv toks) m (.call 0) rfl (exEnv_guarded toks) rfl (Nat.le_refl _)

/-- the left-recursive `expr = expr 'a' | 'a'` -/
def leftDefs : List G := [.or_ (.then_ (.call 0) (.just [97])) (.just [97])]

/-- … is NOT guarded, whatever the consumption annotation -/
example (cd : Nat → Bool) (toks : List Nat) : DefsGuarded cd { toks := toks, defs := leftDefs } = false := by
  simp [DefsGuarded, leftDefs, G.bodyOk, G.guarded]

/-- … and indeed never terminates: out of fuel at every fuel, on every input, from every state -/
theorem leftRec_oof (env : Env) (he : env.defs = leftDefs) : ∀ n s ctx, peg n env (.call 0) s ctx = .oof := by
  intro n
  induction n using Nat.strongRecOn with
  | _ n ih =>
    intro s ctx
    cases n with
    | zero => simp [peg]
    | succ n =>
      cases n with
      | zero => simp [peg, pegStep, he, leftDefs]
      | succ n =>
        cases n with
        | zero => simp [peg, pegStep, he, leftDefs, sChoice]
        | succ n =>
          have := ih n (by omega) s ctx
          simp [peg, pegStep, he, leftDefs, sChoice, this, SOut.andThen]

theorem leftRec_parseTop_oof (env : Env) (he : env.defs = leftDefs) (hm : env.memoOn = false) (n : Nat) (m : Mode) :
    parseTop n env m (.call 0) = .oof := by
  have hp : peg n env (.thenIgnore (.call 0) .end_) ⟨0, []⟩ .unit = .oof := by
    cases n with
    | zero => simp [peg]
    | succ n => simp [peg, pegStep, leftRec_oof env he n, SOut.andThen]
  have hr := run_refines n env m (.thenIgnore (.call 0) .end_) St.init hm
  have e1 : St.init.ss = ⟨0, []⟩ := rfl
  have e2 : St.init.ctx = .unit := rfl
  rw [e1, e2, hp] at hr
  unfold parseTop
  revert hr
  cases run n env m (.thenIgnore (.call 0) .end_) St.init <;> simp [Refines]

end examples

#print axioms G.guarded_true
#print axioms good2_all
#print axioms peg_guarded_terminates_at
#print axioms peg_guarded_terminates
#print axioms run_guarded_terminates
#print axioms parseTop_guarded_terminates
#print axioms paren_terminates
#print axioms exValue_terminates
#print axioms leftRec_oof
#print axioms leftRec_parseTop_oof

end Chumsky
