/-
  I1 — the master refinement: for every grammar (memoization off), every environment, mode, state and fuel,
  the machine refines the PEG reading.
-/
import ChumskyModel.Proofs.Lemmas.ErrRefine
import ChumskyModel.Proofs.Lemmas.IterRefine
namespace Chumsky

variable {R : Runner} {P : SRunner} {N : NextRunner} {K : MkRunner} {SN : SNextRunner} {SK : SMkRunner}

theorem step_refines (hR : RunnerRefines R P) (hN : NextRefines N SN) (hK : MkRefines K SK) (L : Nat) :
    RunnerRefines (step R N K L) (pegStep P SN SK L) := by
  intro env m g st hm
  cases g
  case end_ => exact step_refines_prim env m st L _ trivial
  case empty => exact step_refines_prim env m st L _ trivial
  case any => exact step_refines_prim env m st L _ trivial
  case just => exact step_refines_prim env m st L _ trivial
  case oneOf => exact step_refines_prim env m st L _ trivial
  case noneOf => exact step_refines_prim env m st L _ trivial
  case select => exact step_refines_prim env m st L _ trivial
  case custom => exact step_refines_prim env m st L _ trivial
  case todo => exact step_refines_prim env m st L _ trivial
  case configureJust => exact step_refines_prim env m st L _ trivial
  case then_ => exact step_refines_seq hR env hm m st L _ trivial
  case ignoreThen => exact step_refines_seq hR env hm m st L _ trivial
  case thenIgnore => exact step_refines_seq hR env hm m st L _ trivial
  case delimitedBy => exact step_refines_seq hR env hm m st L _ trivial
  case paddedBy => exact step_refines_seq hR env hm m st L _ trivial
  case group => exact step_refines_choice hR env hm m st L _ trivial
  case groupArr => exact step_refines_choice hR env hm m st L _ trivial
  case or_ => exact step_refines_choice hR env hm m st L _ trivial
  case choice => exact step_refines_choice hR env hm m st L _ trivial
  case orNot => exact step_refines_look hR env hm m st L _ trivial
  case not_ => exact step_refines_look hR env hm m st L _ trivial
  case andIs => exact step_refines_look hR env hm m st L _ trivial
  case rewind => exact step_refines_look hR env hm m st L _ trivial
  case filter => exact step_refines_look hR env hm m st L _ trivial
  case tryMap => exact step_refines_look hR env hm m st L _ trivial
  case map => exact step_refines_value hR env hm m st L _ trivial
  case to => exact step_refines_value hR env hm m st L _ trivial
  case ignored => exact step_refines_value hR env hm m st L _ trivial
  case tryMapWith => exact step_refines_value hR env hm m st L _ trivial
  case toSpan => exact step_refines_value hR env hm m st L _ trivial
  case toSlice => exact step_refines_value hR env hm m st L _ trivial
  case mapWithSpan => exact step_refines_value hR env hm m st L _ trivial
  case mapWithState => exact step_refines_value hR env hm m st L _ trivial
  case mapWithCtx => exact step_refines_value hR env hm m st L _ trivial
  case validate => exact step_refines_value hR env hm m st L _ trivial
  case memoized => exact step_refines_value hR env hm m st L _ trivial
  case call => exact step_refines_value hR env hm m st L _ trivial
  case boxed => exact step_refines_value hR env hm m st L _ trivial
  case collect => exact step_refines_iter hR hN hK env hm m st L _ trivial
  case collectExactly => exact step_refines_iter hR hN hK env hm m st L _ trivial
  case foldl => exact step_refines_iter hR hN hK env hm m st L _ trivial
  case foldr => exact step_refines_iter hR hN hK env hm m st L _ trivial
  case foldlWith => exact step_refines_iter hR hN hK env hm m st L _ trivial
  case foldrWith => exact step_refines_iter hR hN hK env hm m st L _ trivial
  case iterP => exact step_refines_iter hR hN hK env hm m st L _ trivial
  case recoverVia => exact step_refines_err hR env hm m st L _ trivial
  case recoverSkipUntil => exact step_refines_err hR env hm m st L _ trivial
  case recoverSkipRetry => exact step_refines_err hR env hm m st L _ trivial
  case labelled => exact step_refines_err hR env hm m st L _ trivial
  case mapErr => exact step_refines_err hR env hm m st L _ trivial
  case withCtx => exact step_refines_ctx hR env hm m st L _ trivial
  case ignoreWithCtx => exact step_refines_ctx hR env hm m st L _ trivial
  case thenWithCtx => exact step_refines_ctx hR env hm m st L _ trivial
  case mapCtx => exact step_refines_ctx hR env hm m st L _ trivial
  case withState => exact step_refines_ctx hR env hm m st L _ trivial

/-- **I1.** machine ⊑ PEG reading, for all three runners, at every fuel. -/
theorem run_refines_all (n : Nat) :
    RunnerRefines (run n) (peg n) ∧ NextRefines (next n) (pegNext' n) ∧ MkRefines (mkIter n) (pegMk' n) := by
  induction n with
  | zero =>
    refine ⟨?_, ?_, ?_⟩
    · intro env m g st _; simp [run, peg, Refines]
    · intro env m it st ist _; simp [next, pegNext', RefinesIt]
    · intro env m it st _; simp [mkIter, pegMk', RefinesMk]
  | succ n ih =>
    obtain ⟨hR, hN, hK⟩ := ih
    exact ⟨step_refines hR hN hK n, stepNext_refines hR hN hK, stepMk_refines hR hK⟩

theorem run_refines (n : Nat) (env : Env) (m : Mode) (g : G) (st : St) (hm : env.memoOn = false) :
    Refines m st.errs st.ctx (run n env m g st) (peg n env g st.ss st.ctx) :=
  (run_refines_all n).1 env m g st hm

end Chumsky
