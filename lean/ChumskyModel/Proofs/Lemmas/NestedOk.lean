import ChumskyModel.Model.Nested
set_option linter.unusedSimpArgs false
set_option linter.unusedVariables false
namespace Chumsky

/-- anatomy of a successful nested parse (reading): `b` succeeded and yielded a group, the inner reading `a` followed by end of
    (inner) input succeeded from inner position 0, the outer position is the one after `b`, the emissions are `b`'s followed by
    the inner ones re-homed there -/
theorem nestedStepS_ok (P : SRunner) (h : HEnv) (env : Env) (s : SS) (ctx : Val) {v s' em}
    (hok : nestedStepS P h env s ctx = .ok v s' em) :
    ∃ vb s1 e1 kids si e2, P env h.b s ctx = .ok vb s1 e1 ∧ h.kidsOf vb = some kids ∧
      innerThenEndS (P (h.innerEnv env kids) h.a ⟨0, s1.insp⟩ ctx) (fun si1 => P (h.innerEnv env kids) .end_ si1 ctx)
        = .ok v si e2 ∧ s' = ⟨s1.pos, si.insp⟩ ∧ em = e1 ++ rehomeEm s1.pos e2 := by
  unfold nestedStepS at hok
  cases hb : P env h.b s ctx with
  | ok vb s1 e1 =>
    rw [hb] at hok
    simp only [SOut.andThen] at hok
    cases hk : h.kidsOf vb with
    | none => rw [hk] at hok; cases hok
    | some kids =>
      rw [hk] at hok
      dsimp only at hok
      generalize hi : innerThenEndS (P (h.innerEnv env kids) h.a ⟨0, s1.insp⟩ ctx)
        (fun si1 => P (h.innerEnv env kids) .end_ si1 ctx) = o at hok
      cases o with
      | ok va si e2 =>
        simp only [SOut.ok.injEq] at hok
        obtain ⟨hv, hs, he⟩ := hok
        subst hv
        exact ⟨vb, s1, e1, kids, si, e2, rfl, hk, hi, hs.symm, he.symm⟩
      | fail => cases hok
      | panic w => cases hok
      | oof => cases hok
  | fail => rw [hb] at hok; simp [SOut.andThen] at hok
  | panic w => rw [hb] at hok; simp [SOut.andThen] at hok
  | oof => rw [hb] at hok; simp [SOut.andThen] at hok

/-- the inner reading consumed the inner input COMPLETELY: `a` then `end()` succeeded, so `a` ended at the end of the children -/
theorem innerThenEndS_ok {pa : SOut} {pend : SS → SOut} {v si e} (h : innerThenEndS pa pend = .ok v si e) :
    ∃ si1 e2 ve e3, pa = .ok v si1 e2 ∧ pend si1 = .ok ve si e3 ∧ e = e2 ++ e3 := by
  unfold innerThenEndS at h
  cases pa with
  | ok va si1 e2 =>
    simp only [SOut.andThen] at h
    cases hp : pend si1 with
    | ok ve si2 e3 =>
      rw [hp] at h
      simp only [SOut.ok.injEq] at h
      obtain ⟨rfl, rfl, rfl⟩ := h
      exact ⟨si1, e2, ve, e3, rfl, hp, rfl⟩
    | fail => rw [hp] at h; cases h
    | panic w => rw [hp] at h; cases h
    | oof => rw [hp] at h; cases h
  | fail => simp [SOut.andThen] at h
  | panic w => simp [SOut.andThen] at h
  | oof => simp [SOut.andThen] at h

end Chumsky
