/-
  Proofs/Lemmas/Unroll.lean — C12: a parser defined with `recursive(..)` / `Recursive::declare`+`define` (`call k` +
  the table `env.defs`, mutual recursion = several entries) behaves exactly like the same grammar with the references
  expanded as deeply as the run needs.

  `G.unroll1 f`      replace every `call k` by `f k`, homomorphic on every other constructor (structural on the syntax)
  `unrollD defs d k` definition `k` expanded `d` levels deep (recursion on `d`): `todo` at depth 0,
                     `boxed (unroll1 (unrollD defs d) defs[k])` at depth `d+1` (`boxed` = the identity wrapper, it costs the
                     same one unit of fuel as `call`), and the panicking `call k` itself when `k` is undefined
  `G.unroll defs d`  `= G.unroll1 (unrollD defs d)`

  Main results (plain equality of `Out` / `ItOut` / `MkOut` / `TopOut`: same outcome, value, whole state, panic code):
    `run_unroll`, `next_unroll`, `mkIter_unroll`   fuel `n`, depth `d ≥ n`: the run on `env` = the run on the unrolled
                                                   grammar with the EMPTY definition table. No side condition: the
                                                   `todo` leaves are never reached (after `n` nested references the
                                                   fuel is 0 on both sides), undefined references panic alike,
                                                   `memoOn` is arbitrary (memo ids and keys are untouched)
    `run_unroll_defs`                              … with any table not longer than `env.defs`
    `parseTop_unroll`                              the same for `Parser::parse` / `check`
    `G.unroll_callFree`                            closed table + closed grammar ⇒ the unrolled grammar has no `call`
    `run_callFree_defs`                            a call-free grammar never looks at the table
    `run_unroll_closed`                            closed form of C12: call-free grammar, any table on the right
  Proof: one-step lemmas `step_unroll` / `stepNext_unroll` / `stepMk_unroll` for arbitrary runners related by
  `USimR/USimN/USimK` (every constructor except `call` unfolds to the same shape), loop helpers depend on the runner only
  through its extensional behaviour (`*_unroll` in `section loops`), then induction on the fuel for all `d ≥ n` at once.
-/
import ChumskyModel.Model.Machine
set_option linter.unusedSimpArgs false
set_option linter.unusedVariables false
namespace Chumsky

/-! ### the unrolling -/

mutual
/-- replace every `call k` by `f k`; homomorphic on every other constructor -/
def G.unroll1 (f : Nat → G) : G → G
  | .end_ => .end_
  | .empty => .empty
  | .any => .any
  | .just x0 => .just x0
  | .oneOf x0 => .oneOf x0
  | .noneOf x0 => .noneOf x0
  | .select x0 => .select x0
  | .custom x0 => .custom x0
  | .todo => .todo
  | .then_ x0 x1 => .then_ (G.unroll1 f x0) (G.unroll1 f x1)
  | .ignoreThen x0 x1 => .ignoreThen (G.unroll1 f x0) (G.unroll1 f x1)
  | .thenIgnore x0 x1 => .thenIgnore (G.unroll1 f x0) (G.unroll1 f x1)
  | .delimitedBy x0 x1 x2 => .delimitedBy (G.unroll1 f x0) (G.unroll1 f x1) (G.unroll1 f x2)
  | .paddedBy x0 x1 => .paddedBy (G.unroll1 f x0) (G.unroll1 f x1)
  | .group x0 => .group (unroll1L f x0)
  | .groupArr x0 => .groupArr (unroll1L f x0)
  | .or_ x0 x1 => .or_ (G.unroll1 f x0) (G.unroll1 f x1)
  | .choice x0 x1 => .choice x0 (unroll1L f x1)
  | .orNot x0 => .orNot (G.unroll1 f x0)
  | .not_ x0 => .not_ (G.unroll1 f x0)
  | .andIs x0 x1 => .andIs (G.unroll1 f x0) (G.unroll1 f x1)
  | .rewind x0 => .rewind (G.unroll1 f x0)
  | .map x0 x1 => .map x0 (G.unroll1 f x1)
  | .to x0 x1 => .to x0 (G.unroll1 f x1)
  | .ignored x0 => .ignored (G.unroll1 f x0)
  | .filter x0 x1 => .filter x0 (G.unroll1 f x1)
  | .tryMap x0 x1 => .tryMap x0 (G.unroll1 f x1)
  | .tryMapWith x0 x1 => .tryMapWith x0 (G.unroll1 f x1)
  | .toSpan x0 => .toSpan (G.unroll1 f x0)
  | .toSlice x0 => .toSlice (G.unroll1 f x0)
  | .mapWithSpan x0 => .mapWithSpan (G.unroll1 f x0)
  | .mapWithState x0 => .mapWithState (G.unroll1 f x0)
  | .mapWithCtx x0 => .mapWithCtx (G.unroll1 f x0)
  | .validate x0 x1 => .validate x0 (G.unroll1 f x1)
  | .collect x0 x1 => .collect x0 (It.unroll1 f x1)
  | .collectExactly x0 x1 => .collectExactly x0 (It.unroll1 f x1)
  | .foldl x0 x1 x2 => .foldl x0 (G.unroll1 f x1) (It.unroll1 f x2)
  | .foldr x0 x1 x2 => .foldr x0 (It.unroll1 f x1) (G.unroll1 f x2)
  | .foldlWith x0 x1 => .foldlWith (G.unroll1 f x0) (It.unroll1 f x1)
  | .foldrWith x0 x1 => .foldrWith (It.unroll1 f x0) (G.unroll1 f x1)
  | .iterP x0 => .iterP (It.unroll1 f x0)
  | .recoverVia x0 x1 => .recoverVia (G.unroll1 f x0) (G.unroll1 f x1)
  | .recoverSkipUntil x0 x1 x2 x3 => .recoverSkipUntil (G.unroll1 f x0) (G.unroll1 f x1) (G.unroll1 f x2) x3
  | .recoverSkipRetry x0 x1 x2 => .recoverSkipRetry (G.unroll1 f x0) (G.unroll1 f x1) (G.unroll1 f x2)
  | .labelled x0 x1 x2 => .labelled x0 x1 (G.unroll1 f x2)
  | .mapErr x0 x1 => .mapErr x0 (G.unroll1 f x1)
  | .withCtx x0 x1 => .withCtx x0 (G.unroll1 f x1)
  | .ignoreWithCtx x0 x1 => .ignoreWithCtx (G.unroll1 f x0) (G.unroll1 f x1)
  | .thenWithCtx x0 x1 => .thenWithCtx (G.unroll1 f x0) (G.unroll1 f x1)
  | .mapCtx x0 x1 => .mapCtx x0 (G.unroll1 f x1)
  | .configureJust x0 x1 => .configureJust x0 x1
  | .withState x0 => .withState (G.unroll1 f x0)
  | .memoized x0 x1 => .memoized x0 (G.unroll1 f x1)
  | .call k => f k
  | .boxed x0 => .boxed (G.unroll1 f x0)
def It.unroll1 (f : Nat → G) : It → It
  | .repeated x0 x1 x2 => .repeated (G.unroll1 f x0) x1 x2
  | .separatedBy x0 x1 x2 x3 x4 x5 => .separatedBy (G.unroll1 f x0) (G.unroll1 f x1) x2 x3 x4 x5
  | .enumerate x0 => .enumerate (It.unroll1 f x0)
  | .orNotIt x0 => .orNotIt (G.unroll1 f x0)
  | .intoIter x0 => .intoIter (G.unroll1 f x0)
  | .thenIt x0 x1 => .thenIt (It.unroll1 f x0) (It.unroll1 f x1)
  | .mapIt x0 x1 => .mapIt x0 (It.unroll1 f x1)
  | .configureRep x0 x1 => .configureRep x0 (It.unroll1 f x1)
  | .tryConfigureRep x0 x1 => .tryConfigureRep x0 (It.unroll1 f x1)
def unroll1L (f : Nat → G) : List G → List G
  | [] => []
  | g :: gs => G.unroll1 f g :: unroll1L f gs
end

/-- definition `k` expanded `d` levels deep: `todo` at depth 0; an undefined `k` stays the (panicking) `call k` -/
def unrollD (defs : List G) : Nat → Nat → G
  | 0, _ => .todo
  | d + 1, k =>
    match defs[k]? with
    | some b => .boxed (G.unroll1 (unrollD defs d) b)
    | none => .call k

/-- expand every `call k` `d` levels deep through the table `defs`; below that, `todo` -/
def G.unroll (defs : List G) (d : Nat) (g : G) : G := G.unroll1 (unrollD defs d) g
def It.unroll (defs : List G) (d : Nat) (it : It) : It := It.unroll1 (unrollD defs d) it
def unrollL (defs : List G) (d : Nat) (gs : List G) : List G := unroll1L (unrollD defs d) gs

/-- the same environment with another definition table -/
def Env.withDefs (env : Env) (ds : List G) : Env := { env with defs := ds }

section envLemmas
variable (env : Env) (ds : List G)
@[simp] theorem Env.withDefs_ek : (env.withDefs ds).ek = env.ek := rfl
@[simp] theorem Env.withDefs_memoOn : (env.withDefs ds).memoOn = env.memoOn := rfl
@[simp] theorem Env.withDefs_defs : (env.withDefs ds).defs = ds := rfl
@[simp] theorem Env.withDefs_toks : (env.withDefs ds).toks = env.toks := rfl
@[simp] theorem Env.withDefs_mkSpan : (env.withDefs ds).mkSpan = env.mkSpan := rfl
@[simp] theorem Env.withDefs_off : (env.withDefs ds).off = env.off := rfl
@[simp] theorem St.next_withDefs : St.next (env.withDefs ds) = St.next env := rfl
@[simp] theorem St.peek_withDefs : St.peek (env.withDefs ds) = St.peek env := rfl
@[simp] theorem St.addAlt_withDefs : St.addAlt (env.withDefs ds) = St.addAlt env := rfl
@[simp] theorem St.addAltErr_withDefs : St.addAltErr (env.withDefs ds) = St.addAltErr env := rfl
@[simp] theorem St.readdAlt_withDefs : St.readdAlt (env.withDefs ds) = St.readdAlt env := rfl
@[simp] theorem tokenPrim_withDefs : tokenPrim (env.withDefs ds) = tokenPrim env := rfl
@[simp] theorem runCustom_withDefs : runCustom (env.withDefs ds) = runCustom env := rfl
@[simp] theorem ctxSecondary_withDefs : ctxSecondary (env.withDefs ds) = ctxSecondary env := rfl
@[simp] theorem justRun_withDefs : ∀ (ts : List Nat) (st : St), justRun (env.withDefs ds) ts st = justRun env ts st
  | [], st => rfl
  | e :: es, st => by
    simp only [justRun, St.next_withDefs, Env.withDefs_mkSpan, St.addAlt_withDefs, justRun_withDefs es]
end envLemmas

/-! ### the simulation hypotheses: the second runner on the transformed grammar does what the first does -/

def USimR (f : Nat → G) (env : Env) (ds : List G) (R R' : Runner) : Prop :=
  ∀ m g st, R env m g st = R' (env.withDefs ds) m (G.unroll1 f g) st
def USimN (f : Nat → G) (env : Env) (ds : List G) (N N' : NextRunner) : Prop :=
  ∀ m it st ist, N env m it st ist = N' (env.withDefs ds) m (It.unroll1 f it) st ist
def USimK (f : Nat → G) (env : Env) (ds : List G) (K K' : MkRunner) : Prop :=
  ∀ m it st, K env m it st = K' (env.withDefs ds) m (It.unroll1 f it) st

@[simp] theorem It.nonconsOk_unroll1 (f : Nat → G) : ∀ it : It, (It.unroll1 f it).nonconsOk = it.nonconsOk
  | .repeated .. => rfl
  | .separatedBy .. => rfl
  | .enumerate it => by simp only [It.unroll1, It.nonconsOk, It.nonconsOk_unroll1 f it]
  | .orNotIt _ => rfl
  | .intoIter _ => rfl
  | .thenIt a b => by simp only [It.unroll1, It.nonconsOk, It.nonconsOk_unroll1 f a, It.nonconsOk_unroll1 f b]
  | .mapIt _ it => by simp only [It.unroll1, It.nonconsOk, It.nonconsOk_unroll1 f it]
  | .configureRep _ it => by simp only [It.unroll1, It.nonconsOk, It.nonconsOk_unroll1 f it]
  | .tryConfigureRep _ it => by simp only [It.unroll1, It.nonconsOk, It.nonconsOk_unroll1 f it]

section loops
variable {f : Nat → G} {env : Env} {ds : List G} {R R' : Runner} {N N' : NextRunner} {K K' : MkRunner}

theorem choiceTuple_unroll (hR : USimR f env ds R R') (m : Mode) (c : Chk) : ∀ (gs : List G) (st : St),
    choiceTuple R env m c gs st = choiceTuple R' (env.withDefs ds) m c (unroll1L f gs) st
  | [], st => rfl
  | g :: gs, st => by
    simp only [choiceTuple, unroll1L, hR m g st, choiceTuple_unroll hR m c gs]

theorem choiceSlice_unroll (hR : USimR f env ds R R') (m : Mode) (c : Chk) : ∀ (gs : List G) (st : St),
    choiceSlice R env m c gs st = choiceSlice R' (env.withDefs ds) m c (unroll1L f gs) st
  | [], st => rfl
  | g :: gs, st => by
    simp only [choiceSlice, unroll1L, hR m g, choiceSlice_unroll hR m c gs]

theorem groupLoop_unroll (hR : USimR f env ds R R') (m : Mode) : ∀ (gs : List G) (st : St) (acc : List Val),
    groupLoop R env m gs st acc = groupLoop R' (env.withDefs ds) m (unroll1L f gs) st acc
  | [], st, acc => rfl
  | g :: gs, st, acc => by
    simp only [groupLoop, unroll1L, hR m g, groupLoop_unroll hR m gs]

theorem collectLoop_unroll (hN : USimN f env ds N N') (m : Mode) (it : It) (k : CollKind) :
    ∀ (fuel : Nat) (st : St) (ist : ItSt) (acc : List Val) (i : Nat),
    collectLoop N env m it k fuel st ist acc i = collectLoop N' (env.withDefs ds) m (It.unroll1 f it) k fuel st ist acc i
  | 0, _, _, _, _ => rfl
  | fuel + 1, st, ist, acc, i => by
    simp only [collectLoop, hN m it, It.nonconsOk_unroll1, collectLoop_unroll hN m it k fuel]

theorem collectExactlyLoop_unroll (hN : USimN f env ds N N') (m : Mode) (it : It) :
    ∀ (n : Nat) (st : St) (ist : ItSt) (acc : List Val),
    collectExactlyLoop N env m it n st ist acc = collectExactlyLoop N' (env.withDefs ds) m (It.unroll1 f it) n st ist acc
  | 0, _, _, _ => rfl
  | n + 1, st, ist, acc => by
    simp only [collectExactlyLoop, hN m it, collectExactlyLoop_unroll hN m it n, St.addAlt_withDefs,
      St.peek_withDefs, Env.withDefs_mkSpan]

theorem foldlLoop_unroll (hN : USimN f env ds N N') (m : Mode) (it : It) (fn : Val → Val → St → Val) :
    ∀ (fuel : Nat) (st : St) (ist : ItSt) (acc : Val),
    foldlLoop N env m it fn fuel st ist acc = foldlLoop N' (env.withDefs ds) m (It.unroll1 f it) fn fuel st ist acc
  | 0, _, _, _ => rfl
  | fuel + 1, st, ist, acc => by
    simp only [foldlLoop, hN m it, It.nonconsOk_unroll1, foldlLoop_unroll hN m it fn fuel]

theorem foldrCollect_unroll (hN : USimN f env ds N N') (m : Mode) (it : It) :
    ∀ (fuel : Nat) (st : St) (ist : ItSt) (acc : List (Val × Nat)),
    foldrCollect N env m it fuel st ist acc = foldrCollect N' (env.withDefs ds) m (It.unroll1 f it) fuel st ist acc
  | 0, _, _, _ => rfl
  | fuel + 1, st, ist, acc => by
    simp only [foldrCollect, hN m it, It.nonconsOk_unroll1, foldrCollect_unroll hN m it fuel]

theorem repeatFast_unroll (hR : USimR f env ds R R') (a : G) : ∀ (fuel : Nat) (st : St),
    repeatFast R env a fuel st = repeatFast R' (env.withDefs ds) (G.unroll1 f a) fuel st
  | 0, _ => rfl
  | fuel + 1, st => by
    simp only [repeatFast, hR .check a, repeatFast_unroll hR a fuel]

theorem iterLoop_unroll (hN : USimN f env ds N N') (it : It) (ap : Bool) : ∀ (fuel : Nat) (st : St) (ist : ItSt),
    iterLoop N env it ap fuel st ist = iterLoop N' (env.withDefs ds) (It.unroll1 f it) ap fuel st ist
  | 0, _, _ => rfl
  | fuel + 1, st, ist => by
    simp only [iterLoop, hN .check it, iterLoop_unroll hN it ap fuel]

theorem skipUntilLoop_unroll (hR : USimR f env ds R R') (m : Mode) (skip until_ : G) (fb : Val) (alt : Loc) :
    ∀ (fuel : Nat) (st : St),
    skipUntilLoop R env m skip until_ fb alt fuel st
      = skipUntilLoop R' (env.withDefs ds) m (G.unroll1 f skip) (G.unroll1 f until_) fb alt fuel st
  | 0, _ => rfl
  | fuel + 1, st => by
    simp only [skipUntilLoop, hR .check until_, hR .check skip, skipUntilLoop_unroll hR m skip until_ fb alt fuel]

theorem skipRetryLoop_unroll (hR : USimR f env ds R R') (m : Mode) (a skip until_ : G) (alt : Loc) :
    ∀ (fuel : Nat) (st : St),
    skipRetryLoop R env m a skip until_ alt fuel st
      = skipRetryLoop R' (env.withDefs ds) m (G.unroll1 f a) (G.unroll1 f skip) (G.unroll1 f until_) alt fuel st
  | 0, _ => rfl
  | fuel + 1, st => by
    simp only [skipRetryLoop, hR .check until_, hR .check skip, hR m a, skipRetryLoop_unroll hR m a skip until_ alt fuel]

theorem repeatedNext_unroll (hR : USimR f env ds R R') (m : Mode) (a : G) (lo : Nat) (hi : Option Nat) (st : St) (n : Nat)
    (wrap : ItSt → ItSt) :
    repeatedNext R env m a lo hi st n wrap = repeatedNext R' (env.withDefs ds) m (G.unroll1 f a) lo hi st n wrap := by
  simp only [repeatedNext, hR m a]

theorem separatedNext_unroll (hR : USimR f env ds R R') (m : Mode) (a sep : G) (lo : Nat) (hi : Option Nat)
    (lead trail : Bool) (st : St) (n : Nat) :
    separatedNext R env m a sep lo hi lead trail st n
      = separatedNext R' (env.withDefs ds) m (G.unroll1 f a) (G.unroll1 f sep) lo hi lead trail st n := by
  simp only [separatedNext, hR m a, hR .check sep]

end loops

section steps
variable {f : Nat → G} {env : Env} {ds : List G} {R R' : Runner} {N N' : NextRunner} {K K' : MkRunner}

/-- one step, every constructor except `call` -/
theorem step_unroll (hR : USimR f env ds R R') (hN : USimN f env ds N N') (hK : USimK f env ds K K') (L : Nat)
    (m : Mode) (g : G) (st : St) (hg : ∀ k, g ≠ .call k) :
    step R N K L env m g st = step R' N' K' L (env.withDefs ds) m (G.unroll1 f g) st := by
  cases g
  case call k => exact absurd rfl (hg k)
  case or_ a b => exact choiceTuple_unroll hR m _ [a, b] st
  case choice fl gs =>
    cases fl with
    | tuple =>
      match gs with
      | [] => rfl
      | [g] => simp only [G.unroll1, step, unroll1L, hR _ _]
      | g :: g' :: gs => exact choiceTuple_unroll hR m _ (g :: g' :: gs) st
    | slice =>
      match gs with
      | [] => rfl
      | g :: gs => exact choiceSlice_unroll hR m _ (g :: gs) st
  case iterP it =>
    cases it with
    | repeated a lo hi =>
      have h1 := hK .check (.repeated a lo hi) st
      have h2 := iterLoop_unroll hN (.repeated a lo hi) true L
      simp only [It.unroll1] at h1 h2
      cases lo with
      | zero =>
        cases hi with
        | none => exact repeatFast_unroll hR a L st
        | some h => simp only [G.unroll1, It.unroll1, step, h1, h2]
      | succ lo => simp only [G.unroll1, It.unroll1, step, h1, h2]
    | separatedBy a sep lo hi lead trail =>
      have h1 := hK .check (.separatedBy a sep lo hi lead trail) st
      have h2 := iterLoop_unroll hN (.separatedBy a sep lo hi lead trail) true L
      simp only [It.unroll1] at h1 h2
      simp only [G.unroll1, It.unroll1, step, h1, h2]
    | configureRep c inner =>
      have h1 := hK .check (.configureRep c inner) st
      have h2 := iterLoop_unroll hN (.configureRep c inner) false L
      simp only [It.unroll1] at h1 h2
      simp only [G.unroll1, It.unroll1, step, h1, h2]
    | tryConfigureRep c inner =>
      have h1 := hK .check (.tryConfigureRep c inner) st
      have h2 := iterLoop_unroll hN (.tryConfigureRep c inner) false L
      simp only [It.unroll1] at h1 h2
      simp only [G.unroll1, It.unroll1, step, h1, h2]
    | intoIter a => simp only [G.unroll1, It.unroll1, step, hR _ _]
    | _ => rfl
  case memoized id a =>
    have hR' := hR m a
    cases env with
    | mk toks kind tspans eoi ek defs memoOn =>
      cases memoOn
      · simp only [G.unroll1, step, hR', Env.withDefs, Bool.not_false, if_true]
      · simp only [G.unroll1, step, hR', Env.withDefs_memoOn, Bool.not_true, Bool.false_eq_true, if_false,
          Env.withDefs_mkSpan, St.addAlt_withDefs, St.addAltErr_withDefs, St.readdAlt_withDefs]
  all_goals
    simp only [G.unroll1, step, hR _ _, hN _ _, hK _ _, Env.withDefs_ek, Env.withDefs_memoOn, Env.withDefs_mkSpan,
      Env.withDefs_off, St.next_withDefs, St.peek_withDefs, St.addAlt_withDefs, St.addAltErr_withDefs,
      St.readdAlt_withDefs, tokenPrim_withDefs, runCustom_withDefs, ctxSecondary_withDefs, justRun_withDefs,
      ← groupLoop_unroll hR, ← choiceTuple_unroll hR, ← choiceSlice_unroll hR, ← collectLoop_unroll hN,
      ← collectExactlyLoop_unroll hN, ← foldlLoop_unroll hN, ← foldrCollect_unroll hN, ← skipUntilLoop_unroll hR,
      ← skipRetryLoop_unroll hR]

theorem stepMk_unroll (hR : USimR f env ds R R') (hK : USimK f env ds K K') :
    USimK f env ds (stepMk R K) (stepMk R' K') := by
  intro m it st
  cases it <;>
    simp only [It.unroll1, stepMk, hR _ _, hK _ _, Env.withDefs_ek, Env.withDefs_mkSpan, St.addAltErr_withDefs]

theorem stepNext_unroll (hR : USimR f env ds R R') (hN : USimN f env ds N N') (hK : USimK f env ds K K') :
    USimN f env ds (stepNext R N K) (stepNext R' N' K') := by
  intro m it st ist
  cases it with
  | repeated a lo hi =>
    cases ist with
    | cnt n => exact repeatedNext_unroll hR m a lo hi st n id
    | _ => rfl
  | separatedBy a sep lo hi lead trail =>
    cases ist with
    | cnt n => exact separatedNext_unroll hR m a sep lo hi lead trail st n
    | _ => rfl
  | enumerate inner =>
    cases ist with
    | enum k si => simp only [It.unroll1, stepNext, hN _ _]
    | _ => rfl
  | orNotIt a =>
    cases ist with
    | fin b => simp only [It.unroll1, stepNext, hR _ _]
    | _ => rfl
  | intoIter a =>
    cases ist with
    | into vs => cases vs <;> rfl
    | _ => rfl
  | thenIt x y =>
    cases ist with
    | thn sa sb? => cases sb? <;> simp only [It.unroll1, stepNext, hN _ _, hK _ _]
    | _ => rfl
  | mapIt fn inner => simp only [It.unroll1, stepNext, hN _ _]
  | configureRep c inner =>
    cases inner with
    | repeated a lo hi =>
      cases ist with
      | cfg si clo chi =>
        cases si with
        | cnt n => simp only [It.unroll1, stepNext]; exact repeatedNext_unroll hR m a _ _ st n _
        | _ => rfl
      | _ => rfl
    | _ => cases ist <;> rfl
  | tryConfigureRep c inner =>
    cases inner with
    | repeated a lo hi =>
      cases ist with
      | cfg si clo chi =>
        cases si with
        | cnt n => simp only [It.unroll1, stepNext]; exact repeatedNext_unroll hR m a _ _ st n _
        | _ => rfl
      | _ => rfl
    | _ => cases ist <;> rfl
end steps

/-! ### the simulation at every fuel -/

/-- The three runners at fuel `n` on `env` agree with the runners at the same fuel on the `d`-fold unrolled syntax
    (`d ≥ n`), under any definition table `ds` that is not longer than `env.defs` (so that an undefined `call k` is
    undefined on both sides). -/
theorem run_unroll_all (env : Env) (ds : List G) (hds : ds.length ≤ env.defs.length) : ∀ (n d : Nat), n ≤ d →
    USimR (unrollD env.defs d) env ds (run n) (run n) ∧ USimN (unrollD env.defs d) env ds (next n) (next n) ∧
      USimK (unrollD env.defs d) env ds (mkIter n) (mkIter n) := by
  intro n
  induction n with
  | zero => intro d _; exact ⟨fun _ _ _ => rfl, fun _ _ _ _ => rfl, fun _ _ _ => rfl⟩
  | succ n ih =>
    intro d hd
    obtain ⟨hR, hN, hK⟩ := ih d (Nat.le_of_succ_le hd)
    refine ⟨?_, stepNext_unroll hR hN hK, stepMk_unroll hR hK⟩
    intro m g st
    by_cases hc : ∃ k, g = .call k
    · obtain ⟨k, rfl⟩ := hc
      obtain ⟨d', rfl⟩ : ∃ d', d = d' + 1 := ⟨d - 1, by omega⟩
      have ih' := (ih d' (by omega)).1
      show step _ _ _ _ env m (.call k) st = step _ _ _ _ _ m (G.unroll1 _ (.call k)) st
      simp only [G.unroll1, unrollD]
      cases hk : env.defs[k]? with
      | some b => simp only [step, hk]; exact ih' m b st
      | none =>
        have : ds[k]? = none := by
          rw [List.getElem?_eq_none_iff] at hk ⊢; omega
        simp only [step, hk, Env.withDefs_defs, this]
    · exact step_unroll hR hN hK n m g st (fun k h => hc ⟨k, h⟩)

/-- **C12.** Running `g` with the definition table `env.defs` at fuel `n` is running the grammar in which every
    reference is expanded `d ≥ n` levels deep, with an empty definition table: same outcome, value and state. -/
theorem run_unroll {n d : Nat} (h : d ≥ n) (env : Env) (m : Mode) (g : G) (st : St) :
    run n env m g st = run n { env with defs := [] } m (g.unroll env.defs d) st :=
  (run_unroll_all env [] (Nat.zero_le _) n d h).1 m g st

theorem next_unroll {n d : Nat} (h : d ≥ n) (env : Env) (m : Mode) (it : It) (st : St) (ist : ItSt) :
    next n env m it st ist = next n { env with defs := [] } m (it.unroll env.defs d) st ist :=
  (run_unroll_all env [] (Nat.zero_le _) n d h).2.1 m it st ist

theorem mkIter_unroll {n d : Nat} (h : d ≥ n) (env : Env) (m : Mode) (it : It) (st : St) :
    mkIter n env m it st = mkIter n { env with defs := [] } m (it.unroll env.defs d) st :=
  (run_unroll_all env [] (Nat.zero_le _) n d h).2.2 m it st

/-- the definition table of the second run is irrelevant as long as it is not longer than the original one -/
theorem run_unroll_defs {n d : Nat} (h : d ≥ n) (env : Env) (ds : List G) (hds : ds.length ≤ env.defs.length)
    (m : Mode) (g : G) (st : St) :
    run n env m g st = run n { env with defs := ds } m (g.unroll env.defs d) st :=
  (run_unroll_all env ds hds n d h).1 m g st

theorem parseTop_unroll (n : Nat) (env : Env) (m : Mode) (g : G) :
    parseTop n env m g = parseTop n { env with defs := [] } m (g.unroll env.defs n) := by
  have h := run_unroll (Nat.le_refl n) env m (.thenIgnore g .end_) St.init
  simp only [G.unroll, G.unroll1] at h
  simp only [parseTop, h]
  rfl

/-! ### the unrolled grammar contains no reference (when every reference is defined) -/

mutual
/-- every `call k` in the grammar has `k < n` -/
def G.callsBelow (n : Nat) : G → Bool
  | .end_ => true
  | .empty => true
  | .any => true
  | .just x0 => true
  | .oneOf x0 => true
  | .noneOf x0 => true
  | .select x0 => true
  | .custom x0 => true
  | .todo => true
  | .then_ x0 x1 => G.callsBelow n x0 && G.callsBelow n x1
  | .ignoreThen x0 x1 => G.callsBelow n x0 && G.callsBelow n x1
  | .thenIgnore x0 x1 => G.callsBelow n x0 && G.callsBelow n x1
  | .delimitedBy x0 x1 x2 => G.callsBelow n x0 && G.callsBelow n x1 && G.callsBelow n x2
  | .paddedBy x0 x1 => G.callsBelow n x0 && G.callsBelow n x1
  | .group x0 => callsBelowL n x0
  | .groupArr x0 => callsBelowL n x0
  | .or_ x0 x1 => G.callsBelow n x0 && G.callsBelow n x1
  | .choice x0 x1 => callsBelowL n x1
  | .orNot x0 => G.callsBelow n x0
  | .not_ x0 => G.callsBelow n x0
  | .andIs x0 x1 => G.callsBelow n x0 && G.callsBelow n x1
  | .rewind x0 => G.callsBelow n x0
  | .map x0 x1 => G.callsBelow n x1
  | .to x0 x1 => G.callsBelow n x1
  | .ignored x0 => G.callsBelow n x0
  | .filter x0 x1 => G.callsBelow n x1
  | .tryMap x0 x1 => G.callsBelow n x1
  | .tryMapWith x0 x1 => G.callsBelow n x1
  | .toSpan x0 => G.callsBelow n x0
  | .toSlice x0 => G.callsBelow n x0
  | .mapWithSpan x0 => G.callsBelow n x0
  | .mapWithState x0 => G.callsBelow n x0
  | .mapWithCtx x0 => G.callsBelow n x0
  | .validate x0 x1 => G.callsBelow n x1
  | .collect x0 x1 => It.callsBelow n x1
  | .collectExactly x0 x1 => It.callsBelow n x1
  | .foldl x0 x1 x2 => G.callsBelow n x1 && It.callsBelow n x2
  | .foldr x0 x1 x2 => It.callsBelow n x1 && G.callsBelow n x2
  | .foldlWith x0 x1 => G.callsBelow n x0 && It.callsBelow n x1
  | .foldrWith x0 x1 => It.callsBelow n x0 && G.callsBelow n x1
  | .iterP x0 => It.callsBelow n x0
  | .recoverVia x0 x1 => G.callsBelow n x0 && G.callsBelow n x1
  | .recoverSkipUntil x0 x1 x2 x3 => G.callsBelow n x0 && G.callsBelow n x1 && G.callsBelow n x2
  | .recoverSkipRetry x0 x1 x2 => G.callsBelow n x0 && G.callsBelow n x1 && G.callsBelow n x2
  | .labelled x0 x1 x2 => G.callsBelow n x2
  | .mapErr x0 x1 => G.callsBelow n x1
  | .withCtx x0 x1 => G.callsBelow n x1
  | .ignoreWithCtx x0 x1 => G.callsBelow n x0 && G.callsBelow n x1
  | .thenWithCtx x0 x1 => G.callsBelow n x0 && G.callsBelow n x1
  | .mapCtx x0 x1 => G.callsBelow n x1
  | .configureJust x0 x1 => true
  | .withState x0 => G.callsBelow n x0
  | .memoized x0 x1 => G.callsBelow n x1
  | .call k => decide (k < n)
  | .boxed x0 => G.callsBelow n x0
def It.callsBelow (n : Nat) : It → Bool
  | .repeated x0 x1 x2 => G.callsBelow n x0
  | .separatedBy x0 x1 x2 x3 x4 x5 => G.callsBelow n x0 && G.callsBelow n x1
  | .enumerate x0 => It.callsBelow n x0
  | .orNotIt x0 => G.callsBelow n x0
  | .intoIter x0 => G.callsBelow n x0
  | .thenIt x0 x1 => It.callsBelow n x0 && It.callsBelow n x1
  | .mapIt x0 x1 => It.callsBelow n x1
  | .configureRep x0 x1 => It.callsBelow n x1
  | .tryConfigureRep x0 x1 => It.callsBelow n x1
def callsBelowL (n : Nat) : List G → Bool
  | [] => true
  | g :: gs => G.callsBelow n g && callsBelowL n gs
end

/-- no `call` node at all -/
abbrev G.callFree (g : G) : Bool := g.callsBelow 0

mutual
theorem G.unroll1_callsBelow (f : Nat → G) (n n' : Nat) (hf : ∀ k, k < n' → (f k).callsBelow n = true) :
    ∀ g : G, g.callsBelow n' = true → (G.unroll1 f g).callsBelow n = true
  | .end_ => fun h => by simp_all [G.callsBelow, It.callsBelow, callsBelowL, G.unroll1, It.unroll1, unroll1L]
  | .empty => fun h => by simp_all [G.callsBelow, It.callsBelow, callsBelowL, G.unroll1, It.unroll1, unroll1L]
  | .any => fun h => by simp_all [G.callsBelow, It.callsBelow, callsBelowL, G.unroll1, It.unroll1, unroll1L]
  | .just x0 => fun h => by simp_all [G.callsBelow, It.callsBelow, callsBelowL, G.unroll1, It.unroll1, unroll1L]
  | .oneOf x0 => fun h => by simp_all [G.callsBelow, It.callsBelow, callsBelowL, G.unroll1, It.unroll1, unroll1L]
  | .noneOf x0 => fun h => by simp_all [G.callsBelow, It.callsBelow, callsBelowL, G.unroll1, It.unroll1, unroll1L]
  | .select x0 => fun h => by simp_all [G.callsBelow, It.callsBelow, callsBelowL, G.unroll1, It.unroll1, unroll1L]
  | .custom x0 => fun h => by simp_all [G.callsBelow, It.callsBelow, callsBelowL, G.unroll1, It.unroll1, unroll1L]
  | .todo => fun h => by simp_all [G.callsBelow, It.callsBelow, callsBelowL, G.unroll1, It.unroll1, unroll1L]
  | .then_ x0 x1 => fun h => by have r0 := G.unroll1_callsBelow f n n' hf x0; have r1 := G.unroll1_callsBelow f n n' hf x1; simp_all [G.callsBelow, It.callsBelow, callsBelowL, G.unroll1, It.unroll1, unroll1L]
  | .ignoreThen x0 x1 => fun h => by have r0 := G.unroll1_callsBelow f n n' hf x0; have r1 := G.unroll1_callsBelow f n n' hf x1; simp_all [G.callsBelow, It.callsBelow, callsBelowL, G.unroll1, It.unroll1, unroll1L]
  | .thenIgnore x0 x1 => fun h => by have r0 := G.unroll1_callsBelow f n n' hf x0; have r1 := G.unroll1_callsBelow f n n' hf x1; simp_all [G.callsBelow, It.callsBelow, callsBelowL, G.unroll1, It.unroll1, unroll1L]
  | .delimitedBy x0 x1 x2 => fun h => by have r0 := G.unroll1_callsBelow f n n' hf x0; have r1 := G.unroll1_callsBelow f n n' hf x1; have r2 := G.unroll1_callsBelow f n n' hf x2; simp_all [G.callsBelow, It.callsBelow, callsBelowL, G.unroll1, It.unroll1, unroll1L]
  | .paddedBy x0 x1 => fun h => by have r0 := G.unroll1_callsBelow f n n' hf x0; have r1 := G.unroll1_callsBelow f n n' hf x1; simp_all [G.callsBelow, It.callsBelow, callsBelowL, G.unroll1, It.unroll1, unroll1L]
  | .group x0 => fun h => by have r0 := unroll1L_callsBelow f n n' hf x0; simp_all [G.callsBelow, It.callsBelow, callsBelowL, G.unroll1, It.unroll1, unroll1L]
  | .groupArr x0 => fun h => by have r0 := unroll1L_callsBelow f n n' hf x0; simp_all [G.callsBelow, It.callsBelow, callsBelowL, G.unroll1, It.unroll1, unroll1L]
  | .or_ x0 x1 => fun h => by have r0 := G.unroll1_callsBelow f n n' hf x0; have r1 := G.unroll1_callsBelow f n n' hf x1; simp_all [G.callsBelow, It.callsBelow, callsBelowL, G.unroll1, It.unroll1, unroll1L]
  | .choice x0 x1 => fun h => by have r0 := unroll1L_callsBelow f n n' hf x1; simp_all [G.callsBelow, It.callsBelow, callsBelowL, G.unroll1, It.unroll1, unroll1L]
  | .orNot x0 => fun h => by have r0 := G.unroll1_callsBelow f n n' hf x0; simp_all [G.callsBelow, It.callsBelow, callsBelowL, G.unroll1, It.unroll1, unroll1L]
  | .not_ x0 => fun h => by have r0 := G.unroll1_callsBelow f n n' hf x0; simp_all [G.callsBelow, It.callsBelow, callsBelowL, G.unroll1, It.unroll1, unroll1L]
  | .andIs x0 x1 => fun h => by have r0 := G.unroll1_callsBelow f n n' hf x0; have r1 := G.unroll1_callsBelow f n n' hf x1; simp_all [G.callsBelow, It.callsBelow, callsBelowL, G.unroll1, It.unroll1, unroll1L]
  | .rewind x0 => fun h => by have r0 := G.unroll1_callsBelow f n n' hf x0; simp_all [G.callsBelow, It.callsBelow, callsBelowL, G.unroll1, It.unroll1, unroll1L]
  | .map x0 x1 => fun h => by have r0 := G.unroll1_callsBelow f n n' hf x1; simp_all [G.callsBelow, It.callsBelow, callsBelowL, G.unroll1, It.unroll1, unroll1L]
  | .to x0 x1 => fun h => by have r0 := G.unroll1_callsBelow f n n' hf x1; simp_all [G.callsBelow, It.callsBelow, callsBelowL, G.unroll1, It.unroll1, unroll1L]
  | .ignored x0 => fun h => by have r0 := G.unroll1_callsBelow f n n' hf x0; simp_all [G.callsBelow, It.callsBelow, callsBelowL, G.unroll1, It.unroll1, unroll1L]
  | .filter x0 x1 => fun h => by have r0 := G.unroll1_callsBelow f n n' hf x1; simp_all [G.callsBelow, It.callsBelow, callsBelowL, G.unroll1, It.unroll1, unroll1L]
  | .tryMap x0 x1 => fun h => by have r0 := G.unroll1_callsBelow f n n' hf x1; simp_all [G.callsBelow, It.callsBelow, callsBelowL, G.unroll1, It.unroll1, unroll1L]
  | .tryMapWith x0 x1 => fun h => by have r0 := G.unroll1_callsBelow f n n' hf x1; simp_all [G.callsBelow, It.callsBelow, callsBelowL, G.unroll1, It.unroll1, unroll1L]
  | .toSpan x0 => fun h => by have r0 := G.unroll1_callsBelow f n n' hf x0; simp_all [G.callsBelow, It.callsBelow, callsBelowL, G.unroll1, It.unroll1, unroll1L]
  | .toSlice x0 => fun h => by have r0 := G.unroll1_callsBelow f n n' hf x0; simp_all [G.callsBelow, It.callsBelow, callsBelowL, G.unroll1, It.unroll1, unroll1L]
  | .mapWithSpan x0 => fun h => by have r0 := G.unroll1_callsBelow f n n' hf x0; simp_all [G.callsBelow, It.callsBelow, callsBelowL, G.unroll1, It.unroll1, unroll1L]
  | .mapWithState x0 => fun h => by have r0 := G.unroll1_callsBelow f n n' hf x0; simp_all [G.callsBelow, It.callsBelow, callsBelowL, G.unroll1, It.unroll1, unroll1L]
  | .mapWithCtx x0 => fun h => by have r0 := G.unroll1_callsBelow f n n' hf x0; simp_all [G.callsBelow, It.callsBelow, callsBelowL, G.unroll1, It.unroll1, unroll1L]
  | .validate x0 x1 => fun h => by have r0 := G.unroll1_callsBelow f n n' hf x1; simp_all [G.callsBelow, It.callsBelow, callsBelowL, G.unroll1, It.unroll1, unroll1L]
  | .collect x0 x1 => fun h => by have r0 := It.unroll1_callsBelow f n n' hf x1; simp_all [G.callsBelow, It.callsBelow, callsBelowL, G.unroll1, It.unroll1, unroll1L]
  | .collectExactly x0 x1 => fun h => by have r0 := It.unroll1_callsBelow f n n' hf x1; simp_all [G.callsBelow, It.callsBelow, callsBelowL, G.unroll1, It.unroll1, unroll1L]
  | .foldl x0 x1 x2 => fun h => by have r0 := G.unroll1_callsBelow f n n' hf x1; have r1 := It.unroll1_callsBelow f n n' hf x2; simp_all [G.callsBelow, It.callsBelow, callsBelowL, G.unroll1, It.unroll1, unroll1L]
  | .foldr x0 x1 x2 => fun h => by have r0 := It.unroll1_callsBelow f n n' hf x1; have r1 := G.unroll1_callsBelow f n n' hf x2; simp_all [G.callsBelow, It.callsBelow, callsBelowL, G.unroll1, It.unroll1, unroll1L]
  | .foldlWith x0 x1 => fun h => by have r0 := G.unroll1_callsBelow f n n' hf x0; have r1 := It.unroll1_callsBelow f n n' hf x1; simp_all [G.callsBelow, It.callsBelow, callsBelowL, G.unroll1, It.unroll1, unroll1L]
  | .foldrWith x0 x1 => fun h => by have r0 := It.unroll1_callsBelow f n n' hf x0; have r1 := G.unroll1_callsBelow f n n' hf x1; simp_all [G.callsBelow, It.callsBelow, callsBelowL, G.unroll1, It.unroll1, unroll1L]
  | .iterP x0 => fun h => by have r0 := It.unroll1_callsBelow f n n' hf x0; simp_all [G.callsBelow, It.callsBelow, callsBelowL, G.unroll1, It.unroll1, unroll1L]
  | .recoverVia x0 x1 => fun h => by have r0 := G.unroll1_callsBelow f n n' hf x0; have r1 := G.unroll1_callsBelow f n n' hf x1; simp_all [G.callsBelow, It.callsBelow, callsBelowL, G.unroll1, It.unroll1, unroll1L]
  | .recoverSkipUntil x0 x1 x2 x3 => fun h => by have r0 := G.unroll1_callsBelow f n n' hf x0; have r1 := G.unroll1_callsBelow f n n' hf x1; have r2 := G.unroll1_callsBelow f n n' hf x2; simp_all [G.callsBelow, It.callsBelow, callsBelowL, G.unroll1, It.unroll1, unroll1L]
  | .recoverSkipRetry x0 x1 x2 => fun h => by have r0 := G.unroll1_callsBelow f n n' hf x0; have r1 := G.unroll1_callsBelow f n n' hf x1; have r2 := G.unroll1_callsBelow f n n' hf x2; simp_all [G.callsBelow, It.callsBelow, callsBelowL, G.unroll1, It.unroll1, unroll1L]
  | .labelled x0 x1 x2 => fun h => by have r0 := G.unroll1_callsBelow f n n' hf x2; simp_all [G.callsBelow, It.callsBelow, callsBelowL, G.unroll1, It.unroll1, unroll1L]
  | .mapErr x0 x1 => fun h => by have r0 := G.unroll1_callsBelow f n n' hf x1; simp_all [G.callsBelow, It.callsBelow, callsBelowL, G.unroll1, It.unroll1, unroll1L]
  | .withCtx x0 x1 => fun h => by have r0 := G.unroll1_callsBelow f n n' hf x1; simp_all [G.callsBelow, It.callsBelow, callsBelowL, G.unroll1, It.unroll1, unroll1L]
  | .ignoreWithCtx x0 x1 => fun h => by have r0 := G.unroll1_callsBelow f n n' hf x0; have r1 := G.unroll1_callsBelow f n n' hf x1; simp_all [G.callsBelow, It.callsBelow, callsBelowL, G.unroll1, It.unroll1, unroll1L]
  | .thenWithCtx x0 x1 => fun h => by have r0 := G.unroll1_callsBelow f n n' hf x0; have r1 := G.unroll1_callsBelow f n n' hf x1; simp_all [G.callsBelow, It.callsBelow, callsBelowL, G.unroll1, It.unroll1, unroll1L]
  | .mapCtx x0 x1 => fun h => by have r0 := G.unroll1_callsBelow f n n' hf x1; simp_all [G.callsBelow, It.callsBelow, callsBelowL, G.unroll1, It.unroll1, unroll1L]
  | .configureJust x0 x1 => fun h => by simp_all [G.callsBelow, It.callsBelow, callsBelowL, G.unroll1, It.unroll1, unroll1L]
  | .withState x0 => fun h => by have r0 := G.unroll1_callsBelow f n n' hf x0; simp_all [G.callsBelow, It.callsBelow, callsBelowL, G.unroll1, It.unroll1, unroll1L]
  | .memoized x0 x1 => fun h => by have r0 := G.unroll1_callsBelow f n n' hf x1; simp_all [G.callsBelow, It.callsBelow, callsBelowL, G.unroll1, It.unroll1, unroll1L]
  | .call k => fun h => by simp only [G.callsBelow, decide_eq_true_eq] at h; exact hf k h
  | .boxed x0 => fun h => by have r0 := G.unroll1_callsBelow f n n' hf x0; simp_all [G.callsBelow, It.callsBelow, callsBelowL, G.unroll1, It.unroll1, unroll1L]
theorem It.unroll1_callsBelow (f : Nat → G) (n n' : Nat) (hf : ∀ k, k < n' → (f k).callsBelow n = true) :
    ∀ it : It, it.callsBelow n' = true → (It.unroll1 f it).callsBelow n = true
  | .repeated x0 x1 x2 => fun h => by have r0 := G.unroll1_callsBelow f n n' hf x0; simp_all [G.callsBelow, It.callsBelow, callsBelowL, G.unroll1, It.unroll1, unroll1L]
  | .separatedBy x0 x1 x2 x3 x4 x5 => fun h => by have r0 := G.unroll1_callsBelow f n n' hf x0; have r1 := G.unroll1_callsBelow f n n' hf x1; simp_all [G.callsBelow, It.callsBelow, callsBelowL, G.unroll1, It.unroll1, unroll1L]
  | .enumerate x0 => fun h => by have r0 := It.unroll1_callsBelow f n n' hf x0; simp_all [G.callsBelow, It.callsBelow, callsBelowL, G.unroll1, It.unroll1, unroll1L]
  | .orNotIt x0 => fun h => by have r0 := G.unroll1_callsBelow f n n' hf x0; simp_all [G.callsBelow, It.callsBelow, callsBelowL, G.unroll1, It.unroll1, unroll1L]
  | .intoIter x0 => fun h => by have r0 := G.unroll1_callsBelow f n n' hf x0; simp_all [G.callsBelow, It.callsBelow, callsBelowL, G.unroll1, It.unroll1, unroll1L]
  | .thenIt x0 x1 => fun h => by have r0 := It.unroll1_callsBelow f n n' hf x0; have r1 := It.unroll1_callsBelow f n n' hf x1; simp_all [G.callsBelow, It.callsBelow, callsBelowL, G.unroll1, It.unroll1, unroll1L]
  | .mapIt x0 x1 => fun h => by have r0 := It.unroll1_callsBelow f n n' hf x1; simp_all [G.callsBelow, It.callsBelow, callsBelowL, G.unroll1, It.unroll1, unroll1L]
  | .configureRep x0 x1 => fun h => by have r0 := It.unroll1_callsBelow f n n' hf x1; simp_all [G.callsBelow, It.callsBelow, callsBelowL, G.unroll1, It.unroll1, unroll1L]
  | .tryConfigureRep x0 x1 => fun h => by have r0 := It.unroll1_callsBelow f n n' hf x1; simp_all [G.callsBelow, It.callsBelow, callsBelowL, G.unroll1, It.unroll1, unroll1L]
theorem unroll1L_callsBelow (f : Nat → G) (n n' : Nat) (hf : ∀ k, k < n' → (f k).callsBelow n = true) :
    ∀ gs : List G, callsBelowL n' gs = true → callsBelowL n (unroll1L f gs) = true
  | [] => fun _ => rfl
  | g :: gs => fun h => by have r0 := G.unroll1_callsBelow f n n' hf g; have r1 := unroll1L_callsBelow f n n' hf gs; simp_all [G.callsBelow, It.callsBelow, callsBelowL, G.unroll1, It.unroll1, unroll1L]
end

mutual
theorem G.unroll1_callFree (f : Nat → G) : ∀ g : G, g.callsBelow 0 = true → G.unroll1 f g = g
  | .end_ => fun h => by simp_all [G.callsBelow, It.callsBelow, callsBelowL, G.unroll1, It.unroll1, unroll1L]
  | .empty => fun h => by simp_all [G.callsBelow, It.callsBelow, callsBelowL, G.unroll1, It.unroll1, unroll1L]
  | .any => fun h => by simp_all [G.callsBelow, It.callsBelow, callsBelowL, G.unroll1, It.unroll1, unroll1L]
  | .just x0 => fun h => by simp_all [G.callsBelow, It.callsBelow, callsBelowL, G.unroll1, It.unroll1, unroll1L]
  | .oneOf x0 => fun h => by simp_all [G.callsBelow, It.callsBelow, callsBelowL, G.unroll1, It.unroll1, unroll1L]
  | .noneOf x0 => fun h => by simp_all [G.callsBelow, It.callsBelow, callsBelowL, G.unroll1, It.unroll1, unroll1L]
  | .select x0 => fun h => by simp_all [G.callsBelow, It.callsBelow, callsBelowL, G.unroll1, It.unroll1, unroll1L]
  | .custom x0 => fun h => by simp_all [G.callsBelow, It.callsBelow, callsBelowL, G.unroll1, It.unroll1, unroll1L]
  | .todo => fun h => by simp_all [G.callsBelow, It.callsBelow, callsBelowL, G.unroll1, It.unroll1, unroll1L]
  | .then_ x0 x1 => fun h => by have r0 := G.unroll1_callFree f x0; have r1 := G.unroll1_callFree f x1; simp_all [G.callsBelow, It.callsBelow, callsBelowL, G.unroll1, It.unroll1, unroll1L]
  | .ignoreThen x0 x1 => fun h => by have r0 := G.unroll1_callFree f x0; have r1 := G.unroll1_callFree f x1; simp_all [G.callsBelow, It.callsBelow, callsBelowL, G.unroll1, It.unroll1, unroll1L]
  | .thenIgnore x0 x1 => fun h => by have r0 := G.unroll1_callFree f x0; have r1 := G.unroll1_callFree f x1; simp_all [G.callsBelow, It.callsBelow, callsBelowL, G.unroll1, It.unroll1, unroll1L]
  | .delimitedBy x0 x1 x2 => fun h => by have r0 := G.unroll1_callFree f x0; have r1 := G.unroll1_callFree f x1; have r2 := G.unroll1_callFree f x2; simp_all [G.callsBelow, It.callsBelow, callsBelowL, G.unroll1, It.unroll1, unroll1L]
  | .paddedBy x0 x1 => fun h => by have r0 := G.unroll1_callFree f x0; have r1 := G.unroll1_callFree f x1; simp_all [G.callsBelow, It.callsBelow, callsBelowL, G.unroll1, It.unroll1, unroll1L]
  | .group x0 => fun h => by have r0 := unroll1L_callFree f x0; simp_all [G.callsBelow, It.callsBelow, callsBelowL, G.unroll1, It.unroll1, unroll1L]
  | .groupArr x0 => fun h => by have r0 := unroll1L_callFree f x0; simp_all [G.callsBelow, It.callsBelow, callsBelowL, G.unroll1, It.unroll1, unroll1L]
  | .or_ x0 x1 => fun h => by have r0 := G.unroll1_callFree f x0; have r1 := G.unroll1_callFree f x1; simp_all [G.callsBelow, It.callsBelow, callsBelowL, G.unroll1, It.unroll1, unroll1L]
  | .choice x0 x1 => fun h => by have r0 := unroll1L_callFree f x1; simp_all [G.callsBelow, It.callsBelow, callsBelowL, G.unroll1, It.unroll1, unroll1L]
  | .orNot x0 => fun h => by have r0 := G.unroll1_callFree f x0; simp_all [G.callsBelow, It.callsBelow, callsBelowL, G.unroll1, It.unroll1, unroll1L]
  | .not_ x0 => fun h => by have r0 := G.unroll1_callFree f x0; simp_all [G.callsBelow, It.callsBelow, callsBelowL, G.unroll1, It.unroll1, unroll1L]
  | .andIs x0 x1 => fun h => by have r0 := G.unroll1_callFree f x0; have r1 := G.unroll1_callFree f x1; simp_all [G.callsBelow, It.callsBelow, callsBelowL, G.unroll1, It.unroll1, unroll1L]
  | .rewind x0 => fun h => by have r0 := G.unroll1_callFree f x0; simp_all [G.callsBelow, It.callsBelow, callsBelowL, G.unroll1, It.unroll1, unroll1L]
  | .map x0 x1 => fun h => by have r0 := G.unroll1_callFree f x1; simp_all [G.callsBelow, It.callsBelow, callsBelowL, G.unroll1, It.unroll1, unroll1L]
  | .to x0 x1 => fun h => by have r0 := G.unroll1_callFree f x1; simp_all [G.callsBelow, It.callsBelow, callsBelowL, G.unroll1, It.unroll1, unroll1L]
  | .ignored x0 => fun h => by have r0 := G.unroll1_callFree f x0; simp_all [G.callsBelow, It.callsBelow, callsBelowL, G.unroll1, It.unroll1, unroll1L]
  | .filter x0 x1 => fun h => by have r0 := G.unroll1_callFree f x1; simp_all [G.callsBelow, It.callsBelow, callsBelowL, G.unroll1, It.unroll1, unroll1L]
  | .tryMap x0 x1 => fun h => by have r0 := G.unroll1_callFree f x1; simp_all [G.callsBelow, It.callsBelow, callsBelowL, G.unroll1, It.unroll1, unroll1L]
  | .tryMapWith x0 x1 => fun h => by have r0 := G.unroll1_callFree f x1; simp_all [G.callsBelow, It.callsBelow, callsBelowL, G.unroll1, It.unroll1, unroll1L]
  | .toSpan x0 => fun h => by have r0 := G.unroll1_callFree f x0; simp_all [G.callsBelow, It.callsBelow, callsBelowL, G.unroll1, It.unroll1, unroll1L]
  | .toSlice x0 => fun h => by have r0 := G.unroll1_callFree f x0; simp_all [G.callsBelow, It.callsBelow, callsBelowL, G.unroll1, It.unroll1, unroll1L]
  | .mapWithSpan x0 => fun h => by have r0 := G.unroll1_callFree f x0; simp_all [G.callsBelow, It.callsBelow, callsBelowL, G.unroll1, It.unroll1, unroll1L]
  | .mapWithState x0 => fun h => by have r0 := G.unroll1_callFree f x0; simp_all [G.callsBelow, It.callsBelow, callsBelowL, G.unroll1, It.unroll1, unroll1L]
  | .mapWithCtx x0 => fun h => by have r0 := G.unroll1_callFree f x0; simp_all [G.callsBelow, It.callsBelow, callsBelowL, G.unroll1, It.unroll1, unroll1L]
  | .validate x0 x1 => fun h => by have r0 := G.unroll1_callFree f x1; simp_all [G.callsBelow, It.callsBelow, callsBelowL, G.unroll1, It.unroll1, unroll1L]
  | .collect x0 x1 => fun h => by have r0 := It.unroll1_callFree f x1; simp_all [G.callsBelow, It.callsBelow, callsBelowL, G.unroll1, It.unroll1, unroll1L]
  | .collectExactly x0 x1 => fun h => by have r0 := It.unroll1_callFree f x1; simp_all [G.callsBelow, It.callsBelow, callsBelowL, G.unroll1, It.unroll1, unroll1L]
  | .foldl x0 x1 x2 => fun h => by have r0 := G.unroll1_callFree f x1; have r1 := It.unroll1_callFree f x2; simp_all [G.callsBelow, It.callsBelow, callsBelowL, G.unroll1, It.unroll1, unroll1L]
  | .foldr x0 x1 x2 => fun h => by have r0 := It.unroll1_callFree f x1; have r1 := G.unroll1_callFree f x2; simp_all [G.callsBelow, It.callsBelow, callsBelowL, G.unroll1, It.unroll1, unroll1L]
  | .foldlWith x0 x1 => fun h => by have r0 := G.unroll1_callFree f x0; have r1 := It.unroll1_callFree f x1; simp_all [G.callsBelow, It.callsBelow, callsBelowL, G.unroll1, It.unroll1, unroll1L]
  | .foldrWith x0 x1 => fun h => by have r0 := It.unroll1_callFree f x0; have r1 := G.unroll1_callFree f x1; simp_all [G.callsBelow, It.callsBelow, callsBelowL, G.unroll1, It.unroll1, unroll1L]
  | .iterP x0 => fun h => by have r0 := It.unroll1_callFree f x0; simp_all [G.callsBelow, It.callsBelow, callsBelowL, G.unroll1, It.unroll1, unroll1L]
  | .recoverVia x0 x1 => fun h => by have r0 := G.unroll1_callFree f x0; have r1 := G.unroll1_callFree f x1; simp_all [G.callsBelow, It.callsBelow, callsBelowL, G.unroll1, It.unroll1, unroll1L]
  | .recoverSkipUntil x0 x1 x2 x3 => fun h => by have r0 := G.unroll1_callFree f x0; have r1 := G.unroll1_callFree f x1; have r2 := G.unroll1_callFree f x2; simp_all [G.callsBelow, It.callsBelow, callsBelowL, G.unroll1, It.unroll1, unroll1L]
  | .recoverSkipRetry x0 x1 x2 => fun h => by have r0 := G.unroll1_callFree f x0; have r1 := G.unroll1_callFree f x1; have r2 := G.unroll1_callFree f x2; simp_all [G.callsBelow, It.callsBelow, callsBelowL, G.unroll1, It.unroll1, unroll1L]
  | .labelled x0 x1 x2 => fun h => by have r0 := G.unroll1_callFree f x2; simp_all [G.callsBelow, It.callsBelow, callsBelowL, G.unroll1, It.unroll1, unroll1L]
  | .mapErr x0 x1 => fun h => by have r0 := G.unroll1_callFree f x1; simp_all [G.callsBelow, It.callsBelow, callsBelowL, G.unroll1, It.unroll1, unroll1L]
  | .withCtx x0 x1 => fun h => by have r0 := G.unroll1_callFree f x1; simp_all [G.callsBelow, It.callsBelow, callsBelowL, G.unroll1, It.unroll1, unroll1L]
  | .ignoreWithCtx x0 x1 => fun h => by have r0 := G.unroll1_callFree f x0; have r1 := G.unroll1_callFree f x1; simp_all [G.callsBelow, It.callsBelow, callsBelowL, G.unroll1, It.unroll1, unroll1L]
  | .thenWithCtx x0 x1 => fun h => by have r0 := G.unroll1_callFree f x0; have r1 := G.unroll1_callFree f x1; simp_all [G.callsBelow, It.callsBelow, callsBelowL, G.unroll1, It.unroll1, unroll1L]
  | .mapCtx x0 x1 => fun h => by have r0 := G.unroll1_callFree f x1; simp_all [G.callsBelow, It.callsBelow, callsBelowL, G.unroll1, It.unroll1, unroll1L]
  | .configureJust x0 x1 => fun h => by simp_all [G.callsBelow, It.callsBelow, callsBelowL, G.unroll1, It.unroll1, unroll1L]
  | .withState x0 => fun h => by have r0 := G.unroll1_callFree f x0; simp_all [G.callsBelow, It.callsBelow, callsBelowL, G.unroll1, It.unroll1, unroll1L]
  | .memoized x0 x1 => fun h => by have r0 := G.unroll1_callFree f x1; simp_all [G.callsBelow, It.callsBelow, callsBelowL, G.unroll1, It.unroll1, unroll1L]
  | .call k => fun h => by simp [G.callsBelow] at h
  | .boxed x0 => fun h => by have r0 := G.unroll1_callFree f x0; simp_all [G.callsBelow, It.callsBelow, callsBelowL, G.unroll1, It.unroll1, unroll1L]
theorem It.unroll1_callFree (f : Nat → G) : ∀ it : It, it.callsBelow 0 = true → It.unroll1 f it = it
  | .repeated x0 x1 x2 => fun h => by have r0 := G.unroll1_callFree f x0; simp_all [G.callsBelow, It.callsBelow, callsBelowL, G.unroll1, It.unroll1, unroll1L]
  | .separatedBy x0 x1 x2 x3 x4 x5 => fun h => by have r0 := G.unroll1_callFree f x0; have r1 := G.unroll1_callFree f x1; simp_all [G.callsBelow, It.callsBelow, callsBelowL, G.unroll1, It.unroll1, unroll1L]
  | .enumerate x0 => fun h => by have r0 := It.unroll1_callFree f x0; simp_all [G.callsBelow, It.callsBelow, callsBelowL, G.unroll1, It.unroll1, unroll1L]
  | .orNotIt x0 => fun h => by have r0 := G.unroll1_callFree f x0; simp_all [G.callsBelow, It.callsBelow, callsBelowL, G.unroll1, It.unroll1, unroll1L]
  | .intoIter x0 => fun h => by have r0 := G.unroll1_callFree f x0; simp_all [G.callsBelow, It.callsBelow, callsBelowL, G.unroll1, It.unroll1, unroll1L]
  | .thenIt x0 x1 => fun h => by have r0 := It.unroll1_callFree f x0; have r1 := It.unroll1_callFree f x1; simp_all [G.callsBelow, It.callsBelow, callsBelowL, G.unroll1, It.unroll1, unroll1L]
  | .mapIt x0 x1 => fun h => by have r0 := It.unroll1_callFree f x1; simp_all [G.callsBelow, It.callsBelow, callsBelowL, G.unroll1, It.unroll1, unroll1L]
  | .configureRep x0 x1 => fun h => by have r0 := It.unroll1_callFree f x1; simp_all [G.callsBelow, It.callsBelow, callsBelowL, G.unroll1, It.unroll1, unroll1L]
  | .tryConfigureRep x0 x1 => fun h => by have r0 := It.unroll1_callFree f x1; simp_all [G.callsBelow, It.callsBelow, callsBelowL, G.unroll1, It.unroll1, unroll1L]
theorem unroll1L_callFree (f : Nat → G) : ∀ gs : List G, callsBelowL 0 gs = true → unroll1L f gs = gs
  | [] => fun _ => rfl
  | g :: gs => fun h => by have r0 := G.unroll1_callFree f g; have r1 := unroll1L_callFree f gs; simp_all [G.callsBelow, It.callsBelow, callsBelowL, G.unroll1, It.unroll1, unroll1L]
end

theorem callsBelowL_getElem (n : Nat) : ∀ (gs : List G) (k : Nat) (b : G), callsBelowL n gs = true → gs[k]? = some b →
    b.callsBelow n = true
  | [], k, b, _, h => by simp at h
  | g :: gs, 0, b, hc, h => by
    simp only [callsBelowL, Bool.and_eq_true] at hc
    simp only [List.getElem?_cons_zero, Option.some.injEq] at h
    exact h ▸ hc.1
  | g :: gs, k + 1, b, hc, h => by
    simp only [callsBelowL, Bool.and_eq_true] at hc
    simp only [List.getElem?_cons_succ] at h
    exact callsBelowL_getElem n gs k b hc.2 h

/-- a closed definition table (`callsBelowL defs.length defs`): every expanded definition is call-free -/
theorem unrollD_callFree (defs : List G) (hd : callsBelowL defs.length defs = true) :
    ∀ (d k : Nat), k < defs.length → (unrollD defs d k).callFree = true
  | 0, k, _ => rfl
  | d + 1, k, hk => by
    have hb : defs[k]? = some defs[k] := List.getElem?_eq_getElem hk
    simp only [G.callFree, unrollD, hb, G.callsBelow]
    exact G.unroll1_callsBelow _ 0 defs.length (unrollD_callFree defs hd d) _ (callsBelowL_getElem _ _ _ _ hd hb)

theorem G.unroll_callFree (defs : List G) (hd : callsBelowL defs.length defs = true) (d : Nat) (g : G)
    (hg : g.callsBelow defs.length = true) : (g.unroll defs d).callFree = true :=
  G.unroll1_callsBelow _ 0 defs.length (unrollD_callFree defs hd d) g hg

theorem It.unroll_callFree (defs : List G) (hd : callsBelowL defs.length defs = true) (d : Nat) (it : It)
    (hg : it.callsBelow defs.length = true) : (it.unroll defs d).callsBelow 0 = true :=
  It.unroll1_callsBelow _ 0 defs.length (unrollD_callFree defs hd d) it hg

/-- a call-free grammar does not look at the definition table -/
theorem run_callFree_defs (n : Nat) (env : Env) (ds : List G) (m : Mode) (g : G) (hg : g.callFree = true) (st : St) :
    run n env m g st = run n { env with defs := ds } m g st := by
  have h1 := (run_unroll_all env [] (Nat.zero_le _) n n (Nat.le_refl _)).1 m g st
  have h2 := (run_unroll_all (env.withDefs ds) [] (Nat.zero_le _) n n (Nat.le_refl _)).1 m g st
  rw [G.unroll1_callFree _ g hg] at h1 h2
  exact h1.trans h2.symm

/-- **C12**, closed form: for a closed definition table the recursive parser is, at every fuel `n`, the call-free
    (finite, non-recursive) grammar obtained by expanding the references `d ≥ n` levels deep — whatever table the
    second run is given. -/
theorem run_unroll_closed {n d : Nat} (h : d ≥ n) (env : Env) (hd : callsBelowL env.defs.length env.defs = true)
    (m : Mode) (g : G) (hg : g.callsBelow env.defs.length = true) (ds : List G) (st : St) :
    (g.unroll env.defs d).callFree = true ∧
      run n env m g st = run n { env with defs := ds } m (g.unroll env.defs d) st :=
  ⟨G.unroll_callFree _ hd d g hg,
   (run_unroll h env m g st).trans
     (run_callFree_defs n { env with defs := [] } ds m _ (G.unroll_callFree _ hd d g hg) st)⟩

/-! ### sanity: `expr := 1 expr | 2` on `1 1 2` -/

section sanity
private def exDefs : List G := [.or_ (.then_ (.just [1]) (.call 0)) (.just [2])]
private def exEnv : Env := { toks := [1, 1, 2], defs := exDefs }

example : (G.call 0).unroll exDefs 1 = .boxed (.or_ (.then_ (.just [1]) .todo) (.just [2])) := rfl
example : (G.call 0).unroll exDefs 2 =
    .boxed (.or_ (.then_ (.just [1]) (.boxed (.or_ (.then_ (.just [1]) .todo) (.just [2])))) (.just [2])) := rfl
example : ((G.call 0).unroll exDefs 5).callFree = true := by decide
end sanity

#print axioms run_unroll
#print axioms next_unroll
#print axioms mkIter_unroll
#print axioms run_unroll_defs
#print axioms parseTop_unroll
#print axioms G.unroll_callFree
#print axioms run_callFree_defs
#print axioms run_unroll_closed
end Chumsky
