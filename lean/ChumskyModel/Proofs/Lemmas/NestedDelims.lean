/-
  Proofs/Lemmas/NestedDelims.lean — what `nested_delimiters` consumes is exactly one balanced delimited region.

  `BalAt env skip pairs p q`: the tokens in `[p, q)` are a sequence of plain tokens (none of them a delimiter) and of
  delimited blocks `o … c` with `(o, c)` one of the pairs and a balanced inside.
-/
import ChumskyModel.Model.Delims
import ChumskyModel.Proofs.Lemmas.RepSpec
set_option linter.unusedSimpArgs false
set_option linter.unusedVariables false
namespace Chumsky

inductive BalAt (env : Env) (skip : List Nat) (pairs : List (Nat × Nat)) : Nat → Nat → Prop
  | nil (p : Nat) : BalAt env skip pairs p p
  | tok {p q t : Nat} : env.toks[p]? = some t → skip.contains t = false → BalAt env skip pairs (p + 1) q →
      BalAt env skip pairs p q
  | block {p q r o c : Nat} : (o, c) ∈ pairs → env.toks[p]? = some o → BalAt env skip pairs (p + 1) q →
      env.toks[q]? = some c → BalAt env skip pairs (q + 1) r → BalAt env skip pairs p r

theorem BalAt.le {env skip pairs p q} (h : BalAt env skip pairs p q) : p ≤ q := by
  induction h with
  | nil => exact Nat.le_refl _
  | tok _ _ _ ih => omega
  | block _ _ _ _ _ ih1 ih2 => omega

theorem BalAt.trans {env skip pairs p q r} (h1 : BalAt env skip pairs p q) (h2 : BalAt env skip pairs q r) :
    BalAt env skip pairs p r := by
  induction h1 with
  | nil => exact h2
  | tok ht hs _ ih => exact .tok ht hs (ih h2)
  | block hp ho hin hc _ _ ih2 => exact .block hp ho hin hc (ih2 h2)

/-- one delimited region `o inside c` -/
def Region (env : Env) (skip : List Nat) (pairs : List (Nat × Nat)) (o c : Nat) (p r : Nat) : Prop :=
  ∃ q, env.toks[p]? = some o ∧ BalAt env skip pairs (p + 1) q ∧ env.toks[q]? = some c ∧ r = q + 1

/-! ### the same as a statement about token lists -/

/-- a balanced token sequence: plain tokens (no delimiter among them) and delimited blocks with a balanced inside -/
inductive Balanced (skip : List Nat) (pairs : List (Nat × Nat)) : List Nat → Prop
  | nil : Balanced skip pairs []
  | tok {t : Nat} {rest : List Nat} : skip.contains t = false → Balanced skip pairs rest → Balanced skip pairs (t :: rest)
  | block {o c : Nat} {inner rest : List Nat} : (o, c) ∈ pairs → Balanced skip pairs inner → Balanced skip pairs rest →
      Balanced skip pairs (o :: (inner ++ c :: rest))

/-- the tokens in `[p, q)` -/
def Env.seg (env : Env) (p q : Nat) : List Nat := (env.toks.drop p).take (q - p)

theorem seg_self (env : Env) (p : Nat) : env.seg p p = [] := by simp [Env.seg]

theorem seg_cons {env : Env} {p q t : Nat} (ht : env.toks[p]? = some t) (hpq : p < q) :
    env.seg p q = t :: env.seg (p + 1) q := by
  unfold Env.seg
  have hlt : p < env.toks.length := by
    rcases Nat.lt_or_ge p env.toks.length with h | h
    · exact h
    · rw [List.getElem?_eq_none_iff.mpr h] at ht; cases ht
  have hd : env.toks.drop p = t :: env.toks.drop (p + 1) := by
    rw [List.drop_eq_getElem_cons hlt]
    congr 1
    rw [List.getElem?_eq_getElem hlt] at ht
    exact Option.some.inj ht
  rw [hd]
  have : q - p = (q - (p + 1)) + 1 := by omega
  rw [this, List.take_succ_cons]

theorem seg_append (env : Env) {p q r : Nat} (h1 : p ≤ q) (h2 : q ≤ r) : env.seg p r = env.seg p q ++ env.seg q r := by
  unfold Env.seg
  have : r - p = (q - p) + (r - q) := by omega
  rw [this, List.take_add, List.drop_drop]
  congr 3
  omega

theorem BalAt.balanced {env : Env} {skip pairs p q} (h : BalAt env skip pairs p q) : Balanced skip pairs (env.seg p q) := by
  induction h with
  | nil p => rw [seg_self]; exact .nil
  | @tok p q t ht hs hrest ih =>
    have := hrest.le
    rw [seg_cons ht (by omega)]
    exact .tok hs ih
  | @block p q r o c hp ho hin hc hrest ih1 ih2 =>
    have h1 := hin.le
    have h2 := hrest.le
    rw [seg_cons ho (by omega), seg_append env (show p + 1 ≤ q from h1) (show q ≤ r by omega), seg_cons hc (by omega)]
    exact .block hp ih1 ih2

section
variable {env : Env} {ctx : Val}

theorem peg_pos_of_ok {n g s v s' em} (h : peg n env g s ctx = .ok v s' em) : ∃ m, n = m + 1 := by
  cases n with
  | zero => simp [peg] at h
  | succ m => exact ⟨m, rfl⟩

theorem sJust_single {t : Nat} {s s' : SS} (h : sJust env [t] s = some s') :
    env.toks[s.pos]? = some t ∧ s'.pos = s.pos + 1 := by
  simp only [sJust] at h
  cases ht : env.toks[s.pos]? with
  | none => simp [ht] at h
  | some u =>
    simp only [ht] at h
    by_cases hu : (u == t) = true
    · simp only [hu, if_true, Option.some.injEq] at h
      subst h
      exact ⟨by rw [beq_iff_eq] at hu; rw [hu], rfl⟩
    · simp [hu] at h

theorem peg_just_single {n t s v s' em} (h : peg n env (.just [t]) s ctx = .ok v s' em) :
    env.toks[s.pos]? = some t ∧ s'.pos = s.pos + 1 := by
  obtain ⟨m, rfl⟩ := peg_pos_of_ok h
  rw [peg_succ] at h
  simp only [pegStep] at h
  cases hj : sJust env [t] s with
  | none => simp [hj] at h
  | some s1 =>
    simp only [hj, SOut.ok.injEq] at h
    obtain ⟨_, h2, _⟩ := h
    subst h2
    exact sJust_single hj

/-- `block.delimited_by(just(o), just(c))` -/
theorem peg_ndDelim {n K o c s v s' em} (h : peg n env (ndDelim K (o, c)) s ctx = .ok v s' em) :
    ∃ m s1 s2 v2 e2, m < n ∧ env.toks[s.pos]? = some o ∧ s1.pos = s.pos + 1 ∧
      peg m env (.call K) s1 ctx = .ok v2 s2 e2 ∧ env.toks[s2.pos]? = some c ∧ s'.pos = s2.pos + 1 := by
  obtain ⟨m, rfl⟩ := peg_pos_of_ok h
  rw [peg_succ] at h
  simp only [ndDelim, pegStep, SOut.andThen] at h
  cases h1 : peg m env (.just [o]) s ctx <;> simp only [h1, reduceCtorEq] at h
  rename_i v1 s1 e1
  cases h2 : peg m env (.call K) s1 ctx <;> simp only [h2, reduceCtorEq] at h
  rename_i v2 s2 e2
  cases h3 : peg m env (.just [c]) s2 ctx <;> simp only [h3, reduceCtorEq] at h
  rename_i v3 s3 e3
  simp only [SOut.ok.injEq] at h
  obtain ⟨_, hs, _⟩ := h
  subst hs
  obtain ⟨ho, hp1⟩ := peg_just_single h1
  obtain ⟨hc, hp3⟩ := peg_just_single h3
  exact ⟨m, s1, s2, v2, e2, Nat.lt_succ_self _, ho, hp1, h2, hc, hp3⟩

/-- ordered choice of two: the result is the first's or the second's, at smaller fuel -/
theorem peg_or_ok {n a b s v s' em} (h : peg n env (.or_ a b) s ctx = .ok v s' em) :
    ∃ m, m < n ∧ (peg m env a s ctx = .ok v s' em ∨ peg m env b s ctx = .ok v s' em) := by
  obtain ⟨m, rfl⟩ := peg_pos_of_ok h
  rw [peg_succ] at h
  simp only [pegStep, sChoice] at h
  cases ha : peg m env a s ctx <;> simp only [ha, reduceCtorEq] at h
  · simp only [SOut.ok.injEq] at h
    obtain ⟨h1, h2, h3⟩ := h
    subst h1 h2 h3
    exact ⟨m, Nat.lt_succ_self _, .inl ha⟩
  · cases hb : peg m env b s ctx <;> simp only [hb, reduceCtorEq] at h
    simp only [SOut.ok.injEq] at h
    obtain ⟨h1, h2, h3⟩ := h
    subst h1 h2 h3
    exact ⟨m, Nat.lt_succ_self _, .inr hb⟩

/-- the `or` chain over the delimiter pairs: some pair's delimited block matched -/
theorem peg_ndManyBlock {K : Nat} (others : List (Nat × Nat)) :
    ∀ (acc : G) {n s v s' em},
      peg n env (others.foldl (fun acc p => .or_ acc (ndDelim K p)) acc) s ctx = .ok v s' em →
      ∃ m, m ≤ n ∧ (peg m env acc s ctx = .ok v s' em ∨ ∃ p ∈ others, peg m env (ndDelim K p) s ctx = .ok v s' em) := by
  induction others with
  | nil =>
    intro acc n s v s' em h
    exact ⟨n, Nat.le_refl _, .inl h⟩
  | cons p ps ih =>
    intro acc n s v s' em h
    simp only [List.foldl_cons] at h
    obtain ⟨m, hm, hc⟩ := ih (.or_ acc (ndDelim K p)) h
    rcases hc with hor | ⟨q, hq, hok⟩
    · obtain ⟨k, hk, hk'⟩ := peg_or_ok hor
      rcases hk' with ha | hb
      · exact ⟨k, by omega, .inl ha⟩
      · exact ⟨k, by omega, .inr ⟨p, List.mem_cons_self, hb⟩⟩
    · exact ⟨m, hm, .inr ⟨q, List.mem_cons_of_mem _ hq, hok⟩⟩

/-- the plain-token item `any().and_is(none_of(skip)).ignored()` consumes one token that is not a delimiter -/
theorem peg_ndTok {n skip s v s' em} (h : peg n env (.ignored (.andIs .any (.noneOf skip))) s ctx = .ok v s' em) :
    ∃ t, env.toks[s.pos]? = some t ∧ skip.contains t = false ∧ s'.pos = s.pos + 1 := by
  obtain ⟨m, rfl⟩ := peg_pos_of_ok h
  rw [peg_succ] at h
  simp only [pegStep, SOut.andThen] at h
  cases h1 : peg m env (.andIs .any (.noneOf skip)) s ctx <;> simp only [h1, reduceCtorEq] at h
  rename_i v1 s1 e1
  simp only [SOut.ok.injEq] at h
  obtain ⟨_, hs, _⟩ := h
  subst hs
  obtain ⟨k, rfl⟩ := peg_pos_of_ok h1
  rw [peg_succ] at h1
  simp only [pegStep, SOut.andThen] at h1
  cases h2 : peg k env .any s ctx <;> simp only [h2, reduceCtorEq] at h1
  rename_i v2 s2 e2
  cases h3 : peg k env (.noneOf skip) s ctx <;> simp only [h3, reduceCtorEq] at h1
  rename_i v3 s3 e3
  simp only [SOut.ok.injEq] at h1
  obtain ⟨_, hs, _⟩ := h1
  subst hs
  obtain ⟨j, rfl⟩ := peg_pos_of_ok h2
  rw [peg_succ] at h2 h3
  simp only [pegStep, sTokenPrim] at h2 h3
  cases ht : env.toks[s.pos]? with
  | none => simp [ht] at h2
  | some t =>
    simp only [ht, SOut.ok.injEq] at h2
    obtain ⟨_, hs2, _⟩ := h2
    subst hs2
    simp only [ht] at h3
    by_cases hc : skip.contains t = true
    · have hm : t ∈ skip := by simpa using hc
      simp [hm] at h3
    · exact ⟨t, rfl, by simpa using hc, rfl⟩

/-- **the recursive block matches a balanced token sequence** -/
theorem peg_ndBlock_balanced {K : Nat} {first : Nat × Nat} {others : List (Nat × Nat)}
    (hdef : env.defs[K]? = some (ndBlock K first others)) :
    ∀ n {s v s' em}, peg n env (.call K) s ctx = .ok v s' em →
      BalAt env (ndSkip first others) (first :: others) s.pos s'.pos := by
  intro n
  induction n using Nat.strongRecOn with
  | _ n ih =>
    intro s v s' em h
    obtain ⟨m, rfl⟩ := peg_pos_of_ok h
    rw [peg_succ] at h
    simp only [pegStep, hdef] at h
    -- `block` = the unbounded repetition used as a parser
    obtain ⟨m1, rfl⟩ := peg_pos_of_ok h
    obtain ⟨vs, hrun, _⟩ := peg_iterP_repeated_fast (env := env) (ctx := ctx) h
    have hchain := hrun.chain
    -- every item is a plain token or a delimited block whose inside is balanced by the induction hypothesis
    clear hrun h
    induction hchain with
    | nil s => exact .nil _
    | @cons s0 v0 s1 e1 vs s2 e2 hitem _ ihc =>
      refine BalAt.trans ?_ ihc
      obtain ⟨k, hk, hk'⟩ := peg_or_ok hitem
      rcases hk' with hmb | htok
      · obtain ⟨k2, hk2, hc⟩ := peg_ndManyBlock (K := K) others (ndDelim K first) hmb
        have hd : ∃ p ∈ first :: others, peg k2 env (ndDelim K p) s0 ctx = .ok v0 s1 e1 := by
          rcases hc with h1 | ⟨p, hp, h1⟩
          · exact ⟨first, List.mem_cons_self, h1⟩
          · exact ⟨p, List.mem_cons_of_mem _ hp, h1⟩
        obtain ⟨⟨o, c⟩, hp, hok⟩ := hd
        obtain ⟨j, t1, t2, v2, e2', hj, ho, hp1, hcall, hc', hp3⟩ := peg_ndDelim hok
        have hin := ih j (by omega) hcall
        rw [hp1] at hin
        rw [hp3]
        exact .block hp ho hin hc' (.nil _)
      · obtain ⟨t, ht, hs, hp⟩ := peg_ndTok htok
        rw [hp]
        exact .tok ht hs (.nil _)

/-- **`nested_delimiters` consumes exactly one balanced delimited region**: it starts with `start`, ends with `end`, and
    what lies between is balanced with respect to all the delimiter pairs; the output is the span of that region. -/
theorem peg_ndTop_region {K : Nat} {first : Nat × Nat} {others : List (Nat × Nat)}
    (hdef : env.defs[K]? = some (ndBlock K first others)) {n s v s' em}
    (h : peg n env (ndTop K first) s ctx = .ok v s' em) :
    Region env (ndSkip first others) (first :: others) first.1 first.2 s.pos s'.pos ∧
      v = .span (env.mkSpan s.pos s'.pos).1 (env.mkSpan s.pos s'.pos).2 := by
  obtain ⟨m, rfl⟩ := peg_pos_of_ok h
  rw [peg_succ] at h
  simp only [ndTop, pegStep, SOut.andThen] at h
  cases h1 : peg m env (.mapWithSpan (ndDelim K first)) s ctx <;> simp only [h1, reduceCtorEq] at h
  rename_i v1 s1 e1
  simp only [SOut.ok.injEq] at h
  obtain ⟨hv, hs, _⟩ := h
  subst hs
  obtain ⟨k, rfl⟩ := peg_pos_of_ok h1
  rw [peg_succ] at h1
  simp only [pegStep, SOut.andThen] at h1
  cases h2 : peg k env (ndDelim K first) s ctx <;> simp only [h2, reduceCtorEq] at h1
  rename_i v2 s2 e2
  simp only [SOut.ok.injEq] at h1
  obtain ⟨hv1, hs1, _⟩ := h1
  subst hs1
  obtain ⟨j, t1, t2, v3, e3, _, ho, hp1, hcall, hc, hp3⟩ := peg_ndDelim (o := first.1) (c := first.2) h2
  have hin := peg_ndBlock_balanced hdef j hcall
  rw [hp1] at hin
  refine ⟨⟨t2.pos, ho, hin, hc, hp3⟩, ?_⟩
  rw [← hv, ← hv1]
  rfl

end
end Chumsky
