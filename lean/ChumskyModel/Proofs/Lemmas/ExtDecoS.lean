/-
  C17 for grammars with extensions, the strong relation: under the property's proviso (no recovery strategy under a decoration;
  an extension referenced under a decoration is recovery free) erasing the decorations also keeps the SPANS of all errors —
  secondary and pending — through the operator rewinds of `pratt_go` and through the sub-context of `NestedIn::go`.
-/
import ChumskyModel.Proofs.Lemmas.ExtDeco
set_option linter.unusedSimpArgs false
set_option linter.unusedVariables false
namespace Chumsky

theorem innerEnv_envRelS {s b dr : Bool} {env1 env2 : Env} (he : EnvRel s b dr env1 env2) (h : HEnv) (kids : List Nat) :
    EnvRel s b dr (h.innerEnv env1 kids) ((h.erase b).innerEnv env2 kids) where
  toks := rfl
  kind := rfl
  tspans := rfl
  eoi := rfl
  ek1 := he.ek1
  ek2 := he.ek2
  m1 := he.m1
  m2 := he.m2
  defs := he.defs
  adm := he.adm

theorem errRel_rehomeS (p : Nat) {xs ys : List Loc} (h : errRel true xs ys) : errRel true (rehome p xs) (rehome p ys) := by
  unfold errRel at h ⊢
  have := congrArg (List.map (fun q : Sh => ((p, q.2) : Sh))) h
  simpa [rehome, List.map_map, Function.comp_def, Loc.shs] using this

theorem nestedMerge_relS {b dr : Bool} {env1 env2 : Env} {o : Option Sh} (he : EnvRel true b dr env1 env2) {a1 b1 si1 si2 : St}
    (hr : Rel o true a1 b1) (hi : Rel none true si1 si2) :
    Rel o true (nestedMerge env1 a1 si1) (nestedMerge env2 b1 si2) := by
  have base : Rel o true ({ a1 with errs := a1.errs ++ rehome a1.pos si1.errs, insp := si1.insp } : St)
      ({ b1 with errs := b1.errs ++ rehome b1.pos si2.errs, insp := si2.insp } : St) :=
    ⟨hr.pos, hi.insp, hr.ctx, by rw [← hr.pos]; exact hr.errs.append (errRel_rehomeS _ hi.errs), hr.alt⟩
  have halt := hi.alt rfl
  simp only [altRel, comb_none_left] at halt
  unfold nestedMerge
  cases h1 : si1.alt with
  | none =>
    rw [h1] at halt
    cases h2 : si2.alt with
    | none => exact base
    | some y => rw [h2] at halt; cases halt
  | some x =>
    rw [h1] at halt
    cases h2 : si2.alt with
    | none => rw [h2] at halt; cases halt
    | some y =>
      rw [h2] at halt
      dsimp only
      have hsp : x.err.span = y.err.span := by
        have := congrArg (Option.map (fun q : Sh => q.2)) halt
        simpa [Loc.sh] using this.symm
      rw [← hr.pos]
      have base' : Rel o true ({ a1 with errs := a1.errs ++ rehome a1.pos si1.errs, insp := si1.insp } : St)
          ({ b1 with pos := a1.pos, errs := b1.errs ++ rehome a1.pos si2.errs, insp := si2.insp } : St) :=
        ⟨rfl, hi.insp, hr.ctx, hr.errs.append (errRel_rehomeS _ hi.errs), hr.alt⟩
      exact base'.addAltErr he.ek1 he.ek2 a1.pos hsp

/-- a runner pair simulated (strong relation) in every related pair of environments -/
def SimRS (b dr : Bool) (R1 R2 : Runner) : Prop :=
  ∀ env1 env2, EnvRel true b dr env1 env2 → SimR true b dr env1 env2 R1 R2

theorem nestedStep_simS {b dr : Bool} {R1 R2 : Runner} (hR : SimRS b dr R1 R2) {env1 env2 : Env}
    (he : EnvRel true b dr env1 env2) (h : HEnv) (o : Option Sh) (u : Bool) (ha : h.a.adm true b dr u = true)
    (hb : h.b.adm true b dr u = true) (ho : u = false → o = none) (m : Mode) (st1 st2 : St) (hs : Rel o true st1 st2) :
    OutRel o true (nestedStepM R1 h env1 m st1) (nestedStepM R2 (h.erase b) env2 m st2) := by
  unfold nestedStepM
  have hbr := hR env1 env2 he o u .emit h.b st1 st2 hs hb (fun _ => ho)
  have hbe : (h.erase b).b = h.b.erase b := rfl
  rw [hbe]
  rcases OutRel.cases hbr with ⟨vb, a1, b1, e1, e2, hr⟩ | ⟨a1, b1, e1, e2, hr, hsm⟩ | ⟨w, e1, e2⟩ | ⟨e1, e2⟩
  · rw [e1, e2]
    dsimp only
    have hk : (h.erase b).kidsOf vb = h.kidsOf vb := rfl
    rw [hk]
    cases h.kidsOf vb with
    | none => exact .panic _
    | some kids =>
      dsimp only
      have hei := innerEnv_envRelS he h kids
      have hae : (h.erase b).a = h.a.erase b := rfl
      rw [hae]
      have h0 : Rel none true ({ pos := 0, errs := [], alt := none, insp := a1.insp, ctx := a1.ctx, memo := [], log := [] } : St)
          ({ pos := 0, errs := [], alt := none, insp := b1.insp, ctx := b1.ctx, memo := [], log := [] } : St) :=
        ⟨rfl, hr.insp, hr.ctx, rfl, fun _ => rfl⟩
      have har := hR _ _ hei none u m h.a _ _ h0 ha (fun _ _ => rfl)
      unfold innerThenEndM
      rcases OutRel.cases har with ⟨va, i1, i2, f1, f2, hri⟩ | ⟨i1, i2, f1, f2, hri, hsm⟩ | ⟨w, f1, f2⟩ | ⟨f1, f2⟩
      · rw [f1, f2]
        simp only [Out.andThen]
        have hend := hR _ _ hei none u .check .end_ i1 i2 hri (by simp [G.adm]) (fun _ _ => rfl)
        have hee : G.erase b .end_ = .end_ := by simp [G.erase]
        rw [hee] at hend
        rcases OutRel.cases hend with ⟨ve, j1, j2, g1, g2, hrj⟩ | ⟨j1, j2, g1, g2, hrj, hsm⟩ | ⟨w, g1, g2⟩ | ⟨g1, g2⟩
        · rw [g1, g2]; exact .ok _ (nestedMerge_relS he hr hrj)
        · rw [g1, g2]
          exact .fail (nestedMerge_relS he hr hrj)
            ⟨nestedMerge_pending he.ek1 _ _ hsm.1, nestedMerge_pending he.ek2 _ _ hsm.2⟩
        · rw [g1, g2]; exact .panic w
        · rw [g1, g2]; exact .oof
      · rw [f1, f2]
        simp only [Out.andThen]
        exact .fail (nestedMerge_relS he hr hri)
          ⟨nestedMerge_pending he.ek1 _ _ hsm.1, nestedMerge_pending he.ek2 _ _ hsm.2⟩
      · rw [f1, f2]; exact .panic w
      · rw [f1, f2]; exact .oof
  · rw [e1, e2]; exact .fail hr hsm
  · rw [e1, e2]; exact .panic w
  · rw [e1, e2]; exact .oof

/-- admissibility of an extension at nesting flag `u` (`u = true`: referenced under a decoration) -/
def Ext.adm (b dr u : Bool) : Ext → Bool
  | .pratt atom ops => atom.adm true b dr u && ops.all (fun op => op.parser.adm true b dr u)
  | .nested a c => a.adm true b dr u && c.adm true b dr u

/-- every extension is admissible where it may be referenced: anywhere outside decorations; under a decoration only if `dr` -/
def EEnv.Adm (b dr : Bool) (e : EEnv) : Prop :=
  ∀ x ∈ e.exts, ∀ u : Bool, (u = false ∨ dr = true) → x.adm b dr u = true

theorem EEnv.find_mem {e : EEnv} {g : G} {x : Ext} (h : e.find g = some x) : x ∈ e.exts := by
  cases g <;> simp [EEnv.find] at h
  exact List.mem_of_getElem? h.2

def AllSimS (b dr : Bool) (R1 R2 : Runner) (N1 N2 : NextRunner) (K1 K2 : MkRunner) : Prop :=
  ∀ env1 env2, EnvRel true b dr env1 env2 →
    SimR true b dr env1 env2 R1 R2 ∧ SimN true b dr env1 env2 N1 N2 ∧ SimK true b dr env1 env2 K1 K2

theorem EEnv.find_call {e : EEnv} {g : G} {x : Ext} (h : e.find g = some x) : ∃ k, g = .call k := by
  cases g <;> simp [EEnv.find] at h
  exact ⟨_, rfl⟩

theorem runE_simS (e : EEnv) (b dr : Bool) (hx : e.Adm b dr) (n : Nat) :
    AllSimS b dr (runE e n) (runE (e.erase b) n) (nextE e n) (nextE (e.erase b) n) (mkIterE e n) (mkIterE (e.erase b) n) := by
  induction n with
  | zero =>
    intro env1 env2 he
    exact ⟨fun _ _ _ _ _ _ _ _ _ => .oof, fun _ _ _ _ _ _ _ _ _ _ => .oof, fun _ _ _ _ _ _ _ _ _ => .oof⟩
  | succ n ih =>
    intro env1 env2 he
    obtain ⟨hR, hN, hK⟩ := ih env1 env2 he
    refine ⟨?_, ?_, ?_⟩
    · intro o u m g st1 st2 hs hg ho
      simp only [runE]
      rw [EEnv.find_erase]
      cases hf : e.find g with
      | none => exact step_sim he hR hN hK n o u m g st1 st2 hs hg ho
      | some x =>
        obtain ⟨k, rfl⟩ := EEnv.find_call hf
        have hu : u = false ∨ dr = true := by
          simp only [G.adm, Bool.not_true, Bool.false_or, Bool.or_eq_true, Bool.not_eq_true'] at hg
          exact hg
        have hxa := hx x (EEnv.find_mem hf) u hu
        cases x with
        | pratt atom ops =>
          simp only [Option.map, Ext.erase]
          simp only [Ext.adm, Bool.and_eq_true, List.all_eq_true] at hxa
          exact prattGo_sim (ok := fun g' => g'.adm true b dr u = true) (fun i j => he.mkSpan i j)
            (fun m' g' a c hok hr => hR o u m' g' a c hr hok ho) m atom ops hxa.1 hxa.2 n 0 st1 st2 hs
        | nested a c =>
          simp only [Option.map, Ext.erase]
          simp only [Ext.adm, Bool.and_eq_true] at hxa
          exact nestedStep_simS (fun e1 e2 he' => (ih e1 e2 he').1) he (e.henv a c) o u hxa.1 hxa.2 (fun hu' => ho rfl hu') m st1 st2 hs
    · simp only [nextE]; exact stepNext_sim he hR hN hK
    · simp only [mkIterE]; exact stepMk_sim he hR hK

/-- **C17 for grammars with extensions, the class of the property**: no recovery strategy under a decoration — in the grammar, in
    the definitions, in the parsers of the extensions (and an extension referenced under a decoration is recovery free): the
    decorated and the undecorated run agree on values, positions, inspector, context, number AND SPANS of the secondary errors,
    position and span of the pending error -/
theorem runE_decoSim (e : EEnv) (n : Nat) (env : Env) (hm : env.memoOn = false) (hek : env.ek ≠ .empty) (dr : Bool)
    (hd : DecoSafeDefs dr env) (hx : e.Adm true dr) (m : Mode) (g : G) (hg : g.decoSafe dr = true) (st1 st2 : St)
    (hs : StSim st1 st2) :
    OutSim (runE e n env m g st1) (runE (e.erase true) n { env with defs := env.defs.map G.eraseDeco } m g.eraseDeco st2) := by
  have := (runE_simS e true dr hx n env _ (envRel_deco true env hm hek dr (fun _ => hd))).1 none false m g st1 st2
    ((StSim_iff _ _).mp hs) hg (fun _ _ => rfl)
  rw [G.erase_true] at this
  exact this.toSim

theorem parseTopE_decoSim (e : EEnv) (n : Nat) (env : Env) (hm : env.memoOn = false) (hek : env.ek ≠ .empty) (dr : Bool)
    (hd : DecoSafeDefs dr env) (hx : e.Adm true dr) (m : Mode) (g : G) (hg : g.decoSafe dr = true) :
    TopSim (parseTopE e n env m g)
      (parseTopE (e.erase true) n { env with defs := env.defs.map G.eraseDeco } m g.eraseDeco) := by
  have h := runE_decoSim e n env hm hek dr hd hx m (.thenIgnore g .end_) (by
    simpa [G.decoSafe, G.adm] using hg) St.init St.init StSim.refl_init
  rw [parseTopE_eq, parseTopE_eq]
  have : (G.thenIgnore g .end_).eraseDeco = .thenIgnore g.eraseDeco .end_ := by simp [G.eraseDeco]
  rw [this] at h
  have ht : ∀ x, topOfE env x = topOf env x := by intro x; cases x <;> rfl
  have ht2 : ∀ x, topOfE { env with defs := env.defs.map G.eraseDeco } x = topOf { env with defs := env.defs.map G.eraseDeco } x := by
    intro x; cases x <;> rfl
  rw [ht, ht2]
  exact topSim_of_outSim (env1 := env) (env2 := { env with defs := env.defs.map G.eraseDeco }) hek hek (fun _ _ => rfl) h


end Chumsky
