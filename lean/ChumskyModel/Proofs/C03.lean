/-
  C03 — parse result contract: whole input, output/error consistency, lazy prefix.
-/
import ChumskyModel.Proofs.Lemmas.Top
import ChumskyModel.Proofs.Lemmas.ExtResult
set_option linter.unusedSimpArgs false
namespace Chumsky

/-- a result without output always carries at least one error (for every grammar, no hypothesis) -/
theorem c03_no_output_has_error (n : Nat) (env : Env) (m : Mode) (g : G) (r : ParseResult) (f : St)
    (h : parseTop n env m g = .result r f) (ho : r.output = none) : r.errs ≠ [] := by
  unfold parseTop at h
  cases hr : run n env m (.thenIgnore g .end_) St.init <;> simp [hr] at h
  · obtain ⟨h1, _⟩ := h; subst h1; simp at ho
  · obtain ⟨h1, _⟩ := h; subst h1; simp

/-- an error-free result always has an output -/
theorem c03_error_free_has_output (n : Nat) (env : Env) (m : Mode) (g : G) (r : ParseResult) (f : St)
    (h : parseTop n env m g = .result r f) (he : r.errs = []) : r.output.isSome = true := by
  cases ho : r.output with
  | some v => rfl
  | none => exact absurd he (c03_no_output_has_error n env m g r f h ho)

/-- a result with errors never converts to `Ok` via `into_result` -/
theorem c03_errors_never_ok (r : ParseResult) (he : r.errs ≠ []) : ∃ es, r.intoResult = .error es := by
  unfold ParseResult.intoResult
  cases h : r.errs with
  | nil => exact absurd h he
  | cons e es => exact ⟨e :: es, by simp [h]⟩

/-- an error-free result converts to `Ok(output)` -/
theorem c03_error_free_ok (n : Nat) (env : Env) (m : Mode) (g : G) (r : ParseResult) (f : St)
    (h : parseTop n env m g = .result r f) (he : r.errs = []) : ∃ v, r.output = some v ∧ r.intoResult = .ok v := by
  have := c03_error_free_has_output n env m g r f h he
  cases ho : r.output with
  | none => simp [ho] at this
  | some v => exact ⟨v, rfl, by simp [ParseResult.intoResult, he, ho]⟩

/-- what `pegTop` succeeding means: the grammar itself matched from position 0 and no token is left -/
theorem pegTop_ok (n : Nat) (env : Env) (g : G) {v s em} (h : pegTop n env g = .ok v s em) :
    ∃ k, n = k + 2 ∧ peg (k + 1) env g ⟨0, []⟩ .unit = .ok v s em ∧ env.toks[s.pos]? = none := by
  unfold pegTop at h
  match n with
  | 0 => simp [peg] at h
  | 1 => simp [peg, pegStep, SOut.andThen] at h
  | k + 2 =>
    refine ⟨k, rfl, ?_⟩
    have e : peg (k + 2) env (.thenIgnore g .end_) ⟨0, []⟩ .unit =
        (peg (k + 1) env g ⟨0, []⟩ .unit).andThen fun va s1 e1 =>
          (peg (k + 1) env .end_ s1 .unit).andThen fun _ s2 e2 => .ok va s2 (e1 ++ e2) := rfl
    rw [e] at h
    cases hg : peg (k + 1) env g ⟨0, []⟩ .unit <;> rw [hg] at h <;> simp only [SOut.andThen] at h <;> try simp at h
    rename_i v1 s1 e1
    have e2 : peg (k + 1) env .end_ s1 .unit =
        match env.toks[s1.pos]? with | none => .ok .unit s1 [] | some _ => .fail := rfl
    rw [e2] at h
    cases ht : env.toks[s1.pos]? <;> rw [ht] at h <;> simp at h
    obtain ⟨h1, h2, h3⟩ := h
    subst h1 h2 h3
    exact ⟨by simp, ht⟩

/-- **whole input.** An output with no errors means the grammar (not the harness) consumed every token:
    in the PEG reading the grammar matches from 0 to a position where no token is left. -/
theorem c03_whole_input (n : Nat) (env : Env) (m : Mode) (g : G) (hm : env.memoOn = false) (r : ParseResult) (f : St)
    (h : parseTop n env m g = .result r f) (v : Val) (ho : r.output = some v) (he : r.errs = []) :
    ∃ k v' s, n = k + 2 ∧ peg (k + 1) env g ⟨0, []⟩ .unit = .ok v' s [] ∧ v = m.bind v' ∧
      env.toks[s.pos]? = none ∧ f.pos = s.pos := by
  have ht := parseTop_refines n env m g hm
  rw [h] at ht
  cases hp : pegTop n env g <;> rw [hp] at ht <;> simp only [TopRefines] at ht
  · rename_i v' s em
    obtain ⟨h1, h2, h3, h4⟩ := ht
    rw [he] at h4
    have : f.errs = [] := by simpa using h4.symm
    rw [this] at h3
    have hem : em = [] := by
      cases em with
      | nil => rfl
      | cons e es => simp [EmsRel] at h3
    subst hem
    obtain ⟨k, hk, hg, hend⟩ := pegTop_ok n env g hp
    rw [ho] at h1
    exact ⟨k, v', s, hk, hg, by simpa using h1, hend, by rw [← h2]; rfl⟩
  · rw [ho] at ht; simp at ht

/-- conversely, rejection (no output) means the PEG reading of "grammar then end" fails -/
theorem c03_reject_iff (n : Nat) (env : Env) (m : Mode) (g : G) (hm : env.memoOn = false) (r : ParseResult) (f : St)
    (h : parseTop n env m g = .result r f) : r.output = none ↔ pegTop n env g = .fail := by
  have ht := parseTop_refines n env m g hm
  rw [h] at ht
  cases hp : pegTop n env g <;> rw [hp] at ht <;> simp only [TopRefines] at ht <;> simp
  · rw [ht.1]; simp
  · exact ht.1

/-- `lazy()` is `then_ignore(any().repeated())` (`lib.rs:1700-1706`) -/
def G.lazy (g : G) : G := .thenIgnore g (.iterP (.repeated .any 0 none))

/-- **lazy.** If the lazy form matches, the grammar itself matched a prefix (with the same output and emissions). -/
theorem c03_lazy_prefix (n : Nat) (env : Env) (g : G) (s : SS) (ctx : Val) {v s' em}
    (h : peg (n + 1) env g.lazy s ctx = .ok v s' em) :
    ∃ s1 e1, peg n env g s ctx = .ok v s1 e1 := by
  simp only [G.lazy, peg, pegStep, SOut.andThen] at h
  cases hg : peg n env g s ctx <;> simp [hg] at h
  rename_i v1 s1 e1
  cases hr : peg n env (.iterP (.repeated .any 0 none)) s1 ctx <;> simp [hr] at h
  exact ⟨s1, e1, by rw [h.1]⟩

/-- … and if the grammar fails at the start, so does the lazy form: nothing but the grammar decides acceptance. -/
theorem c03_lazy_fail (n : Nat) (env : Env) (g : G) (s : SS) (ctx : Val)
    (h : peg n env g s ctx = .fail) : peg (n + 1) env g.lazy s ctx = .fail := by
  simp [G.lazy, peg, pegStep, SOut.andThen, h]

/-- non-vacuity: a recovered parse has output *and* errors, and does not convert to `Ok` -/
example :
    (match parseTop 30 { toks := [98], memoOn := false } .emit (.recoverVia (.just [97]) (.to (.nat 9) .any)) with
      | .result r _ => (r.output, r.errs.length, match r.intoResult with | .ok _ => true | .error _ => false)
      | _ => (none, 99, true)) = (some (.nat 9), 1, false) := by
  decide

/-! ### the same contract for grammars with extensions (`EEnv`: any number of Pratt tables and nested-input parsers containing
  each other — the machine is `runE`, the reading `pegE`) -/

theorem c03_extensions_no_output_has_error (e : EEnv) (n : Nat) (env : Env) (m : Mode) (g : G) (r : ParseResult) (f : St)
    (h : parseTopE e n env m g = .result r f) (ho : r.output = none) : r.errs ≠ [] :=
  parseTopE_no_output_has_error e n env m g r f h ho

theorem c03_extensions_error_free_has_output (e : EEnv) (n : Nat) (env : Env) (m : Mode) (g : G) (r : ParseResult) (f : St)
    (h : parseTopE e n env m g = .result r f) (he : r.errs = []) : r.output.isSome = true :=
  parseTopE_error_free_has_output e n env m g r f h he

/-- rejection ⇔ the reading of "grammar then end" fails; an accepted error-free parse is a success of the reading without
    emissions that ends where the machine ends (the end of the outer input: the grammar is followed by `end()`) -/
theorem c03_extensions_reject_iff (e : EEnv) (n : Nat) (env : Env) (m : Mode) (g : G) (hm : env.memoOn = false)
    (r : ParseResult) (f : St) (h : parseTopE e n env m g = .result r f) :
    r.output = none ↔ pegTopE e n env g = .fail :=
  parseTopE_reject_iff e n env m g hm r f h

theorem c03_extensions_whole_input (e : EEnv) (n : Nat) (env : Env) (m : Mode) (g : G) (hm : env.memoOn = false)
    (r : ParseResult) (f : St) (h : parseTopE e n env m g = .result r f) (v : Val) (ho : r.output = some v)
    (he : r.errs = []) :
    ∃ v' s, pegTopE e n env g = .ok v' s [] ∧ v = m.bind v' ∧ f.pos = s.pos :=
  parseTopE_whole_input e n env m g hm r f h v ho he

#print axioms c03_extensions_no_output_has_error
#print axioms c03_extensions_error_free_has_output
#print axioms c03_extensions_reject_iff
#print axioms c03_extensions_whole_input
#print axioms c03_no_output_has_error
#print axioms c03_error_free_has_output
#print axioms c03_errors_never_ok
#print axioms c03_error_free_ok
#print axioms c03_whole_input
#print axioms c03_reject_iff
#print axioms c03_lazy_prefix
#print axioms c03_lazy_fail
end Chumsky
