import ChumskyModel.Model.Spec
namespace Chumsky
theorem placeholder_C03 : True := trivial
#print axioms placeholder_C03
end Chumsky
