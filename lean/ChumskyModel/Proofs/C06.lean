/-
  C06 — primary error = furthest failure, with merged expectations and a truthful span.

  Class (`G.c06`): every constructor except negative lookahead (excluded by the property), recovery strategies
  (they *consume* the pending error: C08), `labelled`/`map_err` (they *rewrite* it: C17) and `memoized` (C11).
  `G.nec`: no empty slice `choice` (which reports `found = None` at its position, wherever that is).
  `St.log` is the ghost log of all failure events; a rejecting `try_map` discards the events of the sub-parse it
  rejects together with their pending error ("the mapper error overrides it", `combinator.rs`), everything else
  only appends.
  Lemmas: Proofs/Lemmas/{Summ,AltInv,ErrWf,DescSim}.lean.
-/
import ChumskyModel.Proofs.Lemmas.ErrWf
import ChumskyModel.Proofs.Lemmas.DescSim
import ChumskyModel.Proofs.Lemmas.PrattAlt
set_option linter.unusedSimpArgs false
namespace Chumsky

/-- **C06 (invariant).** After any run of a grammar of the class the pending error is — up to the order of the
    expected patterns — the pending error before the run merged, by the code's own priority rule, with *every*
    failure event recorded during the run. -/
theorem c06_pending_is_summary (n : Nat) (env : Env) (hek : env.ek ≠ .empty) (hdefs : ∀ d ∈ env.defs, d.c06 = true)
    (m : Mode) (g : G) (hg : g.c06 = true) (st : St) :
    match run n env m g st with
    | .ok _ st' => AltRel env.ek st st'
    | .fail st' => AltRel env.ek st st'
    | _ => True :=
  run_altRel n env hek hdefs m g hg st

/-- **C06 (what is reported).** When a parse fails, the last reported error is the summary of all failure events
    of the whole parse. -/
theorem c06_reported_is_summary (n : Nat) (env : Env) (hek : env.ek ≠ .empty) (hdefs : ∀ d ∈ env.defs, d.c06 = true)
    (m : Mode) (g : G) (hg : g.c06 = true) (r : ParseResult) (f : St)
    (h : parseTop n env m g = .result r f) (ho : r.output = none) :
    ∃ l l', f.alt = some l ∧ summ env.ek f.log = some l' ∧ l.equiv l' ∧ r.errs = f.errs.map (·.err) ++ [l.err] :=
  parseTop_primary_error n env hek hdefs m g hg r f h ho

/-- **furthest.** The last reported error lies at the furthest position at which anything failed: no event lies
    further, and some event lies exactly there (never earlier, never invented). -/
theorem c06_primary_is_furthest (n : Nat) (env : Env) (hek : env.ek ≠ .empty) (hdefs : ∀ d ∈ env.defs, d.c06 = true)
    (m : Mode) (g : G) (hg : g.c06 = true) (r : ParseResult) (f : St)
    (h : parseTop n env m g = .result r f) (ho : r.output = none) :
    ∃ l, f.alt = some l ∧ r.errs = f.errs.map (·.err) ++ [l.err] ∧
      (∀ ev ∈ f.log, ev.pos ≤ l.pos) ∧ (∃ ev ∈ f.log, ev.pos = l.pos) :=
  c06_furthest n env hek hdefs m g hg r f h ho

/-- **merged expectations (Rich).** If no failure at the furthest position is a user error, the expected set of the
    reported error is exactly the union of the expected sets of all failures at that position. -/
theorem c06_expected_is_union (n : Nat) (env : Env) (hek : env.ek = .rich) (hdefs : ∀ d ∈ env.defs, d.c06 = true)
    (m : Mode) (g : G) (hg : g.c06 = true) (r : ParseResult) (f : St)
    (h : parseTop n env m g = .result r f) (ho : r.output = none) :
    ∃ l, f.alt = some l ∧ r.errs = f.errs.map (·.err) ++ [l.err] ∧
      ((∀ ev ∈ f.log, ev.pos = l.pos → ∀ msg, ev.err.reason ≠ .custom msg) →
        ∃ exp fo, l.err.reason = .ef exp fo ∧
          ∀ x, x ∈ exp ↔ ∃ ev ∈ f.log, ev.pos = l.pos ∧ ∃ ex fo', ev.err.reason = .ef ex fo' ∧ x ∈ ex) :=
  c06_expected_union n env hek hdefs m g hg r f h ho

/-- **user errors preserved (Rich).** A user-supplied error (`try_map`, `custom`) at the furthest position is
    preserved: the reported reason is the first such custom message there. -/
theorem c06_user_error_preserved (n : Nat) (env : Env) (hek : env.ek = .rich) (hdefs : ∀ d ∈ env.defs, d.c06 = true)
    (m : Mode) (g : G) (hg : g.c06 = true) (r : ParseResult) (f : St)
    (h : parseTop n env m g = .result r f) (ho : r.output = none) :
    ∃ l, f.alt = some l ∧ r.errs = f.errs.map (·.err) ++ [l.err] ∧
      ((∃ ev ∈ f.log, ev.pos = l.pos ∧ ∃ msg, ev.err.reason = .custom msg) →
        ∃ ev msg, (f.log.filter (·.pos = l.pos)).find? (fun ev => ev.err.reason.isCustom) = some ev ∧
          ev.err.reason = .custom msg ∧ l.err.reason = .custom msg) :=
  c06_custom_preserved n env hek hdefs m g hg r f h ho

/-- **truthful span and `found`.** The span of the reported error lies inside the input with start ≤ end; for an
    expected/found reason it starts at the failure position, `found` is the token there, and `found = None` only at
    the end of input (then the span is the empty span at the end). (`&str` and slice-like inputs.) -/
theorem c06_span_and_found (n : Nat) (env : Env) (hk : env.kind ≠ .mapped) (hek : env.ek = .rich)
    (hdefs : ∀ d ∈ env.defs, d.c06 = true) (hdefsN : ∀ d ∈ env.defs, d.nec = true)
    (m : Mode) (g : G) (hg : g.c06 = true) (hn : g.nec = true) (r : ParseResult) (f : St)
    (h : parseTop n env m g = .result r f) (ho : r.output = none) :
    ∃ e, r.errs.getLast? = some e ∧
      e.span.1 ≤ e.span.2 ∧ e.span.2 ≤ env.off env.toks.length ∧
      ∀ exp fo, e.reason = .ef exp fo →
        ∃ p, p ≤ env.toks.length ∧ e.span.1 = env.off p ∧ fo = env.toks[p]? ∧
          (fo = none → p = env.toks.length ∧ e.span = (env.off env.toks.length, env.off env.toks.length)) :=
  c06_primary_span_found n env hk hek hdefs hdefsN m g hg hn r f h ho

/-- every reported error (secondary ones too, successful parses too) has an ordered span inside the input -/
theorem c06_all_spans_inside (n : Nat) (env : Env) (hk : env.kind ≠ .mapped) (hek : env.ek = .rich)
    (hdefs : ∀ d ∈ env.defs, d.c06 = true) (hdefsN : ∀ d ∈ env.defs, d.nec = true)
    (m : Mode) (g : G) (hg : g.c06 = true) (hn : g.nec = true) (r : ParseResult) (f : St)
    (h : parseTop n env m g = .result r f) :
    ∀ e ∈ r.errs, e.span.1 ≤ e.span.2 ∧ e.span.2 ≤ env.off env.toks.length :=
  parseTop_all_spans n env hk hek hdefs hdefsN m g hg hn r f h

/-- **the error type does not matter.** Cheap, Simple and Rich report the same span for the same grammar and input
    (every grammar; memoization off): the two parses agree on acceptance, output, number of errors and, pointwise,
    on every error span including the primary one. -/
theorem c06_kinds_agree (n : Nat) (env : Env) (hm : env.memoOn = false) (k1 k2 : ErrKind) (h1 : k1 ≠ .empty)
    (h2 : k2 ≠ .empty) (m : Mode) (g : G) :
    TopSim (parseTop n { env with ek := k1 } m g) (parseTop n { env with ek := k2 } m g) :=
  parseTop_kindSim n env hm k1 k2 h1 h2 m g

/-- non-vacuity: two alternatives fail at the same furthest position (after the first consumed "a"), a third
    earlier: the report is at 1 with the union {'b', 'c'}; the hypotheses (class membership) are decidable -/
example :
    let g : G := .or_ (.then_ (.just [97]) (.just [98])) (.or_ (.then_ (.just [97]) (.just [99])) (.just [120]))
    g.c06 = true ∧ g.nec = true ∧
    (match parseTop 12 { toks := [97, 100] } .emit g with
      | .result r _ => (r.output, r.errs)
      | _ => (none, [])) = (none, [⟨(1, 2), .ef [.tok 98, .tok 99] (some 100), []⟩]) := by
  decide +kernel

/-! ### Pratt parsers (`Model/Pratt.lean`) -/

/-- **C06 for `atom.pratt(ops)`** (atom and operator parsers of the C06 class): the rewinds of `pratt_go` never touch
    the pending error, so when the parse fails the last reported error is (≈) the summary of ALL failure events —
    operators that did not match, operators whose operand was missing, the atom — and lies at the furthest of them. -/
theorem c06_pratt_primary_is_summary (fuel : Nat) (env : Env) (hek : env.ek ≠ .empty)
    (hdefs : ∀ d ∈ env.defs, d.c06 = true) (m : Mode) (atom : G) (hatom : atom.c06 = true) (ops : List PrattOp)
    (hops : opsC06 ops = true) (r : ParseResult) (f : St)
    (h : parseTopPratt fuel env m atom ops = .result r f) (ho : r.output = none) :
    ∃ l l', f.alt = some l ∧ summ env.ek f.log = some l' ∧ l.equiv l' ∧ r.errs = f.errs.map (·.err) ++ [l.err] ∧
      (∀ ev ∈ f.log, ev.pos ≤ l.pos) :=
  parseTopPratt_primary_error fuel env hek hdefs m atom hatom ops hops r f h ho

/-- the same for recursive expression grammars `recursive(|e| atom.pratt(ops))` -/
theorem c06_recursive_pratt_primary_is_summary (x : XEnv) (n : Nat) (env : Env) (hek : env.ek ≠ .empty)
    (hdefs : ∀ d ∈ env.defs, d.c06 = true) (hatom : x.atom.c06 = true) (hops : opsC06 x.ops = true) (m : Mode)
    (r : ParseResult) (f : St) (h : parseTopX x n env m = .result r f) (ho : r.output = none) :
    ∃ l l', f.alt = some l ∧ summ env.ek f.log = some l' ∧ l.equiv l' ∧ r.errs = f.errs.map (·.err) ++ [l.err] ∧
      (∀ ev ∈ f.log, ev.pos ≤ l.pos) :=
  parseTopX_primary_error x n env hek hdefs hatom hops m r f h ho

/-- non-vacuity: `x + ( y *` over `+`/1 left, `*`/2 left with a parenthesised atom: rejected, the report is at the end
    of the input (position 5), the furthest failure, with the union of what was expected there -/
example :
    let x : XEnv := { hole := 0, atom := .or_ (.oneOf [120, 121]) (.delimitedBy (.call 0) (.just [40]) (.just [41])),
                      ops := [.infix true 1 (.just [43]), .infix true 2 (.just [42])] }
    x.atom.c06 = true ∧ opsC06 x.ops = true ∧
    (match parseTopX x 60 { toks := [120, 43, 40, 121, 42] } .emit with
      | .result r _ => (r.output, r.errs.map (·.span))
      | _ => (none, [])) = (none, [(5, 5)]) := by
  decide +kernel

#print axioms c06_pending_is_summary
#print axioms c06_pratt_primary_is_summary
#print axioms c06_recursive_pratt_primary_is_summary
#print axioms c06_reported_is_summary
#print axioms c06_primary_is_furthest
#print axioms c06_expected_is_union
#print axioms c06_user_error_preserved
#print axioms c06_span_and_found
#print axioms c06_all_spans_inside
#print axioms c06_kinds_agree
end Chumsky
