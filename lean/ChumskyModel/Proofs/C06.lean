import ChumskyModel.Model.Spec
namespace Chumsky
theorem placeholder_C06 : True := trivial
#print axioms placeholder_C06
end Chumsky
