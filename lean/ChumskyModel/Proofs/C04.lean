/-
  C04 — check mode and internal output elision are unobservable.

  Property theorems only (lemmas: Proofs/Lemmas/ModeSim.lean).
-/
import ChumskyModel.Proofs.Lemmas.ModeSim
import ChumskyModel.Proofs.Lemmas.PrattMode
set_option linter.unusedSimpArgs false
namespace Chumsky

/-- **C04 (runs).** For every grammar of the whole object language (no hypothesis), every environment, state
    and fuel: running in `check` mode is running in `emit` mode with the output value erased — same outcome kind,
    identical position, secondary errors, pending error, inspector, context, memo table (and ghost log). -/
theorem c04_check_eq_emit (n : Nat) (env : Env) (g : G) (st : St) :
    run n env .check g st = (run n env .emit g st).erase :=
  run_check_eq_erase_emit n env g st

/-- **C04 (top level).** `check(input)` accepts exactly when `parse(input)` does and returns the identical
    list of errors (and leaves the identical final state). -/
theorem c04_check_eq_parse (n : Nat) (env : Env) (g : G) :
    parseTop n env .check g = match parseTop n env .emit g with
      | .result r final => .result ⟨r.output.map (fun _ => Val.unit), r.errs⟩ final
      | o => o :=
  parseTop_check_eq n env g

/-- consequence: same acceptance, same errors -/
theorem c04_accept_iff (n : Nat) (env : Env) (g : G) (rc re : ParseResult) (fc fe : St)
    (hc : parseTop n env .check g = .result rc fc) (he : parseTop n env .emit g = .result re fe) :
    (rc.output.isSome = re.output.isSome) ∧ rc.errs = re.errs ∧ fc = fe := by
  have h := c04_check_eq_parse n env g
  rw [hc, he] at h
  simp only [TopOut.result.injEq] at h
  obtain ⟨h1, h2⟩ := h
  subst h1 h2
  cases re.output <;> simp

theorem c04_panic_iff (n : Nat) (env : Env) (g : G) (w : Nat) :
    parseTop n env .check g = .panic w ↔ parseTop n env .emit g = .panic w := by
  have h := c04_check_eq_parse n env g
  cases he : parseTop n env .emit g <;> simp [he] at h ⊢ <;> simp [h]

/-! ### value-building formulations (`.boxed` is the identity wrapper; it only aligns the fuel) -/

private theorem emit_of_check {n env g st} :
    run n env .check g st = (run n env .emit g st).erase := run_check_eq_erase_emit n env g st

/-- `a.ignore_then(b) ≡ a.then(b).map(|(_, b)| b)` -/
theorem c04_ignore_then (n : Nat) (env : Env) (m : Mode) (a b : G) (st : St) :
    run (n + 2) env m (.map .snd (.then_ a b)) st = run (n + 1) env m (.ignoreThen a b) st := by
  cases m
  · simp only [run, step, Out.andThen]
    rw [emit_of_check]
    cases run n env .emit a st <;> simp [Out.erase, Out.andThen]
    rename_i va st1
    cases run n env .emit b st1 <;> simp [Out.andThen, MapFn.eval, Mode.bind]
  · simp only [run, step, Out.andThen]
    cases run n env .check a st <;> simp [Out.andThen]
    rename_i va st1
    have := @run_check_ok_unit n env b st1
    cases h : run n env .check b st1 <;> simp [Out.andThen]
    exact (this h).symm

/-- `a.then_ignore(b) ≡ a.then(b).map(|(a, _)| a)` -/
theorem c04_then_ignore (n : Nat) (env : Env) (m : Mode) (a b : G) (st : St) :
    run (n + 2) env m (.map .fst (.then_ a b)) st = run (n + 1) env m (.thenIgnore a b) st := by
  cases m
  · simp only [run, step, Out.andThen]
    cases run n env .emit a st <;> simp [Out.andThen]
    rename_i va st1
    rw [emit_of_check]
    cases run n env .emit b st1 <;> simp [Out.erase, Out.andThen, MapFn.eval, Mode.bind]
  · simp only [run, step, Out.andThen]
    have := @run_check_ok_unit n env a st
    cases h : run n env .check a st <;> simp [Out.andThen]
    rename_i va st1
    cases run n env .check b st1 <;> simp [Out.andThen]
    exact (this h).symm

/-- `a.ignored() ≡ a.to(())` -/
theorem c04_ignored (n : Nat) (env : Env) (m : Mode) (a : G) (st : St) :
    run (n + 1) env m (.ignored a) st = run (n + 1) env m (.to .unit a) st := by
  simp only [run, step]
  cases run n env .check a st <;> simp [Out.andThen, bind_unit]
where bind_unit : ∀ m : Mode, m.bind .unit = .unit := by intro m; cases m <;> rfl

/-- `a.delimited_by(l, r) ≡ l.ignore_then(a).then_ignore(r)` -/
theorem c04_delimited_by (n : Nat) (env : Env) (m : Mode) (a l r : G) (st : St) :
    run (n + 2) env m (.thenIgnore (.ignoreThen l a) (.boxed r)) st = run (n + 1) env m (.delimitedBy a l r) st := by
  simp only [run, step, Out.andThen]
  cases run n env .check l st <;> simp
  rename_i v1 st1
  cases run n env m a st1 <;> simp

/-- `a.padded_by(p) ≡ p.ignore_then(a).then_ignore(p)` -/
theorem c04_padded_by (n : Nat) (env : Env) (m : Mode) (a p : G) (st : St) :
    run (n + 2) env m (.thenIgnore (.ignoreThen p a) (.boxed p)) st = run (n + 1) env m (.paddedBy a p) st := by
  simp only [run, step, Out.andThen]
  cases run n env .check p st <;> simp
  rename_i v1 st1
  cases run n env m a st1 <;> simp

/-! ### Pratt parsers (`Model/Pratt.lean`) -/

/-- **C04 for `atom.pratt(ops)`.** Every operator table over arbitrary atom / operator grammars, every `min_power`,
    state and fuel: check = erase ∘ emit (the fold callbacks are the only thing check mode skips). -/
theorem c04_pratt_check_eq_emit (fuel : Nat) (env : Env) (atom : G) (ops : List PrattOp) (st : St) :
    runPratt fuel env .check atom ops st = (runPratt fuel env .emit atom ops st).erase :=
  runPratt_modeSim fuel env atom ops st

/-- the same for recursive expression grammars `recursive(|e| atom.pratt(ops))`, at every grammar position -/
theorem c04_recursive_pratt_check_eq_emit (x : XEnv) (n : Nat) (env : Env) (g : G) (st : St) :
    runX x n env .check g st = (runX x n env .emit g st).erase :=
  (runX_modeSim x n).1 env g st

/-- non-vacuity: a concrete non-trivial grammar on which check and parse both run to completion -/
example : parseTop 20 { toks := [97, 98] } .check (.then_ (.just [97]) (.orNot (.just [98]))) =
    .result ⟨some .unit, []⟩ { pos := 2, insp := [97, 98] } := by decide

#print axioms c04_check_eq_emit
#print axioms c04_check_eq_parse
#print axioms c04_accept_iff
#print axioms c04_panic_iff
#print axioms c04_ignore_then
#print axioms c04_then_ignore
#print axioms c04_ignored
#print axioms c04_delimited_by
#print axioms c04_padded_by
#print axioms c04_pratt_check_eq_emit
#print axioms c04_recursive_pratt_check_eq_emit
end Chumsky
