/-
  C07 — spans and slices are exact, well-formed and zero-copy.

  Three layers:
    (1) the machine hands every capture site the value the PEG reading computes (master refinement, every grammar);
    (2) in the reading, every capture site computes `Env.mkSpan p p'` / `(Env.off p, Env.off p')` from exactly the two
        positions between which its sub-parser matched, and `p ≤ p' ≤ |input|` (position invariant of the reading);
    (3) `mkSpan` is well formed for `p ≤ p' ≤ |input|` under each of the three span disciplines (`&[T]`-like indices,
        `&str` byte offsets, tokens carrying their own — possibly gapped — spans): non-inverted, inside the input, on character
        boundaries, nested in / ordered within the parent, an empty match gets an empty span between its neighbours.
  Pointer identity of slices ("same memory, no copy") has no counterpart in a model without addresses: it is observed by
  the harness (`slice.as_ptr() - input.as_ptr()`), the model states it as an offset range into the caller's buffer.
-/
import ChumskyModel.Proofs.Lemmas.Top
import ChumskyModel.Proofs.Lemmas.SpecInv
import ChumskyModel.Proofs.Lemmas.SpanWf
set_option linter.unusedSimpArgs false
namespace Chumsky

/-! ### (1) machine = reading (spans are part of the output values) -/

/-- **C07 (exactness, machine side).** For every grammar, input kind and state the machine's output — which embeds every
    captured span and slice — is the reading's output (`check` mode: erased). -/
theorem c07_machine_spans (n : Nat) (env : Env) (m : Mode) (g : G) (st : St) (hm : env.memoOn = false) :
    Refines m st.errs st.ctx (run n env m g st) (peg n env g st.ss st.ctx) :=
  run_refines n env m g st hm

/-! ### (2) capture sites of the reading: the span of exactly what the sub-parser consumed -/

/-- `to_span` -/
theorem c07_to_span (n : Nat) (env : Env) (a : G) (s : SS) (ctx : Val) {v s' em}
    (h : peg (n + 1) env (.toSpan a) s ctx = .ok v s' em) :
    ∃ v0, peg n env a s ctx = .ok v0 s' em ∧ v = .span (env.mkSpan s.pos s'.pos).1 (env.mkSpan s.pos s'.pos).2 ∧
      s.pos ≤ s'.pos ∧ (s.pos ≤ env.toks.length → s'.pos ≤ env.toks.length) := by
  simp only [peg, pegStep, SOut.andThen] at h
  cases ha : peg n env a s ctx <;> simp [ha] at h
  rename_i v0 s1 e1
  obtain ⟨h1, h2, h3⟩ := h
  subst h2 h3
  have adv := peg_adv n env a s ctx ha
  exact ⟨v0, rfl, h1.symm, adv.mono, adv.bound⟩

/-- `map_with(|v, e| (v, e.span()))` -/
theorem c07_map_with_span (n : Nat) (env : Env) (a : G) (s : SS) (ctx : Val) {v s' em}
    (h : peg (n + 1) env (.mapWithSpan a) s ctx = .ok v s' em) :
    ∃ v0, peg n env a s ctx = .ok v0 s' em ∧
      v = .pair v0 (.span (env.mkSpan s.pos s'.pos).1 (env.mkSpan s.pos s'.pos).2) ∧
      s.pos ≤ s'.pos ∧ (s.pos ≤ env.toks.length → s'.pos ≤ env.toks.length) := by
  simp only [peg, pegStep, SOut.andThen] at h
  cases ha : peg n env a s ctx <;> simp [ha] at h
  rename_i v0 s1 e1
  obtain ⟨h1, h2, h3⟩ := h
  subst h2 h3
  have adv := peg_adv n env a s ctx ha
  exact ⟨v0, rfl, h1.symm, adv.mono, adv.bound⟩

/-- `to_slice`: the index range `[off p, off p')` of the caller's buffer -/
theorem c07_to_slice (n : Nat) (env : Env) (a : G) (s : SS) (ctx : Val) {v s' em}
    (h : peg (n + 1) env (.toSlice a) s ctx = .ok v s' em) :
    ∃ v0, peg n env a s ctx = .ok v0 s' em ∧ v = .slice (env.off s.pos) (env.off s'.pos) ∧
      s.pos ≤ s'.pos ∧ (s.pos ≤ env.toks.length → s'.pos ≤ env.toks.length) := by
  simp only [peg, pegStep, SOut.andThen] at h
  cases ha : peg n env a s ctx <;> simp [ha] at h
  rename_i v0 s1 e1
  obtain ⟨h1, h2, h3⟩ := h
  subst h2 h3
  have adv := peg_adv n env a s ctx ha
  exact ⟨v0, rfl, h1.symm, adv.mono, adv.bound⟩

/-- `validate`: every error it emits carries the span of what its parser consumed, and is recorded at the parser's start -/
theorem c07_validate_span (n : Nat) (env : Env) (f : ValFn) (a : G) (s : SS) (ctx : Val) {v s' em}
    (h : peg (n + 1) env (.validate f a) s ctx = .ok v s' em) :
    ∃ e1, peg n env a s ctx = .ok v s' e1 ∧
      em = (if f.emitIf.eval v then
              e1 ++ List.replicate f.count (.user ⟨s.pos, env.ek.userErr (env.mkSpan s.pos s'.pos) f.msg⟩)
            else e1) ∧ s.pos ≤ s'.pos := by
  simp only [peg, pegStep, SOut.andThen] at h
  cases ha : peg n env a s ctx <;> simp [ha] at h
  rename_i v0 s1 e1
  obtain ⟨h1, h2, h3⟩ := h
  subst h1 h2
  have adv := peg_adv n env a s ctx ha
  exact ⟨e1, rfl, h3.symm, adv.mono⟩

/-- for index-like and text inputs the slice returned by `to_slice` is the input at the span `to_span` reports -/
theorem c07_slice_eq_span (env : Env) (h : env.kind ≠ .mapped) (i j : Nat) :
    env.mkSpan i j = (env.off i, env.off j) := by
  cases hk : env.kind <;> simp [Env.mkSpan, Env.off, hk] at h ⊢

/-! ### (3) well-formedness of the span of a match `p ≤ p' ≤ |input|` -/

/-- start ≤ end, for every input kind -/
theorem c07_start_le_end (env : Env) (hw : env.Wf) {i j : Nat} (hij : i ≤ j) (hj : j ≤ env.toks.length) :
    (env.mkSpan i j).1 ≤ (env.mkSpan i j).2 := by
  cases hk : env.kind with
  | slice => rw [mkSpan_slice env hk]; exact hij
  | str => rw [mkSpan_str env hk]; exact strOff_le_of_le _ hij
  | mapped =>
    obtain ⟨hlen, w⟩ := hw hk
    by_cases he : i = j
    · subst he
      by_cases h0 : 0 < i
      · rw [mkSpan_mapped_empty_pos env hk h0 (by omega)]; exact Nat.le_refl _
      · have : i = 0 := by omega
        subst this
        rw [mkSpan_mapped_empty_zero env hk]; cases env.tspans[0]? <;> exact Nat.le_refl _
    · have hlt : i < j := by omega
      rw [mkSpan_mapped_nonempty env hk hlt (by omega)]
      have h1 := w.start_mono (k := i) (l := j - 1) (by omega) (by omega)
      have h2 := w.each (j - 1) (by omega)
      exact Nat.le_trans h1 h2

/-- a match that consumed nothing gets an empty span -/
theorem c07_empty_match (env : Env) (i : Nat) : (env.mkSpan i i).1 = (env.mkSpan i i).2 := by
  cases hk : env.kind <;> simp [Env.mkSpan, hk]

/-- inside the input: index inputs end at the token count, text at the byte length, mapped inputs at the end-of-input span -/
theorem c07_inside (env : Env) (hw : env.Wf) {i j : Nat} (hij : i ≤ j) (hj : j ≤ env.toks.length) :
    (env.mkSpan i j).2 ≤ (match env.kind with
                          | .slice => env.toks.length
                          | .str => strLen env.toks
                          | .mapped => env.eoi.2) := by
  cases hk : env.kind with
  | slice => rw [mkSpan_slice env hk]; exact hj
  | str => rw [mkSpan_str env hk]; exact strOff_le_len _ hj
  | mapped =>
    obtain ⟨hlen, w⟩ := hw hk
    simp only
    by_cases he : i = j
    · subst he
      by_cases h0 : 0 < i
      · rw [mkSpan_mapped_empty_pos env hk h0 (by omega)]
        have := w.last (i - 1) (by omega); have := w.eoiWf; simp only; omega
      · have : i = 0 := by omega
        subst this
        rw [mkSpan_mapped_empty_zero env hk]
        cases h0' : env.tspans[0]? with
        | none => exact Nat.le_refl _
        | some sp =>
          obtain ⟨hl, hv⟩ := List.getElem?_eq_some_iff.mp h0'
          have h1 := w.each 0 hl; have h2 := w.last 0 hl; have := w.eoiWf
          simp only; rw [hv] at h1 h2; omega
    · rw [mkSpan_mapped_nonempty env hk (by omega) (by omega)]
      have := w.last (j - 1) (by omega); have := w.eoiWf; simp only; omega

/-- `&str`: both ends of every span are character boundaries (the UTF-8 length of a prefix of the characters),
    and a non-empty match has a non-empty byte range -/
theorem c07_str_boundaries (env : Env) (hk : env.kind = .str) (i j : Nat) :
    (env.mkSpan i j).1 = ((env.toks.take i).map utf8w).sum ∧ (env.mkSpan i j).2 = ((env.toks.take j).map utf8w).sum := by
  rw [mkSpan_str env hk]; exact ⟨strOff_eq_sum _ _, strOff_eq_sum _ _⟩

theorem c07_str_nonempty (env : Env) (hk : env.kind = .str) {i j : Nat} (hij : i < j) (hj : j ≤ env.toks.length) :
    (env.mkSpan i j).1 < (env.mkSpan i j).2 := by
  rw [mkSpan_str env hk]; exact strOff_lt_of_lt _ hij hj

/-- tokens with their own spans: a non-empty match spans from the start of its first consumed token to the end of its last -/
theorem c07_mapped_nonempty (env : Env) (hk : env.kind = .mapped) (hw : env.Wf) {i j : Nat} (hij : i < j)
    (hj : j ≤ env.toks.length) :
    env.mkSpan i j = ((env.tspans[i]'(by have := (hw hk).1; omega)).1,
                      (env.tspans[j - 1]'(by have := (hw hk).1; omega)).2) :=
  mkSpan_mapped_nonempty env hk hij (by have := (hw hk).1; omega)

/-- … and an empty match gets an empty span lying between the preceding and the following token -/
theorem c07_mapped_empty_between (env : Env) (hk : env.kind = .mapped) (hw : env.Wf) {i : Nat} (hi : i ≤ env.toks.length) :
    ∃ x, env.mkSpan i i = (x, x) ∧
      (∀ (h : 0 < i), (env.tspans[i - 1]'(by have := (hw hk).1; omega)).2 ≤ x) ∧
      (∀ (h : i < env.toks.length), x ≤ (env.tspans[i]'(by have := (hw hk).1; omega)).1) := by
  obtain ⟨hlen, w⟩ := hw hk
  by_cases h0 : 0 < i
  · refine ⟨_, mkSpan_mapped_empty_pos env hk h0 (by omega), fun _ => Nat.le_refl _, fun h => ?_⟩
    have := w.next (i - 1) (by omega)
    have e : i - 1 + 1 = i := by omega
    simp only [e] at this; exact this
  · have : i = 0 := by omega
    subst this
    rw [mkSpan_mapped_empty_zero env hk]
    cases h0' : env.tspans[0]? with
    | none => exact ⟨_, rfl, fun h => absurd h (by omega), fun h => by
        have : env.tspans.length ≤ 0 := by simpa using h0'
        omega⟩
    | some sp =>
      obtain ⟨hl, hv⟩ := List.getElem?_eq_some_iff.mp h0'
      exact ⟨_, rfl, fun h => absurd h (by omega), fun _ => by rw [hv]; exact Nat.le_refl _⟩

/-- nesting: the span of a non-empty sub-match lies inside the span of any match that contains it -/
theorem c07_nested (env : Env) (hw : env.Wf) {i i' j' j : Nat} (h1 : i ≤ i') (h2 : i' < j') (h3 : j' ≤ j)
    (hj : j ≤ env.toks.length) :
    (env.mkSpan i j).1 ≤ (env.mkSpan i' j').1 ∧ (env.mkSpan i' j').2 ≤ (env.mkSpan i j).2 := by
  cases hk : env.kind with
  | slice => simp only [mkSpan_slice env hk]; exact ⟨h1, h3⟩
  | str => simp only [mkSpan_str env hk]; exact ⟨strOff_le_of_le _ h1, strOff_le_of_le _ h3⟩
  | mapped =>
    obtain ⟨hlen, w⟩ := hw hk
    rw [mkSpan_mapped_nonempty env hk (show i < j by omega) (by omega),
        mkSpan_mapped_nonempty env hk h2 (by omega)]
    exact ⟨w.start_mono h1 (by omega), w.end_mono (k := j' - 1) (l := j - 1) (by omega) (by omega)⟩

/-- order: of two non-empty sub-matches one after the other, the first ends before the second starts -/
theorem c07_ordered (env : Env) (hw : env.Wf) {i j i' j' : Nat} (h1 : i < j) (h2 : j ≤ i') (h3 : i' < j')
    (hj : j' ≤ env.toks.length) :
    (env.mkSpan i j).2 ≤ (env.mkSpan i' j').1 := by
  cases hk : env.kind with
  | slice => simp only [mkSpan_slice env hk]; exact h2
  | str => simp only [mkSpan_str env hk]; exact strOff_le_of_le _ h2
  | mapped =>
    obtain ⟨hlen, w⟩ := hw hk
    rw [mkSpan_mapped_nonempty env hk h1 (by omega), mkSpan_mapped_nonempty env hk h3 (by omega)]
    exact w.end_le_start (k := j - 1) (l := i') (by omega) (by omega)

/-! ### non-vacuity: the machine on concrete inputs, evaluated by the kernel -/

/-- gapped token spans (gap 3: token k covers [5k+3, 5k+5)), an empty match between two tokens and a non-empty one -/
example :
    (match parseTop 30 { toks := [97, 98], kind := .mapped, tspans := [(3, 5), (8, 10)], eoi := (13, 13), memoOn := false } .emit
        (.then_ (.just [97]) (.then_ (.toSpan .empty) (.toSpan (.just [98])))) with
      | .result r _ => r.output
      | _ => none) = some (.pair (.toks [97]) (.pair (.span 5 5) (.span 8 10))) := by
  decide

example : Env.Wf { toks := [97, 98], kind := .mapped, tspans := [(3, 5), (8, 10)], eoi := (13, 13) } := by
  intro _
  refine ⟨rfl, ⟨?_, ?_, ?_, ?_⟩⟩
  · intro k h; have : k = 0 ∨ k = 1 := by simp at h; omega
    rcases this with rfl | rfl <;> simp
  · intro k h; have : k = 0 := by simp at h; omega
    subst this; simp
  · intro k h; have : k = 0 ∨ k = 1 := by simp at h; omega
    rcases this with rfl | rfl <;> simp
  · simp

/-- multi-byte text: `é` is two bytes, the clef four -/
example :
    (match parseTop 30 { toks := [233, 0x1D11E, 97], kind := .str, memoOn := false } .emit
        (.then_ (.toSlice .any) (.mapWithSpan (.then_ .any (.toSpan .any)))) with
      | .result r _ => r.output
      | _ => none) = some (.pair (.slice 0 2) (.pair (.pair (.tok 0x1D11E) (.span 6 7)) (.span 2 7))) := by
  decide

#print axioms c07_machine_spans
#print axioms c07_to_span
#print axioms c07_map_with_span
#print axioms c07_to_slice
#print axioms c07_validate_span
#print axioms c07_slice_eq_span
#print axioms c07_start_le_end
#print axioms c07_empty_match
#print axioms c07_inside
#print axioms c07_str_boundaries
#print axioms c07_str_nonempty
#print axioms c07_mapped_nonempty
#print axioms c07_mapped_empty_between
#print axioms c07_nested
#print axioms c07_ordered
end Chumsky
