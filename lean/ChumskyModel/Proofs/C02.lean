/-
  C02 — repetition and separators honour bounds, greediness and leading/trailing rules.

  Two layers: (1) the machine's loops (`Repeated::next`, `SeparatedBy::next`, `Collect::go`, folds …) refine the
  stateless iterator protocol of the reading (master refinement); (2) the protocol is characterised by chain
  predicates: greedy, possessive, bounded, separators only where allowed (Proofs/Lemmas/RepSpec.lean).
-/
import ChumskyModel.Proofs.Lemmas.ExtRep
import ChumskyModel.Proofs.Lemmas.ExtAll
import ChumskyModel.Proofs.Lemmas.Top
import ChumskyModel.Proofs.Lemmas.RepSpec
set_option linter.unusedSimpArgs false
namespace Chumsky

/-- **C02 (machine).** Every consumer over every iterable parser refines the reading: same acceptance, same items /
    counts / folded values, same end position, for every grammar, input, state and fuel. -/
theorem c02_machine_refines (n : Nat) (env : Env) (m : Mode) (st : St) (hm : env.memoOn = false) (it : It)
    (k : CollKind) (cnt : Nat) (f : FoldFn) (a b : G) :
    Refines m st.errs st.ctx (run n env m (.collect k it) st) (peg n env (.collect k it) st.ss st.ctx) ∧
    Refines m st.errs st.ctx (run n env m (.collectExactly cnt it) st) (peg n env (.collectExactly cnt it) st.ss st.ctx) ∧
    Refines m st.errs st.ctx (run n env m (.foldl f a it) st) (peg n env (.foldl f a it) st.ss st.ctx) ∧
    Refines m st.errs st.ctx (run n env m (.foldr f it b) st) (peg n env (.foldr f it b) st.ss st.ctx) ∧
    Refines m st.errs st.ctx (run n env m (.iterP it) st) (peg n env (.iterP it) st.ss st.ctx) :=
  ⟨run_refines n env m _ st hm, run_refines n env m _ st hm, run_refines n env m _ st hm,
   run_refines n env m _ st hm, run_refines n env m _ st hm⟩

/-- **repeated, collected.** `a.repeated().at_least(lo).at_most(hi).collect::<Vec<_>>()` succeeding means: the
    items are a chain of consecutive matches of `a` from the start position, in input order; their number is within
    `[lo, hi]`; it stopped only because the cap was reached or because `a` fails right after the last item (greedy
    and possessive: never earlier); the end position is just after the last item.
    (`hwf`: well-formed bounds `at_least ≤ at_most`; see the finding recorded below for ill-formed bounds.) -/
theorem c02_repeated_collect {env : Env} {ctx : Val} {n a lo hi s v s' em} (hwf : ∀ h, hi = some h → lo ≤ h)
    (h : peg (n + 2) env (.collect .vec (.repeated a lo hi)) s ctx = .ok v s' em) :
    ∃ vs, Chain (peg n) env ctx a s vs s' em ∧ v = Val.ofList vs ∧ lo ≤ vs.length ∧
      (∀ h, hi = some h → vs.length ≤ h) ∧ (hi = some vs.length ∨ peg n env a s' ctx = .fail) :=
  peg_collect_vec_repeated hwf h

/-- `count()` sees the same item sequence -/
theorem c02_repeated_count {env : Env} {ctx : Val} {n a lo hi s v s' em} (hwf : ∀ h, hi = some h → lo ≤ h)
    (h : peg (n + 2) env (.collect .count (.repeated a lo hi)) s ctx = .ok v s' em) :
    ∃ vs, Chain (peg n) env ctx a s vs s' em ∧ v = .nat vs.length ∧ lo ≤ vs.length ∧
      (∀ h, hi = some h → vs.length ≤ h) ∧ (hi = some vs.length ∨ peg n env a s' ctx = .fail) :=
  peg_collect_count_repeated hwf h

/-- `foldl` folds exactly that sequence from the left -/
theorem c02_repeated_foldl {env : Env} {ctx : Val} {n f a0 a lo hi s v s' em}
    (h : peg (n + 2) env (.foldl f a0 (.repeated a lo hi)) s ctx = .ok v s' em) :
    ∃ v0 s0 e0 vs e, peg (n + 1) env a0 s ctx = .ok v0 s0 e0 ∧
      RepRun (peg n) env ctx a lo hi s0 vs s' e ∧ v = vs.foldl f.evalL v0 ∧ em = e0 ++ e :=
  peg_foldl_repeated h

/-- `foldr` folds exactly that sequence from the right -/
theorem c02_repeated_foldr {env : Env} {ctx : Val} {n f a lo hi b s v s' em}
    (h : peg (n + 2) env (.foldr f (.repeated a lo hi) b) s ctx = .ok v s' em) :
    ∃ vs s2 e2 vb e3, RepRun (peg n) env ctx a lo hi s vs s2 e2 ∧
      peg (n + 1) env b s2 ctx = .ok vb s' e3 ∧ v = List.foldr f.evalR vb vs ∧ em = e2 ++ e3 :=
  peg_foldr_repeated h

/-- `enumerate` pairs the same sequence with 0, 1, 2, … -/
theorem c02_repeated_enumerate {env : Env} {ctx : Val} {n k a lo hi s v s' em}
    (h : peg (n + 3) env (.collect k (.enumerate (.repeated a lo hi))) s ctx = .ok v s' em) :
    ∃ vs, RepRun (peg n) env ctx a lo hi s vs s' em ∧ v = sCollectOut k (enumVals 0 vs) :=
  peg_collect_enumerate_repeated h

/-- `collect_exactly::<[_; m]>()` succeeds iff a chain of exactly `m` items exists (and `m ≤ at_most`); it takes
    those `m` items and looks no further -/
theorem c02_repeated_collect_exactly {env : Env} {ctx : Val} {n m a lo hi s v s' em} :
    peg (n + 2) env (.collectExactly m (.repeated a lo hi)) s ctx = .ok v s' em ↔
    ∃ vs, Chain (peg n) env ctx a s vs s' em ∧ vs.length = m ∧ v = Val.ofList vs ∧
      (∀ h, hi = some h → m ≤ h) :=
  peg_collectExactly_repeated

/-- used as a plain parser (`repeated()` without `collect`): the same run, output `()` -/
theorem c02_repeated_plain {env : Env} {ctx : Val} {n a lo hi s v s' em} (hb : lo ≠ 0 ∨ hi ≠ none)
    (h : peg (n + 2) env (.iterP (.repeated a lo hi)) s ctx = .ok v s' em) :
    ∃ vs, RepRun (peg n) env ctx a lo hi s vs s' em ∧ v = .unit :=
  peg_iterP_repeated_slow hb h

/-- **separated_by, collected**: the run is `[leading separator, only with allow_leading] item (separator item)*
    [trailing separator, only with allow_trailing]` (`SepRun`, `SepStop`, `SepTail`): it stops only at the cap
    (then without looking for a trailing separator), because the separator fails, or because the item after a
    separator fails (the separator is then given back unless `allow_trailing`). -/
theorem c02_separated_collect {env : Env} {ctx : Val} {n k a sep lo hi lead trail s v s' em}
    (h : peg (n + 2) env (.collect k (.separatedBy a sep lo hi lead trail)) s ctx = .ok v s' em) :
    ∃ vs, SepRun (peg n) env ctx a sep lo hi lead trail s vs s' em ∧ v = sCollectOut k vs :=
  peg_collect_separatedBy h

theorem c02_separated_bounds {P : SRunner} {env : Env} {ctx : Val} {a sep lo hi lead trail s vs s' e}
    (h : SepRun P env ctx a sep lo hi lead trail s vs s' e) (hwf : ∀ m, hi = some m → lo ≤ m) :
    lo ≤ vs.length ∧ ∀ m, hi = some m → vs.length ≤ m :=
  ⟨h.lo_le hwf, h.le_hi⟩

/-- without `allow_leading`/`allow_trailing` exactly `item (separator item)*` is consumed: a separator only
    between two accepted items, end position just after the last accepted item -/
theorem c02_separated_strict {P : SRunner} {env : Env} {ctx : Val} {a sep lo hi s vs s' e}
    (h : SepRun P env ctx a sep lo hi false false s vs s' e) :
    (vs = [] ∧ s' = s ∧ e = []) ∨
    (∃ v vs' s1 e1 em, vs = v :: vs' ∧ P env a s ctx = .ok v s1 e1 ∧
      SepTail P env ctx a sep s1 vs' s' em ∧ e = e1 ++ em) :=
  h.strict

/-- with no items nothing is consumed — except a lone separator when both `allow_leading` and `allow_trailing` hold -/
theorem c02_separated_empty {P : SRunner} {env : Env} {ctx : Val} {a sep lo hi lead trail s s' e}
    (h : SepRun P env ctx a sep lo hi lead trail s [] s' e) :
    (s' = s ∧ e = []) ∨
    (lead = true ∧ trail = true ∧ ∃ w, P env sep s ctx = .ok w s' e ∧ P env a s' ctx = .fail) :=
  h.nil_pos

/-- the same bounds apply when the count comes from `configure()`: see `c15_configure_rep_next`. -/
theorem c02_configure_bounds (n : Nat) : cfgBounds .exactlyFromCtx (.nat n) = (some n, some n) := rfl

/-- **finding (recorded in known_findings.json, D14).** With ill-formed bounds `at_least > at_most` the count can
    never be "within [at_least, at_most]", yet the cap is tested before `at_least`: the repetition succeeds with
    `at_most` items. Negation witness for the unrestricted statement (machine and reading agree, and so does the
    real crate): `just('a').repeated().at_least(2).at_most(1).collect()` accepts "a". -/
theorem c02_ill_formed_bounds_witness :
    (match parseTop 10 { toks := [97], memoOn := false } .emit (.collect .vec (.repeated (.just [97]) 2 (some 1))) with
      | .result r _ => (r.output, r.errs.length)
      | _ => (none, 99)) = (some (.cons (.toks [97]) .nil), 0) := by
  decide +kernel

/-- non-vacuity: trailing separator allowed, leading not -/
example :
    (match parseTop 12 { toks := [97, 44, 97, 44], memoOn := false } .emit
        (.collect .vec (.separatedBy (.just [97]) (.just [44]) 1 none false true)) with
      | .result r f => (r.output, f.pos)
      | _ => (none, 0)) = (some (.cons (.toks [97]) (.cons (.toks [97]) .nil)), 4) := by
  decide +kernel

/-! ### repetitions of extensions (`EEnv`): a sequence of groups, `expr.separated_by(',')` inside a group, operators whose operand
  is a repeated nested parse — the items (and separators) are read by `pegE`, the characterisations are the same -/

theorem c02_extensions_machine_refines (e : EEnv) (n : Nat) (env : Env) (m : Mode) (st : St) (hm : env.memoOn = false) (it : It)
    (k : CollKind) :
    Refines m st.errs st.ctx (runE e n env m (.collect k it) st) (pegE e n env (.collect k it) st.ss st.ctx) :=
  runE_refines e n env m _ st hm

theorem c02_extensions_repeated_collect {e : EEnv} {env : Env} {ctx : Val} {n a lo hi s v s' em}
    (hwf : ∀ h, hi = some h → lo ≤ h)
    (h : pegE e (n + 2) env (.collect .vec (.repeated a lo hi)) s ctx = .ok v s' em) :
    ∃ vs, Chain (pegE e n) env ctx a s vs s' em ∧ v = Val.ofList vs ∧ lo ≤ vs.length ∧
      (∀ h, hi = some h → vs.length ≤ h) ∧ (hi = some vs.length ∨ pegE e n env a s' ctx = .fail) :=
  pegE_collect_vec_repeated hwf h

theorem c02_extensions_separated_collect {e : EEnv} {env : Env} {ctx : Val} {n k a sep lo hi lead trail s v s' em}
    (h : pegE e (n + 2) env (.collect k (.separatedBy a sep lo hi lead trail)) s ctx = .ok v s' em) :
    ∃ vs, SepRun (pegE e n) env ctx a sep lo hi lead trail s vs s' em ∧ v = sCollectOut k vs :=
  pegE_collect_separatedBy h

#print axioms c02_extensions_machine_refines
#print axioms c02_extensions_repeated_collect
#print axioms c02_extensions_separated_collect
#print axioms c02_machine_refines
#print axioms c02_repeated_collect
#print axioms c02_repeated_count
#print axioms c02_repeated_foldl
#print axioms c02_repeated_foldr
#print axioms c02_repeated_enumerate
#print axioms c02_repeated_collect_exactly
#print axioms c02_repeated_plain
#print axioms c02_separated_collect
#print axioms c02_separated_bounds
#print axioms c02_separated_strict
#print axioms c02_separated_empty
#print axioms c02_ill_formed_bounds_witness
end Chumsky
