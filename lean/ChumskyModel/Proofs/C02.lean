import ChumskyModel.Model.Spec
namespace Chumsky
theorem placeholder_C02 : True := trivial
#print axioms placeholder_C02
end Chumsky
