def hello := "world"
