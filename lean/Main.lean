/-
  Driver: reads case lines (see harness/src/ast.rs for the format), runs the machine and the spec on
  every input of the case and prints canonical observation lines.

    <id> <ek> <kind> <mode> <fuel> D <ndefs> G.. M G  I <inputspec>*
    inputspec ::= all <maxlen> <k> t1..tk | lit <n> t1..tn

  output, per (case, input k):
    <id>.<k> M <machine observation>
    <id>.<k> S <spec observation>
-/
import ChumskyModel.Model.Spec
import ChumskyModel.Model.Text
import ChumskyModel.Model.Pratt
import ChumskyModel.Model.Ext
import ChumskyModel.Model.Drops
import ChumskyModel.Model.Input
import ChumskyModel.Model.Nested
import ChumskyModel.Model.Delims
open Chumsky

abbrev P := StateT (List String) (Except String)

def tok : P String := do
  match (← get) with
  | [] => throw "unexpected end of line"
  | t :: ts => set ts; pure t

def nat : P Nat := do
  let t ← tok
  match t.toNat? with
  | some n => pure n
  | none => throw s!"expected a number, got {t}"

def optNat : P (Option Nat) := do
  let t ← tok
  if t == "-" then pure none else
  match t.toNat? with
  | some n => pure (some n)
  | none => throw s!"expected a number or -, got {t}"

def boolP : P Bool := do pure ((← nat) != 0)

def natList : P (List Nat) := do
  let n ← nat
  let mut acc := []
  for _ in [0:n] do acc := (← nat) :: acc
  pure acc.reverse

partial def valP : P Val := do
  match (← tok) with
  | "vunit" => pure .unit
  | "vtok" => pure (.tok (← nat))
  | "vtoks" => pure (.toks (← natList))
  | "vnat" => pure (.nat (← nat))
  | "vtag" => do let k ← nat; pure (.tag k (← valP))
  | "vnone" => pure .none
  | "vnil" => pure .nil
  | t => throw s!"bad value {t}"

def predP : P PredFn := do
  match (← tok) with
  | "always" => pure .always
  | "never" => pure .never
  | "tokis" => pure (.tokIs (← nat))
  | "toknot" => pure (.tokNot (← nat))
  | "issome" => pure .isSome
  | "isnil" => pure .isNil
  | t => throw s!"bad pred {t}"

def mapFnP : P MapFn := do
  match (← tok) with
  | "tag" => pure (.tag (← nat))
  | "fst" => pure .fst
  | "snd" => pure .snd
  | "dup" => pure .dup
  | "track" => pure (.tag 99)       -- C19: the harness creates a drop-tracked marker here; the model only needs the shape
  | t => throw s!"bad mapfn {t}"

def foldFnP : P FoldFn := do
  match (← tok) with
  | "fpair" => pure .pair
  | "fcount" => pure .count
  | t => throw s!"bad foldfn {t}"

def cfgFnP : P CfgFn := do
  match (← tok) with
  | "seqctx" => pure .seqFromCtx
  | "exactlyctx" => pure .exactlyFromCtx
  | "atleastctx" => pure .atLeastFromCtx
  | "atmostctx" => pure .atMostFromCtx
  | "keep" => pure .keep
  | t => throw s!"bad cfgfn {t}"

def ctxFnP : P CtxFn := do
  match (← tok) with
  | "id" => pure .id
  | "ctag" => pure (.tag (← nat))
  | "lenof" => pure .lenOf
  | t => throw s!"bad ctxfn {t}"

def collKindP : P CollKind := do
  match (← tok) with
  | "vec" => pure .vec
  | "string" => pure .string
  | "count" => pure .count
  | "unit" => pure .unit
  | t => throw s!"bad collkind {t}"

mutual
partial def gP : P G := do
  match (← tok) with
  | "end" => pure .end_
  | "empty" => pure .empty
  | "any" => pure .any
  | "just" => pure (.just (← natList))
  | "oneof" => pure (.oneOf (← natList))
  | "noneof" => pure (.noneOf (← natList))
  | "select" => pure (.select (← natList))
  -- `any_ref()` / `select_ref!`: the by-reference primitives (`BorrowInput::next_ref`) read the same token as the by-value ones
  | "anyref" => pure .any
  | "selectref" => pure (.select (← natList))
  | "cnext" => pure (.custom (.next (← nat)))
  | "ctake2" => pure (.custom (.take2Fail (← nat)))
  | "cnothing" => pure (.custom .nothing)
  | "cfail" => pure (.custom (.failNow (← nat)))
  | "todo" => pure .todo
  | "then" => do let a ← gP; let b ← gP; pure (.then_ a b)
  | "ithen" => do let a ← gP; let b ← gP; pure (.ignoreThen a b)
  | "theni" => do let a ← gP; let b ← gP; pure (.thenIgnore a b)
  | "delim" => do let a ← gP; let l ← gP; let r ← gP; pure (.delimitedBy a l r)
  | "padded" => do let a ← gP; let p ← gP; pure (.paddedBy a p)
  | "group" => pure (.group (← gListP))
  | "grouparr" => pure (.groupArr (← gListP))
  | "or" => do let a ← gP; let b ← gP; pure (.or_ a b)
  | "choicet" => pure (.choice .tuple (← gListP))
  | "choices" => pure (.choice .slice (← gListP))
  | "ornot" => pure (.orNot (← gP))
  | "not" => pure (.not_ (← gP))
  | "andis" => do let a ← gP; let b ← gP; pure (.andIs a b)
  | "rewind" => pure (.rewind (← gP))
  | "map" => do let f ← mapFnP; pure (.map f (← gP))
  | "to" => do let v ← valP; pure (.to v (← gP))
  | "ignored" => pure (.ignored (← gP))
  | "filter" => do let p ← predP; pure (.filter p (← gP))
  | "trymap" => do let p ← predP; let m ← nat; let t ← nat; pure (.tryMap ⟨p, m, t⟩ (← gP))
  | "trymapw" => do let p ← predP; let m ← nat; let t ← nat; pure (.tryMapWith ⟨p, m, t⟩ (← gP))
  | "tospan" => pure (.toSpan (← gP))
  | "toslice" => pure (.toSlice (← gP))
  | "mwspan" => pure (.mapWithSpan (← gP))
  | "mwstate" => pure (.mapWithState (← gP))
  | "mwctx" => pure (.mapWithCtx (← gP))
  | "validate" => do let p ← predP; let m ← nat; let c ← nat; pure (.validate ⟨p, m, c⟩ (← gP))
  | "collect" => do let k ← collKindP; pure (.collect k (← itP))
  | "collectx" => do let n ← nat; pure (.collectExactly n (← itP))
  | "foldl" => do let f ← foldFnP; let a ← gP; let it ← itP; pure (.foldl f a it)
  | "foldr" => do let f ← foldFnP; let it ← itP; let b ← gP; pure (.foldr f it b)
  | "foldlw" => do let a ← gP; let it ← itP; pure (.foldlWith a it)
  | "foldrw" => do let it ← itP; let b ← gP; pure (.foldrWith it b)
  | "iterp" => pure (.iterP (← itP))
  | "recvia" => do let a ← gP; let r ← gP; pure (.recoverVia a r)
  | "recskip" => do let a ← gP; let s ← gP; let u ← gP; let v ← valP; pure (.recoverSkipUntil a s u v)
  | "recretry" => do let a ← gP; let s ← gP; let u ← gP; pure (.recoverSkipRetry a s u)
  -- `recover_with(via_parser(nested_delimiters(s, e, others, |span| span)))`; the recursive block is definition `K` (`ndblock`)
  | "recnd" => do let a ← gP; let k ← nat; let s ← nat; let e ← nat; let _ ← natList; pure (.recoverVia a (ndTop k (s, e)))
  | "ndblock" => do let k ← nat; let s ← nat; let e ← nat; let l ← natList; pure (ndBlock k (s, e) (ndPairs l))
  | "label" => do let l ← nat; let c ← boolP; pure (.labelled l c (← gP))
  | "maperr" => do let k ← nat; pure (.mapErr k (← gP))
  | "withctx" => do let v ← valP; pure (.withCtx v (← gP))
  | "iwctx" => do let a ← gP; let b ← gP; pure (.ignoreWithCtx a b)
  | "twctx" => do let a ← gP; let b ← gP; pure (.thenWithCtx a b)
  | "mapctx" => do let f ← ctxFnP; pure (.mapCtx f (← gP))
  | "cfgjust" => do let c ← cfgFnP; pure (.configureJust c (← natList))
  | "withstate" => pure (.withState (← gP))
  | "memo" => do let i ← nat; pure (.memoized i (← gP))
  | "memonest" => do let i ← nat; let a ← gP; pure (.memoized i (.memoized (i + 1000) a))
  | "memozst" => do let i ← nat; pure (.to .unit (.or_ (.memoized i (.ignored .any)) (.memoized (i + 1000) .end_)))
  | "lazy" => do let a ← gP; pure (.thenIgnore a (.iterP (.repeated .any 0 none)))
  | "call" => pure (.call (← nat))
  | "boxed" => pure (.boxed (← gP))
  | t => throw s!"bad grammar token {t}"
partial def gListP : P (List G) := do
  let n ← nat
  let mut acc := []
  for _ in [0:n] do acc := (← gP) :: acc
  pure acc.reverse
partial def itP : P It := do
  match (← tok) with
  | "rep" => do let a ← gP; let lo ← nat; let hi ← optNat; pure (.repeated a lo hi)
  | "sep" => do
      let a ← gP; let s ← gP; let lo ← nat; let hi ← optNat; let l ← boolP; let t ← boolP
      pure (.separatedBy a s lo hi l t)
  | "enum" => pure (.enumerate (← itP))
  | "ornotit" => pure (.orNotIt (← gP))
  | "intoiter" => pure (.intoIter (← gP))
  | "thenit" => do let a ← itP; let b ← itP; pure (.thenIt a b)
  | "mapit" => do let f ← mapFnP; pure (.mapIt f (← itP))
  | "cfgrep" => do let c ← cfgFnP; pure (.configureRep c (← itP))
  | "trycfgrep" => do let m ← nat; pure (.tryConfigureRep ⟨m⟩ (← itP))
  | t => throw s!"bad iter token {t}"
end

/-! ### rendering -/

def joinWith (sep : String) (xs : List String) : String := sep.intercalate xs

def renderToks (ts : List Nat) : String := joinWith "." (ts.map toString)

/-- the harness's inspector keeps `(count, hash)` of the tokens it was fed -/
def renderInsp (ts : List Nat) : String :=
  let h := ts.foldl (fun h t => (h * 31 + t + 1) % 18446744073709551616) 0
  s!"{ts.length}:{h}"

partial def renderVal : Val → String
  | .unit => "u"
  | .tok t => s!"t{t}"
  | .toks ts => "s" ++ renderToks ts
  | .pair a b => s!"(p {renderVal a} {renderVal b})"
  | .nil => "n"
  | .cons h t => s!"(c {renderVal h} {renderVal t})"
  | .none => "o"
  | .some v => s!"(j {renderVal v})"
  | .tag k v => s!"(g {k} {renderVal v})"
  | .span s e => s!"(sp {s} {e})"
  | .slice s e => s!"(sl {s} {e})"
  | .nat n => s!"#{n}"
  | .insp ts => "i" ++ renderInsp ts

def renderPat : Pat → String
  | .tok t => s!"t{t}"
  | .label l => s!"l{l}"
  | .any => "any"
  | .somethingElse => "else"
  | .eoi => "eoi"

def sortStrings (xs : List String) : List String := (xs.toArray.qsort (· < ·)).toList

def renderErr (e : Err) : String :=
  let reason := match e.reason with
    | .ef exp found =>
      let f := match found with | some t => toString t | none => "-"
      "E[" ++ joinWith "," (sortStrings (exp.map renderPat)) ++ "]F" ++ f
    | .custom m => s!"C{m}"
  let ctx := joinWith "," (e.ctx.map fun c => s!"{renderPat c.1}@{c.2.1}-{c.2.2}")
  "{" ++ s!"{e.span.1}-{e.span.2};{reason};{ctx}" ++ "}"

def panicName (w : Nat) : String :=
  if w == pTodo then "todo"
  else if w == pNoProgress then "no-progress"
  else if w == pUnwrapRecovery then "unwrap-recovery"
  else if w == pUnwrapMapErr then "unwrap-maperr"
  else if w == pIllTyped then "ill-typed"
  else if w == pUndefined then "undefined"
  else s!"p{w}"

def renderTop : TopOut → String
  | .panic w => s!"P {panicName w}"
  | .oof => "OOF"
  | .result r final =>
    let out := match r.output with | some v => s!"ok {renderVal v}" | none => "none"
    let insp := match r.output with | some _ => renderInsp final.insp | none => "-"
    let ir := match r.intoResult with | .ok _ => "ok" | .error _ => "err"
    s!"R {out} ; {joinWith "|" (r.errs.map renderErr)} ; insp={insp} ; ir={ir}"

/-- summary of the ghost log of a failed parse: furthest position, and what the events there say
    (the first custom message, else the union of the expected patterns) -/
def renderLogSummary (env : Env) (log : List Loc) : String :=
  match log with
  | [] => "none"
  | _ =>
    let p := log.foldl (fun m l => max m l.pos) 0
    let at_ := log.filter (·.pos == p)
    let custom := at_.findSome? fun (l : Loc) => match l.err.reason with | Reason.custom m => some m | _ => none
    let desc := match custom with
      | some m => s!"C{m}"
      | none =>
        let exps := at_.flatMap fun (l : Loc) => match l.err.reason with | Reason.ef e _ => e.map renderPat | _ => []
        "E[" ++ joinWith "," (sortStrings exps).eraseDups ++ "]"
    let span := match at_ with | l :: _ => s!"{l.err.span.1}-{l.err.span.2}" | [] => "-"
    s!"{env.off p} {span} {desc}"

def renderEmis : Emis → String
  | .user l => renderErr l.err
  | .recovered p => s!"rec@{p}"

def renderSpec : SOut → String
  | .panic w => s!"P {panicName w}"
  | .oof => "OOF"
  | .fail => "fail"
  | .ok v s em => s!"ok {renderVal v} ; {joinWith "|" (em.map renderEmis)} ; insp={renderInsp s.insp}"

/-! ### cases -/

/-- all strings over `alpha` of length exactly `n`, in lexicographic order of alphabet indices -/
def stringsOfLen (alpha : List Nat) : Nat → List (List Nat)
  | 0 => [[]]
  | n + 1 => alpha.flatMap fun a => (stringsOfLen alpha n).map (a :: ·)

def allStrings (alpha : List Nat) (maxLen : Nat) : List (List Nat) :=
  (List.range (maxLen + 1)).flatMap (stringsOfLen alpha)

partial def inputsP : P (List (List Nat)) := do
  match (← get) with
  | [] => pure []
  | _ =>
    match (← tok) with
    | "all" => do
        let maxLen ← nat
        let alpha ← natList
        let rest ← inputsP
        pure (allStrings alpha maxLen ++ rest)
    | "lit" => do
        let ts ← natList
        let rest ← inputsP
        pure (ts :: rest)
    | t => throw s!"bad input spec {t}"

structure Case where
  id : String
  ek : ErrKind
  kind : InKind
  gap : Nat
  mode : Mode
  fuel : Nat
  defs : List G
  main : G
  inputs : List (List Nat)
  hasMemo : Bool := true

def caseP : P Case := do
  let id ← tok
  let ek ← match (← tok) with
    | "rich" => pure ErrKind.rich | "simple" => pure ErrKind.simple
    | "cheap" => pure ErrKind.cheap | "empty" => pure ErrKind.empty
    | t => throw s!"bad error kind {t}"
  let kt ← tok
  let (kind, gap) ← match kt with
    | "slice" => pure (InKind.slice, 0) | "str" => pure (InKind.str, 0)
    | "mapped0" => pure (InKind.mapped, 0) | "mapped1" => pure (InKind.mapped, 1)
    | "mapped3" => pure (InKind.mapped, 3)
    | "stream" => pure (InKind.slice, 0)
    -- C10: representations whose spans are plain token indices (`map_span` is re-based by the orchestrator)
    | "array" => pure (InKind.slice, 0) | "bstream" => pure (InKind.slice, 0)
    | "wctx" => pure (InKind.slice, 0) | "mspan" => pure (InKind.slice, 0)
    -- `Input::map` over an `IoInput`: the span of a token is derived from the byte (`b..b+1`), gap code 99
    | "iomap" => pure (InKind.mapped, 99)
    | "mstream0" => pure (InKind.mapped, 0) | "mstream1" => pure (InKind.mapped, 1)
    | "mstream3" => pure (InKind.mapped, 3)
    | t => throw s!"bad input kind {t}"
  let mode ← match (← tok) with
    | "parse" => pure Mode.emit | "check" => pure Mode.check
    | t => throw s!"bad mode {t}"
  let fuel ← nat
  let d ← tok
  if d != "D" then throw "expected D"
  let defs ← gListP
  let m ← tok
  if m != "M" then throw "expected M"
  let main ← gP
  let i ← tok
  if i != "I" then throw "expected I"
  let inputs ← inputsP
  pure { id, ek, kind, gap, mode, fuel, defs, main, inputs }

/-- token spans of a `mapped` input with gap `g`: token i covers [i*(g+2)+g, i*(g+2)+g+2) -/
def mappedSpans (n gap : Nat) : List (Nat × Nat) :=
  (List.range n).map fun i => (i * (gap + 2) + gap, i * (gap + 2) + gap + 2)

/-- does a `memoized` node occur in the case? (decides `Env.memoOn`: without such nodes the machine is run in exactly
    the configuration the refinement theorems cover) -/
def caseHasMemo (line : List String) : Bool := line.any (·.startsWith "memo")

def mkEnv (c : Case) (toks : List Nat) : Env :=
  let n := toks.length
  if c.gap == 99 then
    { toks := toks, kind := c.kind, ek := c.ek, defs := c.defs, memoOn := c.hasMemo,
      tspans := toks.map (fun t => (t, t + 1)), eoi := (200, 200) }
  else
  { toks := toks, kind := c.kind, ek := c.ek, defs := c.defs, memoOn := c.hasMemo,
    tspans := mappedSpans n c.gap,
    eoi := (n * (c.gap + 2) + c.gap, n * (c.gap + 2) + c.gap) }

def runCase (c : Case) (out : IO.FS.Stream) : IO Unit := do
  let mut k := 0
  for toks in c.inputs do
    let env := mkEnv c toks
    let fuel := c.fuel
    let top := parseTop fuel env c.mode c.main
    out.putStrLn s!"{c.id}.{k} M {renderTop top}"
    match top with
    | .result r final => if r.output.isNone then out.putStrLn s!"{c.id}.{k} X {renderLogSummary env final.log}"
    | _ => pure ()
    out.putStrLn s!"{c.id}.{k} S {renderSpec (pegTop fuel env c.main)}"
    k := k + 1

/-! ### pratt (C09):  PR <id> <ek> <kind> <mode> <fuel> A <atom> O <n> (infixl|infixr|prefix|postfix) <bp> <op> ... I <inputspec> -/

def prattOpP : P PrattOp := do
  match (← tok) with
  | "infixl" => do let bp ← nat; pure (.infix true bp (← gP))
  | "infixr" => do let bp ← nat; pure (.infix false bp (← gP))
  | "prefix" => do let bp ← nat; pure (.prefix bp (← gP))
  | "postfix" => do let bp ← nat; pure (.postfix bp (← gP))
  | t => throw s!"bad pratt operator {t}"

def prattCase : P (Case × G × List PrattOp × Bool) := do
  let id ← tok
  let ek ← match (← tok) with
    | "rich" => pure ErrKind.rich | "simple" => pure ErrKind.simple
    | "cheap" => pure ErrKind.cheap | "empty" => pure ErrKind.empty
    | t => throw s!"bad error kind {t}"
  let (kind, gap) ← match (← tok) with
    | "slice" => pure (InKind.slice, 0) | "str" => pure (InKind.str, 0)
    | t => throw s!"bad input kind {t}"
  let mode ← match (← tok) with
    | "parse" => pure Mode.emit | "check" => pure Mode.check
    | t => throw s!"bad mode {t}"
  let fuel ← nat
  let a0 ← tok
  -- `X`: the table is the body of `recursive(|e| ..)`; `call 0` inside the atom / operators is `e`
  let isRec := a0 == "X"
  let a ← if isRec then tok else pure a0
  if a != "A" then throw "expected A"
  let atom ← gP
  let o ← tok
  if o != "O" then throw "expected O"
  let n ← nat
  let mut ops := []
  for _ in [0:n] do ops := (← prattOpP) :: ops
  let i ← tok
  if i != "I" then throw "expected I"
  let inputs ← inputsP
  pure ({ id, ek, kind, gap, mode, fuel, defs := [], main := atom, inputs, hasMemo := false }, atom, ops.reverse, isRec)

/-! ### text parsers (C14):  T <id> <char|u8> <parser> <nparams> <params..> I <inputspec> -/

def textCase : P (String × Text.CC × String × List Nat × List (List Nat)) := do
  let id ← tok
  let cc ← match (← tok) with
    | "char" => pure Text.charCC | "u8" => pure Text.u8CC
    | t => throw s!"bad text instance {t}"
  let pname ← tok
  let params ← natList
  let i ← tok
  if i != "I" then throw "expected I"
  let inputs ← inputsP
  pure (id, cc, pname, params, inputs)

def runText (cc : Text.CC) (pname : String) (params : List Nat) (toks : List Nat) : String :=
  let r := params.headD 10
  let plain (res : Option Nat) : String :=
    match res with | some e => s!"ok 0 {e} {e}" | none => "none"
  match pname with
  | "ws" => plain (Text.whitespace cc toks 0)
  | "iws" => plain (Text.inlineWhitespace cc toks 0)
  | "ws_b" => plain (Text.whitespaceB cc r (params.getD 1 9) toks 0)
  | "iws_b" => plain (Text.inlineWhitespaceB cc r (params.getD 1 9) toks 0)
  | "ws_x" => plain (Text.whitespaceB cc r r toks 0)
  | "digits" => plain (Text.digits cc r toks 0)
  | "int" => plain (Text.int cc r toks 0)
  | "aident" => plain (Text.asciiIdent cc toks 0)
  | "uident" => plain (Text.unicodeIdent cc toks 0)
  | "akw" => plain (Text.asciiKeyword cc params toks 0)
  | "ukw" => plain (Text.unicodeKeyword cc params toks 0)
  | "newline" => plain (Text.newline cc toks 0)
  | "pad_int" => (match Text.padded cc (Text.int cc r) toks 0 with
      | some (s, e, en) => s!"ok {s} {e} {en}" | none => "none")
  | "pad_aident" => (match Text.padded cc (Text.asciiIdent cc) toks 0 with
      | some (s, e, en) => s!"ok {s} {e} {en}" | none => "none")
  | other => s!"ERR unknown-parser-{other}"

/-! ### drop ledger (C19):  DR <id> <ce|ga|tk> <N> <boxed> <parse|check> <lo> <hi|-> I <inputspec> -/

def dropCase : P (String × String × Nat × Bool × String × Nat × Option Nat × List (List Nat)) := do
  let id ← tok
  let fam ← tok
  let n ← nat
  let boxed ← boolP
  let mode ← tok
  let lo ← nat
  let hi ← optNat
  let i ← tok
  if i != "I" then throw "expected I"
  let inputs ← inputsP
  pure (id, fam, n, boxed, mode, lo, hi, inputs)

/-- how many leading `a` (97) the input has: the item parser `just('a').map(track)` succeeds exactly that often -/
def leadingA : List Nat → Nat
  | 97 :: ts => leadingA ts + 1
  | _ => 0

def runDrop (fam : String) (n : Nat) (boxed : Bool) (mode : String) (hi : Option Nat) (toks : List Nat) : String :=
  let c := leadingA toks
  let m := match hi with | some h => min c h | none => c
  let next : Nat → Drops.Next := fun i => if i < m then .item i else .stop
  if mode == "check" then
    -- no value is built in check mode: the mappers do not run, the ledger is never touched
    s!"created=0 dropped=0 returned=0 ok={if Drops.complete next n 0 then 1 else 0}"
  else
    -- `cz` / `gz`: the same code with a zero-sized item type — the ledger does not depend on the item's size
    let r := if fam == "ga" || fam == "gz" || fam == "gf" then Drops.groupArr n next else Drops.collectExactly n boxed next
    let created := (Drops.created next n 0).length
    s!"created={created} dropped={r.1.drops.length} returned={r.1.out.length} ok={if r.2 then 1 else 0}"

/-! ### input implementations (C10):  IN <id> <kind> S <n> k1..kn I <inputspec> -/

def inputCase : P (String × String × List Nat × List (List Nat)) := do
  let id ← tok
  let kind ← tok
  let s ← tok
  if s != "S" then throw "expected S"
  let sched ← natList
  let i ← tok
  if i != "I" then throw "expected I"
  let inputs ← inputsP
  pure (id, kind, sched, inputs)

def renderObs (obs : List (Nat × Option Nat)) : String :=
  String.join (obs.map fun (l, t) => s!" {l}:{match t with | some t => toString t | none => "-"}")

def runInput (kind : String) (sched toks : List Nat) : String :=
  open Chumsky.Input in
  let gapSpan (i : Nat) : Nat × Nat := (i * 3 + 1, i * 3 + 3)          -- the harness's `mapped_tokens(_, gap = 1)`
  match kind with
  | "slice" => renderObs (replay (listImpl toks) sched () [0])
  | "str" =>
    -- the implementation's locations are byte offsets; the harness reports character indices
    let lay := layout toks 0
    let idxOf (off : Nat) : Nat := (lay.filter (fun p => p.1 < off)).length
    renderObs ((replay (strImpl toks) sched () [0]).map fun (l, t) => (idxOf l, t))
  | "stream" =>
    let obs := replay (streamImpl 512) sched (streamBegin toks) [0]
    let fin := replayFinal (streamImpl 512) sched (streamBegin toks) [0]
    s!"{renderObs obs} ; pulls={fin.pulls.length} inorder={if fin.pulls == toks.take fin.pulls.length then 1 else 0}"
  | "bstream" => renderObs (replay (streamImpl 512) sched (streamBegin toks) [0])
  | "io" => renderObs (replay ioImpl sched (ioBegin toks) [0])
  | "iomap" => renderObs (replay (mappedImpl ioImpl (fun t => (t, t + 1))) sched (ioBegin toks) [(0, none)])
  | "mapped" => renderObs (replay (mappedImpl (listImpl toks) (fun t => (t, t + 1))) sched () [(0, none)])
  | "iter" =>
    let src := (List.range toks.length).zip toks |>.map fun (i, t) => (t, gapSpan i)
    renderObs (replay iterImpl sched () [{ rest := src, idx := 0, lastEnd := none }])
  | "iterspan" =>
    let src := (List.range toks.length).zip toks |>.map fun (i, t) => (t, gapSpan i)
    let e := toks.length * 3 + 1
    let c0 : IterCursor := { rest := src, idx := 0, lastEnd := none }
    String.join ((replayIterSpans (e, e) c0 sched [c0] []).map fun (l, t, s1, s0, s2, s3) =>
      s!" {l}:{match t with | some t => toString t | none => "-"}@{s1.1}-{s1.2}@{s0.1}-{s0.2}@{s2.1}-{s2.2}@{s3.1}-{s3.2}")
  | other => s!" ERR unknown-kind-{other}"

/-! ### nested inputs (C16):  NG <id> <ek> <gap> <mode> <fuel> T <ngroups> (<gid> <n> kids..)* G <ngram> I <inputspec> -/

partial def ngP : P NGram := do
  match (← tok) with
  | "lift" => pure (.lift (← gP))
  | "nest" => do let a ← ngP; let b ← gP; pure (.nestedIn a b)
  | "nthen" => do let a ← ngP; let b ← ngP; pure (.then_ a b)
  | "nor" => do let a ← ngP; let b ← ngP; pure (.or_ a b)
  | "nornot" => pure (.orNot (← ngP))
  | "nspan" => pure (.mapWithSpan (← ngP))
  | t => throw s!"bad nested grammar token {t}"

structure NCase where
  id : String
  gap : Nat
  mode : Mode
  fuel : Nat
  groups : List (Nat × List Nat)
  g : NGram
  inputs : List (List Nat)

def nestedCase : P NCase := do
  let id ← tok
  let ek ← tok
  if ek != "rich" then throw s!"nested cases are Rich only, got {ek}"
  let gap ← nat
  let mode ← match (← tok) with
    | "parse" => pure Mode.emit | "check" => pure Mode.check
    | t => throw s!"bad mode {t}"
  let fuel ← nat
  let t ← tok
  if t != "T" then throw "expected T"
  let n ← nat
  let mut groups := []
  for _ in [0:n] do
    let gid ← nat
    let kids ← natList
    groups := (gid, kids) :: groups
  let g ← tok
  if g != "G" then throw "expected G"
  let ng ← ngP
  let i ← tok
  if i != "I" then throw "expected I"
  let inputs ← inputsP
  pure { id, gap, mode, fuel, groups := groups.reverse, g := ng, inputs }

/-! ### nested_in anywhere (C16, general form):
     NH <id> <ek> <gap> <mode> <fuel> T <ngroups> (<gid> <n> kids..)* A <G a> B <G b> M <G main> I <inputspec>
   inside `a`, `b` and `main`, `call 0` is `a.nested_in(b)` -/

structure HCase where
  id : String
  ek : ErrKind
  gap : Nat
  mode : Mode
  fuel : Nat
  h : HEnv
  main : G
  inputs : List (List Nat)

def nestedHCase : P HCase := do
  let id ← tok
  let ek ← match (← tok) with
    | "rich" => pure ErrKind.rich | "empty" => pure ErrKind.empty
    | t => throw s!"nested cases are Rich or EmptyErr, got {t}"
  let gap ← nat
  let mode ← match (← tok) with
    | "parse" => pure Mode.emit | "check" => pure Mode.check
    | t => throw s!"bad mode {t}"
  let fuel ← nat
  let t ← tok
  if t != "T" then throw "expected T"
  let n ← nat
  let mut groups := []
  for _ in [0:n] do
    let gid ← nat
    let kids ← natList
    groups := (gid, kids) :: groups
  let ta ← tok
  if ta != "A" then throw "expected A"
  let a ← gP
  let tb ← tok
  if tb != "B" then throw "expected B"
  let b ← gP
  let tm ← tok
  if tm != "M" then throw "expected M"
  let main ← gP
  let i ← tok
  if i != "I" then throw "expected I"
  let inputs ← inputsP
  pure { id, ek, gap, mode, fuel, h := { hole := 0, a, b, groups := groups.reverse, gap }, main, inputs }

def mkHEnvBase (gap : Nat) (toks : List Nat) : Env :=
  let n := toks.length
  { toks := toks, kind := .mapped, ek := .rich, defs := [], memoOn := false,
    tspans := layoutSpans gap n 0, eoi := (n * (gap + 2) + gap, n * (gap + 2) + gap) }

/-! ### several extensions at once (model: Model/Ext.lean):
     EX <id> <ek> <gap> <mode> <fuel> T <ngroups> (<gid> <n> kids..)* X <n> ( P A <atom> O <nops> <op>.. | N A <a> B <b> )* M <main> I <inputspec>
   `call i` is extension `i` everywhere -/

structure ECase where
  id : String
  ek : ErrKind
  gap : Nat
  mode : Mode
  fuel : Nat
  e : EEnv
  main : G
  inputs : List (List Nat)

def extP : P Ext := do
  match (← tok) with
  | "P" => do
    let a ← tok
    if a != "A" then throw "expected A"
    let atom ← gP
    let o ← tok
    if o != "O" then throw "expected O"
    let n ← nat
    let mut ops := []
    for _ in [0:n] do ops := (← prattOpP) :: ops
    pure (.pratt atom ops.reverse)
  | "N" => do
    let a ← tok
    if a != "A" then throw "expected A"
    let ga ← gP
    let b ← tok
    if b != "B" then throw "expected B"
    pure (.nested ga (← gP))
  | t => throw s!"bad extension kind {t}"

def extCase : P ECase := do
  let id ← tok
  let ek ← match (← tok) with
    | "rich" => pure ErrKind.rich | "empty" => pure ErrKind.empty
    | t => throw s!"extension cases are Rich or EmptyErr, got {t}"
  let gap ← nat
  let mode ← match (← tok) with
    | "parse" => pure Mode.emit | "check" => pure Mode.check
    | t => throw s!"bad mode {t}"
  let fuel ← nat
  let t ← tok
  if t != "T" then throw "expected T"
  let n ← nat
  let mut groups := []
  for _ in [0:n] do
    let gid ← nat
    let kids ← natList
    groups := (gid, kids) :: groups
  let x ← tok
  if x != "X" then throw "expected X"
  let nx ← nat
  let mut exts := []
  for _ in [0:nx] do exts := (← extP) :: exts
  let tm ← tok
  if tm != "M" then throw "expected M"
  let main ← gP
  let i ← tok
  if i != "I" then throw "expected I"
  let inputs ← inputsP
  pure { id, ek, gap, mode, fuel, e := { base := 0, exts := exts.reverse, groups := groups.reverse, gap }, main, inputs }

def mkNEnv (c : NCase) (toks : List Nat) : NEnv :=
  let n := toks.length
  { base := { toks := toks, kind := .mapped, ek := .rich, defs := [], memoOn := false,
              tspans := layoutSpans c.gap n 0, eoi := (n * (c.gap + 2) + c.gap, n * (c.gap + 2) + c.gap) },
    groups := c.groups, gap := c.gap }

partial def loop (inp out : IO.FS.Stream) : IO Unit := do
  let line ← inp.getLine
  if line.isEmpty then return ()
  let toks := (line.trimAscii.toString.splitOn " ").filter (· != "")
  if toks.isEmpty then loop inp out else
  -- `!<id> …`: a harness-only form (an equivalent formulation the model has no constructor for); its observation is
  -- compared with that of the model-known equivalent `<id>` by the check
  if (toks.head?.getD "").startsWith "!" then loop inp out else
  if toks.head? == some "PR" then
    match (prattCase.run toks.tail) with
    | .ok ((c, atom, ops, isRec), _) =>
      let mut k := 0
      for ts in c.inputs do
        let env := mkEnv c ts
        if isRec then
          let x : XEnv := { hole := 0, atom := atom, ops := ops }
          out.putStrLn s!"{c.id}.{k} M {renderTop (parseTopX x c.fuel env c.mode)}"
          out.putStrLn s!"{c.id}.{k} S {renderSpec (pegTopX x c.fuel env)}"
        else
          out.putStrLn s!"{c.id}.{k} M {renderTop (parseTopPratt c.fuel env c.mode atom ops)}"
          out.putStrLn s!"{c.id}.{k} S {renderSpec (pegTopPratt c.fuel env atom ops)}"
        k := k + 1
    | .error e => out.putStrLn s!"ERR {e} :: {line.trimAscii.toString}"
    loop inp out
  else if toks.head? == some "IN" then
    match (inputCase.run toks.tail) with
    | .ok ((id, kind, sched, inputs), _) =>
      let mut k := 0
      for ts in inputs do
        out.putStrLn s!"{id}.{k} M{runInput kind sched ts}"
        k := k + 1
    | .error e => out.putStrLn s!"ERR {e} :: {line.trimAscii.toString}"
    loop inp out
  else if toks.head? == some "DR" then
    match (dropCase.run toks.tail) with
    | .ok ((id, fam, n, boxed, mode, _lo, hi, inputs), _) =>
      let mut k := 0
      for ts in inputs do
        if fam == "tk" then out.putStrLn s!"{id}.{k} M -"
        else out.putStrLn s!"{id}.{k} M {runDrop fam n boxed mode hi ts}"
        k := k + 1
    | .error e => out.putStrLn s!"ERR {e} :: {line.trimAscii.toString}"
    loop inp out
  else if toks.head? == some "EX" then
    match (extCase.run toks.tail) with
    | .ok (c, _) =>
      let mut k := 0
      for ts in c.inputs do
        let env := { mkHEnvBase c.gap ts with ek := c.ek }
        out.putStrLn s!"{c.id}.{k} M {renderTop (parseTopE c.e c.fuel env c.mode c.main)}"
        out.putStrLn s!"{c.id}.{k} S {renderSpec (pegTopE c.e c.fuel env c.main)}"
        k := k + 1
    | .error e => out.putStrLn s!"ERR {e} :: {line.trimAscii.toString}"
    loop inp out
  else if toks.head? == some "NH" then
    match (nestedHCase.run toks.tail) with
    | .ok (c, _) =>
      let mut k := 0
      for ts in c.inputs do
        let env := { mkHEnvBase c.gap ts with ek := c.ek }
        out.putStrLn s!"{c.id}.{k} M {renderTop (parseTopH c.h c.fuel env c.mode c.main)}"
        out.putStrLn s!"{c.id}.{k} S {renderSpec (pegTopH c.h c.fuel env c.main)}"
        k := k + 1
    | .error e => out.putStrLn s!"ERR {e} :: {line.trimAscii.toString}"
    loop inp out
  else if toks.head? == some "NG" then
    match (nestedCase.run toks.tail) with
    | .ok (c, _) =>
      let mut k := 0
      for ts in c.inputs do
        let ne := mkNEnv c ts
        let top := parseTopN c.fuel ne c.mode c.g
        out.putStrLn s!"{c.id}.{k} M {renderTop top}"
        match top with
        | .result r final => if r.output.isNone then out.putStrLn s!"{c.id}.{k} X {renderLogSummary ne.base final.log}"
        | _ => pure ()
        out.putStrLn s!"{c.id}.{k} S {renderSpec (pegTopN c.fuel ne c.g)}"
        k := k + 1
    | .error e => out.putStrLn s!"ERR {e} :: {line.trimAscii.toString}"
    loop inp out
  else if toks.head? == some "T" then
    match (textCase.run toks.tail) with
    | .ok ((id, cc, pname, params, inputs), _) =>
      let mut k := 0
      for ts in inputs do
        out.putStrLn s!"{id}.{k} M {runText cc pname params ts}"
        k := k + 1
    | .error e => out.putStrLn s!"ERR {e} :: {line.trimAscii.toString}"
    loop inp out
  else
  match (caseP.run toks) with
  | .ok (c, _) => runCase { c with hasMemo := caseHasMemo toks } out
  | .error e => out.putStrLn s!"ERR {e} :: {line.trimAscii.toString}"
  loop inp out

def main : IO Unit := do
  let inp ← IO.getStdin
  let out ← IO.getStdout
  loop inp out
