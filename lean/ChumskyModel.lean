import ChumskyModel.Model.Basic
import ChumskyModel.Model.Error
import ChumskyModel.Model.Machine
import ChumskyModel.Model.Spec
