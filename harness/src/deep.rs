//! C12 (runtime part): nesting depth is limited by memory, not by the native stack.
//! `h_deep <probe> <depth>` builds one statically typed parser, runs it on an input nested `depth` levels deep on a thread with a
//! small (512 KiB) stack and prints `ok <probe> <depth> <summary>`; a stack overflow kills the process (detected by the caller).

use chumsky::error::Cheap;
use chumsky::extra;
use chumsky::pratt::*;
use chumsky::prelude::*;
use chumsky::recursive::Recursive;

type Ex = extra::Err<Cheap>;

fn parens<'a>() -> impl Parser<'a, &'a str, usize, Ex> {
    recursive(|p| p.delimited_by(just('('), just(')')).map(|d: usize| d + 1).or(just('x').to(0usize)))
}

fn mutual<'a>() -> impl Parser<'a, &'a str, usize, Ex> {
    let mut a = Recursive::declare();
    let mut b = Recursive::declare();
    a.define(just('a').ignore_then(b.clone()).map(|d: usize| d + 1).or(just('x').to(0usize)));
    b.define(just('b').ignore_then(a.clone()).map(|d: usize| d + 1).or(just('y').to(0usize)));
    a
}

/// the same cycles with the self-reference taken through the wrappers a grammar usually applies to a recursive handle
fn parens_boxed<'a>() -> impl Parser<'a, &'a str, usize, Ex> {
    recursive(|p| p.boxed().delimited_by(just('('), just(')')).map(|d: usize| d + 1).or(just('x').to(0usize)))
}

fn parens_rc<'a>() -> impl Parser<'a, &'a str, usize, Ex> {
    recursive(|p| {
        std::rc::Rc::new(Box::new(p)).delimited_by(just('('), just(')')).map(|d: usize| d + 1).or(just('x').to(0usize))
    })
}

fn mutual_boxed<'a>() -> impl Parser<'a, &'a str, usize, Ex> {
    let mut a = Recursive::declare();
    let mut b = Recursive::declare();
    a.define(just('a').ignore_then(b.clone().boxed()).map(|d: usize| d + 1).or(just('x').to(0usize)));
    b.define(just('b').ignore_then(a.clone().boxed()).map(|d: usize| d + 1).or(just('y').to(0usize)).boxed());
    a.boxed()
}

/// one declared parser whose only self-reference is a boxed clone, itself used boxed
fn declared_boxed<'a>() -> impl Parser<'a, &'a str, usize, Ex> {
    let mut a = Recursive::declare();
    a.define(a.clone().boxed().delimited_by(just('('), just(')')).map(|d: usize| d + 1).or(just('x').to(0usize)));
    a.clone().boxed()
}

/// the calculator pattern: a Pratt parser whose atom is the parenthesised expression again
fn pratt_parens<'a>() -> impl Parser<'a, &'a str, usize, Ex> {
    recursive(|e| {
        let atom = just('1').to(0usize).or(e.delimited_by(just('('), just(')')).map(|d: usize| d + 1));
        atom.pratt((
            prefix(3, just('-'), |_, r: usize, _| r + 1),
            infix(left(1), just('+'), |l: usize, _, r: usize, _| l.max(r)),
        ))
    })
}

/// long FLAT runs: every iteration consumer loops, none may recurse per item (stack use independent of the run length)
fn flat<'a>(probe: &str) -> chumsky::Boxed<'a, 'a, &'a str, usize, Ex> {
    let item = just('+').to(1usize);
    let tail = just('1').to(0usize);
    match probe {
        "flat_foldr" => item.repeated().foldr(tail, |x, acc| x + acc).boxed(),
        "flat_foldr_with" => item.repeated().foldr_with(tail, |x, acc, _| x + acc).boxed(),
        "flat_foldl" => tail.foldl(item.repeated(), |acc, x| acc + x).boxed(),
        "flat_foldl_with" => tail.foldl_with(item.repeated(), |acc, x, _| acc + x).boxed(),
        "flat_collect" => item.repeated().collect::<Vec<_>>().map(|v| v.len()).then_ignore(tail).boxed(),
        "flat_count" => item.repeated().count().then_ignore(tail).boxed(),
        "flat_sep" => item.separated_by(just(',')).allow_trailing().collect::<Vec<_>>().map(|v| v.len()).then_ignore(tail).boxed(),
        "flat_ornot" => item.or_not().repeated().at_most(usize::MAX / 2).count().then_ignore(tail).boxed(),
        "flat_plain" => item.repeated().to_slice().map(|s: &str| s.len()).then_ignore(tail).boxed(),
        _ => tail.boxed(),
    }
}

fn pratt_table<'a>() -> impl Parser<'a, &'a str, usize, Ex> {
    let atom = just('1').to(0usize);
    atom.pratt((
        prefix(3, just('-'), |_, r: usize, _| r + 1),
        postfix(4, just('!'), |l: usize, _, _| l + 1),
        infix(right(2), just('^'), |l: usize, _, r: usize, _| l.max(r) + 1),
        infix(left(1), just('+'), |l: usize, _, r: usize, _| l.max(r) + 1),
    ))
}

fn input_for(probe: &str, depth: usize) -> String {
    match probe {
        "parens" | "parens_boxed" | "parens_rc" | "declared_boxed" => format!("{}x{}", "(".repeat(depth), ")".repeat(depth)),
        "pratt_parens" => format!("{}1{}", "(".repeat(depth), ")".repeat(depth)),
        "mutual" | "mutual_boxed" => {
            let mut s = String::with_capacity(depth + 1);
            for i in 0..depth {
                s.push(if i % 2 == 0 { 'a' } else { 'b' });
            }
            s.push(if depth % 2 == 0 { 'x' } else { 'y' });
            s
        }
        "flat_sep" => format!("{}1", "+,".repeat(depth)),
        "flat_foldl" | "flat_foldl_with" => format!("1{}", "+".repeat(depth)),
        p if p.starts_with("flat_") => format!("{}1", "+".repeat(depth)),
        "pratt_prefix" => format!("{}1", "-".repeat(depth)),
        "pratt_postfix" => format!("1{}", "!".repeat(depth)),
        "pratt_infixr" => format!("1{}", "^1".repeat(depth)),
        "pratt_infixl" => format!("1{}", "+1".repeat(depth)),
        _ => String::new(),
    }
}

/// C12 "defined exactly once": a second `define` is refused (panics) AND leaves the first definition in place — for the handle
/// it was called on, for handles cloned before and after, and for the partner of a mutual recursion
fn define_twice() -> String {
    let mut a = Recursive::declare();
    let early = a.clone();
    a.define(a.clone().delimited_by(just('('), just(')')).map(|d: usize| d + 1).or(just::<_, &str, Ex>('x').to(0usize)));
    let mut again = a.clone();
    let refused = std::panic::catch_unwind(std::panic::AssertUnwindSafe(|| {
        again.define(just::<_, &str, Ex>('y').to(99usize));
    }))
    .is_err();
    let mut bad = Vec::new();
    for (inp, want) in [("x", Some(0usize)), ("((x))", Some(2)), ("y", None), ("(y)", None), ("", None)] {
        for (nm, h) in [("defined", &a), ("cloned-before", &early), ("redefined", &again)] {
            let got = h.parse(inp).into_output();
            if got != want {
                bad.push(format!("{nm}:{inp:?}:{got:?}-expected-{want:?}"));
            }
        }
    }
    // mutual recursion: redefining one half must not change what the other half sees
    let mut m = Recursive::declare();
    let mut n = Recursive::declare();
    m.define(just::<_, &str, Ex>('a').ignore_then(n.clone()).map(|d: usize| d + 1).or(just('x').to(0usize)));
    n.define(just::<_, &str, Ex>('b').ignore_then(m.clone()).map(|d: usize| d + 1).or(just('y').to(0usize)));
    let mut n2 = n.clone();
    let refused2 = std::panic::catch_unwind(std::panic::AssertUnwindSafe(|| {
        n2.define(just::<_, &str, Ex>('z').to(77usize));
    }))
    .is_err();
    for (inp, want) in [("abx", Some(2usize)), ("ay", Some(1)), ("az", None), ("x", Some(0))] {
        let got = m.parse(inp).into_output();
        if got != want {
            bad.push(format!("mutual:{inp:?}:{got:?}-expected-{want:?}"));
        }
    }
    format!("define_twice refused={} {}", refused && refused2, if bad.is_empty() { "first-definition-kept".to_string() } else { bad.join(",") })
}

pub fn main() {
    if std::env::args().nth(1).as_deref() == Some("define_twice") {
        // the refusal is reported AT THE DEFINITION SITE (`#[track_caller]`): the panic message must name the caller's `define`
        // line in this file, not a line inside the crate
        static SITES: std::sync::Mutex<Vec<String>> = std::sync::Mutex::new(Vec::new());
        std::panic::set_hook(Box::new(|info| {
            let msg = info.payload().downcast_ref::<String>().cloned()
                .or_else(|| info.payload().downcast_ref::<&str>().map(|m| m.to_string())).unwrap_or_default();
            SITES.lock().unwrap().push(msg);
        }));
        let r = define_twice();
        let sites = SITES.lock().unwrap().clone();
        // … the message names the caller's `define` line in this file
        let at_caller = sites.len() == 2 && sites.iter().all(|m| m.contains("deep.rs:"));
        println!("{}{}", r, if at_caller { "".to_string() } else { format!(" refusal-does-not-name-the-define-call-site:{sites:?}") });
        return;
    }
    let args: Vec<String> = std::env::args().collect();
    let probe = args.get(1).cloned().unwrap_or_default();
    let depth: usize = args.get(2).and_then(|s| s.parse().ok()).unwrap_or(1000);
    let check = args.get(3).map(|s| s == "check").unwrap_or(false);
    let input = input_for(&probe, depth);
    let p2 = probe.clone();
    let h = std::thread::Builder::new()
        .stack_size(512 * 1024)
        .spawn(move || {
            let s: &str = &input;
            macro_rules! run {
                ($p:expr) => {{
                    let p = $p;
                    if check {
                        format!("accepted={}", !p.check(s).has_errors())
                    } else {
                        format!("{:?}", p.parse(s).into_result().ok())
                    }
                }};
            }
            match p2.as_str() {
                "parens" => run!(parens()),
                "mutual" => run!(mutual()),
                "parens_boxed" => run!(parens_boxed()),
                "parens_rc" => run!(parens_rc()),
                "mutual_boxed" => run!(mutual_boxed()),
                "declared_boxed" => run!(declared_boxed()),
                "pratt_parens" => run!(pratt_parens()),
                p if p.starts_with("flat_") => run!(flat(p)),
                "pratt_prefix" | "pratt_postfix" | "pratt_infixr" | "pratt_infixl" => run!(pratt_table()),
                _ => "unknown-probe".to_string(),
            }
        })
        .unwrap();
    match h.join() {
        Ok(r) => println!("ok {probe} {depth} {r}"),
        Err(_) => println!("panic {probe} {depth}"),
    }
}
